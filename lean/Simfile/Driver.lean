/-
Line-protocol driver: one JSON request per line on stdin, one JSON response per line on stdout.
Run with `lake env lean --run Main.lean < requests`. Imports models and specs only (no proofs), so
it still runs when a proof obligation is broken.
-/
import Lean.Data.Json
import Simfile.Gen.Tables
import Simfile.Model.Str
import Simfile.Model.Beat
import Simfile.Model.BeatArith
import Simfile.Model.Objects
import Simfile.Model.Notes
import Simfile.Model.Group
import Simfile.Model.Engine
import Simfile.Model.EngineF
import Simfile.Model.Load
import Simfile.Model.Entry
import Simfile.Model.EndToEnd
import Simfile.Model.Msd
import Simfile.Model.MsdParser
import Simfile.Lemmas.MsdTextStray
import Simfile.Model.Source
import Simfile.Model.Convert
import Simfile.Model.Views
import Simfile.Model.Equality
import Simfile.Model.Edit
import Simfile.Model.EditSSC
import Simfile.Model.Dir
import Simfile.Model.Path
import Simfile.Model.Tree
import Simfile.Model.Mutate
import Simfile.Model.MutateData
import Simfile.Spec.Timeline
import Simfile.Spec.Notes
import Simfile.Spec.Group
open Lean Simfile

abbrev R := Except String

def jStr (s : Str) : Json := Json.str (String.ofList s)
def jOptStr : Option Str → Json
  | none => Json.null
  | some s => jStr s
def jRat (q : Rat) : Json := Json.str (toString q.num ++ "/" ++ toString q.den)
def jNat (n : Nat) : Json := Json.num (JsonNumber.fromNat n)
def jInt (n : Int) : Json := Json.num (JsonNumber.fromInt n)
def jBool (b : Bool) : Json := Json.bool b
def jArr {α} (f : α → Json) (l : List α) : Json := Json.arr (l.map f).toArray
def jErr (e : String) : Json := Json.mkObj [("err", Json.str e)]
def jOk (j : Json) : Json := Json.mkObj [("ok", j)]

def getStr (j : Json) : R Str := do
  let s ← j.getStr?
  pure s.toList
def getOptStr (j : Json) : R (Option Str) :=
  if j.isNull then pure none else do pure (some (← getStr j))
def getNat (j : Json) : R Nat := j.getNat?
def getInt (j : Json) : R Int := j.getInt?
def getBool (j : Json) : R Bool := j.getBool?
def getArr {α} (f : Json → R α) (j : Json) : R (List α) := do
  let a ← j.getArr?
  a.toList.mapM f
def getRat (j : Json) : R Rat := do
  match j with
  | .str s =>
    match s.splitOn "/" with
    | [n, d] =>
      match n.toInt?, d.toNat? with
      | some n, some d => if d = 0 then throw "zero denominator" else pure ((n : Rat) / (d : Rat))
      | _, _ => throw s!"bad rational {s}"
    | [n] => match n.toInt? with
      | some n => pure (n : Rat)
      | none => throw s!"bad rational {s}"
    | _ => throw s!"bad rational {s}"
  | .num n => if n.exponent = 0 then pure (n.mantissa : Rat) else throw "non-integer number"
  | _ => throw "rational expected"
def field (j : Json) (k : String) : R Json := j.getObjVal? k
def fieldD (j : Json) (k : String) (d : Json) : Json := (j.getObjVal? k).toOption.getD d

/-! notes -/
def jNote (n : Note) : Json :=
  Json.arr #[jRat n.beat, jNat n.column, jStr [n.ntype], jNat n.player,
             match n.keysound with | some k => jNat k | none => Json.null]
def getChar (j : Json) : R Char := do
  match (← getStr j) with
  | [c] => pure c
  | _ => throw "single character expected"
def getNote (j : Json) : R Note := do
  match (← j.getArr?).toList with
  | [b, c, t, p, k] =>
    pure { beat := ← getRat b, column := ← getNat c, ntype := ← getChar t, player := ← getNat p,
           keysound := ← (if k.isNull then pure none else do pure (some (← getNat k))) }
  | _ => throw "note expected"
def jGNote : GNote → Json
  | .plain n => Json.arr #[Json.str "n", jNote n]
  | .withTail h tb => Json.arr #[Json.str "t", jNote h, jRat tb]
def getGNote (j : Json) : R GNote := do
  match (← j.getArr?).toList with
  | [Json.str "n", n] => pure (.plain (← getNote n))
  | [Json.str "t", n, tb] => pure (.withTail (← getNote n) (← getRat tb))
  | _ => throw "grouped note expected"
def jNErr : NErr → Json
  | .valueError => jErr "ValueError"
  | .indexError => jErr "IndexError"
def jGErr : GErr → Json
  | .orphaned => jErr "OrphanedNoteException"
  | .internal => jErr "internal"
def getOrphan (j : Json) : R Orphan := do
  match (← j.getStr?) with
  | "RAISE_EXCEPTION" => pure .raise
  | "KEEP_ORPHAN" => pure .keep
  | "DROP_ORPHAN" => pure .drop
  | s => throw s!"bad orphan policy {s}"
def getSameBeat (j : Json) : R SameBeat := do
  match (← j.getStr?) with
  | "KEEP_SEPARATE" => pure .keepSeparate
  | "JOIN_BY_NOTE_TYPE" => pure .joinByType
  | "JOIN_ALL" => pure .joinAll
  | s => throw s!"bad same-beat mode {s}"
def getGOpts (j : Json) : R GOpts := do
  pure { incl := ← getStr (← field j "incl"),
         sameBeat := ← getSameBeat (← field j "same_beat"),
         join := ← getBool (← field j "join"),
         orphanHead := ← getOrphan (← field j "orphaned_head"),
         orphanTail := ← getOrphan (← field j "orphaned_tail") }

/-! decorated charts -/
def getCell (j : Json) : R Spec.Cell := do
  match (← j.getArr?).toList with
  | [c, k] => pure { ch := ← getChar c, ks := ← (if k.isNull then pure none else do pure (some (← getNat k))) }
  | _ => throw "cell expected"
def getDRow (j : Json) : R Spec.DRow := do
  pure { cells := ← getArr getCell (← field j "cells"), lead := ← getStr (← field j "lead"),
         trail := ← getStr (← field j "trail"), eol := ← getStr (← field j "eol") }
def getDMeasure (j : Json) : R Spec.DMeasure := do
  pure { pre := ← getStr (← field j "pre"), rows := ← getArr getDRow (← field j "rows"),
         post := ← getStr (← field j "post") }
def getDChart (j : Json) : R Spec.DChart := getArr (getArr getDMeasure) j

/-! timing -/
def getBV (j : Json) : R (Rat × Rat) := do
  match (← j.getArr?).toList with
  | [b, v] => pure (← getRat b, ← getRat v)
  | _ => throw "beat/value pair expected"
def getTD (j : Json) : R TimingData := do
  pure { bpms := ← getArr getBV (← field j "bpms"), stops := ← getArr getBV (← field j "stops"),
         delays := ← getArr getBV (← field j "delays"), warps := ← getArr getBV (← field j "warps"),
         offset := ← getRat (← field j "offset") }
def getTag (j : Json) : R Tag := do
  let s ← getStr j
  match Tag.all.find? (·.name = s) with
  | some t => pure t
  | none => throw "bad tag"
def getUnhittable (j : Json) : R Unhittable := do
  match (← j.getStr?) with
  | "TAP_TO_FAKE" => pure .tapToFake
  | "DROP_NOTE" => pure .dropNote
  | "KEEP_NOTE" => pure .keepNote
  | s => throw s!"bad option {s}"

/-! objects -/
def jDict (d : Dict) : Json := jArr (fun kv => Json.arr #[jStr kv.1, jOptStr kv.2]) d
def getDict (j : Json) : R Dict :=
  getArr (fun kv => do
    match (← kv.getArr?).toList with
    | [k, v] => pure (← getStr k, ← getOptStr v)
    | _ => throw "key/value pair expected") j
def jParam (p : Param) : Json := jArr jStr p.comps
def getParam (j : Json) : R Param := do pure ⟨← getArr getStr j⟩
def jItem : Item → Json
  | .param p => Json.arr #[Json.str "p", jParam p]
  | .text s => Json.arr #[Json.str "t", jStr s]
def jSMChart (c : SMChart) : Json :=
  Json.mkObj [("fields", jDict c.fields),
              ("extradata", match c.extradata with | none => Json.null | some l => jArr jStr l)]
def getSMChart (j : Json) : R SMChart := do
  let e := fieldD j "extradata" Json.null
  pure { fields := ← getDict (← field j "fields"),
         extradata := ← (if e.isNull then pure none else do pure (some (← getArr getStr e))) }
def jSSCChart (c : SSCChart) : Json := jDict c.props
def getSSCChart (j : Json) : R SSCChart := do pure ⟨← getDict j⟩
def jSM (s : SMSimfile) : Json := Json.mkObj [("kind", Json.str "sm"), ("props", jDict s.props), ("charts", jArr jSMChart s.charts)]
def jSSC (s : SSCSimfile) : Json := Json.mkObj [("kind", Json.str "ssc"), ("props", jDict s.props), ("charts", jArr jSSCChart s.charts)]
def getSM (j : Json) : R SMSimfile := do
  pure { props := ← getDict (← field j "props"), charts := ← getArr getSMChart (← field j "charts") }
def getSSC (j : Json) : R SSCSimfile := do
  pure { props := ← getDict (← field j "props"), charts := ← getArr getSSCChart (← field j "charts") }
def getSMEdit (j : Json) : R SMEdit := do
  let a := (← j.getArr?).toList
  let optList (e : Json) : R (Option (List Str)) := if e.isNull then pure none else do pure (some (← getArr getStr e))
  match a with
  | [t, x] =>
    match (← t.getStr?) with
    | "delkey" => pure (.delKey (← getStr x))
    | "delattr" => pure (.delAttr (← getStr x))
    | "append" => pure (.appendChart (← getSMChart x))
    | "pop" => pure (.popChart (← getNat x))
    | s => throw s!"bad edit {s}"
  | [t, x, y] =>
    match (← t.getStr?) with
    | "setkey" => pure (.setKey (← getStr x) (← getOptStr y))
    | "setattr" => pure (.setAttr (← getStr x) (← getStr y))
    | "insert" => pure (.insertChart (← getNat x) (← getSMChart y))
    | "set" => pure (.setChart (← getNat x) (← getSMChart y))
    | "extra" => pure (.setExtra (← getNat x) (← optList y))
    | s => throw s!"bad edit {s}"
  | [t, x, y, z] =>
    match (← t.getStr?) with
    | "field" => pure (.setField (← getNat x) (← getStr y) (← getStr z))
    | s => throw s!"bad edit {s}"
  | [t] =>
    match (← t.getStr?) with
    | "reverse" => pure .reverseCharts
    | "clear" => pure .clearCharts
    | s => throw s!"bad edit {s}"
  | _ => throw "bad edit"

def getSSCEdit (j : Json) : R SSCEdit := do
  let a := (← j.getArr?).toList
  match a with
  | [t, x] =>
    match (← t.getStr?) with
    | "delkey" => pure (.delKey (← getStr x))
    | "delattr" => pure (.delAttr (← getStr x))
    | "append" => pure (.appendChart (← getSSCChart x))
    | "pop" => pure (.popChart (← getNat x))
    | s => throw s!"bad edit {s}"
  | [t, x, y] =>
    match (← t.getStr?) with
    | "setkey" => pure (.setKey (← getStr x) (← getOptStr y))
    | "setattr" => pure (.setAttr (← getStr x) (← getStr y))
    | "insert" => pure (.insertChart (← getNat x) (← getSSCChart y))
    | "set" => pure (.setChart (← getNat x) (← getSSCChart y))
    | "cdel" => pure (.chartDelKey (← getNat x) (← getStr y))
    | s => throw s!"bad edit {s}"
  | [t, x, y, z] =>
    match (← t.getStr?) with
    | "cset" => pure (.chartSetKey (← getNat x) (← getStr y) (← getOptStr z))
    | "cattr" => pure (.chartSetAttr (← getNat x) (← getStr y) (← getStr z))
    | s => throw s!"bad edit {s}"
  | [t] =>
    match (← t.getStr?) with
    | "reverse" => pure .reverseCharts
    | "clear" => pure .clearCharts
    | s => throw s!"bad edit {s}"
  | _ => throw "bad edit"

def jObjErr : Err → Json
  | .valueError => jErr "ValueError"
  | .keyError => jErr "KeyError"
  | .attributeError => jErr "AttributeError"
  | .stopIteration => jErr "StopIteration"
  | .msdParserError => jErr "MSDParserError"


/-! sources, conversion, views -/
def getKind (j : Json) : R Kind := do
  match (← j.getStr?) with
  | "SMSimfile" => pure .smSimfile
  | "SSCSimfile" => pure .sscSimfile
  | "SMChart" => pure .smChart
  | "SSCChart" => pure .sscChart
  | s => throw s!"bad kind {s}"
def getSrc (j : Json) : R Src := do pure { kind := ← getKind (← field j "kind"), d := ← getDict (← field j "d") }
def getOptSrc (j : Json) : R (Option Src) := if j.isNull then pure none else do pure (some (← getSrc j))
def jSErr : SErr → Json
  | .valueError => jErr "ValueError"
  | .keyError => jErr "KeyError"
  | .typeError => jErr "TypeError"
def jRows : Option (List BVRow) → Json
  | none => Json.null
  | some rows => jArr (fun (r : BVRow) => Json.arr #[jRat r.beat, jStr r.value]) rows
def jDisplay : DisplayBPM → Json
  | .static v => Json.arr #[Json.str "static", jRat v]
  | .range a b => Json.arr #[Json.str "range", jRat a, jRat b]
  | .random => Json.arr #[Json.str "random"]
def getChartPair (j : Json) : R (Dict × Option (List Str)) := do
  let e := fieldD j "extradata" Json.null
  pure (← getDict (← field j "d"), ← (if e.isNull then pure none else do pure (some (← getArr getStr e))))
def getAny (j : Json) : R AnySimfile := do
  pure { isSSC := ← getBool (← field j "ssc"), props := ← getDict (← field j "props"),
         charts := ← getArr getChartPair (← field j "charts") }
def jAny (s : AnySimfile) : Json :=
  Json.mkObj [("ssc", jBool s.isSSC), ("props", jDict s.props),
    ("charts", jArr (fun (c : Dict × Option (List Str)) => Json.mkObj [("d", jDict c.1),
       ("extradata", match c.2 with | none => Json.null | some l => jArr jStr l)]) s.charts)]
def jCErr : CErr → Json
  | .notImplemented => jErr "NotImplementedError"
  | .invalidProperty k => Json.mkObj [("err", Json.str "InvalidPropertyException"), ("key", jStr k)]
  | .keyError => jErr "KeyError"
  | .valueError => jErr "ValueError"
  | .attributeError => jErr "AttributeError"
def getVOp (j : Json) : R VOp := do
  match (← j.getArr?).toList with
  | [Json.str "getattr", a] => pure (.getAttr (← getStr a))
  | [Json.str "setattr", a, v] => pure (.setAttr (← getStr a) (← getStr v))
  | [Json.str "delattr", a] => pure (.delAttr (← getStr a))
  | [Json.str "getkey", k] => pure (.getKey (← getStr k))
  | [Json.str "setkey", k, v] => pure (.setKey (← getStr k) (← getStr v))
  | [Json.str "delkey", k] => pure (.delKey (← getStr k))
  | [Json.str "contains", k] => pure (.contains (← getStr k))
  | [Json.str "items"] => pure .items
  | [Json.str "pop", k] => pure (.pop (← getStr k))
  | [Json.str "popitem"] => pure .popitem
  | [Json.str "update", k, v] => pure (.update (← getStr k) (← getStr v))
  | _ => throw "bad view op"
def getVOpX (j : Json) : R VOpX := do
  match (← j.getArr?).toList with
  | [Json.str "clear"] => pure .clear
  | [Json.str "setdefault", k, v] => pure (.setDefault (← getStr k) (← getStr v))
  | [Json.str "move_to_end", k, l] => pure (.moveToEnd (← getStr k) (← getBool l))
  | _ => pure (.base (← getVOp j))
partial def getNode (j : Json) : R Node := do
  match j.getObjVal? "file" with
  | .ok c => pure (.file (← getStr c))
  | .error _ =>
    let es ← getArr (fun e => do
      match (← e.getArr?).toList with
      | [n, x] => pure (← getStr n, ← getNode x)
      | _ => throw "tree entry expected") (← field j "dir")
    pure (.dir es)
def jFsErr : FsErr → Json
  | .illegalBackReference => Json.mkObj [("fs", Json.str "IllegalBackReference")]
  | .resourceNotFound => Json.mkObj [("fs", Json.str "ResourceNotFound")]
  | .directoryExpected => Json.mkObj [("fs", Json.str "DirectoryExpected")]
def jVOut : VOut → Json
  | .value v => Json.arr #[Json.str "value", jOptStr v]
  | .done => Json.arr #[Json.str "done"]
  | .bool b => Json.arr #[Json.str "bool", jBool b]
  | .items d => Json.arr #[Json.str "items", jDict d]
  | .keyError => Json.arr #[Json.str "KeyError"]
  | .notImplemented => Json.arr #[Json.str "NotImplementedError"]
  | .attributeError => Json.arr #[Json.str "AttributeError"]


def jFsOp : FsOp → Json
  | .openR p e => Json.arr #[Json.str "openR", jStr p, jStr e]
  | .openW p e => Json.arr #[Json.str "openW", jStr p, jStr e]
  | .write p => Json.arr #[Json.str "write", jStr p]
  | .close p => Json.arr #[Json.str "close", jStr p]
def jContent : Content → Json
  | .original => Json.str "original"
  | .written b => Json.str (if b then "backup" else "output")
  | .truncated => Json.str "truncated"
def jOutcome : Outcome → Json
  | .valueError => Json.str "ValueError"
  | .unicodeDecodeError => Json.str "UnicodeDecodeError"
  | .returned => Json.str "returned"
  | .propagated => Json.str "propagated"
  | .saveError => Json.str "saveError"

def jExcept {ε α} (fe : ε → Json) (fa : α → Json) : Except ε α → Json
  | .ok a => jOk (fa a)
  | .error e => fe e

/-- one request → one response -/
def handle (j : Json) : R Json := do
  let op ← (← field j "op").getStr?
  match op with
  -- string library
  | "str.split" => pure (jArr jStr (splitOn (← getChar (← field j "sep")) (← getStr (← field j "s"))))
  | "str.strip" => pure (jStr (strip (← getStr (← field j "s"))))
  | "str.splitlines" => pure (jArr jStr (splitLines (← getStr (← field j "s"))))
  | "str.upper" => pure (jStr (upper (← getStr (← field j "s"))))
  | "str.lower" => pure (jStr (lower (← getStr (← field j "s"))))
  | "str.join" => pure (jStr (joinWith (← getStr (← field j "sep")) (← getArr getStr (← field j "parts"))))
  | "str.rpartition" =>
    let (a, f, b) := rpartition (← getChar (← field j "sep")) (← getStr (← field j "s"))
    pure (Json.arr #[jStr a, jBool f, jStr b])
  | "str.partition" =>
    let (a, f, b) := partition (← getChar (← field j "sep")) (← getStr (← field j "s"))
    pure (Json.arr #[jStr a, jBool f, jStr b])
  | "str.endswith" => pure (jBool (endsWith (← getStr (← field j "s")) (← getStr (← field j "p"))))
  -- beats
  | "beat.round_to_tick" => pure (jRat (roundToTick (← getRat (← field j "x"))))
  | "beat.round" => pure (jInt (roundHalfEven (← getRat (← field j "x"))))
  | "beat.str" => pure (jStr (beatToStr (← getRat (← field j "x"))))
  | "beat.from_str" => pure (match beatFromStr (← getStr (← field j "s")) with | some q => jRat q | none => Json.null)
  | "beat.parse_decimal" => pure (match parseDecimal (← getStr (← field j "s")) with | some q => jRat q | none => Json.null)
  | "beat.arith" =>
    -- Beat's operator wrappers: f ∈ add sub mul truediv mod (r… = reflected) divmod floordiv neg abs pow; null = ZeroDivisionError
    let a ← getRat (← field j "a")
    let f ← getStr (← field j "f")
    let opOf : Str → Option ArithM.Op := fun s =>
      if s = "add".toList then some .add else if s = "sub".toList then some .sub else if s = "mul".toList then some .mul
      else if s = "truediv".toList then some .truediv else if s = "mod".toList then some .mod else none
    let jO : Option Rat → Json := fun o => match o with | some q => jRat q | none => Json.null
    if f = "neg".toList then pure (jRat (ArithM.beatNeg a))
    else if f = "abs".toList then pure (jRat (ArithM.beatAbs a))
    else if f = "pow".toList then pure (jO (ArithM.beatPowInt a (← getInt (← field j "n"))))
    else
      let b ← getRat (← field j "b")
      if f = "divmod".toList then
        pure (match ArithM.beatDivmod a b with | some (q, r) => Json.arr #[jInt q, jRat r] | none => Json.null)
      else if f = "floordiv".toList then
        pure (match ArithM.beatFloorDiv a b with | some q => jInt q | none => Json.null)
      else match f with
        | 'r' :: rest => (match opOf rest with | some op => pure (jO (ArithM.beatRBin op a b)) | none => throw "bad arith op")
        | _ => (match opOf f with | some op => pure (jO (ArithM.beatBin op a b)) | none => throw "bad arith op")
  | "beat.mod" => pure (jRat (pyMod (← getRat (← field j "a")) (← getRat (← field j "b"))))
  | "beat.floordiv" => pure (jInt (floorDiv (← getRat (← field j "a")) (← getRat (← field j "b"))))
  | "beat.values_from_str" =>
    pure (match beatValuesFromStr (← getOptStr (← field j "s")) with
      | some rows => jArr (fun (r : BVRow) => Json.arr #[jRat r.beat, jStr r.value]) rows
      | none => Json.null)
  | "beat.values_to_str" =>
    let rows ← getArr (fun r => do
      match (← r.getArr?).toList with
      | [b, v] => pure ({ beat := ← getRat b, value := ← getStr v } : BVRow)
      | _ => throw "row expected") (← field j "rows")
    pure (jStr (beatValuesToStr rows))
  -- notes
  | "notes.decode" =>
    pure (jExcept jNErr (fun (r : Nat × List Note) => Json.mkObj [("cols", jNat r.1), ("notes", jArr jNote r.2)])
      (decode (← getStr (← field j "text"))))
  | "notes.encode" =>
    pure (jExcept jNErr jStr (encode (← getArr getNote (← field j "notes")) (← getNat (← field j "cols"))))
  | "notes.cmp" =>
    let a ← getNote (← field j "a"); let b ← getNote (← field j "b")
    pure (Json.arr #[jBool (a.lt b), jBool (a.gt b), jBool (a.le b), jBool (a.ge b)])
  | "spec.render" => pure (jStr (Spec.render (← getDChart (← field j "chart"))))
  | "spec.notes_of" =>
    let c ← getDChart (← field j "chart")
    pure (Json.mkObj [("wf", jBool (Spec.WF c)), ("cols", jNat (Spec.cols c)), ("notes", jArr jNote (Spec.notesOf c))])
  -- grouping
  | "group.group" =>
    pure (jExcept jGErr (jArr (jArr jGNote)) (groupNotes (← getGOpts (← field j "opts")) (← getArr getNote (← field j "notes"))))
  | "spec.group" =>
    pure (jExcept jGErr (jArr (jArr jGNote)) (Spec.groupSpec (← getGOpts (← field j "opts")) (← getArr getNote (← field j "notes"))))
  | "group.ungroup" =>
    pure (jExcept jGErr (jArr jNote) (ungroupNotes (← getOrphan (← field j "policy")) (← getArr (getArr getGNote) (← field j "groups"))))
  | "spec.survivors" =>
    pure (jArr jNote (Spec.survivors (← getGOpts (← field j "opts")) (← getArr getNote (← field j "notes"))))
  | "count.steps" =>
    pure (jExcept jGErr jNat (countSteps (← getArr getNote (← field j "notes")) (← getStr (← field j "incl"))
      (← getSameBeat (← field j "same_beat")) (← getNat (← field j "minimum"))))
  | "spec.beats_with_at_least" =>
    pure (jNat (Spec.beatsWithAtLeast (← getArr getNote (← field j "notes")) (← getStr (← field j "incl")) (← getNat (← field j "minimum"))))
  | "count.mines" => pure (jNat (countMines (← getArr getNote (← field j "notes"))))
  | "count.holds" =>
    pure (jExcept jGErr jNat (countHoldsOrRolls (← getArr getNote (← field j "notes")) (← getChar (← field j "head"))
      (← getOrphan (← field j "orphaned_head")) (← getOrphan (← field j "orphaned_tail"))))
  | "spec.holds" =>
    pure (jExcept jGErr jNat (Spec.holdsSpec (← getArr getNote (← field j "notes")) (← getChar (← field j "head"))
      (← getOrphan (← field j "orphaned_head")) (← getOrphan (← field j "orphaned_tail"))))
  -- timing engine: many probes per timing data
  | "engine.probe" =>
    let td ← getTD (← field j "td")
    let probes ← getArr (fun p => do
      match (← p.getArr?).toList with
      | [k, x, t] => pure (← k.getStr?, ← getRat x, ← getTag t, Tag.stop)
      | [k, x, t, t2] => pure (← k.getStr?, ← getRat x, ← getTag t, ← getTag t2)
      | _ => throw "probe expected") (← field j "probes")
    let e := mkEngine td
    let u53 : Rat := (1 : Rat) / 9007199254740992
    let errs := errStates u53 td
    pure (jArr (fun (p : String × Rat × Tag × Tag) =>
      let x := p.2.1; let t := p.2.2.1; let t2 := p.2.2.2
      match p.1 with
      | "time_at" => jRat (e.timeAt x t)
      | "spec_time" => jRat (Spec.timeSpec td x t)
      | "err_time" => jRat (errTimeAtWith u53 e errs x t)
      | "bpm_at" => jRat (e.bpmAt x)
      | "spec_bpm" => jRat (if x < 0 then (td.bpms.headD (0,0)).2 else Spec.bpmOn td x)
      | "hittable" => jBool (e.hittable x)
      | "spec_hittable" => jBool (Spec.hittableSpec td x)
      | "beat_at" => jRat (e.beatAt x t)
      | "beat_at_raw" => (match (e.priorByTime x t).beatsUntilRaw x with | some r => jRat ((e.priorByTime x t).beat + r) | none => Json.null)
      | "beat_at_old" => jRat (e.beatAtOld x t)
      | "beat_at_time_at" => jRat (e.beatAt (e.timeAt x t) t2)
      | "beat_at_in_pause" =>
        -- x = paused beat, t = STOP or DELAY, fraction of the pause encoded by t2 (WARP=.001, BPM=.5, STOP_END=.999)
        let len := ((if t = .stop then td.stops else td.delays).find? (·.1 = x)).map (·.2) |>.getD 0
        let f : Rat := if t2 = .warp then 1/1000 else if t2 = .bpm then 1/2 else 999/1000
        jRat (e.beatAt (e.timeAt x t + len * f) .stop)
      | _ => Json.null) probes)
  | "engine.states" =>
    let td ← getTD (← field j "td")
    pure (jArr (fun (s : TState) => Json.arr #[jRat s.beat, jStr s.tag.name, jRat s.time, jRat s.bpm, jBool s.warp]) (states td))
  | "engine.time_notes" =>
    let td ← getTD (← field j "td")
    let f := fun (r : Rat × Note) => Json.arr #[jRat r.1, jNote r.2]
    pure (jArr f (timeNotes td (← getUnhittable (← field j "opt")) (← getArr getNote (← field j "notes"))))
  | "spec.time_notes" =>
    let td ← getTD (← field j "td")
    let f := fun (r : Rat × Note) => Json.arr #[jRat r.1, jNote r.2]
    pure (jArr f (Spec.timeNotesSpec td (← getUnhittable (← field j "opt")) (← getArr getNote (← field j "notes"))))
  -- objects
  | "obj.ser_sm" => pure (jArr jItem (serSM (← getSM (← field j "sf"))))
  | "obj.ser_ssc" => pure (jExcept jObjErr (jArr jItem) (serSSC (← getSSC (← field j "sf"))))
  | "obj.ser_ssc_chart" => pure (jExcept jObjErr (jArr jItem) (serSSCChart (← getSSCChart (← field j "chart"))))
  | "obj.load_sm" => pure (jExcept jObjErr jSM (loadSM (← getArr getParam (← field j "params"))))
  | "obj.load_ssc" => pure (jOk (jSSC (loadSSC (← getArr getParam (← field j "params")))))
  | "obj.load_ssc_chart" => pure (jExcept jObjErr jSSCChart (loadSSCChart (← getArr getParam (← field j "params"))))
  | "obj.sm_chart_from_str" => pure (jExcept jObjErr jSMChart (smChartFromStr (← getStr (← field j "s"))))
  | "obj.sm_chart_from_msd" => pure (jExcept jObjErr jSMChart (smChartFromMsd (← getArr getStr (← field j "values"))))
  | "edit.apply_ssc" => pure (jSSC (applyEditsSSC (← getSSC (← field j "sf")) (← getArr getSSCEdit (← field j "edits"))))
  | "edit.apply" => pure (jSM (applyEdits (← getSM (← field j "sf")) (← getArr getSMEdit (← field j "edits"))))
  | "obj.notes_last" => pure (jSSC (← getSSC (← field j "sf")).notesLast)
  | "source.use_chart" => pure (jExcept jSErr jBool (useChart (← getSrc (← field j "sim")) (← getOptSrc (fieldD j "chart" Json.null))))
  | "source.timing_data" =>
    pure (jExcept jSErr (fun (t : TDStrings) => Json.mkObj [("bpms", jRows t.bpms), ("stops", jRows t.stops), ("delays", jRows t.delays),
        ("warps", jRows t.warps), ("offset", match t.offset with | some q => jRat q | none => Json.null)])
      (timingData (← getSrc (← field j "sim")) (← getOptSrc (fieldD j "chart" Json.null))))
  | "source.displaybpm" =>
    pure (jExcept jSErr jDisplay (displayBpm (← getSrc (← field j "sim")) (← getOptSrc (fieldD j "chart" Json.null)) (← getBool (← field j "ignore"))))
  | "convert.convert" =>
    let st := fieldD j "sim_template" Json.null
    let ct := fieldD j "chart_template" Json.null
    let beh ← getArr (fun p => do
      match (← p.getArr?).toList with
      | [a, b] => pure (← getNat a, ← getNat b)
      | _ => throw "pair expected") (← field j "beh")
    pure (jExcept jCErr jAny (convert (← getAny (← field j "src")) (← getBool (← field j "to_ssc"))
      (← (if st.isNull then pure none else do pure (some (← getAny st))))
      (← (if ct.isNull then pure none else do pure (some (← getChartPair ct)))) beh))
  | "views.run" =>
    let (d, outs) := vrunX (← getKind (← field j "kind")) (← getDict (← field j "d")) (← getArr getVOpX (← field j "ops"))
    pure (Json.mkObj [("d", jDict d), ("outs", jArr jVOut outs)])
  | "views.eq" =>
    -- BaseSimfile.__eq__ / SSCChart equality as CPython computes them (Model/Equality.lean); "plain": OrderedDict.__eq__ alone
    let a ← getDict (← field j "a"); let b ← getDict (← field j "b")
    let ca ← getArr getDict (fieldD j "charts_a" (Json.arr #[])); let cb ← getArr getDict (fieldD j "charts_b" (Json.arr #[]))
    let k ← getStr (← field j "kind")
    pure (jBool (if k = "plain".toList then orderedDictEq a b
      else if k = "SMChart".toList then smChartEq a b
      else simfileEq ⟨(if k = "SMSimfile".toList then .smSimfile else .sscSimfile), a, ca⟩
                     ⟨(if (fieldD j "kind_b" (Json.str (String.ofList k))) == Json.str "SMSimfile" then .smSimfile else .sscSimfile), b, cb⟩))
  | "dir.scan" =>
    pure (match scanDir (← getArr getStr (← field j "listing")) (← getBool (← field j "ignore_duplicate")) with
      | .ok sd => jOk (Json.mkObj [("sm", jOptStr sd.sm), ("ssc", jOptStr sd.ssc),
                                  ("open", match sd.openTarget with | .ok p => jStr p | .error _ => Json.str "!FileNotFoundError")])
      | .error _ => jErr "DuplicateSimfileError")
  | "dir.pack" =>
    let es ← getArr (fun e => do
      pure ({ name := ← getStr (← field e "name"), isDir := ← getBool (← field e "is_dir"),
              listing := ← getArr getStr (← field e "listing") } : PackEntry)) (← field j "entries")
    pure (jArr jStr (packDirs es))
  | "dir.banner" =>
    let beside ← getArr getStr (← field j "beside")
    pure (match packBanner (← getArr getStr (← field j "listing")) (← getStr (← field j "pack_name")) (fun n => beside.contains n) with
      | some (inside, n) => Json.arr #[jBool inside, jStr n]
      | none => Json.null)
  | "assets.lookup" =>
    let c := fieldD j "containing" Json.null
    pure (match assetLookup (← getStr (← field j "kind")) (← getOptStr (fieldD j "specified" Json.null))
        (← (if c.isNull then pure none else do pure (some (← getArr getStr c)))) (← getStr (← field j "file"))
        (← getArr getStr (← field j "dirlist")) with
      | none => Json.str "unmodelled"
      | some none => Json.null
      | some (some (.inl x)) => Json.arr #[Json.str "spec", jStr x]
      | some (some (.inr x)) => Json.arr #[Json.str "match", jStr x])
  | "path.normpath" => pure (match Path.normpath (← getStr (← field j "p")) with | some r => jStr r | none => Json.null)
  | "path.join" => pure (match Path.join (← getStr (← field j "a")) (← getStr (← field j "b")) with | some r => jStr r | none => Json.null)
  | "path.split" => let r := Path.split (← getStr (← field j "p")); pure (Json.arr #[jStr r.1, jStr r.2])
  | "tree.pack_dirs" =>
    pure (match packSimfileDirs (← getNode (← field j "tree")) (← getStr (← field j "pack")) with
      | .ok l => Json.arr (l.map jStr).toArray
      | .error e => jFsErr e)
  | "tree.dir" =>
    pure (match simfileDirectoryOf (← getNode (← field j "tree")) (← getStr (← field j "path")) (← getBool (← field j "ignore_duplicate")) with
      | .ok sd => Json.mkObj [("dir", jStr sd.simfileDir), ("sm", jOptStr sd.sm), ("ssc", jOptStr sd.ssc)]
      | .error (.fs e) => jFsErr e
      | .error .duplicate => Json.str "DuplicateSimfileError")
  | "tree.banner" =>
    pure (match packBannerT (← getNode (← field j "tree")) (← getStr (← field j "pack")) with
      | .ok r => jOptStr r
      | .error e => jFsErr e)
  | "tree.asset" =>
    pure (match assetOf (← getNode (← field j "tree")) (← getStr (← field j "dir")) (← getStr (← field j "kind"))
        (← getOptStr (fieldD j "specified" Json.null)) with
      | .ok none => Json.null
      | .ok (some (.inl x)) => Json.arr #[Json.str "spec", jStr x]
      | .ok (some (.inr x)) => Json.arr #[Json.str "match", jStr x]
      | .error (.fs e) => jFsErr e
      | .error .unmodelled => Json.str "unmodelled")
  | "assets.session" =>
    let asks ← getArr (fun q => do
      let c := fieldD q "containing" Json.null
      pure ((← getStr (← field q "kind")),
            ({ specified := ← getOptStr (fieldD q "specified" Json.null),
               containing := ← (if c.isNull then pure none else do pure (some (← getArr getStr c))),
               file := ← getStr (← field q "file") } : AskEnv))) (← field j "asks")
    pure (match (AssetsObj.fresh (← getArr getStr (← field j "dirlist"))).run asks with
      | none => Json.str "unmodelled"
      | some (_, vs) => Json.arr (vs.map fun v => match v with
          | none => Json.null
          | some (.inl x) => Json.arr #[Json.str "spec", jStr x]
          | some (.inr x) => Json.arr #[Json.str "match", jStr x]).toArray)
  | "assets.matches" =>
    pure (match assetMatches (← getStr (← field j "kind")) (← getStr (← field j "name")) with
      | some b => jBool b | none => Json.str "unmodelled")
  | "mutate.data" =>
    -- the data-carrying model of mutate (Model/MutateData.lean): bytes are strings of code points 0..255
    let toBytes : Str → MD.Bytes := fun s => s.map fun c => c.toNat.toUInt8
    let ofBytes : MD.Bytes → Json := fun b => jStr (b.map fun u => Char.ofNat u.toNat)
    let cfg : MutateCfg := { input := ← getStr (← field j "input"), output := ← getOptStr (fieldD j "output" Json.null),
                             backup := ← getOptStr (fieldD j "backup" Json.null) }
    let encs ← getArr getStr (← field j "encs")
    let fs0 ← getArr (fun e => do
      match (← e.getArr?).toList with
      | [p, b] => pure (← getStr p, toBytes (← getStr b))
      | _ => throw "fs entry expected") (← field j "fs")
    let codecs ← getArr (fun e => do
      match (← e.getArr?).toList with
      | [n, t] =>
        let dec ← getArr (fun d => do
          match (← d.getArr?).toList with
          | [b, x] => pure (toBytes (← getStr b), ← getOptStr x)
          | _ => throw "decode entry expected") (← field t "decode")
        let enc ← getArr (fun d => do
          match (← d.getArr?).toList with
          | [x, b] => pure (← getStr x, (← getOptStr b).map toBytes)
          | _ => throw "encode entry expected") (← field t "encode")
        pure (← getStr n, MD.tableCodec dec enc)
      | _ => throw "codec entry expected") (← field j "codecs")
    let cod := MD.codecsOf codecs
    let strict ← getBool (← field j "strict")
    let k : Option Nat := ← (do let f := fieldD j "fault" Json.null; if f.isNull then pure none else do pure (some (← getNat f)))
    let cut ← getNat (fieldD j "cut" (Json.num 0))
    let body := ← field j "body"
    let jExn : MD.Exn → Json := fun e => Json.mkObj [("tag", jStr e.tag), ("isCancel", jBool e.isCancel), ("isException", jBool e.isException)]
    let getExn : Json → R MD.Exn := fun r => do
      pure { tag := ← getStr (← field r "tag"), isCancel := ← getBool (← field r "isCancel"), isException := ← getBool (← field r "isException") }
    let jOut : MD.OutcomeD → Json := fun o => match o with
      | .valueError => Json.str "ValueError" | .unicodeDecodeError => Json.str "UnicodeDecodeError" | .fileNotFound => Json.str "FileNotFoundError"
      | .loadError e => Json.arr #[Json.str "loadError", jObjErr e] | .returned => Json.str "returned"
      | .propagated e => Json.arr #[Json.str "propagated", jExn e]
      | .serializeError a e => Json.arr #[Json.str "serializeError", jBool a, jObjErr e]
      | .encodeError b => Json.arr #[Json.str "UnicodeEncodeError", jBool b] | .ioError n => Json.arr #[Json.str "ioError", jNat n]
    let jOpD : MD.OpD → Json := fun o => match o with
      | .openR p e => Json.arr #[Json.str "openR", jStr p, jStr e] | .openW p e => Json.arr #[Json.str "openW", jStr p, jStr e]
      | .write p _ => Json.arr #[Json.str "write", jStr p] | .close p _ => Json.arr #[Json.str "close", jStr p]
    let finish {Sim : Type} (jSim : Sim → Json) (r : MD.ResultD Sim) : Json :=
      Json.mkObj [("outcome", jOut r.outcome), ("fs", jArr (fun e => Json.arr #[jStr e.1, ofBytes e.2]) r.fs), ("trace", jArr jOpD r.trace),
                  ("detected", match r.detected with | some (e, _) => jStr e | none => Json.null),
                  ("yielded", match r.yielded with | some s => jSim s | none => Json.null)]
    if (← (← field j "world").getStr?) == "sm" then
      let b : SMSimfile → MD.BodyResult SMSimfile ← (do
        match body.getObjVal? "returns" with
        | .ok x => let s ← getSM x; pure (fun _ => MD.BodyResult.returns s)
        | .error _ => let e ← getExn (← field body "raises"); pure (fun _ => MD.BodyResult.raises e))
      pure (finish jSM (MD.mutateD (MD.smWorld MsdP.msd cod strict) cfg encs b fs0 k cut))
    else
      let b : SSCSimfile → MD.BodyResult SSCSimfile ← (do
        match body.getObjVal? "returns" with
        | .ok x => let s ← getSSC x; pure (fun _ => MD.BodyResult.returns s)
        | .error _ => let e ← getExn (← field body "raises"); pure (fun _ => MD.BodyResult.raises e))
      pure (finish jSSC (MD.mutateD (MD.sscWorld MsdP.msd cod strict) cfg encs b fs0 k cut))
  | "mutate.run" =>
    let cfg : MutateCfg := { input := ← getStr (← field j "input"), output := ← getOptStr (fieldD j "output" Json.null),
                             backup := ← getOptStr (fieldD j "backup" Json.null) }
    let tries ← getArr (fun t => do
      match (← t.getArr?).toList with
      | [e, ok] => pure (← getStr e, ← getBool ok)
      | _ => throw "try expected") (← field j "tries")
    let body ← (do match (← (← field j "body").getStr?) with
      | "returns" => pure Body.returns | "cancels" => pure Body.cancels | "raises" => pure Body.raises
      | s => throw s!"bad body {s}")
    let problem ← (do match (← (← field j "problem").getStr?) with
      | "none" => pure SaveProblem.none | "unserializable" => pure SaveProblem.unserializable
      | "unencodable" => pure SaveProblem.unencodable | s => throw s!"bad problem {s}")
    let (o, ops) := mutate cfg tries body problem
    let fault := fieldD j "fault" Json.null
    let k ← (if fault.isNull then pure none else do pure (some (← getNat fault)))
    let files ← getArr getStr (← field j "files")
    let fs0 : List (Str × Content) := files.map fun p => (p, Content.original)
    let fs1 := runWrites fs0 (given cfg.backup) ops k
    pure (Json.mkObj [("outcome", jOutcome o), ("ops", jArr jFsOp ops), ("detected", jOptStr (detectEncoding tries)),
                      ("files", jArr (fun (pc : Str × Content) => Json.arr #[jStr pc.1, jContent pc.2]) fs1)])
  | "obj.text_sm" => pure (jStr (MsdP.msd.renderDoc (serSM (← getSM (← field j "sf")))))
  | "obj.text_ssc" => pure (match serSSC (← getSSC (← field j "sf")) with | .ok is => jStr (MsdP.msd.renderDoc is) | .error _ => Json.null)
  | "e2e.time_notes" =>
    let f := fun (r : Rat × Note) => Json.arr #[jRat r.1, jNote r.2]
    pure (match timeNotesOfText (← getStr (← field j "text")) (← getNat (← field j "chart")) (← getUnhittable (← field j "opt")) with
      | .ok l => jOk (jArr f l)
      | .error e => jErr (match e with | .parse => "parse" | .load => "load" | .noChart => "noChart" | .timing => "timing" | .notes => "notes"))
  | "entry.load" =>
    -- end-to-end model of loading: the modelled msdparser as tokenizer, the entry-point plumbing, the loading rules
    let tok : Bool → Str → Tokens := fun st t => (MsdP.parse st t).getD { params := [], strayError := false }
    let content ← getStr (← field j "content")
    let strict ← getBool (← field j "strict")
    let f : FileObj ← (do
      match (← (← field j "kind").getStr?) with
      | "wrapper" => pure (FileObj.wrapper (← getOptStr (fieldD j "name" Json.null)) content 0)
      | "stringIO" => pure (FileObj.stringIO content)
      | "lines" => pure (FileObj.lines (← getArr getStr (← field j "lines")))
      | k => throw s!"bad file kind {k}")
    pure (jExcept jObjErr (fun l => match l with | .sm s => jSM s | .ssc s => jSSC s) (loadFile tok strict f))
  | "msd.parse" =>
    pure (match MsdP.parse (← getBool (← field j "strict")) (← getStr (← field j "text")) with
      | some t => Json.mkObj [("params", jArr jParam t.params), ("tokerr", jBool t.strayError)]
      | none => Json.str "AssertionError")
  | "msd.render" => pure (jStr (MsdP.renderParam (← getParam (← field j "param"))))
  | "msd.remove_stray" =>
    -- the text with its stray text deleted (what ignore_stray_text discards), and whether the side conditions of
    -- C03Text.lenient_eq_strict_removeStray hold (`removable`); null when the lexer rejects the text
    let t ← getStr (← field j "text")
    pure (match MsdP.lex (t.length + 1) t false false with
      | .ok toks => Json.mkObj [("cleaned", jStr (MsdP.render (MsdP.cleanToks toks false))),
                                ("removable", jBool (MsdP.removable toks false .other false false))]
      | .error _ => Json.null)
  | "msd.safe" =>
    let ps ← getArr getParam (← field j "params")
    let lead ← (do let l := fieldD j "lead_nl" Json.null; if l.isNull then pure false else getBool l)
    pure (jBool (safeDoc ((if lead then [Item.text ['\n']] else []) ++ ps.map Item.param)))
  | "load.any" =>
    let name ← getOptStr (fieldD j "name" Json.null)
    let force := fieldD j "force" Json.null
    let toks : Tokens := { params := ← getArr getParam (← field j "params"),
                           strayError := !(fieldD j "tokerr" Json.null).isNull }
    let r := if force.isNull then load name toks else construct (force == Json.str "ssc") toks
    pure (jExcept jObjErr (fun l => match l with | .sm s => jSM s | .ssc s => jSSC s) r)
  | "obj.detect" =>
    let name ← getOptStr (fieldD j "name" Json.null)
    let ps ← getArr getParam (← field j "params")
    pure (jBool (match name.bind suffixRule with | some b => b | none => firstKeyIsVersion ps))
  | _ => throw s!"unknown op {op}"

partial def loop (h : IO.FS.Stream) (out : IO.FS.Stream) : IO Unit := do
  let line ← h.getLine
  if line.isEmpty then return ()
  let resp := match Json.parse line with
    | .error e => Json.mkObj [("bad", Json.str e)]
    | .ok j => match handle j with
      | .ok r => r
      | .error e => Json.mkObj [("bad", Json.str e)]
  out.putStrLn resp.compress
  loop h out

def driverMain : IO Unit := do
  loop (← IO.getStdin) (← IO.getStdout)
