/-
simfile.dir (SimfileDirectory, SimfilePack), opendir/openpack, simfile.assets. C19, C20.
A directory tree is an input: `listdir` (the listing ORDER is part of the input) and `isdir`; paths are joined by
the filesystem's own rule, passed in as `join` results by the harness where needed. Here paths are kept
structured: a path is the list of its components.
-/
import Simfile.Gen.Tables
import Simfile.Model.Str
namespace Simfile

/-- `extensions.match(path, *exts)`: the first extension the lower-cased path ends with -/
def extMatch (name : Str) (exts : List Str) : Option Str :=
  exts.find? fun e => endsWith (lower name) e

def extSM : Str := ['.', 's', 'm']
def extSSC : Str := ['.', 's', 's', 'c']

inductive DErr | duplicate | fileNotFound
deriving Repr, DecidableEq

structure SimDir where
  sm : Option Str
  ssc : Option Str
deriving Repr, DecidableEq

/-- `SimfileDirectory.__init__` over the directory listing: names of the .sm / .ssc entries -/
def scanDir (listing : List Str) (ignoreDup : Bool) : Except DErr SimDir :=
  listing.foldlM (fun (sd : SimDir) item =>
    match extMatch item T.simfileExts with
    | none => pure sd
    | some m =>
      if m = extSM then
        (match sd.sm with
         | some _ => if ignoreDup then pure sd else .error .duplicate
         | none => pure { sd with sm := some item })
      else if m = extSSC then
        (match sd.ssc with
         | some _ => if ignoreDup then pure sd else .error .duplicate
         | none => pure { sd with ssc := some item })
      else pure sd) { sm := none, ssc := none }

/-- `simfile_path`: the SSC if present, otherwise the SM -/
def SimDir.simfilePath (sd : SimDir) : Option Str := sd.ssc.orElse fun _ => sd.sm

/-- `SimfileDirectory.open`: which entry is opened -/
def SimDir.openTarget (sd : SimDir) : Except DErr Str :=
  match sd.simfilePath with
  | some p => .ok p
  | none => .error .fileNotFound

/-- one entry of a pack directory: its name, whether it is a directory, and its own listing -/
structure PackEntry where
  name : Str
  isDir : Bool
  listing : List Str
deriving Repr, DecidableEq

/-- `SimfilePack._find_simfile_paths`: immediate sub-directories that directly contain a simfile, in listing order -/
def packDirs (entries : List PackEntry) : List Str :=
  (entries.filter fun e => e.isDir && e.listing.any fun item => (extMatch item T.simfileExts).isSome).map (·.name)

/-- `SimfilePack.banner`: (inside the pack?, name) -/
def packBanner (packListing : List Str) (packName : Str) (besideExists : Str → Bool) : Option (Bool × Str) :=
  match T.imageExts.findSome? fun ext => packListing.find? fun item => (extMatch item [ext]).isSome with
  | some item => some (true, item)
  | none => (T.imageExts.find? fun ext => besideExists (packName ++ ext)).map fun ext => (false, packName ++ ext)

/-! ### assets -/

/-- `os.path.splitext(name)[0]` for a plain file name: a leading run of dots never starts an extension -/
def stem (name : Str) : Str :=
  let lead := name.takeWhile (· = '.')
  let rest := name.dropWhile (· = '.')
  match rpartition '.' rest with
  | (a, true, _) => if a.isEmpty then name else lead ++ a
  | (_, false, _) => name

inductive Preset
  | contains_ (lit : Str)
  | startsWith_ (lit : Str)
  | endsWith_ (lit : Str)
deriving Repr, DecidableEq

def isPlainLit (s : Str) : Bool := s.all fun c => c.isAlphanum || c = ' ' || c = '-' || c = '_'

/-- the three regex forms the presets use: `lit`, `^lit`, `lit$`; anything else is not modelled -/
def compilePreset (p : Str) : Option Preset :=
  match p with
  | '^' :: r => if isPlainLit r then some (.startsWith_ r) else none
  | _ =>
    match p.reverse with
    | '$' :: r => if isPlainLit r.reverse then some (.endsWith_ r.reverse) else none
    | _ => if isPlainLit p then some (.contains_ p) else none

def Preset.matches (p : Preset) (s : Str) : Bool :=
  match p with
  | .contains_ l => containsSub s l
  | .startsWith_ l => startsWith s l
  | .endsWith_ l => endsWith s l

/-- `AssetDefinition.matches(path)`; `none` when a preset is outside the modelled regex fragment -/
def assetMatches (kind : Str) (name : Str) : Option Bool :=
  match T.assetDefinitions.find? (·.1 = kind) with
  | none => none
  | some (_, presets, exts, byExt) =>
    match presets.mapM compilePreset with
    | none => none
    | some ps =>
      some ((ps.any fun p => p.matches (lower (stem name))) || (byExt && (extMatch name exts).isSome))

/-- `_get_case_insensitive_path` over the containing directory's listing (`none` = not a directory) -/
def caseInsensitive (containing : Option (List Str)) (filename : Str) : Option Str :=
  match containing with
  | none => none
  | some l => l.find? fun item => lower item = lower filename

/-- `Assets._asset_property`: `inl name` = the specified file (entry of its containing directory),
`inr name` = an entry of the simfile directory matched by pattern, `none` -/
def assetLookup (kind : Str) (specified : Option Str) (containing : Option (List Str)) (specifiedFile : Str)
    (dirlist : List Str) : Option (Option (Sum Str Str)) :=
  let viaSpec : Option Str :=
    match specified with
    | some (_ :: _) => caseInsensitive containing specifiedFile
    | _ => none
  match viaSpec with
  | some item => some (some (.inl item))
  | none =>
    match dirlist.mapM (fun f => (assetMatches kind f).map fun b => (f, b)) with
    | none => none
    | some fs => some ((fs.find? (·.2)).map fun fb => .inr fb.1)

/-! ### the `Assets` object: a listing taken once and a cache of answers -/

abbrev AssetAnswer := Option (Sum Str Str)

/-- `Assets` after `__init__`: `_dirlist` (read once) and `_cache` (most recent entry first) -/
structure AssetsObj where
  dirlist : List Str
  cache : List (Str × AssetAnswer)
deriving Repr

/-- what the simfile and the filesystem say at the moment a property is asked for -/
structure AskEnv where
  specified : Option Str
  containing : Option (List Str)
  file : Str
deriving Repr

def AssetsObj.fresh (dirlist : List Str) : AssetsObj := { dirlist := dirlist, cache := [] }

/-- one `_asset_property(kind)` call: the cached answer if there is one, else the lookup, cached.
`none` = the kind is outside the modelled fragment -/
def AssetsObj.ask (a : AssetsObj) (kind : Str) (env : AskEnv) : Option (AssetsObj × AssetAnswer) :=
  match a.cache.find? (·.1 = kind) with
  | some kv => some (a, kv.2)
  | none =>
    match assetLookup kind env.specified env.containing env.file a.dirlist with
    | none => none
    | some v => some ({ a with cache := (kind, v) :: a.cache }, v)

/-- a session: the same object asked a sequence of questions -/
def AssetsObj.run (a : AssetsObj) : List (Str × AskEnv) → Option (AssetsObj × List AssetAnswer)
  | [] => some (a, [])
  | (k, env) :: rest =>
    match a.ask k env with
    | none => none
    | some (a', v) =>
      match a'.run rest with
      | none => none
      | some (a'', vs) => some (a'', v :: vs)

end Simfile
