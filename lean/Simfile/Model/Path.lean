/-
PyFilesystem paths (`fs.path`, '/'-separated), as `simfile._private.path.FSPath` uses them whenever the filesystem is
not the native one (MemoryFS, ZipFS, ...): `join`, `split`, `normpath`, and `iteratepath` (what MemoryFS walks).
`none` = `fs.errors.IllegalBackReference` (a `..` that would climb above the start of the path).

Not modelled: `os.path` (NativeOSFS). It differs: `os.path.join` does not normalise, `os.path.normpath` keeps leading
`..` of a relative path and drops `..` at the root, keeps `//` at the start, maps "" to "."; `os.path.split` strips
trailing slashes of the head and leaves "a/" as ("a", "").

No imports beyond the string model: this file is part of the executable model.
-/
import Simfile.Model.Str
namespace Simfile.Path
open Simfile

/-- `path.startswith("/")` -/
def isAbs (p : Str) : Bool :=
  match p with
  | '/' :: _ => true
  | _ => false

/-- `fs.path.abspath` -/
def abspath (p : Str) : Str := if isAbs p then p else '/' :: p

/-- `fs.path.relpath`: `path.lstrip("/")` -/
def relpath (p : Str) : Str := p.dropWhile (· = '/')

/-- a component that `normpath` keeps and that can name a directory entry: not "", ".", "..", no '/' -/
def validName (n : Str) : Bool := !n.isEmpty && !n.contains '/' && n != ['.'] && n != ['.', '.']

/-- the loop of `fs.path.normpath` over `path.split("/")`; `acc` is the stack of kept components, top first.
"", "." are skipped, ".." pops (`IndexError` on the empty stack = IllegalBackReference) -/
def normLoop : List Str → List Str → Option (List Str)
  | acc, [] => some acc.reverse
  | acc, c :: cs =>
    if c = [] ∨ c = ['.'] then normLoop acc cs
    else if c = ['.', '.'] then
      match acc with
      | [] => none
      | _ :: acc' => normLoop acc' cs
    else normLoop (c :: acc) cs

/-- the components of the normalised path: `fs.path.iteratepath(path)` -/
def components (p : Str) : Option (List Str) := normLoop [] (splitOn '/' p)

/-- prefix + "/".join(components) -/
def render (abs : Bool) (cs : List Str) : Str := (if abs then ['/'] else []) ++ joinWith ['/'] cs

/-- `fs.path.normpath`. The two early exits of the Python code (`path in "/"`, and `path.rstrip("/")` when the regex
`(^|/)\.\.?($|/)|//` finds nothing) return what the general loop returns (checked by differential testing). -/
def normpath (p : Str) : Option Str := (components p).map (render (isAbs p))

/-- `fs.path.join(*paths)`: empty components are dropped, an absolute component discards what came before it,
the rest is joined with "/" and normalised -/
def joinList (paths : List Str) : Option Str :=
  let st : Bool × List Str := paths.foldl (fun st p =>
    match p with
    | [] => st
    | c :: _ => if c = '/' then (true, [p]) else (st.1, st.2 ++ [p])) (false, [])
  (normpath (joinWith ['/'] st.2)).map fun q => if st.1 then abspath q else q

/-- `fs.path.join(a, b)` -/
def join (a b : Str) : Option Str := joinList [a, b]

/-- `fs.path.split`: ("", path) without a slash, else `rsplit("/", 1)` with an empty head replaced by "/" -/
def split (p : Str) : Str × Str :=
  match rpartition '/' p with
  | (a, true, b) => (if a.isEmpty then ['/'] else a, b)
  | (_, false, _) => ([], p)

/-- `fs.path.basename` -/
def basename (p : Str) : Str := (split p).2

end Simfile.Path
