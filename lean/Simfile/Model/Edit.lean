/-
The editing API of an SM simfile object as the properties' quantifier describes it ("set/delete properties by key or
attribute, add/remove/reorder/replace charts, edit chart fields and extra components"), on the model's SMSimfile. C01 (growth):
`Props/C01Reach.lean` proves that every object reachable from a domain object (e.g. `blank()`) by edits that meet the caller's
obligations lies in the round-trip domain `C01.DomSM`.

Dictionary operations are those of Model/Views.lean (`vstep`, the model behind C18) — assignments and deletions by key and by
attribute, with the FREEZES/ANIMATIONS aliases; chart-list operations are Python's list operations (an index out of range
raises and leaves the list as it is; `insert` clamps like `list.insert`).
-/
import Simfile.Model.Views
namespace Simfile

inductive SMEdit
  | setKey (k : Str) (v : Option Str)          -- sf[k] = v   (v may be None: a key-only property)
  | delKey (k : Str)                           -- del sf[k]
  | setAttr (a : Str) (v : Str)                -- sf.title = v, sf.stops = v (alias rule), …
  | delAttr (a : Str)
  | appendChart (c : SMChart)                  -- sf.charts.append(c)
  | insertChart (i : Nat) (c : SMChart)        -- sf.charts.insert(i, c)
  | setChart (i : Nat) (c : SMChart)           -- sf.charts[i] = c
  | popChart (i : Nat)                         -- sf.charts.pop(i)
  | reverseCharts                              -- sf.charts.reverse()
  | clearCharts                                -- sf.charts.clear()
  | setField (i : Nat) (key : Str) (v : Str)   -- sf.charts[i][key] = v  /  setattr(sf.charts[i], key.lower(), v)
  | setExtra (i : Nat) (e : Option (List Str)) -- sf.charts[i].extradata = e (or the result of editing the list in place)
deriving Repr

def listSetAt {α} : List α → Nat → α → List α
  | [], _, _ => []
  | _ :: xs, 0, v => v :: xs
  | x :: xs, n + 1, v => x :: listSetAt xs n v

def listInsertAt {α} (l : List α) (i : Nat) (v : α) : List α := l.take i ++ v :: l.drop i

/-- `d[k] = v` with an Optional value (the dictionary model of Views sets strings only) -/
def setKeyOpt (d : Dict) (k : Str) (v : Option Str) : Dict := d.set k v

def applyEdit (s : SMSimfile) : SMEdit → SMSimfile
  | .setKey k v => { s with props := setKeyOpt s.props k v }
  | .delKey k => { s with props := (vstep .smSimfile s.props (.delKey k)).1 }
  | .setAttr a v => { s with props := (vstep .smSimfile s.props (.setAttr a v)).1 }
  | .delAttr a => { s with props := (vstep .smSimfile s.props (.delAttr a)).1 }
  | .appendChart c => { s with charts := s.charts ++ [c] }
  | .insertChart i c => { s with charts := listInsertAt s.charts i c }
  | .setChart i c => { s with charts := listSetAt s.charts i c }
  | .popChart i => { s with charts := s.charts.eraseIdx i }
  | .reverseCharts => { s with charts := s.charts.reverse }
  | .clearCharts => { s with charts := [] }
  | .setField i key v =>
    match s.charts[i]? with
    | some c => { s with charts := listSetAt s.charts i { c with fields := (vstep .smChart c.fields (.setKey key v)).1 } }
    | none => s
  | .setExtra i e =>
    match s.charts[i]? with
    | some c => { s with charts := listSetAt s.charts i { c with extradata := e } }
    | none => s

def applyEdits (s : SMSimfile) (es : List SMEdit) : SMSimfile := es.foldl applyEdit s

end Simfile
