/-
Entry points of loading (simfile/__init__.py: _detect_ssc, load, loads, open; class constructors). C03.
The tokenizer (msdparser.parse_msd) is the trusted base: its result for the text — a parameter list, or the
stray-text error under strict parsing — is the input of the model.
-/
import Simfile.Model.Objects
namespace Simfile

inductive Loaded
  | sm (s : SMSimfile)
  | ssc (s : SSCSimfile)
deriving Repr, DecidableEq

/-- What the lazy tokenizer yields: the parameters produced before it stops, and whether it stopped with the
stray-text error (strict parsing) instead of reaching the end of the text. -/
structure Tokens where
  params : List Param
  strayError : Bool := false

/-- parse the parameter stream in the given format; an error of the loader itself (SM chart with fewer than
six components) comes first, since the tokenizer is consumed lazily -/
def loadAs (isSSC : Bool) (t : Tokens) : Except Err Loaded := do
  let r ← if isSSC then pure (Loaded.ssc (loadSSC t.params)) else (loadSM t.params).map Loaded.sm
  if t.strayError then .error .msdParserError else pure r

/-- the format rule: by file-name suffix when it is .ssc / .sm (any letter case), otherwise by the first
parameter's key -/
def formatOf (name : Option Str) (ps : List Param) : Bool :=
  match name.bind suffixRule with
  | some b => b
  | none => firstKeyIsVersion ps

/-- `simfile.load` / `loads` / `open` on content whose tokenization is `t` -/
def load (name : Option Str) (t : Tokens) : Except Err Loaded :=
  match name.bind suffixRule with
  | some b => loadAs b t
  | none =>
    -- the peek at the first parameter fails when the tokenizer stops before yielding one
    if t.params.isEmpty ∧ t.strayError then .error .msdParserError
    else loadAs (firstKeyIsVersion t.params) t

/-- class constructors `SMSimfile(string=…|file=…)`, `SSCSimfile(…)`: no detection -/
def construct (isSSC : Bool) (t : Tokens) : Except Err Loaded := loadAs isSSC t

end Simfile
