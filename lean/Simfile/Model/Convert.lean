/-
simfile.convert: sm_to_ssc / ssc_to_sm (C16, C17). Follows `_convert`: template copy or blank(), `_convert_warps`,
`_copy_properties` with `_should_copy_property` over the generated tables.
-/
import Simfile.Model.Source
namespace Simfile

/-- a simfile of either kind, charts as (dictionary, SM extradata) -/
structure AnySimfile where
  isSSC : Bool
  props : Dict
  charts : List (Dict × Option (List Str))
deriving Repr, DecidableEq

inductive CErr
  | notImplemented
  | invalidProperty (key : Str)
  | keyError
  | valueError
  | attributeError
deriving Repr, DecidableEq

/-- behaviour codes as in the generated `invalidPropertyBehaviorNames` (COPY_ANYWAY, IGNORE, ERROR_UNLESS_DEFAULT, ERROR) -/
def behCode (name : Str) : Nat := ((T.invalidPropertyBehaviorNames.find? (·.1 = name)).map (·.2)).getD 0
def bCOPY : Nat := behCode ['C','O','P','Y','_','A','N','Y','W','A','Y']
def bIGNORE : Nat := behCode ['I','G','N','O','R','E']
def bUNLESS : Nat := behCode ['E','R','R','O','R','_','U','N','L','E','S','S','_','D','E','F','A','U','L','T']
def bERROR : Nat := behCode ['E','R','R','O','R']

def defaultProperty (k : Str) : Str := ((T.defaultProperties.find? (·.1 = k)).map (·.2)).getD T.defaultPropertyFallback

/-- `_should_copy_property`; `beh` is the caller's (possibly partial) mapping kind ↦ behaviour -/
def shouldCopy (k : Str) (v : Option Str) (invalid : List (Nat × List Str)) (beh : List (Nat × Nat)) : Except CErr Bool :=
  match invalid.find? (fun e => e.2.contains k) with
  | none => .ok true
  | some e =>
    let b := match beh.find? (·.1 = e.1) with
      | some x => x.2
      | none => ((T.invalidPropertyBehaviors.find? (·.1 = e.1)).map (·.2)).getD 0
    if b = bCOPY then .ok true
    else if b = bIGNORE then .ok false
    else if b = bUNLESS then
      -- `(value or "").strip()`: a key-only parameter (None) is compared like the empty string
      if strip (v.getD []) = defaultProperty k then .ok false else .error (.invalidProperty k)
    else .error (.invalidProperty k)

/-- `SMChart.__setitem__` guard / plain `OrderedDict.__setitem__` -/
def setItem (smChartTarget : Bool) (d : Dict) (k : Str) (v : Option Str) : Except CErr Dict :=
  if smChartTarget && !T.smChartProperties.contains k then .error .keyError else .ok (d.set k v)

/-- `_copy_properties` -/
def copyProperties (smChartTarget : Bool) (source : Dict) (output : Dict) (invalid : List (Nat × List Str))
    (beh : List (Nat × Nat)) : Except CErr Dict :=
  source.foldlM (fun out kv => do
    if ← shouldCopy kv.1 kv.2 invalid beh then setItem smChartTarget out kv.1 kv.2 else pure out) output

def hasNegative (rows : List BVRow) : Bool :=
  rows.any fun r => match parseDecimal r.value with | some q => decide (q < 0) | none => false

/-- every value token is a decimal literal the model can read (`Decimal(value)` succeeds) -/
def valuesParse (rows : List BVRow) : Bool := rows.all fun r => (parseDecimal r.value).isSome

/-- `_convert_warps` -/
def convertWarps (src : AnySimfile) : Except CErr Unit :=
  if !src.isSSC then
    match beatValuesFromStr (attrGet .smSimfile src.props ['b','p','m','s']),
          beatValuesFromStr (attrGet .smSimfile src.props ['s','t','o','p','s']) with
    | some b, some s =>
      -- `Decimal(value)` of every row runs while the lists are built, before any sign is looked at
      if !(valuesParse b && valuesParse s) then .error .valueError
      else if hasNegative b || hasNegative s then .error .notImplemented else .ok ()
    | _, _ => .error .valueError
  else
    -- `len(BeatValues(source.warps))`: BeatValues is a UserList, so this is the length of the WARPS *string*
    match attrGet .sscSimfile src.props ['w','a','r','p','s'] with
    | some (_ :: _) => .error .notImplemented
    | _ => .ok ()

def blankSimfile (ssc : Bool) : AnySimfile :=
  { isSSC := ssc, props := if ssc then T.blankSSCSimfile else T.blankSMSimfile, charts := [] }
def blankChart (ssc : Bool) : Dict × Option (List Str) :=
  if ssc then (T.blankSSCChart, none) else (T.blankSMChart, T.blankSMChartExtra)

/-- `_convert`. `deepcopy(template) or blank()`: an OrderedDict without items is falsy, so an empty template
(whatever charts it holds) is replaced by blank(). -/
def convert (src : AnySimfile) (toSSC : Bool) (simTemplate : Option AnySimfile)
    (chartTemplate : Option (Dict × Option (List Str))) (beh : List (Nat × Nat)) : Except CErr AnySimfile := do
  let out0 : AnySimfile := match simTemplate with
    | some t => if t.props.isEmpty then blankSimfile toSSC else t
    | none => blankSimfile toSSC
  convertWarps src
  let invSim := if toSSC then T.invalidSSCSimfile else T.invalidSMSimfile
  let invChart := if toSSC then T.invalidSSCChart else T.invalidSMChart
  let props ← copyProperties false src.props out0.props invSim beh
  let charts ← src.charts.mapM fun c => do
    let tmpl := match chartTemplate with
      | some t => if t.1.isEmpty then blankChart toSSC else t
      | none => blankChart toSSC
    let d ← copyProperties (!toSSC) c.1 tmpl.1 invChart beh
    pure (d, tmpl.2)
  pure { isSSC := toSSC, props := props, charts := out0.charts ++ charts }

end Simfile
