/-
simfile.timing.engine with its floating-point operations made explicit (C11, growth: the IEEE-754 arithmetic the exact model
leaves out). `Fl.fl` stands for rounding to a double; every place where the Python code produces a float applies it:

  time_until:  float(beat - self.event.beat) * 60 / float(self.bpm)         (four roundings: two conversions, `*`, `/`)
               time_until += float(self.event.value)                          (conversion and `+`)
  advance:     SongTime(self.last.event.time + time_until)                    (`+`)
  init:        SongTime(-offset)                                               (conversion of the Decimal)
  time_at:     prior_state.event.time + prior_state.time_until(beat, tag)     (`+`)

Beats, BPM values, pause lengths and the event order are exact (Fraction / Decimal) in the Python code and stay so here;
the search `bisect(self._tagged_beats, ...)` looks at beats and tags only, so it finds the same state index.
`errTimeAt` is a computable bound on |time_atF − time_at| under the standard model of floating-point arithmetic
(|fl x − x| ≤ u·|x|); the theorem that it is a bound is `Simfile.C11F.time_error` (Props/C11Float.lean).
-/
import Simfile.Model.Engine
namespace Simfile

structure Fl where
  fl : Rat → Rat

def absR (x : Rat) : Rat := if x < 0 then -x else x

/-- `TimingState.time_until` with roundings -/
def TState.timeUntilF (R : Fl) (s : TState) (beat : Rat) (tag : Tag) : Rat :=
  let base := if s.warp then 0 else R.fl (R.fl (R.fl (beat - s.beat) * 60) / R.fl s.bpm)
  if (s.tag = .stop ∨ s.tag = .delay) ∧ (tag = .stopEnd ∨ tag = .delayEnd) then R.fl (base + R.fl s.value) else base

/-- `TimingStateMachine.advance` with roundings -/
def advanceF (R : Fl) (s : TState) (e : TEvent) : TState :=
  { beat := e.beat, value := e.value, tag := e.tag,
    time := R.fl (s.time + s.timeUntilF R e.beat e.tag),
    bpm := if e.tag = .bpm then e.value else s.bpm,
    warp := if e.tag = .warp then true else if e.tag = .warpEnd then false else s.warp }

def initStateF (R : Fl) (td : TimingData) : TState :=
  { initState td with time := R.fl (-td.offset) }

def statesFGo (R : Fl) (s : TState) : List TEvent → List TState
  | [] => [s]
  | e :: es => s :: statesFGo R (advanceF R s e) es

def statesF (R : Fl) (td : TimingData) : List TState := statesFGo R (initStateF R td) (events td)

/-- `TimingEngine.time_at` with roundings -/
def timeAtF (R : Fl) (td : TimingData) (beat : Rat) (tag : Tag := .stop) : Rat :=
  let ss := (statesF R td).toArray
  let i := bisectRightLoop (fun (s : TState) => keyLT (beat, tag) (s.beat, s.tag)) ss (ss.size + 1) 0 ss.size
  let s := ss.getD (i - 1) (initStateF R td)
  R.fl (s.time + s.timeUntilF R beat tag)

/-! ### the error bound (computable) -/

/-- bound on |fl ã − a| when |ã − a| ≤ e -/
def eFl (u a e : Rat) : Rat := e + u * (absR a + e)

/-- bound on the error of `time_until` computed from a state whose beat/bpm/value are exact -/
def errTimeUntil (u : Rat) (s : TState) (beat : Rat) (tag : Tag) : Rat :=
  let db := beat - s.beat
  let e1 := eFl u db 0
  let e2 := eFl u (db * 60) (60 * e1)
  let eb := eFl u s.bpm 0
  let eq := (e2 * s.bpm + absR (db * 60) * eb) / (s.bpm * (s.bpm - eb))
  let e3 := eFl u (db * 60 / s.bpm) eq
  let base := if s.warp then 0 else e3
  let exactBase := if s.warp then 0 else db * 60 / s.bpm
  if (s.tag = .stop ∨ s.tag = .delay) ∧ (tag = .stopEnd ∨ tag = .delayEnd)
  then eFl u (exactBase + s.value) (base + eFl u s.value 0) else base

/-- error bounds of the state times, in state order (parallel to `states`) -/
def errStatesGo (u : Rat) (s : TState) (e : Rat) : List TEvent → List Rat
  | [] => [e]
  | ev :: evs =>
    let tu := s.timeUntil ev.beat ev.tag
    e :: errStatesGo u (advance s ev) (eFl u (s.time + tu) (e + errTimeUntil u s ev.beat ev.tag)) evs

def errStates (u : Rat) (td : TimingData) : List Rat :=
  errStatesGo u (initState td) (eFl u (-td.offset) 0) (events td)

/-- bound on |timeAtF − timeAt|, from a precomputed engine and the error bounds of its states -/
def errTimeAtWith (u : Rat) (e : Engine) (errs : List Rat) (beat : Rat) (tag : Tag) : Rat :=
  let i := bisectRightLoop (fun (s : TState) => keyLT (beat, tag) (s.beat, s.tag)) e.arr (e.arr.size + 1) 0 e.arr.size
  let s := e.arr.getD (i - 1) e.init
  let es := errs.getD (i - 1) (eFl u (-e.td.offset) 0)
  eFl u (s.time + s.timeUntil beat tag) (es + errTimeUntil u s beat tag)

/-- bound on |timeAtF − timeAt| -/
def errTimeAt (u : Rat) (td : TimingData) (beat : Rat) (tag : Tag := .stop) : Rat :=
  errTimeAtWith u (mkEngine td) (errStates u td) beat tag

end Simfile

namespace Simfile

/-- `time_notes` with the float engine: hittability reads beats, tags and warp flags only (exact in the Python code), the
attached time is `time_at` computed in floats -/
def timeNotesF (R : Fl) (td : TimingData) (opt : Unhittable) (notes : List Note) : List (Rat × Note) :=
  let e := mkEngine td
  notes.filterMap fun n =>
    if e.hittable n.beat || opt = .keepNote then some (timeAtF R td n.beat .stop, n)
    else if opt = .tapToFake then
      (if n.ntype = cTAP then some (timeAtF R td n.beat .stop, { n with ntype := cFAKE }) else none)
    else none

end Simfile
