/-
simfile.notes.group (group_notes / ungroup_notes) and simfile.notes.count. C09, C10.
The model keeps the code's machinery: `held_columns` (dict in insertion order), `buffer` (deque),
flush / flush_until_held_note / attach_tail / join_head_to_tail, then groupby(beat) and add_row.
-/
import Simfile.Model.Notes
namespace Simfile

inductive GNote
  | plain (n : Note)
  | withTail (head : Note) (tailBeat : Rat)
deriving Repr, DecidableEq

def GNote.beat : GNote → Rat
  | .plain n => n.beat
  | .withTail h _ => h.beat
def GNote.ntype : GNote → Char
  | .plain n => n.ntype
  | .withTail h _ => h.ntype
def GNote.column : GNote → Nat
  | .plain n => n.column
  | .withTail h _ => h.column
def GNote.key : GNote → Nat × Rat × Nat
  | .plain n => n.key
  | .withTail h _ => h.key

inductive SameBeat | keepSeparate | joinByType | joinAll
deriving Repr, DecidableEq
inductive Orphan | raise | keep | drop
deriving Repr, DecidableEq

structure GOpts where
  incl : List Char
  sameBeat : SameBeat := .keepSeparate
  join : Bool := false
  orphanHead : Orphan := .raise
  orphanTail : Orphan := .raise
deriving Repr

def isHead (c : Char) : Bool := c = cHOLD || c = cROLL

/-- state of `join_heads_to_tails_`: held_columns, buffer, and what has been yielded so far -/
structure JState where
  held : List (Nat × Note)
  buffer : List GNote
  out : List GNote
deriving Repr

def heldContains (held : List (Nat × Note)) (col : Nat) : Bool := held.any (·.1 = col)
def heldPop (held : List (Nat × Note)) (col : Nat) : Option Note × List (Nat × Note) :=
  ((held.find? (·.1 = col)).map (·.2), held.filter (·.1 ≠ col))
/-- `held_columns[col] = note` (dict semantics: an existing key keeps its position) -/
def heldSet : List (Nat × Note) → Nat → Note → List (Nat × Note)
  | [], c, n => [(c, n)]
  | (c', n') :: rest, c, n => if c' = c then (c, n) :: rest else (c', n') :: heldSet rest c n

/-- `flush()` -/
def JState.flush (s : JState) : JState := { s with out := s.out ++ s.buffer, buffer := [] }

/-- the `while buffer[0] not in held_notes: yield buffer.popleft()` loop; `none` = IndexError on an
empty deque (cannot happen while every held head is still buffered) -/
def popUntilHeld (held : List (Nat × Note)) : List GNote → Option (List GNote × List GNote)
  | [] => none
  | g :: rest =>
    if held.any (fun cn => GNote.plain cn.2 = g) then some ([], g :: rest)
    else (popUntilHeld held rest).map fun (popped, remaining) => (g :: popped, remaining)

/-- `flush_until_held_note()` -/
def JState.flushUntilHeld (s : JState) : Option JState :=
  if s.held.isEmpty then some s.flush
  else (popUntilHeld s.held s.buffer).map fun (popped, remaining) =>
    { s with out := s.out ++ popped, buffer := remaining }

/-- `maybe_buffer(note)` -/
def JState.maybeBuffer (s : JState) (n : Note) : JState :=
  if s.held.isEmpty then let s' := s.flush; { s' with out := s'.out ++ [.plain n] }
  else { s with buffer := s.buffer ++ [.plain n] }

/-- `buffer[buffer.index(head)] = NoteWithTail(...)` ; `none` = ValueError (head not buffered) -/
def attachTail : List GNote → Note → Rat → Option (List GNote)
  | [], _, _ => none
  | g :: rest, head, tb =>
    if g = .plain head then some (.withTail head tb :: rest)
    else (attachTail rest head tb).map (g :: ·)

/-- `buffer.remove(head)` ; `none` = ValueError -/
def removeFirst : List GNote → Note → Option (List GNote)
  | [], _ => none
  | g :: rest, head => if g = .plain head then some rest else (removeFirst rest head).map (g :: ·)

inductive GErr | orphaned | internal
deriving Repr, DecidableEq

/-- `join_head_to_tail(maybe_head, maybe_tail)` acting on the buffer -/
def joinHeadToTail (o : GOpts) (buffer : List GNote) (head tail : Option Note) : Except GErr (List GNote) :=
  match head with
  | none =>
    match o.orphanTail with
    | .raise => .error .orphaned
    | .keep => match tail with
      | some t => .ok (buffer ++ [.plain t])
      | none => .ok buffer
    | .drop => .ok buffer
  | some h =>
    let isTail := match tail with | some t => t.ntype = cTAIL | none => false
    if !isTail then
      match o.orphanHead with
      | .raise => .error .orphaned
      | .keep => .ok buffer
      | .drop => match removeFirst buffer h with
        | some b => .ok b
        | none => .error .internal
    else
      match tail with
      | some t => match attachTail buffer h t.beat with
        | some b => .ok b
        | none => .error .internal
      | none => .error .internal

/-- one iteration of the `for note in note_stream` loop -/
def joinStep (o : GOpts) (s : JState) (n : Note) : Except GErr JState := do
  let s1 ←
    if heldContains s.held n.column || n.ntype = cTAIL then do
      let (head, held') := heldPop s.held n.column
      let buf ← joinHeadToTail o s.buffer head (some n)
      match ({ s with held := held', buffer := buf } : JState).flushUntilHeld with
      | some s' => pure s'
      | none => throw GErr.internal
    else pure s
  let s2 := if isHead n.ntype then { s1 with held := heldSet s1.held n.column n } else s1
  pure (if n.ntype ≠ cTAIL then s2.maybeBuffer n else s2)

/-- `join_heads_to_tails_` -/
def joinHeadsToTails (o : GOpts) (notes : List Note) : Except GErr (List GNote) := do
  let s ← notes.foldlM (joinStep o) { held := [], buffer := [], out := [] }
  -- clean up orphaned heads
  let buf ← s.held.foldlM (fun buf cn => joinHeadToTail o buf (some cn.2) none) s.buffer
  pure (s.out ++ buf)

/-- `add_row` -/
def addRow (mode : SameBeat) (row : List GNote) : List (List GNote) :=
  match mode with
  | .keepSeparate => row.map fun g => [g]
  | .joinAll => [row]
  | .joinByType =>
    (row.foldl (fun (acc : List Char × List (List GNote)) g =>
      if acc.1.contains g.ntype then acc
      else (acc.1 ++ [g.ntype], acc.2 ++ [row.filter fun h => h.ntype = g.ntype])) ([], [])).2

/-- `group_notes` -/
def groupNotes (o : GOpts) (notes : List Note) : Except GErr (List (List GNote)) := do
  let filtered := notes.filter fun n => o.incl.contains n.ntype
  let stream ← if o.join then joinHeadsToTails o filtered else pure (filtered.map GNote.plain)
  pure ((groupRuns GNote.beat stream).flatMap fun (_, row) => addRow o.sameBeat row)

/-! ### ungroup_notes -/

/-- `heappush` on a heap of notes with pairwise distinct positions, modelled as sorted insertion -/
def heapInsert (t : Note) : List Note → List Note
  | [] => [t]
  | x :: xs => if t.lt x then t :: x :: xs else x :: heapInsert t xs

structure UState where
  pending : List Note
  out : List Note
deriving Repr

/-- `while pending_tails and pending_tails[0] < note: yield heappop(pending_tails)` -/
def popReached (key : Nat × Rat × Nat) : List Note → List Note × List Note
  | [] => ([], [])
  | t :: ts => if keyLt t.key key then let (a, b) := popReached key ts; (t :: a, b) else ([], t :: ts)

/-- `check_orphan(note)`: the notes to yield -/
def checkOrphan (policy : Orphan) (pending : List Note) (n : Note) : Except GErr (List Note) :=
  if pending.any (·.column = n.column) then
    match policy with
    | .raise => .error .orphaned
    | .keep => .ok [n]
    | .drop => .ok []
  else .ok [n]

def ungroupStep (policy : Orphan) (s : UState) (g : GNote) : Except GErr UState := do
  let (reached, pending) := popReached g.key s.pending
  let out := s.out ++ reached
  match g with
  | .plain n =>
    let ys ← checkOrphan policy pending n
    pure { pending := pending, out := out ++ ys }
  | .withTail h tb =>
    let ys ← checkOrphan policy pending h
    pure { pending := heapInsert { beat := tb, column := h.column, ntype := cTAIL, player := h.player } pending,
           out := out ++ ys }

/-- `ungroup_notes` -/
def ungroupNotes (policy : Orphan) (groups : List (List GNote)) : Except GErr (List Note) := do
  let s ← groups.flatten.foldlM (ungroupStep policy) { pending := [], out := [] }
  pure (s.out ++ s.pending)

/-! ### simfile.notes.count -/

def defaultNoteTypes : List Char :=
  T.noteTypes.filterMap fun (name, c) => if T.defaultNoteTypes.contains name then some c else none

def allNoteTypes : List Char := T.noteTypes.map (·.2)

/-- `count_grouped_notes` -/
def countGrouped (groups : List (List GNote)) (minimum : Nat) : Nat :=
  (groups.filter fun g => minimum ≤ g.length).length

/-- `count_steps` (count_jumps / count_hands are this with minimum 2 / 3) -/
def countSteps (notes : List Note) (incl : List Char) (mode : SameBeat) (minimum : Nat) : Except GErr Nat := do
  let g ← groupNotes { incl := incl, sameBeat := mode } notes
  pure (countGrouped g minimum)

def countMines (notes : List Note) : Nat := (notes.filter fun n => n.ntype = cMINE).length

/-- `_count_holds_or_rolls` -/
def countHoldsOrRolls (notes : List Note) (head : Char) (oh ot : Orphan) : Except GErr Nat := do
  let g ← groupNotes { incl := [head, cTAIL], join := true, orphanHead := oh, orphanTail := ot } notes
  pure (countGrouped g 1)

end Simfile
