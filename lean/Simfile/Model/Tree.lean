/-
A directory tree held in memory (what `fs.memoryfs.MemoryFS` is), the filesystem calls the library makes on it
(`isdir`, `exists`, `listdir`, by PyFilesystem path), and on top of it, line by line, the tree-walking code of
simfile.dir and simfile.assets: `SimfileDirectory.__init__`, `SimfilePack._find_simfile_paths`, `SimfilePack.banner`,
`Assets._get_case_insensitive_path`, `Assets._asset_property` / `_cache_path`.  C19, C20.

The earlier models of `Simfile/Model/Dir.lean` receive listings chosen by the caller; here the listings, the
containing directory, the file name and the returned paths are all computed from the tree and the path strings.
Imports only model files; computable and total.
-/
import Simfile.Model.Dir
import Simfile.Model.Path
namespace Simfile

/-- a file with its text, or a directory with its entries in listing order (MemoryFS: creation order) -/
inductive Node where
  | file (content : Str)
  | dir (entries : List (Str × Node))
deriving Repr

namespace Node

def isDir : Node → Bool
  | dir _ => true
  | file _ => false

/-- entry names in stored order (`_DirEntry.list()`); a file has none -/
def names : Node → List Str
  | dir es => es.map (·.1)
  | file _ => []

/-- `_DirEntry.get_entry(name)`: the entry of that exact name -/
def child (n : Node) (name : Str) : Option Node :=
  match n with
  | dir es => (es.find? (·.1 = name)).map (·.2)
  | file _ => none

/-- `MemoryFS._get_dir_entry` over the components of a path: walk down, `none` as soon as a component is missing
or the current node is a file -/
def lookup : Node → List Str → Option Node
  | n, [] => some n
  | n, c :: cs =>
    match n.child c with
    | none => none
    | some k => k.lookup cs

/-- the two levels that `packDirs` (Model/Dir.lean) takes as its input, read off a directory node: for each entry its
name, whether it is a directory, and the names of its own entries -/
def packEntries : Node → List PackEntry
  | dir es => es.map fun e => { name := e.1, isDir := e.2.isDir, listing := e.2.names }
  | file _ => []

mutual
/-- what every real tree satisfies: entry names are non-empty, without '/', not "." or "..", and distinct within
a directory -/
def wf : Node → Bool
  | file _ => true
  | dir es => wfNames es [] && wfList es
def wfList : List (Str × Node) → Bool
  | [] => true
  | (_, n) :: rest => n.wf && wfList rest
def wfNames : List (Str × Node) → List Str → Bool
  | [], _ => true
  | (name, _) :: rest, seen => Path.validName name && !seen.contains name && wfNames rest (name :: seen)
end

end Node

/-! ### the filesystem calls, by path -/

inductive FsErr
  | illegalBackReference
  | resourceNotFound
  | directoryExpected
deriving Repr, DecidableEq

/-- `validatepath` + `_get_dir_entry`: the node a path leads to -/
def resolve (t : Node) (p : Str) : Except FsErr (Option Node) :=
  match Path.components p with
  | none => .error .illegalBackReference
  | some cs => .ok (t.lookup cs)

/-- `FS.isdir` -/
def isdir (t : Node) (p : Str) : Except FsErr Bool :=
  match resolve t p with
  | .error e => .error e
  | .ok (some n) => .ok n.isDir
  | .ok none => .ok false

/-- `FS.exists` -/
def exists_ (t : Node) (p : Str) : Except FsErr Bool :=
  match resolve t p with
  | .error e => .error e
  | .ok r => .ok r.isSome

/-- `MemoryFS.listdir` -/
def listdir (t : Node) (p : Str) : Except FsErr (List Str) :=
  match resolve t p with
  | .error e => .error e
  | .ok none => .error .resourceNotFound
  | .ok (some (.file _)) => .error .directoryExpected
  | .ok (some (.dir es)) => .ok (es.map (·.1))

/-- `fs.path.join` raising -/
def joinE (a b : Str) : Except FsErr Str :=
  match Path.join a b with
  | none => .error .illegalBackReference
  | some p => .ok p

/-- `fs.path.normpath` raising -/
def normpathE (p : Str) : Except FsErr Str :=
  match Path.normpath p with
  | none => .error .illegalBackReference
  | some q => .ok q

/-! ### simfile.dir on a tree -/

inductive DirTErr
  | fs (e : FsErr)
  | duplicate
deriving Repr, DecidableEq

/-- a `SimfileDirectory`: `simfile_dir` (normalised), `sm_path`, `ssc_path` (joined with the directory as given) -/
structure SimDirT where
  simfileDir : Str
  sm : Option Str
  ssc : Option Str
deriving Repr, DecidableEq

/-- `SimfileDirectory(path, filesystem=MemoryFS, ignore_duplicate=ign)` -/
def simfileDirectoryOf (t : Node) (path : Str) (ign : Bool) : Except DirTErr SimDirT :=
  match Path.normpath path with
  | none => .error (.fs .illegalBackReference)
  | some nd =>
    match listdir t path with
    | .error e => .error (.fs e)
    | .ok listing =>
      match scanDir listing ign with
      | .error _ => .error .duplicate
      | .ok sd =>
        match sd.sm.mapM (joinE path), sd.ssc.mapM (joinE path) with
        | .ok sm, .ok ssc => .ok { simfileDir := nd, sm := sm, ssc := ssc }
        | .error e, _ => .error (.fs e)
        | _, .error e => .error (.fs e)

/-- `simfile_path`: the SSC path if present, otherwise the SM path -/
def SimDirT.simfilePath (sd : SimDirT) : Option Str := sd.ssc.orElse fun _ => sd.sm

/-- does a listing contain an entry with a simfile extension (`extensions.match(item, *SIMFILE)` truthy) -/
def hasSimfile (listing : List Str) : Bool := listing.any fun item => (extMatch item T.simfileExts).isSome

/-- the body of the loop of `_find_simfile_paths` for one entry of the pack directory: `some path` = yielded -/
def packItem (t : Node) (packDir item : Str) : Except FsErr (Option Str) :=
  match Path.join packDir item with
  | none => .error .illegalBackReference
  | some p =>
    match isdir t p with
    | .error e => .error e
    | .ok false => .ok none
    | .ok true =>
      match listdir t p with
      | .error e => .error e
      | .ok inner => .ok (if hasSimfile inner then some p else none)

/-- `SimfilePack(packPath, filesystem=MemoryFS).simfile_dir_paths`: the pack directory is normalised, listed, and
every entry that is a directory is listed once more; nothing below that is ever looked at -/
def packSimfileDirs (t : Node) (packPath : Str) : Except FsErr (List Str) :=
  match Path.normpath packPath with
  | none => .error .illegalBackReference
  | some packDir =>
    match listdir t packDir with
    | .error e => .error e
    | .ok items =>
      match items.mapM (packItem t packDir) with
      | .error e => .error e
      | .ok found => .ok (found.filterMap id)

/-- `SimfilePack.simfile_dirs()`: each reported directory scanned with the pack's `ignore_duplicate` -/
def packSimfileDirectories (t : Node) (packPath : Str) (ign : Bool) :
    Except FsErr (List (Except DirTErr SimDirT)) :=
  match packSimfileDirs t packPath with
  | .error e => .error e
  | .ok ds => .ok (ds.map fun d => simfileDirectoryOf t d ign)

/-- `SimfilePack.name` -/
def packName (packPath : Str) : Option Str := (Path.normpath packPath).map fun d => (Path.split d).2

/-- `SimfilePack(packPath).banner()`: the existing two loops (`packBanner`) fed from the tree — the pack listing,
the pack's name and parent from `split(pack_dir)`, `exists(join(parent, name + ext))` — and the result as a path -/
def packBannerT (t : Node) (packPath : Str) : Except FsErr (Option Str) :=
  match Path.normpath packPath with
  | none => .error .illegalBackReference
  | some packDir =>
    match listdir t packDir with
    | .error e => .error e
    | .ok listing =>
      let songsDir := (Path.split packDir).1
      let name := (Path.split packDir).2
      let beside (n : Str) : Bool :=
        match Path.join songsDir n with
        | none => false
        | some p => match exists_ t p with | .ok b => b | .error _ => false
      match packBanner listing name beside with
      | none => .ok none
      | some (true, item) => (joinE packDir item).map some
      | some (false, n) => (joinE songsDir n).map some

/-! ### simfile.assets on a tree -/

/-- `Assets._get_case_insensitive_path(path)`: only the last component is compared up to case; the directory part is
resolved by the filesystem as it is written -/
def caseInsensitivePathT (t : Node) (path : Str) : Except FsErr (Option Str) :=
  let cdir := (Path.split path).1
  let fname := (Path.split path).2
  match isdir t cdir with
  | .error e => .error e
  | .ok false => .ok none
  | .ok true =>
    match listdir t cdir with
    | .error e => .error e
    | .ok items =>
      match items.find? (fun item => lower item = lower fname) with
      | none => .ok none
      | some item => (joinE cdir item).map some

inductive LookupErr
  | fs (e : FsErr)
  | unmodelled
deriving Repr, DecidableEq

/-- `Assets._asset_property(kind)` on a fresh cache, for an `Assets(simfileDir, filesystem=MemoryFS)` whose
`_dirlist` is `dirlist` and whose simfile has `specified` under the kind's key.
`inl p`: the named file, `p` its normalised path; `inr p`: an entry of `dirlist` matched by the kind's patterns,
`p = normpath(join(simfileDir, entry))`; `none`: no asset.
(`if case_insensitive_path:` is taken as "is not None": a joined path is never empty on a real tree.) -/
def assetLookupT (t : Node) (simfileDir kind : Str) (specified : Option Str) (dirlist : List Str) :
    Except LookupErr (Option (Sum Str Str)) :=
  let named : Except FsErr (Option Str) :=
    match specified with
    | some (c :: cs) =>
      match Path.join simfileDir (c :: cs) with
      | none => .error .illegalBackReference
      | some full => caseInsensitivePathT t full
    | _ => .ok none
  match named with
  | .error e => .error (.fs e)
  | .ok (some p) =>
    match Path.normpath p with
    | none => .error (.fs .illegalBackReference)
    | some q => .ok (some (.inl q))
  | .ok none =>
    match dirlist.mapM (fun f => (assetMatches kind f).map fun b => (f, b)) with
    | none => .error .unmodelled
    | some fs =>
      match fs.find? (·.2) with
      | none => .ok none
      | some fb =>
        match Path.join simfileDir fb.1 with
        | none => .error (.fs .illegalBackReference)
        | some p =>
          match Path.normpath p with
          | none => .error (.fs .illegalBackReference)
          | some q => .ok (some (.inr q))

/-- `Assets(simfileDir, simfile=…, filesystem=MemoryFS).<kind>`: the listing is taken from the tree -/
def assetOf (t : Node) (simfileDir kind : Str) (specified : Option Str) : Except LookupErr (Option (Sum Str Str)) :=
  match listdir t simfileDir with
  | .error e => .error (.fs e)
  | .ok dirlist => assetLookupT t simfileDir kind specified dirlist

end Simfile
