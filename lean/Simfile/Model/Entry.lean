/-
The plumbing of the loading entry points (simfile/__init__.py: _detect_ssc, load; base.py: BaseSimfile.__init__)
made explicit: file objects with a read position, the peek at the first parameter, the rewind. C03.
The lazy tokenizer is a parameter `tok strict text : Tokens`.
-/
import Simfile.Model.Load
namespace Simfile

/-- what `load()` can be handed -/
inductive FileObj
  | wrapper (name : Option Str) (content : Str) (pos : Nat)   -- io.TextIOWrapper: an open real or in-memory file
  | stringIO (content : Str)                                   -- io.StringIO, as built by `loads`
  | lines (ls : List Str)                                      -- any iterator of lines
deriving Repr

/-- the text a constructor reads from a file object: everything from the current position on -/
def FileObj.remaining : FileObj → Str
  | .wrapper _ c pos => c.drop pos
  | .stringIO c => c
  | .lines ls => ls.flatten

/-- `_detect_ssc(file, strict)`: the file object to parse from, and the format. The peek consumes an unspecified
amount of the wrapper (modelled as: everything); the rewind `file.seek(0)` puts it back. -/
def peekResult (t : Tokens) (rewound stay : FileObj) : Except Err (FileObj × Bool) :=
  if t.params.isEmpty then
    -- StopIteration: no parameter at all; the stray-text error, if any, has been raised by the peek
    (if t.strayError then .error .msdParserError else .ok (stay, false))
  else .ok (rewound, firstKeyIsVersion t.params)

def detectSSC (tok : Bool → Str → Tokens) (strict : Bool) (f : FileObj) : Except Err (FileObj × Bool) :=
  match f with
  | .wrapper name c pos =>
    match name.bind suffixRule with
    | some b => .ok (f, b)
    | none => peekResult (tok strict (c.drop pos)) (.wrapper name c 0) (.wrapper name c c.length)   -- file.seek(0) after the peek
  | .stringIO c => peekResult (tok strict c) (.stringIO c) (.stringIO c)         -- tee: a copy is parsed, the other handed on
  | .lines ls => peekResult (tok strict ls.flatten) (.stringIO ls.flatten) (.stringIO ls.flatten)

/-- `simfile.load(file, strict)` -/
def loadFile (tok : Bool → Str → Tokens) (strict : Bool) (f : FileObj) : Except Err Loaded := do
  let (f', isSSC) ← detectSSC tok strict f
  loadAs isSSC (tok strict f'.remaining)

/-- the name a file object offers to the format rule -/
def FileObj.name : FileObj → Option Str
  | .wrapper name _ _ => name
  | _ => none

/-- the whole content -/
def FileObj.content : FileObj → Str
  | .wrapper _ c _ => c
  | .stringIO c => c
  | .lines ls => ls.flatten

def FileObj.atStart : FileObj → Bool
  | .wrapper _ _ pos => pos = 0
  | _ => true

end Simfile
