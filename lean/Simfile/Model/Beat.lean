/-
simfile.timing.Beat / BeatValues — exact rational model (C14).
`Beat` is Python's `Fraction`, modelled as core `Rat`.
-/
import Simfile.Gen.Tables
import Simfile.Model.Str
namespace Simfile

/-- Python's `round()` on a `Fraction`: nearest integer, ties to even. -/
def roundHalfEven (x : Rat) : Int :=
  let f := x.floor
  let d := x - (f : Rat)
  if d < 1/2 then f
  else if 1/2 < d then f + 1
  else if f % 2 = 0 then f else f + 1

/-- ticks per beat, read from the generated table (BEAT_SUBDIVISION) -/
def ticks : Nat := T.beatSubdivision

/-- `Beat.round_to_tick`: `Beat(int(round(self * 48)), 48)` -/
def roundToTick (x : Rat) : Rat := (roundHalfEven (x * (ticks : Rat)) : Rat) / (ticks : Rat)

def onGrid (x : Rat) : Prop := ∃ n : Int, x = (n : Rat) / (ticks : Rat)
def onGridB (x : Rat) : Bool := (x * (ticks : Rat)).den = 1

/-- Where the constructor `Beat(numerator, denominator=None)` rounds. -/
inductive BeatInput
  | int (n : Int)                 -- Beat(3)
  | frac (q : Rat)                -- Beat(Fraction(1,3)) — a Rational instance
  | pair (n : Int) (d : Nat)      -- Beat(n, d) with d ≠ 0
  | inexact (q : Rat)             -- Beat(0.3), Beat(Decimal('0.3')), Beat('0.3'): exact value q of the input

def mkBeat : BeatInput → Rat
  | .int n => n
  | .frac q => q
  | .pair n d => (n : Rat) / (d : Rat)
  | .inexact q => roundToTick q

/-- The decimal with three places printed by `Beat.__str__`, as an integer number of thousandths.
`f"{float(self):.3f}"` correctly rounds the double nearest to the beat; the model rounds the exact
rational (see DESIGN 4.14 limits). -/
def thousandths (x : Rat) : Int := roundHalfEven (x * 1000)
def round3 (x : Rat) : Rat := (thousandths x : Rat) / 1000

/-- Python `Fraction.__mod__` / `__floordiv__` (floor semantics). -/
def floorDiv (a b : Rat) : Int := (a / b).floor
def pyMod (a b : Rat) : Rat := a - b * ((a / b).floor : Rat)

/-! ### text forms, used by the driver and by the BeatValues round trip -/

def natDigits (n : Nat) : Str := (toString n).toList

def pad3 (n : Nat) : Str :=
  let d := natDigits n
  List.replicate (3 - d.length) '0' ++ d

/-- `str(Beat)` -/
def beatToStr (x : Rat) : Str :=
  let m := thousandths x
  let a := m.natAbs
  -- "-0.000" happens for tiny negative values, as with printf
  (if m < 0 ∨ (m = 0 ∧ x < 0) then ['-'] else []) ++ natDigits (a / 1000) ++ ['.'] ++ pad3 (a % 1000)

def digitVal (c : Char) : Option Nat :=
  if '0'.toNat ≤ c.toNat ∧ c.toNat ≤ '9'.toNat then some (c.toNat - '0'.toNat) else none

def parseNat : Str → Option Nat
  | [] => none
  | cs => cs.foldl (fun acc c => match acc, digitVal c with
      | some a, some d => some (a * 10 + d)
      | _, _ => none) (some 0)

def parseInt (s : Str) : Option Int :=
  match s with
  | '-' :: r => (parseNat r).map (fun n => -(n : Int))
  | '+' :: r => (parseNat r).map (fun n => (n : Int))
  | r => (parseNat r).map (fun n => (n : Int))

def pow10 (e : Int) : Rat := if e ≥ 0 then ((10 ^ e.toNat : Nat) : Rat) else 1 / ((10 ^ (-e).toNat : Nat) : Rat)

/-- Decimal literals of the class `[+-]digits[.digits][(e|E)[+-]digits]` (at least one digit in the
mantissa), after `strip()`. Anything else is `none` (the real constructors accept more: NaN,
Infinity, underscores, fractions `a/b` — outside the modelled syntax, never generated). -/
def parseDecimal (s0 : Str) : Option Rat :=
  let s := strip s0
  let (mant, hasE, ex) := match partition 'e' (s.map (fun c => if c = 'E' then 'e' else c)) with
    | (a, f, b) => (a, f, b)
  let (sign, body) : Int × Str := match mant with
    | '-' :: r => (-1, r)
    | '+' :: r => (1, r)
    | r => (1, r)
  let (ip, hasDot, fp) := partition '.' body
  if ip.isEmpty ∧ fp.isEmpty then none
  else if hasDot = false ∧ ip.isEmpty then none
  else
    match (if ip.isEmpty then some 0 else parseNat ip), (if fp.isEmpty then some 0 else parseNat fp),
          (if hasE then parseInt ex else some 0) with
    | some i, some f, some e =>
      some ((sign : Rat) * ((i : Rat) + (f : Rat) / ((10 ^ fp.length : Nat) : Rat)) * pow10 e)
    | _, _, _ => none

/-- `Beat.from_str` -/
def beatFromStr (s : Str) : Option Rat := (parseDecimal s).map roundToTick

/-- One `beat=value` row; the value is kept as its text token (Decimal parsing/printing is CPython's). -/
structure BVRow where
  beat : Rat
  value : Str
deriving Repr, DecidableEq

/-- `BeatValues.from_str` on the row structure: `split(",")`, `strip`, `split("=")` into exactly two. -/
def beatValuesFromStr (s : Option Str) : Option (List BVRow) :=
  match s with
  | none => some []
  | some s =>
    if s.isEmpty ∨ (strip s).isEmpty then some []
    else (splitOn ',' s).mapM fun row =>
      match splitOn '=' (strip row) with
      | [b, v] => (beatFromStr b).map (fun q => { beat := q, value := v })
      | _ => none

/-- `BeatValues.__str__` -/
def beatValuesToStr (rows : List BVRow) : Str :=
  joinWith [',', '\n'] (rows.map fun r => beatToStr r.beat ++ ['='] ++ r.value)

end Simfile
