/-
simfile.notes.NoteData: decoding (`__iter__`) and encoding (`from_notes`) of note data. C07, C08.
-/
import Simfile.Gen.Tables
import Simfile.Model.Str
import Simfile.Model.Beat
namespace Simfile

structure Note where
  beat : Rat
  column : Nat
  ntype : Char
  player : Nat := 0
  keysound : Option Nat := none
deriving Repr, DecidableEq

/-- `Note._comparable()` -/
def Note.key (n : Note) : Nat × Rat × Nat := (n.player, n.beat, n.column)

def keyLt (a b : Nat × Rat × Nat) : Bool :=
  a.1 < b.1 || (a.1 = b.1 && (a.2.1 < b.2.1 || (a.2.1 = b.2.1 && a.2.2 < b.2.2)))
def keyLe (a b : Nat × Rat × Nat) : Bool :=
  a.1 < b.1 || (a.1 = b.1 && (a.2.1 < b.2.1 || (a.2.1 = b.2.1 && a.2.2 ≤ b.2.2)))

/-- the four ordering operators of `Note`, each defined on `_comparable()` as in the class -/
def Note.lt (a b : Note) : Bool := keyLt a.key b.key
def Note.gt (a b : Note) : Bool := keyLt b.key a.key
def Note.le (a b : Note) : Bool := keyLe a.key b.key
def Note.ge (a b : Note) : Bool := keyLe b.key a.key

inductive NErr
  | valueError | indexError
deriving Repr, DecidableEq

def isNoteChar (c : Char) : Bool := T.noteTypes.any (·.2 = c)

/-- the character of a NoteType member, looked up by name in the generated table -/
def noteChar (name : Str) : Char := ((T.noteTypes.find? (·.1 = name)).map (·.2)).getD '?'
def cTAP : Char := noteChar ['T','A','P']
def cHOLD : Char := noteChar ['H','O','L','D','_','H','E','A','D']
def cTAIL : Char := noteChar ['T','A','I','L']
def cROLL : Char := noteChar ['R','O','L','L','_','H','E','A','D']
def cFAKE : Char := noteChar ['F','A','K','E']
def cLIFT : Char := noteChar ['L','I','F','T']
def cMINE : Char := noteChar ['M','I','N','E']

def listSet {α} : List α → Nat → α → List α
  | [], _, _ => []
  | _ :: xs, 0, v => v :: xs
  | x :: xs, n + 1, v => x :: listSet xs n v

/-- `NoteData._extract_keysound_indices`: repeatedly cut the first `[n]`, recording `n` at
position (index of '[') − 1. `fuel` bounds the loop by the line length. Inputs on which the Python
code would index from the end (a bracket in column 0) or read garbage are rejected. -/
def extractKeysounds (record : Bool) : Nat → Str → List (Option Nat) → Except NErr (Str × List (Option Nat))
  | 0, line, ks => if line.contains '[' then .error .valueError else .ok (line, ks)
  | fuel + 1, line, ks =>
    match findIdx '[' line with
    | none => .ok (line, ks)
    | some i =>
      match findIdx ']' line with
      | none => .error .valueError
      | some j =>
        if j < i + 1 then .error .valueError
        else match parseNat ((line.drop (i + 1)).take (j - (i + 1))) with
          | none => .error .valueError
          | some k =>
            if record && i = 0 then .error .indexError
            else if record && ks.length ≤ i - 1 then .error .indexError
            else extractKeysounds record fuel (line.take i ++ line.drop (j + 1)) (listSet ks (i - 1) (some k))

/-- `NoteData._get_columns` -/
def getColumns (notes : Str) : Except NErr Nat :=
  let firstMeasure := match findIdx ',' notes with
    | some (i + 1) => notes.take (i + 1)
    | _ => notes
  match splitLines (strip firstMeasure) with
  | [] => .error .indexError
  | l :: _ =>
    let line := strip l
    -- called without a list: indices are not recorded, so no IndexError can arise
    match extractKeysounds false line.length line [] with
    | .ok (line', _) => .ok line'.length
    | .error e => .error e

def notesOfLine (cols p : Nat) (m : Nat) (sub l : Nat) (line : Str) : Except NErr (List Note) := do
  let line := strip line
  let (cells, ks) ← extractKeysounds true line.length line (List.replicate cols none)
  let rec go (c : Nat) : Str → Except NErr (List Note)
    | [] => .ok []
    | ch :: rest =>
      if ch = '0' then go (c + 1) rest
      else if !isNoteChar ch then .error .valueError
      else if cols ≤ c then .error .indexError
      else do
        let tl ← go (c + 1) rest
        pure ({ beat := ((m * 4 * sub + l * 4 : Nat) : Rat) / (sub : Rat), column := c, ntype := ch,
                player := p, keysound := (ks.getD c none) } :: tl)
  go 0 cells

/-- `NoteData._iter_measure` -/
def notesOfMeasure (cols p m : Nat) (measure : Str) : Except NErr (List Note) := do
  let lines := splitLines measure
  let sub := lines.length
  let rec go (l : Nat) : List Str → Except NErr (List Note)
    | [] => .ok []
    | line :: rest => do
      let a ← notesOfLine cols p m sub l line
      let b ← go (l + 1) rest
      pure (a ++ b)
  go 0 lines

def enumFrom {α} (i : Nat) : List α → List (Nat × α)
  | [] => []
  | x :: xs => (i, x) :: enumFrom (i + 1) xs

/-- `NoteData.__iter__` (the column count is computed by the constructor) -/
def decodeWith (cols : Nat) (text : Str) : Except NErr (List Note) := do
  let perPlayer ← (enumFrom 0 (splitOn '&' text)).mapM fun (p, nd) => do
    let ms ← (enumFrom 0 (splitOn ',' nd)).mapM fun (m, measure) =>
      notesOfMeasure cols p m (strip measure)
    pure ms.flatten
  pure perPlayer.flatten

def decode (text : Str) : Except NErr (Nat × List Note) := do
  let cols ← getColumns text
  let ns ← decodeWith cols text
  pure (cols, ns)

/-! ### encoding -/

/-- `itertools.groupby`: maximal runs of consecutive elements with equal keys -/
def groupRuns {α κ} [DecidableEq κ] (key : α → κ) : List α → List (κ × List α)
  | [] => []
  | x :: xs =>
    match groupRuns key xs with
    | (k, run) :: rest => if key x = k then (k, x :: run) :: rest else (key x, [x]) :: (k, run) :: rest
    | [] => [(key x, [x])]

def noteStr (n : Note) : Str :=
  [n.ntype] ++ (match n.keysound with | some k => ['['] ++ natDigits k ++ [']'] | none => [])

/-- `push_row` -/
def pushRow (cols : Nat) (row : List Note) : Except NErr Str := do
  let cells ← row.foldlM (fun (cells : List Str) n =>
    if cells.length ≤ n.column then .error NErr.indexError else pure (listSet cells n.column (noteStr n)))
    (List.replicate cols ['0'])
  pure (cells.flatten ++ nl')
where nl' : Str := ['\n']

def blankRows (cols : Nat) (k : Nat) : Str :=
  (List.replicate k (List.replicate cols '0' ++ ['\n'])).flatten

def rowIndex (q : Nat) (n : Note) : Int := ((pyMod n.beat 4) * (q : Rat)).floor

/-- `push_measure`: q = lcm of the denominators, rows indexed by int(beat % 4 * q), 4q rows -/
def pushMeasure (cols : Nat) (measure : List Note) : Except NErr Str := do
  let q := measure.foldl (fun a n => Nat.lcm a n.beat.den) 1
  let (out, last) ← (groupRuns (rowIndex q) measure).foldlM
    (fun (acc : Str × Int) (rrow : Int × List Note) => do
      let (out, last) := acc
      let (r, row) := rrow
      let skipped := (r - (last + 1)).toNat
      let rowText ← pushRow cols row
      pure (out ++ blankRows cols skipped ++ rowText, r))
    (([] : Str), (-1 : Int))
  pure (out ++ blankRows cols (((q * 4 : Nat) : Int) - (last + 1)).toNat)

def measureIndex (n : Note) : Int := (n.beat / 4).floor

/-- one player's measures -/
def pushPlayer (cols : Nat) (notes : List Note) : Except NErr Str := do
  let blank ← pushMeasure cols []
  let (out, _) ← (groupRuns measureIndex notes).foldlM
    (fun (acc : Str × Int) (mm : Int × List Note) => do
      let (out, last) := acc
      let (m, measure) := mm
      let sep : Str := if last > -1 then [',', '\n'] else []
      let skipped := (m - (last + 1)).toNat
      let fill := (List.replicate skipped (blank ++ [',', '\n'])).flatten
      let body ← pushMeasure cols measure
      pure (out ++ sep ++ fill ++ body, m))
    (([] : Str), (-1 : Int))
  pure out

/-- `NoteData.from_notes` (text only; the constructor then computes the columns from it) -/
def encode (notes : List Note) (cols : Nat) : Except NErr Str := do
  let blank ← pushMeasure cols []
  let (out, last) ← (groupRuns (fun n : Note => n.player) notes).foldlM
    (fun (acc : Str × Int) (pp : Nat × List Note) => do
      let (out, last) := acc
      let (p, pnotes) := pp
      let (pre, last') : Str × Int :=
        if (p : Int) > last then
          ((if last > -1 then ['&', '\n'] else []) ++
           (List.replicate ((p : Int) - (last + 1)).toNat (blank ++ ['&', '\n'])).flatten, (p : Int))
        else ([], last)
      let body ← pushPlayer cols pnotes
      pure (out ++ pre ++ body, last'))
    (([] : Str), (-1 : Int))
  pure (if last = -1 then out ++ blank else out)

end Simfile
