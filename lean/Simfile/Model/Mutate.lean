/-
simfile.open_with_detected_encoding / open / mutate: the logic of which encoding is reported, which files are
written with what, in which order, and what a fault at any point leaves behind. C05, C06.
Codecs, text-mode I/O and the filesystem are parameters: file contents are abstract (`Content`), decoding results
are inputs (`tries`), the bytes written are named symbolically (`Payload`).
-/
import Simfile.Model.Str
namespace Simfile

/-- what a file holds -/
inductive Content
  | original                       -- its bytes before the call
  | written (backup : Bool)        -- complete, in the detected encoding: ser s₀ for the backup, ser s' for the output
  | truncated                      -- opened for writing, nothing (or only a prefix) written
deriving Repr, DecidableEq

structure MutateCfg where
  input : Str
  output : Option Str
  backup : Option Str
deriving Repr, DecidableEq

/-- Python truthiness of the optional file names: `None` and `""` are both "not given" -/
def given : Option Str → Option Str
  | some (c :: cs) => some (c :: cs)
  | _ => none

def MutateCfg.outPath (c : MutateCfg) : Str := (given c.output).getD c.input

/-- `open_with_detected_encoding`: the first tried encoding under which the file decodes -/
def detectEncoding (tries : List (Str × Bool)) : Option Str := (tries.find? (·.2)).map (·.1)

/-- `open()`: an explicit `encoding=` becomes the single tried encoding -/
def triedEncodings (explicit : Option Str) (tryList : List Str) : List Str :=
  match explicit with
  | some e => [e]
  | none => tryList

inductive FsOp
  | openR (p : Str) (enc : Str)
  | openW (p : Str) (enc : Str)
  | write (p : Str)
  | close (p : Str)
deriving Repr, DecidableEq

inductive Body
  | returns                 -- the block exits normally
  | cancels                 -- raises CancelMutation
  | raises                  -- raises anything else (Exception or BaseException subclass)
deriving Repr, DecidableEq

inductive SaveProblem
  | none
  | unserializable          -- str(simfile) raises
  | unencodable             -- some character has no encoding in the detected code page
deriving Repr, DecidableEq

inductive Outcome
  | valueError              -- backup name clashes with input/output
  | unicodeDecodeError      -- no tried encoding decodes the file
  | returned                -- the with-statement completes (saved, or cancelled)
  | propagated              -- the body's exception propagates unchanged
  | saveError               -- serialization/encoding error propagates, nothing opened for writing
deriving Repr, DecidableEq

/-- the read attempts of the detection loop: one open per tried encoding up to and including the first success -/
def readOps (input : Str) : List (Str × Bool) → List FsOp
  | [] => []
  | (e, ok) :: rest => FsOp.openR input e :: (if ok then [] else readOps input rest)

/-- the write sequence of a fault-free save -/
def saveOps (c : MutateCfg) (enc : Str) : List FsOp :=
  (match given c.backup with
   | some b => [FsOp.openW b enc, FsOp.write b, FsOp.close b]
   | none => []) ++
  [FsOp.openW c.outPath enc, FsOp.write c.outPath, FsOp.close c.outPath]

/-- `mutate(...)`: outcome and the filesystem calls made, in order -/
def mutate (c : MutateCfg) (tries : List (Str × Bool)) (body : Body) (problem : SaveProblem) : Outcome × List FsOp :=
  match given c.backup with
  | some b =>
    if b = c.input ∨ some b = c.output then (.valueError, []) else go
  | none => go
where
  go : Outcome × List FsOp :=
    match detectEncoding tries with
    | none => (.unicodeDecodeError, readOps c.input tries)
    | some enc =>
      let reads := readOps c.input tries
      match body with
      | .cancels => (.returned, reads)
      | .raises => (.propagated, reads)
      | .returns =>
        match problem with
        | .none => (.returned, reads ++ saveOps c enc)
        | _ => (.saveError, reads)

/-- effect of the write-side calls on a file map; a fault at call `k` (0-based among the write-side calls):
a failing open-for-write has no effect; a failing write leaves the file truncated; a failing close leaves it complete. -/
def applyOp (fs : List (Str × Content)) (backupPath : Option Str) : FsOp → List (Str × Content)
  | .openR _ _ => fs
  | .openW p _ => (fs.filter (·.1 ≠ p)) ++ [(p, .truncated)]
  | .write p =>
    (fs.filter (·.1 ≠ p)) ++ [(p, .written (backupPath = some p))]
  | .close _ => fs

/-- files after running `ops`, with the `k`-th write-side call failing (`none` = no fault) -/
def runWrites (fs : List (Str × Content)) (backupPath : Option Str) : List FsOp → Option Nat → List (Str × Content)
  | [], _ => fs
  | op :: rest, none => runWrites (applyOp fs backupPath op) backupPath rest none
  | op :: rest, some 0 =>
    match op with
    | .openW _ _ => fs                                   -- open failed: nothing happened
    | .write p => (fs.filter (·.1 ≠ p)) ++ [(p, .truncated)]   -- a prefix at most
    | .close _ => fs                                     -- data was flushed before close failed
    | .openR _ _ => runWrites fs backupPath rest (some 0)
  | op :: rest, some (k + 1) =>
    match op with
    | .openR _ _ => runWrites fs backupPath rest (some (k + 1))
    | _ => runWrites (applyOp fs backupPath op) backupPath rest (some k)

def lookupContent (fs : List (Str × Content)) (p : Str) : Option Content := (fs.find? (·.1 = p)).map (·.2)

end Simfile
