/-
The glue between the modelled components, end to end: text of a simfile → parameters (modelled msdparser) → simfile
object → timing source → timing data → engine; chart → note data → notes → timed notes. Compared with the
implementation on corpus files and generated texts (C13), so that the seams between the models are tied as well.
-/
import Simfile.Model.MsdParser
import Simfile.Model.Entry
import Simfile.Model.Source
import Simfile.Model.Engine
import Simfile.Model.Notes
namespace Simfile

/-- `TimingData` as the engine consumes it: decimal values as rationals -/
def tdOfStrings (t : TDStrings) : Option TimingData := do
  let conv (rows : Option (List BVRow)) : Option (List (Rat × Rat)) :=
    rows.bind fun rs => rs.mapM fun r => (parseDecimal r.value).map fun v => (r.beat, v)
  pure { bpms := ← conv t.bpms, stops := ← conv t.stops, delays := ← conv t.delays, warps := ← conv t.warps,
         offset := ← t.offset }

inductive E2EErr | parse | load | noChart | timing | notes
deriving Repr, DecidableEq

/-- `simfile.loads(text)` then `time_notes(NoteData(chart), TimingData(simfile, chart), option)` for chart number `i` -/
def timeNotesOfText (text : Str) (i : Nat) (opt : Unhittable) : Except E2EErr (List (Rat × Note)) :=
  let tok : Bool → Str → Tokens := fun st t => (MsdP.parse st t).getD { params := [], strayError := false }
  match MsdP.parse true text with
  | none => .error .parse
  | some _ =>
    match loadFile tok true (.stringIO text) with
    | .error _ => .error .load
    | .ok loaded =>
      let (sim, chart?) : Src × Option Src := match loaded with
        | .sm s => (⟨.smSimfile, s.props⟩, (s.charts[i]?).map fun c => ⟨.smChart, c.fields⟩)
        | .ssc s => (⟨.sscSimfile, s.props⟩, (s.charts[i]?).map fun c => ⟨.sscChart, c.props⟩)
      match chart? with
      | none => .error .noChart
      | some chart =>
        match timingData sim (some chart) with
        | .error _ => .error .timing
        | .ok tds =>
          match tdOfStrings tds with
          | none => .error .timing
          | some td =>
            match attrGet chart.kind chart.d ['n','o','t','e','s'] with
            | none => .error .notes
            | some notesText =>
              match decode notesText with
              | .error _ => .error .notes
              | .ok (_, ns) => .ok (timeNotes td opt ns)

end Simfile
