/-
`Beat`'s type-preserving operator wrappers (simfile.timing.Beat.__add__ … __pow__): every wrapped dunder is
`Beat(super().__op__(other))` with `super()` = fractions.Fraction, and `Beat(<Rational>)` is exact.
Executable, Mathlib-free copy used by the driver; `Lemmas/BeatArithBridge.lean` proves it equal to the definitions the
C14 theorems are about. `none` = ZeroDivisionError.
-/
import Simfile.Model.Beat
namespace Simfile.ArithM

inductive Op | add | sub | mul | truediv | mod
deriving Repr, DecidableEq

def fractionBin : Op → Rat → Rat → Option Rat
  | .add, a, b => some (a + b)
  | .sub, a, b => some (a - b)
  | .mul, a, b => some (a * b)
  | .truediv, a, b => if b = 0 then none else some (a / b)
  | .mod, a, b => if b = 0 then none else some (pyMod a b)

def beatBin (op : Op) (self other : Rat) : Option Rat := (fractionBin op self other).map fun q => mkBeat (.frac q)
def beatRBin (op : Op) (self other : Rat) : Option Rat := (fractionBin op other self).map fun q => mkBeat (.frac q)
def beatDivmod (self other : Rat) : Option (Int × Rat) :=
  if other = 0 then none else some (floorDiv self other, mkBeat (.frac (pyMod self other)))
def beatFloorDiv (self other : Rat) : Option Int := if other = 0 then none else some (floorDiv self other)
def beatNeg (self : Rat) : Rat := mkBeat (.frac (-self))
def beatAbs (self : Rat) : Rat := mkBeat (.frac (if self < 0 then -self else self))
/-- integer exponent -/
def beatPowInt (self : Rat) (n : Int) : Option Rat :=
  if self = 0 ∧ n < 0 then none
  else some (mkBeat (.frac (if 0 ≤ n then self ^ n.toNat else (self ^ (-n).toNat)⁻¹)))

end Simfile.ArithM
