/-
simfile.timing.engine.TimingEngine — exact rational model (C11, C12, C13).
Python floats are replaced by `Rat`; everything else follows the code: warp coalescing, the merge of
tagged events, the state machine, Python's `bisect` loops verbatim (the key list the engine searches
is not always sorted), time_until / beats_until.
-/
import Simfile.Gen.Tables
import Simfile.Model.Beat
import Simfile.Model.Notes
namespace Simfile

inductive Tag | warp | warpEnd | bpm | delay | delayEnd | stop | stopEnd
deriving Repr, DecidableEq

def Tag.name : Tag → Str
  | .warp => ['W','A','R','P']
  | .warpEnd => ['W','A','R','P','_','E','N','D']
  | .bpm => ['B','P','M']
  | .delay => ['D','E','L','A','Y']
  | .delayEnd => ['D','E','L','A','Y','_','E','N','D']
  | .stop => ['S','T','O','P']
  | .stopEnd => ['S','T','O','P','_','E','N','D']

def Tag.all : List Tag := [.warp, .warpEnd, .bpm, .delay, .delayEnd, .stop, .stopEnd]

/-- integer value of the IntEnum member, read from the generated table -/
def Tag.val (t : Tag) : Nat := ((T.eventTags.find? (·.1 = t.name)).map (·.2)).getD 0

/-- tuple comparison `(beat, tag) < (beat', tag')` -/
def keyLT (a b : Rat × Tag) : Bool := a.1 < b.1 || (a.1 = b.1 && a.2.val < b.2.val)

structure TimingData where
  bpms : List (Rat × Rat)
  stops : List (Rat × Rat)
  delays : List (Rat × Rat)
  warps : List (Rat × Rat)
  offset : Rat
deriving Repr

structure TEvent where
  beat : Rat
  value : Rat
  tag : Tag
deriving Repr, DecidableEq

structure TState where
  beat : Rat
  value : Rat
  tag : Tag
  time : Rat
  bpm : Rat
  warp : Bool
deriving Repr, DecidableEq

/-- `_coalesce_warps`: (starts, ends), perfectly alternating -/
def coalesceWarps (warps : List (Rat × Rat)) : List Rat × List Rat :=
  let r := warps.foldl (fun (acc : List Rat × List Rat) w =>
    let (starts, ends) := acc    -- both reversed
    let wEnd := w.1 + roundToTick w.2
    match ends with
    | [] => (w.1 :: starts, wEnd :: ends)
    | lastEnd :: endsTl =>
      if w.1 ≤ lastEnd then
        (if wEnd > lastEnd then (starts, wEnd :: endsTl) else (starts, ends))
      else (w.1 :: starts, wEnd :: ends)) (([] : List Rat), ([] : List Rat))
  (r.1.reverse, r.2.reverse)

/-- `TaggedEvent.__lt__` -/
def TEvent.lt (a b : TEvent) : Bool := keyLT (a.beat, a.tag) (b.beat, b.tag)

/-- stable two-way merge (left list wins ties), the building block of `heapq.merge` -/
def merge2 : List TEvent → List TEvent → List TEvent
  | [], ys => ys
  | xs, [] => xs
  | x :: xs, y :: ys =>
    if y.lt x then y :: merge2 (x :: xs) ys else x :: merge2 xs (y :: ys)

/-- the chronological event list of `_retime_events` -/
def events (td : TimingData) : List TEvent :=
  let (ws, we) := coalesceWarps td.warps
  let mk (tag : Tag) (l : List (Rat × Rat)) : List TEvent := l.map fun e => ⟨e.1, e.2, tag⟩
  [ ws.map (fun b => (⟨b, 0, .warp⟩ : TEvent)),
    we.map (fun b => (⟨b, 0, .warpEnd⟩ : TEvent)),
    mk .bpm td.bpms.tail,
    mk .delay td.delays, mk .delayEnd td.delays,
    mk .stop td.stops, mk .stopEnd td.stops ].foldl merge2 []

/-- `TimingState.time_until` -/
def TState.timeUntil (s : TState) (beat : Rat) (tag : Tag) : Rat :=
  (if s.warp then 0 else (beat - s.beat) * 60 / s.bpm) +
  (if (s.tag = .stop ∨ s.tag = .delay) ∧ (tag = .stopEnd ∨ tag = .delayEnd) then s.value else 0)

/-- `TimingStateMachine.advance` -/
def advance (s : TState) (e : TEvent) : TState :=
  { beat := e.beat, value := e.value, tag := e.tag,
    time := s.time + s.timeUntil e.beat e.tag,
    bpm := if e.tag = .bpm then e.value else s.bpm,
    warp := if e.tag = .warp then true else if e.tag = .warpEnd then false else s.warp }

def initState (td : TimingData) : TState :=
  let first := td.bpms.headD (0, 0)
  { beat := 0, value := first.2, tag := .bpm, time := -td.offset, bpm := first.2, warp := false }

/-- all states, in the order the state machine appended them -/
def states (td : TimingData) : List TState :=
  let rec go (s : TState) : List TEvent → List TState
    | [] => [s]
    | e :: es => s :: go (advance s e) es
  go (initState td) (events td)

/-- Python's `bisect.bisect_right(a, x)` loop, verbatim, for an arbitrary "x < a[mid]" test -/
def bisectRightLoop {α} (lt : α → Bool) (a : Array α) : Nat → Nat → Nat → Nat
  | 0, lo, _ => lo
  | fuel + 1, lo, hi =>
    if lo < hi then
      let mid := (lo + hi) / 2
      match a[mid]? with
      | some y => if lt y then bisectRightLoop lt a fuel lo mid else bisectRightLoop lt a fuel (mid + 1) hi
      | none => lo
    else lo

/-- `bisect.bisect(a, x)`: `ltx y` is `x < y` -/
def bisectRight {α} (ltx : α → Bool) (a : List α) : Nat :=
  bisectRightLoop ltx a.toArray (a.length + 1) 0 a.length

/-- Python's `bisect.bisect_left(a, x)` loop: `ylt y` is `y < x` -/
def bisectLeftLoop {α} (ylt : α → Bool) (a : Array α) : Nat → Nat → Nat → Nat
  | 0, lo, _ => lo
  | fuel + 1, lo, hi =>
    if lo < hi then
      let mid := (lo + hi) / 2
      match a[mid]? with
      | some y => if ylt y then bisectLeftLoop ylt a fuel (mid + 1) hi else bisectLeftLoop ylt a fuel lo mid
      | none => lo
    else lo

def bisectLeft {α} (ylt : α → Bool) (a : List α) : Nat :=
  bisectLeftLoop ylt a.toArray (a.length + 1) 0 a.length

/-- what `_retime_events` precomputes: the state list (also as an array for the bisect loops) -/
structure Engine where
  td : TimingData
  ss : List TState
  arr : Array TState
  init : TState

def mkEngine (td : TimingData) : Engine :=
  let ss := states td
  { td := td, ss := ss, arr := ss.toArray, init := initState td }

/-- the state `max(0, bisect(tagged_beats, (beat, tag)) - 1)` -/
def Engine.priorState (e : Engine) (beat : Rat) (tag : Tag) : TState :=
  let i := bisectRightLoop (fun (s : TState) => keyLT (beat, tag) (s.beat, s.tag)) e.arr (e.arr.size + 1) 0 e.arr.size
  e.arr.getD (i - 1) e.init

/-- `TimingEngine.time_at` -/
def Engine.timeAt (e : Engine) (beat : Rat) (tag : Tag := .stop) : Rat :=
  let s := e.priorState beat tag
  s.time + s.timeUntil beat tag

/-- `TimingEngine.bpm_at` -/
def Engine.bpmAt (e : Engine) (beat : Rat) : Rat :=
  if beat < 0 then (e.td.bpms.headD (0, 0)).2 else (e.priorState beat .bpm).bpm

/-- `TimingEngine.hittable` -/
def Engine.hittable (e : Engine) (beat : Rat) : Bool :=
  let s := e.priorState beat .stopEnd
  if !s.warp then true
  else if (s.tag = .stopEnd ∨ s.tag = .delayEnd) ∧ beat = s.beat then true
  else false

/-- `TimingState.beats_until` before rounding (`none` while paused) -/
def TState.beatsUntilRaw (s : TState) (time : Rat) : Option Rat :=
  if s.tag = .stop ∨ s.tag = .delay then none else some ((time - s.time) / 60 * s.bpm)

/-- `TimingState.beats_until` (exact: the float product is replaced by the rational one) -/
def TState.beatsUntil (s : TState) (time : Rat) : Rat :=
  match s.beatsUntilRaw time with
  | none => 0
  | some x => roundToTick x

/-- the state `beat_at` extrapolates from, as repaired: search on the state times alone -/
def Engine.priorByTime (e : Engine) (time : Rat) (tag : Tag) : TState :=
  let i := if tag = .warp then bisectLeftLoop (fun (s : TState) => s.time < time) e.arr (e.arr.size + 1) 0 e.arr.size
           else bisectRightLoop (fun (s : TState) => time < s.time) e.arr (e.arr.size + 1) 0 e.arr.size
  e.arr.getD (i - 1) e.init

/-- `TimingEngine.beat_at` -/
def Engine.beatAt (e : Engine) (time : Rat) (tag : Tag := .stop) : Rat :=
  let s := e.priorByTime time tag
  s.beat + s.beatsUntil time

/-- The algorithm before the repair: `bisect` on the (time, tag) pairs in state order. Kept for the
counter-example theorem of C12. -/
def Engine.beatAtOld (e : Engine) (time : Rat) (tag : Tag := .stop) : Rat :=
  let i := bisectRightLoop (fun (s : TState) => keyLT (time, tag) (s.time, s.tag)) e.arr (e.arr.size + 1) 0 e.arr.size
  let s := e.arr.getD (i - 1) e.init
  s.beat + s.beatsUntil time

def timeAt (td : TimingData) (beat : Rat) (tag : Tag := .stop) : Rat := (mkEngine td).timeAt beat tag
def bpmAt (td : TimingData) (beat : Rat) : Rat := (mkEngine td).bpmAt beat
def hittable (td : TimingData) (beat : Rat) : Bool := (mkEngine td).hittable beat
def beatAt (td : TimingData) (time : Rat) (tag : Tag := .stop) : Rat := (mkEngine td).beatAt time tag
def beatAtOld (td : TimingData) (time : Rat) (tag : Tag := .stop) : Rat := (mkEngine td).beatAtOld time tag

inductive Unhittable | tapToFake | dropNote | keepNote
deriving Repr, DecidableEq

/-- `simfile.notes.timed.time_notes` -/
def timeNotes (td : TimingData) (opt : Unhittable) (notes : List Note) : List (Rat × Note) :=
  let e := mkEngine td
  notes.filterMap fun n =>
    if e.hittable n.beat || opt = .keepNote then some (e.timeAt n.beat, n)
    else if opt = .tapToFake then
      (if n.ntype = cTAP then some (e.timeAt n.beat, { n with ntype := cFAKE }) else none)
    else none

end Simfile
