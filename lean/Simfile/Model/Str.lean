/-
Python string routines on `List Char`, as used by garcia/simfile.
Each routine is tied to CPython by its own correspondence stream (harness/adapters/strlib.py).
No imports: this file is part of the executable model.
-/
namespace Simfile

abbrev Str := List Char

/-- The 29 code points for which `str.isspace()` is true; `str.strip()` strips exactly these. -/
def pyIsSpace (c : Char) : Bool :=
  let n := c.toNat
  (9 ≤ n && n ≤ 13) || (28 ≤ n && n ≤ 32) || n = 0x85 || n = 0xA0 || n = 0x1680 ||
  (0x2000 ≤ n && n ≤ 0x200A) || n = 0x2028 || n = 0x2029 || n = 0x202F || n = 0x205F || n = 0x3000

/-- The single-character line boundaries of `str.splitlines()` (`\r\n` counts once). -/
def pyIsLineBreak (c : Char) : Bool :=
  let n := c.toNat
  n = 10 || n = 11 || n = 12 || n = 13 || n = 0x1C || n = 0x1D || n = 0x1E || n = 0x85 ||
  n = 0x2028 || n = 0x2029

/-- `s.split(sep)` for a one-character separator. -/
def splitOn (sep : Char) : Str → List Str
  | [] => [[]]
  | c :: cs =>
    if c = sep then [] :: splitOn sep cs
    else match splitOn sep cs with
      | [] => [[c]]
      | p :: ps => (c :: p) :: ps

/-- `sep.join(parts)` -/
def joinWith (sep : Str) : List Str → Str
  | [] => []
  | [p] => p
  | p :: q :: rest => p ++ sep ++ joinWith sep (q :: rest)

def lstrip (s : Str) : Str := s.dropWhile pyIsSpace
def rstrip (s : Str) : Str := (s.reverse.dropWhile pyIsSpace).reverse
/-- `s.strip()` -/
def strip (s : Str) : Str := rstrip (lstrip s)

/-- `s.rstrip(chars)`, `s.lstrip(chars)` with an explicit character set -/
def lstripChars (cs : List Char) (s : Str) : Str := s.dropWhile (fun c => cs.contains c)
def rstripChars (cs : List Char) (s : Str) : Str := (s.reverse.dropWhile (fun c => cs.contains c)).reverse

/-- `s.splitlines()` -/
def splitLines : Str → List Str
  | [] => []
  | '\r' :: '\n' :: cs => [] :: splitLines cs
  | c :: cs =>
    if pyIsLineBreak c then [] :: splitLines cs
    else match splitLines cs with
      | [] => [[c]]
      | l :: ls => (c :: l) :: ls

/-- ASCII-only `upper`/`lower`. Characters outside ASCII are left alone; the generators only
produce non-ASCII characters whose Python case mapping is the identity (stated in evidence). -/
def upperChar (c : Char) : Char :=
  if 'a'.toNat ≤ c.toNat ∧ c.toNat ≤ 'z'.toNat then Char.ofNat (c.toNat - 32) else c
def lowerChar (c : Char) : Char :=
  if 'A'.toNat ≤ c.toNat ∧ c.toNat ≤ 'Z'.toNat then Char.ofNat (c.toNat + 32) else c
def upper (s : Str) : Str := s.map upperChar
def lower (s : Str) : Str := s.map lowerChar

def startsWith (s p : Str) : Bool := p.isPrefixOf s
def endsWith (s p : Str) : Bool := p.reverse.isPrefixOf s.reverse

/-- `p in s` for strings -/
def containsSub : Str → Str → Bool
  | [], p => p.isEmpty
  | c :: cs, p => p.isPrefixOf (c :: cs) || containsSub cs p

/-- `s.partition(sep)` for a one-character separator: (before, found?, after) -/
def partition (sep : Char) : Str → Str × Bool × Str
  | [] => ([], false, [])
  | c :: cs =>
    if c = sep then ([], true, cs)
    else let (a, f, b) := partition sep cs; (c :: a, f, b)

/-- `s.rpartition(sep)`: (before, found?, after); not found ⇒ ("", false, s) -/
def rpartition (sep : Char) (s : Str) : Str × Bool × Str :=
  let (a, f, b) := partition sep s.reverse
  if f then (b.reverse, true, a.reverse) else ([], false, s)

/-- `s.find(c)` -/
def findIdx (c : Char) : Str → Option Nat
  | [] => none
  | d :: ds => if d = c then some 0 else (findIdx c ds).map (· + 1)

def isBlank (s : Str) : Bool := s.all pyIsSpace

end Simfile
