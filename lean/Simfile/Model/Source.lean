/-
Known-property attribute access (item_property), timing_source, TimingData field extraction, displaybpm. C15
(and the attribute layer used by C16–C18).
-/
import Simfile.Gen.Tables
import Simfile.Model.Str
import Simfile.Model.Beat
import Simfile.Model.Objects
namespace Simfile

inductive Kind | smSimfile | sscSimfile | smChart | sscChart
deriving Repr, DecidableEq

/-- (attribute, key, alias) table of a class, from the generated tables -/
def propsTable : Kind → List (Str × Str × Option Str)
  | .smSimfile => T.smSimfileProps
  | .sscSimfile => T.sscSimfileProps
  | .smChart => T.smChartProps
  | .sscChart => T.sscChartProps

/-- `_name_or_alias`: the alias exactly when it is present and the standard key is not -/
def nameOrAlias (d : Dict) (key : Str) (alias : Option Str) : Str :=
  match alias with
  | some a => if !d.contains key && d.contains a then a else key
  | none => key

/-- key an attribute of class `k` currently resolves to on dictionary `d`; `none` = no such attribute -/
def attrKey (k : Kind) (d : Dict) (attr : Str) : Option Str :=
  ((propsTable k).find? (·.1 = attr)).map fun e => nameOrAlias d e.2.1 e.2.2

/-- attribute read: `self.get(_name_or_alias(self))` — `None` when missing -/
def attrGet (k : Kind) (d : Dict) (attr : Str) : Option Str :=
  match attrKey k d attr with
  | some key => (d.get? key).join
  | none => none

/-- a timing source: which object, and its dictionary -/
structure Src where
  kind : Kind
  d : Dict
deriving Repr, DecidableEq

inductive SErr | valueError | keyError | typeError
deriving Repr, DecidableEq

def truthy : Option Str → Bool
  | some (_ :: _) => true
  | _ => false

/-- attribute name of a chart property key (the eleven CHART_TIMING_PROPERTIES are given by key) -/
def chartAttrOfKey (key : Str) : Str :=
  ((T.sscChartProps.find? (·.2.1 = key)).map (·.1)).getD []

/-- `float(version) >= SSC_VERSION_SPLIT_TIMING` on decimal literals (exact rational of the double) -/
def versionOK (v : Str) : Except SErr Bool :=
  match parseDecimal v with
  | some q => .ok (decide (q ≥ (T.sscVersionSplitTimingNum : Rat) / (T.sscVersionSplitTimingDen : Rat)))
  | none => .error .valueError

/-- `timing_source(simfile, chart)`: `true` = the chart is the source -/
def useChart (sim : Src) (chart : Option Src) : Except SErr Bool :=
  match sim.kind, chart with
  | .sscSimfile, some c =>
    if c.kind ≠ .sscChart then .ok false
    else do
      let v := match attrGet .sscSimfile sim.d ['v','e','r','s','i','o','n'] with
        | some (x :: xs) => x :: xs
        | _ => ['0']
      let ok ← versionOK v
      if !ok then pure false
      else pure (T.chartTimingProperties.any fun key => truthy (attrGet .sscChart c.d (chartAttrOfKey key)))
  | _, _ => .ok false

def timingSource (sim : Src) (chart : Option Src) : Except SErr Src := do
  if ← useChart sim chart then
    match chart with
    | some c => pure c
    | none => pure sim
  else pure sim

structure TDStrings where
  bpms : Option (List BVRow)
  stops : Option (List BVRow)
  delays : Option (List BVRow)
  warps : Option (List BVRow)
  offset : Option Rat
deriving Repr

/-- `TimingData.__init__`: every field from the one chosen source (`none` = the parser raised) -/
def timingData (sim : Src) (chart : Option Src) : Except SErr TDStrings := do
  let s ← timingSource sim chart
  let a := attrGet s.kind s.d
  pure { bpms := beatValuesFromStr (a ['b','p','m','s']),
         stops := beatValuesFromStr (a ['s','t','o','p','s']),
         delays := beatValuesFromStr (a ['d','e','l','a','y','s']),
         warps := beatValuesFromStr ((s.d.get? ['W','A','R','P','S']).join),
         offset := match a ['o','f','f','s','e','t'] with
           | some (x :: xs) => parseDecimal (x :: xs)
           | _ => some 0 }

inductive DisplayBPM
  | static (v : Rat)
  | range (lo hi : Rat)
  | random
deriving Repr, DecidableEq

def kDISPLAYBPM : Str := ['D','I','S','P','L','A','Y','B','P','M']
def kBPMS : Str := ['B','P','M','S']

/-- `displaybpm(simfile, ssc_chart, ignore_specified)` -/
def displayBpm (sim : Src) (chart : Option Src) (ignore : Bool) : Except SErr DisplayBPM := do
  -- the default chart argument is an empty SSCChart(), which never becomes the source
  let s ← timingSource sim chart
  let specified : Option DisplayBPM ←
    if s.d.contains kDISPLAYBPM && !ignore then
      match (s.d.get? kDISPLAYBPM).join with
      | none => throw SErr.typeError
      | some v =>
        if v = ['*'] then pure (some DisplayBPM.random)
        else if v.contains ':' then
          let (a, _, b) := partition ':' v
          match parseDecimal a, parseDecimal b with
          | some x, some y => pure (some (DisplayBPM.range x y))
          | _, _ => pure none
        else match parseDecimal v with
          | some x => pure (some (DisplayBPM.static x))
          | none => pure none
    else pure none
  match specified with
  | some r => pure r
  | none =>
    match s.d.get? kBPMS with
    | none => throw SErr.keyError
    | some b =>
      match beatValuesFromStr b with
      | none => throw SErr.valueError
      | some rows =>
        match rows.mapM (fun r => parseDecimal r.value) with
        | none => throw SErr.valueError
        | some [v] => pure (DisplayBPM.static v)
        | some [] => throw SErr.valueError
        | some (v :: vs) => pure (DisplayBPM.range (vs.foldl min v) (vs.foldl max v))

end Simfile
