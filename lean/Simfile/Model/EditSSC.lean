/-
The editing API of an SSC simfile object (C02, growth), on the model's SSCSimfile: properties set and deleted by key (None
included) and by attribute, charts added/removed/reordered/replaced, chart properties set and deleted by key and by attribute.
Dictionary operations are those of Model/Views.lean (`vstep`); chart-list operations are Python's list operations.
`Props/C02Reach.lean` proves that edit histories which meet the caller's obligations never leave the round-trip domain `C02.DomSSC`.
-/
import Simfile.Model.Edit
namespace Simfile

inductive SSCEdit
  | setKey (k : Str) (v : Option Str)                    -- sf[k] = v
  | delKey (k : Str)                                     -- del sf[k]
  | setAttr (a : Str) (v : Str)                          -- sf.title = v, …
  | delAttr (a : Str)
  | appendChart (c : SSCChart)
  | insertChart (i : Nat) (c : SSCChart)
  | setChart (i : Nat) (c : SSCChart)
  | popChart (i : Nat)
  | reverseCharts
  | clearCharts
  | chartSetKey (i : Nat) (k : Str) (v : Option Str)     -- sf.charts[i][k] = v
  | chartDelKey (i : Nat) (k : Str)                      -- del sf.charts[i][k]
  | chartSetAttr (i : Nat) (a : Str) (v : Str)           -- sf.charts[i].meter = v, .notes = v (NOTES/NOTES2 alias rule), …
deriving Repr

def applyEditSSC (s : SSCSimfile) : SSCEdit → SSCSimfile
  | .setKey k v => { s with props := setKeyOpt s.props k v }
  | .delKey k => { s with props := (vstep .sscSimfile s.props (.delKey k)).1 }
  | .setAttr a v => { s with props := (vstep .sscSimfile s.props (.setAttr a v)).1 }
  | .delAttr a => { s with props := (vstep .sscSimfile s.props (.delAttr a)).1 }
  | .appendChart c => { s with charts := s.charts ++ [c] }
  | .insertChart i c => { s with charts := listInsertAt s.charts i c }
  | .setChart i c => { s with charts := listSetAt s.charts i c }
  | .popChart i => { s with charts := s.charts.eraseIdx i }
  | .reverseCharts => { s with charts := s.charts.reverse }
  | .clearCharts => { s with charts := [] }
  | .chartSetKey i k v =>
    match s.charts[i]? with
    | some c => { s with charts := listSetAt s.charts i ⟨setKeyOpt c.props k v⟩ }
    | none => s
  | .chartDelKey i k =>
    match s.charts[i]? with
    | some c => { s with charts := listSetAt s.charts i ⟨(vstep .sscChart c.props (.delKey k)).1⟩ }
    | none => s
  | .chartSetAttr i a v =>
    match s.charts[i]? with
    | some c => { s with charts := listSetAt s.charts i ⟨(vstep .sscChart c.props (.setAttr a v)).1⟩ }
    | none => s

def applyEditsSSC (s : SSCSimfile) (es : List SSCEdit) : SSCSimfile := es.foldl applyEditSSC s

end Simfile
