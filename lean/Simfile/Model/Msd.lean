/-
The msdparser dependency as a parameter with an explicit contract (DESIGN 3.2). The repository never looks at
MSD characters itself: it consumes parameters and writes `str(MSDParameter(...))`. Theorems that go through
text take `(M : Msd) (hM : M.Contract)`; the contract is validated against the real msdparser by its own
correspondence stream and is NOT an axiom.
-/
import Simfile.Model.Objects
namespace Simfile

structure Msd where
  /-- `MSDParameter.__str__` -/
  renderParam : Param → Str
  /-- `parse_msd(string=…, ignore_stray_text = not strict)` run to the end -/
  tokenize : (strict : Bool) → Str → Except Err (List Param)

def Msd.renderItem (M : Msd) : Item → Str
  | .param p => M.renderParam p
  | .text s => s

def Msd.renderDoc (M : Msd) (is : List Item) : Str := (is.map M.renderItem).flatten

/-- One component scanned as the lexer sees it after escaping: returns `none` when a '#' is reached while the
"last TEXT token ended in a line break" bit is set, else the new value of the bit. ':' ';' '\\' become ESCAPE
tokens (no TEXT); '//' becomes ESCAPE + TEXT "/"; '/' and '#' are TEXT tokens. -/
def scanComp : Str → Bool → Option Bool
  | [], bit => some bit
  | '/' :: '/' :: cs, _ => scanComp cs false
  | c :: cs, bit =>
    if c = '\\' ∨ c = ':' ∨ c = ';' then scanComp cs bit
    else if c = '/' then scanComp cs false
    else if c = '#' then (if bit then none else scanComp cs false)
    else scanComp cs (c = '\n' ∨ c = '\r')

def scanComps : List Str → Bool → Option Bool
  | [], bit => some bit
  | c :: cs, bit => (scanComp c bit).bind (scanComps cs)

/-- SafeDoc: the emitted document avoids msdparser's escaping gaps — no '#' inside a parameter reached while the
missing-semicolon-recovery bit is set, no component containing "///", no key containing '#'. -/
def safeParams : List Param → Bool → Bool
  | [], _ => true
  | p :: ps, bit =>
    !(p.key.contains '#') && p.comps.all (fun c => !containsSub c ['/', '/', '/']) &&
    (match scanComps p.comps bit with
     | none => false
     | some _ => safeParams ps true)     -- the text written after every parameter ends in a line break

/-- the text items in front of the first parameter, concatenated -/
def leadText : List Item → Str
  | Item.text t :: rest => t ++ leadText rest
  | _ => []

def endsWithNl (s : Str) : Bool :=
  match s.getLast? with
  | some c => c = '\n' || c = '\r'
  | none => false

/-- SafeDoc on an item sequence: every parameter has at least one component (`MSDParameter(())` prints "#;" which
reads back as one empty component), and the parameters are safe starting from the recovery bit left by the text in
front of the first parameter (a leading text token that ends in a line break sets it). -/
def safeDoc (is : List Item) : Bool :=
  (paramsOf is).all (fun p => !p.comps.isEmpty) && safeParams (paramsOf is) (endsWithNl (leadText is))

structure Msd.Contract (M : Msd) : Prop where
  /-- rendering a safe document whose inter-parameter texts are blank and tokenizing it, strictly or not, gives
  back exactly its parameters -/
  roundtrip : ∀ (is : List Item) (strict : Bool),
    (∀ t, Item.text t ∈ is → isBlank t = true) → safeDoc is = true →
    M.tokenize strict (M.renderDoc is) = .ok (paramsOf is)

end Simfile
