/-
Equality of simfiles and charts (C18: "equality … see exactly the mapping's content").
`BaseSimfile.__eq__` is `type(self) is type(other) and OrderedDict.__eq__(self, other) and self.charts == other.charts`;
CPython's `OrderedDict.__eq__` between two ordered dictionaries is `dict.__eq__(self, other) and all(map(eq, self, other))`:
the same items as plain dictionaries, and the key sequences agree position by position (`map` stops at the shorter one, the
length comparison inside `dict.__eq__` is what rules a prefix out). Both steps are modelled literally; that together they are
equality of the item lists is a theorem (`Lemmas/Equality.lean`), not the definition.
-/
import Simfile.Model.Views
namespace Simfile

/-- `dict.__eq__`: as many items, and every item of `a` is in `b` under its key with an equal value -/
def dictEq (a b : Dict) : Bool :=
  a.length == b.length && a.all (fun kv => b.get? kv.1 == some kv.2)

/-- `all(map(eq, self, other))` over the two key sequences -/
def keysAgree : Dict → Dict → Bool
  | x :: xs, y :: ys => decide (x.1 = y.1) && keysAgree xs ys
  | _, _ => true

/-- `OrderedDict.__eq__(a, b)` for two ordered dictionaries -/
def orderedDictEq (a b : Dict) : Bool := dictEq a b && keysAgree a b

/-- `SMChart.__eq__`: the six fields compared through their attributes (the mapping's order and the extra components of the
`#NOTES` parameter do not take part) -/
def smChartEq (a b : Dict) : Bool :=
  T.smChartProperties.all fun key => attrGet .smChart a (lower key) == attrGet .smChart b (lower key)

/-- a chart as `list.__eq__` compares it: `true` = SM chart (six fields), `false` = SSC chart (its ordered mapping) -/
def chartEq (sm : Bool) (a b : Dict) : Bool := if sm then smChartEq a b else orderedDictEq a b

/-- `list.__eq__` on two chart lists -/
def chartsEq (sm : Bool) : List Dict → List Dict → Bool
  | [], [] => true
  | x :: xs, y :: ys => chartEq sm x y && chartsEq sm xs ys
  | _, _ => false

structure EqObj where
  kind : Kind
  items : Dict
  charts : List Dict
deriving Repr, DecidableEq

/-- `BaseSimfile.__eq__` -/
def simfileEq (a b : EqObj) : Bool :=
  decide (a.kind = b.kind) && orderedDictEq a.items b.items && chartsEq (a.kind = .smSimfile) a.charts b.charts

end Simfile
