/-
Text codecs as parameters (C05): Python's codecs are the trusted base for what "decodes" means. A codec is a pair
of partial functions; the law the properties rely on — what was encoded decodes back to the same text — is an
explicit hypothesis (`Codec.Law`), validated against CPython exhaustively over all Unicode scalar values for the four
default encodings by the harness (six cp932 characters violate it and are excluded from the domain).
-/
import Simfile.Model.Msd
import Simfile.Model.Load
namespace Simfile

structure Codec where
  decode : List UInt8 → Option Str
  encode : Str → Option (List UInt8)

/-- decode ∘ encode = id on whatever the codec can encode -/
def Codec.Law (c : Codec) : Prop := ∀ t b, c.encode t = some b → c.decode b = some t

/-- the bytes `mutate` writes for an SM simfile: the serialized text in the detected encoding -/
def writtenSM (M : Msd) (c : Codec) (s : SMSimfile) : Option (List UInt8) := c.encode (M.renderDoc (serSM s))

/-- the bytes `mutate` writes for an SSC simfile (`none` also when serialization fails) -/
def writtenSSC (M : Msd) (c : Codec) (s : SSCSimfile) : Option (List UInt8) :=
  match serSSC s with
  | .ok is => c.encode (M.renderDoc is)
  | .error _ => none

/-- reading a file back: decode with the codec, tokenize strictly, load as SM -/
def readSM (M : Msd) (c : Codec) (b : List UInt8) : Option SMSimfile :=
  match c.decode b with
  | none => none
  | some t =>
    match M.tokenize true t with
    | .ok ps => (match loadSM ps with | .ok s => some s | .error _ => none)
    | .error _ => none

def readSSC (M : Msd) (c : Codec) (b : List UInt8) : Option SSCSimfile :=
  match c.decode b with
  | none => none
  | some t =>
    match M.tokenize true t with
    | .ok ps => some (loadSSC ps)
    | .error _ => none

end Simfile
