/-
A model of the msdparser dependency itself (lexer.py + parser.py + MSDParameter.__str__, msdparser 2.0), so that
the `Msd.Contract` hypothesis of C01–C04 can be discharged for it. Tied to the real msdparser by a differential
stream (harness/adapters/msdcontract.py). Chunked reading (4096 characters) only splits TEXT tokens, which is
observable only for a BOM inside a run of blanks at a chunk boundary; the model lexes the whole text.
-/
import Simfile.Model.Msd
import Simfile.Model.Load
namespace Simfile.MsdP

inductive Tok
  | text (s : Str)
  | start            -- START_PARAMETER  '#'
  | next             -- NEXT_COMPONENT   ':'
  | endp             -- END_PARAMETER    ';'
  | escape (c : Char) -- ESCAPE          '\\' c
  | comment (s : Str)
deriving Repr, DecidableEq

def isPlain (c : Char) : Bool := !(c = '\\' || c = '/' || c = ':' || c = ';' || c = '#')
def isNl (c : Char) : Bool := c = '\n' || c = '\r'
def endsNl (s : Str) : Bool := match s.getLast? with | some c => isNl c | none => false

inductive LexErr | unpairedBackslash
deriving Repr, DecidableEq

/-- `lex_msd` with escapes=True. `inside`: between '#' and its ';'. `lastNl`: the last TEXT token ended in a
line break (missing-semicolon recovery). `fuel` ≥ length of the text. -/
def lex : Nat → Str → Bool → Bool → Except LexErr (List Tok)
  | 0, _, _, _ => .ok []
  | _ + 1, [], _, _ => .ok []
  | fuel + 1, c :: cs, inside, lastNl =>
    if isPlain c then
      let run := c :: cs.takeWhile isPlain
      let rest := cs.dropWhile isPlain
      (lex fuel rest inside (endsNl run)).map (Tok.text run :: ·)
    else if c = '#' then
      if !inside || lastNl then (lex fuel cs true lastNl).map (Tok.start :: ·)
      else (lex fuel cs inside false).map (Tok.text ['#'] :: ·)
    else if c = ':' then
      if inside then (lex fuel cs inside lastNl).map (Tok.next :: ·)
      else (lex fuel cs inside false).map (Tok.text [':'] :: ·)
    else if c = ';' then
      if inside then (lex fuel cs false lastNl).map (Tok.endp :: ·)
      else (lex fuel cs false false).map (Tok.text [';'] :: ·)
    else if c = '\\' then
      match cs with
      | [] => .error .unpairedBackslash
      | d :: cs' =>
        if inside then (lex fuel cs' inside lastNl).map (Tok.escape d :: ·)
        else (lex fuel cs' inside (isNl d)).map (Tok.text ['\\', d] :: ·)
    else -- c = '/'
      match cs with
      | '/' :: _ =>
        let body := c :: cs.takeWhile (fun x => !isNl x)
        let rest := cs.dropWhile (fun x => !isNl x)
        (lex fuel rest inside lastNl).map (Tok.comment body :: ·)
      | _ => (lex fuel cs inside false).map (Tok.text ['/'] :: ·)

/-- `text.isspace()` on a non-empty string, or the lone BOM -/
def strayOk (s : Str) : Bool := s.isEmpty || s.all pyIsSpace || s = [Char.ofNat 0xFEFF]

structure PState where
  comps : List Str        -- completed components of the parameter being read, in order
  cur : Option Str        -- the component being read (none = not inside a parameter)
  out : List Param
deriving Repr

def PState.complete (st : PState) : PState :=
  match st.cur with
  | some c => { comps := [], cur := none, out := st.out ++ [⟨st.comps ++ [c]⟩] }
  | none => st

/-- `parse_msd` over a token list: the parameters produced, and whether it stopped with the stray-text error -/
def parseToks (strict : Bool) : List Tok → PState → Tokens
  | [], st => { params := (st.complete).out, strayError := false }
  | t :: ts, st =>
    match t with
    | .text s =>
      match st.cur with
      | some c => parseToks strict ts { st with cur := some (c ++ s) }
      | none => if strict && !strayOk s then { params := st.out, strayError := true } else parseToks strict ts st
    | .start => parseToks strict ts { (st.complete) with cur := some [] }
    | .endp => parseToks strict ts st.complete
    | .next =>
      match st.cur with
      | some c => parseToks strict ts { st with comps := st.comps ++ [c], cur := some [] }
      | none => parseToks strict ts st
    | .escape d =>
      match st.cur with
      | some c => parseToks strict ts { st with cur := some (c ++ [d]) }
      | none => if strict && !strayOk [d] then { params := st.out, strayError := true } else parseToks strict ts st
    | .comment _ => parseToks strict ts st

/-- lexer + parser; `none` = the lexer's assertion on an unpaired trailing backslash -/
def parse (strict : Bool) (text : Str) : Option Tokens :=
  match lex (text.length + 1) text false false with
  | .ok toks => some (parseToks strict toks { comps := [], cur := none, out := [] })
  | .error _ => none

/-- `MSDParameter.serialize_component`: backslashes first, then "//", ":" and ";" -/
def escapeComp : Str → Str
  | [] => []
  | '\\' :: cs => '\\' :: '\\' :: escapeComp cs
  | '/' :: '/' :: cs => '\\' :: '/' :: '/' :: escapeComp cs
  | ':' :: cs => '\\' :: ':' :: escapeComp cs
  | ';' :: cs => '\\' :: ';' :: escapeComp cs
  | c :: cs => c :: escapeComp cs

/-- `MSDParameter.__str__` -/
def renderParam (p : Param) : Str := ['#'] ++ joinWith [':'] (p.comps.map escapeComp) ++ [';']

/-- the modelled msdparser as an instance of the abstract dependency -/
def msd : Msd where
  renderParam := renderParam
  tokenize strict text :=
    match parse strict text with
    | some t => if t.strayError then .error .msdParserError else .ok t.params
    | none => .error .valueError

end Simfile.MsdP
