/-
simfile.mutate with its data (C05, C06): the same function as Model/Mutate.lean, but carrying the payloads —
file bytes, the codecs as real partial functions, the decoded text, the simfile object handed to the body, the
body as a function returning a simfile or raising an exception VALUE, the two serializations, the bytes written,
and the filesystem after a fault at any write-side call (a failing write or close leaves a prefix of the data).

Order of effects as in simfile/__init__.py `mutate` (repaired tree):
  1. backup-name check (ValueError)                              — nothing opened
  2. open_with_detected_encoding: for each tried encoding open the input for reading and load it;
     a UnicodeDecodeError moves on to the next encoding, any other error of `load` propagates
  3. `backup_data = str(simfile) if backup_filename else ""`     — BEFORE the body
  4. the body (`yield simfile`); `except CancelMutation: return`, then `except: raise`
  5. `output_data = str(simfile)`; trial encode of backup_data, then of output_data, in the detected encoding
  6. backup (if requested): open 'w', write, close; output: open 'w', write, close
Parameters (nothing about them is assumed): the codecs, `load`, `ser` (the `World`), the body, the fault index and
the cut of a partial write. Not modelled: text-mode newline translation, `errors=`/other kwargs, read-side faults,
the lazy chunked decoding inside `load` (decoding is "the whole file decodes").
-/
import Simfile.Model.Mutate
import Simfile.Model.Codec
import Simfile.Model.Entry
import Simfile.Model.MsdParser
namespace Simfile
namespace MD

abbrev Bytes := List UInt8

/-- the files that exist, with their bytes (first entry of a path counts; `fsSet` keeps paths unique) -/
abbrev FS := List (Str × Bytes)

def fsGet (fs : FS) (p : Str) : Option Bytes := (fs.find? (·.1 = p)).map (·.2)

/-- replace (or create) the file `p` -/
def fsSet (fs : FS) (p : Str) (v : Bytes) : FS := (fs.filter (·.1 ≠ p)) ++ [(p, v)]

/-! ### exceptions as values -/

/-- an exception object raised by the body: `tag` stands for its identity (class, arguments, …) -/
structure Exn where
  tag : Str
  /-- `isinstance(e, CancelMutation)` — CancelMutation itself or any subclass -/
  isCancel : Bool
  /-- `isinstance(e, Exception)`; `false` for KeyboardInterrupt, SystemExit, GeneratorExit, CancelMutation, … -/
  isException : Bool
deriving Repr, DecidableEq

inductive BodyResult (Sim : Type)
  | returns (s : Sim)       -- the block exits normally, the simfile now being `s`
  | raises (e : Exn)
deriving Repr, DecidableEq

/-- the class named by an `except` clause -/
inductive Catch
  | cancelMutation          -- `except CancelMutation:`
  | exceptionClass          -- `except Exception:`   (not used by the real code; for comparison)
  | bare                    -- `except:`
deriving Repr, DecidableEq

def Catch.catches : Catch → Exn → Bool
  | .cancelMutation, e => e.isCancel
  | .exceptionClass, e => e.isException
  | .bare, _ => true

inductive Action
  | swallow                 -- `return`
  | reraise                 -- `raise`
deriving Repr, DecidableEq

/-- the except clauses of `mutate`, in source order -/
def handlers : List (Catch × Action) := [(.cancelMutation, .swallow), (.bare, .reraise)]

/-- Python's try statement: the first clause whose class matches handles the exception -/
def dispatch : List (Catch × Action) → Exn → Option Action
  | [], _ => none
  | (c, a) :: rest, e => if c.catches e then some a else dispatch rest e

/-! ### outcomes -/

inductive OutcomeD
  | valueError                             -- backup name clashes with input/output
  | unicodeDecodeError                     -- no tried encoding decodes the file (UnicodeError for an empty try list)
  | fileNotFound                           -- the input does not exist: the first open-for-reading fails
  | loadError (e : Err)                    -- `load` of the decoded text raises (MSDParserError, short SM chart, …)
  | returned                               -- the with-statement completes (saved, or cancelled)
  | propagated (e : Exn)                   -- the body's exception leaves the with-statement
  | serializeError (atEntry : Bool) (e : Err)   -- `str(simfile)` raises: for the backup (before the body) / the output
  | encodeError (backup : Bool)            -- UnicodeEncodeError of the trial encode of the backup / output text
  | ioError (k : Nat)                      -- the k-th write-side call failed, its OSError propagates
deriving Repr, DecidableEq

/-- what `with mutate(...)` does with an exception raised by the body, for a given list of except clauses:
swallowed → the statement completes; re-raised or not caught at all → the same exception propagates -/
def afterRaise (hs : List (Catch × Action)) (e : Exn) : OutcomeD :=
  match dispatch hs e with
  | some .swallow => .returned
  | _ => .propagated e

/-! ### the world: codecs, loader, serializer -/

structure World (Sim : Type) where
  /-- the codec of an encoding name -/
  codec : Str → Codec
  /-- `simfile.load(file, strict=…)` on a file whose decoded content is the text -/
  load : Str → Except Err Sim
  /-- `str(simfile)` -/
  ser : Sim → Except Err Str

/-- `open_with_detected_encoding`: the first tried encoding under which the bytes decode, with the decoded text -/
def detectD (codec : Str → Codec) : List Str → Bytes → Option (Str × Str)
  | [], _ => none
  | e :: rest, b =>
    match (codec e).decode b with
    | some t => some (e, t)
    | none => detectD codec rest b

/-! ### filesystem calls with their data -/

inductive OpD
  | openR (p : Str) (enc : Str)
  | openW (p : Str) (enc : Str)
  | write (p : Str) (data : Bytes)      -- the encoded text handed to the file
  | close (p : Str) (data : Bytes)      -- closing flushes whatever of `data` is still buffered
deriving Repr, DecidableEq

def OpD.forget : OpD → FsOp
  | .openR p e => .openR p e
  | .openW p e => .openW p e
  | .write p _ => .write p
  | .close p _ => .close p

/-- the read attempts: one open per tried encoding up to and including the first that decodes -/
def readsD (codec : Str → Codec) (input : Str) : List Str → Bytes → List OpD
  | [], _ => []
  | e :: rest, b =>
    OpD.openR input e :: (match (codec e).decode b with
      | some _ => []
      | none => readsD codec input rest b)

/-- `with open(p, 'w', encoding=enc) as w: w.write(text)` where `data` = the text encoded -/
def blockD (p enc : Str) (data : Bytes) : List OpD := [.openW p enc, .write p data, .close p data]

/-- the write sequence of a save: backup first (if requested), then the output -/
def saveScriptD (c : MutateCfg) (enc : Str) (backupData outData : Bytes) : List OpD :=
  (match given c.backup with
   | some b => blockD b enc backupData
   | none => []) ++ blockD c.outPath enc outData

/-- a call that succeeds -/
def applyD (fs : FS) : OpD → FS
  | .openR _ _ => fs
  | .openW p _ => fsSet fs p []         -- mode 'w' truncates / creates
  | .write p d => fsSet fs p d
  | .close _ _ => fs

/-- the filesystem after running `ops` with the `k`-th call failing (`none`: no fault; later calls are not made).
A failing open-for-write leaves the file as it was; a failing write leaves the prefix `data.take cut`; a failing
close leaves the prefix `data.take cut` as well — everything when `cut ≥ data.length` (data flushed before the
failure), less otherwise (the flush inside close failed). `cut` is arbitrary. -/
def runD (fs : FS) (cut : Nat) : List OpD → Option Nat → FS
  | [], _ => fs
  | op :: rest, none => runD (applyD fs op) cut rest none
  | op :: _, some 0 =>
    match op with
    | .openR _ _ => fs
    | .openW _ _ => fs
    | .write p d => fsSet fs p (d.take cut)
    | .close p d => fsSet fs p (d.take cut)
  | op :: rest, some (k + 1) => runD (applyD fs op) cut rest (some k)

/-- the calls actually made: all of them, or those up to and including the failing one -/
def madeD (ops : List OpD) : Option Nat → List OpD
  | none => ops
  | some k => ops.take (k + 1)

def faultFires (ops : List OpD) : Option Nat → Option Nat
  | some k => if k < ops.length then some k else none
  | none => none

/-! ### mutate -/

structure ResultD (Sim : Type) where
  outcome : OutcomeD
  /-- the filesystem afterwards -/
  fs : FS
  /-- the filesystem calls made, in order -/
  trace : List OpD
  /-- detected encoding and decoded text -/
  detected : Option (Str × Str)
  /-- the object handed to the body (present as soon as loading succeeded) -/
  yielded : Option Sim

/-- the backup name is given and equals the input name or the output name as written -/
def clash (c : MutateCfg) : Bool :=
  match given c.backup with
  | some b => b = c.input || some b = c.output
  | none => false

/-- `backup_data = str(simfile) if backup_filename else ""` -/
def entryText {Sim : Type} (W : World Sim) (c : MutateCfg) (s : Sim) : Except Err Str :=
  match given c.backup with
  | some _ => W.ser s
  | none => .ok []

/-- `with mutate(input, output, backup, try_encodings=encs) as sf: body` on the filesystem `fs`, the except
clauses being `hs`; `k` = index of the failing write-side call (if any), `cut` = how much of the data a failing
write/close leaves. -/
def mutateDWith {Sim : Type} (hs : List (Catch × Action)) (W : World Sim) (c : MutateCfg) (encs : List Str)
    (body : Sim → BodyResult Sim) (fs : FS) (k : Option Nat) (cut : Nat) : ResultD Sim :=
  if clash c then ⟨.valueError, fs, [], none, none⟩ else
  match encs with
  | [] => ⟨.unicodeDecodeError, fs, [], none, none⟩
  | e₀ :: _ =>
    match fsGet fs c.input with
    | none => ⟨.fileNotFound, fs, [.openR c.input e₀], none, none⟩
    | some b₀ =>
      let reads := readsD W.codec c.input encs b₀
      match detectD W.codec encs b₀ with
      | none => ⟨.unicodeDecodeError, fs, reads, none, none⟩
      | some (enc, t₀) =>
        match W.load t₀ with
        | .error e => ⟨.loadError e, fs, reads, some (enc, t₀), none⟩
        | .ok s₀ =>
          match entryText W c s₀ with
          | .error e => ⟨.serializeError true e, fs, reads, some (enc, t₀), some s₀⟩
          | .ok backupText =>
            match body s₀ with
            | .raises x => ⟨afterRaise hs x, fs, reads, some (enc, t₀), some s₀⟩
            | .returns s₁ =>
              match W.ser s₁ with
              | .error e => ⟨.serializeError false e, fs, reads, some (enc, t₀), some s₀⟩
              | .ok outText =>
                match (W.codec enc).encode backupText with
                | none => ⟨.encodeError true, fs, reads, some (enc, t₀), some s₀⟩
                | some bb =>
                  match (W.codec enc).encode outText with
                  | none => ⟨.encodeError false, fs, reads, some (enc, t₀), some s₀⟩
                  | some ob =>
                    let script := saveScriptD c enc bb ob
                    ⟨(match faultFires script k with | some n => .ioError n | none => .returned),
                     runD fs cut script k, reads ++ madeD script k, some (enc, t₀), some s₀⟩

def mutateD {Sim : Type} (W : World Sim) (c : MutateCfg) (encs : List Str)
    (body : Sim → BodyResult Sim) (fs : FS) (k : Option Nat) (cut : Nat) : ResultD Sim :=
  mutateDWith handlers W c encs body fs k cut

/-! ### worlds over the modelled simfile objects -/

/-- SM files: tokenize (strictly or not), `loadSM`; `str` = the rendered serialization -/
def smWorld (M : Msd) (codec : Str → Codec) (strict : Bool) : World SMSimfile where
  codec := codec
  load t := (M.tokenize strict t).bind loadSM
  ser s := .ok (M.renderDoc (serSM s))

/-- SSC files -/
def sscWorld (M : Msd) (codec : Str → Codec) (strict : Bool) : World SSCSimfile where
  codec := codec
  load t := (M.tokenize strict t).map loadSSC
  ser s := (serSSC s).map M.renderDoc

/-- any file name: the format chosen by `load` (suffix, else first key), through the entry-point plumbing of
Model/Entry.lean; `tok` is the lazy tokenizer, `render` = `MSDParameter.__str__` -/
def fileWorld (tok : Bool → Str → Tokens) (render : Msd) (codec : Str → Codec) (name : Str) (strict : Bool) :
    World Loaded where
  codec := codec
  load t := loadFile tok strict (.wrapper (some name) t 0)
  ser
    | .sm s => .ok (render.renderDoc (serSM s))
    | .ssc s => (serSSC s).map render.renderDoc

/-- the modelled msdparser as lazy tokenizer (as in Model/EndToEnd.lean) -/
def msdTok : Bool → Str → Tokens := fun st t => (MsdP.parse st t).getD { params := [], strayError := false }

/-! ### codecs given by finite tables (for closed examples and for the comparison driver) -/

/-- a codec that knows only the listed byte strings and texts (first entry counts); everything else fails -/
def tableCodec (dec : List (Bytes × Option Str)) (enc : List (Str × Option Bytes)) : Codec where
  decode b := ((dec.find? (·.1 = b)).map (·.2)).join
  encode t := ((enc.find? (·.1 = t)).map (·.2)).join

/-- codecs by name from a table; an unknown name decodes and encodes nothing -/
def codecsOf (tab : List (Str × Codec)) (name : Str) : Codec :=
  match tab.find? (·.1 = name) with
  | some x => x.2
  | none => ⟨fun _ => none, fun _ => none⟩

end MD
end Simfile
