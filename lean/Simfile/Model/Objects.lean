/-
Simfile and chart objects, serialization to MSD items and loading from MSD parameters
(simfile/base.py, sm.py, ssc.py as repaired by the `fix:` commits). C01–C04.
-/
import Simfile.Gen.Tables
import Simfile.Model.Str
namespace Simfile

/-- An MSD parameter: key followed by its value components (`MSDParameter.components`). -/
structure Param where
  comps : List Str
deriving Repr, DecidableEq

def Param.key (p : Param) : Str := p.comps.headD []
/-- `MSDParameter.value`: second component, `None` when the parameter is key-only -/
def Param.value (p : Param) : Option Str := p.comps.tail.head?

/-- What `serialize()` writes, in order: parameters and the literal text between them. -/
inductive Item
  | param (p : Param)
  | text (s : Str)
deriving Repr, DecidableEq

/-- `OrderedDict[str, Optional[str]]` as an association list (keys unique: `Dict.WF`). -/
abbrev Dict := List (Str × Option Str)

namespace Dict
def keys (d : Dict) : List Str := d.map (·.1)
def WF (d : Dict) : Prop := (keys d).Nodup
def get? (d : Dict) (k : Str) : Option (Option Str) := List.lookup k d
def contains (d : Dict) (k : Str) : Bool := (List.lookup k d).isSome
/-- `d[k] = v`: update in place, or append a new key -/
def set : Dict → Str → Option Str → Dict
  | [], k, v => [(k, v)]
  | (k', v') :: rest, k, v => if k' = k then (k, v) :: rest else (k', v') :: set rest k v
/-- `del d[k]` (caller checks membership) -/
def erase (d : Dict) (k : Str) : Dict := d.filter (fun kv => kv.1 ≠ k)
end Dict

structure SMChart where
  fields : Dict
  extradata : Option (List Str)
deriving Repr, DecidableEq

structure SSCChart where
  props : Dict
deriving Repr, DecidableEq

structure SMSimfile where
  props : Dict
  charts : List SMChart
deriving Repr, DecidableEq

structure SSCSimfile where
  props : Dict
  charts : List SSCChart
deriving Repr, DecidableEq

inductive Err
  | valueError | keyError | attributeError | stopIteration | msdParserError
deriving Repr, DecidableEq

def nl : Str := ['\n']

def isMulti (k : Str) : Bool := T.multiValue.contains k

/-- The parameter written for one `(key, value)` item (BaseSimfile.serialize / SSCChart.serialize). -/
def valueParam (k : Str) (v : Option Str) : Param :=
  match v with
  | none => ⟨[k]⟩
  | some v => if isMulti k then ⟨k :: splitOn ':' v⟩ else ⟨[k, v]⟩

def serProps (d : Dict) : List Item :=
  d.flatMap fun kv => [Item.param (valueParam kv.1 kv.2), Item.text nl]

/-- f-string interpolation of an attribute that may be missing: `None` prints as "None". -/
def fmtAttr (v : Option (Option Str)) : Str :=
  match v with
  | some (some s) => s
  | _ => ['N', 'o', 'n', 'e']

def smIndent : Str := '\n' :: List.replicate 5 ' '

/-- key of the i-th SM chart field, from the generated SM_CHART_PROPERTIES -/
def smKey (i : Nat) : Str := T.smChartProperties.getD i []

/-- `SMChart.serialize`: the NOTES parameter -/
def smChartParam (c : SMChart) : Param :=
  ⟨[ ['N','O','T','E','S'],
     smIndent ++ fmtAttr (c.fields.get? ['S','T','E','P','S','T','Y','P','E']),
     smIndent ++ fmtAttr (c.fields.get? ['D','E','S','C','R','I','P','T','I','O','N']),
     smIndent ++ fmtAttr (c.fields.get? ['D','I','F','F','I','C','U','L','T','Y']),
     smIndent ++ fmtAttr (c.fields.get? ['M','E','T','E','R']),
     smIndent ++ fmtAttr (c.fields.get? ['R','A','D','A','R','V','A','L','U','E','S']),
     nl ++ fmtAttr (c.fields.get? ['N','O','T','E','S']) ++ nl ] ++ c.extradata.getD []⟩

def serSM (s : SMSimfile) : List Item :=
  serProps s.props ++ [Item.text nl] ++
  s.charts.flatMap fun c => [Item.param (smChartParam c), Item.text nl]

def kNOTES : Str := ['N','O','T','E','S']
def kNOTES2 : Str := ['N','O','T','E','S','2']
def kNOTEDATA : Str := ['N','O','T','E','D','A','T','A']
def kVERSION : Str := ['V','E','R','S','I','O','N']

/-- `item_property("NOTES", alias="NOTES2")._name_or_alias` -/
def notesKey (c : SSCChart) : Str :=
  if !c.props.contains kNOTES && c.props.contains kNOTES2 then kNOTES2 else kNOTES

/-- `SSCChart.serialize` (followed by the "\n" BaseCharts.serialize adds) -/
def serSSCChart (c : SSCChart) : Except Err (List Item) :=
  let nk := notesKey c
  match c.props.get? nk with
  | none => .error .keyError
  | some v =>
    -- note data stored as None (a key-only `#NOTES;` was loaded) is written back key-only
    .ok ([Item.param ⟨[kNOTEDATA, []]⟩, Item.text nl] ++
         serProps (c.props.filter fun kv => kv.1 ≠ nk) ++
         [Item.param (match v with | none => ⟨[nk]⟩ | some notes => ⟨[nk, notes]⟩), Item.text (nl ++ nl)])

def serSSC (s : SSCSimfile) : Except Err (List Item) := do
  let cs ← s.charts.mapM fun c => do
    let is ← serSSCChart c
    pure (is ++ [Item.text nl])
  pure (serProps s.props ++ [Item.text nl] ++ cs.flatten)

def paramsOf (is : List Item) : List Param :=
  is.filterMap fun | .param p => some p | .text _ => none

/-! ### loading -/

/-- `SMChart._from_msd` -/
def smChartFromMsd (values : List Str) : Except Err SMChart :=
  if values.length < T.smChartProperties.length then .error .valueError
  else
    .ok { fields := (T.smChartProperties.zip values).foldl (fun d kv => d.set kv.1 (some (strip kv.2))) [],
          extradata := if values.length > T.smChartProperties.length
                       then some (values.drop T.smChartProperties.length) else none }

/-- `SMChart.from_str`: the raw string is split on ':' (no unescaping). -/
def smChartFromStr (s : Str) : Except Err SMChart := smChartFromMsd (splitOn ':' s)

/-- The value a loader stores for a parameter under (upper-cased) key `k`. -/
def loadedValue (k : Str) (p : Param) : Option Str :=
  match p.value with
  | none => none
  | some v => if isMulti k then some (joinWith [':'] p.comps.tail) else some v

/-- `SMSimfile._parse` -/
def loadSM (ps : List Param) : Except Err SMSimfile :=
  ps.foldlM (fun (s : SMSimfile) p =>
    let k := upper p.key
    if k = kNOTES then do
      let c ← smChartFromMsd p.comps.tail
      pure { s with charts := s.charts ++ [c] }
    else pure { s with props := s.props.set k (loadedValue k p) })
    { props := [], charts := [] }

structure SSCLoadState where
  props : Dict
  charts : List SSCChart
  partial_ : Option SSCChart

/-- `SSCSimfile._parse` -/
def loadSSC (ps : List Param) : SSCSimfile :=
  let st := ps.foldl (fun (st : SSCLoadState) p =>
    let k := upper p.key
    let v := loadedValue k p
    if k = kNOTEDATA then
      { st with charts := (match st.partial_ with | some c => st.charts ++ [c] | none => st.charts),
                partial_ := some ⟨[]⟩ }
    else match st.partial_ with
      | some c => { st with partial_ := some ⟨c.props.set k v⟩ }
      | none => { st with props := st.props.set k v })
    { props := [], charts := [], partial_ := none }
  { props := st.props,
    charts := match st.partial_ with | some c => st.charts ++ [c] | none => st.charts }

/-- body of `SSCChart._parse` after the NOTEDATA parameter: stops after NOTES / NOTES2 -/
def loadSSCChartBody : List Param → Dict → Dict
  | [], d => d
  | p :: ps, d =>
    let k := upper p.key
    let d' := d.set k (loadedValue k p)
    if k = kNOTES ∨ k = kNOTES2 then d' else loadSSCChartBody ps d'

/-- `SSCChart._parse` / `from_str` -/
def loadSSCChart (ps : List Param) : Except Err SSCChart :=
  match ps with
  | [] => .error .stopIteration
  | p :: rest =>
    if upper p.key ≠ kNOTEDATA then .error .valueError
    else .ok ⟨loadSSCChartBody rest []⟩

/-- `_detect_ssc`'s content rule: the first parameter's key is VERSION in any letter case. -/
def firstKeyIsVersion (ps : List Param) : Bool :=
  match ps with
  | [] => false
  | p :: _ => upper p.key = kVERSION

/-- file-name rule of `_detect_ssc`: suffix after the last '.', lower-cased; `none` = undecided -/
def suffixRule (name : Str) : Option Bool :=
  let (_, _, suffix) := rpartition '.' (lower name)
  if suffix = ['s','s','c'] then some true
  else if suffix = ['s','m'] then some false
  else none

/-- SM chart `__eq__`: the six attribute views, not `extradata` -/
def SMChart.pyEq (a b : SMChart) : Bool :=
  T.smChartProperties.all fun k => a.fields.get? k == b.fields.get? k

def SMSimfile.pyEq (a b : SMSimfile) : Bool :=
  a.props == b.props && a.charts.length == b.charts.length &&
  (a.charts.zip b.charts).all fun ab => ab.1.pyEq ab.2

/-- Moves the note data item of an SSC chart to the end (what a serialize/parse round trip does). -/
def SSCChart.notesLast (c : SSCChart) : SSCChart :=
  let nk := notesKey c
  match c.props.get? nk with
  | none => c
  | some v => ⟨c.props.filter (fun kv => kv.1 ≠ nk) ++ [(nk, v)]⟩

def SSCSimfile.notesLast (s : SSCSimfile) : SSCSimfile :=
  { s with charts := s.charts.map SSCChart.notesLast }

end Simfile
