/-
Attribute and key views of simfiles and charts (C18): item_property get/set/delete, dictionary access, and the
SMChart key guards.
-/
import Simfile.Model.Source
namespace Simfile

inductive VOp
  | getAttr (a : Str)
  | setAttr (a : Str) (v : Str)
  | delAttr (a : Str)
  | getKey (k : Str)
  | setKey (k : Str) (v : Str)
  | delKey (k : Str)
  | contains (k : Str)
  | items
  | pop (k : Str)
  | popitem
  | update (k : Str) (v : Str)
deriving Repr, DecidableEq

inductive VOut
  | value (v : Option Str)
  | done
  | bool (b : Bool)
  | items (d : Dict)
  | keyError
  | notImplemented
  | attributeError
deriving Repr, DecidableEq

/-- one operation on an object of class `k` whose mapping is `d` -/
def vstep (k : Kind) (d : Dict) : VOp → Dict × VOut
  | .getAttr a =>
    match attrKey k d a with
    | some _ => (d, .value (attrGet k d a))
    | none => (d, .attributeError)
  | .setAttr a v =>
    match attrKey k d a with
    | some key =>
      if k = .smChart && !T.smChartProperties.contains key then (d, .keyError) else (d.set key (some v), .done)
    | none => (d, .attributeError)
  | .delAttr a =>
    match attrKey k d a with
    | some key =>
      if k = .smChart then (d, .notImplemented)
      else if d.contains key then (d.erase key, .done) else (d, .keyError)
    | none => (d, .attributeError)
  | .getKey key =>
    if k = .smChart then
      -- `__getitem__`: one of the six keys is read through its attribute, anything else is a KeyError
      if T.smChartProperties.contains key then (d, .value (attrGet .smChart d (lower key))) else (d, .keyError)
    else match d.get? key with
      | some v => (d, .value v)
      | none => (d, .keyError)
  | .setKey key v =>
    if k = .smChart && !T.smChartProperties.contains key then (d, .keyError) else (d.set key (some v), .done)
  | .delKey key =>
    if k = .smChart then (d, .notImplemented)
    else if d.contains key then (d.erase key, .done) else (d, .keyError)
  | .contains key => (d, .bool (d.contains key))
  | .items =>
    if k = .smChart then (d, .items (d.map fun kv =>
      (kv.1, if T.smChartProperties.contains kv.1 then attrGet .smChart d (lower kv.1) else kv.2)))
    else (d, .items d)
  | .pop key =>
    if k = .smChart then (d, .notImplemented)
    else match d.get? key with
      | some v => (d.erase key, .value v)
      | none => (d, .value none)      -- pop(key, None)
  | .popitem =>
    if k = .smChart then (d, .notImplemented)
    else match d.reverse with
      | [] => (d, .keyError)
      | kv :: rest => (rest.reverse, .items [kv])
  | .update key v =>
    if k = .smChart then (d, .notImplemented) else (d.set key (some v), .done)

/-- a whole history: final mapping and the outputs in order -/
def vrun (k : Kind) (d : Dict) : List VOp → Dict × List VOut
  | [] => (d, [])
  | op :: ops =>
    let (d', o) := vstep k d op
    let (d'', os) := vrun k d' ops
    (d'', o :: os)

/-- the rest of the OrderedDict interface a caller can reach (outside the property's own alphabet of reads,
assignments and deletions): `clear`, `setdefault`, `move_to_end` -/
inductive VOpX
  | base (op : VOp)
  | clear
  | setDefault (k : Str) (v : Str)
  | moveToEnd (k : Str) (last : Bool)
deriving Repr, DecidableEq

def vstepX (k : Kind) (d : Dict) : VOpX → Dict × VOut
  | .base op => vstep k d op
  | .clear =>
    if k = .smChart then (d, .notImplemented) else ([], .done)
  | .setDefault key v =>
    -- OrderedDict.setdefault on a subclass: `key in self`, then `self[key]` or `self[key] = default`
    if d.contains key then
      (if k = .smChart then
        (if T.smChartProperties.contains key then (d, .value (attrGet .smChart d (lower key))) else (d, .keyError))
       else (d, .value ((d.get? key).getD none)))
    else if k = .smChart && !T.smChartProperties.contains key then (d, .keyError)
    else (d.set key (some v), .value (some v))
  | .moveToEnd key last =>
    match d.get? key with
    | none => (d, .keyError)
    | some v => (if last then d.erase key ++ [(key, v)] else (key, v) :: d.erase key, .done)

def vrunX (k : Kind) (d : Dict) : List VOpX → Dict × List VOut
  | [] => (d, [])
  | op :: ops =>
    let (d', o) := vstepX k d op
    let (d'', os) := vrunX k d' ops
    (d'', o :: os)

end Simfile
