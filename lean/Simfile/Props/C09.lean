/-
C09 — group_notes refines its declarative specification; the counting functions built on it.
Property theorems only; helper lemmas live in Simfile/Lemmas/Group*.lean.
-/
import Simfile.Lemmas.GroupJoinMain
import Simfile.Lemmas.GroupRuns
namespace Simfile.C09
open Simfile

/-- the characters of the note types used by grouping and counting -/
theorem note_chars : cTAP = '1' ∧ cHOLD = '2' ∧ cTAIL = '3' ∧ cROLL = '4' ∧ cMINE = 'M' ∧ cLIFT = 'L' ∧
    cFAKE = 'F' := by decide

theorem default_note_types : defaultNoteTypes = ['1', '2', '4', 'L'] := by decide

/-- mines are counted one by one -/
theorem count_mines_spec (ns : List Note) : countMines ns = (ns.filter (·.ntype = cMINE)).length := rfl

/-- without joining, grouping is: filter, cut into maximal runs of equal beat, split every row -/
theorem rows_join_off (o : GOpts) (ns : List Note) (h : o.join = false) :
    groupNotes o ns = .ok ((groupRuns GNote.beat ((ns.filter fun n => o.incl.contains n.ntype).map .plain)).flatMap
      fun r => addRow o.sameBeat r.2) := by
  simp [groupNotes, h, bind, Except.bind, pure, Except.pure]

/-- the join phase (the streaming generator with its `held_columns` dictionary and output buffer)
computes the neighbour-based classification: same output, and an exception exactly when the
specification raises -/
theorem join_refines_spec (o : GOpts) (F : List Note) (h : F.Nodup) :
    joinHeadsToTails o F = Spec.joinSpec o F :=
  Join.join_refines_spec o F h

/-- `group_notes` refines its specification: for every option combination and every stream of pairwise
distinct notes (sorted or not) -/
theorem group_refines_spec (o : GOpts) (ns : List Note) (h : ns.Nodup) :
    groupNotes o ns = Spec.groupSpec o ns := by
  unfold groupNotes Spec.groupSpec
  cases hj : o.join with
  | false => rfl
  | true =>
    simp only [if_true]
    rw [Join.join_refines_spec o _ (List.Nodup.sublist List.filter_sublist h)]

/-- holds / rolls are counted as the items the join phase emits for {head type, TAIL} -/
theorem count_holds_spec (ns : List Note) (h : ns.Nodup) (head : Char) (oh ot : Orphan) :
    countHoldsOrRolls ns head oh ot = Spec.holdsSpec ns head oh ot := by
  unfold countHoldsOrRolls Spec.holdsSpec
  rw [group_refines_spec _ ns h]
  unfold Spec.groupSpec
  simp only [if_true]
  cases Spec.joinSpec { incl := [head, cTAIL], join := true, orphanHead := oh, orphanTail := ot }
      (ns.filter fun n => [head, cTAIL].contains n.ntype) with
  | error e => rfl
  | ok s =>
    simp only [bind, Except.bind, pure, Except.pure]
    rw [Runs.keepSeparate_rows, Runs.countGrouped_singletons]

/-- steps / jumps / hands: on a stream with non-decreasing beats, the groups of at least `k` notes
(`SameBeatNotes.JOIN_ALL`) are the beats that carry at least `k` notes of the included types
(holds for every `k`, in particular `k = 1, 2, 3`) -/
theorem count_steps_spec (ns : List Note) (incl : List Char) (k : Nat)
    (hs : (ns.map (·.beat)).Pairwise (· ≤ ·)) :
    countSteps ns incl .joinAll k = .ok (Spec.beatsWithAtLeast ns incl k) := by
  unfold countSteps Spec.beatsWithAtLeast
  rw [rows_join_off _ ns rfl]
  simp only [bind, Except.bind, pure, Except.pure]
  rw [Runs.countGrouped_joinAll]
  exact List.Pairwise.sublist (List.Sublist.map _ List.filter_sublist) hs

/-! ### non-vacuity: concrete streams meeting the hypotheses -/

private def nt (b : Rat) (c : Nat) (t : Char) : Note := { beat := b, column := c, ntype := t }

/-- two overlapping holds (columns 0 and 1), a roll head interrupted by a tap (column 2),
an orphan tail (column 3), a mine, and a hold that is never closed (column 0) -/
private def exStream : List Note :=
  [nt 0 0 cHOLD, nt 1 1 cHOLD, nt 2 0 cTAIL, nt 3 1 cTAIL, nt 4 2 cROLL, nt 5 2 cTAP, nt 6 3 cTAIL,
   nt 6 1 cMINE, nt 7 0 cHOLD]

private def exOpts (oh ot : Orphan) : GOpts :=
  { incl := [cTAP, cHOLD, cROLL, cTAIL], join := true, orphanHead := oh, orphanTail := ot }

example : exStream.Nodup := by decide +kernel
example : (exStream.map (·.beat)).Pairwise (· ≤ ·) := by decide +kernel
example : groupNotes (exOpts .keep .drop) exStream =
    .ok [[.withTail (nt 0 0 cHOLD) 2], [.withTail (nt 1 1 cHOLD) 3], [.plain (nt 4 2 cROLL)],
         [.plain (nt 5 2 cTAP)], [.plain (nt 7 0 cHOLD)]] := by decide +kernel
example : groupNotes (exOpts .drop .keep) exStream =
    .ok [[.withTail (nt 0 0 cHOLD) 2], [.withTail (nt 1 1 cHOLD) 3], [.plain (nt 5 2 cTAP)],
         [.plain (nt 6 3 cTAIL)]] := by decide +kernel
example : groupNotes (exOpts .raise .drop) exStream = .error .orphaned := by decide +kernel
example : Spec.groupSpec (exOpts .keep .raise) exStream = .error .orphaned := by decide +kernel
example : countHoldsOrRolls exStream cHOLD .keep .drop = .ok 3 := by decide +kernel
example : countSteps (exStream ++ [nt 7 2 cTAP, nt 7 3 cTAP]) defaultNoteTypes .joinAll 2 = .ok 1 := by
  decide +kernel

/-- the hypothesis `Nodup` of `group_refines_spec` cannot be dropped: when the same head occurs twice,
`buffer.index(head)` finds the first (already orphaned, kept) copy and attaches the tail there -/
example :
    let h1 := nt 0 1 cHOLD; let h0 := nt 0 0 cHOLD; let t0 := nt 1 0 cTAIL
    joinHeadsToTails (exOpts .keep .keep) [h1, h0, h0, t0] = .ok [.plain h1, .withTail h0 1, .plain h0] ∧
    Spec.joinSpec (exOpts .keep .keep) [h1, h0, h0, t0] = .ok [.plain h1, .plain h0, .withTail h0 1] := by
  decide +kernel

end Simfile.C09
