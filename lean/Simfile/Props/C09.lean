import Simfile.Spec.Group
