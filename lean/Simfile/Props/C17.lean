/-
C17: SSC → SM conversion. `_should_copy_property` as a decision table over the generated INVALID_PROPERTIES and
behaviour tables; `_copy_properties` stops at the first rejected item; warps are refused; on the claimed domain the
conversion never fails with anything but NotImplementedError / InvalidPropertyException.
-/
import Simfile.Lemmas.Convert
import Simfile.Lemmas.ConvertBack
namespace Simfile.C17
open Simfile Simfile.O Simfile.V Simfile.Cv

/-! ### 12. the decision table -/

/-- `Cv.listedIn`: the FIRST entry of the table whose key list contains `k`;
`Cv.behaviourOf`: the caller's entry for a kind if present, else the generated default -/
theorem listedIn_def (invalid : List (Nat × List Str)) (k : Str) :
    listedIn invalid k = invalid.find? (fun e => e.2.contains k) := rfl
theorem behaviourOf_def (beh : List (Nat × Nat)) (kind : Nat) :
    behaviourOf beh kind = match beh.find? (·.1 = kind) with
      | some x => x.2
      | none => ((T.invalidPropertyBehaviors.find? (·.1 = kind)).map (·.2)).getD 0 := rfl

/-- the behaviour codes, named through the generated `invalidPropertyBehaviorNames` -/
theorem behaviour_codes :
    T.invalidPropertyBehaviorNames = [("COPY_ANYWAY".toList, bCOPY), ("IGNORE".toList, bIGNORE),
      ("ERROR_UNLESS_DEFAULT".toList, bUNLESS), ("ERROR".toList, bERROR)] ∧
    [bCOPY, bIGNORE, bUNLESS, bERROR].Nodup := by decide

/-- the decision table. A key-only property (`v = none`) is compared like the empty string: `(value or "").strip()` -/
theorem should_copy_spec (k : Str) (v : Option Str) (invalid : List (Nat × List Str)) (beh : List (Nat × Nat)) :
    (invalid.find? (fun e => e.2.contains k) = none → shouldCopy k v invalid beh = .ok true) ∧
    (∀ e, invalid.find? (fun e => e.2.contains k) = some e →
      (behaviourOf beh e.1 = bCOPY → shouldCopy k v invalid beh = .ok true) ∧
      (behaviourOf beh e.1 = bIGNORE → shouldCopy k v invalid beh = .ok false) ∧
      (behaviourOf beh e.1 = bUNLESS → strip (v.getD []) = defaultProperty k →
        shouldCopy k v invalid beh = .ok false) ∧
      (behaviourOf beh e.1 = bUNLESS → strip (v.getD []) ≠ defaultProperty k →
        shouldCopy k v invalid beh = .error (.invalidProperty k)) ∧
      (behaviourOf beh e.1 = bERROR → shouldCopy k v invalid beh = .error (.invalidProperty k)) ∧
      (behaviourOf beh e.1 ∉ [bCOPY, bIGNORE, bUNLESS] → shouldCopy k v invalid beh = .error (.invalidProperty k))) := by
  obtain ⟨c1, c2, c3, c4⟩ := beh_codes
  refine ⟨fun h => shouldCopy_not_listed k v invalid beh h, fun e he => ?_⟩
  have hl : listedIn invalid k = some e := he
  rw [shouldCopy_eq, hl]
  simp only []
  refine ⟨fun hb => ?_, fun hb => ?_, fun hb hs => ?_, fun hb hs => ?_, fun hb => ?_, fun hb => ?_⟩
  · rw [if_pos hb]
  · rw [if_neg (by rw [hb, c1, c2]; decide), if_pos hb]
  · rw [if_neg (by rw [hb, c1, c3]; decide), if_neg (by rw [hb, c2, c3]; decide), if_pos hb, if_pos hs]
  · rw [if_neg (by rw [hb, c1, c3]; decide), if_neg (by rw [hb, c2, c3]; decide), if_pos hb, if_neg hs]
  · rw [if_neg (by rw [hb, c1, c4]; decide), if_neg (by rw [hb, c2, c4]; decide),
      if_neg (by rw [hb, c3, c4]; decide)]
  · simp only [List.mem_cons, List.not_mem_nil, or_false, not_or] at hb
    rw [if_neg hb.1, if_neg hb.2.1, if_neg hb.2.2]

/-- the generated default behaviours: IGNORE for SSC_VERSION, METADATA, FILE_PATH; ERROR_UNLESS_DEFAULT for
GAMEPLAY_EVENT, TIMING_DATA -/
theorem defaults :
    T.propertyTypes = [("SSC_VERSION".toList, 1), ("METADATA".toList, 2), ("FILE_PATH".toList, 3),
      ("GAMEPLAY_EVENT".toList, 4), ("TIMING_DATA".toList, 5)] ∧
    behaviourOf [] (kindCode "SSC_VERSION".toList) = bIGNORE ∧
    behaviourOf [] (kindCode "METADATA".toList) = bIGNORE ∧
    behaviourOf [] (kindCode "FILE_PATH".toList) = bIGNORE ∧
    behaviourOf [] (kindCode "GAMEPLAY_EVENT".toList) = bUNLESS ∧
    behaviourOf [] (kindCode "TIMING_DATA".toList) = bUNLESS := by decide

example : shouldCopy "ORIGIN".toList (some "x".toList) T.invalidSMSimfile [] = .ok false := by decide
example : shouldCopy "TITLE".toList (some "x".toList) T.invalidSMSimfile [] = .ok true := by decide
example : shouldCopy "COMBOS".toList (some " 0.000=1 ".toList) T.invalidSMSimfile [] = .ok false := by decide
example : shouldCopy "COMBOS".toList (some "0.000=2".toList) T.invalidSMSimfile [] =
    .error (.invalidProperty "COMBOS".toList) := by decide
example : shouldCopy "COMBOS".toList (some "0.000=2".toList) T.invalidSMSimfile [(4, 1)] = .ok true := by decide
/-- key-only properties under ERROR_UNLESS_DEFAULT: FAKES (default "") passes, COMBOS (default "0.000=1") is named -/
example : shouldCopy "FAKES".toList none T.invalidSMSimfile [] = .ok false := by decide
example : shouldCopy "COMBOS".toList none T.invalidSMSimfile [] = .error (.invalidProperty "COMBOS".toList) := by
  decide

/-! ### 13. `_copy_properties` -/

/-- `Cv.accepted`: `shouldCopy` answers "copy" -/
theorem accepted_def (invalid : List (Nat × List Str)) (beh : List (Nat × Nat)) (kv : Str × Option Str) :
    accepted invalid beh kv = true ↔ shouldCopy kv.1 kv.2 invalid beh = .ok true := by
  unfold accepted
  cases h : shouldCopy kv.1 kv.2 invalid beh with
  | error e => simp
  | ok b => cases b <;> simp

/-- no item rejected, no write refused: the result is `Dict.set` folded over exactly the accepted items -/
theorem copy_ok (sm : Bool) (source output : Dict) (invalid : List (Nat × List Str)) (beh : List (Nat × Nat))
    (h1 : ∀ kv ∈ source, ∃ b, shouldCopy kv.1 kv.2 invalid beh = .ok b)
    (h2 : sm = true → ∀ kv ∈ source, accepted invalid beh kv = true → kv.1 ∈ T.smChartProperties) :
    copyProperties sm source output invalid beh = .ok (setAll output (source.filter (accepted invalid beh))) :=
  copyProperties_ok sm source output invalid beh h1 h2

/-- the FIRST item that `shouldCopy` rejects decides the error (the items before it neither rejected nor refused
by the SM-chart key guard); the error is `invalidProperty k` -/
theorem copy_first_error (sm : Bool) (pre post output : Dict) (k : Str) (v : Option Str)
    (invalid : List (Nat × List Str)) (beh : List (Nat × Nat)) (e : CErr)
    (h1 : ∀ x ∈ pre, ∃ b, shouldCopy x.1 x.2 invalid beh = .ok b)
    (h2 : sm = true → ∀ x ∈ pre, accepted invalid beh x = true → x.1 ∈ T.smChartProperties)
    (h3 : shouldCopy k v invalid beh = .error e) :
    copyProperties sm (pre ++ (k, v) :: post) output invalid beh = .error e ∧ e = .invalidProperty k := by
  refine ⟨copyProperties_first_error sm pre post output (k, v) invalid beh e h1 h2 ?_, shouldCopy_error k v invalid beh e h3⟩
  unfold copyStep; simp only [h3]

/-- likewise the first accepted item outside the six keys of an SM chart is a KeyError -/
theorem copy_first_key_error (pre post output : Dict) (k : Str) (v : Option Str)
    (invalid : List (Nat × List Str)) (beh : List (Nat × Nat))
    (h1 : ∀ x ∈ pre, ∃ b, shouldCopy x.1 x.2 invalid beh = .ok b)
    (h2 : ∀ x ∈ pre, accepted invalid beh x = true → x.1 ∈ T.smChartProperties)
    (h3 : shouldCopy k v invalid beh = .ok true) (h4 : k ∉ T.smChartProperties) :
    copyProperties true (pre ++ (k, v) :: post) output invalid beh = .error .keyError := by
  refine copyProperties_first_error true pre post output (k, v) invalid beh _ h1 (fun _ => h2) ?_
  unfold copyStep; simp only [h3]
  exact setItem_keyError _ k v h4

example : copyProperties false [("TITLE".toList, some "x".toList), ("COMBOS".toList, some "0=2".toList),
      ("WARPS".toList, some "1=2".toList)] [] T.invalidSMSimfile [] = .error (.invalidProperty "COMBOS".toList) := by
  decide
example : copyProperties false [("TITLE".toList, some "x".toList), ("ORIGIN".toList, some "y".toList),
      ("MUSIC".toList, some "z".toList)] [("MUSIC".toList, some "".toList)] T.invalidSMSimfile [] =
    .ok [("MUSIC".toList, some "z".toList), ("TITLE".toList, some "x".toList)] := by decide

/-! ### 14. warps -/

/-- an SSC source with a non-empty WARPS string is refused, whatever the rest -/
theorem warps_refused (src : AnySimfile) (st : Option AnySimfile) (ct : Option (Dict × Option (List Str)))
    (beh : List (Nat × Nat)) (h : src.isSSC = true) (x : Char) (xs : Str)
    (hw : attrGet .sscSimfile src.props "warps".toList = some (x :: xs)) :
    convert src false st ct beh = .error .notImplemented := by
  have e : "warps".toList = ['w','a','r','p','s'] := by decide
  rw [e, attrGet_warps] at hw
  rw [convert_eq, convertWarps_ssc src h, hw]

/-- WARPS has no alias: the attribute is the plain key -/
theorem warps_key (d : Dict) : attrGet .sscSimfile d "warps".toList = (d.get? "WARPS".toList).join := by
  have e : "warps".toList = ['w','a','r','p','s'] := by decide
  have e' : "WARPS".toList = ['W','A','R','P','S'] := by decide
  rw [e, e']; exact attrGet_warps d

example : convert ⟨true, [("WARPS".toList, some "1=2".toList)], []⟩ false none none [] = .error .notImplemented :=
  warps_refused _ _ _ _ rfl '1' "=2".toList (by decide)

/-! ### 15. no other failure on the claimed domain -/

/-- the claimed domain: an SSC source; every chart key is one of the six SM fields (and not listed) or is listed in
`T.invalidSMChart`; no chart property kind is mapped to COPY_ANYWAY. (Key-only properties are no longer excluded:
they are compared like the empty string. `C17More.outcomes` drops the domain altogether.) -/
structure DomSSC (src : AnySimfile) (beh : List (Nat × Nat)) : Prop where
  ssc : src.isSSC = true
  chartKeys : ∀ c ∈ src.charts, ∀ kv ∈ c.1,
    (kv.1 ∈ T.smChartProperties ∧ ¬ Listed T.invalidSMChart kv.1) ∨ Listed T.invalidSMChart kv.1
  noCopy : ∀ e ∈ T.invalidSMChart, behaviourOf beh e.1 ≠ bCOPY

theorem total (src : AnySimfile) (st : Option AnySimfile) (ct : Option (Dict × Option (List Str)))
    (beh : List (Nat × Nat)) (h : DomSSC src beh) :
    (∃ out, convert src false st ct beh = .ok out) ∨ convert src false st ct beh = .error .notImplemented ∨
      ∃ k, convert src false st ct beh = .error (.invalidProperty k) := by
  rw [convert_eq]
  rcases convertWarps_ssc_cases src h.ssc with hw | hw
  · rw [hw]
    simp only []
    cases hp : copyProperties false src.props (startOf false st).props (invSimOf false) beh with
    | error e =>
      obtain ⟨kv, hkv, hh | ⟨_, hh, _⟩⟩ := copyProperties_error _ _ _ _ _ _ hp
      · have := shouldCopy_error _ _ _ _ _ hh
        subst this
        exact Or.inr (Or.inr ⟨kv.1, rfl⟩)
      · cases hh
    | ok props =>
      simp only []
      cases hc : src.charts.mapM (convChart false ct beh) with
      | ok charts => exact Or.inl ⟨_, rfl⟩
      | error e =>
        obtain ⟨c, hcm, hce⟩ := mapM_error _ _ _ hc
        rw [convChart_eq] at hce
        cases hcp : copyProperties (!false) c.1 (chartStartOf false ct).1 (invChartOf false) beh with
        | ok d => rw [hcp] at hce; cases hce
        | error e' =>
          rw [hcp] at hce; cases hce
          obtain ⟨kv, hkv, hh | ⟨hacc, _, hnot, _⟩⟩ := copyProperties_error _ _ _ _ _ _ hcp
          · have := shouldCopy_error _ _ _ _ _ hh
            subst this
            exact Or.inr (Or.inr ⟨kv.1, rfl⟩)
          · exfalso
            rcases h.chartKeys c hcm kv hkv with ⟨hin, _⟩ | hl
            · exact hnot hin
            · have hl' := (listedIn_ne_none _ _).mpr hl
              cases hle : listedIn T.invalidSMChart kv.1 with
              | none => exact hl' hle
              | some en =>
                exact shouldCopy_listed_not_true kv.1 kv.2 _ beh en hle
                  (h.noCopy en (listedIn_some _ _ _ hle).1) hacc
  · rw [hw]; exact Or.inr (Or.inl rfl)

example : DomSSC ⟨true, [("TITLE".toList, some "x".toList), ("COMBOS".toList, some "0=2".toList), ("FAKES".toList, none)],
    [([("STEPSTYPE".toList, some "dance-single".toList), ("BPMS".toList, none)], none)]⟩ [] where
  ssc := rfl
  chartKeys := by decide
  noCopy := by decide

/-- outside the domain a KeyError does happen: a chart key that is neither an SM field nor listed -/
example : convert ⟨true, [], [([("FOO".toList, some "x".toList)], none)]⟩ false none none [] = .error .keyError := by
  decide

/-! ### 16. there and back -/

/-- every SSC-only key of the blank SSC templates is of an ignored kind or carries exactly its table default
(so `ssc_to_sm` skips it silently); every other key of the blank SSC chart is one of the six SM fields -/
theorem blank_ssc_extras_ok :
    (∀ kv ∈ T.blankSSCSimfile, ∀ e ∈ T.invalidSMSimfile, listedIn T.invalidSMSimfile kv.1 = some e →
      behaviourOf [] e.1 = bIGNORE ∨
      (behaviourOf [] e.1 = bUNLESS ∧ kv.2.map strip = some (defaultProperty kv.1))) ∧
    (∀ kv ∈ T.blankSSCChart, ∀ e ∈ T.invalidSMChart, listedIn T.invalidSMChart kv.1 = some e →
      behaviourOf [] e.1 = bIGNORE ∨
      (behaviourOf [] e.1 = bUNLESS ∧ kv.2.map strip = some (defaultProperty kv.1))) ∧
    (∀ kv ∈ T.blankSSCChart, listedIn T.invalidSMChart kv.1 = none → kv.1 ∈ T.smChartProperties) := by
  decide +kernel

/-- the SM simfiles of the round trip: distinct keys, none of them SSC-only; BPMs and stops parse and are not
negative (`_convert_warps` accepts them); every chart has distinct keys among the six SM fields -/
structure DomBack (sm : AnySimfile) : Prop where
  isSM : sm.isSSC = false
  wf : Dict.WF sm.props
  noSSCOnly : ∀ k ∈ Dict.keys sm.props, ¬ Listed T.invalidSMSimfile k
  warps : convertWarps sm = .ok ()
  charts : ∀ c ∈ sm.charts, Dict.WF c.1 ∧ ∀ k ∈ Dict.keys c.1, k ∈ T.smChartProperties

/-- SM → SSC → SM with default arguments succeeds and gives back every original property and every chart field
(the charts again have exactly the six keys; `extradata` is not carried over) -/
theorem there_and_back (sm : AnySimfile) (h : DomBack sm) :
    ∃ ssc sm', convert sm true none none [] = .ok ssc ∧ convert ssc false none none [] = .ok sm' ∧
      sm'.isSSC = false ∧ (∀ kv ∈ sm.props, sm'.props.get? kv.1 = some kv.2) ∧
      ∃ back, sm'.charts = sm.charts.map back ∧
        ∀ c ∈ sm.charts, Dict.keys (back c).1 = T.smChartProperties ∧
          ∀ kv ∈ c.1, (back c).1.get? kv.1 = some kv.2 := by
  obtain ⟨out, back, hb, hp, hc⟩ := convert_back sm.props sm.charts h.wf h.noSSCOnly h.charts
  exact ⟨_, _, convert_toSSC sm none none [] h.warps, hb, rfl, hp, back, rfl, hc⟩

example : DomBack ⟨false, [("FREEZES".toList, some "1=2".toList), ("TITLE".toList, some "x".toList)],
    [(T.blankSMChart, some ["extra".toList])]⟩ where
  isSM := rfl
  wf := by unfold Dict.WF; decide
  noSSCOnly := by decide
  warps := by decide +kernel
  charts := by unfold Dict.WF; decide +kernel

end Simfile.C17
