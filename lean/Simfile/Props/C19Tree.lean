/-
C19 on a directory TREE (Simfile/Model/Tree.lean, Simfile/Model/Path.lean): `SimfilePack` discovery walks an in-memory
filesystem by PyFilesystem paths. Here "immediate sub-directory", "directly contains", "never nested directories" and
"never loose files" are statements about nodes of a tree and about path strings, not about a pre-digested two-level
input.

Vocabulary:
  `Node` = `file content | dir entries`, `resolve t p` = the node the path `p` leads to (`isdir`/`exists_`/`listdir` on top),
  `Path.normpath / join / split` = `fs.path` (validated against PyFilesystem2 by differential testing),
  `PathL.childPath nd f` = the path of entry `f` of the directory whose normal path is `nd`
      ("" ↦ f, "/" ↦ "/f", otherwise nd/f; `child_path` below ties it to `join` and `split`),
  `TreeL.NamesOk es` = the entry names of a directory are valid (`Path.validName`) and distinct — true of every real
      directory, and implied by `Node.wf` for every directory of a well-formed tree (`namesOk_of_wf`),
  `SimfileName n` = the lower-cased name ends in ".sm" or ".ssc".
-/
import Simfile.Props.C19
import Simfile.Lemmas.TreePack
namespace Simfile.C19Tree
open Simfile Simfile.Path Simfile.PathL Simfile.TreeL Simfile.DirL

/-- the name carries a simfile extension, in any letter case -/
def SimfileName (n : Str) : Prop :=
  endsWith (lower n) ".sm".toList = true ∨ endsWith (lower n) ".ssc".toList = true

theorem hasSimfile_iff (l : List Str) : hasSimfile l = true ↔ ∃ n ∈ l, SimfileName n := by
  unfold hasSimfile SimfileName
  simp only [List.any_eq_true]
  constructor
  · rintro ⟨n, hn, h⟩
    rw [extMatch_isSome_iff, Bool.or_eq_true, C19.isSm_def, C19.isSsc_def] at h
    exact ⟨n, hn, h.symm⟩
  · rintro ⟨n, hn, h⟩
    refine ⟨n, hn, ?_⟩
    rw [extMatch_isSome_iff, Bool.or_eq_true, C19.isSm_def, C19.isSsc_def]
    exact h.symm

/-- an entry is reported iff it is a directory one of whose own entries has a simfile name -/
theorem reported_iff (e : Str × Node) :
    reported e = true ↔ ∃ sub, e.2 = .dir sub ∧ ∃ x ∈ sub, SimfileName x.1 := by
  unfold reported
  rw [Bool.and_eq_true, hasSimfile_iff]
  obtain ⟨n, k⟩ := e
  cases k with
  | file c => simp [Node.isDir]
  | dir sub =>
    simp only [Node.isDir, Node.names, true_and, List.mem_map, Node.dir.injEq, exists_eq_left']
    constructor
    · rintro ⟨_, ⟨x, hx, rfl⟩, h⟩; exact ⟨x, hx, h⟩
    · rintro ⟨x, hx, h⟩; exact ⟨_, ⟨x, hx, rfl⟩, h⟩

/-- in a well-formed tree every directory reached by a path has valid, distinct entry names -/
theorem namesOk_of_wf {t : Node} (hw : t.wf = true) {p : Str} {es : List (Str × Node)}
    (hr : resolve t p = .ok (some (.dir es))) : NamesOk es := by
  obtain ⟨cs, _, h⟩ := resolve_ok hr
  exact ((wf_dir_iff es).mp (wf_lookup hw h.symm)).1

/-- `childPath` is what `join` builds and what `split` takes apart, and it is normal -/
theorem child_path {nd f : Str} (hn : normpath nd = some nd) (hf : validName f = true) :
    Path.join nd f = some (childPath nd f) ∧ Path.split (childPath nd f) = (nd, f) ∧
      normpath (childPath nd f) = some (childPath nd f) := by
  obtain ⟨_, _, _, h3⟩ := components_childPath hn hf
  exact ⟨join_normal_valid hn hf, split_childPath nd (validName_no_slash hf), h3⟩

/-! ### 1. refinement: the tree walk computes the existing `packDirs` on the two levels read off the tree -/

/-- [pack, all clauses] On a pack path that leads to a directory, `SimfilePack.simfile_dir_paths` is the existing
model `packDirs` applied to the entries read off the tree (`Node.packEntries`: name, is-directory, names of the
entry's own entries), each name turned into a path below the normalised pack directory. Every theorem of
`Simfile.C19` about `packDirs` therefore speaks about the tree walk. -/
theorem pack_refines (t : Node) (p : Str) (es : List (Str × Node))
    (hr : resolve t p = .ok (some (.dir es))) (hok : NamesOk es) :
    ∃ nd, normpath p = some nd ∧
      packSimfileDirs t p = .ok ((packDirs (Node.packEntries (.dir es))).map (childPath nd)) := by
  obtain ⟨nd, h1, h2⟩ := packSimfileDirs_eq hr hok
  refine ⟨nd, h1, ?_⟩
  rw [h2, packDirs_packEntries, List.map_map]
  rfl

/-- [pack] the three ways the walk fails: a `..` climbing above the root, a path that leads nowhere, a path that
leads to a file (`IllegalBackReference`, `ResourceNotFound`, `DirectoryExpected` of PyFilesystem) -/
theorem pack_errors (t : Node) (p : Str) :
    (normpath p = none → packSimfileDirs t p = .error .illegalBackReference) ∧
    (resolve t p = .ok none → packSimfileDirs t p = .error .resourceNotFound) ∧
    (∀ c, resolve t p = .ok (some (.file c)) → packSimfileDirs t p = .error .directoryExpected) := by
  refine ⟨?_, ?_, ?_⟩
  · intro h
    unfold packSimfileDirs; rw [h]
  · intro h
    obtain ⟨nd, h1, _, h3⟩ := resolve_normpath h
    unfold packSimfileDirs listdir; rw [h1]; simp only; rw [h3]
  · intro c h
    obtain ⟨nd, h1, _, h3⟩ := resolve_normpath h
    unfold packSimfileDirs listdir; rw [h1]; simp only; rw [h3]

/-! ### 2. the content: immediate child directories that directly contain a simfile name, in listing order -/

/-- [pack: "lists exactly its immediate sub-directories that directly contain at least one simfile", order]
the result is the sub-list of the pack directory's entries that are directories with a simfile name among their
own entry names, in listing order, each as `pack/name` -/
theorem pack_char (t : Node) (p : Str) (es : List (Str × Node))
    (hr : resolve t p = .ok (some (.dir es))) (hok : NamesOk es) :
    ∃ nd, normpath p = some nd ∧
      packSimfileDirs t p = .ok ((es.filter reported).map fun e => childPath nd e.1) :=
  packSimfileDirs_eq hr hok

/-- [pack: exactly] a path is reported iff it is `pack/name` for an entry `name` of the pack directory that IS A
DIRECTORY and has, AMONG ITS OWN ENTRIES, one with a simfile name -/
theorem pack_reported_iff (t : Node) (p : Str) (es : List (Str × Node))
    (hr : resolve t p = .ok (some (.dir es))) (hok : NamesOk es) :
    ∃ nd ds, normpath p = some nd ∧ packSimfileDirs t p = .ok ds ∧
      ∀ q, q ∈ ds ↔ ∃ name sub, (name, Node.dir sub) ∈ es ∧ q = childPath nd name ∧ ∃ x ∈ sub, SimfileName x.1 := by
  obtain ⟨nd, h1, h2⟩ := packSimfileDirs_eq hr hok
  refine ⟨nd, _, h1, h2, fun q => ?_⟩
  simp only [List.mem_map, List.mem_filter]
  constructor
  · rintro ⟨e, ⟨he, hrep⟩, rfl⟩
    obtain ⟨sub, hs, hx⟩ := (reported_iff e).mp hrep
    obtain ⟨n, k⟩ := e
    simp only at hs
    subst hs
    exact ⟨n, sub, he, rfl, hx⟩
  · rintro ⟨name, sub, he, rfl, hx⟩
    exact ⟨(name, .dir sub), ⟨he, (reported_iff _).mpr ⟨sub, rfl, hx⟩⟩, rfl⟩

/-- [pack: "immediate sub-directories"] every reported path splits into (the normalised pack directory, the name
of one of its entries), and leads to a directory of the tree: nothing deeper is ever reported -/
theorem pack_immediate (t : Node) (p : Str) (es : List (Str × Node))
    (hr : resolve t p = .ok (some (.dir es))) (hok : NamesOk es) :
    ∃ nd ds, normpath p = some nd ∧ packSimfileDirs t p = .ok ds ∧
      ∀ q ∈ ds, ∃ name sub, (name, Node.dir sub) ∈ es ∧ Path.split q = (nd, name) ∧
        resolve t q = .ok (some (.dir sub)) := by
  obtain ⟨nd, ds, h1, h2, h3⟩ := pack_reported_iff t p es hr hok
  refine ⟨nd, ds, h1, h2, fun q hq => ?_⟩
  obtain ⟨name, sub, he, rfl, _⟩ := (h3 q).mp hq
  have hv : validName name = true := hok.1 _ he
  obtain ⟨_, h1', h2', h3'⟩ := resolve_normpath hr
  rw [h1] at h1'; cases h1'
  refine ⟨name, sub, he, split_childPath nd (validName_no_slash hv), ?_⟩
  rw [resolve_childPath h2' hv h3']
  simp only [Option.bind_some]
  rw [child_of_mem hok.2 he]

/-- [pack: order, no repeats] the reported paths are a sub-list (same order, nothing invented) of the pack's listing -/
theorem pack_sublist (t : Node) (p : Str) (es : List (Str × Node))
    (hr : resolve t p = .ok (some (.dir es))) (hok : NamesOk es) :
    ∃ nd ds, normpath p = some nd ∧ packSimfileDirs t p = .ok ds ∧
      ds.Sublist ((es.map (·.1)).map (childPath nd)) := by
  obtain ⟨nd, h1, h2⟩ := packSimfileDirs_eq hr hok
  refine ⟨nd, _, h1, h2, ?_⟩
  rw [List.map_map]
  exact List.Sublist.map _ List.filter_sublist

/-! ### 3. never loose files, never directories without simfiles, never nested directories -/

/-- [pack: "never loose files"] an entry of the pack directory that is a file is never reported, whatever its name -/
theorem pack_loose_file (t : Node) (p : Str) (es : List (Str × Node))
    (hr : resolve t p = .ok (some (.dir es))) (hok : NamesOk es) (name c : Str) (he : (name, Node.file c) ∈ es) :
    ∃ nd ds, normpath p = some nd ∧ packSimfileDirs t p = .ok ds ∧ childPath nd name ∉ ds := by
  obtain ⟨nd, ds, h1, h2, h3⟩ := pack_reported_iff t p es hr hok
  refine ⟨nd, ds, h1, h2, fun hq => ?_⟩
  obtain ⟨name', sub, he', heq, _⟩ := (h3 _).mp hq
  have hv : validName name = true := hok.1 _ he
  have hv' : validName name' = true := hok.1 _ he'
  have := split_childPath nd (validName_no_slash hv)
  rw [heq, split_childPath nd (validName_no_slash hv')] at this
  have hn : name' = name := (Prod.mk.inj this).2
  subst hn
  have h4 := child_of_mem hok.2 he
  rw [child_of_mem hok.2 he'] at h4
  cases h4

/-- [pack: "never … directories without simfiles", "never nested directories"] a sub-directory none of whose OWN
entries has a simfile name is not reported — no matter what lies deeper inside it (there is no hypothesis on the
contents of its sub-directories: simfiles two or more levels below the pack root count for nothing) -/
theorem pack_nested_only (t : Node) (p : Str) (es : List (Str × Node))
    (hr : resolve t p = .ok (some (.dir es))) (hok : NamesOk es) (name : Str) (sub : List (Str × Node))
    (he : (name, Node.dir sub) ∈ es) (hno : ∀ x ∈ sub, ¬ SimfileName x.1) :
    ∃ nd ds, normpath p = some nd ∧ packSimfileDirs t p = .ok ds ∧ childPath nd name ∉ ds := by
  obtain ⟨nd, ds, h1, h2, h3⟩ := pack_reported_iff t p es hr hok
  refine ⟨nd, ds, h1, h2, fun hq => ?_⟩
  obtain ⟨name', sub', he', heq, x, hx, hsx⟩ := (h3 _).mp hq
  have hv : validName name = true := hok.1 _ he
  have hv' : validName name' = true := hok.1 _ he'
  have := split_childPath nd (validName_no_slash hv)
  rw [heq, split_childPath nd (validName_no_slash hv')] at this
  have hn : name' = name := (Prod.mk.inj this).2
  subst hn
  have h4 := child_of_mem hok.2 he
  rw [child_of_mem hok.2 he'] at h4
  cases h4
  exact hno x hx hsx

/-- [pack: "never nested directories"] the path of anything inside a sub-directory (depth 2 below the pack, or
deeper by repeating the argument) is never reported, whatever it is and whatever it contains -/
theorem pack_subsub_never (t : Node) (p : Str) (es : List (Str × Node))
    (hr : resolve t p = .ok (some (.dir es))) (hok : NamesOk es) (name m : Str) (hname : name ≠ [])
    (hm : '/' ∉ m) :
    ∃ nd ds, normpath p = some nd ∧ packSimfileDirs t p = .ok ds ∧ childPath (childPath nd name) m ∉ ds := by
  obtain ⟨nd, ds, h1, h2, h3⟩ := pack_immediate t p es hr hok
  refine ⟨nd, ds, h1, h2, fun hq => ?_⟩
  obtain ⟨name', sub, _, hs, _⟩ := h3 _ hq
  rw [split_childPath _ hm] at hs
  have h5 : childPath nd name = nd := (Prod.mk.inj hs).1
  have := childPath_length nd name hname
  rw [h5] at this
  exact Nat.lt_irrefl _ this


/-! ### 4. nothing at depth ≥ 3 matters -/

/-- [pack: "never nested directories", as an invariance] two trees whose pack directories agree on two levels —
same entry names in the same order, the same entries are directories, and those list the same names — give the same
result. The nodes at depth 2 (files or directories, with any contents) and everything below them may differ
arbitrarily: adding or removing simfiles inside a child's sub-directory changes nothing. -/
theorem pack_depth3_irrelevant (t t' : Node) (p : Str) (es es' : List (Str × Node))
    (hr : resolve t p = .ok (some (.dir es))) (hr' : resolve t' p = .ok (some (.dir es'))) (hok : NamesOk es)
    (hsame : Node.packEntries (.dir es) = Node.packEntries (.dir es')) :
    packSimfileDirs t p = packSimfileDirs t' p := by
  have hnames : es'.map (·.1) = es.map (·.1) := by
    rw [← names_of_packEntries, ← names_of_packEntries, hsame]
  have hok' : NamesOk es' := by
    refine ⟨fun e he => ?_, by rw [hnames]; exact hok.2⟩
    have : e.1 ∈ es.map (·.1) := by rw [← hnames]; exact List.mem_map.mpr ⟨e, he, rfl⟩
    obtain ⟨e0, he0, h0⟩ := List.mem_map.mp this
    rw [← h0]
    exact hok.1 e0 he0
  obtain ⟨nd, h1, h2⟩ := pack_refines t p es hr hok
  obtain ⟨nd', h1', h2'⟩ := pack_refines t' p es' hr' hok'
  rw [h1] at h1'
  cases h1'
  rw [h2, h2', hsame]

/-- replace every node at depth 2 below a directory (every entry of every sub-directory) by `g parent name node` -/
def regraft (g : Str → Str → Node → Node) (es : List (Str × Node)) : List (Str × Node) :=
  es.map fun e => (e.1, match e.2 with
    | .dir sub => .dir (sub.map fun x => (x.1, g e.1 x.1 x.2))
    | .file c => .file c)

/-- [same, explicit] replacing EVERY grandchild of the pack directory by an arbitrary node (a file by a directory full
of simfiles, a directory by an empty one, …) leaves the reported directories unchanged -/
theorem pack_grandchildren_arbitrary (t t' : Node) (p : Str) (es : List (Str × Node)) (g : Str → Str → Node → Node)
    (hr : resolve t p = .ok (some (.dir es))) (hr' : resolve t' p = .ok (some (.dir (regraft g es))))
    (hok : NamesOk es) : packSimfileDirs t p = packSimfileDirs t' p := by
  apply pack_depth3_irrelevant t t' p es (regraft g es) hr hr' hok
  show es.map _ = (regraft g es).map _
  unfold regraft
  rw [List.map_map]
  apply List.map_congr_left
  intro e _
  obtain ⟨n, k⟩ := e
  cases k with
  | file c => rfl
  | dir sub =>
    simp only [Function.comp, Node.isDir, Node.names, List.map_map]
    rfl

/-! ### 5. `SimfileDirectory` on the tree, and the directories of a pack scanned in turn (`simfile_dirs`) -/

/-- [dir: "reports the .sm and .ssc files it directly contains", paths] `SimfileDirectory(p)` on the tree is the
existing scan `scanDir` of the names of the directory's OWN entries (so all of `Simfile.C19` section 12 applies), with
the two entries returned as paths `p/entry` and `simfile_dir` normalised. Entries of sub-directories are not in that
list: nothing below is looked at. -/
theorem dir_refines (t : Node) (p : Str) (ign : Bool) (es : List (Str × Node))
    (hr : resolve t p = .ok (some (.dir es))) (hok : NamesOk es) :
    ∃ nd, normpath p = some nd ∧
      simfileDirectoryOf t p ign =
        match scanDir (es.map (·.1)) ign with
        | .error _ => .error .duplicate
        | .ok sd => .ok { simfileDir := nd, sm := sd.sm.map (childPath nd), ssc := sd.ssc.map (childPath nd) } := by
  obtain ⟨nd, h1, _, _⟩ := resolve_normpath hr
  refine ⟨nd, h1, ?_⟩
  unfold simfileDirectoryOf
  rw [h1]
  simp only
  rw [listdir_of_resolve hr]
  simp only
  cases hs : scanDir (es.map (·.1)) ign with
  | error e => rfl
  | ok sd =>
    obtain ⟨hsm, hssc⟩ := C19.found_mem _ _ _ hs
    have hvalid : ∀ x ∈ es.map (·.1), validName x = true := by
      intro x hx
      obtain ⟨e, he, rfl⟩ := List.mem_map.mp hx
      exact hok.1 e he
    simp only
    rw [mapM_joinE h1 sd.sm (fun x hx => hvalid x (hsm x hx).1),
      mapM_joinE h1 sd.ssc (fun x hx => hvalid x (hssc x hx).1)]

/-- [pack + dir: `simfile_dirs()` / `simfiles()`] in a well-formed tree every directory the pack reports can be
scanned, and the scan finds something to open: the outcome is either the duplicate error (only without
`ignore_duplicate`) or a `SimfileDirectory` whose `simfile_path` is set — never `FileNotFoundError`, never a
filesystem error -/
theorem pack_dirs_openable (t : Node) (hw : t.wf = true) (p : Str) (es : List (Str × Node))
    (hr : resolve t p = .ok (some (.dir es))) (ign : Bool) :
    ∃ ds, packSimfileDirs t p = .ok ds ∧
      ∀ q ∈ ds, (ign = false ∧ simfileDirectoryOf t q ign = .error .duplicate) ∨
        ∃ sd, simfileDirectoryOf t q ign = .ok sd ∧ sd.simfileDir = q ∧ sd.simfilePath ≠ none := by
  have hok := namesOk_of_wf hw hr
  obtain ⟨nd, ds, h1, h2, h3⟩ := pack_reported_iff t p es hr hok
  obtain ⟨nd', hn1, hn2, hn3⟩ := resolve_normpath hr
  rw [h1] at hn1
  cases hn1
  refine ⟨ds, h2, fun q hq => ?_⟩
  obtain ⟨name, sub', he, rfl, x, hx, hsx⟩ := (h3 q).mp hq
  have hv : validName name = true := hok.1 _ he
  have hres : resolve t (childPath nd name) = .ok (some (.dir sub')) := by
    rw [resolve_childPath hn2 hv hn3]
    simp only [Option.bind_some]
    rw [child_of_mem hok.2 he]
  obtain ⟨_, _, _, hnorm⟩ := components_childPath hn2 hv
  have hoksub := namesOk_of_wf hw hres
  obtain ⟨nq, hnq, hdir⟩ := dir_refines t _ ign sub' hres hoksub
  rw [hnorm] at hnq
  cases hnq
  rw [hdir, scanDir_char]
  by_cases hdup : ign = false ∧ (2 ≤ ((sub'.map (·.1)).filter isSm).length ∨ 2 ≤ ((sub'.map (·.1)).filter isSsc).length)
  · rw [if_pos hdup]
    exact Or.inl ⟨hdup.1, rfl⟩
  · rw [if_neg hdup]
    refine Or.inr ⟨_, rfl, rfl, ?_⟩
    have hmem : x.1 ∈ sub'.map (·.1) := List.mem_map.mpr ⟨x, hx, rfl⟩
    unfold SimDirT.simfilePath
    simp only
    rcases hsx with h | h
    · have : (List.find? isSm (sub'.map (·.1))).isSome = true := by
        rw [List.find?_isSome]
        exact ⟨x.1, hmem, by rw [C19.isSm_def]; exact h⟩
      cases hf : List.find? isSm (sub'.map (·.1)) with
      | none => rw [hf] at this; cases this
      | some y => cases List.find? isSsc (sub'.map (·.1)) <;> simp
    · have : (List.find? isSsc (sub'.map (·.1))).isSome = true := by
        rw [List.find?_isSome]
        exact ⟨x.1, hmem, by rw [C19.isSsc_def]; exact h⟩
      cases hf : List.find? isSsc (sub'.map (·.1)) with
      | none => rw [hf] at this; cases this
      | some y => simp


/-! ### non-vacuity: a pack with two song directories, a directory whose only simfile lies two levels down, an empty
directory, a loose simfile in the pack root, a sub-directory with an asset named in another case -/

def s (x : String) : Str := x.toList

def songA : Node := .dir [(s "a.SM", .file (s "#TITLE:a;")), (s "Sub", .dir [(s "Art.PNG", .file [])]),
  (s "banner.png", .file [])]
def pack0 : List (Str × Node) := [
  (s "loose.sm", .file (s "#TITLE:loose;")),
  (s "SongA", songA),
  (s "OnlyNested", .dir [(s "deep", .dir [(s "x.ssc", .file [])])]),
  (s "Empty", .dir []),
  (s "SongB", .dir [(s "b.ssc", .file []), (s "b.sm", .file []), (s "B2.SM", .file [])])]
def tree0 : Node := .dir [(s "Songs", .dir [(s "Pack", .dir pack0), (s "Pack.png", .file [])])]

example : tree0.wf = true := by decide +kernel
example : resolve tree0 (s "Songs//Pack/./") = .ok (some (.dir pack0)) := by rfl
example : NamesOk pack0 := namesOk_of_wf (t := tree0) (by decide +kernel) (p := s "/Songs/Pack") (by rfl)
example : normpath (s "Songs//Pack/./") = some (s "Songs/Pack") := by decide +kernel
-- loose.sm, OnlyNested (its simfile is two levels down) and Empty are not reported; order = listing order
example : packSimfileDirs tree0 (s "/Songs/Pack") = .ok [s "/Songs/Pack/SongA", s "/Songs/Pack/SongB"] := by
  decide +kernel
example : packSimfileDirs tree0 (s "Songs//Pack/./") = .ok [s "Songs/Pack/SongA", s "Songs/Pack/SongB"] := by
  decide +kernel
example : packDirs (Node.packEntries (.dir pack0)) = [s "SongA", s "SongB"] := by decide +kernel
example : packSimfileDirs tree0 (s "/Songs/Pack/loose.sm") = .error .directoryExpected := by decide +kernel
example : packSimfileDirs tree0 (s "/Songs/Nope") = .error .resourceNotFound := by decide +kernel
example : packSimfileDirs tree0 (s "/Songs/../..") = .error .illegalBackReference := by decide +kernel
-- the parent of the pack: `Pack` itself has no simfile name among its own entries except the loose one
example : packSimfileDirs tree0 (s "/Songs") = .ok [s "/Songs/Pack"] := by decide +kernel

/-- the same pack with every grandchild replaced: files become directories holding a simfile, directories are emptied -/
def tree1 : Node := .dir [(s "Songs", .dir [(s "Pack", .dir (regraft
  (fun _ _ k => match k with | .file _ => .dir [(s "new.sm", .file [])] | .dir _ => .dir []) pack0)),
  (s "Pack.png", .file [])])]
example : packSimfileDirs tree1 (s "/Songs/Pack") = packSimfileDirs tree0 (s "/Songs/Pack") :=
  (pack_grandchildren_arbitrary tree0 tree1 (s "/Songs/Pack") pack0 _ (by rfl) (by rfl)
    (namesOk_of_wf (t := tree0) (by decide +kernel) (p := s "/Songs/Pack") (by rfl))).symm

-- `pack_nested_only` applied to OnlyNested, `pack_loose_file` to loose.sm
example : ∃ nd ds, normpath (s "/Songs/Pack") = some nd ∧ packSimfileDirs tree0 (s "/Songs/Pack") = .ok ds ∧
    childPath nd (s "OnlyNested") ∉ ds :=
  pack_nested_only tree0 (s "/Songs/Pack") pack0 (by rfl)
    (namesOk_of_wf (t := tree0) (by decide +kernel) (p := s "/Songs/Pack") (by rfl))
    (s "OnlyNested") [(s "deep", .dir [(s "x.ssc", .file [])])] (by simp [pack0])
    (by intro x hx; simp at hx; subst hx; unfold SimfileName; decide +kernel)
example : ∃ nd ds, normpath (s "/Songs/Pack") = some nd ∧ packSimfileDirs tree0 (s "/Songs/Pack") = .ok ds ∧
    childPath nd (s "loose.sm") ∉ ds :=
  pack_loose_file tree0 (s "/Songs/Pack") pack0 (by rfl)
    (namesOk_of_wf (t := tree0) (by decide +kernel) (p := s "/Songs/Pack") (by rfl))
    (s "loose.sm") (s "#TITLE:loose;") (by simp [pack0])

example : simfileDirectoryOf tree0 (s "/Songs/Pack/./SongA") false =
    .ok ⟨s "/Songs/Pack/SongA", some (s "/Songs/Pack/SongA/a.SM"), none⟩ := by decide +kernel
example : simfileDirectoryOf tree0 (s "/Songs/Pack/SongB") false = .error .duplicate := by decide +kernel
example : simfileDirectoryOf tree0 (s "/Songs/Pack/SongB") true =
    .ok ⟨s "/Songs/Pack/SongB", some (s "/Songs/Pack/SongB/b.sm"), some (s "/Songs/Pack/SongB/b.ssc")⟩ := by
  decide +kernel
example : simfileDirectoryOf tree0 (s "/Songs/Pack/OnlyNested") false =
    .ok ⟨s "/Songs/Pack/OnlyNested", none, none⟩ := by decide +kernel
example : packBannerT tree0 (s "/Songs/Pack") = .ok (some (s "/Songs/Pack.png")) := by decide +kernel
example : packName (s "/Songs/Pack/") = some (s "Pack") := by decide +kernel

end Simfile.C19Tree
