/-
C13 (round 2) — `time_notes` option by option, in terms of inputs and outputs only.
Everything is said about the model function `timeNotes td opt notes` through the engine's own
`hittable td` and `timeAt td`; the theorems of sections 1–3 and 5 hold for ALL timing data `td`
(no domain hypothesis, malformed timing data included).  Only `times_sorted` (needs `timeAt`
monotone, C11) and the characterisations of `hittable` in section 6 assume `C11.Dom td`.
Composing with `C13.hittable_spec` / `C11.time_refines_spec` turns `hittable`/`timeAt` into the
declarative `Spec.hittableSpec`/`Spec.timeSpec` on `Dom`.
Helper lemmas: Simfile/Lemmas/TimedMore.lean.
-/
import Simfile.Lemmas.TimedMore
import Simfile.Lemmas.EngineWarpTag
import Simfile.Props.C13
namespace Simfile.C13More
open Simfile

/-! ### 1. DROP_NOTE -/

/-- clause "unhittable notes are dropped": with DROP_NOTE the output is exactly the hittable notes, in
their original order, each once, unchanged, paired with the time of its beat; no unhittable note
survives. For all timing data. -/
theorem time_notes_drop (td : TimingData) (notes : List Note) :
    timeNotes td .dropNote notes =
      (notes.filter fun n => hittable td n.beat).map fun n => (timeAt td n.beat, n) :=
  timeNotes_drop td notes

/-- DROP_NOTE, membership form -/
theorem mem_drop_iff (td : TimingData) (notes : List Note) (r : Rat × Note) :
    r ∈ timeNotes td .dropNote notes ↔
      r.2 ∈ notes ∧ hittable td r.2.beat = true ∧ r.1 = timeAt td r.2.beat := by
  rw [time_notes_drop, List.mem_map]
  constructor
  · rintro ⟨n, hn, rfl⟩
    obtain ⟨h1, h2⟩ := List.mem_filter.1 hn
    exact ⟨h1, h2, rfl⟩
  · rintro ⟨h1, h2, h3⟩
    refine ⟨r.2, List.mem_filter.2 ⟨h1, h2⟩, ?_⟩
    rw [← h3]

/-- DROP_NOTE: as many outputs as hittable notes -/
theorem drop_length (td : TimingData) (notes : List Note) :
    (timeNotes td .dropNote notes).length = notes.countP fun n => hittable td n.beat := by
  rw [time_notes_drop, List.length_map, List.countP_eq_length_filter]

/-! ### 2. TAP_TO_FAKE -/

/-- clause "taps only — turned into fakes that differ in nothing but the note type": the output as an
explicit `filterMap` over a rule that mentions `hittable` only. Hittable notes pass unchanged, an
unhittable TAP becomes the same note with type FAKE (beat, column, player, keysound untouched), every
other unhittable note disappears. For all timing data. -/
theorem time_notes_tap_to_fake (td : TimingData) (notes : List Note) :
    timeNotes td .tapToFake notes = notes.filterMap fun n =>
      if hittable td n.beat = true then some (timeAt td n.beat, n)
      else if n.ntype = cTAP then some (timeAt td n.beat, { n with ntype := cFAKE })
      else none :=
  timeNotes_fake td notes

/-- TAP_TO_FAKE, the outputs standing on unhittable beats: exactly the unhittable TAPs of the input, in
order, retyped FAKE and otherwise unchanged. (Their hittable counterpart is `hittable_part`.) -/
theorem tap_to_fake_unhittable_part (td : TimingData) (notes : List Note) :
    (timeNotes td .tapToFake notes).filter (fun r => !hittable td r.2.beat) =
      (notes.filter fun n => !hittable td n.beat && decide (n.ntype = cTAP)).map
        fun n => (timeAt td n.beat, { n with ntype := cFAKE }) :=
  timeNotes_filter_unhittable td .tapToFake notes

/-- TAP_TO_FAKE, membership form: an output is a hittable input note as it was, or an unhittable input
TAP with the type alone replaced by FAKE — and nothing else; each with the time of its beat. This
sharpens `C13.fake_differs_in_type_only`: it says when each case arises. -/
theorem mem_tap_to_fake_iff (td : TimingData) (notes : List Note) (r : Rat × Note) :
    r ∈ timeNotes td .tapToFake notes ↔ ∃ n ∈ notes, r.1 = timeAt td n.beat ∧
      ((hittable td n.beat = true ∧ r.2 = n) ∨
       (hittable td n.beat = false ∧ n.ntype = cTAP ∧ r.2 = { n with ntype := cFAKE })) := by
  rw [timeNotes_mem_iff]
  constructor
  · rintro ⟨n, hn, h1, h2⟩
    refine ⟨n, hn, h1, ?_⟩
    rcases (emitted_eq_some_iff td _ n r.2).1 h2 with h | ⟨_, h, _⟩ | ⟨h3, _, h4, h5⟩
    · exact Or.inl h
    · cases h
    · exact Or.inr ⟨h3, h4, h5⟩
  · rintro ⟨n, hn, h1, h2⟩
    refine ⟨n, hn, h1, (emitted_eq_some_iff td _ n r.2).2 ?_⟩
    rcases h2 with h | ⟨h3, h4, h5⟩
    · exact Or.inl h
    · exact Or.inr (Or.inr ⟨h3, rfl, h4, h5⟩)

/-- TAP_TO_FAKE: an unhittable note that is not a TAP (a mine, a hold head, a fake, …) leaves no trace:
every output on an unhittable beat has type FAKE and its source was a TAP -/
theorem tap_to_fake_unhittable_output (td : TimingData) (notes : List Note) (r : Rat × Note)
    (hr : r ∈ timeNotes td .tapToFake notes) (hu : hittable td r.2.beat = false) :
    r.2.ntype = cFAKE ∧ { r.2 with ntype := cTAP } ∈ notes := by
  obtain ⟨n, hn, _, h | ⟨_, h2, h3⟩⟩ := (mem_tap_to_fake_iff td notes r).1 hr
  · rw [h.2, h.1] at hu; cases hu
  · rw [h3]
    refine ⟨rfl, ?_⟩
    have : ({ ({ n with ntype := cFAKE } : Note) with ntype := cTAP } : Note) = n := by
      cases n; simp only at h2; simp [h2]
    rw [this]; exact hn

/-- TAP_TO_FAKE: as many outputs as notes that are hittable or TAPs -/
theorem tap_to_fake_length (td : TimingData) (notes : List Note) :
    (timeNotes td .tapToFake notes).length =
      notes.countP fun n => hittable td n.beat || decide (n.ntype = cTAP) := by
  rw [List.countP_eq_length_filter, ← timeNotes_fake_sources, List.length_map]

/-! ### 3. KEEP_NOTE, agreement of the options, and the chain DROP ⊆ TAP_TO_FAKE ⊆ KEEP -/

/-- clause "kept as they are": with KEEP_NOTE every note is kept, unchanged, at the time of its beat —
for all timing data (`C13.time_notes_keep` says it with the declarative time on `Dom`) -/
theorem time_notes_keep (td : TimingData) (notes : List Note) :
    timeNotes td .keepNote notes = notes.map fun n => (timeAt td n.beat, n) :=
  timeNotes_keep td notes

/-- whatever the option, the outputs standing on hittable beats are exactly the hittable input notes, in
order, unchanged, with the time of their beat: the option only matters for unhittable notes -/
theorem hittable_part (td : TimingData) (opt : Unhittable) (notes : List Note) :
    (timeNotes td opt notes).filter (fun r => hittable td r.2.beat) =
      (notes.filter fun n => hittable td n.beat).map fun n => (timeAt td n.beat, n) :=
  timeNotes_filter_hittable td opt notes

/-- the outputs standing on unhittable beats, option by option -/
theorem unhittable_part (td : TimingData) (opt : Unhittable) (notes : List Note) :
    (timeNotes td opt notes).filter (fun r => !hittable td r.2.beat) =
      match opt with
      | .dropNote => []
      | .keepNote => (notes.filter fun n => !hittable td n.beat).map fun n => (timeAt td n.beat, n)
      | .tapToFake => (notes.filter fun n => !hittable td n.beat && decide (n.ntype = cTAP)).map
          fun n => (timeAt td n.beat, { n with ntype := cFAKE }) :=
  timeNotes_filter_unhittable td opt notes

/-- if every note stands on a hittable beat the three options give the same answer -/
theorem options_agree (td : TimingData) (opt : Unhittable) (notes : List Note)
    (h : ∀ n ∈ notes, hittable td n.beat = true) :
    timeNotes td opt notes = notes.map fun n => (timeAt td n.beat, n) := by
  rw [timeNotes_eq_emitted]
  apply filterMap_eq_map_of
  intro n hn
  rw [emitted_hittable opt (h n hn)]; rfl

/-- the DROP_NOTE output is, literally, a sublist of the TAP_TO_FAKE output (same times, same notes):
it is its hittable part -/
theorem drop_sublist_tap_to_fake (td : TimingData) (notes : List Note) :
    List.Sublist (timeNotes td .dropNote notes) (timeNotes td .tapToFake notes) ∧
    timeNotes td .dropNote notes =
      (timeNotes td .tapToFake notes).filter (fun r => hittable td r.2.beat) :=
  ⟨timeNotes_drop_sublist_fake td notes, by rw [hittable_part, time_notes_drop]⟩

/-- the TAP_TO_FAKE output with its fakes on unhittable beats turned back into taps (`unfake`) is a
sublist of the KEEP_NOTE output (same times) -/
theorem tap_to_fake_sublist_keep (td : TimingData) (notes : List Note) :
    List.Sublist
      ((timeNotes td .tapToFake notes).map fun r =>
        (r.1, if hittable td r.2.beat = true then r.2 else { r.2 with ntype := cTAP }))
      (timeNotes td .keepNote notes) :=
  timeNotes_fake_sublist_keep td notes

/-- the source notes of the DROP_NOTE output: the hittable notes -/
theorem drop_sources (td : TimingData) (notes : List Note) :
    (timeNotes td .dropNote notes).map (·.2) = notes.filter (fun n => hittable td n.beat) := by
  rw [time_notes_drop, List.map_map]
  exact List.map_id _

/-- the source notes of the TAP_TO_FAKE output (an output on an unhittable beat was a tap): the notes
that are hittable or taps -/
theorem tap_to_fake_sources (td : TimingData) (notes : List Note) :
    (timeNotes td .tapToFake notes).map
        (fun r => if hittable td r.2.beat = true then r.2 else { r.2 with ntype := cTAP }) =
      notes.filter (fun n => hittable td n.beat || decide (n.ntype = cTAP)) :=
  timeNotes_fake_sources td notes

/-- the source notes of the KEEP_NOTE output: all the notes -/
theorem keep_sources (td : TimingData) (notes : List Note) :
    (timeNotes td .keepNote notes).map (·.2) = notes := by
  rw [time_notes_keep, List.map_map]
  exact List.map_id _

/-- the chain on source notes: mapping every output back to the note it came from,
DROP ⊆ TAP_TO_FAKE ⊆ KEEP = the input, as sublists (order and multiplicity respected) -/
theorem sources_chain (td : TimingData) (notes : List Note) :
    List.Sublist ((timeNotes td .dropNote notes).map (·.2))
      ((timeNotes td .tapToFake notes).map
        (fun r => if hittable td r.2.beat = true then r.2 else { r.2 with ntype := cTAP })) ∧
    List.Sublist
      ((timeNotes td .tapToFake notes).map
        (fun r => if hittable td r.2.beat = true then r.2 else { r.2 with ntype := cTAP }))
      ((timeNotes td .keepNote notes).map (·.2)) ∧
    (timeNotes td .keepNote notes).map (·.2) = notes := by
  rw [drop_sources, tap_to_fake_sources, keep_sources]
  refine ⟨?_, List.filter_sublist, rfl⟩
  have : notes.filter (fun n => hittable td n.beat) =
      (notes.filter (fun n => hittable td n.beat || decide (n.ntype = cTAP))).filter
        (fun n => hittable td n.beat) := by
    rw [List.filter_filter]
    congr 1
    funext n
    cases hittable td n.beat <;> simp
  rw [this]
  exact List.filter_sublist

/-- lengths: |DROP| ≤ |TAP_TO_FAKE| ≤ |KEEP| = |notes| -/
theorem lengths_chain (td : TimingData) (notes : List Note) :
    (timeNotes td .dropNote notes).length ≤ (timeNotes td .tapToFake notes).length ∧
    (timeNotes td .tapToFake notes).length ≤ (timeNotes td .keepNote notes).length ∧
    (timeNotes td .keepNote notes).length = notes.length := by
  refine ⟨(timeNotes_drop_sublist_fake td notes).length_le, ?_, ?_⟩
  · have := (timeNotes_fake_sublist_keep td notes).length_le
    rwa [List.length_map] at this
  · rw [time_notes_keep, List.length_map]

/-! ### 4. sorted input, sorted times -/

/-- the consumer-level guarantee: if the notes come with non-decreasing beats (as note data does), the
output times are non-decreasing, whatever the option. Needs `C11.Dom td` — the hypothesis of
`C11.monotone` — and nothing else. -/
theorem times_sorted (td : TimingData) (h : C11.Dom td) (opt : Unhittable) (notes : List Note)
    (hs : (notes.map (·.beat)).Pairwise (· ≤ ·)) :
    ((timeNotes td opt notes).map (·.1)).Pairwise (· ≤ ·) := by
  have h1 : (timeNotes td opt notes).map (·.1) =
      ((timeNotes td opt notes).map (·.2.beat)).map (fun b => timeAt td b) := by
    rw [List.map_map]
    apply List.map_congr_left
    intro r hr
    obtain ⟨n, _, ht, he⟩ := (timeNotes_mem_iff td opt notes r).1 hr
    show r.1 = timeAt td r.2.beat
    rw [ht, (emitted_fields he).1]
  have h2 : List.Sublist ((timeNotes td opt notes).map (·.2.beat)) (notes.map (·.beat)) := by
    have := (C13.time_notes_sublist td h opt notes).map (·.1)
    rw [List.map_map, List.map_map] at this
    exact this
  rw [h1]
  apply List.Pairwise.map _ _ (hs.sublist h2)
  intro a b hab
  apply C11.monotone td h
  unfold Spec.keyLE
  rcases lt_or_eq_of_le hab with h3 | h3
  · simp [h3]
  · simp [h3]

/-! ### 5. every output against its source: time, fields, position -/

/-- clause "each with the time of its beat": every output pair carries `timeAt` of its own note's beat,
for the three options and all timing data -/
theorem time_of_own_beat (td : TimingData) (opt : Unhittable) (notes : List Note) :
    ∀ r ∈ timeNotes td opt notes, r.1 = timeAt td r.2.beat := by
  intro r hr
  obtain ⟨n, _, ht, he⟩ := (timeNotes_mem_iff td opt notes r).1 hr
  rw [ht, (emitted_fields he).1]

/-- clauses "in their original order" and "otherwise unchanged (beat, column, type, player, keysound)",
by positions. There is a strictly increasing map `g` from output positions to input positions such that
the `i`-th output comes from the `g i`-th note `n`: it has `n`'s time, beat, column, player and
keysound; it IS `n` when `n` is hittable or the option is KEEP_NOTE, and otherwise (only under
TAP_TO_FAKE, only for an unhittable TAP) it is `n` with type FAKE. Conversely every input position
whose note is hittable, or any note under KEEP_NOTE, or a TAP under TAP_TO_FAKE, is hit by `g`.
This determines the output completely. For all timing data. -/
theorem output_positions (td : TimingData) (opt : Unhittable) (notes : List Note) :
    ∃ g : Nat → Nat, StrictMono g ∧
      (∀ i r, (timeNotes td opt notes)[i]? = some r → ∃ n, notes[g i]? = some n ∧
        r.1 = timeAt td n.beat ∧
        r.2.beat = n.beat ∧ r.2.column = n.column ∧ r.2.player = n.player ∧ r.2.keysound = n.keysound ∧
        ((r.2 = n ∧ (hittable td n.beat = true ∨ opt = .keepNote)) ∨
         (r.2 = { n with ntype := cFAKE } ∧ hittable td n.beat = false ∧ opt = .tapToFake ∧
           n.ntype = cTAP))) ∧
      (∀ j n, notes[j]? = some n →
        (hittable td n.beat = true ∨ opt = .keepNote ∨ (opt = .tapToFake ∧ n.ntype = cTAP)) →
        ∃ i, i < (timeNotes td opt notes).length ∧ g i = j) := by
  obtain ⟨g, hg, h1, h2⟩ := timeNotes_index td opt notes
  refine ⟨g, hg, ?_, ?_⟩
  · intro i r hr
    obtain ⟨n, hn, ht, he⟩ := h1 i r hr
    obtain ⟨f1, f2, f3, f4⟩ := emitted_fields he
    refine ⟨n, hn, ht, f1, f2, f3, f4, ?_⟩
    rcases (emitted_eq_some_iff td opt n r.2).1 he with ⟨a, b⟩ | ⟨_, a, b⟩ | ⟨a, b, c, d⟩
    · exact Or.inl ⟨b, Or.inl a⟩
    · exact Or.inl ⟨b, Or.inr a⟩
    · exact Or.inr ⟨d, a, b, c⟩
  · intro j n hj hc
    apply h2 j n hj
    rw [emitted_isSome]
    rcases hc with h | h | ⟨h, h'⟩
    · simp [h]
    · simp [h]
    · simp [h, h']

/-- `time_notes` works note by note: the empty chart, concatenation, and a single note. Together these
three equations determine the function. -/
theorem note_by_note (td : TimingData) (opt : Unhittable) :
    timeNotes td opt [] = [] ∧
    (∀ l₁ l₂, timeNotes td opt (l₁ ++ l₂) = timeNotes td opt l₁ ++ timeNotes td opt l₂) ∧
    (∀ n, timeNotes td opt [n] =
      if hittable td n.beat = true ∨ opt = .keepNote then [(timeAt td n.beat, n)]
      else if opt = .tapToFake ∧ n.ntype = cTAP then [(timeAt td n.beat, { n with ntype := cFAKE })]
      else []) := by
  refine ⟨rfl, timeNotes_append td opt, ?_⟩
  intro n
  rw [timeNotes_singleton]
  unfold emitted
  cases hittable td n.beat <;> cases opt <;> simp
  split_ifs <;> rfl

/-! ### 6. `hittable` against the raw warp rows and against the coalesced segments -/

/-- clause "unhittable exactly when inside the union of the warp segments (start included, end
excluded) and no stop or delay on that beat", said on the raw rows of `td.warps` (a row `(s, len)` is
the segment `[s, s + round_to_tick len)`), for every rational beat. Hypothesis: `C11.Dom td`, as in
`C13.hittable_spec`. -/
theorem unhittable_iff_warps (td : TimingData) (h : C11.Dom td) (b : Rat) :
    hittable td b = false ↔
      (∃ w ∈ td.warps, w.1 ≤ b ∧ b < w.1 + roundToTick w.2) ∧
      (∀ s ∈ td.stops, s.1 ≠ b) ∧ (∀ d ∈ td.delays, d.1 ≠ b) := by
  rw [C13.hittable_spec td h]
  unfold Spec.hittableSpec Spec.inWarp
  simp only [Bool.not_eq_false', Bool.and_eq_true, Bool.not_eq_true', Bool.or_eq_false_iff,
    List.any_eq_true, List.any_eq_false, decide_eq_true_eq]

/-- the same on the coalesced segments the engine works with: `segs td.warps` pairs the starts and the
ends returned by `coalesceWarps` (`_coalesce_warps`). Under `Dom` these segments are non-empty, pairwise
apart and in increasing order (each ends strictly before the next starts), their union is the union of
the raw rows, and a beat is unhittable exactly when it lies in one of them, `[start, end)`, and carries
no stop and no delay. -/
theorem unhittable_iff_segs (td : TimingData) (h : C11.Dom td) :
    segs td.warps = (coalesceWarps td.warps).1.zip (coalesceWarps td.warps).2 ∧
    (segs td.warps).Pairwise (fun a c => a.2 < c.1) ∧
    (∀ sg ∈ segs td.warps, sg.1 < sg.2) ∧
    (∀ x : Rat, (∃ sg ∈ segs td.warps, sg.1 ≤ x ∧ x < sg.2) ↔
      (∃ w ∈ td.warps, w.1 ≤ x ∧ x < w.1 + roundToTick w.2)) ∧
    (∀ b : Rat, hittable td b = false ↔
      (∃ sg ∈ segs td.warps, sg.1 ≤ b ∧ b < sg.2) ∧
      (∀ s ∈ td.stops, s.1 ≠ b) ∧ (∀ d ∈ td.delays, d.1 ≠ b)) := by
  obtain ⟨s1, s2, s3, _⟩ := segs_spec td.warps h.warps_pos h.warps_sorted
  refine ⟨rfl, s1, s2, s3, ?_⟩
  intro b
  rw [unhittable_iff_warps td h, s3 b]

/-! ### non-vacuity: `C13.sample` (warp [0, 2) with a stop and a delay on beat 1/2 inside it and a BPM
change on beat 1) and a chart with taps, mines and a fake inside and outside the warp, some of them
routine (player 1) and keysounded -/

/-- the sample chart, beats non-decreasing -/
def chart : List Note :=
  [ ⟨1/4, 0, cTAP, 0, none⟩,      -- unhittable tap
    ⟨1/4, 1, cMINE, 1, some 3⟩,   -- unhittable mine
    ⟨1/2, 2, cTAP, 0, none⟩,      -- inside the warp but on the stop: hittable
    ⟨1/2, 3, cMINE, 0, none⟩,     -- likewise
    ⟨1, 0, cTAP, 1, some 7⟩,      -- unhittable routine keysounded tap
    ⟨3/2, 1, cFAKE, 0, none⟩,     -- unhittable fake
    ⟨2, 0, cTAP, 0, none⟩,        -- the end of the warp: hittable
    ⟨3, 1, cMINE, 0, some 1⟩ ]    -- after the warp

example : (chart.map (·.beat)).Pairwise (· ≤ ·) := by decide +kernel

example : chart.map (fun n => hittable C13.sample n.beat) =
    [false, false, true, true, false, false, true, true] := by
  simp only [C13.hittable_spec C13.sample C13.sample_dom]
  decide +kernel

example : timeNotes C13.sample .dropNote chart =
    [ (23/200, ⟨1/2, 2, cTAP, 0, none⟩), (23/200, ⟨1/2, 3, cMINE, 0, none⟩),
      (73/200, ⟨2, 0, cTAP, 0, none⟩), (123/200, ⟨3, 1, cMINE, 0, some 1⟩) ] := by
  rw [C13.time_notes_spec _ C13.sample_dom]
  decide +kernel

/-- the unhittable taps come back as fakes with their player and keysound; the unhittable mine and the
unhittable fake are gone -/
example : timeNotes C13.sample .tapToFake chart =
    [ (-1/100, ⟨1/4, 0, cFAKE, 0, none⟩),
      (23/200, ⟨1/2, 2, cTAP, 0, none⟩), (23/200, ⟨1/2, 3, cMINE, 0, none⟩),
      (73/200, ⟨1, 0, cFAKE, 1, some 7⟩),
      (73/200, ⟨2, 0, cTAP, 0, none⟩), (123/200, ⟨3, 1, cMINE, 0, some 1⟩) ] := by
  rw [C13.time_notes_spec _ C13.sample_dom]
  decide +kernel

example : (timeNotes C13.sample .keepNote chart).map (·.1) =
    [-1/100, -1/100, 23/200, 23/200, 73/200, 73/200, 73/200, 123/200] := by
  rw [C13.time_notes_spec _ C13.sample_dom]
  decide +kernel

/-- the hypotheses of `times_sorted` hold for the sample -/
example : ((timeNotes C13.sample .tapToFake chart).map (·.1)).Pairwise (· ≤ ·) :=
  times_sorted C13.sample C13.sample_dom .tapToFake chart (by decide +kernel)

/-- the three lengths of `lengths_chain` are 4 ≤ 6 ≤ 8 here: both inequalities can be strict -/
example : (timeNotes C13.sample .dropNote chart).length = 4 ∧
    (timeNotes C13.sample .tapToFake chart).length = 6 ∧
    (timeNotes C13.sample .keepNote chart).length = 8 := by
  simp only [C13.time_notes_spec _ C13.sample_dom]
  decide +kernel

/-- the hypothesis of `options_agree` holds for a chart that avoids the bare part of the warp -/
example : ∀ n ∈ [(⟨1/2, 2, cTAP, 0, none⟩ : Note), ⟨2, 0, cTAP, 0, none⟩, ⟨3, 1, cMINE, 0, some 1⟩],
    hittable C13.sample n.beat = true := by
  simp only [C13.hittable_spec C13.sample C13.sample_dom]
  decide +kernel

/-- coalesced segments of overlapping, touching and separate warps; the sample has the single segment -/
example : segs C13.sample.warps = [(0, 2)] ∧
    segs [(0, 1), (1/2, 1), (3/2, 1/4), (4, 2)] = [(0, 7/4), (4, 6)] := by decide +kernel

/-- `unhittable_iff_warps` on the sample: beat 1/4 is inside the warp and bare, beat 1/2 carries the stop -/
example : hittable C13.sample (1/4) = false ∧ hittable C13.sample (1/2) = true := by
  simp only [C13.hittable_spec C13.sample C13.sample_dom]
  decide +kernel

end Simfile.C13More
