/-
C15: timing data comes from exactly one object — the chart exactly when the simfile is an SSC simfile whose
version is at least the split-timing threshold and the SSC chart has a non-empty value under one of the eleven
chart timing keys; offset default; DISPLAYBPM rule.
-/
import Simfile.Lemmas.Source
namespace Simfile.C15
open Simfile Simfile.O Simfile.V Simfile.S

/-! ### 1. the generated constants -/

theorem eleven : T.chartTimingProperties =
    ["BPMS".toList, "STOPS".toList, "DELAYS".toList, "TIMESIGNATURES".toList, "TICKCOUNTS".toList,
     "COMBOS".toList, "WARPS".toList, "SPEEDS".toList, "SCROLLS".toList, "FAKES".toList, "LABELS".toList] := by
  decide

/-- the threshold is the double nearest to 0.7 (just below 7/10) -/
theorem threshold :
    (T.sscVersionSplitTimingNum : Rat) / T.sscVersionSplitTimingDen ≤ 7/10 ∧
    699/1000 < (T.sscVersionSplitTimingNum : Rat) / T.sscVersionSplitTimingDen := by
  norm_num [T.sscVersionSplitTimingNum, T.sscVersionSplitTimingDen]

/-! ### 2. which object is the source -/

/-- the compared version string: the VERSION property, "0" when missing, valueless or empty -/
theorem version_string (sim : Src) :
    versionString sim = match (sim.d.get? "VERSION".toList).join with
      | some (x :: xs) => x :: xs
      | _ => ['0'] := by
  have h : attrGet .sscSimfile sim.d ['v','e','r','s','i','o','n'] = (sim.d.get? "VERSION".toList).join :=
    attrGet_of_find .sscSimfile sim.d _ _ none (by decide)
  unfold versionString; rw [h]
  generalize (sim.d.get? "VERSION".toList).join = o
  cases o with
  | none => rfl
  | some v => cases v <;> rfl

/-- the version test: the string parses as a decimal at least the threshold -/
theorem version_rule (v : Str) :
    versionOK v = .ok true ↔
      ∃ q, parseDecimal v = some q ∧ (T.sscVersionSplitTimingNum : Rat) / T.sscVersionSplitTimingDen ≤ q := by
  unfold versionOK
  cases parseDecimal v with
  | none => simp
  | some q => simp

theorem source_rule (sim : Src) (chart : Option Src) :
    useChart sim chart = .ok true ↔
      sim.kind = .sscSimfile ∧ ∃ c, chart = some c ∧ c.kind = .sscChart ∧
        versionOK (versionString sim) = .ok true ∧
        ∃ key ∈ T.chartTimingProperties, truthy (attrGet .sscChart c.d (chartAttrOfKey key)) = true :=
  useChart_iff sim chart

/-- none of the eleven keys has an alias: the attribute read is the plain key read -/
theorem source_rule_keys (d : Dict) (key : Str) (h : key ∈ T.chartTimingProperties) :
    attrGet .sscChart d (chartAttrOfKey key) = (d.get? key).join := attrGet_chartTiming d key h

/-- the trigger, literally: the chart has a non-empty value under one of the eleven keys -/
theorem source_rule_plain (sim : Src) (chart : Option Src) :
    useChart sim chart = .ok true ↔
      sim.kind = .sscSimfile ∧ ∃ c, chart = some c ∧ c.kind = .sscChart ∧
        versionOK (versionString sim) = .ok true ∧
        ∃ key ∈ T.chartTimingProperties, ∃ x xs, c.d.get? key = some (some (x :: xs)) := by
  rw [source_rule]
  have key_iff : ∀ c : Src, (∃ key ∈ T.chartTimingProperties, truthy (attrGet .sscChart c.d (chartAttrOfKey key)) = true) ↔
      ∃ key ∈ T.chartTimingProperties, ∃ x xs, c.d.get? key = some (some (x :: xs)) := by
    intro c
    constructor
    · rintro ⟨key, hk, ht⟩
      refine ⟨key, hk, ?_⟩
      rw [source_rule_keys c.d key hk] at ht
      cases hg : c.d.get? key with
      | none => rw [hg] at ht; cases ht
      | some o =>
        cases o with
        | none => rw [hg] at ht; cases ht
        | some v =>
          cases v with
          | nil => rw [hg] at ht; cases ht
          | cons x xs => exact ⟨x, xs, rfl⟩
    · rintro ⟨key, hk, x, xs, hg⟩
      refine ⟨key, hk, ?_⟩
      rw [source_rule_keys c.d key hk, hg]; rfl
  constructor
  · rintro ⟨h1, c, h2, h3, h4, h5⟩
    exact ⟨h1, c, h2, h3, h4, (key_iff c).mp h5⟩
  · rintro ⟨h1, c, h2, h3, h4, h5⟩
    exact ⟨h1, c, h2, h3, h4, (key_iff c).mpr h5⟩

/-- the only failure: an SSC simfile with an SSC chart and a version string that is not a decimal -/
theorem source_rule_error (sim : Src) (chart : Option Src) (e : SErr) :
    useChart sim chart = .error e ↔
      sim.kind = .sscSimfile ∧ ∃ c, chart = some c ∧ c.kind = .sscChart ∧
        versionOK (versionString sim) = .error e := useChart_error_iff sim chart e

example : useChart ⟨.sscSimfile, [("VERSION".toList, some "0.83".toList)]⟩
    (some ⟨.sscChart, [("STOPS".toList, some "1=2".toList)]⟩) = .ok true := by decide +kernel
example : useChart ⟨.sscSimfile, [("VERSION".toList, some "0.83".toList)]⟩
    (some ⟨.sscChart, [("STOPS".toList, some "".toList), ("OFFSET".toList, some "1".toList)]⟩) = .ok false := by
  decide +kernel
example : useChart ⟨.sscSimfile, [("VERSION".toList, some "0.69".toList)]⟩
    (some ⟨.sscChart, [("STOPS".toList, some "1=2".toList)]⟩) = .ok false := by decide +kernel

/-! ### 3. one source for every field -/

/-- the timing strings of ONE object -/
def fieldsOf (s : Src) : TDStrings :=
  let a := attrGet s.kind s.d
  { bpms := beatValuesFromStr (a ['b','p','m','s']),
    stops := beatValuesFromStr (a ['s','t','o','p','s']),
    delays := beatValuesFromStr (a ['d','e','l','a','y','s']),
    warps := beatValuesFromStr ((s.d.get? ['W','A','R','P','S']).join),
    offset := match a ['o','f','f','s','e','t'] with
      | some (x :: xs) => parseDecimal (x :: xs)
      | _ => some 0 }

/-- the chosen source is the simfile or the chart, and every field is computed from it alone -/
theorem single_source (sim : Src) (chart : Option Src) (s : Src) (h : timingSource sim chart = .ok s) :
    (s = sim ∨ chart = some s) ∧ timingData sim chart = .ok (fieldsOf s) := by
  refine ⟨?_, ?_⟩
  · rcases timingSource_cases sim chart s h with ⟨_, e⟩ | ⟨_, e⟩
    · exact Or.inl e
    · exact Or.inr e
  · unfold timingData; rw [h]; rfl

/-- which one: the chart exactly when `source_rule` holds -/
theorem source_is (sim : Src) (chart : Option Src) :
    (useChart sim chart = .ok true → ∃ c, chart = some c ∧ timingSource sim chart = .ok c) ∧
    (useChart sim chart = .ok false → timingSource sim chart = .ok sim) ∧
    (∀ e, useChart sim chart = .error e → timingSource sim chart = .error e ∧ timingData sim chart = .error e) := by
  refine ⟨timingSource_of_true sim chart, timingSource_of_false sim chart, fun e he => ?_⟩
  have := timingSource_of_error sim chart e he
  refine ⟨this, ?_⟩
  unfold timingData; rw [this]; rfl

example : timingSource ⟨.sscSimfile, [("VERSION".toList, some "0.83".toList), ("BPMS".toList, some "0=120".toList)]⟩
    (some ⟨.sscChart, [("STOPS".toList, some "1=2".toList)]⟩) = .ok ⟨.sscChart, [("STOPS".toList, some "1=2".toList)]⟩ := by
  decide +kernel

/-! ### 4. offset default -/

/-- no OFFSET key, a valueless one or an empty one: the offset is 0 -/
theorem offset_default (s : Src)
    (h : s.d.get? "OFFSET".toList = none ∨ s.d.get? "OFFSET".toList = some none ∨
      s.d.get? "OFFSET".toList = some (some [])) :
    (fieldsOf s).offset = some 0 := by
  show (match attrGet s.kind s.d ['o','f','f','s','e','t'] with
      | some (x :: xs) => parseDecimal (x :: xs)
      | _ => some 0) = some 0
  rw [attrGet_offset]
  split_ifs
  · rfl
  · have e : "OFFSET".toList = ['O','F','F','S','E','T'] := by decide
    rw [e] at h
    rcases h with h | h | h <;> rw [h] <;> rfl

/-- otherwise it is the parsed OFFSET value (SM charts have no offset attribute) -/
theorem offset_value (s : Src) (hk : s.kind ≠ .smChart) (x : Char) (xs : Str)
    (h : s.d.get? "OFFSET".toList = some (some (x :: xs))) :
    (fieldsOf s).offset = parseDecimal (x :: xs) := by
  show (match attrGet s.kind s.d ['o','f','f','s','e','t'] with
      | some (x :: xs) => parseDecimal (x :: xs)
      | _ => some 0) = _
  rw [attrGet_offset, if_neg hk]
  have e : "OFFSET".toList = ['O','F','F','S','E','T'] := by decide
  rw [e] at h
  rw [h]; rfl

theorem offset_default_timing (sim : Src) (chart : Option Src) (s : Src) (h : timingSource sim chart = .ok s)
    (ho : s.d.get? "OFFSET".toList = none ∨ s.d.get? "OFFSET".toList = some none ∨
      s.d.get? "OFFSET".toList = some (some [])) :
    ∃ td, timingData sim chart = .ok td ∧ td.offset = some 0 :=
  ⟨fieldsOf s, (single_source sim chart s h).2, offset_default s ho⟩

example : (fieldsOf ⟨.smSimfile, [("OFFSET".toList, some "".toList)]⟩).offset = some 0 :=
  offset_default _ (Or.inr (Or.inr (by decide)))

/-! ### 5. DISPLAYBPM -/

theorem displaybpm_random (sim : Src) (chart : Option Src) (s : Src) (h : timingSource sim chart = .ok s)
    (hv : s.d.get? kDISPLAYBPM = some (some ['*'])) : displayBpm sim chart false = .ok .random := by
  rw [displayBpm_eq sim chart false s h, specified_value s _ hv]; rfl

/-- a value without ':' that parses -/
theorem displaybpm_static (sim : Src) (chart : Option Src) (s : Src) (h : timingSource sim chart = .ok s)
    (v : Str) (hv : s.d.get? kDISPLAYBPM = some (some v)) (hc : ':' ∉ v) (x : Rat) (hp : parseDecimal v = some x) :
    displayBpm sim chart false = .ok (.static x) := by
  have hs : v ≠ ['*'] := by rintro rfl; rw [parseDecimal_star] at hp; cases hp
  rw [displayBpm_eq sim chart false s h, specified_value s _ hv, if_neg hs, if_neg hc, hp]

/-- a value `a:b` (split at the FIRST ':') whose two parts parse -/
theorem displaybpm_range (sim : Src) (chart : Option Src) (s : Src) (h : timingSource sim chart = .ok s)
    (a b : Str) (hv : s.d.get? kDISPLAYBPM = some (some (a ++ ':' :: b))) (ha : ':' ∉ a) (x y : Rat)
    (hx : parseDecimal a = some x) (hy : parseDecimal b = some y) :
    displayBpm sim chart false = .ok (.range x y) := by
  have hc : ':' ∈ a ++ ':' :: b := by simp
  have hs : a ++ ':' :: b ≠ ['*'] := by
    intro e; rw [e] at hc; simp at hc
  rw [displayBpm_eq sim chart false s h, specified_value s _ hv, if_neg hs, if_pos hc, partition_first ':' a b ha]
  simp only [hx, hy]

/-- a DISPLAYBPM key without value is a TypeError -/
theorem displaybpm_valueless (sim : Src) (chart : Option Src) (s : Src) (h : timingSource sim chart = .ok s)
    (hv : s.d.get? kDISPLAYBPM = some none) : displayBpm sim chart false = .error .typeError := by
  rw [displayBpm_eq sim chart false s h, specified_none_value s hv]

/-- the cases in which DISPLAYBPM does not decide: absent, ignored, or ill-formed -/
def Undecided (s : Src) (ignore : Bool) : Prop :=
  s.d.contains kDISPLAYBPM = false ∨ ignore = true ∨
  ∃ v, s.d.get? kDISPLAYBPM = some (some v) ∧ v ≠ ['*'] ∧
    ((':' ∈ v ∧ (parseDecimal (partition ':' v).1 = none ∨ parseDecimal (partition ':' v).2.2 = none)) ∨
     (':' ∉ v ∧ parseDecimal v = none))

/-- then the result is computed from the source's BPMS alone -/
theorem displaybpm_fallback (sim : Src) (chart : Option Src) (s : Src) (ignore : Bool)
    (h : timingSource sim chart = .ok s) (hu : Undecided s ignore) :
    displayBpm sim chart ignore = bpmsFallback s := by
  rw [displayBpm_eq sim chart ignore s h]
  rcases hu with hu | hu | ⟨v, hv, hs, hu⟩
  · rw [specified_off s ignore (Or.inl hu)]
  · rw [specified_off s ignore (Or.inr hu)]
  · cases ignore with
    | true => rw [specified_off s true (Or.inr rfl)]
    | false =>
      rw [specified_value s v hv, if_neg hs]
      rcases hu with ⟨hc, hp⟩ | ⟨hc, hp⟩
      · rw [if_pos hc]
        rcases hp with hp | hp
        · rw [hp]
        · rw [hp]; cases parseDecimal (partition ':' v).1 <;> rfl
      · rw [if_neg hc, hp]

/-- one BPM value: static -/
theorem fallback_static (s : Src) (b : Option Str) (r : BVRow) (x : Rat) (hb : s.d.get? kBPMS = some b)
    (hr : beatValuesFromStr b = some [r]) (hx : parseDecimal r.value = some x) :
    bpmsFallback s = .ok (.static x) := by
  unfold bpmsFallback
  rw [hb]; simp only [hr]
  simp [hx]; rfl

/-- several BPM values: the range from the smallest to the largest of them -/
theorem fallback_range (s : Src) (b : Option Str) (rows : List BVRow) (v v' : Rat) (vs : List Rat)
    (hb : s.d.get? kBPMS = some b) (hr : beatValuesFromStr b = some rows)
    (hx : rows.mapM (fun r => parseDecimal r.value) = some (v :: v' :: vs)) :
    ∃ lo hi, bpmsFallback s = .ok (.range lo hi) ∧ lo ∈ v :: v' :: vs ∧ hi ∈ v :: v' :: vs ∧
      ∀ x ∈ v :: v' :: vs, lo ≤ x ∧ x ≤ hi := by
  refine ⟨(v' :: vs).foldl min v, (v' :: vs).foldl max v, ?_, foldl_min_mem v _, foldl_max_mem v _,
    fun x hx => ⟨foldl_min_le v _ x hx, le_foldl_max v _ x hx⟩⟩
  unfold bpmsFallback
  rw [hb]; simp only [hr, hx]; rfl

/-- the failures of the fallback -/
theorem fallback_errors (s : Src) :
    (s.d.get? kBPMS = none → bpmsFallback s = .error .keyError) ∧
    (∀ b, s.d.get? kBPMS = some b → beatValuesFromStr b = none → bpmsFallback s = .error .valueError) ∧
    (∀ b, s.d.get? kBPMS = some b → beatValuesFromStr b = some [] → bpmsFallback s = .error .valueError) := by
  refine ⟨fun h => ?_, fun b hb hr => ?_, fun b hb hr => ?_⟩
  · unfold bpmsFallback; rw [h]; rfl
  · unfold bpmsFallback; rw [hb]; simp only [hr]; rfl
  · unfold bpmsFallback; rw [hb]; simp only [hr]; rfl

example : displayBpm ⟨.smSimfile, [("DISPLAYBPM".toList, some "*".toList)]⟩ none false = .ok .random := by
  decide +kernel
example : displayBpm ⟨.smSimfile, [("DISPLAYBPM".toList, some "120:180".toList)]⟩ none false = .ok (.range 120 180) := by
  decide +kernel
example : displayBpm ⟨.smSimfile, [("DISPLAYBPM".toList, some "150".toList)]⟩ none false = .ok (.static 150) := by
  decide +kernel
example : displayBpm ⟨.smSimfile, [("DISPLAYBPM".toList, some "x".toList), ("BPMS".toList, some "0=120,4=90".toList)]⟩
    none false = .ok (.range 90 120) := by decide +kernel
example : Undecided ⟨.smSimfile, [("DISPLAYBPM".toList, some "x".toList)]⟩ false :=
  Or.inr (Or.inr ⟨"x".toList, by decide, by decide, Or.inr ⟨by decide, by decide +kernel⟩⟩)

/-- the hypotheses of the family are satisfiable together -/
example : ∃ s, timingSource ⟨.smSimfile, [("DISPLAYBPM".toList, some "120:180".toList)]⟩ none = .ok s ∧
    s.d.get? kDISPLAYBPM = some (some ("120".toList ++ ':' :: "180".toList)) ∧ ':' ∉ "120".toList ∧
    parseDecimal "120".toList = some 120 ∧ parseDecimal "180".toList = some 180 :=
  ⟨_, rfl, by decide, by decide, by decide +kernel, by decide +kernel⟩
example : ∃ s rows, timingSource ⟨.smSimfile, [("BPMS".toList, some "0=120,4=90,8=100".toList)]⟩ none = .ok s ∧
    Undecided s false ∧ s.d.get? kBPMS = some (some "0=120,4=90,8=100".toList) ∧
    beatValuesFromStr (some "0=120,4=90,8=100".toList) = some rows ∧
    rows.mapM (fun r => parseDecimal r.value) = some [120, 90, 100] :=
  ⟨_, [⟨0, "120".toList⟩, ⟨4, "90".toList⟩, ⟨8, "100".toList⟩], rfl, Or.inl (by decide), by decide,
    by decide +kernel, by decide +kernel⟩

end Simfile.C15
