import Simfile.Model.Views
import Simfile.Model.Convert
