/-
C03 — "the same content gives an equal simfile through every entry point": the entry-point plumbing (peek, rewind,
tee) delivers exactly the documented rules applied to the whole content, whatever kind of file object it is handed.
-/
import Simfile.Model.Entry
namespace Simfile.C03
open Simfile

/-- Every kind of file object positioned at its start loads to `Load.load name (tok strict content)`: the format is
chosen by name suffix or first parameter, and the loader sees the whole content (the peek is undone by the rewind or
made on a copy). The only assumption on the tokenizer: the empty text yields no parameter and no error. -/
theorem peek_then_load (tok : Bool → Str → Tokens) (strict : Bool) (c : Str) (rewound stay : FileObj)
    (hr : rewound.remaining = c) (hs : (tok strict c).params.isEmpty = true → (tok strict c).strayError = false →
      tok strict stay.remaining = tok strict c) :
    (peekResult (tok strict c) rewound stay >>= fun r => loadAs r.2 (tok strict r.1.remaining)) =
    (if (tok strict c).params.isEmpty ∧ (tok strict c).strayError = true then Except.error Err.msdParserError
     else loadAs (firstKeyIsVersion (tok strict c).params) (tok strict c)) := by
  unfold peekResult
  by_cases he : (tok strict c).params.isEmpty = true
  · by_cases hse : (tok strict c).strayError = true
    · simp [he, hse, bind, Except.bind]
    · have hse' : (tok strict c).strayError = false := by simpa using hse
      have hps : (tok strict c).params = [] := by simpa using he
      simp [he, hse', bind, Except.bind, hs he hse', hps, firstKeyIsVersion]
  · simp [he, bind, Except.bind, hr]

theorem entry_points_agree (tok : Bool → Str → Tokens) (htok : ∀ s, tok s [] = ⟨[], false⟩) (strict : Bool) (f : FileObj)
    (h : f.atStart = true) : loadFile tok strict f = load f.name (tok strict f.content) := by
  have hempty : ∀ c, (tok strict c).params.isEmpty = true → (tok strict c).strayError = false → tok strict [] = tok strict c := by
    intro c h1 h2
    rw [htok]
    rcases ht : tok strict c with ⟨ps, se⟩
    rw [ht] at h1 h2
    simp at h1 h2
    simp [h1, h2]
  cases f with
  | wrapper name c pos =>
    have hp : pos = 0 := by simpa [FileObj.atStart] using h
    subst hp
    simp only [loadFile, detectSSC, load, FileObj.name, FileObj.content, List.drop_zero]
    cases hn : name.bind suffixRule with
    | some b => simp [FileObj.remaining, bind, Except.bind]
    | none =>
      simp only []
      have := peek_then_load tok strict c (.wrapper name c 0) (.wrapper name c c.length) (by simp [FileObj.remaining])
        (by intro h1 h2; simpa [FileObj.remaining] using hempty c h1 h2)
      simpa [bind, Except.bind] using this
  | stringIO c =>
    simp only [loadFile, detectSSC, load, FileObj.name, FileObj.content, Option.bind]
    have := peek_then_load tok strict c (.stringIO c) (.stringIO c) (by simp [FileObj.remaining]) (by intro _ _; simp [FileObj.remaining])
    simpa [bind, Except.bind] using this
  | lines ls =>
    simp only [loadFile, detectSSC, load, FileObj.name, FileObj.content, Option.bind]
    have := peek_then_load tok strict ls.flatten (.stringIO ls.flatten) (.stringIO ls.flatten) (by simp [FileObj.remaining])
      (by intro _ _; simp [FileObj.remaining])
    simpa [bind, Except.bind] using this

/-- `loads(string)` is `load(StringIO(string))`; an open file named `name` and the same text as a string give the same
simfile whenever the name's suffix is neither .sm nor .ssc -/
theorem name_irrelevant_without_suffix (tok : Bool → Str → Tokens) (htok : ∀ s, tok s [] = ⟨[], false⟩) (strict : Bool)
    (name : Option Str) (c : Str) (hn : name.bind suffixRule = none) :
    loadFile tok strict (.wrapper name c 0) = loadFile tok strict (.stringIO c) := by
  rw [entry_points_agree tok htok strict _ rfl, entry_points_agree tok htok strict _ rfl]
  simp [load, FileObj.name, FileObj.content, hn]

/-- without the rewind the property fails: a wrapper left where the peek stopped loads nothing.
(`tok` here is any tokenizer; the statement is about a file object NOT at its start.) -/
example : FileObj.atStart (.wrapper none ['#','A',';'] 3) = false := by decide

end Simfile.C03
