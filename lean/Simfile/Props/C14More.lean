/-
C14, round 2 — additions answering the audit (part D, findings F1–F6):
 1. banker's rounding pinned (tie rule; distance 1/96 exactly at ties; true nearest; idempotence);
 2. laws of `floorDiv` / `pyMod` and closure of the tick grid under the operators;
 3. the operator wrappers of `Beat` (NEW model definitions in Lemmas/BeatMoreArith.lean) are exact rational arithmetic;
 4. the printer slack lifted to text and tables, for any printer within the slack; `timingData` composed with the
    BeatValues round trip;
 5. the `.pair n 0` case of `mkBeat` documented as a model/implementation difference.
Helper lemmas: Simfile/Lemmas/BeatMoreRound.lean, BeatMoreArith.lean, BeatMoreText.lean.
-/
import Simfile.Props.C14
import Simfile.Lemmas.BeatMoreRound
import Simfile.Lemmas.BeatMoreArith
import Simfile.Lemmas.BeatMoreText
namespace Simfile.C14More
open Simfile

/-! ### 1. rounding: half-way cases go to the even tick (F3) -/

/-- Clause "nearest multiple of 1/48", tie rule (Python's `round` on a Fraction is round-half-even): a value
exactly half-way between the ticks `k/48` and `(k+1)/48` becomes the one with the EVEN numerator. Fails for
round-half-up and for round-half-down. -/
theorem round_tie_even (x : Rat) (k : Int) (h : x * 48 = (k : Rat) + 1 / 2) :
    mkBeat (.inexact x) = ((if k % 2 = 0 then k else k + 1 : Int) : Rat) / 48 ∧
    (if k % 2 = 0 then k else k + 1) % 2 = 0 := by
  refine ⟨roundToTick_tie x k h, ?_⟩
  split_ifs with e <;> omega

/-- the same with the half-way point written out: `(2k+1)/96` -/
theorem round_tie_even' (k : Int) :
    roundToTick (((2 * k + 1 : Int) : Rat) / 96) = ((if k % 2 = 0 then k else k + 1 : Int) : Rat) / 48 :=
  roundToTick_tie _ k (by push_cast; ring)

-- `Beat(Fraction(1,96)).round_to_tick() == 0`, `Beat(Fraction(3,96)).round_to_tick() == Beat(2,48)`,
-- `Fraction(5,96) → 2/48`, `Fraction(-1,96) → 0`, `Fraction(-3,96) → -2/48` (observed with /venv/bin/python)
example : roundToTick (1 / 96) = 0 := by
  have := round_tie_even' 0; norm_num at this; exact this
example : roundToTick (3 / 96) = 2 / 48 := by
  have := round_tie_even' 1; norm_num at this ⊢; exact this
example : roundToTick (5 / 96) = 2 / 48 := by
  have := round_tie_even' 2; norm_num at this ⊢; exact this
example : roundToTick (-1 / 96) = 0 := by
  have := round_tie_even' (-1); norm_num at this ⊢; exact this
example : roundToTick (-3 / 96) = -2 / 48 := by
  have := round_tie_even' (-2); norm_num at this ⊢; exact this
-- the model function itself evaluates to the same (kernel computation)
example : roundToTick (1 / 96) = 0 ∧ roundToTick (3 / 96) = 1 / 24 ∧ roundToTick (-3 / 96) = -1 / 24 := by
  decide +kernel

/-- Clause "never more than 1/96 away": the bound, and it is attained exactly at the half-way points. -/
theorem round_nearest_or_tie (x : Rat) :
    |mkBeat (.inexact x) - x| ≤ 1 / 96 ∧
    (|mkBeat (.inexact x) - x| = 1 / 96 ↔ ∃ k : Int, x * 48 = (k : Rat) + 1 / 2) :=
  ⟨roundToTick_near x, roundToTick_dist_iff x⟩

/-- Clause "the nearest multiple of 1/48", literally: no tick `m/48` is closer to `x`. -/
theorem round_true_nearest (x : Rat) (m : Int) : |mkBeat (.inexact x) - x| ≤ |(m : Rat) / 48 - x| :=
  roundToTick_nearest x m

/-- … and away from half-way points it is the ONLY tick within 1/96 -/
theorem round_nearest_unique (x : Rat) (m : Int) (hx : ¬ ∃ k : Int, x * 48 = (k : Rat) + 1 / 2)
    (hm : |(m : Rat) / 48 - x| ≤ 1 / 96) : mkBeat (.inexact x) = (m : Rat) / 48 := by
  have hlt : |x - (m : Rat) / 48| < 1 / 96 := by
    rw [abs_sub_comm]
    refine lt_of_le_of_ne hm ?_
    intro e
    apply hx
    rw [abs_eq (by norm_num)] at e
    rcases e with e | e
    · exact ⟨m - 1, by push_cast; linarith⟩
    · exact ⟨m, by linarith⟩
  exact C14.round_unique m x hlt

/-- rounding twice is rounding once (`Beat.from_str` = `Beat(s).round_to_tick()` rounds twice), and the grid
beats are exactly the fixed points of rounding -/
theorem round_idempotent (x : Rat) :
    roundToTick (roundToTick x) = roundToTick x ∧ (onGrid x ↔ roundToTick x = x) :=
  ⟨roundToTick_idem x, onGrid_iff_fixed x⟩

example : ∃ k : Int, (7 / 96 : Rat) * 48 = (k : Rat) + 1 / 2 := ⟨3, by norm_num⟩
example : ¬ ∃ k : Int, (3 / 10 : Rat) * 48 = (k : Rat) + 1 / 2 := by
  rintro ⟨k, h⟩
  have h2 : ((10 * k : Int) : Rat) = 139 := by push_cast; linarith
  have h3 : 10 * k = 139 := by exact_mod_cast h2
  omega

/-! ### 2. floor division and remainder (Python `//`, `%`, `divmod` on Fractions) (F2) -/

/-- the division equation, the value of the quotient, the range of the remainder (sign of the divisor), and
uniqueness: any integer `q` and remainder `r` in range with `a = q*b + r` are the model's. -/
theorem floordiv_mod_laws (a b : Rat) :
    a = (floorDiv a b : Rat) * b + pyMod a b ∧
    floorDiv a b = ⌊a / b⌋ ∧
    (0 < b → 0 ≤ pyMod a b ∧ pyMod a b < b) ∧
    (b < 0 → b < pyMod a b ∧ pyMod a b ≤ 0) ∧
    (∀ (q : Int) (r : Rat), 0 < b → a = (q : Rat) * b + r → 0 ≤ r → r < b → floorDiv a b = q ∧ pyMod a b = r) ∧
    (∀ (q : Int) (r : Rat), b < 0 → a = (q : Rat) * b + r → r ≤ 0 → b < r → floorDiv a b = q ∧ pyMod a b = r) :=
  ⟨floorDiv_pyMod a b, rfl, fun h => ⟨pyMod_nonneg a b h, pyMod_lt a b h⟩,
    fun h => ⟨pyMod_gt a b h, pyMod_nonpos a b h⟩,
    fun q r hb h h0 h1 => floorDiv_unique a b q r hb h h0 h1,
    fun q r hb h h0 h1 => floorDiv_unique_neg a b q r hb h h0 h1⟩

/-- on whole numbers with a positive divisor it is the integer remainder (the measure row `beat % 4` of C08) -/
theorem mod_of_integers (m n : Int) (hn : 0 < n) : pyMod (m : Rat) (n : Rat) = ((m % n : Int) : Rat) :=
  pyMod_int m n hn

-- `divmod(Beat(-7,3), Beat(1,2)) == (-5, Beat(1,6))`, `divmod(Beat(7,3), Beat(-1,2)) == (-5, Beat(-1,6))` (observed)
example : floorDiv (-7 / 3) (1 / 2) = -5 ∧ pyMod (-7 / 3) (1 / 2) = 1 / 6 :=
  floorDiv_unique _ _ (-5) (1 / 6) (by norm_num) (by norm_num) (by norm_num) (by norm_num)
example : floorDiv (7 / 3) (-1 / 2) = -5 ∧ pyMod (7 / 3) (-1 / 2) = -1 / 6 :=
  floorDiv_unique_neg _ _ (-5) (-1 / 6) (by norm_num) (by norm_num) (by norm_num) (by norm_num)
example : pyMod (-7) 4 = 1 := by have := mod_of_integers (-7) 4 (by norm_num); norm_num at this; exact this

/-- The tick grid is closed under sum, difference, negation, absolute value, integer multiples and remainder
(by a grid beat of either sign); every integer is on it. -/
theorem grid_closed (a b : Rat) (k : Int) (ha : onGrid a) (hb : onGrid b) :
    onGrid (a + b) ∧ onGrid (a - b) ∧ onGrid (-a) ∧ onGrid |a| ∧ onGrid ((k : Rat) * a) ∧ onGrid (a * (k : Rat)) ∧
    onGrid (pyMod a b) ∧ onGrid (k : Rat) :=
  ⟨onGrid_add ha hb, onGrid_sub ha hb, onGrid_neg ha, onGrid_abs ha, onGrid_int_mul k ha, onGrid_mul_int k ha,
    onGrid_pyMod ha hb, onGrid_int k⟩

/-- NOT closed under product and quotient: counter-examples
(`Beat(1,48)*Beat(1,48) == Fraction(1,2304)`, `Beat(1,48)/3 == Fraction(1,144)`, observed). -/
theorem grid_not_closed_mul_div :
    onGrid (1 / 48) ∧ onGrid 3 ∧ ¬ onGrid ((1 / 48 : Rat) * (1 / 48)) ∧ ¬ onGrid ((1 / 48 : Rat) / 3) :=
  ⟨onGrid_of_den 1 (by norm_num), onGrid_int 3,
    not_onGrid_of_between 0 (by norm_num) (by norm_num), not_onGrid_of_between 0 (by norm_num) (by norm_num)⟩

/-! ### 3. the operator wrappers: exact rational arithmetic, never rounded (F2)

`beatBin`, `beatRBin`, `beatDivmod`, `beatFloorDiv`, `beatNeg`, `beatPos`, `beatAbs`, `beatPowInt` are NEW model
definitions (Lemmas/BeatMoreArith.lean) that still need a differential tie. `**` with a non-integer exponent and
`float` operands are not rational arithmetic in Python and are left out. -/

/-- Clause "arithmetic between beats and with integers or fractions is exact rational arithmetic": each wrapped
operator returns exactly the rational result (no snapping to the grid, whatever the operands), division by zero
raises, and nothing else does. -/
theorem arith_exact (a b : Rat) :
    beatBin .add a b = some (a + b) ∧ beatBin .sub a b = some (a - b) ∧ beatBin .mul a b = some (a * b) ∧
    beatNeg a = -a ∧ beatPos a = a ∧ beatAbs a = |a| ∧
    (b ≠ 0 → beatBin .truediv a b = some (a / b) ∧ beatBin .mod a b = some (a - b * (⌊a / b⌋ : Rat)) ∧
      beatFloorDiv a b = some ⌊a / b⌋ ∧ beatDivmod a b = some (⌊a / b⌋, a - b * (⌊a / b⌋ : Rat))) ∧
    (b = 0 → beatBin .truediv a b = none ∧ beatBin .mod a b = none ∧ beatFloorDiv a b = none ∧
      beatDivmod a b = none) := by
  refine ⟨rfl, rfl, rfl, rfl, rfl, rfl, fun hb => ?_, fun hb => ?_⟩
  · refine ⟨?_, ?_, ?_, ?_⟩
    · simp only [beatBin, fractionBin, if_neg hb, Option.map_some, mkBeat]
    · simp only [beatBin, fractionBin, if_neg hb, Option.map_some, mkBeat, pyMod]; rfl
    · simp only [beatFloorDiv, if_neg hb, floorDiv]; rfl
    · simp only [beatDivmod, if_neg hb, mkBeat, pyMod, floorDiv]; rfl
  · refine ⟨?_, ?_, ?_, ?_⟩
    · simp only [beatBin, fractionBin, if_pos hb, Option.map_none]
    · simp only [beatBin, fractionBin, if_pos hb, Option.map_none]
    · simp only [beatFloorDiv, if_pos hb]
    · simp only [beatDivmod, if_pos hb]

/-- the reflected operators (`int + beat`, `fraction / beat`, …) are the same operations with the operands swapped -/
theorem arith_reflected (op : BeatBinOp) (self other : Rat) : beatRBin op self other = beatBin op other self := rfl

/-- `divmod`: whatever it returns satisfies the division equation with the remainder in the divisor's range -/
theorem divmod_spec (a b : Rat) (q : Int) (r : Rat) (h : beatDivmod a b = some (q, r)) :
    b ≠ 0 ∧ a = (q : Rat) * b + r ∧ (0 < b → 0 ≤ r ∧ r < b) ∧ (b < 0 → b < r ∧ r ≤ 0) ∧
    beatFloorDiv a b = some q ∧ beatBin .mod a b = some r := by
  unfold beatDivmod at h
  split_ifs at h with hb
  simp only [Option.some.injEq, Prod.mk.injEq, mkBeat] at h
  obtain ⟨rfl, rfl⟩ := h
  refine ⟨hb, floorDiv_pyMod a b, fun h => ⟨pyMod_nonneg a b h, pyMod_lt a b h⟩,
    fun h => ⟨pyMod_gt a b h, pyMod_nonpos a b h⟩, ?_, ?_⟩
  · simp [beatFloorDiv, hb]
  · simp [beatBin, fractionBin, hb, mkBeat]

/-- integer powers are exact; `0 ** negative` raises -/
theorem pow_int_exact (a : Rat) (n : Int) :
    (¬ (a = 0 ∧ n < 0) → beatPowInt a n = some (a ^ n)) ∧ (a = 0 → n < 0 → beatPowInt a n = none) := by
  constructor
  · intro h; simp only [beatPowInt, if_neg h, mkBeat]
  · intro h1 h2; simp only [beatPowInt, if_pos (And.intro h1 h2)]

/-- results of the operators on grid beats: on the grid for `+ - % neg abs` (and the quotient of `//` is an
integer); the product is exact and may leave the grid -/
theorem arith_grid (a b : Rat) (ha : onGrid a) (hb : onGrid b) :
    (∀ op ∈ [BeatBinOp.add, .sub, .mod], ∀ r, beatBin op a b = some r → onGrid r) ∧
    onGrid (beatNeg a) ∧ onGrid (beatAbs a) ∧ onGrid (beatPos a) := by
  refine ⟨?_, onGrid_neg ha, onGrid_abs ha, ha⟩
  intro op hop r hr
  simp only [List.mem_cons, List.not_mem_nil, or_false] at hop
  rcases hop with rfl | rfl | rfl
  · cases hr; exact onGrid_add ha hb
  · cases hr; exact onGrid_sub ha hb
  · simp only [beatBin, fractionBin] at hr
    split_ifs at hr with h0
    · cases hr
    · cases hr; exact onGrid_pyMod ha hb

-- observed: Beat(1,3)+Beat(7,48) == 23/48; Beat(1,3)*Beat(7,48) == 7/144 (off the grid, not snapped);
-- Beat(1,3)/Beat(7,48) == 16/7; Beat(1,3) % Beat(7,48) == 1/24; 2 - Beat(1,3) == 5/3; Fraction(5,7) % Beat(1,3) == 1/21
example : beatBin .add (1 / 3) (7 / 48) = some (23 / 48) := by rw [(arith_exact _ _).1]; norm_num
example : beatBin .mul (1 / 3) (7 / 48) = some (7 / 144) ∧ ¬ onGrid (7 / 144) :=
  ⟨by rw [(arith_exact _ _).2.2.1]; norm_num, not_onGrid_of_between 2 (by norm_num) (by norm_num)⟩
example : beatBin .truediv (1 / 3) (7 / 48) = some (16 / 7) := by
  rw [((arith_exact (1 / 3) (7 / 48)).2.2.2.2.2.2.1 (by norm_num)).1]; norm_num
example : beatRBin .sub (1 / 3) 2 = some (5 / 3) := by rw [arith_reflected, (arith_exact _ _).2.1]; norm_num
example : beatDivmod (1 / 3) (7 / 48) = some (2, 1 / 24) := by decide +kernel
example : beatRBin .mod (1 / 3) (5 / 7) = some (1 / 21) := by decide +kernel
example : beatDivmod 1 0 = none ∧ beatPowInt 0 (-1) = none ∧ beatPowInt (1 / 3) (-2) = some 9 := by decide +kernel

/-! ### 4. the printer slack, on text and on tables; `timingData` (F4, F6) -/

/-- Clause "writing a tick-aligned beat in its three-decimal form and reading it back returns the same beat", for
the beat obtained from ANY inexact input `x`: `Beat.from_str(str(Beat(x))) == Beat(x)`. -/
theorem str_roundtrip_any (x : Rat) :
    beatFromStr (beatToStr (mkBeat (.inexact x))) = some (mkBeat (.inexact x)) := by
  obtain ⟨n, hn⟩ := (onGrid_iff _).mp (roundToTick_onGrid x)
  show beatFromStr (beatToStr (roundToTick x)) = some (roundToTick x)
  rw [hn]
  exact C14.beat_text_roundtrip n

/-- The slack theorem on TEXT: whatever text a printer produces for the tick `n/48` — as long as it reads as a
decimal within 6/10000 of the tick (the three-decimal rounding costs 5/10000; the rest is room for the error of
`float(beat)`) — `Beat.from_str` returns exactly that tick. -/
theorem printer_slack_text (n : Int) (text : Str) (d : Rat) (hd : parseDecimal text = some d)
    (h : |d - (n : Rat) / 48| ≤ 6 / 10000) : beatFromStr text = some ((n : Rat) / 48) := by
  simp only [beatFromStr, hd, Option.map_some, roundToTick_of_close n d h]

/-- The slack theorem on TABLES: a table of grid beats and `TokenOK` values written with ANY printer that is
within the slack (`PrinterOK`: on grid beats no ',' '=' or leading blank in the text, value within 6/10000) in
the layout of `BeatValues.__str__` reads back unchanged. -/
theorem printer_slack_table (pr : Rat → Str) (hpr : PrinterOK pr) (rows : List BVRow)
    (h : ∀ r ∈ rows, onGrid r.beat ∧ TokenOK r.value) :
    beatValuesFromStr (some (joinWith [',', '\n'] (rows.map fun r => pr r.beat ++ '=' :: r.value))) = some rows :=
  beatValues_printed pr hpr rows h

/-- the model's own printer is one such printer, and then the table text is `BeatValues.__str__` -/
theorem model_printer_ok : PrinterOK beatToStr ∧ ∀ rows, tableText beatToStr rows = beatValuesToStr rows :=
  ⟨printerOK_beatToStr, tableText_beatToStr⟩

-- non-vacuity of the slack hypothesis away from the model printer's own output: a text 6/10000 above the tick 7/48
-- (0.14583… + 0.0006 = 0.1464…) still reads as 7/48
example : |((7 : Rat) / 48 + 6 / 10000) - ((7 : Int) : Rat) / 48| ≤ 6 / 10000 := by
  rw [abs_le]; constructor <;> norm_num
example : beatFromStr "0.1464".toList = some (7 / 48) := by
  have hp : parseDecimal "0.1464".toList = some (1464 / 10000) := by decide +kernel
  have := printer_slack_text 7 "0.1464".toList _ hp (by rw [abs_le]; constructor <;> norm_num)
  simpa using this

/-- Clause "this is how the BPMS, STOPS, DELAYS, WARPS and OFFSET strings of a simfile reach the timing engine":
with a simfile as first argument, each field of `TimingData` is `BeatValues.from_str` of the text stored under ONE
key of the chosen source (`stopsKey`: STOPS, or FREEZES for an SM simfile that has only FREEZES; a missing or
valueless key reads as the empty table), and the offset is the decimal under OFFSET (0 when missing or empty). -/
theorem timing_data_reads (sim : Src) (chart : Option Src) (s : Src)
    (hsim : sim.kind = .smSimfile ∨ sim.kind = .sscSimfile) (h : timingSource sim chart = .ok s) :
    timingData sim chart = .ok
      { bpms := beatValuesFromStr (s.d.get? "BPMS".toList).join,
        stops := beatValuesFromStr (s.d.get? (stopsKey s)).join,
        delays := beatValuesFromStr (s.d.get? "DELAYS".toList).join,
        warps := beatValuesFromStr (s.d.get? "WARPS".toList).join,
        offset := offsetRule (s.d.get? "OFFSET".toList).join } :=
  timingData_reads sim chart s hsim h

/-- … composed with the round trip: if the source's BPMS/STOPS/DELAYS/WARPS strings are the printed forms
(`BeatValues.__str__`) of event lists with grid beats and `TokenOK` values, and OFFSET holds a decimal literal,
then `TimingData` holds exactly those lists and that decimal. -/
theorem timing_data_of_printed (sim : Src) (chart : Option Src) (s : Src)
    (hsim : sim.kind = .smSimfile ∨ sim.kind = .sscSimfile) (hs : timingSource sim chart = .ok s)
    (bpms stops delays warps : List BVRow)
    (hg : ∀ r ∈ bpms ++ stops ++ delays ++ warps, onGrid r.beat ∧ TokenOK r.value)
    (hb : s.d.get? "BPMS".toList = some (some (beatValuesToStr bpms)))
    (hst : s.d.get? "STOPS".toList = some (some (beatValuesToStr stops)))
    (hd : s.d.get? "DELAYS".toList = some (some (beatValuesToStr delays)))
    (hw : s.d.get? "WARPS".toList = some (some (beatValuesToStr warps)))
    (off : Str) (q : Rat) (ho : s.d.get? "OFFSET".toList = some (some off)) (hq : parseDecimal off = some q) :
    timingData sim chart = .ok
      { bpms := some bpms, stops := some stops, delays := some delays, warps := some warps, offset := some q } := by
  have hk : stopsKey s = "STOPS".toList := stopsKey_of_present s _ hst
  rw [timing_data_reads sim chart s hsim hs, hk, hb, hst, hd, hw, ho]
  simp only [Option.join_some]
  rw [C14.beatvalues_roundtrip bpms (fun r hr => hg r (by simp [hr])),
    C14.beatvalues_roundtrip stops (fun r hr => hg r (by simp [hr])),
    C14.beatvalues_roundtrip delays (fun r hr => hg r (by simp [hr])),
    C14.beatvalues_roundtrip warps (fun r hr => hg r (by simp [hr])),
    offsetRule_of_parse off q hq]

/-- the same for tables written by ANY printer within the slack (e.g. CPython's, under the single trusted
assumption `PrinterOK`) -/
theorem timing_data_of_printed_any (pr : Rat → Str) (hpr : PrinterOK pr) (sim : Src) (chart : Option Src) (s : Src)
    (hsim : sim.kind = .smSimfile ∨ sim.kind = .sscSimfile) (hs : timingSource sim chart = .ok s)
    (bpms stops delays warps : List BVRow)
    (hg : ∀ r ∈ bpms ++ stops ++ delays ++ warps, onGrid r.beat ∧ TokenOK r.value)
    (hb : s.d.get? "BPMS".toList = some (some (tableText pr bpms)))
    (hst : s.d.get? "STOPS".toList = some (some (tableText pr stops)))
    (hd : s.d.get? "DELAYS".toList = some (some (tableText pr delays)))
    (hw : s.d.get? "WARPS".toList = some (some (tableText pr warps)))
    (off : Str) (q : Rat) (ho : s.d.get? "OFFSET".toList = some (some off)) (hq : parseDecimal off = some q) :
    timingData sim chart = .ok
      { bpms := some bpms, stops := some stops, delays := some delays, warps := some warps, offset := some q } := by
  have hk : stopsKey s = "STOPS".toList := stopsKey_of_present s _ hst
  rw [timing_data_reads sim chart s hsim hs, hk, hb, hst, hd, hw, ho]
  simp only [Option.join_some]
  rw [beatValues_printed pr hpr bpms (fun r hr => hg r (by simp [hr])),
    beatValues_printed pr hpr stops (fun r hr => hg r (by simp [hr])),
    beatValues_printed pr hpr delays (fun r hr => hg r (by simp [hr])),
    beatValues_printed pr hpr warps (fun r hr => hg r (by simp [hr])),
    offsetRule_of_parse off q hq]

/-- an SM simfile with only FREEZES: the stops come from there -/
theorem timing_data_freezes (sim : Src) (hsm : sim.kind = .smSimfile)
    (h1 : sim.d.get? "STOPS".toList = none) (v : Option Str) (h2 : sim.d.get? "FREEZES".toList = some v) :
    ∃ td, timingData sim none = .ok td ∧ td.stops = beatValuesFromStr v := by
  have hs : timingSource sim none = .ok sim := by
    unfold timingSource useChart; rw [hsm]; rfl
  refine ⟨_, timing_data_reads sim none sim (Or.inl hsm) hs, ?_⟩
  have hk : stopsKey sim = "FREEZES".toList := by
    unfold stopsKey
    have e1 : sim.d.contains ['S','T','O','P','S'] = false := by
      rw [O.contains_eq]; rw [show ['S','T','O','P','S'] = "STOPS".toList by decide, h1]; rfl
    have e2 : sim.d.contains ['F','R','E','E','Z','E','S'] = true := by
      rw [O.contains_eq]; rw [show ['F','R','E','E','Z','E','S'] = "FREEZES".toList by decide, h2]; rfl
    rw [if_pos ⟨hsm, e1, e2⟩]; decide
  show beatValuesFromStr (sim.d.get? (stopsKey sim)).join = _
  rw [hk, h2]; rfl

-- non-vacuity: a concrete SM simfile whose strings are printed tables (one empty), and what `timingData` gives
private def exBpms : List BVRow := [⟨0, "120".toList⟩, ⟨193 / 48, "60.5".toList⟩]
private def exStops : List BVRow := [⟨-1 / 48, "0.25".toList⟩]
private def exSim : Src := ⟨.smSimfile,
  [("OFFSET".toList, some "-0.009".toList), ("BPMS".toList, some "0.000=120,\n4.021=60.5".toList),
   ("STOPS".toList, some "-0.021=0.25".toList), ("DELAYS".toList, some "".toList), ("WARPS".toList, some "".toList)]⟩
private theorem exGrid : ∀ r ∈ exBpms ++ exStops ++ [] ++ [], onGrid r.beat ∧ TokenOK r.value := by
  intro r hr
  simp only [exBpms, exStops, List.cons_append, List.nil_append, List.append_nil, List.mem_cons,
    List.not_mem_nil, or_false] at hr
  rcases hr with rfl | rfl | rfl
  · exact ⟨onGrid_of_den 0 (by norm_num), by decide⟩
  · exact ⟨onGrid_of_den 193 (by norm_num), by decide⟩
  · exact ⟨onGrid_of_den (-1) (by norm_num), by decide⟩
example : timingData exSim none = .ok
    { bpms := some exBpms, stops := some exStops, delays := some [], warps := some [], offset := some (-9 / 1000) } :=
  timing_data_of_printed exSim none exSim (Or.inl rfl) (by decide +kernel) exBpms exStops [] [] exGrid
    (by decide +kernel) (by decide +kernel) (by decide +kernel) (by decide +kernel)
    "-0.009".toList (-9 / 1000) (by decide +kernel) (by decide +kernel)

/-! ### 5. `Beat(n, 0)` (F1) -/

/-- MODEL ≠ IMPLEMENTATION, documented: the model's `.pair n 0` is the beat 0 (Lean's `x / 0 = 0`), where
`Beat(n, 0)` raises `ZeroDivisionError: Fraction(n, 0)` (observed). The constructor comment of `BeatInput.pair`
says `d ≠ 0` but `mkBeat` has no such hypothesis, so `C14.exact` also "holds" at `d = 0`. -/
theorem pair_zero_differs (n : Int) : mkBeat (.pair n 0) = 0 := by
  simp [mkBeat]

/-- for a non-zero denominator the pair is the exact quotient, in lowest terms or not -/
theorem pair_exact (n : Int) (d : Nat) (hd : d ≠ 0) :
    mkBeat (.pair n d) * (d : Rat) = (n : Rat) ∧ (onGrid (mkBeat (.pair n d)) ↔ ∃ m : Int, 48 * n = m * d) := by
  have hd' : (d : Rat) ≠ 0 := by exact_mod_cast hd
  refine ⟨by simp only [mkBeat]; field_simp, ?_⟩
  rw [onGrid_iff]
  simp only [mkBeat]
  constructor
  · rintro ⟨m, hm⟩
    refine ⟨m, ?_⟩
    rw [div_eq_div_iff hd' (by norm_num)] at hm
    have : ((48 * n : Int) : Rat) = ((m * d : Int) : Rat) := by push_cast; linarith
    exact_mod_cast this
  · rintro ⟨m, hm⟩
    refine ⟨m, ?_⟩
    rw [div_eq_div_iff hd' (by norm_num)]
    have : ((48 * n : Int) : Rat) = ((m * d : Int) : Rat) := by rw [hm]
    push_cast at this; linarith

example : mkBeat (.pair 7 0) = 0 := pair_zero_differs 7
example : mkBeat (.pair 1 3) = 16 / 48 := by simp only [mkBeat]; norm_num

end Simfile.C14More
