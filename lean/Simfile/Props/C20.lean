/-
C20 — assets: which file an asset property resolves to, and the pack banner.
Vocabulary (Simfile/Lemmas/DirAssets.lean):
  `AssetL.kindModelled kind` : the kind is in `T.assetDefinitions` and all its presets compile
  `AssetL.firstWithExt listing ext = listing.find? fun item => endsWith (lower item) ext`
-/
import Simfile.Lemmas.DirAssets
namespace Simfile.C20
open Simfile Simfile.AssetL

/-! ### 15. every preset of the table is inside the modelled regex fragment -/

theorem kinds : T.assetDefinitions.map (·.1) =
    ["BANNER".toList, "BACKGROUND".toList, "CDTITLE".toList, "JACKET".toList, "CDIMAGE".toList,
     "DISC".toList, "MUSIC".toList] := by decide

theorem presets_modelled : ∀ d ∈ T.assetDefinitions, ∀ p ∈ d.2.1, compilePreset p ≠ none := by
  decide +kernel

theorem kinds_modelled : ∀ kind ∈ T.assetDefinitions.map (·.1), kindModelled kind = true := by
  decide +kernel

/-- so `assetMatches` answers for each of the seven kinds -/
theorem assetMatches_total (kind : Str) (hk : kind ∈ T.assetDefinitions.map (·.1)) (name : Str) :
    assetMatches kind name ≠ none := by
  rw [assetMatches_of_modelled (kinds_modelled kind hk)]
  simp

/-- and for no other kind -/
theorem assetMatches_unknown (kind : Str) (hk : kind ∉ T.assetDefinitions.map (·.1)) (name : Str) :
    assetMatches kind name = none := by
  apply assetMatches_none_of_not_modelled
  unfold kindModelled
  have : T.assetDefinitions.find? (·.1 = kind) = none := by
    rw [List.find?_eq_none]
    intro d hd h
    apply hk
    simp only [decide_eq_true_eq] at h
    rw [← h]
    exact List.mem_map.mpr ⟨d, hd, rfl⟩
  rw [this]

-- the compiled forms, for the record
example : compilePreset "bn$".toList = some (.endsWith_ "bn".toList) := by decide +kernel
example : compilePreset "^jk_".toList = some (.startsWith_ "jk_".toList) := by decide +kernel
example : compilePreset "banner".toList = some (.contains_ "banner".toList) := by decide +kernel
example : compilePreset " disc$".toList = some (.endsWith_ " disc".toList) := by decide +kernel
example : compilePreset "a.b".toList = none := by decide +kernel

/-! ### 16. a specified file that exists (case-insensitively) wins -/

theorem specified (kind : Str) (c : Char) (cs : Str) (containing : Option (List Str)) (file item : Str)
    (dirlist : List Str) (h : caseInsensitive containing file = some item) :
    assetLookup kind (some (c :: cs)) containing file dirlist = some (some (.inl item)) ∧
    ∃ l, containing = some l ∧ l.find? (fun x => lower x = lower file) = some item := by
  constructor
  · rw [assetLookup_eq, viaSpec_some, h]
  · cases containing with
    | none => cases h
    | some l => exact ⟨l, rfl, h⟩

/-- "first entry equal to `file` up to `lower`", spelled out -/
theorem specified_first (l : List Str) (file item : Str)
    (h : l.find? (fun x => lower x = lower file) = some item) :
    lower item = lower file ∧ ∃ pre post, l = pre ++ item :: post ∧ ∀ x ∈ pre, lower x ≠ lower file := by
  rw [List.find?_eq_some_iff_append] at h
  obtain ⟨h1, pre, post, h2, h3⟩ := h
  exact ⟨by simpa using h1, pre, post, h2, fun x hx => by simpa using h3 x hx⟩

/-! ### 17. otherwise: the first entry of the simfile directory matching the kind's patterns -/

theorem fallback (kind : Str) (hk : kind ∈ T.assetDefinitions.map (·.1)) (spec : Option Str)
    (containing : Option (List Str)) (file : Str) (dirlist : List Str)
    (h : spec = none ∨ spec = some [] ∨ caseInsensitive containing file = none) :
    assetLookup kind spec containing file dirlist =
      some ((dirlist.find? fun f => assetMatches kind f = some true).map .inr) := by
  rw [assetLookup_eq, (viaSpec_none_iff spec containing file).mpr h]
  exact scan_modelled (kinds_modelled kind hk) dirlist

/-- the three hypotheses of `fallback` are exactly the negation of the hypotheses of `specified` -/
theorem specified_or_fallback (spec : Option Str) (containing : Option (List Str)) (file : Str) :
    (∃ c cs item, spec = some (c :: cs) ∧ caseInsensitive containing file = some item) ∨
    (spec = none ∨ spec = some [] ∨ caseInsensitive containing file = none) := by
  rcases spec with _ | (_ | ⟨c, cs⟩)
  · exact Or.inr (Or.inl rfl)
  · exact Or.inr (Or.inr (Or.inl rfl))
  · cases h : caseInsensitive containing file with
    | none => exact Or.inr (Or.inr (Or.inr rfl))
    | some item => exact Or.inl ⟨c, cs, item, rfl, rfl⟩

theorem fallback_none_iff (kind : Str) (hk : kind ∈ T.assetDefinitions.map (·.1)) (spec : Option Str)
    (containing : Option (List Str)) (file : Str) (dirlist : List Str)
    (h : spec = none ∨ spec = some [] ∨ caseInsensitive containing file = none) :
    assetLookup kind spec containing file dirlist = some none ↔
      ∀ f ∈ dirlist, assetMatches kind f ≠ some true := by
  rw [fallback kind hk spec containing file dirlist h]
  simp

theorem fallback_first (kind : Str) (hk : kind ∈ T.assetDefinitions.map (·.1)) (spec : Option Str)
    (containing : Option (List Str)) (file : Str) (dirlist : List Str) (f : Str)
    (h : spec = none ∨ spec = some [] ∨ caseInsensitive containing file = none) :
    assetLookup kind spec containing file dirlist = some (some (.inr f)) ↔
      assetMatches kind f = some true ∧
      ∃ pre post, dirlist = pre ++ f :: post ∧ ∀ x ∈ pre, assetMatches kind x ≠ some true := by
  rw [fallback kind hk spec containing file dirlist h]
  simp only [Option.some.injEq, Option.map_eq_some_iff, Sum.inr.injEq, exists_eq_right]
  rw [List.find?_eq_some_iff_append]
  simp

/-! ### 18. every answer names an existing entry -/

theorem exists_inr (kind : Str) (spec : Option Str) (containing : Option (List Str)) (file : Str)
    (dirlist : List Str) (f : Str)
    (h : assetLookup kind spec containing file dirlist = some (some (.inr f))) :
    f ∈ dirlist ∧ assetMatches kind f = some true := by
  rw [assetLookup_eq] at h
  cases hv : viaSpec spec containing file with
  | some item => rw [hv] at h; cases h
  | none =>
    rw [hv] at h
    simp only at h
    cases hm : dirlist.mapM (fun f => (assetMatches kind f).map fun b => (f, b)) with
    | none => rw [hm] at h; cases h
    | some fs =>
      rw [hm] at h
      simp only [Option.some.injEq, Option.map_eq_some_iff, Sum.inr.injEq] at h
      obtain ⟨fb, hfb, rfl⟩ := h
      have hmem := List.mem_of_find?_eq_some hfb
      have hb : fb.2 = true := by simpa using List.find?_some hfb
      have hall := mapM_eq_some _ _ _ hm
      have : some fb ∈ dirlist.map (fun f => (assetMatches kind f).map fun b => (f, b)) := by
        rw [hall]; exact List.mem_map.mpr ⟨fb, hmem, rfl⟩
      obtain ⟨g, hg, hgf⟩ := List.mem_map.mp this
      cases hmg : assetMatches kind g with
      | none => rw [hmg] at hgf; cases hgf
      | some b =>
        rw [hmg] at hgf
        simp only [Option.map_some, Option.some.injEq] at hgf
        subst hgf
        simp only at hb ⊢
        subst hb
        exact ⟨hg, hmg⟩

theorem exists_inl (kind : Str) (spec : Option Str) (containing : Option (List Str)) (file : Str)
    (dirlist : List Str) (item : Str)
    (h : assetLookup kind spec containing file dirlist = some (some (.inl item))) :
    ∃ l, containing = some l ∧ item ∈ l ∧ lower item = lower file ∧ ∃ c cs, spec = some (c :: cs) := by
  rw [assetLookup_eq] at h
  cases hv : viaSpec spec containing file with
  | some it =>
    rw [hv] at h
    cases h
    obtain ⟨l, hl, hf⟩ := viaSpec_mem hv
    refine ⟨l, hl, List.mem_of_find?_eq_some hf, by simpa using List.find?_some hf, ?_⟩
    rcases spec with _ | (_ | ⟨c, cs⟩)
    · cases hv
    · cases hv
    · exact ⟨c, cs, rfl⟩
  | none =>
    rw [hv] at h
    simp only at h
    cases hm : dirlist.mapM (fun f => (assetMatches kind f).map fun b => (f, b)) with
    | none => rw [hm] at h; cases h
    | some fs =>
      rw [hm] at h
      simp only [Option.some.injEq] at h
      cases hf : fs.find? (·.2) with
      | none => rw [hf] at h; cases h
      | some fb => rw [hf] at h; cases h

/-- an unmodelled kind gives no answer at all as soon as the directory has an entry (outside the model's scope) -/
theorem unknown_kind_unanswered (kind : Str) (hk : kind ∉ T.assetDefinitions.map (·.1))
    (containing : Option (List Str)) (file : Str) (f : Str) (rest : List Str) :
    assetLookup kind none containing file (f :: rest) = none := by
  rw [assetLookup_eq]
  simp only [viaSpec]
  rw [mapM_cons_opt, assetMatches_unknown kind hk]
  rfl

/-! ### 19. MUSIC matches by extension only -/

theorem audio_exts : T.audioExts = [".mp3".toList, ".oga".toList, ".ogg".toList, ".wav".toList] := by decide

theorem music_by_extension (name : Str) :
    assetMatches "MUSIC".toList name = some ((extMatch name T.audioExts).isSome) := by
  have h : T.assetDefinitions.find? (·.1 = "MUSIC".toList) = some ("MUSIC".toList, [], T.audioExts, true) := by
    decide +kernel
  unfold assetMatches
  rw [h]
  simp

/-- the image kinds never match by extension alone -/
theorem image_kinds_not_by_extension :
    ∀ d ∈ T.assetDefinitions, d.1 ≠ "MUSIC".toList → d.2.2.2 = false ∧ d.2.2.1 = T.imageExts := by
  decide +kernel

/-! ### 20. the pack banner -/

theorem image_exts :
    T.imageExts = [".png".toList, ".jpg".toList, ".jpeg".toList, ".gif".toList, ".bmp".toList] := by decide

/-- priority is by extension first (png, jpg, jpeg, gif, bmp), by listing position second; a file beside the pack
directory is considered only when the pack directory has no image at all -/
theorem pack_banner (listing : List Str) (name : Str) (beside : Str → Bool) :
    packBanner listing name beside =
      match T.imageExts.findSome? (fun ext => listing.find? fun item => endsWith (lower item) ext) with
      | some item => some (true, item)
      | none => (T.imageExts.find? fun ext => beside (name ++ ext)).map fun ext => (false, name ++ ext) :=
  packBanner_eq listing name beside

theorem pack_banner_inside (listing : List Str) (name : Str) (beside : Str → Bool) (item : Str) :
    packBanner listing name beside = some (true, item) ↔
      ∃ pre ext post, T.imageExts = pre ++ ext :: post ∧
        listing.find? (fun x => endsWith (lower x) ext) = some item ∧
        ∀ e ∈ pre, ∀ x ∈ listing, endsWith (lower x) e = false := by
  rw [packBanner_eq]
  cases hf : T.imageExts.findSome? (firstWithExt listing) with
  | some it =>
    simp only [Option.some.injEq, Prod.mk.injEq, true_and]
    constructor
    · rintro rfl
      obtain ⟨pre, ext, post, h1, h2, h3⟩ := List.findSome?_eq_some_iff.mp hf
      refine ⟨pre, ext, post, h1, h2, fun e he x hx => ?_⟩
      have := h3 e he
      unfold firstWithExt at this
      rw [List.find?_eq_none] at this
      simpa using this x hx
    · rintro ⟨pre, ext, post, h1, h2, h3⟩
      have : T.imageExts.findSome? (firstWithExt listing) = some item := by
        rw [List.findSome?_eq_some_iff]
        refine ⟨pre, ext, post, h1, h2, fun e he => ?_⟩
        unfold firstWithExt
        rw [List.find?_eq_none]
        intro x hx
        simp [h3 e he x hx]
      rw [hf] at this
      exact Option.some.inj this
  | none =>
    simp only
    constructor
    · intro h
      cases hb : T.imageExts.find? (fun ext => beside (name ++ ext)) with
      | none => rw [hb] at h; cases h
      | some e => rw [hb] at h; cases h
    · rintro ⟨pre, ext, post, h1, h2, _⟩
      rw [List.findSome?_eq_none_iff] at hf
      have := hf ext (by rw [h1]; simp)
      unfold firstWithExt at this
      rw [h2] at this
      cases this

theorem pack_banner_beside (listing : List Str) (name : Str) (beside : Str → Bool) (p : Str) :
    packBanner listing name beside = some (false, p) ↔
      (∀ e ∈ T.imageExts, ∀ x ∈ listing, endsWith (lower x) e = false) ∧
      ∃ pre ext post, T.imageExts = pre ++ ext :: post ∧ p = name ++ ext ∧ beside (name ++ ext) = true ∧
        ∀ e ∈ pre, beside (name ++ e) = false := by
  rw [packBanner_eq]
  cases hf : T.imageExts.findSome? (firstWithExt listing) with
  | some it =>
    simp only [Option.some.injEq, Prod.mk.injEq, Bool.true_eq_false, false_and, false_iff]
    rintro ⟨hno, _⟩
    obtain ⟨pre, ext, post, h1, h2, _⟩ := List.findSome?_eq_some_iff.mp hf
    unfold firstWithExt at h2
    have h3 : endsWith (lower it) ext = true := by
      have := List.find?_some h2
      exact this
    have h4 := hno ext (by rw [h1]; simp) it (List.mem_of_find?_eq_some h2)
    rw [h4] at h3
    cases h3
  | none =>
    have hno : ∀ e ∈ T.imageExts, ∀ x ∈ listing, endsWith (lower x) e = false := by
      intro e he x hx
      have := (List.findSome?_eq_none_iff.mp hf) e he
      unfold firstWithExt at this
      rw [List.find?_eq_none] at this
      simpa using this x hx
    simp only [Option.map_eq_some_iff, Prod.mk.injEq, true_and]
    constructor
    · rintro ⟨ext, hfind, rfl⟩
      refine ⟨hno, ?_⟩
      obtain ⟨h1, pre, post, h2, h3⟩ := List.find?_eq_some_iff_append.mp hfind
      exact ⟨pre, ext, post, h2, rfl, h1, fun e he => by simpa using h3 e he⟩
    · rintro ⟨_, pre, ext, post, h1, rfl, h2, h3⟩
      refine ⟨ext, ?_, rfl⟩
      rw [List.find?_eq_some_iff_append]
      exact ⟨h2, pre, post, h1, fun e he => by simp [h3 e he]⟩

theorem pack_banner_none (listing : List Str) (name : Str) (beside : Str → Bool) :
    packBanner listing name beside = none ↔
      (∀ e ∈ T.imageExts, ∀ x ∈ listing, endsWith (lower x) e = false) ∧
      ∀ e ∈ T.imageExts, beside (name ++ e) = false := by
  rw [packBanner_eq]
  cases hf : T.imageExts.findSome? (firstWithExt listing) with
  | some it =>
    simp only [reduceCtorEq, false_iff]
    rintro ⟨hno, _⟩
    obtain ⟨pre, ext, post, h1, h2, _⟩ := List.findSome?_eq_some_iff.mp hf
    unfold firstWithExt at h2
    have h3 : endsWith (lower it) ext = true := by
      have := List.find?_some h2
      exact this
    have h4 := hno ext (by rw [h1]; simp) it (List.mem_of_find?_eq_some h2)
    rw [h4] at h3
    cases h3
  | none =>
    have hno : ∀ e ∈ T.imageExts, ∀ x ∈ listing, endsWith (lower x) e = false := by
      intro e he x hx
      have := (List.findSome?_eq_none_iff.mp hf) e he
      unfold firstWithExt at this
      rw [List.find?_eq_none] at this
      simpa using this x hx
    simp only [Option.map_eq_none_iff, List.find?_eq_none]
    constructor
    · intro h
      exact ⟨hno, fun e he => by simpa using h e he⟩
    · rintro ⟨_, h⟩ e he
      simp [h e he]

/-! ### non-vacuity -/

def dir0 : List Str := ["notes.txt".toList, "Song-bg.PNG".toList, "song banner.jpg".toList, "song.ogg".toList]

example : "BANNER".toList ∈ T.assetDefinitions.map (·.1) := by decide +kernel
example : caseInsensitive (some dir0) "SONG.OGG".toList = some "song.ogg".toList := by decide +kernel
example : assetLookup "MUSIC".toList (some "SONG.OGG".toList) (some dir0) "SONG.OGG".toList dir0 =
    some (some (.inl "song.ogg".toList)) := by decide +kernel
example : assetLookup "BANNER".toList none none [] dir0 = some (some (.inr "song banner.jpg".toList)) := by
  decide +kernel
example : assetLookup "BACKGROUND".toList (some "missing.png".toList) (some dir0) "missing.png".toList dir0 =
    some (some (.inr "Song-bg.PNG".toList)) := by decide +kernel
example : assetLookup "JACKET".toList none none [] dir0 = some none := by decide +kernel
example : packBanner ["b.jpg".toList, "a.PNG".toList, "c.png".toList] "Pack".toList (fun _ => true) =
    some (true, "a.PNG".toList) := by decide +kernel
example : packBanner ["readme".toList] "Pack".toList (fun p => p = "Pack.gif".toList || p = "Pack.bmp".toList) =
    some (false, "Pack.gif".toList) := by decide +kernel
example : packBanner ["readme".toList] "Pack".toList (fun _ => false) = none := by decide +kernel

end Simfile.C20
