/-
C10 — ungroup_notes after group_notes returns the surviving notes, in order.
Property theorems only; helper lemmas live in Simfile/Lemmas/Ungroup*.lean.
-/
import Simfile.Lemmas.UngroupJoin
import Simfile.Props.C09
namespace Simfile.C10
open Simfile

/-- without joining, the round trip returns the notes of the included types, whatever their order,
players or keysounds, and whatever the ungroup policy -/
theorem roundtrip_join_off (o : GOpts) (ns : List Note) (p : Orphan) (hj : o.join = false)
    (hmode : o.sameBeat ≠ .joinByType) :
    (groupNotes o ns).bind (ungroupNotes p) = .ok (Spec.survivors o ns) := by
  rw [groupNotes]
  simp only [hj, Bool.false_eq_true, if_false, bind, Except.bind, pure, Except.pure, ungroupNotes]
  rw [Ungroup.rows_flatten _ hmode, Ungroup.ungroup_plain]
  simp [Spec.survivors, hj]

/-- a single-player stream in strictly increasing position order whose tails carry no keysound
(`ungroup_notes` rebuilds a tail from its head: same player, same column, no keysound) -/
structure SortedStream (ns : List Note) : Prop where
  sorted : ns.Pairwise fun a b => keyLt a.key b.key = true
  onePlayer : ∀ a ∈ ns, ∀ b ∈ ns, a.player = b.player
  tailsPlain : ∀ n ∈ ns, n.ntype = cTAIL → n.keysound = none

/-- whenever `group_notes` does not raise, `ungroup_notes` (with any orphan policy, which never comes
into play) restores exactly the surviving notes — the included notes minus the dropped orphans — in
order; every option combination except same-beat joining by type, which reorders rows -/
theorem roundtrip (o : GOpts) (ns : List Note) (hs : SortedStream ns) (hmode : o.sameBeat ≠ .joinByType)
    (p : Orphan) (g : List (List GNote)) (hg : groupNotes o ns = .ok g) :
    ungroupNotes p g = .ok (Spec.survivors o ns) := by
  cases hj : o.join with
  | false =>
    have := roundtrip_join_off o ns p hj hmode
    rw [hg] at this
    exact this
  | true =>
    have hnd : ns.Nodup := hs.sorted.imp fun {a b} h e => by
      subst e; rw [Ungroup.keyLt_irrefl] at h; cases h
    rw [C09.group_refines_spec o ns hnd] at hg
    unfold Spec.groupSpec at hg
    simp only [hj, if_true] at hg
    cases hS : Spec.joinSpec o (ns.filter fun n => o.incl.contains n.ntype) with
    | error e => rw [hS] at hg; cases hg
    | ok S =>
      rw [hS] at hg
      have hg' := Except.ok.inj hg
      rw [← hg', Ungroup.survivors_eq o ns hj]
      exact Ungroup.ungroup_joinSpec o p _ S (hs.sorted.sublist List.filter_sublist)
        (fun a ha b hb => hs.onePlayer a (List.mem_of_mem_filter ha) b (List.mem_of_mem_filter hb))
        (fun n hn => hs.tailsPlain n (List.mem_of_mem_filter hn)) hS _ hmode

/-- the same, in one line -/
theorem roundtrip_bind (o : GOpts) (ns : List Note) (hs : SortedStream ns) (hmode : o.sameBeat ≠ .joinByType)
    (p : Orphan) (hok : ∀ e, groupNotes o ns ≠ .error e) :
    (groupNotes o ns).bind (ungroupNotes p) = .ok (Spec.survivors o ns) := by
  cases hg : groupNotes o ns with
  | error e => exact absurd hg (hok e)
  | ok g => exact roundtrip o ns hs hmode p g hg

/-! ### non-vacuity: a concrete stream meeting the hypotheses, and why they are there -/

private def nt (b : Rat) (c : Nat) (t : Char) : Note := { beat := b, column := c, ntype := t }

/-- two overlapping holds (columns 0 and 1), a roll head interrupted by a tap (column 2),
an orphan tail (column 3), a mine on the same beat, and a hold that is never closed (column 0) -/
private def exStream : List Note :=
  [nt 0 0 cHOLD, nt 1 1 cHOLD, nt 2 0 cTAIL, nt 3 1 cTAIL, nt 4 2 cROLL, nt 5 2 cTAP, nt 6 1 cMINE,
   nt 6 3 cTAIL, nt 7 0 cHOLD]

private def exOpts (oh ot : Orphan) (m : SameBeat) : GOpts :=
  { incl := [cTAP, cHOLD, cROLL, cTAIL, cMINE], join := true, orphanHead := oh, orphanTail := ot, sameBeat := m }

example : SortedStream exStream := ⟨by decide +kernel, by decide +kernel, by decide +kernel⟩
example : (groupNotes (exOpts .drop .keep .joinAll) exStream).bind (ungroupNotes .raise) =
    .ok [nt 0 0 cHOLD, nt 1 1 cHOLD, nt 2 0 cTAIL, nt 3 1 cTAIL, nt 5 2 cTAP, nt 6 1 cMINE, nt 6 3 cTAIL] := by
  decide +kernel
example : Spec.survivors (exOpts .drop .keep .joinAll) exStream =
    [nt 0 0 cHOLD, nt 1 1 cHOLD, nt 2 0 cTAIL, nt 3 1 cTAIL, nt 5 2 cTAP, nt 6 1 cMINE, nt 6 3 cTAIL] := by
  decide +kernel
example : ∀ e, groupNotes (exOpts .keep .drop .keepSeparate) exStream ≠ .error e := by
  intro e; cases e <;> decide +kernel

/-- `hmode` is needed: joining a row by type reorders it (tap, mine, tap ↦ tap, tap, mine) -/
example :
    let ns := [nt 0 0 cTAP, nt 0 1 cMINE, nt 0 2 cTAP]
    let o : GOpts := { incl := [cTAP, cMINE], sameBeat := .joinByType }
    SortedStream ns ∧ (groupNotes o ns).bind (ungroupNotes .raise) = .ok [nt 0 0 cTAP, nt 0 2 cTAP, nt 0 1 cMINE] ∧
      Spec.survivors o ns = ns := by
  refine ⟨⟨?_, ?_, ?_⟩, ?_, ?_⟩ <;> decide +kernel

/-- the position order is needed: a tail placed before its head in the list comes back after it -/
example :
    let ns := [nt 0 0 cHOLD, nt 2 1 cTAP, nt 1 0 cTAIL]
    (groupNotes (exOpts .keep .keep .keepSeparate) ns).bind (ungroupNotes .raise) =
      .ok [nt 0 0 cHOLD, nt 1 0 cTAIL, nt 2 1 cTAP] ∧
    Spec.survivors (exOpts .keep .keep .keepSeparate) ns = ns := by
  refine ⟨?_, ?_⟩ <;> decide +kernel

/-- a single player is needed: grouping joins a head to a tail of another player, ungrouping
rebuilds the tail with the head's player -/
example :
    let ns := [nt 0 0 cHOLD, { nt 1 0 cTAIL with player := 1 }]
    (groupNotes (exOpts .keep .keep .keepSeparate) ns).bind (ungroupNotes .raise) =
      .ok [nt 0 0 cHOLD, nt 1 0 cTAIL] ∧
    Spec.survivors (exOpts .keep .keep .keepSeparate) ns = ns := by
  refine ⟨?_, ?_⟩ <;> decide +kernel

/-- tails without keysound are needed: the keysound of a joined tail is not kept in the group -/
example :
    let ns := [nt 0 0 cHOLD, { nt 1 0 cTAIL with keysound := some 7 }]
    (groupNotes (exOpts .keep .keep .keepSeparate) ns).bind (ungroupNotes .raise) =
      .ok [nt 0 0 cHOLD, nt 1 0 cTAIL] ∧
    Spec.survivors (exOpts .keep .keep .keepSeparate) ns = ns := by
  refine ⟨?_, ?_⟩ <;> decide +kernel

end Simfile.C10
