/-
C10 — ungroup_notes after group_notes returns the surviving notes, in order.
With same-beat joining by type: the same notes, rearranged, beats non-decreasing. `group_notes` never puts a
note inside a joined hold of its column; what the `orphaned_notes` policy of `ungroup_notes` does when
someone else did. Property theorems only; helper lemmas live in Simfile/Lemmas/Ungroup*.lean.
-/
import Simfile.Lemmas.UngroupJoin
import Simfile.Lemmas.UngroupMore
import Simfile.Lemmas.UngroupByType
import Simfile.Props.C09
namespace Simfile.C10
open Simfile

/-- without joining, the round trip returns the notes of the included types, whatever their order,
players or keysounds, and whatever the ungroup policy -/
theorem roundtrip_join_off (o : GOpts) (ns : List Note) (p : Orphan) (hj : o.join = false)
    (hmode : o.sameBeat ≠ .joinByType) :
    (groupNotes o ns).bind (ungroupNotes p) = .ok (Spec.survivors o ns) := by
  rw [groupNotes]
  simp only [hj, Bool.false_eq_true, if_false, bind, Except.bind, pure, Except.pure, ungroupNotes]
  rw [Ungroup.rows_flatten _ hmode, Ungroup.ungroup_plain]
  simp [Spec.survivors, hj]

/-- a single-player stream in strictly increasing position order whose tails carry no keysound
(`ungroup_notes` rebuilds a tail from its head: same player, same column, no keysound) -/
structure SortedStream (ns : List Note) : Prop where
  sorted : ns.Pairwise fun a b => keyLt a.key b.key = true
  onePlayer : ∀ a ∈ ns, ∀ b ∈ ns, a.player = b.player
  tailsPlain : ∀ n ∈ ns, n.ntype = cTAIL → n.keysound = none

/-- whenever `group_notes` does not raise, `ungroup_notes` (with any orphan policy, which never comes
into play) restores exactly the surviving notes — the included notes minus the dropped orphans — in
order; every option combination except same-beat joining by type, which reorders rows -/
theorem roundtrip (o : GOpts) (ns : List Note) (hs : SortedStream ns) (hmode : o.sameBeat ≠ .joinByType)
    (p : Orphan) (g : List (List GNote)) (hg : groupNotes o ns = .ok g) :
    ungroupNotes p g = .ok (Spec.survivors o ns) := by
  cases hj : o.join with
  | false =>
    have := roundtrip_join_off o ns p hj hmode
    rw [hg] at this
    exact this
  | true =>
    have hnd : ns.Nodup := hs.sorted.imp fun {a b} h e => by
      subst e; rw [Ungroup.keyLt_irrefl] at h; cases h
    rw [C09.group_refines_spec o ns hnd] at hg
    unfold Spec.groupSpec at hg
    simp only [hj, if_true] at hg
    cases hS : Spec.joinSpec o (ns.filter fun n => o.incl.contains n.ntype) with
    | error e => rw [hS] at hg; cases hg
    | ok S =>
      rw [hS] at hg
      have hg' := Except.ok.inj hg
      rw [← hg', Ungroup.survivors_eq o ns hj]
      exact Ungroup.ungroup_joinSpec o p _ S (hs.sorted.sublist List.filter_sublist)
        (fun a ha b hb => hs.onePlayer a (List.mem_of_mem_filter ha) b (List.mem_of_mem_filter hb))
        (fun n hn => hs.tailsPlain n (List.mem_of_mem_filter hn)) hS _ hmode

/-- the same, in one line -/
theorem roundtrip_bind (o : GOpts) (ns : List Note) (hs : SortedStream ns) (hmode : o.sameBeat ≠ .joinByType)
    (p : Orphan) (hok : ∀ e, groupNotes o ns ≠ .error e) :
    (groupNotes o ns).bind (ungroupNotes p) = .ok (Spec.survivors o ns) := by
  cases hg : groupNotes o ns with
  | error e => exact absurd hg (hok e)
  | ok g => exact roundtrip o ns hs hmode p g hg

/-! ### non-vacuity: a concrete stream meeting the hypotheses, and why they are there -/

private def nt (b : Rat) (c : Nat) (t : Char) : Note := { beat := b, column := c, ntype := t }

/-- two overlapping holds (columns 0 and 1), a roll head interrupted by a tap (column 2),
an orphan tail (column 3), a mine on the same beat, and a hold that is never closed (column 0) -/
private def exStream : List Note :=
  [nt 0 0 cHOLD, nt 1 1 cHOLD, nt 2 0 cTAIL, nt 3 1 cTAIL, nt 4 2 cROLL, nt 5 2 cTAP, nt 6 1 cMINE,
   nt 6 3 cTAIL, nt 7 0 cHOLD]

private def exOpts (oh ot : Orphan) (m : SameBeat) : GOpts :=
  { incl := [cTAP, cHOLD, cROLL, cTAIL, cMINE], join := true, orphanHead := oh, orphanTail := ot, sameBeat := m }

example : SortedStream exStream := ⟨by decide +kernel, by decide +kernel, by decide +kernel⟩
example : (groupNotes (exOpts .drop .keep .joinAll) exStream).bind (ungroupNotes .raise) =
    .ok [nt 0 0 cHOLD, nt 1 1 cHOLD, nt 2 0 cTAIL, nt 3 1 cTAIL, nt 5 2 cTAP, nt 6 1 cMINE, nt 6 3 cTAIL] := by
  decide +kernel
example : Spec.survivors (exOpts .drop .keep .joinAll) exStream =
    [nt 0 0 cHOLD, nt 1 1 cHOLD, nt 2 0 cTAIL, nt 3 1 cTAIL, nt 5 2 cTAP, nt 6 1 cMINE, nt 6 3 cTAIL] := by
  decide +kernel
example : ∀ e, groupNotes (exOpts .keep .drop .keepSeparate) exStream ≠ .error e := by
  intro e; cases e <;> decide +kernel

/-- `hmode` is needed: joining a row by type reorders it (tap, mine, tap ↦ tap, tap, mine) -/
example :
    let ns := [nt 0 0 cTAP, nt 0 1 cMINE, nt 0 2 cTAP]
    let o : GOpts := { incl := [cTAP, cMINE], sameBeat := .joinByType }
    SortedStream ns ∧ (groupNotes o ns).bind (ungroupNotes .raise) = .ok [nt 0 0 cTAP, nt 0 2 cTAP, nt 0 1 cMINE] ∧
      Spec.survivors o ns = ns := by
  refine ⟨⟨?_, ?_, ?_⟩, ?_, ?_⟩ <;> decide +kernel

/-- the position order is needed: a tail placed before its head in the list comes back after it -/
example :
    let ns := [nt 0 0 cHOLD, nt 2 1 cTAP, nt 1 0 cTAIL]
    (groupNotes (exOpts .keep .keep .keepSeparate) ns).bind (ungroupNotes .raise) =
      .ok [nt 0 0 cHOLD, nt 1 0 cTAIL, nt 2 1 cTAP] ∧
    Spec.survivors (exOpts .keep .keep .keepSeparate) ns = ns := by
  refine ⟨?_, ?_⟩ <;> decide +kernel

/-- a single player is needed: grouping joins a head to a tail of another player, ungrouping
rebuilds the tail with the head's player -/
example :
    let ns := [nt 0 0 cHOLD, { nt 1 0 cTAIL with player := 1 }]
    (groupNotes (exOpts .keep .keep .keepSeparate) ns).bind (ungroupNotes .raise) =
      .ok [nt 0 0 cHOLD, nt 1 0 cTAIL] ∧
    Spec.survivors (exOpts .keep .keep .keepSeparate) ns = ns := by
  refine ⟨?_, ?_⟩ <;> decide +kernel

/-- tails without keysound are needed: the keysound of a joined tail is not kept in the group -/
example :
    let ns := [nt 0 0 cHOLD, { nt 1 0 cTAIL with keysound := some 7 }]
    (groupNotes (exOpts .keep .keep .keepSeparate) ns).bind (ungroupNotes .raise) =
      .ok [nt 0 0 cHOLD, nt 1 0 cTAIL] ∧
    Spec.survivors (exOpts .keep .keep .keepSeparate) ns = ns := by
  refine ⟨?_, ?_⟩ <;> decide +kernel

/-! ### same-beat joining by type: the rows are reordered, the notes are the same -/

theorem SortedStream.player {ns : List Note} (hs : SortedStream ns) : ∃ p0, ∀ a ∈ ns, a.player = p0 := by
  cases ns with
  | nil => exact ⟨0, by simp⟩
  | cons x r => exact ⟨x.player, fun a ha => hs.onePlayer a ha x (by simp)⟩

/-- with same-beat joining by type (which puts the notes of a row in order of type), whenever
`group_notes` does not raise, `ungroup_notes` (any policy) returns the surviving notes — nothing
added, dropped or duplicated — rearranged, with non-decreasing beats -/
theorem roundtrip_by_type (o : GOpts) (ns : List Note) (hs : SortedStream ns) (hmode : o.sameBeat = .joinByType)
    (p : Orphan) (g : List (List GNote)) (hg : groupNotes o ns = .ok g) :
    ∃ out, ungroupNotes p g = .ok out ∧ out.Perm (Spec.survivors o ns) ∧
      (out.map (·.beat)).Pairwise (· ≤ ·) := by
  obtain ⟨p0, hp0⟩ := hs.player
  have hsF : Ungroup.Sorted (ns.filter fun n => o.incl.contains n.ntype) := hs.sorted.sublist List.filter_sublist
  have hplF : ∀ a ∈ ns.filter fun n => o.incl.contains n.ntype, a.player = p0 :=
    fun a ha => hp0 a (List.mem_of_mem_filter ha)
  cases hj : o.join with
  | false =>
    rw [C09.rows_join_off o ns hj, hmode] at hg
    have hg' := Except.ok.inj hg
    have hsv : Spec.survivors o ns = ns.filter fun n => o.incl.contains n.ntype := by simp [Spec.survivors, hj]
    rw [hsv]
    exact Ungroup.ungroup_byType_plain p _ hsF p0 hplF g (by rw [← hg']; rfl)
  | true =>
    have hnd : ns.Nodup := hs.sorted.imp fun {a b} h e => by
      subst e; rw [Ungroup.keyLt_irrefl] at h; cases h
    rw [C09.group_refines_spec o ns hnd] at hg
    unfold Spec.groupSpec at hg
    simp only [hj, if_true] at hg
    cases hS : Spec.joinSpec o (ns.filter fun n => o.incl.contains n.ntype) with
    | error e => rw [hS] at hg; cases hg
    | ok S =>
      rw [hS, hmode] at hg
      have hg' := Except.ok.inj hg
      rw [Ungroup.survivors_eq o ns hj]
      exact Ungroup.ungroup_byType_joinSpec o p _ S hsF p0 hplF
        (fun n hn => hs.tailsPlain n (List.mem_of_mem_filter hn)) hS g (by rw [← hg']; rfl)

/-! ### `group_notes` never puts a note inside a joined hold of its column -/

/-- in the output of `group_notes` (every option combination), every item that follows a joined head
on the head's column lies after the position of the head's tail -/
theorem never_inside_static (o : GOpts) (ns : List Note) (hs : SortedStream ns) (g : List (List GNote))
    (hg : groupNotes o ns = .ok g) :
    g.flatten.Pairwise fun a x => ∀ h tb, a = .withTail h tb → x.column = h.column →
      keyLt (h.player, tb, h.column) x.key = true := by
  obtain ⟨p0, hp0⟩ := hs.player
  exact (Ungroup.groups_weak o ns hs.sorted p0 hp0 g hg).pni.imp fun {a x} h hd tb e hc =>
    (Ungroup.keyLt_iff _ _).mpr (h hd tb e hc)

/-- in beats: no item of the head's column lies after the head and not after the tail -/
theorem never_inside_beats (o : GOpts) (ns : List Note) (hs : SortedStream ns) (g : List (List GNote))
    (hg : groupNotes o ns = .ok g) (h : Note) (tb : Rat) (ha : GNote.withTail h tb ∈ g.flatten)
    (x : GNote) (hx : x ∈ g.flatten) (hc : x.column = h.column) (hb : h.beat < x.beat) : tb < x.beat := by
  obtain ⟨p0, hp0⟩ := hs.player
  exact Ungroup.weak_never_between (Ungroup.groups_weak o ns hs.sorted p0 hp0 g hg) h tb ha x hx hc hb

/-- so the `check_orphan` condition of `ungroup_notes` is never met on the output of `group_notes`:
whenever an item is reached, no tail is pending on its column -/
theorem never_inside (o : GOpts) (ns : List Note) (hs : SortedStream ns) (p : Orphan) (g : List (List GNote))
    (hg : groupNotes o ns = .ok g) (A B : List GNote) (x : GNote) (hsplit : g.flatten = A ++ x :: B) :
    ∃ s, A.foldlM (ungroupStep p) { pending := [], out := [] } = .ok s ∧
      Ungroup.inside s.pending (Ungroup.headOf x) = false := by
  obtain ⟨p0, hp0⟩ := hs.player
  have hw := Ungroup.groups_weak o ns hs.sorted p0 hp0 g hg
  rw [hsplit] at hw
  exact Ungroup.never_inside_weak p A B x hw

/-- … and the `orphaned_notes` policy makes no difference -/
theorem policy_irrelevant (o : GOpts) (ns : List Note) (hs : SortedStream ns) (p p' : Orphan)
    (g : List (List GNote)) (hg : groupNotes o ns = .ok g) : ungroupNotes p g = ungroupNotes p' g := by
  obtain ⟨p0, hp0⟩ := hs.player
  exact Ungroup.policy_irrelevant_weak p p' g (Ungroup.groups_weak o ns hs.sorted p0 hp0 g hg)

-- non-vacuity: `exStream` grouped by type (beat 6 holds a mine and a kept orphan tail)
example : (groupNotes (exOpts .drop .keep .joinByType) exStream).bind (ungroupNotes .raise) =
    .ok [nt 0 0 cHOLD, nt 1 1 cHOLD, nt 2 0 cTAIL, nt 3 1 cTAIL, nt 5 2 cTAP, nt 6 1 cMINE, nt 6 3 cTAIL] := by
  decide +kernel
/-- a row that joining by type reorders, with a hold ending on that beat -/
example :
    let ns := [nt 0 1 cHOLD, nt 1 0 cMINE, nt 1 1 cTAIL, nt 1 2 cTAP, nt 1 3 cMINE]
    SortedStream ns ∧
    (groupNotes (exOpts .raise .raise .joinByType) ns).bind (ungroupNotes .raise) =
      .ok [nt 0 1 cHOLD, nt 1 0 cMINE, nt 1 1 cTAIL, nt 1 3 cMINE, nt 1 2 cTAP] ∧
    Spec.survivors (exOpts .raise .raise .joinByType) ns = ns := by
  refine ⟨⟨?_, ?_, ?_⟩, ?_, ?_⟩ <;> decide +kernel

/-! ### a note inside a joined hold of its own column: the `orphaned_notes` policy of `ungroup_notes`

`Ungroup.inside pending n`: after the tails before `n` have been yielded, a tail is still pending on
`n`'s column. The statements are about one step of the loop, from an ARBITRARY state. -/

/-- an unreached pending tail on the note's column puts the note inside a hold -/
theorem inside_hold_of_pending (s : UState) (n t : Note) (ht : t ∈ s.pending) (hc : t.column = n.column)
    (hk : keyLt t.key n.key = false) : Ungroup.inside s.pending n = true :=
  Ungroup.inside_of_mem ht hc hk

/-- RAISE raises; KEEP yields the reached tails, then the note; DROP yields the reached tails only;
KEEP and DROP leave the same tails pending -/
theorem inside_hold_policy (s : UState) (n : Note) (h : Ungroup.inside s.pending n = true) :
    ungroupStep .raise s (.plain n) = .error .orphaned ∧
    ungroupStep .keep s (.plain n) =
      .ok { pending := (popReached n.key s.pending).2, out := s.out ++ (popReached n.key s.pending).1 ++ [n] } ∧
    ungroupStep .drop s (.plain n) =
      .ok { pending := (popReached n.key s.pending).2, out := s.out ++ (popReached n.key s.pending).1 } :=
  Ungroup.step_plain_inside s n h

/-- the same for the head of a joined hold that lies inside another hold of its column; its own tail
becomes pending under KEEP and under DROP alike -/
theorem inside_hold_policy_head (s : UState) (hd : Note) (tb : Rat) (h : Ungroup.inside s.pending hd = true) :
    ungroupStep .raise s (.withTail hd tb) = .error .orphaned ∧
    ungroupStep .keep s (.withTail hd tb) =
      .ok { pending := heapInsert (Ungroup.recon hd tb) (popReached hd.key s.pending).2,
            out := s.out ++ (popReached hd.key s.pending).1 ++ [hd] } ∧
    ungroupStep .drop s (.withTail hd tb) =
      .ok { pending := heapInsert (Ungroup.recon hd tb) (popReached hd.key s.pending).2,
            out := s.out ++ (popReached hd.key s.pending).1 } :=
  Ungroup.step_withTail_inside s hd tb h

/-- outside every hold of its column a note is yielded whatever the policy -/
theorem outside_hold_any_policy (p : Orphan) (s : UState) (n : Note) (h : Ungroup.inside s.pending n = false) :
    ungroupStep p s (.plain n) =
      .ok { pending := (popReached n.key s.pending).2, out := s.out ++ (popReached n.key s.pending).1 ++ [n] } :=
  Ungroup.step_plain_outside p s n h

/-- on a position-ordered grouped sequence in which no joined head lies inside another hold of its
column, `ungroup_notes` with DROP returns what KEEP returns on the sequence without the splitting
notes (`Ungroup.removeInside`) -/
theorem inside_hold_drop_eq (groups : List (List GNote))
    (hs : groups.flatten.Pairwise fun a b => keyLe a.key b.key = true)
    (hn : Ungroup.NoHeadInside [] groups.flatten) :
    ungroupNotes .drop groups = ungroupNotes .keep [Ungroup.removeInside [] groups.flatten] := by
  rw [Ungroup.ungroupNotes_eq, Ungroup.ungroupNotes_eq]
  simp only [List.flatten_cons, List.flatten_nil, List.append_nil]
  exact Ungroup.drop_eq_keep_removed _ [] [] (hs.imp fun h => (Ungroup.keyLe_iff _ _).mp h) hn

/-- a hold 0→4 on column 0 with a tap at beat 2 on column 0 and a mine at beat 2 on column 1 -/
private def exSplit : List (List GNote) :=
  [[.withTail (nt 0 0 cHOLD) 4], [.plain (nt 2 0 cTAP), .plain (nt 2 1 cMINE)]]

example : ungroupNotes .raise exSplit = .error .orphaned := by decide +kernel
example : ungroupNotes .keep exSplit =
    .ok [nt 0 0 cHOLD, nt 2 0 cTAP, nt 2 1 cMINE, nt 4 0 cTAIL] := by decide +kernel
example : ungroupNotes .drop exSplit = .ok [nt 0 0 cHOLD, nt 2 1 cMINE, nt 4 0 cTAIL] := by decide +kernel
example : Ungroup.inside [nt 4 0 cTAIL] (nt 2 0 cTAP) = true ∧ Ungroup.inside [nt 4 0 cTAIL] (nt 2 1 cMINE) = false := by
  constructor <;> decide +kernel
example : Ungroup.removeInside [] exSplit.flatten = [.withTail (nt 0 0 cHOLD) 4, .plain (nt 2 1 cMINE)] ∧
    (exSplit.flatten.Pairwise fun a b => keyLe a.key b.key = true) ∧ Ungroup.NoHeadInside [] exSplit.flatten := by
  refine ⟨by decide +kernel, by decide +kernel, ?_⟩
  simp only [exSplit, List.flatten_cons, List.flatten_nil, List.append_nil,
    List.cons_append, List.nil_append, Ungroup.NoHeadInside, and_true]
  decide +kernel

end Simfile.C10
