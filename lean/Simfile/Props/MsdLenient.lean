/-
Strict versus lenient parsing in the modelled msdparser (`MsdP.parse strict text`), for ARBITRARY text.
"Outside a parameter" is stated on the token list: `insideAfter pre = false` — no START token after the last END
token of `pre` (or no START at all); `isStray tk` — `tk` is a TEXT / ESCAPE token whose payload fails `strayOk`.
-/
import Simfile.Lemmas.MsdLexParse
namespace Simfile.MsdLenient
open Simfile Simfile.MsdP

/-- 2. with strict parsing off, no text is rejected for stray text -/
theorem lenient_never_stray (text : Str) : ∀ t, MsdP.parse false text = some t → t.strayError = false := by
  intro t h
  unfold parse at h
  split at h
  · simp only [Option.some.injEq] at h
    subst h
    exact parseToks_false_stray _ _
  · simp at h

/-- the token list of a text that lexes -/
theorem parse_some (strict : Bool) (text : Str) (t : Tokens) (h : MsdP.parse strict text = some t) :
    ∃ toks, lex (text.length + 1) text false false = .ok toks ∧
      t = parseToks strict toks { comps := [], cur := none, out := [] } := by
  unfold parse at h
  split at h
  · rename_i toks htoks
    simp only [Option.some.injEq] at h
    exact ⟨toks, htoks, h.symm⟩
  · simp at h

/-- 3a. strict parsing stops with the stray-text error iff some TEXT / ESCAPE token outside a parameter fails
`strayOk` -/
theorem strict_iff_stray (text : Str) (t : Tokens) (h : MsdP.parse true text = some t) :
    t.strayError = true ↔
      ∃ pre tk post, lex (text.length + 1) text false false = .ok (pre ++ tk :: post) ∧
        insideAfter pre = false ∧ isStray tk = true := by
  obtain ⟨toks, htoks, rfl⟩ := parse_some true text t h
  rw [parseToks_true_stray, strayIn_iff]
  constructor
  · rintro ⟨pre, tk, post, rfl, hp, hs⟩
    exact ⟨pre, tk, post, htoks, hp, hs⟩
  · rintro ⟨pre, tk, post, e, hp, hs⟩
    rw [htoks] at e
    simp only [Except.ok.injEq] at e
    exact ⟨pre, tk, post, e, hp, hs⟩

/-- 3b. when strict parsing does not stop with the error, it agrees with lenient parsing -/
theorem strict_eq_lenient (text : Str) (t : Tokens) (h : MsdP.parse true text = some t)
    (hs : t.strayError = false) : MsdP.parse true text = MsdP.parse false text := by
  obtain ⟨toks, htoks, rfl⟩ := parse_some true text t h
  rw [parseToks_true_stray] at hs
  unfold parse
  rw [htoks]
  simp only
  rw [parseToks_true_eq_false _ _ hs]

/-- 4. what strict parsing yields (in particular before it stops with the stray error) is a prefix of what lenient
parsing yields; lenient parsing succeeds whenever strict parsing returns -/
theorem lenient_prefix (text : Str) (t : Tokens) (h : MsdP.parse true text = some t) :
    ∃ t', MsdP.parse false text = some t' ∧ t.params <+: t'.params := by
  obtain ⟨toks, htoks, rfl⟩ := parse_some true text t h
  refine ⟨parseToks false toks { comps := [], cur := none, out := [] }, ?_, parseToks_true_prefix_false _ _⟩
  unfold parse
  rw [htoks]

/-- the lexer error (unpaired trailing backslash) does not depend on strictness -/
theorem parse_none_iff (text : Str) : MsdP.parse true text = none ↔ MsdP.parse false text = none := by
  unfold parse
  split <;> simp

/-! ### non-vacuity -/
def strayText : Str := ['#', 'A', ':', '1', ';', 'x', '#', 'B', ';']
example : (MsdP.parse true strayText).map (fun t => (t.params, t.strayError)) = some ([⟨[['A'], ['1']]⟩], true) := by
  decide +kernel
example : (MsdP.parse false strayText).map (fun t => (t.params, t.strayError)) =
    some ([⟨[['A'], ['1']]⟩, ⟨[['B']]⟩], false) := by
  decide +kernel
example : lex 10 strayText false false =
    .ok ([.start, .text ['A'], .next, .text ['1'], .endp] ++ .text ['x'] :: [.start, .text ['B'], .endp]) := by
  rfl
example : insideAfter [.start, .text ['A'], .next, .text ['1'], .endp] = false ∧ isStray (.text ['x']) = true := by
  decide
example : MsdP.parse true ['\\'] = none := by decide +kernel

end Simfile.MsdLenient
