/-
C13 (growth) — `time_notes` under floating-point arithmetic: which notes come out, in which order and with which fields does not
depend on float arithmetic at all (hittability reads beats, tags and warp flags, all exact), and every attached time is within
the bound of C11F.time_error of the exact time.
-/
import Simfile.Props.C11Float
import Simfile.Props.C13
namespace Simfile.C13F
open Simfile

/-- the float run and the exact run of `time_notes` produce the same notes in the same order, and each time differs from the
exact one by at most `errTimeAt u td beat STOP` -/
theorem time_notes_error (R : Fl) (u : Rat) (hu0 : 0 ≤ u) (hu1 : u < 1) (hR : C11F.StdModel R u)
    (td : TimingData) (h : C11.Dom td) (opt : Unhittable) (notes : List Note) :
    List.Forall₂ (fun (a b : Rat × Note) => a.2 = b.2 ∧ |a.1 - b.1| ≤ errTimeAt u td b.2.beat .stop)
      (timeNotesF R td opt notes) (timeNotes td opt notes) := by
  unfold timeNotesF timeNotes
  show List.Forall₂ _ (notes.filterMap _) (notes.filterMap _)
  induction notes with
  | nil => exact List.Forall₂.nil
  | cons n ns ih =>
    have hb := C11F.time_error R u hu0 hu1 hR td h n.beat .stop
    have ht : (mkEngine td).timeAt n.beat = timeAt td n.beat .stop := rfl
    simp only [List.filterMap_cons]
    by_cases h1 : ((mkEngine td).hittable n.beat || decide (opt = Unhittable.keepNote)) = true
    · rw [if_pos h1, if_pos h1]
      exact List.Forall₂.cons ⟨rfl, by rw [ht]; exact hb⟩ ih
    · rw [if_neg h1, if_neg h1]
      by_cases h2 : opt = Unhittable.tapToFake
      · rw [if_pos h2, if_pos h2]
        by_cases h3 : n.ntype = cTAP
        · rw [if_pos h3, if_pos h3]
          exact List.Forall₂.cons ⟨rfl, by rw [ht]; exact hb⟩ ih
        · rw [if_neg h3, if_neg h3]; exact ih
      · rw [if_neg h2, if_neg h2]; exact ih

/-- in particular the two runs have the same length and the same notes -/
theorem same_notes (R : Fl) (td : TimingData) (opt : Unhittable) (notes : List Note) :
    (timeNotesF R td opt notes).map (·.2) = (timeNotes td opt notes).map (·.2) := by
  unfold timeNotesF timeNotes
  show (notes.filterMap _).map _ = (notes.filterMap _).map _
  induction notes with
  | nil => rfl
  | cons n ns ih =>
    simp only [List.filterMap_cons]
    by_cases h1 : ((mkEngine td).hittable n.beat || decide (opt = Unhittable.keepNote)) = true
    · rw [if_pos h1, if_pos h1]; simp only [List.map_cons, ih]
    · rw [if_neg h1, if_neg h1]
      by_cases h2 : opt = Unhittable.tapToFake
      · rw [if_pos h2, if_pos h2]
        by_cases h3 : n.ntype = cTAP
        · rw [if_pos h3, if_pos h3]; simp only [List.map_cons, ih]
        · rw [if_neg h3, if_neg h3]; exact ih
      · rw [if_neg h2, if_neg h2]; exact ih

end Simfile.C13F
