/-
C10, second round — `ungroup_notes` on an ARBITRARY sequence of grouped items (not only the output of
`group_notes`), stated on the input sequence: which sequences make the RAISE policy raise, what KEEP
and DROP return; `Spec.survivors` made explicit; `group_notes` cannot fail unless an orphan policy is
RAISE, so the round trip needs no side condition for the other policies.
Property theorems only; helper lemmas live in Simfile/Lemmas/UngroupMore*.lean (namespace `UngroupPos`).

Vocabulary (all positional, about the list `groups.flatten` of items in the order given):
* an item is `.plain n` or a joined item `.withTail h tb` (head `h`, tail beat `tb`);
* `x.key = (player, beat, column)` is `Note._comparable()` of the item, `x.key.1` its player;
* `Ungroup.notesOf` is the expansion of one item: `[n]`, resp. `[h, tail]` where the rebuilt tail has
  beat `tb`, the head's column and player, type TAIL and no keysound.
-/
import Simfile.Lemmas.UngroupMorePos
import Simfile.Lemmas.UngroupMoreSurv
import Simfile.Lemmas.UngroupMoreOk
import Simfile.Lemmas.UngroupMoreMP
import Simfile.Props.C10
namespace Simfile.C10More
open Simfile

/-- the expansion of a joined item, spelled out -/
example (h : Note) (tb : Rat) : Ungroup.notesOf (.withTail h tb) =
    [h, { beat := tb, column := h.column, ntype := cTAIL, player := h.player, keysound := none }] := rfl
example (n : Note) : Ungroup.notesOf (.plain n) = [n] := rfl

/-! ### (a) RAISE raises exactly when an item lies inside a joined hold of its column -/

/-- clause "a note inside a joined hold on its column: ungroup raises", for EVERY input sequence:
RAISE raises iff there are a joined item `.withTail h tb` and a LATER item `x` on the same column such
that the rebuilt tail `(h.player, tb, h.column)` lies before none of the items after the joined item
up to and including `x` (an item lying after the tail makes `ungroup_notes` yield the tail: the hold is
over). No other error is possible. -/
theorem ungroup_raise_iff_inside_unsorted (groups : List (List GNote)) :
    ungroupNotes .raise groups = .error .orphaned ↔
      ∃ A h tb M x B, groups.flatten = A ++ .withTail h tb :: (M ++ x :: B) ∧ x.column = h.column ∧
        ∀ g ∈ M ++ [x], keyLt (h.player, tb, h.column) g.key = false := by
  rw [UngroupPos.ungroup_raise_closed, UngroupPos.ungroup_keep_closed]
  constructor
  · intro h
    split at h
    · rename_i hin
      obtain ⟨A', x, B, hL, hins⟩ := (UngroupPos.anyInside_iff _ _).mp hin
      obtain ⟨A1, hd, tb, A2, rfl, hc, hall⟩ := (UngroupPos.inside_fold_iff A' x).mp hins
      exact ⟨A1, hd, tb, A2, x, B, by rw [hL]; simp, hc, hall⟩
    · cases h
  · rintro ⟨A, hd, tb, M, x, B, hL, hc, hall⟩
    have : UngroupPos.anyInside [] groups.flatten = true :=
      (UngroupPos.anyInside_iff _ _).mpr ⟨A ++ .withTail hd tb :: M, x, B, by rw [hL]; simp,
        (UngroupPos.inside_fold_iff _ x).mpr ⟨A, hd, tb, M, rfl, hc, hall⟩⟩
    rw [this]; rfl

/-- the same for a sequence in position order (`keyLe` on `(player, beat, column)`, ties allowed):
only `x` itself has to be compared with the rebuilt tail -/
theorem ungroup_raise_iff_inside_key (groups : List (List GNote))
    (hs : groups.flatten.Pairwise fun a b => keyLe a.key b.key = true) :
    ungroupNotes .raise groups = .error .orphaned ↔
      ∃ A h tb M x B, groups.flatten = A ++ .withTail h tb :: (M ++ x :: B) ∧ x.column = h.column ∧
        keyLt (h.player, tb, h.column) x.key = false := by
  rw [ungroup_raise_iff_inside_unsorted]
  constructor
  · rintro ⟨A, hd, tb, M, x, B, hL, hc, hall⟩
    exact ⟨A, hd, tb, M, x, B, hL, hc, hall x (by simp)⟩
  · rintro ⟨A, hd, tb, M, x, B, hL, hc, hk⟩
    refine ⟨A, hd, tb, M, x, B, hL, hc, ?_⟩
    have hs' := UngroupPos.gsorted_of_keyLe hs
    rw [hL] at hs'
    have hMx : UngroupPos.GSorted (M ++ [x]) := by
      refine hs'.sublist ?_
      refine List.Sublist.trans ?_ (List.sublist_append_right _ _)
      refine List.Sublist.cons _ ?_
      exact List.Sublist.append (List.Sublist.refl _) (by simp)
    intro g hg
    rcases List.mem_append.mp hg with hg | hg
    · have hgx := (List.pairwise_append.mp hMx).2.2 g hg x (by simp)
      exact (Ungroup.keyLt_false_iff _ _).mpr (le_trans hgx ((Ungroup.keyLt_false_iff _ _).mp hk))
    · simp only [List.mem_singleton] at hg; subst hg; exact hk

/-- … and in beats: for a sequence in position order, RAISE raises iff some item `x` FOLLOWS a joined
item `.withTail h tb` in the sequence, on the same column, for the same player, with `x.beat ≤ tb`
(the order of the sequence already gives `h.beat ≤ x.beat`; an item exactly at the tail's position
counts as inside, as does a later item at the head's own position) -/
theorem ungroup_raise_iff_inside (groups : List (List GNote))
    (hs : groups.flatten.Pairwise fun a b => keyLe a.key b.key = true) :
    ungroupNotes .raise groups = .error .orphaned ↔
      ∃ A h tb M x B, groups.flatten = A ++ .withTail h tb :: (M ++ x :: B) ∧ x.column = h.column ∧
        x.key.1 = h.player ∧ x.beat ≤ tb := by
  rw [ungroup_raise_iff_inside_key groups hs]
  have hs' := UngroupPos.gsorted_of_keyLe hs
  have hle : ∀ A (hd : Note) tb M x B, groups.flatten = A ++ .withTail hd tb :: (M ++ x :: B) →
      Ungroup.toK hd.key ≤ Ungroup.toK x.key := by
    intro A hd tb M x B hL
    rw [hL] at hs'
    exact (List.pairwise_cons.mp (List.pairwise_append.mp hs').2.1).1 x (by simp)
  constructor
  · rintro ⟨A, hd, tb, M, x, B, hL, hc, hk⟩
    exact ⟨A, hd, tb, M, x, B, hL, hc, (UngroupPos.covers_beats (hle _ _ _ _ _ _ hL) hc).mp hk⟩
  · rintro ⟨A, hd, tb, M, x, B, hL, hc, hk⟩
    exact ⟨A, hd, tb, M, x, B, hL, hc, (UngroupPos.covers_beats (hle _ _ _ _ _ _ hL) hc).mpr hk⟩

/-- when RAISE does not raise it returns what KEEP returns (every sequence) -/
theorem ungroup_raise_eq_keep (groups : List (List GNote)) (h : ungroupNotes .raise groups ≠ .error .orphaned) :
    ungroupNotes .raise groups = ungroupNotes .keep groups := by
  rw [UngroupPos.ungroup_raise_closed] at h ⊢
  split at h
  · exact absurd rfl h
  · rename_i hin; simp [hin]

/-- `ungroup_notes` has no other way to fail, whatever the policy and the input -/
theorem ungroup_never_internal (p : Orphan) (groups : List (List GNote)) :
    ungroupNotes p groups ≠ .error .internal := by
  cases p with
  | keep => rw [UngroupPos.ungroup_keep_closed]; intro h; cases h
  | drop => rw [UngroupPos.ungroup_drop_closed]; intro h; cases h
  | raise =>
    rw [UngroupPos.ungroup_raise_closed, UngroupPos.ungroup_keep_closed]
    split <;> intro h <;> cases h

/-- a hold 0→4 on column 0 and a tap on column 0: at beat 4 (the tail's own position) it is inside,
at beat 5 it is not; on another column or for another player it is not -/
example : ungroupNotes .raise [[.withTail ⟨0, 0, cHOLD, 0, none⟩ 4], [.plain ⟨4, 0, cTAP, 0, none⟩]] =
    .error .orphaned := by decide +kernel
example : ungroupNotes .raise [[.withTail ⟨0, 0, cHOLD, 0, none⟩ 4], [.plain ⟨5, 0, cTAP, 0, none⟩]] =
    .ok [⟨0, 0, cHOLD, 0, none⟩, ⟨4, 0, cTAIL, 0, none⟩, ⟨5, 0, cTAP, 0, none⟩] := by decide +kernel
example : ungroupNotes .raise [[.withTail ⟨0, 0, cHOLD, 0, none⟩ 4], [.plain ⟨0, 0, cTAP, 0, none⟩]] =
    .error .orphaned := by decide +kernel
example : ungroupNotes .raise [[.withTail ⟨0, 0, cHOLD, 0, none⟩ 4], [.plain ⟨2, 0, cTAP, 1, none⟩]] =
    .ok [⟨0, 0, cHOLD, 0, none⟩, ⟨4, 0, cTAIL, 0, none⟩, ⟨2, 0, cTAP, 1, none⟩] := by decide +kernel

/-- the order hypothesis of `ungroup_raise_iff_inside` is needed: here the tap at beat 2 follows the
hold 0→4 on its column, but the item at beat 5 in between has made the tail come out already;
`ungroup_notes` does not raise (Python agrees), although the right-hand side of
`ungroup_raise_iff_inside` holds -/
example :
    let groups : List (List GNote) :=
      [[.withTail ⟨0, 0, cHOLD, 0, none⟩ 4], [.plain ⟨5, 1, cTAP, 0, none⟩], [.plain ⟨2, 0, cTAP, 0, none⟩]]
    ungroupNotes .raise groups =
      .ok [⟨0, 0, cHOLD, 0, none⟩, ⟨4, 0, cTAIL, 0, none⟩, ⟨5, 1, cTAP, 0, none⟩, ⟨2, 0, cTAP, 0, none⟩] ∧
    (∃ A h tb M x B, groups.flatten = A ++ .withTail h tb :: (M ++ x :: B) ∧ x.column = h.column ∧
        x.key.1 = h.player ∧ x.beat ≤ tb) := by
  refine ⟨by decide +kernel, [], ⟨0, 0, cHOLD, 0, none⟩, 4, [.plain ⟨5, 1, cTAP, 0, none⟩],
    .plain ⟨2, 0, cTAP, 0, none⟩, [], rfl, rfl, rfl, by decide +kernel⟩

/-! ### (b) KEEP passes everything through -/

/-- clause "KEEP passes the splitting note through", for EVERY input sequence: KEEP never fails and
returns a rearrangement of the expansion of the input — every plain note once, every joined item its
head and its rebuilt tail; nothing added, dropped or duplicated -/
theorem ungroup_keep_perm (groups : List (List GNote)) :
    ∃ out, ungroupNotes .keep groups = .ok out ∧ out.Perm (groups.flatten.flatMap Ungroup.notesOf) := by
  refine ⟨_, UngroupPos.ungroup_keep_closed groups, ?_⟩
  have := UngroupPos.emit_perm false groups.flatten []
  rwa [UngroupPos.expandSt_false, List.nil_append] at this

/-- … in position order, when the input is in position order and no tail lies before its head -/
theorem ungroup_keep_sorted (groups : List (List GNote))
    (hs : groups.flatten.Pairwise fun a b => keyLe a.key b.key = true)
    (hta : ∀ h tb, GNote.withTail h tb ∈ groups.flatten → h.beat ≤ tb) :
    ∃ out, ungroupNotes .keep groups = .ok out ∧ out.Perm (groups.flatten.flatMap Ungroup.notesOf) ∧
      out.Pairwise fun a b => keyLe a.key b.key = true := by
  obtain ⟨out, h1, h2⟩ := ungroup_keep_perm groups
  refine ⟨out, h1, h2, ?_⟩
  rw [UngroupPos.ungroup_keep_closed] at h1
  rw [← Except.ok.inj h1]
  exact UngroupPos.keyLe_of_psorted
    (UngroupPos.keep_sorted _ [] List.Pairwise.nil (UngroupPos.gsorted_of_keyLe hs) hta)

/-- `UngroupPos.sortByKey` sorts by position: a rearrangement, in position order -/
theorem sortByKey_spec (l : List Note) :
    (UngroupPos.sortByKey l).Perm l ∧ (UngroupPos.sortByKey l).Pairwise fun a b => keyLe a.key b.key = true :=
  ⟨UngroupPos.sortByKey_perm l, UngroupPos.keyLe_of_psorted (UngroupPos.sortByKey_sorted l)⟩

/-- … hence, when the notes of the expansion have pairwise distinct positions, KEEP returns THE sorted
expansion -/
theorem ungroup_keep_eq_sorted (groups : List (List GNote))
    (hs : groups.flatten.Pairwise fun a b => keyLe a.key b.key = true)
    (hta : ∀ h tb, GNote.withTail h tb ∈ groups.flatten → h.beat ≤ tb)
    (hnd : ((groups.flatten.flatMap Ungroup.notesOf).map Note.key).Nodup) :
    ungroupNotes .keep groups = .ok (UngroupPos.sortByKey (groups.flatten.flatMap Ungroup.notesOf)) := by
  obtain ⟨out, h1, h2, h3⟩ := ungroup_keep_sorted groups hs hta
  rw [h1, UngroupPos.eq_sortByKey h2 (UngroupPos.psorted_of_keyLe h3) hnd]

/-- a hold 0→4 on column 0 split by a tap at beat 2, a hold head at beat 3 inside it (tail at 6), and a
mine on another column -/
private def exSeq : List (List GNote) :=
  [[.withTail ⟨0, 0, cHOLD, 0, some 3⟩ 4], [.plain ⟨2, 0, cTAP, 0, none⟩, .plain ⟨2, 1, cMINE, 0, none⟩],
   [.withTail ⟨3, 0, cHOLD, 0, none⟩ 6], [.plain ⟨5, 0, cTAP, 0, none⟩]]

example : (exSeq.flatten.Pairwise fun a b => keyLe a.key b.key = true) ∧
    (∀ h tb, GNote.withTail h tb ∈ exSeq.flatten → h.beat ≤ tb) ∧
    ((exSeq.flatten.flatMap Ungroup.notesOf).map Note.key).Nodup := by
  refine ⟨by decide +kernel, ?_, by decide +kernel⟩
  intro h tb hm
  simp only [exSeq, List.flatten_cons, List.flatten_nil, List.cons_append, List.nil_append, List.mem_cons,
    GNote.withTail.injEq, List.not_mem_nil, or_false, reduceCtorEq, false_or] at hm
  rcases hm with ⟨rfl, rfl⟩ | ⟨rfl, rfl⟩ <;> decide +kernel
example : ungroupNotes .keep exSeq =
    .ok [⟨0, 0, cHOLD, 0, some 3⟩, ⟨2, 0, cTAP, 0, none⟩, ⟨2, 1, cMINE, 0, none⟩, ⟨3, 0, cHOLD, 0, none⟩,
      ⟨4, 0, cTAIL, 0, none⟩, ⟨5, 0, cTAP, 0, none⟩, ⟨6, 0, cTAIL, 0, none⟩] := by decide +kernel
example : ungroupNotes .raise exSeq = .error .orphaned := by decide +kernel

/-- `hta` is needed for the order: a tail before its head comes out after the head -/
example : ungroupNotes .keep [[.withTail ⟨5, 0, cHOLD, 0, none⟩ 1], [.plain ⟨6, 1, cTAP, 0, none⟩]] =
    .ok [⟨5, 0, cHOLD, 0, none⟩, ⟨1, 0, cTAIL, 0, none⟩, ⟨6, 1, cTAP, 0, none⟩] := by decide +kernel

/-! ### (c) DROP leaves out exactly the splitting notes -/

/-- `UngroupPos.insideOf A x` (Boolean): some joined item among the earlier items `A` lies on `x`'s column
and its rebuilt tail is not before `x` — the condition of `ungroup_raise_iff_inside_key` -/
theorem insideOf_iff (A : List GNote) (x : GNote) :
    UngroupPos.insideOf A x = true ↔
      ∃ h tb, .withTail h tb ∈ A ∧ x.column = h.column ∧ keyLt (h.player, tb, h.column) x.key = false :=
  UngroupPos.insideOf_iff A x

/-- `UngroupPos.expandDrop ins [] L`, read positionally: the item `x` at any position of `L`, with the
items `P` before it, contributes its expansion — or only its rebuilt tail (nothing, for a plain note)
when `ins P x` -/
theorem expandDrop_at (ins : List GNote → GNote → Bool) (P : List GNote) (x : GNote) (S : List GNote) :
    UngroupPos.expandDrop ins [] (P ++ x :: S) =
      UngroupPos.expandDrop ins [] P ++ (if ins P x then UngroupPos.tailOf x else Ungroup.notesOf x) ++
        UngroupPos.expandDrop ins (P ++ [x]) S := by
  simpa using UngroupPos.expandDrop_split ins P [] x S

/-- clause "DROP drops the splitting note", for a sequence in position order: DROP never fails and
returns a rearrangement of the expansion of the input from which exactly the notes that lie inside a
joined hold of their column (`UngroupPos.insideOf`, positional) have been left out — for a joined item
inside another hold only its head is left out, its tail is still rebuilt; and the result is in
position order when no tail lies before its head -/
theorem ungroup_drop_positional (groups : List (List GNote))
    (hs : groups.flatten.Pairwise fun a b => keyLe a.key b.key = true) :
    ∃ out, ungroupNotes .drop groups = .ok out ∧
      out.Perm (UngroupPos.expandDrop UngroupPos.insideOf [] groups.flatten) ∧
      ((∀ h tb, GNote.withTail h tb ∈ groups.flatten → h.beat ≤ tb) →
        out.Pairwise fun a b => keyLe a.key b.key = true) := by
  refine ⟨_, UngroupPos.ungroup_drop_closed groups, ?_, ?_⟩
  · have := UngroupPos.emit_perm true groups.flatten []
    rw [show ([] : List Note) = ([] : List GNote).foldl UngroupPos.nextPend [] from rfl,
      UngroupPos.expandSt_true, UngroupPos.expandDrop_sorted _ [] (by simpa using UngroupPos.gsorted_of_keyLe hs)] at this
    simpa using this
  · intro hta
    have hk := UngroupPos.keep_sorted _ [] List.Pairwise.nil (UngroupPos.gsorted_of_keyLe hs) hta
    exact UngroupPos.keyLe_of_psorted
      (hk.sublist (List.Sublist.append (UngroupPos.emit_sublist _ _) (List.Sublist.refl _)))

/-- without any order on the input, with the general positional predicate (`UngroupPos.insideGen`, the
condition of `ungroup_raise_iff_inside_unsorted`) -/
theorem ungroup_drop_unsorted (groups : List (List GNote)) :
    ∃ out, ungroupNotes .drop groups = .ok out ∧
      out.Perm (UngroupPos.expandDrop UngroupPos.insideGen [] groups.flatten) := by
  refine ⟨_, UngroupPos.ungroup_drop_closed groups, ?_⟩
  have := UngroupPos.emit_perm true groups.flatten []
  rw [show ([] : List Note) = ([] : List GNote).foldl UngroupPos.nextPend [] from rfl,
    UngroupPos.expandSt_true] at this
  simpa using this

/-- `UngroupPos.insideGen A x` (Boolean) is the condition of `ungroup_raise_iff_inside_unsorted` -/
theorem insideGen_iff (A : List GNote) (x : GNote) :
    UngroupPos.insideGen A x = true ↔
      ∃ A1 h tb A2, A = A1 ++ .withTail h tb :: A2 ∧ x.column = h.column ∧
        ∀ g ∈ A2 ++ [x], keyLt (h.player, tb, h.column) g.key = false :=
  UngroupPos.insideGen_iff A x

/-- … hence THE sorted expansion without the splitting notes, when positions are pairwise distinct -/
theorem ungroup_drop_eq_sorted (groups : List (List GNote))
    (hs : groups.flatten.Pairwise fun a b => keyLe a.key b.key = true)
    (hta : ∀ h tb, GNote.withTail h tb ∈ groups.flatten → h.beat ≤ tb)
    (hnd : ((groups.flatten.flatMap Ungroup.notesOf).map Note.key).Nodup) :
    ungroupNotes .drop groups =
      .ok (UngroupPos.sortByKey (UngroupPos.expandDrop UngroupPos.insideOf [] groups.flatten)) := by
  obtain ⟨out, h1, h2, h3⟩ := ungroup_drop_positional groups hs
  have hnd' : ((UngroupPos.expandDrop UngroupPos.insideOf [] groups.flatten).map Note.key).Nodup :=
    hnd.sublist ((UngroupPos.expandDrop_sublist _ _ _).map _)
  rw [h1, UngroupPos.eq_sortByKey h2 (UngroupPos.psorted_of_keyLe (h3 hta)) hnd']

/-- what DROP leaves out is part of the expansion, in order -/
theorem expandDrop_sublist (ins : List GNote → GNote → Bool) (L : List GNote) :
    (UngroupPos.expandDrop ins [] L).Sublist (L.flatMap Ungroup.notesOf) :=
  UngroupPos.expandDrop_sublist ins L []

example : UngroupPos.expandDrop UngroupPos.insideOf [] exSeq.flatten =
    [⟨0, 0, cHOLD, 0, some 3⟩, ⟨4, 0, cTAIL, 0, none⟩, ⟨2, 1, cMINE, 0, none⟩, ⟨6, 0, cTAIL, 0, none⟩] := by
  decide +kernel
example : ungroupNotes .drop exSeq =
    .ok [⟨0, 0, cHOLD, 0, some 3⟩, ⟨2, 1, cMINE, 0, none⟩, ⟨4, 0, cTAIL, 0, none⟩, ⟨6, 0, cTAIL, 0, none⟩] := by
  decide +kernel

/-! ### (d) `Spec.survivors`, the right-hand side of the round-trip theorems, made explicit -/

/-- clause "exactly the original notes of the included types": unless an orphan policy of `group_notes`
is DROP, the survivors ARE the notes of the included types, in order (join on or off) -/
theorem survivors_keep (o : GOpts) (ns : List Note) (hh : o.orphanHead ≠ .drop) (ht : o.orphanTail ≠ .drop) :
    Spec.survivors o ns = ns.filter fun n => o.incl.contains n.ntype :=
  UngroupPos.survivors_keep o ns hh ht

/-- in general the survivors are notes of the included types, in their order, each at most once per
occurrence: nothing added, duplicated or reordered -/
theorem survivors_sublist (o : GOpts) (ns : List Note) :
    (Spec.survivors o ns).Sublist (ns.filter fun n => o.incl.contains n.ntype) :=
  UngroupPos.survivors_sublist o ns

/-- clause "orphans dropped: exactly those notes missing": with joining on, a note is among the
survivors iff it occurs in the included stream at a position where it is not a dropped orphan —
`Spec.classify` looks at the notes before it (nearest first) and after it on its column: a head whose
next column neighbour is not a tail is an orphan head, a tail whose previous column neighbour is not a
head is an orphan tail -/
theorem mem_survivors (o : GOpts) (ns : List Note) (hj : o.join = true) (n : Note) :
    n ∈ Spec.survivors o ns ↔
      ∃ P A, (ns.filter fun n => o.incl.contains n.ntype) = P ++ n :: A ∧
        ¬ ((Spec.classify P.reverse n A = .orphanHead ∧ o.orphanHead = .drop) ∨
           (Spec.classify P.reverse n A = .orphanTail ∧ o.orphanTail = .drop)) :=
  UngroupPos.mem_survivors o ns hj n

private def nt (b : Rat) (c : Nat) (t : Char) : Note := { beat := b, column := c, ntype := t }

/-- the stream of `C10.lean`: two overlapping holds, a roll head interrupted by a tap, an orphan tail,
a mine, and a hold that is never closed -/
private def exStream : List Note :=
  [nt 0 0 cHOLD, nt 1 1 cHOLD, nt 2 0 cTAIL, nt 3 1 cTAIL, nt 4 2 cROLL, nt 5 2 cTAP, nt 6 1 cMINE,
   nt 6 3 cTAIL, nt 7 0 cHOLD]

private def exOpts (oh ot : Orphan) (m : SameBeat) : GOpts :=
  { incl := [cTAP, cHOLD, cROLL, cTAIL, cMINE], join := true, orphanHead := oh, orphanTail := ot, sameBeat := m }

example : Spec.survivors (exOpts .keep .keep .joinAll) exStream = exStream := by decide +kernel
example : Spec.survivors (exOpts .drop .drop .joinAll) exStream =
    [nt 0 0 cHOLD, nt 1 1 cHOLD, nt 2 0 cTAIL, nt 3 1 cTAIL, nt 5 2 cTAP, nt 6 1 cMINE] := by decide +kernel

/-! ### (e) `group_notes` cannot fail unless an orphan policy is RAISE -/

/-- for EVERY stream (any order, duplicates, several players) and every other option: when neither
orphan policy is RAISE, `group_notes` returns — no `OrphanedNoteException` and none of the internal
errors (`buffer.index`, `buffer.remove`, `buffer[0]`) -/
theorem group_ok_of_no_raise (o : GOpts) (ns : List Note) (hh : o.orphanHead ≠ .raise) (ht : o.orphanTail ≠ .raise) :
    ∃ g, groupNotes o ns = .ok g :=
  UngroupPos.groupNotes_ok o hh ht ns

/-- without joining the orphan policies play no role -/
theorem group_ok_of_join_off (o : GOpts) (ns : List Note) (hj : o.join = false) : ∃ g, groupNotes o ns = .ok g :=
  ⟨_, C09.rows_join_off o ns hj⟩

/-- the round trip without a side condition on `group_notes`: for KEEP/DROP policies (any mix), any
ungroup policy, every same-beat mode but joining by type -/
theorem roundtrip_total (o : GOpts) (ns : List Note) (hs : C10.SortedStream ns) (hmode : o.sameBeat ≠ .joinByType)
    (hh : o.orphanHead ≠ .raise) (ht : o.orphanTail ≠ .raise) (p : Orphan) :
    (groupNotes o ns).bind (ungroupNotes p) = .ok (Spec.survivors o ns) := by
  apply C10.roundtrip_bind o ns hs hmode p
  intro e he
  obtain ⟨g, hg⟩ := group_ok_of_no_raise o ns hh ht
  rw [hg] at he; cases he

/-- … and with both policies KEEP: exactly the notes of the included types come back, in order -/
theorem roundtrip_keep (o : GOpts) (ns : List Note) (hs : C10.SortedStream ns) (hmode : o.sameBeat ≠ .joinByType)
    (hh : o.orphanHead = .keep) (ht : o.orphanTail = .keep) (p : Orphan) :
    (groupNotes o ns).bind (ungroupNotes p) = .ok (ns.filter fun n => o.incl.contains n.ntype) := by
  rw [roundtrip_total o ns hs hmode (by simp [hh]) (by simp [ht]) p,
    survivors_keep o ns (by simp [hh]) (by simp [ht])]

/-- joining by type, without a side condition -/
theorem roundtrip_by_type_total (o : GOpts) (ns : List Note) (hs : C10.SortedStream ns)
    (hmode : o.sameBeat = .joinByType) (hh : o.orphanHead ≠ .raise) (ht : o.orphanTail ≠ .raise) (p : Orphan) :
    ∃ out, (groupNotes o ns).bind (ungroupNotes p) = .ok out ∧ out.Perm (Spec.survivors o ns) ∧
      (out.map (·.beat)).Pairwise (· ≤ ·) := by
  obtain ⟨g, hg⟩ := group_ok_of_no_raise o ns hh ht
  obtain ⟨out, h1, h2, h3⟩ := C10.roundtrip_by_type o ns hs hmode p g hg
  exact ⟨out, by rw [hg]; exact h1, h2, h3⟩

example : C10.SortedStream exStream := ⟨by decide +kernel, by decide +kernel, by decide +kernel⟩
example : (groupNotes (exOpts .drop .keep .joinAll) exStream).bind (ungroupNotes .raise) =
    .ok [nt 0 0 cHOLD, nt 1 1 cHOLD, nt 2 0 cTAIL, nt 3 1 cTAIL, nt 5 2 cTAP, nt 6 1 cMINE, nt 6 3 cTAIL] := by
  decide +kernel

example : (groupNotes (exOpts .keep .keep .keepSeparate) exStream).bind (ungroupNotes .drop) = .ok exStream := by
  decide +kernel

/-- a stream that is neither sorted nor duplicate-free is grouped all the same (Python returns the same
two groups) -/
example : groupNotes (exOpts .drop .keep .keepSeparate)
    [nt 3 0 cHOLD, nt 3 0 cHOLD, nt 1 0 cTAIL, nt 1 0 cTAIL, nt 0 1 cROLL, nt 3 0 cHOLD] =
    .ok [[.withTail (nt 3 0 cHOLD) 1], [.plain (nt 1 0 cTAIL)]] := by decide +kernel

/-! ### several players -/

/-- a stream in strictly increasing position order (player first, as `NoteData` yields routine charts)
whose tails carry no keysound and in which (after the type filter) the next note on the column of a
head, when it is a tail, belongs to the head's player -/
structure SortedStreamMP (o : GOpts) (ns : List Note) : Prop where
  sorted : ns.Pairwise fun a b => keyLt a.key b.key = true
  tailsPlain : ∀ n ∈ ns, n.ntype = cTAIL → n.keysound = none
  samePlayer : ∀ P n A, (ns.filter fun n => o.incl.contains n.ntype) = P ++ n :: A → isHead n.ntype = true →
    ∀ t, A.find? (·.column = n.column) = some t → t.ntype = cTAIL → t.player = n.player

/-- a one-player stream is a special case -/
theorem SortedStreamMP.of_sortedStream (o : GOpts) {ns : List Note} (hs : C10.SortedStream ns) :
    SortedStreamMP o ns :=
  ⟨hs.sorted, hs.tailsPlain, (UngroupPos.joinedSamePlayer_iff _).mp (UngroupPos.joinedSamePlayer_of_one _
    fun a ha b hb => hs.onePlayer a (List.mem_of_mem_filter ha) b (List.mem_of_mem_filter hb))⟩

/-- so are players that never use the same column -/
theorem SortedStreamMP.of_columns (o : GOpts) {ns : List Note}
    (sorted : ns.Pairwise fun a b => keyLt a.key b.key = true)
    (tailsPlain : ∀ n ∈ ns, n.ntype = cTAIL → n.keysound = none)
    (hcol : ∀ a ∈ ns, ∀ b ∈ ns, a.column = b.column → a.player = b.player) : SortedStreamMP o ns :=
  ⟨sorted, tailsPlain, (UngroupPos.joinedSamePlayer_iff _).mp (UngroupPos.joinedSamePlayer_of_columns _
    fun a ha b hb => hcol a (List.mem_of_mem_filter ha) b (List.mem_of_mem_filter hb))⟩

/-- the round trip for streams with several players (`C10.roundtrip` with the one-player hypothesis
weakened to what the proof uses: a joined tail carries its head's player) -/
theorem roundtrip_multi_player (o : GOpts) (ns : List Note) (hs : SortedStreamMP o ns)
    (hmode : o.sameBeat ≠ .joinByType) (p : Orphan) (g : List (List GNote)) (hg : groupNotes o ns = .ok g) :
    ungroupNotes p g = .ok (Spec.survivors o ns) := by
  cases hj : o.join with
  | false =>
    have := C10.roundtrip_join_off o ns p hj hmode
    rw [hg] at this
    exact this
  | true =>
    have hnd : ns.Nodup := hs.sorted.imp fun {a b} h e => by
      subst e; rw [Ungroup.keyLt_irrefl] at h; cases h
    rw [C09.group_refines_spec o ns hnd] at hg
    unfold Spec.groupSpec at hg
    simp only [hj, if_true] at hg
    cases hS : Spec.joinSpec o (ns.filter fun n => o.incl.contains n.ntype) with
    | error e => rw [hS] at hg; cases hg
    | ok S =>
      rw [hS] at hg
      have hg' := Except.ok.inj hg
      rw [← hg', Ungroup.survivors_eq o ns hj]
      exact UngroupPos.ungroup_joinSpec_mp o p _ S (hs.sorted.sublist List.filter_sublist)
        ((UngroupPos.joinedSamePlayer_iff _).mpr hs.samePlayer)
        (fun n hn => hs.tailsPlain n (List.mem_of_mem_filter hn)) hS _ hmode

/-- … without a side condition for KEEP/DROP policies -/
theorem roundtrip_multi_player_total (o : GOpts) (ns : List Note) (hs : SortedStreamMP o ns)
    (hmode : o.sameBeat ≠ .joinByType) (hh : o.orphanHead ≠ .raise) (ht : o.orphanTail ≠ .raise) (p : Orphan) :
    (groupNotes o ns).bind (ungroupNotes p) = .ok (Spec.survivors o ns) := by
  obtain ⟨g, hg⟩ := group_ok_of_no_raise o ns hh ht
  rw [hg]
  exact roundtrip_multi_player o ns hs hmode p g hg

/-- two players holding the same column at overlapping times, player 1 with an orphan roll head -/
private def exMP : List Note :=
  [nt 0 0 cHOLD, nt 2 0 cTAIL, nt 3 1 cTAP,
   { nt 1 0 cHOLD with player := 1 }, { nt 3 0 cTAIL with player := 1 }, { nt 4 1 cROLL with player := 1 }]

example : SortedStreamMP (exOpts .drop .keep .joinAll) exMP := by
  refine ⟨by decide +kernel, by decide +kernel, ?_⟩
  rw [← UngroupPos.joinedSamePlayer_iff, ← UngroupPos.joinedSamePlayerB_iff]
  decide +kernel
example : (groupNotes (exOpts .drop .keep .joinAll) exMP).bind (ungroupNotes .raise) =
    .ok [nt 0 0 cHOLD, nt 2 0 cTAIL, nt 3 1 cTAP, { nt 1 0 cHOLD with player := 1 },
      { nt 3 0 cTAIL with player := 1 }] := by decide +kernel

end Simfile.C10More
