/-
C20 — the `Assets` object as a state machine: any sequence of questions put to one object behaves like a memo table
over the pure lookup `assetLookup` on the listing taken at construction. In particular: the listing is never changed
by a question, a question about one kind never changes the answer to another kind, and an answer once given is given
again whatever the simfile or the filesystem say later.
-/
import Simfile.Model.Dir
namespace Simfile.C20
open Simfile

/-- the cached answer for a kind, if any -/
def cached (a : AssetsObj) (kind : Str) : Option AssetAnswer := (a.cache.find? (·.1 = kind)).map (·.2)

theorem ask_cached (a : AssetsObj) (kind : Str) (env : AskEnv) (v : AssetAnswer) (h : cached a kind = some v) :
    a.ask kind env = some (a, v) := by
  unfold cached at h
  unfold AssetsObj.ask
  cases hf : a.cache.find? (·.1 = kind) with
  | none => simp [hf] at h
  | some kv => simp [hf] at h; simp [h]

theorem ask_fresh (a : AssetsObj) (kind : Str) (env : AskEnv) (h : cached a kind = none) :
    a.ask kind env =
      (assetLookup kind env.specified env.containing env.file a.dirlist).map
        fun v => ({ a with cache := (kind, v) :: a.cache }, v) := by
  unfold cached at h
  unfold AssetsObj.ask
  cases hf : a.cache.find? (·.1 = kind) with
  | some kv => simp [hf] at h
  | none => cases assetLookup kind env.specified env.containing env.file a.dirlist <;> rfl

/-- one question: the listing is untouched, the asked kind is now cached with the answer given, every other kind's
cache entry is as before -/
theorem ask_effect (a a' : AssetsObj) (kind : Str) (env : AskEnv) (v : AssetAnswer) (h : a.ask kind env = some (a', v)) :
    a'.dirlist = a.dirlist ∧ cached a' kind = some v ∧ ∀ k, k ≠ kind → cached a' k = cached a k := by
  unfold AssetsObj.ask at h
  cases hf : a.cache.find? (·.1 = kind) with
  | some kv =>
    simp [hf] at h
    obtain ⟨rfl, rfl⟩ := h
    exact ⟨rfl, by simp [cached, hf], fun _ _ => rfl⟩
  | none =>
    simp only [hf] at h
    cases hl : assetLookup kind env.specified env.containing env.file a.dirlist with
    | none => simp [hl] at h
    | some w =>
      simp only [hl, Option.some.injEq, Prod.mk.injEq] at h
      obtain ⟨rfl, rfl⟩ := h
      refine ⟨rfl, by simp [cached], fun k hk => ?_⟩
      have : ¬ (kind = k) := fun e => hk e.symm
      simp [cached, this]

/-- a session never changes the listing, and never changes or removes a cached answer -/
theorem run_effect (ops : List (Str × AskEnv)) : ∀ (a a' : AssetsObj) (vs : List AssetAnswer),
    a.run ops = some (a', vs) →
    a'.dirlist = a.dirlist ∧ vs.length = ops.length ∧ ∀ k v, cached a k = some v → cached a' k = some v := by
  induction ops with
  | nil =>
    intro a a' vs h
    simp [AssetsObj.run] at h
    obtain ⟨rfl, rfl⟩ := h
    exact ⟨rfl, rfl, fun _ _ h => h⟩
  | cons op rest ih =>
    intro a a' vs h
    obtain ⟨k0, env⟩ := op
    simp only [AssetsObj.run] at h
    cases h1 : a.ask k0 env with
    | none => simp [h1] at h
    | some r =>
      obtain ⟨a1, v1⟩ := r
      simp only [h1] at h
      cases h2 : a1.run rest with
      | none => simp [h2] at h
      | some r2 =>
        obtain ⟨a2, vs2⟩ := r2
        simp only [h2, Option.some.injEq, Prod.mk.injEq] at h
        obtain ⟨rfl, rfl⟩ := h
        obtain ⟨hd1, hc1, ho1⟩ := ask_effect a a1 k0 env v1 h1
        obtain ⟨hd2, hl2, hk2⟩ := ih a1 a2 vs2 h2
        refine ⟨hd2.trans hd1, by simp [hl2], fun k v hkv => hk2 k v ?_⟩
        by_cases e : k = k0
        · subst e
          -- the asked kind was cached already: the answer given is the cached one
          have := ask_cached a k env v hkv
          rw [this] at h1
          simp only [Option.some.injEq, Prod.mk.injEq] at h1
          obtain ⟨rfl, rfl⟩ := h1
          exact hkv
        · rw [ho1 k e]; exact hkv

/-- **Asked again, same answer**: once a kind has been answered, the same object gives that answer to every later
question about it — whatever was asked in between, and whatever the simfile and the filesystem say by then. -/
theorem asked_again (a a1 a2 : AssetsObj) (kind : Str) (env env' : AskEnv) (v : AssetAnswer)
    (between : List (Str × AskEnv)) (vs : List AssetAnswer)
    (h1 : a.ask kind env = some (a1, v)) (h2 : a1.run between = some (a2, vs)) :
    a2.ask kind env' = some (a2, v) := by
  obtain ⟨_, hc, _⟩ := ask_effect a a1 kind env v h1
  obtain ⟨_, _, hk⟩ := run_effect between a1 a2 vs h2
  exact ask_cached a2 kind env' v (hk kind v hc)

/-- **Kinds do not interfere**: on an object that has not been asked about `kind` yet, after any questions about
other kinds the answer is the pure lookup on the listing taken at construction. -/
theorem first_answer_is_lookup (a a1 : AssetsObj) (kind : Str) (env : AskEnv)
    (before : List (Str × AskEnv)) (vs : List AssetAnswer)
    (hfresh : cached a kind = none) (hother : ∀ op ∈ before, op.1 ≠ kind)
    (h : a.run before = some (a1, vs)) :
    (a1.ask kind env).map (·.2) = assetLookup kind env.specified env.containing env.file a.dirlist := by
  have key : a1.dirlist = a.dirlist ∧ cached a1 kind = none := by
    clear env
    induction before generalizing a vs with
    | nil =>
      simp [AssetsObj.run] at h
      obtain ⟨rfl, rfl⟩ := h
      exact ⟨rfl, hfresh⟩
    | cons op rest ih =>
      obtain ⟨k0, e0⟩ := op
      simp only [AssetsObj.run] at h
      cases h1 : a.ask k0 e0 with
      | none => simp [h1] at h
      | some r =>
        obtain ⟨b, w⟩ := r
        simp only [h1] at h
        cases h2 : b.run rest with
        | none => simp [h2] at h
        | some r2 =>
          obtain ⟨b2, ws⟩ := r2
          simp only [h2, Option.some.injEq, Prod.mk.injEq] at h
          obtain ⟨rfl, rfl⟩ := h
          obtain ⟨hd, _, ho⟩ := ask_effect a b k0 e0 w h1
          have hne : kind ≠ k0 := fun e => hother (k0, e0) (List.mem_cons_self ..) e.symm
          have := ih b ws (by rw [ho kind hne]; exact hfresh) (fun op hop => hother op (List.mem_cons_of_mem _ hop)) h2
          exact ⟨this.1.trans hd, this.2⟩
  rw [ask_fresh a1 kind env key.2, key.1]
  cases assetLookup kind env.specified env.containing env.file a.dirlist <;> rfl

/-- the answer a session gives to its `i`-th question, for an object in any state: the cached answer if the kind
was cached when the session began, else the lookup made with the environment of the session's *first* question
about that kind, on the object's listing -/
theorem run_answers (ops : List (Str × AskEnv)) : ∀ (a a' : AssetsObj) (vs : List AssetAnswer),
    a.run ops = some (a', vs) →
    ∀ (i : Nat) k env, ops[i]? = some (k, env) →
      ∃ v, vs[i]? = some v ∧
        match cached a k with
        | some c => v = c
        | none => ∃ e0, ops.find? (·.1 = k) = some (k, e0) ∧
                    some v = assetLookup k e0.specified e0.containing e0.file a.dirlist := by
  induction ops with
  | nil => intro a a' vs _ i k env hi; simp at hi
  | cons op rest ih =>
    intro a a' vs h i k env hi
    obtain ⟨k0, e0⟩ := op
    simp only [AssetsObj.run] at h
    cases h1 : a.ask k0 e0 with
    | none => simp [h1] at h
    | some r =>
      obtain ⟨a1, v1⟩ := r
      simp only [h1] at h
      cases h2 : a1.run rest with
      | none => simp [h2] at h
      | some r2 =>
        obtain ⟨a2, vs2⟩ := r2
        simp only [h2, Option.some.injEq, Prod.mk.injEq] at h
        obtain ⟨rfl, rfl⟩ := h
        obtain ⟨hd1, hc1, ho1⟩ := ask_effect a a1 k0 e0 v1 h1
        -- what the first question answered
        have first : match cached a k0 with
            | some c => v1 = c
            | none => some v1 = assetLookup k0 e0.specified e0.containing e0.file a.dirlist := by
          cases hc : cached a k0 with
          | some c =>
            rw [ask_cached a k0 e0 c hc] at h1
            simp only [Option.some.injEq, Prod.mk.injEq] at h1
            exact h1.2.symm
          | none =>
            rw [ask_fresh a k0 e0 hc] at h1
            cases hl : assetLookup k0 e0.specified e0.containing e0.file a.dirlist with
            | none => simp [hl] at h1
            | some w => simp [hl] at h1; simp [h1.2]
        cases i with
        | zero =>
          simp only [List.getElem?_cons_zero, Option.some.injEq, Prod.mk.injEq] at hi
          obtain ⟨rfl, rfl⟩ := hi
          refine ⟨v1, by simp, ?_⟩
          cases hc : cached a k0 with
          | some c => simp only [hc] at first; exact first
          | none =>
            simp only [hc] at first
            exact ⟨e0, by simp, first⟩
        | succ n =>
          simp only [List.getElem?_cons_succ] at hi
          obtain ⟨v, hv, hm⟩ := ih a1 a2 vs2 h2 n k env hi
          refine ⟨v, by simp [hv], ?_⟩
          by_cases e : k = k0
          · subst e
            rw [hc1] at hm
            simp only at hm
            subst hm
            cases hc : cached a k with
            | some c => simp only [hc] at first; exact first
            | none =>
              simp only [hc] at first
              exact ⟨e0, by simp, first⟩
          · rw [ho1 k e] at hm
            cases hc : cached a k with
            | some c => simp only [hc] at hm; exact hm
            | none =>
              simp only [hc] at hm
              obtain ⟨e1, hf, hl⟩ := hm
              have hne : ¬ (k0 = k) := fun x => e x.symm
              exact ⟨e1, by simp [hne, hf], by rw [← hd1]; exact hl⟩

/-- **A session is a memo table over the pure lookup.** From a freshly built object, every answer of any session is
the pure lookup `assetLookup` on the listing taken at construction, made with the environment of the session's
first question about that kind: later questions, about this or any other kind, change nothing. -/
theorem session_is_memo (dirlist : List Str) (ops : List (Str × AskEnv)) (a' : AssetsObj) (vs : List AssetAnswer)
    (h : (AssetsObj.fresh dirlist).run ops = some (a', vs)) :
    a'.dirlist = dirlist ∧ vs.length = ops.length ∧
    ∀ (i : Nat) k env, ops[i]? = some (k, env) →
      ∃ v e0, vs[i]? = some v ∧ ops.find? (·.1 = k) = some (k, e0) ∧
        some v = assetLookup k e0.specified e0.containing e0.file dirlist := by
  obtain ⟨hd, hl, _⟩ := run_effect ops _ a' vs h
  refine ⟨hd, hl, fun i k env hi => ?_⟩
  obtain ⟨v, hv, hm⟩ := run_answers ops _ a' vs h i k env hi
  have : cached (AssetsObj.fresh dirlist) k = none := rfl
  rw [this] at hm
  obtain ⟨e0, hf, hl⟩ := hm
  exact ⟨v, e0, hv, hf, hl⟩

/-- non-vacuity: a session on a real listing, answered; the file that matches two kinds' patterns serves both -/
example :
    ((AssetsObj.fresh ["jacket-bg.png".toList, "song.ogg".toList]).run
      [("JACKET".toList, ⟨none, none, []⟩), ("BACKGROUND".toList, ⟨none, none, []⟩), ("JACKET".toList, ⟨some "x".toList, none, "x".toList⟩)]).map (·.2)
    = some [some (.inr "jacket-bg.png".toList), some (.inr "jacket-bg.png".toList), some (.inr "jacket-bg.png".toList)] := by
  decide +kernel

end Simfile.C20
