/-
C18, second round: the whole OrderedDict interface (`VOpX`: the property's alphabet plus `clear`, `setdefault`,
`move_to_end`).  SM charts keep exactly their six keys (up to order) through every history; which operations are
refused is characterised on the syntax of the operation; the serialized chart shows the six fields in the
documented order, whatever the order of the keys, each with the value last assigned to it; the generic classes
under the three extra operations; the two views agree after every history.
-/
import Simfile.Props.C18
import Simfile.Lemmas.ViewsMoreFinal
namespace Simfile.C18More
open Simfile Simfile.O Simfile.V Simfile.VX

/-! ### 1. SM charts: the six keys through the whole interface -/

/-- "an SM chart always exposes its six fixed fields", for every history over the whole interface: starting from a
mapping whose keys are the six in some order, the keys stay the six (in some order, without repetition), and a
history without `move_to_end` leaves the key list exactly as it was. -/
theorem smchart_keys_fixed_X (d : Dict) (ops : List VOpX) (h : (Dict.keys d).Perm T.smChartProperties) :
    (Dict.keys (vrunX .smChart d ops).1).Perm T.smChartProperties ∧
    (Dict.keys (vrunX .smChart d ops).1).Nodup ∧
    ((∀ op ∈ ops, ∀ key last, op ≠ .moveToEnd key last) → Dict.keys (vrunX .smChart d ops).1 = Dict.keys d) :=
  ⟨sm_run_six d h ops, (sm_run_six d h ops).WF, sm_run_keys_nomove d h ops⟩

/-- the existing `C18.smchart_keys_fixed` (basic alphabet, keys in the documented order) is the `base` instance -/
theorem smchart_keys_fixed_base (d : Dict) (ops : List VOp) (h : Dict.keys d = T.smChartProperties) :
    Dict.keys (vrunX .smChart d (ops.map .base)).1 = T.smChartProperties := by
  rw [← vrun_eq_vrunX]; exact C18.smchart_keys_fixed d ops h

/-- `move_to_end` on an SM chart: one of the six keys goes to the chosen end, the others keep their relative
order, nothing is removed and no value changes -/
theorem smchart_move_order (d : Dict) (h : (Dict.keys d).Perm T.smChartProperties) (key : Str) (last : Bool)
    (hk : key ∈ T.smChartProperties) :
    (vstepX .smChart d (.moveToEnd key last)).2 = .done ∧
    Dict.keys (vstepX .smChart d (.moveToEnd key last)).1 =
      (if last then (Dict.keys d).filter (fun x => x ≠ key) ++ [key]
       else key :: (Dict.keys d).filter (fun x => x ≠ key)) ∧
    (vstepX .smChart d (.moveToEnd key last)).1.Perm d ∧
    ∀ k', (vstepX .smChart d (.moveToEnd key last)).1.get? k' = d.get? k' := by
  obtain ⟨v, hv⟩ := Six.get?_some h key hk
  rw [vstepX_moveToEnd_some _ d key last v hv]
  exact ⟨rfl, keys_move d key v last, move_perm d key v last (Six.WF h) hv, get?_move d key v last hv⟩

example : (Dict.keys T.blankSMChart).Perm T.smChartProperties := by decide
example : (Dict.keys (T.blankSMChart.reverse)).Perm T.smChartProperties ∧
    Dict.keys T.blankSMChart.reverse ≠ T.smChartProperties := by decide
example : Dict.keys (vrunX .smChart T.blankSMChart
      [.clear, .moveToEnd "STEPSTYPE".toList true, .setDefault "CREDIT".toList "x".toList,
       .base (.setKey "METER".toList "9".toList), .moveToEnd "NOTES".toList false]).1 =
    ["NOTES".toList, "DESCRIPTION".toList, "DIFFICULTY".toList, "METER".toList, "RADARVALUES".toList,
     "STEPSTYPE".toList] := by decide +kernel

/-- "attempts to add or remove keys are refused", for the whole interface and on the syntax of the operation.
On a mapping holding the six keys (any order):
* an operation goes through (`done`) iff it is an assignment, by upper-case key or by attribute, to one of the six
  fields, or a `move_to_end` of one of the six keys;
* it raises NotImplementedError iff it is `clear`, `del`, `pop`, `popitem`, `update`, or `del` of one of the six
  attributes;
* it raises KeyError iff it is a read, assignment, `setdefault` or `move_to_end` of a key outside the six;
* it raises AttributeError iff it reads, assigns or deletes an attribute that is none of the six;
* whenever it does not go through, the mapping is unchanged; an assignment stores the value under that key
  (position kept), a move is the reordering of `smchart_move_order`.
In particular `setdefault` never writes (all six keys are present, every other key is refused). -/
theorem smchart_refusals (d : Dict) (h : (Dict.keys d).Perm T.smChartProperties) (op : VOpX) :
    ((vstepX .smChart d op).2 = .done ↔
      (∃ key ∈ T.smChartProperties, ∃ v, op = .base (.setKey key v) ∨ op = .base (.setAttr (lower key) v)) ∨
      (∃ key ∈ T.smChartProperties, ∃ last, op = .moveToEnd key last)) ∧
    ((vstepX .smChart d op).2 = .notImplemented ↔
      op = .clear ∨ (∃ key, op = .base (.delKey key)) ∨ (∃ key, op = .base (.pop key)) ∨ op = .base .popitem ∨
      (∃ key v, op = .base (.update key v)) ∨ (∃ key ∈ T.smChartProperties, op = .base (.delAttr (lower key)))) ∧
    ((vstepX .smChart d op).2 = .keyError ↔
      ∃ key, key ∉ T.smChartProperties ∧
        (op = .base (.getKey key) ∨ (∃ v, op = .base (.setKey key v)) ∨ (∃ v, op = .setDefault key v) ∨
         (∃ last, op = .moveToEnd key last))) ∧
    ((vstepX .smChart d op).2 = .attributeError ↔
      ∃ a, (∀ key ∈ T.smChartProperties, lower key ≠ a) ∧
        (op = .base (.getAttr a) ∨ (∃ v, op = .base (.setAttr a v)) ∨ op = .base (.delAttr a))) ∧
    ((vstepX .smChart d op).2 ≠ .done → (vstepX .smChart d op).1 = d) ∧
    (∀ key ∈ T.smChartProperties, ∀ v, (op = .base (.setKey key v) ∨ op = .base (.setAttr (lower key) v)) →
      (vstepX .smChart d op).1 = d.set key (some v) ∧ Dict.keys (vstepX .smChart d op).1 = Dict.keys d) := by
  refine ⟨?_, ?_, ?_, ?_, ?_, ?_⟩
  · rw [sm_done_iff d h op, smEffective_iff]
  · rw [sm_out_iff d h op _ (Or.inr (Or.inl rfl)), ← smClass_notImpl_iff]
    cases smClass op <;> simp [classOut]
  · rw [sm_out_iff d h op _ (Or.inr (Or.inr (Or.inl rfl))), ← smClass_keyErr_iff]
    cases smClass op <;> simp [classOut]
  · rw [sm_out_iff d h op _ (Or.inr (Or.inr (Or.inr rfl))), ← smClass_attrErr_iff]
    cases smClass op <;> simp [classOut]
  · intro hn
    apply sm_unchanged d h op
    cases he : smEffective op with
    | false => rfl
    | true => exact absurd ((sm_done_iff d h op).mpr he) hn
  · intro key hk v ho
    have hs := smClass_spec d h op
    rw [(smClass_assign_iff op key v).mpr ⟨hk, ho⟩] at hs
    rw [hs.2]
    exact ⟨rfl, Six.set h key hk _⟩

/-- the same at the level of histories: whether an operation goes through does not depend on the state, and the
operations that do not (refused ones and reads) can be deleted from a history without changing the final mapping -/
theorem smchart_refusals_history (d : Dict) (h : (Dict.keys d).Perm T.smChartProperties) (ops : List VOpX) :
    (∀ d', (Dict.keys d').Perm T.smChartProperties → ∀ op,
      ((vstepX .smChart d' op).2 = .done ↔ (vstepX .smChart d op).2 = .done)) ∧
    (vrunX .smChart d ops).1 =
      (vrunX .smChart d (ops.filter fun op => decide ((vstepX .smChart d op).2 = .done))).1 := by
  refine ⟨fun d' h' op => by rw [sm_done_iff d h op, sm_done_iff d' h' op], ?_⟩
  rw [sm_run_filter d h ops]
  congr 2
  apply List.filter_congr
  intro op _
  cases he : smEffective op with
  | true => exact (decide_eq_true ((sm_done_iff d h op).mpr he)).symm
  | false =>
    symm
    apply decide_eq_false
    intro hd
    rw [(sm_done_iff d h op).mp hd] at he; cases he

example : (vrunX .smChart T.blankSMChart
      [.clear, .setDefault "METER".toList "7".toList, .setDefault "CREDIT".toList "x".toList,
       .base (.update "METER".toList "7".toList), .base .popitem, .base (.delAttr "meter".toList),
       .base (.setAttr "credit".toList "x".toList), .moveToEnd "CREDIT".toList true]) =
    (T.blankSMChart, [.notImplemented, .value (some "1".toList), .keyError, .notImplemented, .notImplemented,
      .notImplemented, .attributeError, .keyError]) := by decide +kernel

/-! ### 2. SM charts: last write wins, and the serialized chart -/

/-- the value found under one of the six keys after a history over the whole interface is the last one assigned to
that field by upper-case key or by attribute; a field never assigned keeps its initial value -/
theorem last_write_wins_sm (d : Dict) (h : (Dict.keys d).Perm T.smChartProperties) (key : Str)
    (hk : key ∈ T.smChartProperties) :
    (∀ pre post op v, (op = .base (.setKey key v) ∨ op = .base (.setAttr (lower key) v)) →
      (∀ o ∈ post, ∀ w, o ≠ .base (.setKey key w) ∧ o ≠ .base (.setAttr (lower key) w)) →
      (vrunX .smChart d (pre ++ op :: post)).1.get? key = some (some v)) ∧
    (∀ ops, (∀ o ∈ ops, ∀ w, o ≠ .base (.setKey key w) ∧ o ≠ .base (.setAttr (lower key) w)) →
      (vrunX .smChart d ops).1.get? key = d.get? key) := by
  constructor
  · intro pre post op v hop hpost
    rw [sm_run_get? d h key hk,
      lastWrite_split key pre post op v ((smWrites_eq_some_iff key op v).mpr hop)
        (fun o ho => (smWrites_eq_none_iff key o).mpr (hpost o ho))]
  · intro ops hn
    rw [sm_run_get? d h key hk,
      lastWrite_eq_none key ops (fun o ho => (smWrites_eq_none_iff key o).mpr (hn o ho))]

/-- `lastWrite key ops` (the function used to state `smchart_serialization`) is the value of the last assignment
to the field `key` in the history, `none` when there is none -/
theorem lastWrite_spec (key : Str) (ops : List VOpX) :
    (∀ v, lastWrite key ops = some v ↔
      ∃ pre op post, ops = pre ++ op :: post ∧
        (op = .base (.setKey key v) ∨ op = .base (.setAttr (lower key) v)) ∧
        ∀ o ∈ post, ∀ w, o ≠ .base (.setKey key w) ∧ o ≠ .base (.setAttr (lower key) w)) ∧
    (lastWrite key ops = none ↔
      ∀ o ∈ ops, ∀ w, o ≠ .base (.setKey key w) ∧ o ≠ .base (.setAttr (lower key) w)) := by
  constructor
  · intro v
    rw [lastWrite_eq_some_iff]
    constructor
    · rintro ⟨pre, op, post, e, h1, h2⟩
      exact ⟨pre, op, post, e, (smWrites_eq_some_iff key op v).mp h1,
        fun o ho => (smWrites_eq_none_iff key o).mp (h2 o ho)⟩
    · rintro ⟨pre, op, post, e, h1, h2⟩
      exact ⟨pre, op, post, e, (smWrites_eq_some_iff key op v).mpr h1,
        fun o ho => (smWrites_eq_none_iff key o).mpr (h2 o ho)⟩
  · rw [lastWrite_eq_none_iff]
    constructor
    · intro h o ho; exact (smWrites_eq_none_iff key o).mp (h o ho)
    · intro h o ho; exact (smWrites_eq_none_iff key o).mpr (h o ho)

/-- last write wins for every class over the property's own alphabet: after a successful write of `v` under `key`
(by `setAttr`, `setKey` or `update`), followed by operations none of which acts on `key`, `key` holds `v` -/
theorem last_write_wins (k : Kind) (d : Dict) (pre post : List VOp) (op : VOp) (key v : Str)
    (hv : written op = some v)
    (hd : (vstep k (vrun k d pre).1 op).2 = .done)
    (he : effKey k (vrun k d pre).1 op = some key)
    (hpost : ∀ i (hi : i < post.length),
      effKey k (vrun k (vstep k (vrun k d pre).1 op).1 (post.take i)).1 post[i] ≠ some key) :
    (vrun k d (pre ++ op :: post)).1.get? key = some (some v) := by
  rw [vrun_append_fst, vrun_cons, vrun_get?_untouched k _ post key hpost,
    vstep_written k _ op key v hv hd he, get?_set_self]

example : written (.setAttr "stops".toList "1=2".toList) = some "1=2".toList ∧
    (vstep .smSimfile (vrun .smSimfile [("FREEZES".toList, some "x".toList)] [.getKey "TITLE".toList]).1
      (.setAttr "stops".toList "1=2".toList)).2 = .done ∧
    effKey .smSimfile (vrun .smSimfile [("FREEZES".toList, some "x".toList)] [.getKey "TITLE".toList]).1
      (.setAttr "stops".toList "1=2".toList) = some "FREEZES".toList := by decide

/-- the whole final mapping in closed form: after any history over the whole interface the SM chart holds, up to
the order of its keys, the initial items with every assigned field set to its last assigned value — nothing added,
nothing removed; and exactly that mapping, in the initial order, when the history has no `move_to_end` -/
theorem smchart_final_mapping (d : Dict) (h : (Dict.keys d).Perm T.smChartProperties) (ops : List VOpX) :
    (vrunX .smChart d ops).1.Perm
      (d.map fun kv => (kv.1, match lastWrite kv.1 ops with | some v => some v | none => kv.2)) ∧
    ((∀ op ∈ ops, ∀ key last, op ≠ .moveToEnd key last) →
      (vrunX .smChart d ops).1 =
        d.map fun kv => (kv.1, match lastWrite kv.1 ops with | some v => some v | none => kv.2)) :=
  ⟨sm_run_final_perm d h ops, sm_run_final_eq d h ops⟩

/-- the mapping of an SM chart is read by the serializer key by key: mappings with the same items in different
orders serialize alike -/
theorem smchart_serialization_order_free (d1 d2 : Dict) (e : Option (List Str)) (hp : d1.Perm d2)
    (hw : Dict.WF d2) : smChartParam ⟨d1, e⟩ = smChartParam ⟨d2, e⟩ := by
  unfold smChartParam
  simp only [get?_perm hp hw]

/-- "assignments … are visible … in the serialized chart in the documented field order": after any history over
the whole interface, from a mapping holding the six keys in any order, the NOTES parameter written for the chart
has the components NOTES, then STEPSTYPE, DESCRIPTION, DIFFICULTY, METER, RADARVALUES (each after the indent) and the
note data between line breaks, then the extra components — in this order whatever the order of the keys — and
each field shows the value last assigned to it (`lastWrite`, see `lastWrite_spec`), or its initial value. -/
theorem smchart_serialization (d : Dict) (e : Option (List Str)) (ops : List VOpX)
    (h : (Dict.keys d).Perm T.smChartProperties) :
    (smChartParam ⟨(vrunX .smChart d ops).1, e⟩).comps =
      (fun (val : Str → Str) =>
        [ "NOTES".toList,
          smIndent ++ val "STEPSTYPE".toList,
          smIndent ++ val "DESCRIPTION".toList,
          smIndent ++ val "DIFFICULTY".toList,
          smIndent ++ val "METER".toList,
          smIndent ++ val "RADARVALUES".toList,
          nl ++ val "NOTES".toList ++ nl ] ++ e.getD [])
      (fun key => match lastWrite key ops with
        | some v => v
        | none => fmtAttr (d.get? key)) := by
  have hf : ∀ key ∈ T.smChartProperties, fmtAttr ((vrunX .smChart d ops).1.get? key) =
      (match lastWrite key ops with | some v => v | none => fmtAttr (d.get? key)) := by
    intro key hk
    rw [sm_run_get? d h key hk]
    cases lastWrite key ops <;> rfl
  unfold smChartParam
  simp only []
  rw [hf _ (by decide), hf _ (by decide), hf _ (by decide), hf _ (by decide), hf _ (by decide), hf _ (by decide)]
  rfl

/-- `move_to_end` (and every refused operation) never shows in the serialization: deleting from the history
everything but the assignments to the six fields leaves the serialized chart unchanged -/
theorem smchart_serialization_moves (d : Dict) (e : Option (List Str)) (ops : List VOpX)
    (h : (Dict.keys d).Perm T.smChartProperties) (p : VOpX → Bool)
    (hp : ∀ op ∈ ops, p op = false → ∀ key ∈ T.smChartProperties, ∀ v,
      op ≠ .base (.setKey key v) ∧ op ≠ .base (.setAttr (lower key) v)) :
    smChartParam ⟨(vrunX .smChart d (ops.filter p)).1, e⟩ = smChartParam ⟨(vrunX .smChart d ops).1, e⟩ := by
  have hf : ∀ key ∈ T.smChartProperties,
      (vrunX .smChart d (ops.filter p)).1.get? key = (vrunX .smChart d ops).1.get? key := by
    intro key hk
    rw [sm_run_get? d h key hk, sm_run_get? d h key hk, lastWrite_filter key p ops]
    intro op ho hpo
    exact (smWrites_eq_none_iff key op).mpr (fun w => hp op ho hpo key hk w)
  unfold smChartParam
  simp only []
  rw [hf _ (by decide), hf _ (by decide), hf _ (by decide), hf _ (by decide), hf _ (by decide), hf _ (by decide)]

example : (smChartParam ⟨(vrunX .smChart T.blankSMChart
      [.moveToEnd "STEPSTYPE".toList true, .base (.setKey "METER".toList "9".toList),
       .base (.setAttr "meter".toList "12".toList), .moveToEnd "NOTES".toList false,
       .base (.setAttr "description".toList "K".toList), .clear]).1, some ["x".toList]⟩).comps.take 5 =
    ["NOTES".toList, "\n     dance-single".toList, "\n     K".toList, "\n     Beginner".toList,
     "\n     12".toList] := by decide +kernel
example : lastWrite "METER".toList
      [.moveToEnd "STEPSTYPE".toList true, .base (.setKey "METER".toList "9".toList),
       .base (.setAttr "meter".toList "12".toList), .clear] = some "12".toList := by decide +kernel

/-! ### 3. the generic classes under the three extra operations -/

/-- `clear` on a simfile or SSC chart: nothing is left, and every known attribute then reads `None` -/
theorem clear_empties (k : Kind) (hk : k ≠ .smChart) (d : Dict) :
    vstepX k d .clear = ([], .done) ∧
    (∀ key, (vstepX k d .clear).1.get? key = none) ∧
    (∀ a, attrKey k d a ≠ none → vstepX k (vstepX k d .clear).1 (.base (.getAttr a)) = ([], .value none)) := by
  have e : vstepX k d .clear = ([], .done) := by rw [vstepX_clear, if_neg hk]
  refine ⟨e, fun key => by rw [e]; rfl, fun a ha => ?_⟩
  rw [e, vstepX_base, vstep_getAttr]
  cases hk' : attrKey k [] a with
  | none => exact absurd (attrKey_none k [] d a hk') ha
  | some key => simp only []; rw [attrGet_of_key k [] a key hk']; rfl

/-- `setdefault` on a simfile or SSC chart never overwrites: a present key keeps its value, which is returned (also
when that value is `None`); an absent key is appended with the default, which is returned; other keys are untouched -/
theorem setDefault_spec (k : Kind) (hk : k ≠ .smChart) (d : Dict) (key v : Str) :
    (∀ s, d.get? key = some s → vstepX k d (.setDefault key v) = (d, .value s)) ∧
    (d.get? key = none → vstepX k d (.setDefault key v) = (d ++ [(key, some v)], .value (some v))) ∧
    (∀ k', k' ≠ key → (vstepX k d (.setDefault key v)).1.get? k' = d.get? k') ∧
    (vstepX k d (.setDefault key v)).1.get? key = some ((d.get? key).getD (some v)) := by
  have hk' : (k = .smChart) = False := by simpa using hk
  have hpres : ∀ s, d.get? key = some s → vstepX k d (.setDefault key v) = (d, .value s) := by
    intro s hs
    have hc : d.contains key = true := by rw [contains_eq, hs]; rfl
    rw [vstepX_setDefault, if_pos hc, if_neg hk, hs]; rfl
  have habs : d.get? key = none → vstepX k d (.setDefault key v) = (d ++ [(key, some v)], .value (some v)) := by
    intro hn
    have hc : ¬ d.contains key = true := by rw [contains_eq, hn]; simp
    rw [vstepX_setDefault, if_neg hc, set_of_not_mem _ _ _ ((get?_eq_none_iff d key).mp hn)]
    simp [hk']
  refine ⟨hpres, habs, fun k' hne => ?_, ?_⟩
  · cases hg : d.get? key with
    | some s => rw [hpres s hg]
    | none => rw [habs hg]; exact get?_append_ne d key k' _ hne
  · cases hg : d.get? key with
    | some s => rw [hpres s hg]; exact hg
    | none =>
      rw [habs hg, ← set_of_not_mem _ _ _ ((get?_eq_none_iff d key).mp hg)]
      exact get?_set_self _ _ _

/-- `move_to_end` (any class): an absent key is a KeyError; a present key goes to the chosen end, the items are
the same up to order, the other keys keep their relative order, and no lookup changes -/
theorem moveToEnd_spec (k : Kind) (d : Dict) (key : Str) (last : Bool) :
    (d.get? key = none → vstepX k d (.moveToEnd key last) = (d, .keyError)) ∧
    (d.get? key ≠ none → (vstepX k d (.moveToEnd key last)).2 = .done ∧
      Dict.keys (vstepX k d (.moveToEnd key last)).1 =
        (if last then (Dict.keys d).filter (fun x => x ≠ key) ++ [key]
         else key :: (Dict.keys d).filter (fun x => x ≠ key)) ∧
      (Dict.WF d → (vstepX k d (.moveToEnd key last)).1.Perm d)) ∧
    (∀ k', (vstepX k d (.moveToEnd key last)).1.get? k' = d.get? k') := by
  cases hg : d.get? key with
  | none =>
    rw [vstepX_moveToEnd_none k d key last hg]
    exact ⟨fun _ => rfl, fun hn => absurd rfl hn, fun _ => rfl⟩
  | some v =>
    rw [vstepX_moveToEnd_some k d key last v hg]
    exact ⟨fun hn => (by cases hn),
      fun _ => ⟨rfl, keys_move d key v last, fun hw => move_perm d key v last hw hg⟩,
      get?_move d key v last hg⟩

/-- key uniqueness is an invariant of every history over the whole interface, for every class
(extends `C18.wf_invariant`) -/
theorem wf_invariant_X (k : Kind) (d : Dict) (ops : List VOpX) (h : Dict.WF d) : Dict.WF (vrunX k d ops).1 :=
  vrunX_WF k d ops h

example : vrunX .smSimfile [("TITLE".toList, some "x".toList), ("ARTIST".toList, none)]
      [.setDefault "ARTIST".toList "me".toList, .setDefault "FREEZES".toList "1=2".toList,
       .base (.getAttr "stops".toList), .moveToEnd "TITLE".toList true, .base .items, .clear,
       .base (.getAttr "stops".toList)] =
    ([], [.value none, .value (some "1=2".toList), .value (some "1=2".toList), .done,
      .items [("ARTIST".toList, none), ("FREEZES".toList, some "1=2".toList), ("TITLE".toList, some "x".toList)],
      .done, .value none]) := by decide +kernel

/-! ### 4. the two views agree after every history -/

/-- after any history over the whole interface, a known attribute reads the standard key, or the alias exactly
when the alias is present and the standard key is not, and `None` when neither is -/
theorem views_agree_X (k : Kind) (d : Dict) (ops : List VOpX) (a key : Str) (alias : Option Str)
    (h : (propsTable k).find? (·.1 = a) = some (a, key, alias)) :
    ∃ r, vstepX k (vrunX k d ops).1 (.base (.getAttr a)) = ((vrunX k d ops).1, .value r) ∧
      (((vrunX k d ops).1.contains key = true ∨ alias = none) → r = ((vrunX k d ops).1.get? key).join) ∧
      (∀ al, alias = some al → (vrunX k d ops).1.contains key = false → (vrunX k d ops).1.contains al = true →
        r = ((vrunX k d ops).1.get? al).join) ∧
      ((vrunX k d ops).1.contains key = false →
        (∀ al, alias = some al → (vrunX k d ops).1.contains al = false) → r = none) := by
  refine ⟨attrGet k (vrunX k d ops).1 a, ?_, C18.attr_reads k (vrunX k d ops).1 a key alias h⟩
  rw [vstepX_base, vstep_getAttr, attrKey_of_find k _ a key alias h]

/-- … and, outside SM charts, reading that key directly gives the same value (a KeyError when it is absent,
where the attribute reads `None`) -/
theorem views_agree_keys_X (k : Kind) (hk : k ≠ .smChart) (d : Dict) (ops : List VOpX) (a key : Str)
    (h : attrKey k (vrunX k d ops).1 a = some key) :
    vstepX k (vrunX k d ops).1 (.base (.getAttr a)) =
      ((vrunX k d ops).1, .value ((vrunX k d ops).1.get? key).join) ∧
    (∀ v, (vrunX k d ops).1.get? key = some v →
      vstepX k (vrunX k d ops).1 (.base (.getKey key)) = ((vrunX k d ops).1, .value v)) ∧
    ((vrunX k d ops).1.get? key = none →
      vstepX k (vrunX k d ops).1 (.base (.getKey key)) = ((vrunX k d ops).1, .keyError)) :=
  C18.views_agree k hk (vrunX k d ops).1 a key h

/-- for an SM chart after any history: each of the six fields is present, and reading it by upper-case key, by
attribute or through `setdefault` gives the stored value -/
theorem smchart_views_agree_X (d : Dict) (h : (Dict.keys d).Perm T.smChartProperties) (ops : List VOpX)
    (key : Str) (hk : key ∈ T.smChartProperties) (w : Str) :
    ∃ s, (vrunX .smChart d ops).1.get? key = some s ∧
      vstepX .smChart (vrunX .smChart d ops).1 (.base (.getKey key)) = ((vrunX .smChart d ops).1, .value s) ∧
      vstepX .smChart (vrunX .smChart d ops).1 (.base (.getAttr (lower key))) =
        ((vrunX .smChart d ops).1, .value s) ∧
      vstepX .smChart (vrunX .smChart d ops).1 (.setDefault key w) = ((vrunX .smChart d ops).1, .value s) := by
  have h' := sm_run_six d h ops
  generalize (vrunX .smChart d ops).1 = d' at h'
  obtain ⟨s, hs⟩ := Six.get?_some h' key hk
  have hg : attrGet .smChart d' (lower key) = s := by rw [sm_attrGet d' key hk, hs]; rfl
  have hc : T.smChartProperties.contains key = true := by simpa using hk
  refine ⟨s, hs, ?_, ?_, ?_⟩
  · rw [vstepX_base, vstep_getKey]; simp only [if_true]; rw [if_pos hc, hg]
  · rw [vstepX_base, vstep_getAttr, smChart_attrKey_of_mem d' key hk, hg]
  · have hc' : d'.contains key = true := by rw [Six.contains h']; exact hc
    rw [vstepX_setDefault, if_pos hc']; simp only [if_true]; rw [if_pos hc, hg]

example : (propsTable .sscChart).find? (·.1 = "notes".toList) =
    some ("notes".toList, "NOTES".toList, some "NOTES2".toList) := by decide
example : vstepX .sscChart (vrunX .sscChart [("NOTES2".toList, some "0000".toList)]
      [.moveToEnd "NOTES2".toList false, .setDefault "NOTES2".toList "1".toList]).1 (.base (.getAttr "notes".toList)) =
    ([("NOTES2".toList, some "0000".toList)], .value (some "0000".toList)) := by decide

end Simfile.C18More
