/-
C19 — simfile discovery: extension matching, `SimfileDirectory` (which .sm / .ssc entry is found, duplicates),
`SimfileDirectory.open` (SSC preferred), `SimfilePack` (which sub-directories are simfile directories).
Vocabulary (Simfile/Lemmas/Dir.lean):
  `DirL.isSm n  = endsWith (lower n) ".sm"`,  `DirL.isSsc n = endsWith (lower n) ".ssc"`  (pinned below).
-/
import Simfile.Lemmas.Dir
namespace Simfile.C19
open Simfile Simfile.DirL

/-! ### 11. extension matching -/

theorem exts : T.simfileExts = [".ssc".toList, ".sm".toList] := by decide

theorem isSm_def (name : Str) : isSm name = endsWith (lower name) ".sm".toList := by
  have : ".sm".toList = extSM := by decide
  rw [this]; rfl

theorem isSsc_def (name : Str) : isSsc name = endsWith (lower name) ".ssc".toList := by
  have : ".ssc".toList = extSSC := by decide
  rw [this]; rfl

theorem ext_match_sm (name : Str) :
    extMatch name T.simfileExts = some ".sm".toList ↔ endsWith (lower name) ".sm".toList = true := by
  have : ".sm".toList = extSM := by decide
  rw [this]
  exact extMatch_eq_sm_iff name

theorem ext_match_ssc (name : Str) :
    extMatch name T.simfileExts = some ".ssc".toList ↔ endsWith (lower name) ".ssc".toList = true := by
  have : ".ssc".toList = extSSC := by decide
  rw [this]
  exact extMatch_eq_ssc_iff name

/-- the two extensions exclude each other, so the order of the table does not matter -/
theorem sm_ssc_exclusive (s : Str) : ¬ (endsWith s ".sm".toList = true ∧ endsWith s ".ssc".toList = true) := by
  have e1 : ".sm".toList = extSM := by decide
  have e2 : ".ssc".toList = extSSC := by decide
  rw [e1, e2]
  rintro ⟨h1, h2⟩
  rw [not_sm_of_ssc s h2] at h1
  cases h1

theorem ext_match_none (name : Str) :
    extMatch name T.simfileExts = none ↔
      endsWith (lower name) ".sm".toList = false ∧ endsWith (lower name) ".ssc".toList = false := by
  rw [← isSm_def, ← isSsc_def, extMatch_simfile]
  cases isSsc name <;> cases isSm name <;> simp

/-- in general: the answer is an extension of the list that the lower-cased name ends with, the first such -/
theorem ext_match_general (name : Str) (es : List Str) (e : Str) :
    extMatch name es = some e ↔
      ∃ pre post, es = pre ++ e :: post ∧ endsWith (lower name) e = true ∧
        ∀ x ∈ pre, endsWith (lower name) x = false := by
  unfold extMatch
  rw [List.find?_eq_some_iff_append]
  constructor
  · rintro ⟨h, pre, post, rfl, hpre⟩
    exact ⟨pre, post, rfl, h, fun x hx => by simpa using hpre x hx⟩
  · rintro ⟨pre, post, rfl, h, hpre⟩
    exact ⟨h, pre, post, rfl, fun x hx => by simpa using hpre x hx⟩

-- near misses and case-insensitivity
example : extMatch "x.sm.old".toList T.simfileExts = none := by decide +kernel
example : extMatch "y.ssca".toList T.simfileExts = none := by decide +kernel
example : extMatch "sm".toList T.simfileExts = none := by decide +kernel
example : extMatch "ssc".toList T.simfileExts = none := by decide +kernel
example : extMatch "x.sm ".toList T.simfileExts = none := by decide +kernel
example : extMatch "x.s.m".toList T.simfileExts = none := by decide +kernel
example : extMatch "Song.SM".toList T.simfileExts = some ".sm".toList := by decide +kernel
example : extMatch "Song.Ssc".toList T.simfileExts = some ".ssc".toList := by decide +kernel
example : extMatch ".sm".toList T.simfileExts = some ".sm".toList := by decide +kernel
example : extMatch "a.ssc.sm".toList T.simfileExts = some ".sm".toList := by decide +kernel

/-! ### 12. scanning a directory -/

/-- a successful scan reports the FIRST .sm entry and the FIRST .ssc entry of the listing -/
theorem dir_paths (listing : List Str) (ign : Bool) (sd : SimDir) (h : scanDir listing ign = .ok sd) :
    sd.sm = listing.find? (fun n => endsWith (lower n) ".sm".toList) ∧
    sd.ssc = listing.find? (fun n => endsWith (lower n) ".ssc".toList) := by
  rw [scanDir_char] at h
  split at h
  · cases h
  · cases h
    have e1 : (fun n => endsWith (lower n) ".sm".toList) = isSm := by funext n; rw [isSm_def]
    have e2 : (fun n => endsWith (lower n) ".ssc".toList) = isSsc := by funext n; rw [isSsc_def]
    rw [e1, e2]
    exact ⟨rfl, rfl⟩

/-- without `ignore_duplicate`, the scan fails iff two entries of one kind exist -/
theorem duplicate_iff (listing : List Str) :
    scanDir listing false = .error .duplicate ↔
      2 ≤ (listing.filter isSm).length ∨ 2 ≤ (listing.filter isSsc).length := by
  rw [scanDir_char]
  by_cases h : 2 ≤ (listing.filter isSm).length ∨ 2 ≤ (listing.filter isSsc).length
  · simp [h]
  · simp only [h, and_false, if_false, iff_false]
    intro h2; cases h2

/-- otherwise it succeeds -/
theorem no_duplicate_ok (listing : List Str)
    (h : (listing.filter isSm).length ≤ 1 ∧ (listing.filter isSsc).length ≤ 1) :
    scanDir listing false = .ok { sm := listing.find? isSm, ssc := listing.find? isSsc } := by
  rw [scanDir_char, if_neg]
  omega

/-- with `ignore_duplicate` the scan never fails -/
theorem ignore_never_fails (listing : List Str) :
    scanDir listing true = .ok { sm := listing.find? isSm, ssc := listing.find? isSsc } := by
  rw [scanDir_char, if_neg]
  simp

/-- `duplicate` is the only error of a scan -/
theorem only_duplicate (listing : List Str) (ign : Bool) (e : DErr) (h : scanDir listing ign = .error e) :
    e = .duplicate ∧ ign = false := by
  rw [scanDir_char] at h
  split at h
  · rename_i hc
    cases h
    exact ⟨rfl, hc.1⟩
  · cases h

/-- an entry that is found is an entry of the listing, of the right kind -/
theorem found_mem (listing : List Str) (ign : Bool) (sd : SimDir) (h : scanDir listing ign = .ok sd) :
    (∀ x, sd.sm = some x → x ∈ listing ∧ isSm x = true) ∧
    (∀ x, sd.ssc = some x → x ∈ listing ∧ isSsc x = true) := by
  rw [scanDir_char] at h
  split at h
  · cases h
  · cases h
    constructor
    · intro x hx
      exact ⟨List.mem_of_find?_eq_some hx, List.find?_some hx⟩
    · intro x hx
      exact ⟨List.mem_of_find?_eq_some hx, List.find?_some hx⟩

/-! ### 13. which file is opened -/

theorem open_prefers_ssc (sd : SimDir) :
    (∀ x, sd.ssc = some x → sd.openTarget = .ok x) ∧
    (sd.ssc = none → ∀ x, sd.sm = some x → sd.openTarget = .ok x) ∧
    (sd.openTarget = .error .fileNotFound ↔ sd.ssc = none ∧ sd.sm = none) ∧
    (∀ e, sd.openTarget = .error e → e = .fileNotFound) := by
  obtain ⟨sm, ssc⟩ := sd
  cases ssc <;> cases sm <;> simp [SimDir.openTarget, SimDir.simfilePath]

theorem simfilePath_eq (sd : SimDir) : sd.simfilePath = sd.ssc.or sd.sm := by
  obtain ⟨sm, ssc⟩ := sd
  cases ssc <;> rfl

/-! ### 14. packs -/

theorem pack_exact (entries : List PackEntry) (name : Str) :
    name ∈ packDirs entries ↔
      ∃ e ∈ entries, e.name = name ∧ e.isDir = true ∧
        ∃ item ∈ e.listing, (extMatch item T.simfileExts).isSome = true := by
  unfold packDirs
  simp only [List.mem_map, List.mem_filter, Bool.and_eq_true, List.any_eq_true]
  constructor
  · rintro ⟨e, ⟨he, hd, hi⟩, rfl⟩
    exact ⟨e, he, rfl, hd, hi⟩
  · rintro ⟨e, he, rfl, hd, hi⟩
    exact ⟨e, ⟨he, hd, hi⟩, rfl⟩

/-- listing order is preserved: a filter followed by a map -/
theorem pack_order (entries : List PackEntry) :
    packDirs entries =
      (entries.filter fun e => e.isDir && e.listing.any fun item => isSsc item || isSm item).map (·.name) := by
  unfold packDirs
  congr 2
  funext e
  congr 2
  funext item
  exact extMatch_isSome_iff item

theorem pack_cons (e : PackEntry) (entries : List PackEntry) :
    packDirs (e :: entries) =
      if e.isDir = true ∧ ∃ item ∈ e.listing, (extMatch item T.simfileExts).isSome = true
      then e.name :: packDirs entries else packDirs entries := by
  unfold packDirs
  rw [List.filter_cons]
  by_cases h : (e.isDir && e.listing.any fun item => (extMatch item T.simfileExts).isSome) = true
  · rw [if_pos h, if_pos (by simpa using h)]
    rfl
  · rw [if_neg h, if_neg (by simpa using h)]

/-! ### non-vacuity -/

def listing0 : List Str := ["banner.png".toList, "Song.SM".toList, "song.ssc".toList, "old.sm".toList]

example : scanDir listing0 true = .ok ⟨some "Song.SM".toList, some "song.ssc".toList⟩ := by
  rw [ignore_never_fails]; congr 1
example : scanDir listing0 false = .error .duplicate := (duplicate_iff listing0).mpr (by decide +kernel)
example : (listing0.filter isSm).length = 2 := by decide +kernel
example : scanDir ["a.sm".toList, "b.txt".toList] false = .ok ⟨some "a.sm".toList, none⟩ := by
  rw [no_duplicate_ok _ (by decide +kernel)]; congr 1
example : (⟨some "a.sm".toList, some "a.ssc".toList⟩ : SimDir).openTarget = .ok "a.ssc".toList :=
  (open_prefers_ssc _).1 _ rfl
example : packDirs [⟨"A".toList, true, ["x.sm".toList]⟩, ⟨"B".toList, false, ["x.sm".toList]⟩,
    ⟨"C".toList, true, ["x.txt".toList]⟩, ⟨"D".toList, true, ["y.SSC".toList]⟩] = ["A".toList, "D".toList] := by
  decide +kernel

end Simfile.C19
