import Simfile.Model.Dir
