/-
C16, continued.
  1. F16-1: FREEZES-only sources — the stops of the converted simfile are the TEMPLATE's, not the source's
     (`freezes_only_loses_stops`, `freezes_only_timing_differs`); the exact condition for "timing data identical"
     (`timing_equal_iff`), and `timing_equal_iff_neutral`: away from the FREEZES-only case it is `CT.Neutral`.
  2. F16-3: the converted simfile written as TEXT and parsed again (msdparser contract / the modelled msdparser)
     loads back equal (`reload_text_blank`).
-/
import Simfile.Lemmas.ConvertMoreTiming
import Simfile.Lemmas.ConvertMoreSafe
import Simfile.Props.C16
import Simfile.Props.MsdContract
namespace Simfile.C16More
open Simfile Simfile.O Simfile.V Simfile.Cv Simfile.CT Simfile.S

/-! ### 1. FREEZES-only sources -/

/-- F16-1. An SM source that spells its stops FREEZES and has no STOPS key: after a successful conversion (any
templates) the stops of the RESULT are whatever the template's STOPS value reads, while the stops of the SOURCE are
read from FREEZES (the alias exists for SM simfiles only). -/
theorem freezes_only_loses_stops (sm out : AnySimfile) (st : Option AnySimfile)
    (ct : Option (Dict × Option (List Str))) (beh : List (Nat × Nat))
    (hs : kSTOPS ∉ Dict.keys sm.props) (hf : kFREEZES ∈ Dict.keys sm.props)
    (h : convert ⟨false, sm.props, sm.charts⟩ true st ct beh = .ok out) :
    (timingData ⟨.sscSimfile, out.props⟩ none).map (·.stops) =
      .ok (beatValuesFromStr ((startOf true st).props.get? kSTOPS).join) ∧
    (timingData ⟨.smSimfile, sm.props⟩ none).map (·.stops) =
      .ok (beatValuesFromStr (sm.props.get? kFREEZES).join) := by
  rw [C16.result _ out st ct beh h, timingData_none, timingData_none]
  obtain ⟨h1, h2⟩ := stops_freezes_only (startOf true st).props sm.props hs hf
  exact ⟨congrArg Except.ok h1, congrArg Except.ok h2⟩

/-- with the default template (blank SSC simfile: STOPS "") the result has NO stops; so whenever the FREEZES value
has at least one row the timing data of the result differs from the source's -/
theorem freezes_only_timing_differs (sm out : AnySimfile) (st : Option AnySimfile)
    (ct : Option (Dict × Option (List Str))) (beh : List (Nat × Nat))
    (hst : (startOf true st).props = T.blankSSCSimfile)
    (hs : kSTOPS ∉ Dict.keys sm.props) (hf : kFREEZES ∈ Dict.keys sm.props)
    (hrows : beatValuesFromStr (sm.props.get? kFREEZES).join ≠ some [])
    (h : convert ⟨false, sm.props, sm.charts⟩ true st ct beh = .ok out) :
    (timingData ⟨.sscSimfile, out.props⟩ none).map (·.stops) = .ok (some []) ∧
    timingData ⟨.sscSimfile, out.props⟩ none ≠ timingData ⟨.smSimfile, sm.props⟩ none := by
  obtain ⟨h1, h2⟩ := freezes_only_loses_stops sm out st ct beh hs hf h
  rw [hst, blank_neutral.1] at h1
  refine ⟨h1, fun he => ?_⟩
  rw [he, h2] at h1
  exact hrows (Except.ok.inj h1)

/-- the closed example of C16 (§20) is an instance -/
example : kSTOPS ∉ Dict.keys [("BPMS".toList, some "0=120".toList), ("FREEZES".toList, some "1=2".toList)] ∧
    kFREEZES ∈ Dict.keys [("BPMS".toList, some "0=120".toList), ("FREEZES".toList, some "1=2".toList)] ∧
    beatValuesFromStr (Dict.get? [("BPMS".toList, some "0=120".toList), ("FREEZES".toList, some "1=2".toList)]
      kFREEZES).join ≠ some [] ∧
    (convert ⟨false, [("BPMS".toList, some "0=120".toList), ("FREEZES".toList, some "1=2".toList)], []⟩
      true none none []).toOption.isSome = true := by decide +kernel

/-- F16-1, exact form. After a successful conversion of a source with distinct keys, the timing data read from the
result equals the timing data read from the source IF AND ONLY IF, with `tmpl` the start object's properties: for
each of BPMS, DELAYS, WARPS, OFFSET the source has the key or `tmpl`'s value reads like a missing property, and
`CT.StopsAgree`: the source has STOPS; or it has neither STOPS nor FREEZES and `tmpl`'s STOPS reads empty; or it has
FREEZES only and `tmpl`'s STOPS happens to read exactly like the FREEZES value. -/
theorem timing_equal_iff (sm out : AnySimfile) (st : Option AnySimfile)
    (ct : Option (Dict × Option (List Str))) (beh : List (Nat × Nat)) (hwf : Dict.WF sm.props)
    (h : convert ⟨false, sm.props, sm.charts⟩ true st ct beh = .ok out) :
    timingData ⟨.sscSimfile, out.props⟩ none = timingData ⟨.smSimfile, sm.props⟩ none ↔
      (kBPMS ∈ Dict.keys sm.props ∨ beatValuesFromStr ((startOf true st).props.get? kBPMS).join = some []) ∧
      StopsAgree (startOf true st).props sm.props ∧
      (kDELAYS ∈ Dict.keys sm.props ∨ beatValuesFromStr ((startOf true st).props.get? kDELAYS).join = some []) ∧
      (kWARPS ∈ Dict.keys sm.props ∨ beatValuesFromStr ((startOf true st).props.get? kWARPS).join = some []) ∧
      (kOFFSET ∈ Dict.keys sm.props ∨ offsetOf ((startOf true st).props.get? kOFFSET).join = some 0) := by
  rw [C16.result _ out st ct beh h, timingData_none, timingData_none, ← tdOf_setAll_iff _ _ hwf]
  exact ⟨fun h => Except.ok.inj h, fun h => congrArg Except.ok h⟩

theorem stopsAgree_def (tmpl src : Dict) :
    StopsAgree tmpl src ↔
      kSTOPS ∈ Dict.keys src ∨
      (kFREEZES ∉ Dict.keys src ∧ beatValuesFromStr (tmpl.get? kSTOPS).join = some []) ∨
      (kSTOPS ∉ Dict.keys src ∧ kFREEZES ∈ Dict.keys src ∧
        beatValuesFromStr (tmpl.get? kSTOPS).join = beatValuesFromStr (src.get? kFREEZES).join) := Iff.rfl

/-- the `Neutral` hypothesis of the C16 timing theorems is NECESSARY as well as sufficient, except for a FREEZES-only
source whose FREEZES value reads exactly like the template's STOPS (with the blank template: a FREEZES value without
rows) -/
theorem timing_equal_iff_neutral (sm out : AnySimfile) (st : Option AnySimfile)
    (ct : Option (Dict × Option (List Str))) (beh : List (Nat × Nat)) (hwf : Dict.WF sm.props)
    (hfr : kSTOPS ∈ Dict.keys sm.props ∨ kFREEZES ∉ Dict.keys sm.props ∨
      beatValuesFromStr ((startOf true st).props.get? kSTOPS).join ≠
        beatValuesFromStr (sm.props.get? kFREEZES).join)
    (h : convert ⟨false, sm.props, sm.charts⟩ true st ct beh = .ok out) :
    timingData ⟨.sscSimfile, out.props⟩ none = timingData ⟨.smSimfile, sm.props⟩ none ↔
      Neutral (startOf true st).props sm.props := by
  rw [timing_equal_iff sm out st ct beh hwf h, neutral_iff]
  refine and_congr_right fun _ => and_congr_left fun _ => ?_
  unfold StopsAgree
  constructor
  · rintro (h1 | h1 | ⟨h1, h2, h3⟩)
    · exact Or.inl h1
    · exact Or.inr h1
    · rcases hfr with h4 | h4 | h4
      · exact absurd h4 h1
      · exact absurd h2 h4
      · exact absurd h3 h4
  · rintro (h1 | h1)
    · exact Or.inl h1
    · exact Or.inr (Or.inl h1)

/-- the default call: timing data identical iff the source has BPMS, and has STOPS or has no FREEZES or its FREEZES
value has no rows -/
theorem timing_equal_iff_blank (sm out : AnySimfile) (st : Option AnySimfile)
    (ct : Option (Dict × Option (List Str))) (beh : List (Nat × Nat)) (hwf : Dict.WF sm.props)
    (hst : (startOf true st).props = T.blankSSCSimfile)
    (h : convert ⟨false, sm.props, sm.charts⟩ true st ct beh = .ok out) :
    timingData ⟨.sscSimfile, out.props⟩ none = timingData ⟨.smSimfile, sm.props⟩ none ↔
      kBPMS ∈ Dict.keys sm.props ∧
      (kSTOPS ∈ Dict.keys sm.props ∨ kFREEZES ∉ Dict.keys sm.props ∨
        beatValuesFromStr (sm.props.get? kFREEZES).join = some []) := by
  rw [timing_equal_iff sm out st ct beh hwf h, hst]
  obtain ⟨h1, h2, h3, h4⟩ := blank_neutral
  have hb := blank_bpms_not_neutral
  unfold StopsAgree
  simp only [h1, h2, h3, h4, or_true, and_true, hb, or_false]
  refine and_congr_right fun _ => ?_
  constructor
  · rintro (h5 | h5 | ⟨_, _, h5⟩)
    · exact Or.inl h5
    · exact Or.inr (Or.inl h5)
    · exact Or.inr (Or.inr h5.symm)
  · rintro (h5 | h5 | h5)
    · exact Or.inl h5
    · exact Or.inr (Or.inl h5)
    · by_cases hs : kSTOPS ∈ Dict.keys sm.props
      · exact Or.inl hs
      · by_cases hf : kFREEZES ∈ Dict.keys sm.props
        · exact Or.inr (Or.inr ⟨hs, hf, h5.symm⟩)
        · exact Or.inr (Or.inl hf)

/-- why `timing_equal_iff_neutral` needs its extra hypothesis: a FREEZES-only source with an EMPTY FREEZES value and
the blank template — the timing data are equal although `Neutral` fails -/
theorem neutral_not_necessary :
    (convert ⟨false, [("BPMS".toList, some "0=120".toList), ("FREEZES".toList, some [])], []⟩ true none none []).map
        (fun out => decide ((timingData ⟨.sscSimfile, out.props⟩ none).map (fun t => (t.bpms, t.stops, t.delays)) =
          (timingData ⟨.smSimfile, [("BPMS".toList, some "0=120".toList), ("FREEZES".toList, some [])]⟩ none).map
            (fun t => (t.bpms, t.stops, t.delays)))) = .ok true ∧
    ¬ Neutral T.blankSSCSimfile [("BPMS".toList, some "0=120".toList), ("FREEZES".toList, some [])] := by
  refine ⟨by decide +kernel, fun h => ?_⟩
  rcases h.stops with h | ⟨h, _⟩
  · revert h; decide
  · revert h; decide

/-! ### 2. the converted simfile written as text loads back equal -/

/-- an SSC simfile in `C02.DomSSC` whose charts end with their note data is its own `notesLast` -/
theorem notesLast_self (s : SSCSimfile) (hd : C02.DomSSC s)
    (hl : ∀ ch ∈ s.charts, ch.props.getLast?.map (·.1) = some (notesKey ch)) : s.notesLast = s := by
  have h1 := C02.roundtrip_params s hd
  rw [C02.roundtrip_eq s hd hl] at h1
  exact (Except.ok.inj h1).symm

/-- F16-3. `reloads_equal` through TEXT, for any tokenizer/renderer pair satisfying the msdparser contract: the
converted simfile is serialized, rendered to a string, tokenized again (strictly or not) and loaded — the result
is the converted simfile. Hypothesis `hs`: the written document is MSD-safe (`safeDoc`: no `#` reached at a line
start inside a value, no `///`, …, see Model/Msd.lean). -/
theorem reload_text (M : Msd) (hM : M.Contract) (out : AnySimfile) (hd : C02.DomSSC (asSSC out))
    (hl : ∀ ch ∈ (asSSC out).charts, ch.props.getLast?.map (·.1) = some (notesKey ch))
    (hs : (serSSC (asSSC out)).map safeDoc = .ok true) (strict : Bool) :
    (serSSC (asSSC out)).bind (fun is => (M.tokenize strict (M.renderDoc is)).map loadSSC) = .ok (asSSC out) := by
  rw [C02.roundtrip M hM _ hd hs strict, notesLast_self _ hd hl]

/-- F16-3, the default call `sm_to_ssc(sm)` with the MODELLED msdparser (`MsdContract.contract`): under the
hypotheses of `C16.reloads_equal_blank` and MSD-safety of the written document, text → tokens → load gives the
converted simfile back -/
theorem reload_text_blank (sm out : AnySimfile) (beh : List (Nat × Nat))
    (hup : ∀ k ∈ Dict.keys sm.props, upper k = k ∧ k ≠ kNOTEDATA)
    (hcharts : ∀ c ∈ sm.charts, (∀ k ∈ Dict.keys c.1, k ∈ T.smChartProperties) ∧
      ∀ kv ∈ c.1, kv.1 = kNOTES → kv.2 ≠ none)
    (h : convert ⟨false, sm.props, sm.charts⟩ true none none beh = .ok out)
    (hs : (serSSC (asSSC out)).map safeDoc = .ok true) (strict : Bool) :
    (serSSC (asSSC out)).bind
        (fun is => (MsdP.msd.tokenize strict (MsdP.msd.renderDoc is)).map loadSSC) = .ok (asSSC out) :=
  have hd := C16.result_in_dom_blank sm out beh hup hcharts h
  reload_text MsdP.msd MsdContract.contract out hd.1 hd.2 hs strict


/-- `Cv.plain s`: the string contains no '#' and no "///"; `Cv.PlainDict d`: every key and every value of `d` is plain -/
theorem plain_iff (s : Str) : plain s = true ↔ '#' ∉ s ∧ ¬ ['/', '/', '/'] <:+: s := by
  unfold plain
  rw [← containsSub_iff_infix]
  simp

/-- a sufficient condition for MSD-safety ON THE SOURCE: no key or value of the SM simfile or its charts contains
'#' or "///" (the generated blank SSC objects are plain, and so is everything the serializer adds) -/
theorem safe_of_plain (sm out : AnySimfile) (beh : List (Nat × Nat))
    (hup : ∀ k ∈ Dict.keys sm.props, upper k = k ∧ k ≠ kNOTEDATA)
    (hcharts : ∀ c ∈ sm.charts, (∀ k ∈ Dict.keys c.1, k ∈ T.smChartProperties) ∧
      ∀ kv ∈ c.1, kv.1 = kNOTES → kv.2 ≠ none)
    (hp : PlainDict sm.props) (hpc : ∀ c ∈ sm.charts, PlainDict c.1)
    (h : convert ⟨false, sm.props, sm.charts⟩ true none none beh = .ok out) :
    (serSSC (asSSC out)).map safeDoc = .ok true := by
  have hd := C16.result_in_dom_blank sm out beh hup hcharts h
  rw [C02.serSSC_eq _ hd.1]
  show Except.ok (safeDoc (sscItems (asSSC out))) = _
  congr 1
  rw [C16.asSSC_result_blank sm out beh h]
  apply safeDoc_sscItems
  · exact plainDict_setAll _ _ blank_plain.1 hp
  · intro c hc
    obtain ⟨c0, hc0, rfl⟩ := List.mem_map.mp hc
    exact plainDict_setAll _ _ blank_plain.2 (hpc c0 hc0)

/-- F16-3 with hypotheses on the source only: `sm_to_ssc(sm)` written as text, read by the modelled msdparser
(strictly or not) and loaded, is the converted simfile -/
theorem reload_text_blank_plain (sm out : AnySimfile) (beh : List (Nat × Nat))
    (hup : ∀ k ∈ Dict.keys sm.props, upper k = k ∧ k ≠ kNOTEDATA)
    (hcharts : ∀ c ∈ sm.charts, (∀ k ∈ Dict.keys c.1, k ∈ T.smChartProperties) ∧
      ∀ kv ∈ c.1, kv.1 = kNOTES → kv.2 ≠ none)
    (hp : PlainDict sm.props) (hpc : ∀ c ∈ sm.charts, PlainDict c.1)
    (h : convert ⟨false, sm.props, sm.charts⟩ true none none beh = .ok out) (strict : Bool) :
    (serSSC (asSSC out)).bind
        (fun is => (MsdP.msd.tokenize strict (MsdP.msd.renderDoc is)).map loadSSC) = .ok (asSSC out) :=
  reload_text_blank sm out beh hup hcharts h (safe_of_plain sm out beh hup hcharts hp hpc h) strict

example : PlainDict C16.exSMmin.props ∧ ∀ c ∈ C16.exSMmin.charts, PlainDict c.1 := by decide +kernel
/-- plainness is sufficient, not necessary: a '#' inside a value is safe unless it is reached at a line start -/
example : safeDoc [.param ⟨["TITLE".toList, "a#b".toList]⟩] = true ∧ plain "a#b".toList = false := by decide

/-- non-vacuity: the default-call example of C16 is MSD-safe -/
example : ((convert ⟨false, C16.exSMmin.props, C16.exSMmin.charts⟩ true none none []).toOption.map fun out =>
    (serSSC (asSSC out)).map safeDoc) = some (.ok true) := by decide +kernel

end Simfile.C16More
