/-
C04, round 2 (audit part A: C04-F1, C04-F3).

* The SSC statements with the proviso of the property text, "every SSC chart contains note data", and nothing more:
  the note-data key is present; its value may be `None` (a key-only `#NOTES;` was loaded).
* load → save → load and the second save THROUGH TEXT, for both formats, for any tokenizer satisfying
  `Msd.Contract` and concretely for the modelled msdparser `MsdP.msd`.
-/
import Simfile.Props.C04
import Simfile.Props.C01More
import Simfile.Props.C02More
import Simfile.Props.MsdContract
namespace Simfile.C04More
open Simfile Simfile.O

/-- the proviso "every SSC chart contains note data" for what a parameter list loads as -/
def HasNotes (ps : List Param) : Prop :=
  ∀ c ∈ (loadSSC ps).charts, ∃ v, c.props.get? (notesKey c) = some v

/-- the same said with keys: every loaded chart has NOTES or NOTES2 -/
theorem hasNotes_iff (ps : List Param) :
    HasNotes ps ↔ ∀ c ∈ (loadSSC ps).charts, kNOTES ∈ c.props.keys ∨ kNOTES2 ∈ c.props.keys :=
  forall_congr' fun c => imp_congr_right fun _ => C02More.has_notes_iff c

/-- C04 clause 2 (SSC): a loaded SSC simfile whose charts all contain note data is in the serializer's domain -/
theorem loaded_in_dom_ssc (ps : List Param) (hnotes : HasNotes ps) : C02More.DomSSC' (loadSSC ps) := by
  unfold HasNotes at hnotes
  rw [loadSSC_closed] at hnotes ⊢
  refine ⟨WF_dictOf _, upper_of_mem_keys_dictOf _,
    ne_ND_of_mem_keys_dictOf _ (segs_fst_noND ps), ?_⟩
  intro c hc
  have hn := hnotes c hc
  obtain ⟨g, hg, rfl⟩ := List.mem_map.mp hc
  exact ⟨WF_dictOf _, upper_of_mem_keys_dictOf _,
    ne_ND_of_mem_keys_dictOf _ (segs_snd_noND ps g hg), hn⟩

/-- C04 clause 1 (SSC), exact boundary: what loads can be serialized if and only if every chart contains note
data; otherwise serialization raises `KeyError` -/
theorem loaded_serializable_iff (ps : List Param) :
    ((∃ is, serSSC (loadSSC ps) = .ok is) ↔ HasNotes ps) ∧
    (¬ HasNotes ps → serSSC (loadSSC ps) = .error .keyError) := by
  have h := C02More.serSSC_error_iff (loadSSC ps)
  refine ⟨h.1.trans (hasNotes_iff ps).symm, fun hn => ?_⟩
  cases hs : serSSC (loadSSC ps) with
  | ok is => exact absurd ((h.1.trans (hasNotes_iff ps).symm).mp ⟨is, hs⟩) hn
  | error e => rw [h.2.2 e hs]

/-- C04 clause 4 (parameter level): load → save → load gives the same SSC simfile with each chart's note data
moved last -/
theorem load_save_load_ssc (ps : List Param) (hnotes : HasNotes ps) :
    (serSSC (loadSSC ps)).map (fun is => loadSSC (paramsOf is)) = .ok (loadSSC ps).notesLast :=
  C02More.roundtrip_params _ (loaded_in_dom_ssc ps hnotes)

/-- C04 clause 5 (parameter level): the second save writes the same items as the first -/
theorem second_save_noop_ssc (ps : List Param) (hnotes : HasNotes ps) :
    (serSSC (loadSSC ps)).bind (fun is => serSSC (loadSSC (paramsOf is))) = serSSC (loadSSC ps) := by
  have h := load_save_load_ssc ps hnotes
  have hd := C02More.serSSC_eq _ (loaded_in_dom_ssc ps hnotes)
  rw [hd] at h ⊢
  have h' : loadSSC (paramsOf (sscItemsG (loadSSC ps))) = (loadSSC ps).notesLast := Except.ok.inj h
  show serSSC (loadSSC (paramsOf (sscItemsG (loadSSC ps)))) = _
  rw [h', C04.serSSC_notesLast, hd]

/-! ### through text, any tokenizer satisfying the contract -/

/-- C04 clause 4 through text: load, save as text, tokenize (strictly or not), load -/
theorem load_save_load_ssc_text (M : Msd) (hM : M.Contract) (ps : List Param) (hnotes : HasNotes ps)
    (hs : (serSSC (loadSSC ps)).map safeDoc = .ok true) (strict : Bool) :
    (serSSC (loadSSC ps)).bind (fun is => (M.tokenize strict (M.renderDoc is)).map loadSSC) =
      .ok (loadSSC ps).notesLast :=
  C02More.roundtrip M hM _ (loaded_in_dom_ssc ps hnotes) hs strict

/-- C04 clause 5 through text (SM): the text of the second save is the text of the first, character for
character -/
theorem second_save_noop_sm_text (M : Msd) (hM : M.Contract) (ps : List Param) (s : SMSimfile)
    (h : loadSM ps = .ok s) (hs : safeDoc (serSM s) = true) (strict : Bool) :
    ((M.tokenize strict (M.renderDoc (serSM s))).bind loadSM).map (fun s2 => M.renderDoc (serSM s2)) =
      .ok (M.renderDoc (serSM s)) := by
  rw [C04.load_save_load_sm_text M hM ps s h hs strict]; rfl

/-- C04 clause 5 through text (SSC): the text of the second save is the text of the first -/
theorem second_save_noop_ssc_text (M : Msd) (hM : M.Contract) (ps : List Param) (hnotes : HasNotes ps)
    (hs : (serSSC (loadSSC ps)).map safeDoc = .ok true) (strict : Bool) :
    (serSSC (loadSSC ps)).bind (fun is => (M.tokenize strict (M.renderDoc is)).bind
        (fun ps2 => (serSSC (loadSSC ps2)).map M.renderDoc)) = (serSSC (loadSSC ps)).map M.renderDoc :=
  C02More.reserialize_stable_text M hM _ (loaded_in_dom_ssc ps hnotes) hs strict

/-- the second save succeeds (its text exists), so the cycle can be repeated -/
theorem second_save_ok_ssc_text (M : Msd) (hM : M.Contract) (ps : List Param) (hnotes : HasNotes ps)
    (hs : (serSSC (loadSSC ps)).map safeDoc = .ok true) (strict : Bool) :
    ∃ text, (serSSC (loadSSC ps)).bind (fun is => (M.tokenize strict (M.renderDoc is)).bind
        (fun ps2 => (serSSC (loadSSC ps2)).map M.renderDoc)) = .ok text := by
  rw [second_save_noop_ssc_text M hM ps hnotes hs strict,
    C02More.serSSC_eq _ (loaded_in_dom_ssc ps hnotes)]
  exact ⟨_, rfl⟩

/-- C04 through text with the hypothesis on the CONTENT of what was loaded (SSC) -/
theorem load_save_load_ssc_content (M : Msd) (hM : M.Contract) (ps : List Param) (hnotes : HasNotes ps)
    (hc : C02More.SafeContent (loadSSC ps) = true) (strict : Bool) :
    (serSSC (loadSSC ps)).bind (fun is => (M.tokenize strict (M.renderDoc is)).map loadSSC) =
      .ok (loadSSC ps).notesLast :=
  load_save_load_ssc_text M hM ps hnotes
    (C02More.safeDoc_of_safeContent' _ (loaded_in_dom_ssc ps hnotes) hc) strict

/-- C04 through text with the hypothesis on the CONTENT of what was loaded (SM) -/
theorem load_save_load_sm_content (M : Msd) (hM : M.Contract) (ps : List Param) (s : SMSimfile)
    (h : loadSM ps = .ok s) (hc : C01More.SafeContent s = true) (strict : Bool) :
    (M.tokenize strict (M.renderDoc (serSM s))).bind loadSM = .ok s :=
  C04.load_save_load_sm_text M hM ps s h (C01More.safeDoc_of_safeContent s hc) strict

/-! ### the same for the modelled msdparser -/

theorem load_save_load_ssc_concrete (ps : List Param) (hnotes : HasNotes ps)
    (hs : (serSSC (loadSSC ps)).map safeDoc = .ok true) (strict : Bool) :
    (serSSC (loadSSC ps)).bind (fun is => (MsdP.msd.tokenize strict (MsdP.msd.renderDoc is)).map loadSSC) =
      .ok (loadSSC ps).notesLast :=
  load_save_load_ssc_text MsdP.msd MsdContract.contract ps hnotes hs strict

theorem second_save_noop_sm_concrete (ps : List Param) (s : SMSimfile)
    (h : loadSM ps = .ok s) (hs : safeDoc (serSM s) = true) (strict : Bool) :
    ((MsdP.msd.tokenize strict (MsdP.msd.renderDoc (serSM s))).bind loadSM).map
        (fun s2 => MsdP.msd.renderDoc (serSM s2)) = .ok (MsdP.msd.renderDoc (serSM s)) :=
  second_save_noop_sm_text MsdP.msd MsdContract.contract ps s h hs strict

theorem second_save_noop_ssc_concrete (ps : List Param) (hnotes : HasNotes ps)
    (hs : (serSSC (loadSSC ps)).map safeDoc = .ok true) (strict : Bool) :
    (serSSC (loadSSC ps)).bind (fun is => (MsdP.msd.tokenize strict (MsdP.msd.renderDoc is)).bind
        (fun ps2 => (serSSC (loadSSC ps2)).map MsdP.msd.renderDoc)) =
      (serSSC (loadSSC ps)).map MsdP.msd.renderDoc :=
  second_save_noop_ssc_text MsdP.msd MsdContract.contract ps hnotes hs strict

/-- starting from a TEXT: whatever the modelled msdparser tokenizes (strictly or not) and `loadSSC` loads, if every
chart contains note data and the output avoids the escaping gaps, saving and loading through text again (with
either strictness) gives the loaded simfile with the note data moved last -/
theorem text_load_save_load_ssc (text : Str) (st st' : Bool) (ps : List Param)
    (ht : MsdP.msd.tokenize st text = .ok ps) (hnotes : HasNotes ps)
    (hs : (serSSC (loadSSC ps)).map safeDoc = .ok true) :
    ((MsdP.msd.tokenize st text).map loadSSC).bind (fun s => (serSSC s).bind (fun is =>
        (MsdP.msd.tokenize st' (MsdP.msd.renderDoc is)).map loadSSC)) = .ok (loadSSC ps).notesLast := by
  rw [ht]
  exact load_save_load_ssc_concrete ps hnotes hs st'

/-! ### examples: the hypotheses are met by parameter lists outside the serializers' image -/

instance (ps : List Param) : Decidable (HasNotes ps) :=
  decidable_of_iff (∀ c ∈ (loadSSC ps).charts, (c.props.get? (notesKey c)).isSome = true)
    (forall_congr' fun c => imp_congr_right fun _ => (C02More.notes_iff' c).symm)

/-- lower-case keys, duplicates, a parameter after the note data, NOTEDATA with extra components, and two key-only
note-data parameters (`#notes;`, `#NOTES2;`) -/
def exKeyOnly : List Param :=
  [⟨["version".toList, "0.83".toList]⟩, ⟨["title".toList, "a".toList]⟩, ⟨["NoteData".toList, [], "x".toList]⟩,
   ⟨["stepstype".toList, "0".toList]⟩, ⟨["notes".toList]⟩, ⟨["credit".toList, "0".toList]⟩,
   ⟨["NOTEDATA".toList]⟩, ⟨["NOTES2".toList, "1".toList]⟩, ⟨["NOTES2".toList]⟩,
   ⟨["meter".toList, "2".toList]⟩]

example : HasNotes exKeyOnly := by decide +kernel
/-- outside the round-1 hypothesis -/
example : ¬ ∀ c ∈ (loadSSC exKeyOnly).charts, ∃ n, c.props.get? (notesKey c) = some (some n) := by
  intro h
  have := fun c hc => (C02.notes_iff c).mp (h c hc)
  revert this
  decide +kernel
example : (serSSC (loadSSC exKeyOnly)).map safeDoc = .ok true := by decide +kernel
example : C02More.SafeContent (loadSSC exKeyOnly) = true := by decide +kernel
example : (loadSSC exKeyOnly).notesLast ≠ loadSSC exKeyOnly := by decide +kernel
example : HasNotes C04.exSSCPs := by decide +kernel
example : (serSSC (loadSSC C04.exSSCPs)).map safeDoc = .ok true := by decide +kernel
/-- the proviso cannot be dropped: a chart without NOTES / NOTES2 loads and then cannot be saved -/
example : ¬ HasNotes [⟨["NOTEDATA".toList, []]⟩, ⟨["CREDIT".toList, "a".toList]⟩] := by decide +kernel
example : serSSC (loadSSC [⟨["NOTEDATA".toList, []]⟩, ⟨["CREDIT".toList, "a".toList]⟩]) = .error .keyError := by
  decide +kernel
example : ∃ s, loadSM C04.exPs = .ok s ∧ safeDoc (serSM s) = true := by
  rcases loadSM_cases C04.exPs with ⟨hb, _⟩ | ⟨_, s, hs⟩
  · exact absurd hb (by decide +kernel)
  · refine ⟨s, hs, ?_⟩
    have := (loadSM_ok _ _ hs).2
    subst this
    decide +kernel

end Simfile.C04More
