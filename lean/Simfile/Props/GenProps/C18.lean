/- C18 stated about `item_property._name_or_alias` and the SM chart's guarded assignment as translated from the Python source. -/
import Simfile.Props.GenEq.Views
import Simfile.Props.GenEq.Equality
import Simfile.Props.C18
import Simfile.Props.C18Eq
namespace Simfile.GenProps
open Simfile

/-- C18: the key an attribute resolves to, by the generated closure: the alias exactly when it is stored and the standard key is
not, else the standard key -/
theorem name_or_alias_rule (name : Str) (alias : Option Str) (d : Dict) :
    (d.contains name = true → GenCode.nameOrAlias name alias d = name) ∧
    (alias = none → GenCode.nameOrAlias name alias d = name) ∧
    (∀ al, alias = some al → d.contains name = false → d.contains al = true → GenCode.nameOrAlias name alias d = al) ∧
    (∀ al, alias = some al → d.contains al = false → GenCode.nameOrAlias name alias d = name) := by
  rw [GenEq.nameOrAlias_eq]
  unfold Simfile.nameOrAlias
  refine ⟨?_, ?_, ?_, ?_⟩
  · intro h; cases alias <;> simp [h]
  · rintro rfl; rfl
  · rintro al rfl h1 h2; simp [h1, h2]
  · rintro al rfl h; simp [h]

/-- C18: an SM chart refuses every key outside its six fields and stores the others under that very key -/
theorem sm_chart_assignment (d : Dict) (k v : Str) :
    (k ∉ T.smChartProperties → GenCode.smChartSetItem d k v = .error .keyError) ∧
    (k ∈ T.smChartProperties → GenCode.smChartSetItem d k v = .ok (d.set k (some v))) := by
  rw [GenEq.smChartSetItem_eq]
  unfold Simfile.setItem
  constructor
  · intro h
    have : T.smChartProperties.contains k = false := by simpa using h
    simp [this, h]
  · intro h
    have : T.smChartProperties.contains k = true := by simpa using h
    simp [this, h]

/-- C18, "equality sees exactly the mapping's content": the generated `BaseSimfile.__eq__` holds exactly between objects of the
same class with the same items in the same order and equal charts -/
theorem eq_sees_mapping (a b : EqObj) (ha : Dict.WF a.items) (hb : Dict.WF b.items) :
    GenCode.simfileEq a b = true ↔
      a.kind = b.kind ∧ a.items = b.items ∧ chartsEq (a.kind = .smSimfile) a.charts b.charts = true := by
  rw [GenEq.simfileEq_eq]; exact C18Eq.simfile_eq_iff a b ha hb

/-- … never between a mapping and the same mapping with one more item at the end (either way round) -/
theorem eq_longer_unequal (a : EqObj) (kv : Str × Option Str) (ha : Dict.WF a.items) (hb : Dict.WF (a.items ++ [kv])) :
    GenCode.simfileEq a { a with items := a.items ++ [kv] } = false ∧ GenCode.simfileEq { a with items := a.items ++ [kv] } a = false := by
  rw [GenEq.simfileEq_eq, GenEq.simfileEq_eq]; exact C18Eq.longer_unequal a kv ha hb

end Simfile.GenProps
