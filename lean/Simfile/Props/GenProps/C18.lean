/- C18 stated about `item_property._name_or_alias` and the SM chart's guarded assignment as translated from the Python source. -/
import Simfile.Props.GenEq.Views
import Simfile.Props.C18
namespace Simfile.GenProps
open Simfile

/-- C18: the key an attribute resolves to, by the generated closure: the alias exactly when it is stored and the standard key is
not, else the standard key -/
theorem name_or_alias_rule (name : Str) (alias : Option Str) (d : Dict) :
    (d.contains name = true → GenCode.nameOrAlias name alias d = name) ∧
    (alias = none → GenCode.nameOrAlias name alias d = name) ∧
    (∀ al, alias = some al → d.contains name = false → d.contains al = true → GenCode.nameOrAlias name alias d = al) ∧
    (∀ al, alias = some al → d.contains al = false → GenCode.nameOrAlias name alias d = name) := by
  rw [GenEq.nameOrAlias_eq]
  unfold Simfile.nameOrAlias
  refine ⟨?_, ?_, ?_, ?_⟩
  · intro h; cases alias <;> simp [h]
  · rintro rfl; rfl
  · rintro al rfl h1 h2; simp [h1, h2]
  · rintro al rfl h; simp [h]

/-- C18: an SM chart refuses every key outside its six fields and stores the others under that very key -/
theorem sm_chart_assignment (d : Dict) (k v : Str) :
    (k ∉ T.smChartProperties → GenCode.smChartSetItem d k v = .error .keyError) ∧
    (k ∈ T.smChartProperties → GenCode.smChartSetItem d k v = .ok (d.set k (some v))) := by
  rw [GenEq.smChartSetItem_eq]
  unfold Simfile.setItem
  constructor
  · intro h
    have : T.smChartProperties.contains k = false := by simpa using h
    simp [this, h]
  · intro h
    have : T.smChartProperties.contains k = true := by simpa using h
    simp [this, h]

end Simfile.GenProps
