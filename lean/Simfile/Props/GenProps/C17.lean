/- C17 stated about `_should_copy_property` as translated from the Python source on this run. -/
import Simfile.Props.GenEq.Convert
import Simfile.Props.C17
namespace Simfile.GenProps
open Simfile

/-- C17: the decision table, for every behaviour mapping, about the generated function -/
theorem should_copy_table (k : Str) (v : Option Str) (invalid : List (Nat × List Str)) (beh : List (Nat × Nat)) :
    (invalid.find? (fun e => e.2.contains k) = none → GenCode.shouldCopy k v invalid beh = .ok true) ∧
    (∀ e, invalid.find? (fun e => e.2.contains k) = some e →
      (Cv.behaviourOf beh e.1 = bCOPY → GenCode.shouldCopy k v invalid beh = .ok true) ∧
      (Cv.behaviourOf beh e.1 = bIGNORE → GenCode.shouldCopy k v invalid beh = .ok false) ∧
      (Cv.behaviourOf beh e.1 = bUNLESS → strip (v.getD []) = defaultProperty k →
        GenCode.shouldCopy k v invalid beh = .ok false) ∧
      (Cv.behaviourOf beh e.1 = bUNLESS → strip (v.getD []) ≠ defaultProperty k →
        GenCode.shouldCopy k v invalid beh = .error (.invalidProperty k)) ∧
      (Cv.behaviourOf beh e.1 = bERROR → GenCode.shouldCopy k v invalid beh = .error (.invalidProperty k)) ∧
      (Cv.behaviourOf beh e.1 ∉ [bCOPY, bIGNORE, bUNLESS] → GenCode.shouldCopy k v invalid beh = .error (.invalidProperty k))) := by
  rw [GenEq.shouldCopy_eq]; exact C17.should_copy_spec k v invalid beh

end Simfile.GenProps
