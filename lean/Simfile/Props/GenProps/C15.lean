/- C15 stated about `timing_source` and `TimingData.__init__` as translated from the Python source on this run. -/
import Simfile.Props.GenEq.Source
import Simfile.Props.C15
namespace Simfile.GenProps
open Simfile Simfile.O Simfile.V Simfile.S

/-- C15, the rule: the generated `timing_source` answers the chart exactly when the simfile is an SSC simfile, the chart an SSC
chart, the version string a decimal at or above the split-timing threshold and one of the eleven chart timing properties is
non-empty; in every other non-failing case it answers the simfile -/
theorem source_rule (sim : Src) (chart : Option Src) :
    (useChart sim chart = .ok true → ∃ c, chart = some c ∧ GenCode.timingSource sim chart = .ok (some c)) ∧
    (useChart sim chart = .ok false → GenCode.timingSource sim chart = .ok (some sim)) ∧
    (∀ e, useChart sim chart = .error e → GenCode.timingSource sim chart = .error e) := by
  rw [GenEq.timingSource_eq]
  obtain ⟨h1, h2, h3⟩ := Simfile.C15.source_is sim chart
  refine ⟨fun h => ?_, fun h => ?_, fun e h => ?_⟩
  · obtain ⟨c, hc, ht⟩ := h1 h
    exact ⟨c, hc, by rw [ht]; rfl⟩
  · rw [h2 h]; rfl
  · rw [(h3 e h).1]; rfl

/-- … and when that is, literally (`C15.source_rule_plain` is about the same `useChart`) -/
theorem source_rule_plain (sim : Src) (chart : Option Src) :
    (∃ c, chart = some c ∧ c.kind = .sscChart ∧ sim.kind = .sscSimfile ∧ versionOK (versionString sim) = .ok true ∧
        ∃ key ∈ T.chartTimingProperties, ∃ x xs, c.d.get? key = some (some (x :: xs))) →
    ∃ c, chart = some c ∧ GenCode.timingSource sim chart = .ok (some c) := by
  rintro ⟨c, hc, hk, hs, hv, hkey⟩
  exact (source_rule sim chart).1 ((Simfile.C15.source_rule_plain sim chart).mpr ⟨hs, c, hc, hk, hv, hkey⟩)

/-- C15, all-or-nothing: the generated `TimingData.__init__` takes every field from the one object the generated `timing_source`
chose — never BPMS from one and STOPS from the other -/
theorem single_source (sim : Src) (chart : Option Src) (s : Src) (h : GenCode.timingSource sim chart = .ok (some s)) :
    (s = sim ∨ chart = some s) ∧ GenCode.timingDataInit sim chart = .ok (Simfile.C15.fieldsOf s) := by
  rw [GenEq.timingDataInit_eq]
  rw [GenEq.timingSource_eq] at h
  have h' : Simfile.timingSource sim chart = .ok s := by
    cases ht : Simfile.timingSource sim chart with
    | error e => rw [ht] at h; cases h
    | ok s' =>
      rw [ht] at h
      simp only [Except.map] at h
      injection h with h; injection h with h; rw [h]
  exact Simfile.C15.single_source sim chart s h'

example : GenCode.timingSource ⟨.sscSimfile, [("VERSION".toList, some "0.83".toList), ("BPMS".toList, some "0=120".toList)]⟩
    (some ⟨.sscChart, [("STOPS".toList, some "1=2".toList)]⟩) = .ok (some ⟨.sscChart, [("STOPS".toList, some "1=2".toList)]⟩) := by
  decide +kernel
example : GenCode.timingSource ⟨.sscSimfile, [("VERSION".toList, some "0.69".toList)]⟩
    (some ⟨.sscChart, [("STOPS".toList, some "1=2".toList)]⟩) = .ok (some ⟨.sscSimfile, [("VERSION".toList, some "0.69".toList)]⟩) := by
  decide +kernel

end Simfile.GenProps
