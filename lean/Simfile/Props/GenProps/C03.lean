/- C03 stated about `SMSimfile._parse` as translated from the Python source on this run. -/
import Simfile.Props.GenEq.Load
import Simfile.Props.C03
namespace Simfile.GenProps
open Simfile

/-- C03: the keys of what the generated SM loader builds are the upper-cased parameter keys in order of first occurrence, and the
value under a key is the loaded value of the last parameter with that key -/
theorem sm_loader_rules (ps : List Param) (s : SMSimfile) (h : GenCode.loadSM [] [] ps = .ok s) :
    (s.props.keys = ((C03.propParams ps).map fun p => upper p.key).eraseDups ∧ s.props.WF) ∧
    ∀ k, k ≠ kNOTES → s.props.get? k = (ps.reverse.find? fun p => upper p.key == k).map (loadedValue k) := by
  rw [GenEq.loadSM_eq] at h
  exact ⟨C03.sm_keys ps s h, fun k hk => C03.sm_value ps s h k hk⟩

end Simfile.GenProps
