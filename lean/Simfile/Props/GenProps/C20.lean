/- C20 stated about SimfilePack.banner as translated from the Python source on this run. -/
import Simfile.Props.GenEq.Dir
import Simfile.Props.C20
namespace Simfile.GenProps
open Simfile

/-- C20: the generated pack banner search: no banner iff no image inside and none beside -/
theorem pack_banner_none (listing : List Str) (name : Str) (beside : Str → Bool) :
    GenCode.packBanner listing name beside = none ↔
      (∀ e ∈ T.imageExts, ∀ x ∈ listing, endsWith (lower x) e = false) ∧ ∀ e ∈ T.imageExts, beside (name ++ e) = false := by
  rw [GenEq.packBanner_eq]; exact C20.pack_banner_none listing name beside

end Simfile.GenProps
