/- C13 stated about the engine and time_notes code as translated from the Python source on this run. -/
import Simfile.Props.GenEq.EngineQuery
import Simfile.Props.GenEq.Timed
import Simfile.Props.C13
namespace Simfile.GenProps
open Simfile

/-- C13: the generated `hittable` is "inside the warp union and no pause on that beat" -/
theorem hittable_is_spec (td : TimingData) (h : C11.Dom td) (b : Rat) :
    GenCode.hittable (mkEngine td) b = Spec.hittableSpec td b := by
  rw [GenEq.hittable_eq]; exact C13.hittable_spec td h b

/-- C13: the generated `time_notes` is the documented map -/
theorem time_notes_is_spec (td : TimingData) (h : C11.Dom td) (opt : Unhittable) (notes : List Note) :
    GenCode.timeNotes notes td opt = Spec.timeNotesSpec td opt notes := by
  rw [GenEq.timeNotes_eq]; exact C13.time_notes_spec td h opt notes

end Simfile.GenProps
