/- C09 stated about the counting functions as translated from the Python source on this run. -/
import Simfile.Props.GenEq.Count
import Simfile.Props.C09
namespace Simfile.GenProps
open Simfile

/-- C09: the generated `count_holds` / `count_rolls` count what joining emits -/
theorem count_holds_is_spec (ns : List Note) (h : ns.Nodup) (oh ot : Orphan) :
    GenCode.countHolds ns oh ot = Spec.holdsSpec ns cHOLD oh ot := by
  rw [GenEq.countHolds_eq]; exact C09.count_holds_spec ns h cHOLD oh ot

theorem count_rolls_is_spec (ns : List Note) (h : ns.Nodup) (oh ot : Orphan) :
    GenCode.countRolls ns oh ot = Spec.holdsSpec ns cROLL oh ot := by
  rw [GenEq.countRolls_eq]; exact C09.count_holds_spec ns h cROLL oh ot

/-- C09: the generated `count_jumps` counts the beats that carry at least two included notes -/
theorem count_jumps_is_spec (ns : List Note) (incl : List Char) (hs : (ns.map (·.beat)).Pairwise (· ≤ ·)) :
    GenCode.countJumps ns incl .joinAll = .ok (Spec.beatsWithAtLeast ns incl 2) := by
  rw [GenEq.countJumps_eq]; exact C09.count_steps_spec ns incl 2 hs

end Simfile.GenProps
