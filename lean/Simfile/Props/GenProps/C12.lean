/- C12 stated about `beat_at` / `time_at` as translated from the Python source on this run. -/
import Simfile.Props.GenEq.EngineQuery
import Simfile.Props.C12
namespace Simfile.GenProps
open Simfile

/-- C12: on the tick grid outside warps, the generated `beat_at` inverts the generated `time_at` -/
theorem beat_at_inverts_time_at (td : TimingData) (h : C11.Dom td) (b : Rat) (hb : onGrid b) (hw : Spec.inWarp td b = false) :
    GenCode.beatAt (mkEngine td) (GenCode.timeAt (mkEngine td) b .stop) .stop = b := by
  rw [GenEq.timeAt_eq, GenEq.beatAt_eq]; exact C12.inverse_on_grid td h b hb hw

end Simfile.GenProps
