/- C14 stated about `Beat.round_to_tick` as translated from the Python source on this run. -/
import Simfile.Props.GenEq.Beat
import Simfile.Props.C14
namespace Simfile.GenProps
open Simfile

/-- C14: the generated rounding lands on the tick grid, never more than 1/96 of a beat away -/
theorem round_to_tick_nearest (x : Rat) : onGrid (GenCode.roundToTick x) ∧ |GenCode.roundToTick x - x| ≤ 1 / 96 := by
  rw [GenEq.roundToTick_eq]; exact ⟨C14.round_on_grid x, C14.round_nearest x⟩

end Simfile.GenProps
