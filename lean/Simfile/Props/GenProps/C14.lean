/- C14 stated about `Beat.round_to_tick` as translated from the Python source on this run. -/
import Simfile.Props.GenEq.Beat
import Simfile.Props.GenEq.Source
import Simfile.Props.C14
import Simfile.Props.C14More
namespace Simfile.GenProps
open Simfile

/-- C14: the generated rounding lands on the tick grid, never more than 1/96 of a beat away -/
theorem round_to_tick_nearest (x : Rat) : onGrid (GenCode.roundToTick x) ∧ |GenCode.roundToTick x - x| ≤ 1 / 96 := by
  rw [GenEq.roundToTick_eq]; exact ⟨C14.round_on_grid x, C14.round_nearest x⟩

/-- C14, last clause: the generated `TimingData.__init__` hands the timing engine `BeatValues.from_str` of the text stored under
ONE key per field of the chosen source, and the decimal under OFFSET (0 when missing or empty) -/
theorem timing_data_reads (sim : Src) (chart : Option Src) (s : Src)
    (hsim : sim.kind = .smSimfile ∨ sim.kind = .sscSimfile) (h : timingSource sim chart = .ok s) :
    GenCode.timingDataInit sim chart = .ok
      { bpms := beatValuesFromStr (s.d.get? "BPMS".toList).join,
        stops := beatValuesFromStr (s.d.get? (Simfile.stopsKey s)).join,
        delays := beatValuesFromStr (s.d.get? "DELAYS".toList).join,
        warps := beatValuesFromStr (s.d.get? "WARPS".toList).join,
        offset := Simfile.offsetRule (s.d.get? "OFFSET".toList).join } := by
  rw [GenEq.timingDataInit_eq]; exact C14More.timing_data_reads sim chart s hsim h

end Simfile.GenProps
