/- C07 stated about Note's comparison operators as translated from the Python source on this run. -/
import Simfile.Props.GenEq.NoteOrder
import Simfile.Props.C07
namespace Simfile.GenProps
open Simfile

/-- C07: the four generated comparison operators are the (player, beat, column) order -/
theorem note_operators (a b : Note) :
    (GenCode.noteLt a b = keyLt a.key b.key) ∧ (GenCode.noteGt a b = keyLt b.key a.key) ∧
    (GenCode.noteLe a b = keyLe a.key b.key) ∧ (GenCode.noteGe a b = keyLe b.key a.key) := by
  rw [GenEq.noteLt_eq, GenEq.noteGt_eq, GenEq.noteLe_eq, GenEq.noteGe_eq]; exact C07.operators_agree a b

end Simfile.GenProps
