/- C19 stated about SimfileDirectory.__init__ as translated from the Python source on this run. -/
import Simfile.Props.GenEq.Dir
import Simfile.Props.C19
namespace Simfile.GenProps
open Simfile

/-- C19: what the generated directory scan reports, when it succeeds, is the first listed .sm and the first listed .ssc -/
theorem scan_dir_paths (listing : List Str) (ign : Bool) (sd : SimDir) (h : GenCode.scanDir none none listing ign = .ok sd) :
    sd.sm = listing.find? (fun n => endsWith (lower n) ".sm".toList) ∧
    sd.ssc = listing.find? (fun n => endsWith (lower n) ".ssc".toList) := by
  rw [GenEq.scanDir_eq] at h; exact C19.dir_paths listing ign sd h

/-- C19: the generated scan refuses exactly the directories with two simfiles of one kind (when duplicates are not ignored) -/
theorem scan_dir_duplicate (listing : List Str) :
    GenCode.scanDir none none listing false = .error .duplicate ↔
      2 ≤ (listing.filter DirL.isSm).length ∨ 2 ≤ (listing.filter DirL.isSsc).length := by
  rw [GenEq.scanDir_eq]; exact C19.duplicate_iff listing

end Simfile.GenProps
