/- C04 stated about the generated loader and serializer: whatever the generated loader produced survives save and load. -/
import Simfile.Props.GenEq.Serialize
import Simfile.Props.GenEq.Load
import Simfile.Props.C04
namespace Simfile.GenProps
open Simfile

/-- C04 for the generated code: whatever the generated loader produced survives save and load -/
theorem sm_load_save_load (ps : List Param) (s : SMSimfile) (h : GenCode.loadSM [] [] ps = .ok s) :
    GenCode.loadSM [] [] (paramsOf (GenCode.serSM s)) = .ok s := by
  rw [GenEq.loadSM_eq] at h
  rw [GenEq.serSM_eq, GenEq.loadSM_eq]; exact C04.load_save_load_sm ps s h

end Simfile.GenProps
