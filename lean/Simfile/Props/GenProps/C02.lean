/- C02 stated about the code as translated from the Python source on this run (SSC serializer and loader). -/
import Simfile.Props.GenEq.SerializeSSC
import Simfile.Props.GenEq.Load
import Simfile.Props.C02
namespace Simfile.GenProps
open Simfile

theorem domSSC_hasNotes (s : SSCSimfile) (h : C02.DomSSC s) : ∀ c ∈ s.charts, GenEq.hasNotes c := by
  intro c hc
  obtain ⟨n, hn⟩ := (h.charts c hc).notes
  unfold GenEq.hasNotes; rw [hn]; rfl

/-- C02 for the generated code: serialize, load the parameters: the simfile with every chart's note data moved last -/
theorem ssc_roundtrip (s : SSCSimfile) (h : C02.DomSSC s) :
    GenCode.loadSSC [] [] (paramsOf (GenCode.serSSC s)) = s.notesLast := by
  have h1 := C02.roundtrip_params s h
  rw [GenEq.serSSC_eq s (domSSC_hasNotes s h)] at h1
  rw [GenEq.loadSSC_eq]
  exact Except.ok.inj h1

end Simfile.GenProps
