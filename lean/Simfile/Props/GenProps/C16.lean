/- C16 / C17 stated about `_copy_properties` as translated from the Python source on this run. -/
import Simfile.Props.GenEq.ConvertCopy
import Simfile.Props.C16
import Simfile.Props.C17
namespace Simfile.GenProps
open Simfile

/-- C16: towards an SSC target the generated `_should_copy_property` accepts every property (nothing is invalid for SSC) -/
theorem ssc_target_copies_everything (k : Str) (v : Option Str) (beh : List (Nat × Nat)) :
    GenCode.shouldCopy k v T.invalidSSCSimfile beh = .ok true ∧ GenCode.shouldCopy k v T.invalidSSCChart beh = .ok true := by
  rw [GenEq.shouldCopy_eq, GenEq.shouldCopy_eq]; exact C16.should_copy_ssc k v beh

/-- C17: the generated `_copy_properties` stops at the first property, in source order, whose behaviour rejects it, and names it -/
theorem copy_first_error (sm : Bool) (pre post output : Dict) (k : Str) (v : Option Str)
    (invalid : List (Nat × List Str)) (beh : List (Nat × Nat)) (e : CErr)
    (h1 : ∀ x ∈ pre, ∃ b, shouldCopy x.1 x.2 invalid beh = .ok b)
    (h2 : sm = true → ∀ x ∈ pre, Cv.accepted invalid beh x = true → x.1 ∈ T.smChartProperties)
    (h3 : shouldCopy k v invalid beh = .error e) :
    GenCode.copyProperties sm invalid (pre ++ (k, v) :: post) output beh = .error e ∧ e = .invalidProperty k := by
  rw [GenEq.copyProperties_eq]; exact C17.copy_first_error sm pre post output k v invalid beh e h1 h2 h3

end Simfile.GenProps
