/- C01 stated about the code as translated from the Python source on this run: the generated SM serializer followed by the generated SM loader gives the object back. -/
import Simfile.Props.GenEq.Serialize
import Simfile.Props.GenEq.Load
import Simfile.Props.C01
namespace Simfile.GenProps
open Simfile

/-- C01 for the generated code: serialize, then load the parameters, gives the simfile back (all of DomSM) -/
theorem sm_roundtrip (s : SMSimfile) (h : C01.DomSM s) :
    GenCode.loadSM [] [] (paramsOf (GenCode.serSM s)) = .ok s := by
  rw [GenEq.serSM_eq, GenEq.loadSM_eq]; exact C01.roundtrip_params s h

end Simfile.GenProps
