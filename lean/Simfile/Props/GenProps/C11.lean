/- C11 stated about the engine code as translated from the Python source on this run. -/
import Simfile.Props.GenEq.EngineQuery
import Simfile.Props.C11
namespace Simfile.GenProps
open Simfile

/-- C11: the generated `time_at` on the engine built from timing data in the domain is the declarative timeline -/
theorem time_at_is_timeline (td : TimingData) (h : C11.Dom td) (b : Rat) (g : Tag) :
    GenCode.timeAt (mkEngine td) b g = Spec.timeSpec td b g := by
  rw [GenEq.timeAt_eq]; exact C11.time_refines_spec td h b g

end Simfile.GenProps
