/-
C13 — `TimingEngine.hittable` and `time_notes` against the declarative timeline: a beat is unhittable
exactly when it lies inside the union of the warp segments and carries no stop and no delay.
Property theorems only; helper lemmas live in Simfile/Lemmas/EngineHit.lean (and the C11 library).
The domain hypothesis is `Simfile.C11.Dom` (Simfile/Lemmas/EngineBasic.lean), shown satisfiable below.
-/
import Simfile.Lemmas.EngineHit
import Simfile.Props.C11
namespace Simfile.C13
open Simfile

/-- 1. the engine's `hittable` is the declarative one, for every rational beat (off-grid and negative
beats included) -/
theorem hittable_spec (td : TimingData) (h : C11.Dom td) (b : Rat) :
    hittable td b = Spec.hittableSpec td b :=
  hittable_eq_spec h b

/-- 2. `time_notes` is the declarative `timeNotesSpec`, for each of the three options -/
theorem time_notes_spec (td : TimingData) (h : C11.Dom td) (opt : Unhittable) (notes : List Note) :
    timeNotes td opt notes = Spec.timeNotesSpec td opt notes := by
  unfold timeNotes Spec.timeNotesSpec
  dsimp only
  congr 1
  funext n
  have h1 : (mkEngine td).hittable n.beat = Spec.hittableSpec td n.beat := hittable_spec td h n.beat
  have h2 : (mkEngine td).timeAt n.beat = Spec.timeSpec td n.beat .stop :=
    C11.time_refines_spec td h n.beat .stop
  simp only [h1, h2]
  cases Spec.hittableSpec td n.beat <;> cases opt <;> simp

/-- 3. with `keepNote` every note is kept, unchanged, at its declarative time -/
theorem time_notes_keep (td : TimingData) (h : C11.Dom td) (notes : List Note) :
    timeNotes td .keepNote notes = notes.map fun n => (Spec.timeSpec td n.beat .stop, n) := by
  rw [time_notes_spec td h, Spec.timeNotesSpec, ← List.filterMap_eq_map]
  congr 1
  funext n
  cases Spec.hittableSpec td n.beat <;> simp

/-- 4. the output, stripped of times and note types, is a sublist of the input: nothing is reordered,
duplicated or invented, whatever the option -/
theorem time_notes_sublist (td : TimingData) (_h : C11.Dom td) (opt : Unhittable) (notes : List Note) :
    List.Sublist
      ((timeNotes td opt notes).map (fun r => (r.2.beat, r.2.column, r.2.player, r.2.keysound)))
      (notes.map (fun n => (n.beat, n.column, n.player, n.keysound))) := by
  unfold timeNotes
  apply filterMap_map_sublist
  intro a r hr
  split_ifs at hr <;> cases hr <;> rfl

/-- 5. an output note is an input note, or an input note whose type alone was changed to FAKE -/
theorem fake_differs_in_type_only (td : TimingData) (_h : C11.Dom td) (opt : Unhittable)
    (notes : List Note) :
    ∀ r ∈ timeNotes td opt notes, ∃ n ∈ notes, r.2 = n ∨ r.2 = { n with ntype := cFAKE } := by
  intro r hr
  unfold timeNotes at hr
  obtain ⟨n, hn, hf⟩ := List.mem_filterMap.1 hr
  refine ⟨n, hn, ?_⟩
  split_ifs at hf <;> cases hf
  · exact Or.inl rfl
  · exact Or.inr rfl

/-! ### non-vacuity: a stop on a delay inside a warp that starts on beat 0, with a BPM change inside -/

/-- the sample timing data -/
def sample : TimingData := {
    bpms := [(0, 120), (1, 240)]
    stops := [(1/2, 1/4)]
    delays := [(1/2, 1/8)]
    warps := [(0, 2)]
    offset := 1/100 }

theorem sample_dom : C11.Dom sample := by
  have g0 : onGrid 0 := ⟨0, by norm_num⟩
  have g1 : onGrid 1 := ⟨48, by rw [C14.ticks_is_48]; norm_num⟩
  have g2 : onGrid (1/2) := ⟨24, by rw [C14.ticks_is_48]; norm_num⟩
  have hr : roundToTick 2 = 2 := by
    have := C14.round_idem 96
    norm_num at this
    exact this
  unfold sample
  constructor
  · simp
  · simp
  · intro e he; simp at he; rcases he with rfl | rfl <;> norm_num
  · simp
  · intro e he; simp at he; rcases he with rfl | rfl
    · exact ⟨le_refl _, g0⟩
    · exact ⟨by norm_num, g1⟩
  · intro e he; simp at he; subst he; norm_num
  · simp
  · intro e he; simp at he; subst he; exact ⟨by norm_num, by simpa using g2⟩
  · intro e he; simp at he; subst he; norm_num
  · simp
  · intro e he; simp at he; subst he; exact ⟨by norm_num, by simpa using g2⟩
  · intro e he; simp at he; subst he; rw [hr]; norm_num
  · simp
  · intro e he; simp at he; subst he; exact ⟨le_refl _, g0⟩

example : C11.Dom sample := sample_dom

/-- inside the warp the beat with the stop and the delay is hittable and its neighbours (on and off the
grid) are not; from the end of the warp on and on negative beats everything is hittable -/
example : hittable sample (1/2) = true ∧ hittable sample (1/4) = false ∧ hittable sample (3/2) = false ∧
    hittable sample (1/7) = false ∧ hittable sample 2 = true ∧ hittable sample (-1) = true := by
  simp only [hittable_spec sample sample_dom]
  decide +kernel

/-- the same beat without the stop and the delay is not hittable -/
example : hittable { sample with stops := [], delays := [] } (1/2) = false := by
  have hd : C11.Dom { sample with stops := [], delays := [] } :=
    { sample_dom with
      stops_pos := by simp, stops_sorted := by simp, stops_grid := by simp,
      delays_pos := by simp, delays_sorted := by simp, delays_grid := by simp }
  rw [hittable_spec _ hd]
  decide +kernel

/-- `time_notes` on that input: the tap inside the warp becomes a fake, the mine there is dropped -/
example : (timeNotes sample .tapToFake
      [⟨1/4, 0, cTAP, 0, none⟩, ⟨1/4, 1, cMINE, 0, none⟩, ⟨1/2, 2, cTAP, 0, none⟩]).map (·.2) =
    [⟨1/4, 0, cFAKE, 0, none⟩, ⟨1/2, 2, cTAP, 0, none⟩] := by
  rw [time_notes_spec sample sample_dom]
  decide +kernel

end Simfile.C13
