/-
C12 — additions to Simfile/Props/C12.lean:
  A. the tag of a `beat_at` query: every tag other than WARP behaves like the default, and off the state
     times the tag is irrelevant altogether;
  B. the round trip `beat_at(time_at(b))` on the hittable beats INSIDE warps (a stop or a delay on the
     beat), the two ends of a pause included, and the round trip outside the warps under every tag;
  C. the theorems of C12.lean that survive on the wider domain `Dom0` (zero-length stops, delays, warps):
     sorted state times, inverse on the grid outside warps, inside a pause, tick alignment, monotonicity.
Domain: `Simfile.C11.Dom` (A.1 and A.2 need no domain hypothesis; C needs `Dom0` only). B is about pauses of
positive length, so it stays on `Dom` (C.5 shows that it has to).
Property theorems only; helper lemmas live in Simfile/Lemmas/EngineWideTags.lean, EngineWideIndex.lean,
EngineWideInv.lean, EngineWideEval.lean (namespace `Simfile.Wide`).
-/
import Simfile.Lemmas.EngineWideTags
import Simfile.Lemmas.EngineWideInv
import Simfile.Lemmas.EngineWideEval
import Simfile.Props.C12
import Simfile.Props.C11Wide
namespace Simfile.C12Wide
open Simfile C11 Wide

/-! ### A. the tag of a `beat_at` query -/

/-- A.1 (clause "the WARP tag gives … the default gives …": the other five tags). Every tag other than
WARP answers what the default tag STOP answers, at every time, for every timing data (no domain
hypothesis): `beat_at` uses `bisect_left` for WARP and `bisect_right` for everything else. -/
theorem beatAt_tag_nonwarp (td : TimingData) (t : Rat) (g : Tag) (hg : g ≠ .warp) :
    beatAt td t g = beatAt td t .stop :=
  beatAt_nonwarp td t hg

/-- A.2 at a time that is not the time of any state of the engine the tag is irrelevant: WARP too answers
what the default answers (no domain hypothesis) -/
theorem beatAt_tag_off_state_times (td : TimingData) (t : Rat) (hne : ∀ s ∈ states td, s.time ≠ t)
    (g g' : Tag) : beatAt td t g = beatAt td t g' :=
  beatAt_off_times td t hne g g'

/-- A.3 the same, stated on the inputs. `eventBeat td b`: beat `b` is 0, or the beat of a BPM, STOP or
DELAY row, or the start or the (tick-rounded) end of a WARP row. If `t` is not `time_at(b, tag)` for any such
beat and any tag, then every tag gives the same `beat_at(t)` — "the tag only matters at event times". -/
theorem beatAt_tag_irrelevant (td : TimingData) (h : Dom td) (t : Rat)
    (hne : ∀ b g, eventBeat td b → timeAt td b g ≠ t) (g g' : Tag) :
    beatAt td t g = beatAt td t g' := by
  apply beatAt_off_times td t
  intro s hs
  obtain ⟨hb, ht⟩ := state_time_event h hs
  rw [ht, ← C11.time_refines_spec td h]
  exact hne s.beat s.tag hb

/-- what `eventBeat` is -/
theorem eventBeat_def (td : TimingData) (b : Rat) : eventBeat td b ↔
    (b = 0 ∨ (∃ e ∈ td.bpms, e.1 = b) ∨ (∃ e ∈ td.stops, e.1 = b) ∨ (∃ e ∈ td.delays, e.1 = b) ∨
      (∃ w ∈ td.warps, w.1 = b ∨ w.1 + roundToTick w.2 = b)) := Iff.rfl

/-! ### B. round trips on beats that carry a pause (in particular the hittable beats inside warps) -/

/-- B.1 a beat that carries a stop — inside a warp or not — is returned by the round trip under the default
tags (`time_notes` hands out exactly this time for a note on that beat): `beat_at(time_at(b)) = b`, and under
every tag other than WARP for the second conversion. At the END of the stop the WARP tag returns it. -/
theorem inverse_on_stop (td : TimingData) (h : Dom td) (b L : Rat) (hs : (b, L) ∈ td.stops) :
    (∀ g, g ≠ .warp → beatAt td (timeAt td b .stop) g = b) ∧ beatAt td (timeAt td b .stopEnd) .warp = b := by
  rw [C11.time_refines_spec td h, C11.time_refines_spec td h]
  constructor
  · intro g hg
    rw [beatAt_nonwarp td _ hg]
    exact beatAt_pause_start h .stop .stopEnd (by simp) (Or.inl rfl) b L (ev_stop hs)
  · exact beatAt_pause_end h .stop .stopEnd (by simp) (Or.inl rfl) b L (ev_stop hs) (ev_stopEnd hs)

/-- B.2 a beat that carries a delay: asked at the DELAY key (any tag before DELAY_END gives the same time)
the default search returns the beat; the default `time_at(b)` is the time at which the delay ENDS, and there
the WARP tag returns the beat, while the default tag returns the furthest beat reached at that time, which
is at or after `b` (strictly after when `b` is inside a warp and carries no stop: `delay_only_in_warp_example`) -/
theorem inverse_on_delay (td : TimingData) (h : Dom td) (b L : Rat) (hs : (b, L) ∈ td.delays) :
    (∀ g, g ≠ .warp → beatAt td (timeAt td b .delay) g = b) ∧
    beatAt td (timeAt td b .stop) .warp = b ∧
    IsGreatest {c : Rat | onGrid c ∧ timeAt td c .warp ≤ timeAt td b .stop} (beatAt td (timeAt td b .stop) .stop) ∧
    b ≤ beatAt td (timeAt td b .stop) .stop := by
  have hts : timeAt td b .stop = Spec.timeSpec td b .delayEnd := by
    rw [← (C11Wide.timeAt_tag_classes td h.toDom0 b).2, C11.time_refines_spec td h]
  have hgr := stop_at_event_time h (ev_delayEnd hs)
  simp only at hgr
  have hset : {c : Rat | onGrid c ∧ timeAt td c .warp ≤ timeAt td b .stop} =
      {c : Rat | onGrid c ∧ Spec.timeSpec td c .warp ≤ Spec.timeSpec td b .delayEnd} := by
    ext c
    simp only [Set.mem_ofPred_eq, hts, C11.time_refines_spec td h]
  rw [hset, hts]
  refine ⟨?_, ?_, hgr, ?_⟩
  · intro g hg
    rw [C11.time_refines_spec td h, beatAt_nonwarp td _ hg]
    exact beatAt_pause_start h .delay .delayEnd (by simp) (Or.inr rfl) b L (ev_delay hs)
  · exact beatAt_pause_end h .delay .delayEnd (by simp) (Or.inr rfl) b L (ev_delay hs) (ev_delayEnd hs)
  · apply hgr.2
    exact ⟨(h.delays_grid _ hs).2, Simfile.timeSpec_mono td h (key_le.2 (Or.inr ⟨rfl, by simp⟩))⟩

/-- B.2' … and that overshoot is real: a beat inside a warp that carries a delay and no stop is NOT returned by
the default tags (the answer is at least one tick later), although it is hittable; the WARP tag returns it (B.2) -/
theorem delay_only_in_warp (td : TimingData) (h : Dom td) (b L : Rat) (hs : (b, L) ∈ td.delays)
    (hw : Spec.inWarp td b = true) (hno : ∀ e ∈ td.stops, e.1 ≠ b) :
    b + 1 / 48 ≤ beatAt td (timeAt td b .stop) .stop ∧ beatAt td (timeAt td b .stop) .warp = b ∧
    Spec.hittableSpec td b = true := by
  refine ⟨?_, (inverse_on_delay td h b L hs).2.1, ?_⟩
  · rw [← (C11Wide.timeAt_tag_classes td h.toDom0 b).2, C11.time_refines_spec td h]
    exact delay_only_overshoots h hs hw hno
  · simp only [Spec.hittableSpec, hw, Bool.true_and, Bool.not_not, Bool.or_eq_true, List.any_eq_true,
      decide_eq_true_eq]
    exact Or.inr ⟨(b, L), hs, rfl⟩

/-- B.3 the whole stop, both ends included (C12.inside_pause covers the open interval): on
`[start, end)` every tag other than WARP answers the paused beat, on `(start, end]` the WARP tag does.
`start = time_at(b, STOP)`, `end = start + L = time_at(b, STOP_END)`. -/
theorem pause_closed (td : TimingData) (h : Dom td) (b L : Rat) (hs : (b, L) ∈ td.stops) (t : Rat) :
    timeAt td b .stopEnd = timeAt td b .stop + L ∧
    (timeAt td b .stop ≤ t → t < timeAt td b .stop + L → ∀ g, g ≠ .warp → beatAt td t g = b) ∧
    (timeAt td b .stop < t → t ≤ timeAt td b .stop + L → beatAt td t .warp = b) := by
  rw [C11.time_refines_spec td h, C11.time_refines_spec td h]
  exact ⟨timeSpec_pause h .stop .stopEnd (by simp) (Or.inl rfl) b L (ev_stop hs),
    beatAt_pause_closed h .stop .stopEnd (by simp) (Or.inl rfl) b L (ev_stop hs) (ev_stopEnd hs) t⟩

/-- B.3 for a delay: `start = time_at(b, DELAY)`, `end = start + L = time_at(b, DELAY_END)` -/
theorem pause_closed_delay (td : TimingData) (h : Dom td) (b L : Rat) (hs : (b, L) ∈ td.delays) (t : Rat) :
    timeAt td b .delayEnd = timeAt td b .delay + L ∧
    (timeAt td b .delay ≤ t → t < timeAt td b .delay + L → ∀ g, g ≠ .warp → beatAt td t g = b) ∧
    (timeAt td b .delay < t → t ≤ timeAt td b .delay + L → beatAt td t .warp = b) := by
  rw [C11.time_refines_spec td h, C11.time_refines_spec td h]
  exact ⟨timeSpec_pause h .delay .delayEnd (by simp) (Or.inr rfl) b L (ev_delay hs),
    beatAt_pause_closed h .delay .delayEnd (by simp) (Or.inr rfl) b L (ev_delay hs) (ev_delayEnd hs) t⟩

/-- B.4 every HITTABLE tick-aligned beat (`Spec.hittableSpec`: outside the warp union, or carrying a stop or
a delay) comes back from the round trip `beat_at(time_at(b))`: under the default tags when it is outside the
warps or carries a stop; under the WARP tag when it carries a delay. (A beat inside a warp with a delay and
no stop is the one case where the default tag overshoots, see B.2.) -/
theorem inverse_on_hittable (td : TimingData) (h : Dom td) (b : Rat) (hb : onGrid b)
    (hh : Spec.hittableSpec td b = true) :
    ((Spec.inWarp td b = false ∨ ∃ e ∈ td.stops, e.1 = b) → beatAt td (timeAt td b .stop) .stop = b) ∧
    ((∃ e ∈ td.delays, e.1 = b) → beatAt td (timeAt td b .stop) .warp = b) ∧
    (beatAt td (timeAt td b .stop) .stop = b ∨ beatAt td (timeAt td b .stop) .warp = b) := by
  have h1 : (Spec.inWarp td b = false ∨ ∃ e ∈ td.stops, e.1 = b) → beatAt td (timeAt td b .stop) .stop = b := by
    rintro (hw | ⟨e, he, rfl⟩)
    · exact C12.inverse_on_grid td h b hb hw
    · exact (inverse_on_stop td h e.1 e.2 he).1 .stop (by decide)
  have h2 : (∃ e ∈ td.delays, e.1 = b) → beatAt td (timeAt td b .stop) .warp = b := by
    rintro ⟨e, he, rfl⟩
    exact (inverse_on_delay td h e.1 e.2 he).2.1
  refine ⟨h1, h2, ?_⟩
  simp only [Spec.hittableSpec, Bool.not_eq_true', Bool.and_eq_false_iff, Bool.not_eq_false',
    Bool.or_eq_true, List.any_eq_true, decide_eq_true_eq] at hh
  rcases hh with hw | hs | hd
  · exact Or.inl (h1 (Or.inl hw))
  · exact Or.inl (h1 (Or.inr hs))
  · exact Or.inr (h2 hd)

/-- B.5 outside the warp union the round trip holds under EVERY tag for `time_at` and every tag other than
WARP for `beat_at` (C12.inverse_on_grid fixes both to STOP); negative tick-aligned beats included -/
theorem inverse_all_tags (td : TimingData) (h : Dom td) (b : Rat) (hb : onGrid b)
    (hw : Spec.inWarp td b = false) (g g' : Tag) (hg' : g' ≠ .warp) :
    beatAt td (timeAt td b g) g' = b := by
  rw [C11.time_refines_spec td h, beatAt_nonwarp td _ hg']
  exact beatAt_timeSpec_any_tag h hb hw g

/-! ### C. the wider domain: zero-length stops, delays and warps -/

/-- C.1 (C12.times_monotone on `Dom0`) the state times never decrease, also with zero-length stops, delays and
warps — this is what justifies searching on the times alone -/
theorem times_monotone (td : TimingData) (h : Dom0 td) : ((states td).map (·.time)).Pairwise (· ≤ ·) := by
  rw [List.pairwise_map]
  exact Wide.times_sorted h

/-- C.2 (C12.inverse_on_grid on `Dom0`) `beat_at` inverts `time_at` on every tick-aligned beat outside the
warp union, also when the beat carries a zero-length stop, delay or warp (with a zero-length stop on the beat
the search lands on the STOP_END state of that beat and extrapolates by zero ticks) -/
theorem inverse_on_grid (td : TimingData) (h : Dom0 td) (b : Rat) (hb : onGrid b)
    (hw : Spec.inWarp td b = false) : beatAt td (timeAt td b .stop) .stop = b := by
  rw [C11Wide.time_refines_spec td h]
  exact Wide.beatAt_timeSpec h hb hw

/-- C.3 (C12.inside_pause, inside_pause_delay on `Dom0`) strictly inside a stop or a delay every tag answers
the paused beat (the window is empty for a zero-length row) -/
theorem inside_pause (td : TimingData) (h : Dom0 td) (b L : Rat) (t : Rat) (g : Tag) :
    ((b, L) ∈ td.stops → timeAt td b .stop < t → t < timeAt td b .stop + L → beatAt td t g = b) ∧
    ((b, L) ∈ td.delays → timeAt td b .delay < t → t < timeAt td b .delay + L → beatAt td t g = b) := by
  rw [C11Wide.time_refines_spec td h, C11Wide.time_refines_spec td h]
  exact ⟨fun hs h1 h2 =>
      Wide.beatAt_pause h .stop .stopEnd (by simp) (Or.inl rfl) b L (ev_stop hs) (ev_stopEnd hs) t h1 h2 g,
    fun hs h1 h2 =>
      Wide.beatAt_pause h .delay .delayEnd (by simp) (Or.inr rfl) b L (ev_delay hs) (ev_delayEnd hs) t h1 h2 g⟩

/-- C.4 (C12.tick_aligned, C12.monotone on `Dom0`) every answer is tick-aligned and the answer never decreases
as the time increases -/
theorem aligned_and_monotone (td : TimingData) (h : Dom0 td) (g : Tag) :
    (∀ t, onGrid (beatAt td t g)) ∧ ∀ t₁ t₂, t₁ ≤ t₂ → beatAt td t₁ g ≤ beatAt td t₂ g :=
  ⟨fun t => Wide.beatAt_grid h t g, fun _ _ ht => Wide.beatAt_mono h g ht⟩

/-- C.5 what does NOT extend: a zero-length stop inside a warp makes its beat hittable (`hittableSpec`, and the
library's `hittable`) but the round trip B.1 fails for it — on sample A the beat 1/2 carries a zero-length stop
inside the warp `[0, 2)`, `time_at(1/2) = -1/100` and `beat_at(-1/100) = 2`, the end of the warp. So B.1-B.4 need
the positive lengths of `Dom`. -/
theorem zero_length_stop_in_warp_example :
    Dom0 sampleA ∧ ((1/2 : Rat), (0 : Rat)) ∈ sampleA.stops ∧ Spec.hittableSpec sampleA (1/2) = true ∧
    timeAt sampleA (1/2) .stop = -1/100 ∧ beatAt sampleA (-1/100) .stop = 2 ∧ beatAt sampleA (-1/100) .warp = 0 :=
  ⟨sampleA_dom0, by decide +kernel, by decide +kernel, values_sampleA_beat⟩

/-! ### non-vacuity -/

/-- `C12.cexTd0`: a stop on beat 5 inside the warp `[4, 8)`; beat 5 is inside the warp union, hittable, and
carries the stop `(5, 1)` — the hypotheses of `inverse_on_stop`, `pause_closed`, `inverse_on_hittable` -/
example : Dom cexTd0 ∧ ((5 : Rat), (1 : Rat)) ∈ cexTd0.stops ∧ Spec.inWarp cexTd0 5 = true ∧
    Spec.hittableSpec cexTd0 5 = true ∧ onGrid (5 : Rat) :=
  ⟨cexTd0_dom, by decide +kernel, by decide +kernel, by decide +kernel, onGrid_of_B (by decide +kernel)⟩

/-- … so on that input the note on beat 5 round-trips although a warp skips over it -/
example : beatAt cexTd0 (timeAt cexTd0 5 .stop) .stop = 5 :=
  (inverse_on_stop cexTd0 cexTd0_dom 5 1 (by decide +kernel)).1 .stop (by decide)

/-- Sample C (`Wide.sampleC`): a delay and no stop on beat 5 inside the warp `[4, 8)`; hypotheses of
`inverse_on_delay`, `pause_closed_delay` -/
example : Dom sampleC ∧ ((5 : Rat), (1 : Rat)) ∈ sampleC.delays ∧ Spec.inWarp sampleC 5 = true ∧
    Spec.hittableSpec sampleC 5 = true ∧ sampleC =
    { bpms := [(0, 60)], stops := [], delays := [(5, 1)], warps := [(4, 4)], offset := 0 } :=
  ⟨sampleC_dom, by decide +kernel, by decide +kernel, by decide +kernel, rfl⟩

/-- the hypotheses of `delay_only_in_warp` hold on sample C -/
example : Spec.inWarp sampleC 5 = true ∧ ∀ e ∈ sampleC.stops, e.1 ≠ 5 := by decide +kernel

/-- the one hittable case in which the default tags do not return: on sample C `time_at(5) = 5`, the default
`beat_at(5)` is 8 (the end of the warp) and the WARP tag gives 5; asking at the DELAY key, `time_at(5, DELAY) = 4`
and `beat_at(4) = 5`. Computed with the engine model (the Python library returns the same numbers). -/
theorem delay_only_in_warp_example :
    timeAt sampleC 5 .stop = 5 ∧ beatAt sampleC 5 .stop = 8 ∧ beatAt sampleC 5 .warp = 5 ∧
    timeAt sampleC 5 .delay = 4 ∧ beatAt sampleC 4 .stop = 5 ∧ beatAt sampleC 4 .warp = 4 :=
  values_sampleC

/-- the hypothesis of `beatAt_tag_off_state_times` / `beatAt_tag_irrelevant` is satisfiable: on sample C no
state has time 9/2 -/
example : ∀ s ∈ states sampleC, s.time ≠ 9/2 := by
  rw [states_sampleC]; decide +kernel

/-- the hypotheses of `inverse_all_tags` are satisfiable: beat 1 of `cexTd0` -/
example : onGrid (1 : Rat) ∧ Spec.inWarp cexTd0 1 = false ∧ Tag.stopEnd ≠ .warp :=
  ⟨onGrid_of_B (by decide +kernel), by decide +kernel, by decide⟩

/-- `times_monotone` on an input outside the old domain: sample A of C11Wide (zero-length stops inside and
outside a warp, zero-length warps) -/
example : Dom0 sampleA ∧ ¬ Dom sampleA ∧ (states sampleA).map (·.time) =
    [-1/100, -1/100, -1/100, -1/100, -1/100, -1/100, -1/100, -1/100, 6/25, 6/25, 49/100, 49/100, 37/50, 37/50,
     37/50, 99/100, 31/25, 31/25] := by
  refine ⟨sampleA_dom0, fun h => ?_, by rw [states_sampleA]; decide +kernel⟩
  have := h.stops_pos (3, 0) (by decide +kernel)
  simp at this

end Simfile.C12Wide
