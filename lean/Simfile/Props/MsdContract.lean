/-
The tokenizer contract `Msd.Contract` DISCHARGED for the modelled msdparser `MsdP.msd` (lexer + parser + `__str__`):
`contract`, and with it the concrete instances of the abstract round-trip theorems of C01 / C02 / C04.

History. With the earlier predicate `safeDocOld is := safeParams (paramsOf is) false` the contract was FALSE, in
exactly two corners (both reproduced with the real msdparser), which is why `safeDoc` now has two more conjuncts:
  (a) a parameter with NO components: `str(MSDParameter([]))` is "#;", which parses back as one EMPTY component;
  (b) leading blank text that ends in a line break, followed by a first parameter in which a '#' is reached before any
      TEXT token (empty / escape-only key, e.g. components ["", "#"]): the document "\n#:#;" is read as TWO parameters,
      because the leading TEXT token sets the missing-semicolon-recovery flag.
`not_contract_old` / `not_contract_old_nonempty` keep the closed counter-examples.
-/
import Simfile.Lemmas.MsdLexDoc
import Simfile.Props.C01
import Simfile.Props.C02
import Simfile.Props.C04
namespace Simfile.MsdContract
open Simfile Simfile.MsdP

/-- `lex` does not depend on its fuel once the fuel exceeds the length of the text (so `parse` never runs out) -/
theorem lex_fuel_independent (n m : Nat) (s : Str) (inside lastNl : Bool)
    (hn : s.length < n) (hm : s.length < m) : lex n s inside lastNl = lex m s inside lastNl :=
  lex_fuel n m s inside lastNl hn hm

/-- Round trip, hypotheses spelled out: blank texts, every parameter has a component, the parameters are safe
starting from the flag the leading text leaves. -/
theorem roundtrip_general (is : List Item) (strict : Bool)
    (hblank : ∀ t, Item.text t ∈ is → isBlank t = true)
    (hne : ∀ p ∈ paramsOf is, p.comps ≠ [])
    (hsafe : safeParams (paramsOf is) (endsWithNl (leadText is)) = true) :
    MsdP.msd.tokenize strict (MsdP.msd.renderDoc is) = .ok (paramsOf is) := by
  have hb : bitAfter ([] ++ leadText is) false = endsWithNl (leadText is) := by
    rw [endsWithNl_eq]
    cases h : leadText is <;> simp [bitAfter, endsNl]
  have := go_doc strict is [] false [] rfl hblank hne (by rw [hb]; exact hsafe)
  simp only [List.nil_append] at this
  show (match parse strict (msd.renderDoc is) with
    | some t => if t.strayError then Except.error Err.msdParserError else Except.ok t.params
    | none => Except.error Err.valueError) = _
  rw [parse_eq_go, this]
  rfl

/-- THE CONTRACT for the modelled msdparser -/
theorem contract : MsdP.msd.Contract where
  roundtrip is strict hblank hsafe := by
    simp only [safeDoc, Bool.and_eq_true, List.all_eq_true, Bool.not_eq_true', List.isEmpty_eq_false_iff] at hsafe
    exact roundtrip_general is strict hblank hsafe.1 hsafe.2

/-- the conservative start flag suffices (whatever the leading text) -/
theorem safeDoc_of_safeParams_true (is : List Item) (hne : ∀ p ∈ paramsOf is, p.comps ≠ [])
    (h : safeParams (paramsOf is) true = true) : safeDoc is = true := by
  simp only [safeDoc, Bool.and_eq_true, List.all_eq_true, Bool.not_eq_true', List.isEmpty_eq_false_iff]
  exact ⟨hne, safeParams_mono _ true _ (fun _ => rfl) h⟩

/-- the start flag is irrelevant when the first parameter's key begins with a character other than `\ : ; #`
(every key an SM / SSC simfile writes): then `safeDoc` is the old predicate plus non-empty parameters -/
theorem safeDoc_of_key_first (is : List Item) (hne : ∀ p ∈ paramsOf is, p.comps ≠ [])
    (hold : safeParams (paramsOf is) false = true)
    (hkey : ∀ p, (paramsOf is).head? = some p →
      ∃ c cs, p.key = c :: cs ∧ c ≠ '\\' ∧ c ≠ ':' ∧ c ≠ ';' ∧ c ≠ '#') :
    safeDoc is = true := by
  simp only [safeDoc, Bool.and_eq_true, List.all_eq_true, Bool.not_eq_true', List.isEmpty_eq_false_iff]
  refine ⟨hne, ?_⟩
  cases hps : paramsOf is with
  | nil => rfl
  | cons p ps =>
    obtain ⟨c, cs, hk, h1, h3, h4, h5⟩ := hkey p (by rw [hps]; rfl)
    rw [safeParams_flag_irrel p ps c cs hk h1 h3 h4 h5, ← hps]
    exact hold

/-! ### the abstract round-trip theorems instantiated with the modelled msdparser -/

/-- C01 through the concrete lexer/parser: serialize, render, tokenize (strictly or not), load -/
theorem sm_roundtrip_concrete (s : SMSimfile) (h : C01.DomSM s) (hs : safeDoc (serSM s) = true) (strict : Bool) :
    (MsdP.msd.tokenize strict (MsdP.msd.renderDoc (serSM s))).bind loadSM = .ok s :=
  C01.roundtrip MsdP.msd contract s h hs strict

theorem sm_reserialize_stable_concrete (s : SMSimfile) (h : C01.DomSM s) (hs : safeDoc (serSM s) = true)
    (strict : Bool) :
    ((MsdP.msd.tokenize strict (MsdP.msd.renderDoc (serSM s))).bind loadSM).map serSM = .ok (serSM s) :=
  C01.reserialize_stable MsdP.msd contract s h hs strict

/-- C02 through the concrete lexer/parser -/
theorem ssc_roundtrip_concrete (s : SSCSimfile) (h : C02.DomSSC s) (hs : (serSSC s).map safeDoc = .ok true)
    (strict : Bool) :
    (serSSC s).bind (fun is => (MsdP.msd.tokenize strict (MsdP.msd.renderDoc is)).map loadSSC) =
      .ok s.notesLast :=
  C02.roundtrip MsdP.msd contract s h hs strict

/-- C04 through the concrete lexer/parser: load → save as text → tokenize → load -/
theorem load_save_load_sm_concrete (ps : List Param) (s : SMSimfile) (h : loadSM ps = .ok s)
    (hs : safeDoc (serSM s) = true) (strict : Bool) :
    (MsdP.msd.tokenize strict (MsdP.msd.renderDoc (serSM s))).bind loadSM = .ok s :=
  C04.load_save_load_sm_text MsdP.msd contract ps s h hs strict

/-! ### why the two extra conjuncts of `safeDoc` are needed: counter-examples for the old predicate -/

/-- the earlier predicate -/
def safeDocOld (is : List Item) : Bool := safeParams (paramsOf is) false

/-- the earlier contract -/
def contract_old_statement : Prop :=
  ∀ (is : List Item) (strict : Bool), (∀ t, Item.text t ∈ is → isBlank t = true) → safeDocOld is = true →
    MsdP.msd.tokenize strict (MsdP.msd.renderDoc is) = .ok (paramsOf is)

/-- (a) the parameter without components: "#;" reads back as one empty component -/
def cexEmpty : List Item := [.param ⟨[]⟩]
example : safeDocOld cexEmpty = true ∧ safeDoc cexEmpty = false := by decide
example : MsdP.msd.renderDoc cexEmpty = ['#', ';'] := by decide
example : MsdP.msd.tokenize true (MsdP.msd.renderDoc cexEmpty) = .ok [⟨[[]]⟩] := by decide +kernel
example : MsdP.msd.tokenize true (MsdP.msd.renderDoc cexEmpty) ≠ .ok (paramsOf cexEmpty) := by decide +kernel

/-- (b) leading line break, then a parameter with an empty key and the value "#": "\n#:#;" -/
def cexLead : List Item := [.text ['\n'], .param ⟨[[], ['#']]⟩]
example : safeDocOld cexLead = true ∧ safeDoc cexLead = false := by decide
example : ∀ p ∈ paramsOf cexLead, p.comps ≠ [] := by decide
example : MsdP.msd.renderDoc cexLead = ['\n', '#', ':', '#', ';'] := by decide
example : MsdP.msd.tokenize false (MsdP.msd.renderDoc cexLead) = .ok [⟨[[], []]⟩, ⟨[[]]⟩] := by decide +kernel
example : MsdP.msd.tokenize false (MsdP.msd.renderDoc cexLead) ≠ .ok (paramsOf cexLead) := by decide +kernel
/-- without the leading line break the same parameter is fine, also for the new predicate -/
example : safeDoc [.text [' '], .param ⟨[[], ['#']]⟩] = true := by decide

theorem not_contract_old : ¬ contract_old_statement := by
  intro h
  have := h cexEmpty true (blank_of_textsBlank (by decide)) (by decide)
  revert this
  decide +kernel

/-- the second corner refutes the old contract even when every parameter has a component -/
theorem not_contract_old_nonempty :
    ¬ ∀ (is : List Item) (strict : Bool), (∀ t, Item.text t ∈ is → isBlank t = true) → safeDocOld is = true →
      (∀ p ∈ paramsOf is, p.comps ≠ []) →
      MsdP.msd.tokenize strict (MsdP.msd.renderDoc is) = .ok (paramsOf is) := by
  intro h
  have := h cexLead false (blank_of_textsBlank (by decide)) (by decide) (by decide)
  revert this
  decide +kernel

/-! ### non-vacuity -/

/-- values containing ':', ';', '\\', "//", a line break, '#' in the middle of a value; a key-only parameter; an
empty value; parameters with and without text between them; leading text -/
def demo : List Item :=
  [ .text [' '],
    .param ⟨[['T'], ['a', ':', 'b', ';', 'c', '\\', 'd', '/', '/', 'e']]⟩, .text ['\n'],
    .param ⟨[['K']]⟩,
    .param ⟨[['E'], []]⟩, .text ['\n', '\n'], .text ['\t'],
    .param ⟨[['N'], ['x', '\n', 'y', '#', 'z', '/'], ['1', '#']]⟩, .text ['\n'] ]

example : (∀ t, Item.text t ∈ demo → isBlank t = true) := blank_of_textsBlank (by decide)
example : safeDoc demo = true := by decide
example : String.ofList (MsdP.msd.renderDoc demo) = " #T:a\\:b\\;c\\\\d\\//e;\n#K;#E:;\n\n\t#N:x\ny#z/:1#;\n" := by
  decide +kernel
example : MsdP.msd.tokenize true (MsdP.msd.renderDoc demo) = .ok (paramsOf demo) := by decide +kernel
example : MsdP.msd.tokenize false (MsdP.msd.renderDoc demo) = .ok (paramsOf demo) :=
  contract.roundtrip demo false (blank_of_textsBlank (by decide)) (by decide)
/-- leading text that ends in a line break is fine for ordinary keys -/
example : safeDoc (.text ['\n'] :: demo) = true := by decide
/-- the hypothesis on '#' is not idle: the same value after a line break is rejected by `safeDoc` and read wrongly -/
example : safeDoc [.param ⟨[['N'], ['x', '\n', '#', 'z']]⟩] = false := by decide
example : MsdP.msd.tokenize false (MsdP.msd.renderDoc [.param ⟨[['N'], ['x', '\n', '#', 'z']]⟩]) =
    .ok [⟨[['N'], ['x', '\n']]⟩, ⟨[['z']]⟩] := by decide +kernel

end Simfile.MsdContract
