/-
C07 on ARBITRARY text (audit part D, C07-F1/F4/F6): what `NoteData.__iter__` (model: `decodeWith`)
does on any text it accepts, without `Spec.render`, `Spec.WF` or `firstLineOk`; a lenient syntactic
well-formedness predicate `WFText` on raw text with a count theorem; and how the comparison
operators relate to equality. Property theorems only; lemmas live in Simfile/Lemmas/NotesAny*.lean.
-/
import Simfile.Props.C07
import Simfile.Lemmas.NotesAnyStream
import Simfile.Lemmas.NotesAnyWF
import Simfile.Lemmas.NotesAnyRender
namespace Simfile.C07Any
open Simfile

/-! ### 1. every successful decode is strictly sorted, in range, known, non-negative -/

/-- C07 clause 5 (strictly increasing (player, beat, column)) and the range part of clauses 3, 4, for
EVERY text and column count on which the decoder succeeds. -/
theorem decodeWith_ok_stream (cols : Nat) (t : Str) (ns : List Note) (h : decodeWith cols t = .ok ns) :
    ns.Pairwise (fun a b => keyLt a.key b.key = true) ∧
    ∀ n ∈ ns, 0 ≤ n.beat ∧ n.column < cols ∧ isNoteChar n.ntype = true := by
  obtain ⟨hacc, rfl⟩ := (Any.decodeWith_ok_iff cols t ns).mp h
  exact ⟨Any.textNotes_sorted cols t, fun n hn => Any.textNotes_bounds hacc hn⟩

/-- … hence no position occurs twice -/
theorem decodeWith_ok_nodup (cols : Nat) (t : Str) (ns : List Note) (h : decodeWith cols t = .ok ns) :
    (ns.map Note.key).Nodup ∧ ns.Nodup := by
  have hs := (decodeWith_ok_stream cols t ns h).1
  have := Any.nodup_of_keyLt hs
  exact ⟨this, List.Nodup.of_map _ this⟩

/-! ### 2. when the decoder succeeds, and which cell gives which note -/

/-- the decoder succeeds exactly when every line (of every measure of every player) is readable:
its brackets parse, and every non-'0' cell is a known note character in a column below `cols`.
(Everything else — empty measures, ragged rows, blank lines, line-break flavour — is accepted.) -/
theorem decodeWith_succeeds_iff (cols : Nat) (t : Str) :
    (∃ ns, decodeWith cols t = .ok ns) ↔
      ∀ sec ∈ splitOn '&' t, ∀ mt ∈ splitOn ',' sec, ∀ line ∈ splitLines (strip mt),
        ∃ cells ks,
          extractKeysounds true (strip line).length (strip line) (List.replicate cols none) = .ok (cells, ks) ∧
          ∀ c ch, cells[c]? = some ch → ch ≠ '0' → isNoteChar ch = true ∧ c < cols := by
  have key : ∀ line, Any.LineOK cols line ↔ ∃ cells ks,
      extractKeysounds true (strip line).length (strip line) (List.replicate cols none) = .ok (cells, ks) ∧
      ∀ c ch, cells[c]? = some ch → ch ≠ '0' → isNoteChar ch = true ∧ c < cols := by
    intro line
    constructor
    · rintro ⟨cells, ks, h1, h2⟩
      exact ⟨cells, ks, h1, fun c ch hc hne => h2 (c, ch) (mem_enumFrom.mpr ⟨Nat.zero_le _, by simpa using hc⟩) hne⟩
    · rintro ⟨cells, ks, h1, h2⟩
      refine ⟨cells, ks, h1, ?_⟩
      rintro ⟨c, ch⟩ hx hne
      exact h2 c ch (by simpa using (mem_enumFrom.mp hx).2) hne
  constructor
  · rintro ⟨ns, h⟩
    have hacc := ((Any.decodeWith_ok_iff cols t ns).mp h).1
    exact fun sec hs mt hm line hl => (key line).mp (hacc sec hs mt hm line hl)
  · intro h
    exact ⟨_, (Any.decodeWith_ok_iff cols t _).mpr
      ⟨fun sec hs mt hm line hl => (key line).mpr (h sec hs mt hm line hl), rfl⟩⟩

/-- C07 clauses 1–4 at text level, for every accepted text: the notes are exactly the non-'0' cells.
Cell `c` of line `l` (of `rows` lines) of measure `m` of player section `p` gives the note with
beat `4·m + 4·l/rows`, column `c` (brackets not counted), the cell's character and keysound. -/
theorem mem_decodeWith_iff (cols : Nat) (t : Str) (ns : List Note) (h : decodeWith cols t = .ok ns) (n : Note) :
    n ∈ ns ↔ ∃ (p : Nat) (sec : Str) (m : Nat) (mt : Str) (l : Nat) (line cells : Str)
        (ks : List (Option Nat)) (c : Nat) (ch : Char),
      (splitOn '&' t)[p]? = some sec ∧ (splitOn ',' sec)[m]? = some mt ∧
      (splitLines (strip mt))[l]? = some line ∧
      extractKeysounds true (strip line).length (strip line) (List.replicate cols none) = .ok (cells, ks) ∧
      cells[c]? = some ch ∧ ch ≠ '0' ∧
      n = ⟨4 * (m : Rat) + 4 * (l : Rat) / ((splitLines (strip mt)).length : Rat), c, ch, p, ks.getD c none⟩ := by
  obtain ⟨_, rfl⟩ := (Any.decodeWith_ok_iff cols t ns).mp h
  have hb : ∀ (m l : Nat) (mt line : Str), (splitLines (strip mt))[l]? = some line →
      ((m * 4 * (splitLines (strip mt)).length + l * 4 : Nat) : Rat) / ((splitLines (strip mt)).length : Rat) =
        4 * (m : Rat) + 4 * (l : Rat) / ((splitLines (strip mt)).length : Rat) := by
    intro m l mt line hl
    have hlt := (List.getElem?_eq_some_iff.mp hl).1
    rw [Any.beat_swap]
    exact Spec.rowBeat_eq _ _ _ (by omega)
  constructor
  · intro hn
    obtain ⟨p, sec, hp, hn⟩ := Any.mem_textNotes.mp hn
    obtain ⟨m, mt, hm, hn⟩ := Any.mem_playerNotes.mp hn
    obtain ⟨l, line, hl, hn⟩ := Any.mem_measureNotes.mp hn
    obtain ⟨cells, ks, c, ch, h1, hc, hne, rfl⟩ := Any.mem_lineNotes.mp hn
    exact ⟨p, sec, m, mt, l, line, cells, ks, c, ch, hp, hm, hl, h1, hc, hne, by rw [hb m l mt line hl]⟩
  · rintro ⟨p, sec, m, mt, l, line, cells, ks, c, ch, hp, hm, hl, h1, hc, hne, rfl⟩
    refine Any.mem_textNotes.mpr ⟨p, sec, hp, Any.mem_playerNotes.mpr ⟨m, mt, hm,
      Any.mem_measureNotes.mpr ⟨l, line, hl, Any.mem_lineNotes.mpr ⟨cells, ks, c, ch, h1, hc, hne, ?_⟩⟩⟩⟩
    rw [hb m l mt line hl]

/-- the beats of measure `m` lie in `[4m, 4m+4)`, the player number is the section index: for every
accepted text (consequence of `mem_decodeWith_iff`, stated separately for readability) -/
theorem decodeWith_ok_measure (cols : Nat) (t : Str) (ns : List Note) (h : decodeWith cols t = .ok ns)
    (n : Note) (hn : n ∈ ns) :
    n.player < (splitOn '&' t).length ∧
    ∃ sec m, (splitOn '&' t)[n.player]? = some sec ∧ m < (splitOn ',' sec).length ∧
      4 * (m : Rat) ≤ n.beat ∧ n.beat < 4 * ((m : Rat) + 1) := by
  obtain ⟨_, rfl⟩ := (Any.decodeWith_ok_iff cols t ns).mp h
  obtain ⟨p, sec, hp, hn⟩ := Any.mem_textNotes.mp hn
  obtain ⟨m, mt, hm, hn⟩ := Any.mem_playerNotes.mp hn
  obtain ⟨h1, h2, h3⟩ := Any.measureNotes_attrs hn
  rw [h1]
  exact ⟨(List.getElem?_eq_some_iff.mp hp).1, sec, m, hp, (List.getElem?_eq_some_iff.mp hm).1, h2, h3⟩

/-! ### 3. a lenient well-formedness predicate on raw text, with a count theorem -/

/-- `Any.WFText cols t` (Simfile/Lemmas/NotesAnyWF.lean) is a decidable, purely syntactic predicate on
raw text: every line of every measure (after `strip`) is a sequence of cells `ch` or `ch[digits]`
(`Any.tokenize`), every non-'0' cell is a known note character in a column `< cols`, every keysound
sits in a column `< cols`. On such a text the decoder succeeds, yields EXACTLY ONE note per non-'0'
cell (count) and nothing else (membership), strictly sorted. -/
theorem wfText_decodes (cols : Nat) (t : Str) (h : Any.WFText cols t = true) :
    ∃ ns, decodeWith cols t = .ok ns ∧
      ns.length = Any.tokCount t ∧
      ns.Pairwise (fun a b => keyLt a.key b.key = true) ∧
      ∀ n, n ∈ ns ↔ ∃ (p : Nat) (sec : Str) (m : Nat) (mt : Str) (l : Nat) (line : Str)
          (toks : List Any.Tok) (c : Nat) (tok : Any.Tok),
        (splitOn '&' t)[p]? = some sec ∧ (splitOn ',' sec)[m]? = some mt ∧
        (splitLines (strip mt))[l]? = some line ∧
        Any.tokenize (strip line) = some toks ∧ toks[c]? = some tok ∧ tok.ch ≠ '0' ∧
        n = ⟨4 * (m : Rat) + 4 * (l : Rat) / ((splitLines (strip mt)).length : Rat), c, tok.ch, p,
              Any.tokKs tok⟩ := by
  have hacc := Any.accepts_of_WFText h
  have hW := Any.WFText_iff.mp h
  refine ⟨Any.textNotes cols t, (Any.decodeWith_ok_iff cols t _).mpr ⟨hacc, rfl⟩, ?_,
    Any.textNotes_sorted cols t, ?_⟩
  · rw [Any.length_textNotes, Any.textCount_of_WFText h]
  · intro n
    have hb : ∀ (m l : Nat) (mt line : Str), (splitLines (strip mt))[l]? = some line →
        ((m * 4 * (splitLines (strip mt)).length + l * 4 : Nat) : Rat) / ((splitLines (strip mt)).length : Rat) =
          4 * (m : Rat) + 4 * (l : Rat) / ((splitLines (strip mt)).length : Rat) := by
      intro m l mt line hl
      have hlt := (List.getElem?_eq_some_iff.mp hl).1
      rw [Any.beat_swap]
      exact Spec.rowBeat_eq _ _ _ (by omega)
    constructor
    · intro hn
      obtain ⟨p, sec, hp, hn⟩ := Any.mem_textNotes.mp hn
      obtain ⟨m, mt, hm, hn⟩ := Any.mem_playerNotes.mp hn
      obtain ⟨l, line, hl, hn⟩ := Any.mem_measureNotes.mp hn
      have hok := hW sec (List.mem_of_getElem? hp) mt (List.mem_of_getElem? hm) line (List.mem_of_getElem? hl)
      obtain ⟨toks, c, tok, ht, hc, hne, rfl⟩ := (Any.mem_lineNotes_toks hok).mp hn
      exact ⟨p, sec, m, mt, l, line, toks, c, tok, hp, hm, hl, ht, hc, hne, by rw [hb m l mt line hl]⟩
    · rintro ⟨p, sec, m, mt, l, line, toks, c, tok, hp, hm, hl, ht, hc, hne, rfl⟩
      have hok := hW sec (List.mem_of_getElem? hp) mt (List.mem_of_getElem? hm) line (List.mem_of_getElem? hl)
      refine Any.mem_textNotes.mpr ⟨p, sec, hp, Any.mem_playerNotes.mpr ⟨m, mt, hm,
        Any.mem_measureNotes.mpr ⟨l, line, hl, (Any.mem_lineNotes_toks hok).mpr ⟨toks, c, tok, ht, hc, hne, ?_⟩⟩⟩⟩
      rw [hb m l mt line hl]

/-- count theorem for ANY accepted text (audit F6): the number of notes is the number of non-'0' cells
the decoder sees (`Any.textCount`: sum over players, measures, lines of the non-'0' characters left
after removing the keysound brackets) -/
theorem decodeWith_count (cols : Nat) (t : Str) (ns : List Note) (h : decodeWith cols t = .ok ns) :
    ns.length = Any.textCount cols t := by
  obtain ⟨_, rfl⟩ := (Any.decodeWith_ok_iff cols t ns).mp h
  exact Any.length_textNotes cols t

/-- a tokenised line is literally its cells written one after the other -/
theorem tokenize_sound (s : Str) (toks : List Any.Tok) (h : Any.tokenize s = some toks) :
    s = (toks.map fun tok => tok.ch :: (match tok.ks with | some ds => '[' :: ds ++ [']'] | none => [])).flatten ∧
    ∀ tok ∈ toks, tok.ch ≠ '[' ∧ tok.ch ≠ ']' ∧
      ∀ ds, tok.ks = some ds → ∃ k, parseNat ds = some k ∧ Any.tokKs tok = some k := by
  obtain ⟨e, hall⟩ := Any.tokenize_spec h
  refine ⟨?_, ?_⟩
  · rw [e, Any.tokText]
    congr 1
  · intro tok htok
    obtain ⟨h1, h2⟩ := hall tok htok
    refine ⟨h1.1, h1.2, ?_⟩
    intro ds hds
    obtain ⟨_, k, hk⟩ := h2 ds hds
    exact ⟨k, hk, by simp [Any.tokKs, hds, hk]⟩

/-- **unique readability** of a line: the tokenizer accepts exactly the texts that are cells `ch` /
`ch[digits]` written one after the other (`ch` not a bracket, `digits` a non-empty run of ASCII digits),
and returns those cells. So `WFText` is "every line is a sequence of cells, non-'0' cells known and in
range, keysounds in range" and nothing more. -/
theorem tokenize_iff (s : Str) (toks : List Any.Tok) :
    Any.tokenize s = some toks ↔
      s = (toks.map fun tok => tok.ch :: (match tok.ks with | some ds => '[' :: ds ++ [']'] | none => [])).flatten ∧
      ∀ tok ∈ toks, tok.ch ≠ '[' ∧ tok.ch ≠ ']' ∧
        ∀ ds, tok.ks = some ds → (∀ x ∈ ds, x.isDigit = true) ∧ (parseNat ds).isSome = true := by
  have e : (toks.map fun tok => tok.ch :: (match tok.ks with | some ds => '[' :: ds ++ [']'] | none => [])).flatten =
      Any.tokText toks := by
    rw [Any.tokText]
    congr 1
  rw [e]
  exact Any.tokenize_iff s toks

example : Any.tokenize "1[007]0M".toList = some [⟨'1', some ['0', '0', '7']⟩, ⟨'0', none⟩, ⟨'M', none⟩] := by
  decide +kernel

/-- `WFText` covers the domain of the existing C07 theorems: the rendering of every `Spec.WF` chart is
`WFText` (for the chart's column count). With the examples below (which are not renderings of `WF`
charts: `wfRows [] = false`, rows of unequal length, …) the domain is strictly larger. -/
theorem wfText_of_WF (c : Spec.DChart) (h : Spec.WF c = true) :
    Any.WFText (Spec.cols c) (Spec.render c) = true := Any.WFText_render c h

example : Any.WFText 3 (Spec.render C07.sample) = true := wfText_of_WF C07.sample (by decide)

/-! the inputs the audit lists as excluded by `Spec.WF` are all `WFText`: -/

/-- empty measure / trailing comma -/
example : Any.WFText 4 "1000\n0100\n,\n".toList = true := by decide +kernel
/-- ragged rows -/
example : Any.WFText 4 "1000\n01\n".toList = true := by decide +kernel
/-- line ends other than LF, CRLF -/
example : Any.WFText 4 "1000\r0100\r".toList = true := by decide +kernel
/-- keysound on a '0' cell -/
example : Any.WFText 4 "0[7]100\n".toList = true := by decide +kernel
/-- blank line inside a measure (counts as a row) -/
example : Any.WFText 4 "1000\n\n0100\n0000\n".toList = true := by decide +kernel
/-- keysound digits with leading zeros; several players, first line ending at '&' -/
example : Any.WFText 2 "1[007]0&0M\n".toList = true := by decide +kernel
/-- not well formed: unknown character; column out of range; stray bracket -/
example : Any.WFText 4 "10x0\n".toList = false ∧ Any.WFText 4 "00001\n".toList = false ∧
    Any.WFText 4 "[3]1000\n".toList = false := by decide +kernel

example : Any.tokCount "1000\n\n0100\n0000\n".toList = 2 ∧ Any.tokCount "1[007]0&0M\n".toList = 2 := by
  decide +kernel

/-- the blank line counts as a row: the second note is at row 2 of 4, beat 2 -/
example : decodeWith 4 "1000\n\n0100\n0000\n".toList =
    .ok [⟨0, 0, '1', 0, none⟩, ⟨2, 1, '1', 0, none⟩] := by decide +kernel

example : decodeWith 2 "1[007]0&0M\n".toList =
    .ok [⟨0, 0, '1', 0, some 7⟩, ⟨0, 1, 'M', 1, none⟩] := by decide +kernel

/-! ### 4. comparison operators and equality (audit F4) -/

/-- two notes are incomparable under `<` exactly when they have the same (player, beat, column) -/
theorem incomparable_iff_key_eq (a b : Note) :
    (a.lt b = false ∧ b.lt a = false) ↔ a.key = b.key := by
  simp only [Note.lt]
  constructor
  · rintro ⟨h1, h2⟩
    rcases keyLt_total a.key b.key with h | h | h
    · rw [h] at h1; cases h1
    · exact h
    · rw [h] at h2; cases h2
  · intro h
    rw [h]
    exact ⟨keyLt_irrefl _, keyLt_irrefl _⟩

/-- `a <= b` and `a >= b` together say: same position — NOT `a == b` -/
theorem le_ge_iff_key_eq (a b : Note) : (a.le b = true ∧ a.ge b = true) ↔ a.key = b.key := by
  rw [← incomparable_iff_key_eq]
  have h1 := C07.le_iff_not_gt a b
  have h2 := C07.le_iff_not_gt b a
  simp only [Note.le, Note.ge, Note.gt, Note.lt] at *
  rw [h1, h2]
  constructor
  · rintro ⟨x, y⟩; exact ⟨by simpa using y, by simpa using x⟩
  · rintro ⟨x, y⟩; exact ⟨by simp [y], by simp [x]⟩

/-- a tap and a mine on the same cell: `<=` and `>=` both hold, the notes differ (Python: `==` is False) -/
example : let a : Note := ⟨0, 0, cTAP, 0, none⟩; let b : Note := ⟨0, 0, cMINE, 0, none⟩
    a.le b = true ∧ a.ge b = true ∧ a ≠ b := by decide +kernel

/-- on decoder output, however, position determines the note: equal keys ⇒ equal notes -/
theorem decoded_key_inj (cols : Nat) (t : Str) (ns : List Note) (h : decodeWith cols t = .ok ns)
    (a b : Note) (ha : a ∈ ns) (hb : b ∈ ns) (hk : a.key = b.key) : a = b :=
  List.inj_on_of_nodup_map (decodeWith_ok_nodup cols t ns h).1 ha hb hk

/-! ### non-vacuity -/

/-- an accepted text outside `Spec.WF`: ragged rows, an empty measure, a blank line, CR line ends -/
example : ∃ ns, decodeWith 4 "1000\r01\r,\n,00M0\n\n2[5]\n".toList = .ok ns ∧ ns.length = 4 := by
  obtain ⟨ns, h1, h2, _⟩ := wfText_decodes 4 "1000\r01\r,\n,00M0\n\n2[5]\n".toList (by decide +kernel)
  exact ⟨ns, h1, by rw [h2]; decide +kernel⟩

end Simfile.C07Any
