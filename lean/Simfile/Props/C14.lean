/-
C14 — Beats are exact fractions that snap to the 1/48 grid only from inexact input.
Also the text forms: str(Beat) / Beat.from_str and BeatValues.__str__ / BeatValues.from_str round trips.
Property theorems only; helper lemmas live in Simfile/Lemmas/Round.lean and Simfile/Lemmas/BeatValues.lean.
-/
import Simfile.Lemmas.Round
import Simfile.Lemmas.BeatValues
namespace Simfile.C14
open Simfile

/-- the generated BEAT_SUBDIVISION is the documented 48 ticks per beat -/
theorem ticks_is_48 : ticks = 48 := by decide

/-- construction from an integer, a fraction or a numerator/denominator pair is exact -/
theorem exact (n : Int) (q : Rat) (d : Nat) :
    mkBeat (.int n) = (n : Rat) ∧ mkBeat (.frac q) = q ∧ mkBeat (.pair n d) = (n : Rat) / (d : Rat) :=
  ⟨rfl, rfl, rfl⟩

/-- a beat built from inexact input is a multiple of 1/48 -/
theorem round_on_grid (x : Rat) : onGrid (mkBeat (.inexact x)) :=
  ⟨roundHalfEven (x * (ticks : Rat)), rfl⟩

/-- … the nearest one: never more than 1/96 away -/
theorem round_nearest (x : Rat) : |mkBeat (.inexact x) - x| ≤ 1 / 96 := by
  have h := roundHalfEven_near (x * (ticks : Rat))
  simp only [mkBeat, roundToTick, ticks_is_48] at *
  rw [abs_le] at *
  obtain ⟨h1, h2⟩ := h
  push_cast at *
  constructor
  · rw [le_sub_iff_add_le, le_div_iff₀ (by norm_num)]; linarith
  · rw [sub_le_iff_le_add, div_le_iff₀ (by norm_num)]; linarith

/-- every rational strictly closer than half a tick to the tick n/48 rounds to exactly that tick
(so the text form of a beat may be off by up to 1/96 and still reads back as the same beat) -/
theorem round_unique (n : Int) (d : Rat) (h : |d - (n : Rat) / 48| < 1 / 96) :
    roundToTick d = (n : Rat) / 48 := by
  have : roundHalfEven (d * (ticks : Rat)) = n := by
    apply roundHalfEven_unique
    rw [ticks_is_48]
    rw [abs_lt] at *
    obtain ⟨h1, h2⟩ := h
    push_cast
    constructor <;> linarith
  simp only [roundToTick, this]
  rw [ticks_is_48]
  norm_num

/-- the three-decimal text form is within 1/2000 of the beat -/
theorem round3_near (x : Rat) : |round3 x - x| ≤ 1 / 2000 := by
  have h := roundHalfEven_near (x * 1000)
  simp only [round3, thousandths] at *
  rw [abs_le] at *
  obtain ⟨h1, h2⟩ := h
  constructor
  · rw [le_sub_iff_add_le, le_div_iff₀ (by norm_num)]; linarith
  · rw [sub_le_iff_le_add, div_le_iff₀ (by norm_num)]; linarith

/-- writing a tick-aligned beat with three decimals and reading it back returns the same beat,
for every tick of the unbounded grid -/
theorem str_roundtrip (n : Int) : roundToTick (round3 ((n : Rat) / 48)) = (n : Rat) / 48 := by
  apply round_unique
  have := round3_near ((n : Rat) / 48)
  have h2 : (1 : Rat) / 2000 < 1 / 96 := by norm_num
  exact lt_of_le_of_lt this h2

/-- slack left for the float conversion inside `f"{float(self):.3f}"`: any text within 6/10000 of
the tick still reads back as that tick -/
theorem str_roundtrip_with_slack (n : Int) (d : Rat) (h : |d - (n : Rat) / 48| ≤ 6 / 10000) :
    roundToTick d = (n : Rat) / 48 :=
  round_unique n d (lt_of_le_of_lt h (by norm_num))

/-- rounding is idempotent: a tick-aligned value is left alone -/
theorem round_idem (n : Int) : roundToTick ((n : Rat) / 48) = (n : Rat) / 48 :=
  round_unique n _ (by simp)

-- non-vacuity: a concrete off-grid input and a concrete tick
example : mkBeat (.inexact (3 / 10)) = 14 / 48 := by
  have := round_unique 14 (3 / 10) (by rw [abs_lt]; constructor <;> norm_num)
  simpa [mkBeat] using this
example : |((7 : Rat) / 48 + 1 / 2000) - ((7 : Int) : Rat) / 48| ≤ 6 / 10000 := by
  rw [abs_le]; constructor <;> norm_num

/-! ### the text forms: `str(Beat)`, `Beat.from_str`, `BeatValues.__str__`, `BeatValues.from_str` -/

/-- the printed text of ANY beat (sign, integer digits, '.', exactly three fraction digits; also the
"-0.000" of a tiny negative beat) is read by the decimal parser as the beat rounded to three places -/
theorem text_parses_to_round3 (x : Rat) : parseDecimal (beatToStr x) = some (round3 x) :=
  parseDecimal_beatToStr x

/-- the printed three-decimal text of every tick-aligned beat parses back to that beat -/
theorem beat_text_roundtrip (n : Int) : beatFromStr (beatToStr ((n : Rat) / 48)) = some ((n : Rat) / 48) := by
  rw [beatFromStr_beatToStr, str_roundtrip]

theorem onGrid_snap {x : Rat} (h : onGrid x) : roundToTick (round3 x) = x := by
  obtain ⟨n, rfl⟩ := h
  rw [ticks_is_48]
  exact str_roundtrip n

/-- `BeatValues.from_str(str(bv)) == bv` for every table whose beats are tick-aligned and whose value
tokens contain no ',' or '=' and no white space at either end (`TokenOK`; the empty table included) -/
theorem beatvalues_roundtrip (rows : List BVRow) (h : ∀ r ∈ rows, onGrid r.beat ∧ TokenOK r.value) :
    beatValuesFromStr (some (beatValuesToStr rows)) = some rows := by
  rw [beatValues_print_read rows (fun r hr => (h r hr).2)]
  congr 1
  conv_rhs => rw [← List.map_id rows]
  apply List.map_congr_left
  intro r hr
  rw [onGrid_snap (h r hr).1]
  rfl

/-- off-grid beats come back snapped: reading a printed table always gives tick-aligned beats -/
theorem beatvalues_print_read (rows : List BVRow) (h : ∀ r ∈ rows, TokenOK r.value) :
    beatValuesFromStr (some (beatValuesToStr rows)) =
      some (rows.map fun r => { beat := roundToTick (round3 r.beat), value := r.value }) :=
  beatValues_print_read rows h

/-- white space around the row texts is ignored: surrounding each comma-free row text `t.2.1` by
arbitrary all-`pyIsSpace` strings `t.1`, `t.2.2` does not change the result of parsing, whatever the
row texts are (well-formed or not) -/
theorem beatvalues_blanks_ignored (items : List (Str × Str × Str))
    (hb : ∀ t ∈ items, isBlank t.1 = true ∧ isBlank t.2.2 = true) (hc : ∀ t ∈ items, ',' ∉ t.2.1) :
    beatValuesFromStr (some (joinWith [','] (items.map fun t => t.1 ++ t.2.1 ++ t.2.2))) =
      beatValuesFromStr (some (joinWith [','] (items.map fun t => t.2.1))) :=
  beatValues_padded items
    (fun t ht => ⟨(blank_iff_isBlank _).mpr (hb t ht).1, (blank_iff_isBlank _).mpr (hb t ht).2⟩) hc

/-- … so a table written with any white space (not only the newline of `__str__`) around its rows
reads back as the same rows -/
theorem beatvalues_roundtrip_padded (items : List (Str × BVRow × Str))
    (hb : ∀ t ∈ items, isBlank t.1 = true ∧ isBlank t.2.2 = true)
    (h : ∀ t ∈ items, onGrid t.2.1.beat ∧ TokenOK t.2.1.value) :
    beatValuesFromStr (some (joinWith [','] (items.map fun t => t.1 ++ rowText t.2.1 ++ t.2.2))) =
      some (items.map (·.2.1)) := by
  rw [beatValues_rows_padded items
    (fun t ht => ⟨(blank_iff_isBlank _).mpr (hb t ht).1, (blank_iff_isBlank _).mpr (hb t ht).2⟩)
    (fun t ht => (h t ht).2)]
  congr 1
  apply List.map_congr_left
  intro t ht
  rw [onGrid_snap (h t ht).1]

/-- no text, the empty text and an all-blank text are the empty table -/
theorem empty_is_empty : beatValuesFromStr none = some [] ∧ beatValuesFromStr (some []) = some [] ∧
    (∀ s, isBlank s = true → beatValuesFromStr (some s) = some []) := by
  refine ⟨rfl, rfl, ?_⟩
  intro s hs
  rw [beatValuesFromStr_some', strip_all_space ((blank_iff_isBlank s).mpr hs)]
  rfl

-- non-vacuity: a concrete table (zero, a negative tick, a large tick), its text, and the hypotheses
private def exRows : List BVRow :=
  [⟨0, "120".toList⟩, ⟨-1 / 48, "-60.5".toList⟩, ⟨48017 / 48, "1E+2".toList⟩]
example : beatValuesToStr exRows = "0.000=120,\n-0.021=-60.5,\n1000.354=1E+2".toList := by decide +kernel
private theorem exRows_ok : ∀ r ∈ exRows, onGrid r.beat ∧ TokenOK r.value := by
  intro r hr
  simp only [exRows, List.mem_cons, List.not_mem_nil, or_false] at hr
  rcases hr with rfl | rfl | rfl
  · exact ⟨⟨0, by norm_num⟩, by decide⟩
  · exact ⟨⟨-1, by rw [ticks_is_48]; norm_num⟩, by decide⟩
  · exact ⟨⟨48017, by rw [ticks_is_48]; norm_num⟩, by decide⟩
example : beatValuesFromStr (some "0.000=120,\n-0.021=-60.5,\n1000.354=1E+2".toList) = some exRows := by
  have h : beatValuesToStr exRows = "0.000=120,\n-0.021=-60.5,\n1000.354=1E+2".toList := by decide +kernel
  rw [← h]; exact beatvalues_roundtrip exRows exRows_ok
example : beatToStr (-1 / 2001) = "-0.000".toList ∧ parseDecimal "-0.000".toList = some 0 := by
  constructor <;> decide +kernel
example : isBlank " \t\n".toList = true := by decide

end Simfile.C14
