/-
C14 — Beats are exact fractions that snap to the 1/48 grid only from inexact input.
Property theorems only; helper lemmas live in Simfile/Lemmas/Round.lean.
-/
import Simfile.Lemmas.Round
namespace Simfile.C14
open Simfile

/-- the generated BEAT_SUBDIVISION is the documented 48 ticks per beat -/
theorem ticks_is_48 : ticks = 48 := by decide

/-- construction from an integer, a fraction or a numerator/denominator pair is exact -/
theorem exact (n : Int) (q : Rat) (d : Nat) :
    mkBeat (.int n) = (n : Rat) ∧ mkBeat (.frac q) = q ∧ mkBeat (.pair n d) = (n : Rat) / (d : Rat) :=
  ⟨rfl, rfl, rfl⟩

/-- a beat built from inexact input is a multiple of 1/48 -/
theorem round_on_grid (x : Rat) : onGrid (mkBeat (.inexact x)) :=
  ⟨roundHalfEven (x * (ticks : Rat)), rfl⟩

/-- … the nearest one: never more than 1/96 away -/
theorem round_nearest (x : Rat) : |mkBeat (.inexact x) - x| ≤ 1 / 96 := by
  have h := roundHalfEven_near (x * (ticks : Rat))
  simp only [mkBeat, roundToTick, ticks_is_48] at *
  rw [abs_le] at *
  obtain ⟨h1, h2⟩ := h
  push_cast at *
  constructor
  · rw [le_sub_iff_add_le, le_div_iff₀ (by norm_num)]; linarith
  · rw [sub_le_iff_le_add, div_le_iff₀ (by norm_num)]; linarith

/-- every rational strictly closer than half a tick to the tick n/48 rounds to exactly that tick
(so the text form of a beat may be off by up to 1/96 and still reads back as the same beat) -/
theorem round_unique (n : Int) (d : Rat) (h : |d - (n : Rat) / 48| < 1 / 96) :
    roundToTick d = (n : Rat) / 48 := by
  have : roundHalfEven (d * (ticks : Rat)) = n := by
    apply roundHalfEven_unique
    rw [ticks_is_48]
    rw [abs_lt] at *
    obtain ⟨h1, h2⟩ := h
    push_cast
    constructor <;> linarith
  simp only [roundToTick, this]
  rw [ticks_is_48]
  norm_num

/-- the three-decimal text form is within 1/2000 of the beat -/
theorem round3_near (x : Rat) : |round3 x - x| ≤ 1 / 2000 := by
  have h := roundHalfEven_near (x * 1000)
  simp only [round3, thousandths] at *
  rw [abs_le] at *
  obtain ⟨h1, h2⟩ := h
  constructor
  · rw [le_sub_iff_add_le, le_div_iff₀ (by norm_num)]; linarith
  · rw [sub_le_iff_le_add, div_le_iff₀ (by norm_num)]; linarith

/-- writing a tick-aligned beat with three decimals and reading it back returns the same beat,
for every tick of the unbounded grid -/
theorem str_roundtrip (n : Int) : roundToTick (round3 ((n : Rat) / 48)) = (n : Rat) / 48 := by
  apply round_unique
  have := round3_near ((n : Rat) / 48)
  have h2 : (1 : Rat) / 2000 < 1 / 96 := by norm_num
  exact lt_of_le_of_lt this h2

/-- slack left for the float conversion inside `f"{float(self):.3f}"`: any text within 6/10000 of
the tick still reads back as that tick -/
theorem str_roundtrip_with_slack (n : Int) (d : Rat) (h : |d - (n : Rat) / 48| ≤ 6 / 10000) :
    roundToTick d = (n : Rat) / 48 :=
  round_unique n d (lt_of_le_of_lt h (by norm_num))

/-- rounding is idempotent: a tick-aligned value is left alone -/
theorem round_idem (n : Int) : roundToTick ((n : Rat) / 48) = (n : Rat) / 48 :=
  round_unique n _ (by simp)

-- non-vacuity: a concrete off-grid input and a concrete tick
example : mkBeat (.inexact (3 / 10)) = 14 / 48 := by
  have := round_unique 14 (3 / 10) (by rw [abs_lt]; constructor <;> norm_num)
  simpa [mkBeat] using this
example : |((7 : Rat) / 48 + 1 / 2000) - ((7 : Int) : Rat) / 48| ≤ 6 / 10000 := by
  rw [abs_le]; constructor <;> norm_num

end Simfile.C14
