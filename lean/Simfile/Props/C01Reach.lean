/-
C01 (growth) — reachability: the round-trip theorems of C01 are stated for objects in `DomSM`. This file proves that the
editing API cannot leave `DomSM` as long as the caller meets the obligations the property's quantifier states (keys are
upper-case strings other than NOTES; chart fields are equal to their own strip(); extra components, when present, are a
non-empty list; charts put into the list are themselves well-formed), so that "all SM simfile objects reachable from blank(),
from a loaded file or from an empty simfile by arbitrary edit sequences" is covered by `C01.roundtrip`.
Property theorems only; helper lemmas live in Simfile/Lemmas/EditReach.lean.
-/
import Simfile.Lemmas.EditReach
namespace Simfile.C01Reach
open Simfile

/-- the caller's obligations for one edit -/
def EditOK : SMEdit → Prop
  | .setKey k _ => upper k = k ∧ k ≠ kNOTES
  | .delKey _ => True
  | .setAttr _ _ => True                      -- attributes resolve to upper-case keys of the class's table
  | .delAttr _ => True
  | .appendChart c => C01.DomSMChart c
  | .insertChart _ c => C01.DomSMChart c
  | .setChart _ c => C01.DomSMChart c
  | .popChart _ => True
  | .reverseCharts => True
  | .clearCharts => True
  | .setField _ _ v => strip v = v            -- a key outside the six fields is refused by the chart (KeyError): no obligation
  | .setExtra _ e => e = none ∨ ∃ l, e = some l ∧ l ≠ []

private theorem editOK_iff (e : SMEdit) : EditOK e ↔ EditOKL e := by cases e <;> exact Iff.rfl

/-- 1. one edit keeps the object in the domain -/
theorem edit_preserves_dom (s : SMSimfile) (e : SMEdit) (h : C01.DomSM s) (he : EditOK e) : C01.DomSM (applyEdit s e) :=
  applyEdit_dom s e h ((editOK_iff e).mp he)

/-- 2. every object reachable by a history of edits from an object in the domain is in the domain -/
theorem reachable_in_dom (s : SMSimfile) (es : List SMEdit) (h : C01.DomSM s) (hes : ∀ e ∈ es, EditOK e) :
    C01.DomSM (applyEdits s es) :=
  applyEdits_dom s es h (fun e he => (editOK_iff e).mp (hes e he))

/-- 3. in particular from `blank()` and from the empty simfile … -/
theorem reachable_from_blank (es : List SMEdit) (hes : ∀ e ∈ es, EditOK e) : C01.DomSM (applyEdits C01.blankSM es) :=
  reachable_in_dom _ es (by decide +kernel) hes

theorem reachable_from_empty (es : List SMEdit) (hes : ∀ e ∈ es, EditOK e) : C01.DomSM (applyEdits ⟨[], []⟩ es) :=
  reachable_in_dom _ es empty_dom hes

/-- 4. … and from whatever the loader produced (C04.loaded_in_dom_sm), so that the round trip holds after any such history -/
theorem roundtrip_after_edits (s : SMSimfile) (es : List SMEdit) (h : C01.DomSM s) (hes : ∀ e ∈ es, EditOK e) :
    loadSM (paramsOf (serSM (applyEdits s es))) = .ok (applyEdits s es) :=
  C01.roundtrip_params _ (reachable_in_dom s es h hes)

/-- the obligations are needed: a lower-case key leaves the domain -/
theorem lower_case_key_leaves_dom : ¬ C01.DomSM (applyEdit ⟨[], []⟩ (.setKey ['t'] (some ['x']))) :=
  lower_key_not_dom

/-! ### non-vacuity: a history that uses every kind of edit -/
example : ∀ e ∈ ([.setKey "TITLE".toList (some "a:b;c".toList), .setKey "ATTACKS".toList none, .setAttr "stops".toList "4=1".toList,
    .delAttr "stops".toList, .delKey "TITLE".toList, .appendChart ⟨T.blankSMChart, none⟩, .insertChart 0 ⟨T.blankSMChart, some ["x".toList]⟩,
    .setField 0 "METER".toList "12".toList, .setExtra 1 (some ["".toList]), .reverseCharts, .popChart 5, .setChart 0 ⟨T.blankSMChart, none⟩,
    .clearCharts] : List SMEdit), EditOK e := fun e he => (editOK_iff e).mpr (sample_history_ok e he)

end Simfile.C01Reach
