/-
C02, round 2 (audit part A: C02-F1, C02-F3, C02-F5).

* The round trip for charts whose note data is stored as `None` (a key-only `#NOTES;` was loaded): the domain
  `DomSSC'` only asks that the note-data key is PRESENT ("exactly one of NOTES/NOTES2 present", values "None for
  key-only properties"). `serSSC_error_iff`: serialization fails exactly when a chart has neither NOTES nor NOTES2,
  and then with `KeyError`.
* The shape clauses: `chart_shape`, `simfile_shape`, `multi_value_components`.
* `SafeContent`: a content-level sufficient condition for the `safeDoc` hypothesis.
-/
import Simfile.Props.C02
import Simfile.Props.MsdContract
import Simfile.Lemmas.ObjectsMore
import Simfile.Lemmas.ObjectsMoreSafe
namespace Simfile.C02More
open Simfile Simfile.O

/-- an SSC chart with distinct upper-case keys other than NOTEDATA that HAS note data: the key `notesKey c`
(`NOTES`, or `NOTES2` when only that one is present) is a key of the chart. Its value may be a string or `None`. -/
structure DomSSCChart' (c : SSCChart) : Prop where
  wf : c.props.WF
  upper : ∀ k ∈ c.props.keys, upper k = k
  notND : ∀ k ∈ c.props.keys, k ≠ kNOTEDATA
  notes : ∃ v, c.props.get? (notesKey c) = some v

structure DomSSC' (s : SSCSimfile) : Prop where
  wf : s.props.WF
  upper : ∀ k ∈ s.props.keys, upper k = k
  notND : ∀ k ∈ s.props.keys, k ≠ kNOTEDATA
  charts : ∀ c ∈ s.charts, DomSSCChart' c

/-- the round-1 domain (note data a string) is contained in the new one -/
theorem DomSSC'.of_dom {s : SSCSimfile} (h : C02.DomSSC s) : DomSSC' s :=
  ⟨h.wf, h.upper, h.notND, fun c hc =>
    let hd := h.charts c hc
    ⟨hd.wf, hd.upper, hd.notND, hd.notes.elim fun n hn => ⟨some n, hn⟩⟩⟩

/-- "has note data" said with keys: NOTES or NOTES2 is a key of the chart -/
theorem has_notes_iff (c : SSCChart) :
    (∃ v, c.props.get? (notesKey c) = some v) ↔ (kNOTES ∈ c.props.keys ∨ kNOTES2 ∈ c.props.keys) := by
  have h := get?_notesKey_none_iff c
  cases hg : c.props.get? (notesKey c) with
  | none =>
    have := h.mp hg
    constructor
    · rintro ⟨v, hv⟩; cases hv
    · rintro (h1 | h2)
      · exact absurd h1 this.1
      · exact absurd h2 this.2
  | some v =>
    refine ⟨fun _ => ?_, fun _ => ⟨v, rfl⟩⟩
    apply Classical.byContradiction
    intro hne
    rw [not_or] at hne
    have := h.mpr hne
    rw [hg] at this; cases this

theorem serSSC_eq (s : SSCSimfile) (h : DomSSC' s) : serSSC s = .ok (sscItemsG s) :=
  serSSC_okG s (fun c hc => (h.charts c hc).notes)

theorem load_sscItemsG (s : SSCSimfile) (h : DomSSC' s) : loadSSC (paramsOf (sscItemsG s)) = s.notesLast :=
  O.load_sscItemsG s h.wf h.upper h.notND
    (fun c hc => ⟨(h.charts c hc).wf, (h.charts c hc).upper, (h.charts c hc).notND, (h.charts c hc).notes⟩)

/-- C02 clause 1 on the full stated domain (note data a string OR `None`): serialization succeeds and reloading
gives the simfile with each chart's note data moved last -/
theorem roundtrip_params (s : SSCSimfile) (h : DomSSC' s) :
    (serSSC s).map (fun is => loadSSC (paramsOf is)) = .ok s.notesLast := by
  rw [serSSC_eq s h]
  show Except.ok (loadSSC (paramsOf (sscItemsG s))) = _
  rw [load_sscItemsG s h]

/-- C02 clause 2: if every chart already ends with its note-data item, the result is `s` itself -/
theorem roundtrip_eq (s : SSCSimfile) (h : DomSSC' s)
    (hl : ∀ c ∈ s.charts, c.props.getLast?.map (·.1) = some (notesKey c)) :
    (serSSC s).map (fun is => loadSSC (paramsOf is)) = .ok s := by
  rw [roundtrip_params s h]
  congr 1
  unfold SSCSimfile.notesLast
  obtain ⟨props, charts⟩ := s
  congr 1
  conv => rhs; rw [← List.map_id charts]
  apply List.map_congr_left
  intro c hc
  exact notesLast_of_last c (h.charts c hc).wf (hl c hc)

/-- the texts between the parameters of a serialized SSC simfile are blank -/
theorem texts_blank (s : SSCSimfile) (is : List Item) (h : serSSC s = .ok is) :
    ∀ t, Item.text t ∈ is → isBlank t = true := by
  have hn : ∀ c ∈ s.charts, ∃ v, c.props.get? (notesKey c) = some v := by
    intro c hc
    cases hg : c.props.get? (notesKey c) with
    | none => rw [serSSC_error_of_mem s c hc hg] at h; cases h
    | some v => exact ⟨v, rfl⟩
  rw [serSSC_okG s hn] at h
  cases h
  exact text_mem_sscItemsG s

/-- C02 clauses 1 + "accepted by the strict parser", through text, for any tokenizer satisfying the contract -/
theorem roundtrip (M : Msd) (hM : M.Contract) (s : SSCSimfile) (h : DomSSC' s)
    (hs : (serSSC s).map safeDoc = .ok true) (strict : Bool) :
    (serSSC s).bind (fun is => (M.tokenize strict (M.renderDoc is)).map loadSSC) = .ok s.notesLast := by
  rw [serSSC_eq s h] at hs ⊢
  have hs' : safeDoc (sscItemsG s) = true := by
    have : Except.ok (safeDoc (sscItemsG s)) = (Except.ok true : Except Err Bool) := hs
    exact Except.ok.inj this
  show (M.tokenize strict (M.renderDoc (sscItemsG s))).map loadSSC = _
  rw [hM.roundtrip (sscItemsG s) strict (text_mem_sscItemsG s) hs']
  show Except.ok (loadSSC (paramsOf (sscItemsG s))) = _
  rw [load_sscItemsG s h]

/-- the same through the modelled msdparser (lexer + parser + `MSDParameter.__str__`) -/
theorem roundtrip_concrete (s : SSCSimfile) (h : DomSSC' s) (hs : (serSSC s).map safeDoc = .ok true)
    (strict : Bool) :
    (serSSC s).bind (fun is => (MsdP.msd.tokenize strict (MsdP.msd.renderDoc is)).map loadSSC) =
      .ok s.notesLast :=
  roundtrip MsdP.msd MsdContract.contract s h hs strict

/-- C02 clause 3 through text: serialize, render, tokenize, load, serialize, render gives the first text again -/
theorem reserialize_stable_text (M : Msd) (hM : M.Contract) (s : SSCSimfile) (h : DomSSC' s)
    (hs : (serSSC s).map safeDoc = .ok true) (strict : Bool) :
    (serSSC s).bind (fun is => (M.tokenize strict (M.renderDoc is)).bind
        (fun ps => (serSSC (loadSSC ps)).map M.renderDoc)) = (serSSC s).map M.renderDoc := by
  have hr := roundtrip M hM s h hs strict
  rw [serSSC_eq s h] at hr ⊢
  have hr' : (M.tokenize strict (M.renderDoc (sscItemsG s))).map loadSSC = .ok s.notesLast := hr
  show (M.tokenize strict (M.renderDoc (sscItemsG s))).bind
      (fun ps => (serSSC (loadSSC ps)).map M.renderDoc) = _
  cases ht : M.tokenize strict (M.renderDoc (sscItemsG s)) with
  | error e => rw [ht] at hr'; cases hr'
  | ok ps =>
    rw [ht] at hr'
    have hl : loadSSC ps = s.notesLast := Except.ok.inj hr'
    show (serSSC (loadSSC ps)).map M.renderDoc = _
    rw [hl, C02.reserialize_stable, serSSC_eq s h]

/-- C02 clause 4 on the full domain: no item is dropped, whatever values coincide (also with `None`) -/
theorem nothing_dropped (s : SSCSimfile) (h : DomSSC' s) :
    ∃ s', (serSSC s).map (fun is => loadSSC (paramsOf is)) = .ok s' ∧ s'.props = s.props ∧
      s'.charts.length = s.charts.length ∧
      ∀ (i : Nat) (c c' : SSCChart), s.charts[i]? = some c → s'.charts[i]? = some c' →
        ∀ kv ∈ c.props, kv ∈ c'.props := by
  refine ⟨s.notesLast, roundtrip_params s h, rfl, by simp [SSCSimfile.notesLast], ?_⟩
  intro i c c' hc hc' kv hkv
  simp only [SSCSimfile.notesLast, List.getElem?_map, hc, Option.map_some, Option.some.injEq] at hc'
  subst hc'
  exact mem_notesLast c (h.charts c (List.mem_of_getElem? hc)).wf kv hkv

/-- C02-F1 boundary: `serSSC` succeeds exactly when every chart has NOTES or NOTES2 among its keys (with any value,
`None` included); otherwise it fails with `KeyError` (Python: `KeyError: 'NOTES'`) and with nothing else. -/
theorem serSSC_error_iff (s : SSCSimfile) :
    ((∃ is, serSSC s = .ok is) ↔ ∀ c ∈ s.charts, kNOTES ∈ c.props.keys ∨ kNOTES2 ∈ c.props.keys) ∧
    (serSSC s = .error .keyError ↔ ∃ c ∈ s.charts, kNOTES ∉ c.props.keys ∧ kNOTES2 ∉ c.props.keys) ∧
    (∀ e, serSSC s = .error e → e = .keyError) := by
  refine ⟨⟨?_, ?_⟩, ⟨?_, ?_⟩, fun e he => (serSSC_error s e he).1⟩
  · rintro ⟨is, his⟩ c hc
    rw [← has_notes_iff]
    cases hg : c.props.get? (notesKey c) with
    | none => rw [serSSC_error_of_mem s c hc hg] at his; cases his
    | some v => exact ⟨v, rfl⟩
  · intro h
    exact ⟨_, serSSC_okG s (fun c hc => (has_notes_iff c).mpr (h c hc))⟩
  · intro h
    obtain ⟨_, c, hc, hg⟩ := serSSC_error s _ h
    exact ⟨c, hc, (get?_notesKey_none_iff c).mp hg⟩
  · rintro ⟨c, hc, hn⟩
    exact serSSC_error_of_mem s c hc ((get?_notesKey_none_iff c).mpr hn)

/-- C02 clause 5 (C02-F3), one chart: the parameters written for a chart are NOTEDATA with an empty value, then
one parameter per property other than the note data in mapping order, then the note-data parameter last
(key-only when the note data is `None`). -/
theorem chart_shape (c : SSCChart) (v : Option Str) (h : c.props.get? (notesKey c) = some v) :
    ∃ is, serSSCChart c = .ok is ∧
      paramsOf is = ⟨[kNOTEDATA, []]⟩ ::
        ((c.props.filter fun kv => kv.1 ≠ notesKey c).map fun kv => valueParam kv.1 kv.2) ++
        [⟨notesKey c :: v.toList⟩] := by
  refine ⟨_, serSSCChart_some c v h, ?_⟩
  rw [paramsOf_sscChartItemsG]
  unfold chartBodyG
  rw [List.map_append, notesVal_of_get? c v h]
  unfold ndParam otherProps
  simp only [List.map_cons, List.map_nil, List.cons_append]
  congr 2
  rw [← notesParam_eq_itemParam]
  cases v <;> rfl

/-- C02 clause 5, whole simfile: the parameters of the serialized simfile are the simfile-level items in order,
then for each chart in order a NOTEDATA parameter followed by the items of the chart with its note data moved
last; there are as many NOTEDATA parameters as charts. -/
theorem simfile_shape (s : SSCSimfile) (h : DomSSC' s) :
    ∃ is, serSSC s = .ok is ∧
      paramsOf is = (s.props.map fun kv => valueParam kv.1 kv.2) ++
        s.charts.flatMap (fun c => ⟨[kNOTEDATA, []]⟩ :: c.notesLast.props.map fun kv => valueParam kv.1 kv.2) ∧
      ((paramsOf is).filter fun p => decide (p.key = kNOTEDATA)).length = s.charts.length := by
  have hp : paramsOf (sscItemsG s) = (s.props.map fun kv => valueParam kv.1 kv.2) ++
      s.charts.flatMap (fun c => ⟨[kNOTEDATA, []]⟩ :: c.notesLast.props.map fun kv => valueParam kv.1 kv.2) := by
    rw [paramsOf_sscItemsG, List.flatMap_def]
    congr 2
    apply List.map_congr_left
    intro c hc
    obtain ⟨v, hv⟩ := (h.charts c hc).notes
    rw [chartBodyG_eq c v hv]; rfl
  refine ⟨_, serSSC_eq s h, hp, ?_⟩
  rw [paramsOf_sscItemsG, List.filter_append]
  have h1 : (s.props.map itemParam).filter (fun p => decide (p.key = kNOTEDATA)) = [] := by
    rw [List.filter_eq_nil_iff]
    intro p hp
    obtain ⟨kv, hkv, rfl⟩ := List.mem_map.mp hp
    unfold itemParam; rw [valueParam_key]
    simpa using h.notND _ (List.mem_map.mpr ⟨kv, hkv, rfl⟩)
  rw [h1, List.nil_append]
  have h2 : ∀ cs : List SSCChart, (∀ c ∈ cs, DomSSCChart' c) →
      ((cs.map fun c => ndParam :: chartBodyG c).flatten.filter fun p => decide (p.key = kNOTEDATA)).length
        = cs.length := by
    intro cs
    induction cs with
    | nil => intro _; rfl
    | cons c cs ih =>
      intro hd
      rw [List.map_cons, List.flatten_cons, List.filter_append, List.length_append,
        ih (fun c' hc' => hd c' (List.mem_cons_of_mem _ hc'))]
      have hc := hd c List.mem_cons_self
      have : (ndParam :: chartBodyG c).filter (fun p => decide (p.key = kNOTEDATA)) = [ndParam] := by
        rw [List.filter_cons]
        have hk : decide (ndParam.key = kNOTEDATA) = true := by decide
        rw [if_pos hk]
        congr 1
        rw [List.filter_eq_nil_iff]
        intro p hp
        have hnd := isND_chartBodyG c hc.upper hc.notND p hp
        unfold chartBodyG at hp
        obtain ⟨kv, hkv, rfl⟩ := List.mem_map.mp hp
        have hk : kv.1 ∈ Dict.keys (otherProps c ++ [(notesKey c, notesVal c)]) :=
          List.mem_map.mpr ⟨kv, hkv, rfl⟩
        unfold isND itemParam at hnd
        rw [valueParam_key, upper_keys_notesLast c hc.upper _ _ hk] at hnd
        unfold itemParam; rw [valueParam_key]
        simpa using hnd
      rw [this]; simp; omega
  exact h2 s.charts h.charts

/-- which keys are multi-valued -/
theorem isMulti_iff (k : Str) : isMulti k = true ↔ k = "ATTACKS".toList ∨ k = "DISPLAYBPM".toList := by
  unfold isMulti T.multiValue
  simp

/-- C02 clause 6 (C02-F3): on simfile level and on chart level alike, a string-valued ATTACKS / DISPLAYBPM item is
written as the parameter whose components are the key and the value split on ':' (no component contains ':', so
none is escaped, and joining gives the value back); every other string-valued item other than a chart's note data
is written as the two-component parameter (key, value). -/
theorem multi_value_components (s : SSCSimfile) (is : List Item) (h : serSSC s = .ok is) (k v : Str)
    (hmem : (k, some v) ∈ s.props ∨ ∃ c ∈ s.charts, (k, some v) ∈ c.props ∧ k ≠ notesKey c) :
    (isMulti k = true → (⟨k :: splitOn ':' v⟩ : Param) ∈ paramsOf is ∧ (∀ x ∈ splitOn ':' v, ':' ∉ x) ∧
        joinWith [':'] (splitOn ':' v) = v) ∧
    (isMulti k = false → (⟨[k, v]⟩ : Param) ∈ paramsOf is) := by
  have hn : ∀ c ∈ s.charts, ∃ v, c.props.get? (notesKey c) = some v := by
    intro c hc
    cases hg : c.props.get? (notesKey c) with
    | none => rw [serSSC_error_of_mem s c hc hg] at h; cases h
    | some v => exact ⟨v, rfl⟩
  rw [serSSC_okG s hn] at h
  cases h
  have hin : itemParam (k, some v) ∈ paramsOf (sscItemsG s) := by
    rw [paramsOf_sscItemsG]
    rcases hmem with hm | ⟨c, hc, hm, hne⟩
    · exact List.mem_append_left _ (List.mem_map.mpr ⟨_, hm, rfl⟩)
    · apply List.mem_append_right
      rw [List.mem_flatten]
      refine ⟨_, List.mem_map.mpr ⟨c, hc, rfl⟩, List.mem_cons_of_mem _ ?_⟩
      unfold chartBodyG
      refine List.mem_map.mpr ⟨(k, some v), List.mem_append_left _ ?_, rfl⟩
      unfold otherProps
      rw [List.mem_filter]
      exact ⟨hm, by simpa using hne⟩
  constructor
  · intro hk
    refine ⟨?_, splitOn_no_sep ':' v, joinWith_splitOn ':' v⟩
    have : itemParam (k, some v) = ⟨k :: splitOn ':' v⟩ := by
      unfold itemParam valueParam; simp [hk]
    rw [← this]; exact hin
  · intro hk
    have : itemParam (k, some v) = ⟨[k, v]⟩ := by
      unfold itemParam valueParam; simp [hk]
    rw [← this]; exact hin

/-- `SSCChart.from_str(str(chart))` on the full domain (note data possibly `None`): the chart parser reads the
key-only note-data parameter back as `None` and stops there -/
theorem chart_from_str (c : SSCChart) (h : DomSSCChart' c)
    (hone : ¬ (kNOTES ∈ c.props.keys ∧ kNOTES2 ∈ c.props.keys)) :
    (serSSCChart c).map (fun is => loadSSCChart (paramsOf is)) = .ok (.ok c.notesLast) := by
  obtain ⟨v, hv⟩ := h.notes
  rw [serSSCChart_some c v hv]
  show Except.ok (loadSSCChart (paramsOf (sscChartItemsG c))) = _
  congr 1
  rw [paramsOf_sscChartItemsG]
  unfold loadSSCChart
  simp only [show upper ndParam.key = kNOTEDATA from by decide, ne_eq, not_true_eq_false, if_false]
  congr 1
  have hb : chartBodyG c = (otherProps c).map itemParam ++ [itemParam (notesKey c, notesVal c)] := by
    unfold chartBodyG; rw [List.map_append]; rfl
  have := dictOf_chartBodyG c h.upper h.wf v hv
  rw [← this]
  congr 1
  rw [hb, loadSSCChartBody_eq]
  · rfl
  · intro p hp
    obtain ⟨kv, hkv, rfl⟩ := List.mem_map.mp hp
    have hmem := List.mem_filter.mp hkv
    have hk : kv.1 ∈ c.props.keys := List.mem_map.mpr ⟨kv, hmem.1, rfl⟩
    have hne : kv.1 ≠ notesKey c := by simpa using hmem.2
    unfold isNotesKey itemParam
    rw [valueParam_key, h.upper _ hk]
    apply decide_eq_false
    rintro (e | e)
    · rw [e] at hk hne
      apply hne
      unfold notesKey
      rw [(contains_iff _ _).mpr hk]; rfl
    · rw [e] at hk hne
      by_cases h1 : kNOTES ∈ c.props.keys
      · exact hone ⟨h1, hk⟩
      · apply hne
        unfold notesKey
        have : c.props.contains kNOTES = false := by
          rw [Bool.eq_false_iff]; intro hc; exact h1 ((contains_iff _ _).mp hc)
        rw [this, (contains_iff _ _).mpr hk]; rfl

/-! ### `SafeContent`: the `safeDoc` hypothesis from conditions on keys and values (C02-F5) -/

/-- Content-level condition on an SSC simfile, in the terms of the property's exclusion list, for the simfile-level
items and the items of every chart (note data included) alike:
* every key has no '#', no "///", and is not "ended by a line break": it has a character other than `\ : ;` and
  the last such character is not '\n' / '\r' (so in particular it is not empty) — `SafeKey`;
* every value has no '#' following a line break (directly or through ':' ';' '\\' only) and no "///" — `SafeValue`. -/
def SafeContent (s : SSCSimfile) : Bool := s.props.all SafeItem && s.charts.all (fun c => c.props.all SafeItem)

/-- C02-F5: whenever an SSC simfile with `SafeContent` can be serialized, the items satisfy `safeDoc` -/
theorem safeDoc_of_safeContent (s : SSCSimfile) (h : SafeContent s = true) (is : List Item)
    (his : serSSC s = .ok is) : safeDoc is = true := by
  simp only [SafeContent, Bool.and_eq_true, List.all_eq_true] at h
  have hn : ∀ c ∈ s.charts, ∃ v, c.props.get? (notesKey c) = some v := by
    intro c hc
    cases hg : c.props.get? (notesKey c) with
    | none => rw [serSSC_error_of_mem s c hc hg] at his; cases his
    | some v => exact ⟨v, rfl⟩
  rw [serSSC_okG s hn] at his
  cases his
  have hmem : ∀ p ∈ paramsOf (sscItemsG s), (∃ kv, SafeItem kv = true ∧ p = itemParam kv) ∨ p = ndParam := by
    intro p hp
    rw [paramsOf_sscItemsG, List.mem_append] at hp
    rcases hp with hp | hp
    · obtain ⟨kv, hkv, rfl⟩ := List.mem_map.mp hp
      exact Or.inl ⟨kv, h.1 kv hkv, rfl⟩
    · rw [List.mem_flatten] at hp
      obtain ⟨l, hl, hpl⟩ := hp
      obtain ⟨c, hc, rfl⟩ := List.mem_map.mp hl
      rcases List.mem_cons.mp hpl with rfl | hpl
      · exact Or.inr rfl
      · left
        unfold chartBodyG at hpl
        obtain ⟨kv, hkv, rfl⟩ := List.mem_map.mp hpl
        refine ⟨kv, h.2 c hc kv ?_, rfl⟩
        rcases List.mem_append.mp hkv with hkv | hkv
        · exact (List.mem_filter.mp hkv).1
        · rw [List.mem_singleton] at hkv
          subst hkv
          obtain ⟨v, hv⟩ := hn c hc
          rw [notesVal_of_get? c v hv]
          exact mem_of_get? _ _ _ hv
  apply safeDoc_of_good
  · intro p hp
    rcases hmem p hp with ⟨kv, _, rfl⟩ | rfl
    · exact valueParam_comps_ne _ _
    · decide
  · intro p hp
    rcases hmem p hp with ⟨kv, hkv, rfl⟩ | rfl
    · exact goodParam_itemParam kv hkv
    · decide

/-- in the form the through-text theorems take it -/
theorem safeDoc_of_safeContent' (s : SSCSimfile) (hd : DomSSC' s) (h : SafeContent s = true) :
    (serSSC s).map safeDoc = .ok true := by
  rw [serSSC_eq s hd]
  show Except.ok (safeDoc (sscItemsG s)) = _
  rw [safeDoc_of_safeContent s h _ (serSSC_eq s hd)]

/-- the common safe class: keys without '#', '/', line breaks and with a character other than `\ : ;`; values
without '#' and without "///" -/
theorem safeContent_of_plain (s : SSCSimfile)
    (hk : ∀ d, d = s.props ∨ (∃ c ∈ s.charts, d = c.props) → ∀ kv ∈ d,
      (kv.1.contains '#' = false ∧ kv.1.contains '/' = false ∧ (∀ c ∈ kv.1, isBreak c = false) ∧
        ∃ c ∈ kv.1, transparent c = false) ∧
      ∀ v, kv.2 = some v → v.contains '#' = false ∧ noTriple v = true) :
    SafeContent s = true := by
  have hitem : ∀ d, d = s.props ∨ (∃ c ∈ s.charts, d = c.props) → ∀ kv ∈ d, SafeItem kv = true := by
    intro d hd kv hkv
    obtain ⟨⟨h1, h2, h3, h4⟩, hv⟩ := hk d hd kv hkv
    simp only [SafeItem, Bool.and_eq_true]
    refine ⟨SafeKey_of_plain _ h1 h2 h3 h4, ?_⟩
    cases hv2 : kv.2 with
    | none => rfl
    | some v =>
      obtain ⟨a, b⟩ := hv v hv2
      exact SafeValue_of_plain v a b
  simp only [SafeContent, Bool.and_eq_true, List.all_eq_true]
  exact ⟨hitem _ (Or.inl rfl), fun c hc => hitem _ (Or.inr ⟨c, hc, rfl⟩)⟩

/-- C02 through text with every hypothesis on the CONTENT of the simfile -/
theorem roundtrip_content (M : Msd) (hM : M.Contract) (s : SSCSimfile) (h : DomSSC' s)
    (hc : SafeContent s = true) (strict : Bool) :
    (serSSC s).bind (fun is => (M.tokenize strict (M.renderDoc is)).map loadSSC) = .ok s.notesLast :=
  roundtrip M hM s h (safeDoc_of_safeContent' s h hc) strict

/-! ### non-vacuity -/

theorem notes_iff' (c : SSCChart) :
    (∃ v, c.props.get? (notesKey c) = some v) ↔ (c.props.get? (notesKey c)).isSome = true := by
  cases c.props.get? (notesKey c) <;> simp

instance (c : SSCChart) : Decidable (DomSSCChart' c) :=
  decidable_of_iff (c.props.WF ∧ (∀ k ∈ c.props.keys, Simfile.upper k = k) ∧
    (∀ k ∈ c.props.keys, k ≠ kNOTEDATA) ∧ (c.props.get? (notesKey c)).isSome = true)
    ⟨fun ⟨a, b, c, d⟩ => ⟨a, b, c, (notes_iff' _).mpr d⟩, fun ⟨a, b, c, d⟩ => ⟨a, b, c, (notes_iff' _).mp d⟩⟩
instance (s : SSCSimfile) : Decidable (DomSSC' s) :=
  decidable_of_iff (s.props.WF ∧ (∀ k ∈ s.props.keys, Simfile.upper k = k) ∧
    (∀ k ∈ s.props.keys, k ≠ kNOTEDATA) ∧ (∀ c ∈ s.charts, DomSSCChart' c))
    ⟨fun ⟨a, b, c, d⟩ => ⟨a, b, c, d⟩, fun ⟨a, b, c, d⟩ => ⟨a, b, c, d⟩⟩

/-- what `#VERSION:1;#NOTEDATA:;#CREDIT:a;#NOTES;#NOTEDATA:;#NOTES2;#METER:1;#ATTACKS:x:y;` loads as: note data `None`
in both charts, NOTES2 not last in the second, a multi-value chart property -/
def noneNotes : SSCSimfile :=
  ⟨[("VERSION".toList, some "1".toList)],
   [⟨[("CREDIT".toList, some "a".toList), ("NOTES".toList, none)]⟩,
    ⟨[("NOTES2".toList, none), ("METER".toList, some "1".toList), ("ATTACKS".toList, some "x:y".toList)]⟩]⟩

example : loadSSC [⟨["version".toList, "1".toList]⟩, ⟨["NOTEDATA".toList, []]⟩, ⟨["CREDIT".toList, "a".toList]⟩,
    ⟨["NOTES".toList]⟩, ⟨["NOTEDATA".toList, []]⟩, ⟨["NOTES2".toList]⟩, ⟨["METER".toList, "1".toList]⟩,
    ⟨["ATTACKS".toList, "x".toList, "y".toList]⟩] = noneNotes := by decide +kernel
example : DomSSC' noneNotes := by decide +kernel
example : ¬ C02.DomSSC noneNotes := by decide +kernel
example : (serSSC noneNotes).map safeDoc = .ok true := by decide +kernel
example : noneNotes.notesLast ≠ noneNotes := by decide +kernel
example : (serSSC noneNotes).map (fun is => loadSSC (paramsOf is)) = .ok noneNotes.notesLast :=
  roundtrip_params _ (by decide +kernel)
/-- the text written for it (what /venv/bin/python prints for the loaded object, too) -/
example : (serSSC noneNotes).map (fun is => String.ofList (MsdP.msd.renderDoc is)) =
    .ok "#VERSION:1;\n\n#NOTEDATA:;\n#CREDIT:a;\n#NOTES;\n\n\n#NOTEDATA:;\n#METER:1;\n#ATTACKS:x:y;\n#NOTES2;\n\n\n" := by
  decide +kernel
example : DomSSC' C02.trickySSC := DomSSC'.of_dom (by decide +kernel)

example : SafeContent noneNotes = true := by decide +kernel
/-- a simfile whose charts end with their (`None`) note data: `roundtrip_eq` applies -/
example : DomSSC' ⟨[], [⟨[("CREDIT".toList, some "a".toList), ("NOTES2".toList, none)]⟩]⟩ ∧
    ∀ c ∈ (⟨[], [⟨[("CREDIT".toList, some "a".toList), ("NOTES2".toList, none)]⟩]⟩ : SSCSimfile).charts,
      c.props.getLast?.map (·.1) = some (notesKey c) := by decide +kernel
/-- `chart_shape` / `multi_value_components` on the second chart of `noneNotes` -/
example : ∃ is, serSSCChart ⟨[("NOTES2".toList, none), ("METER".toList, some "1".toList), ("ATTACKS".toList, some "x:y".toList)]⟩
      = .ok is ∧
    paramsOf is = [⟨["NOTEDATA".toList, []]⟩, ⟨["METER".toList, "1".toList]⟩,
      ⟨["ATTACKS".toList, "x".toList, "y".toList]⟩, ⟨["NOTES2".toList]⟩] := by
  obtain ⟨is, h1, h2⟩ := chart_shape
    ⟨[("NOTES2".toList, none), ("METER".toList, some "1".toList), ("ATTACKS".toList, some "x:y".toList)]⟩ none
    (by decide +kernel)
  refine ⟨is, h1, ?_⟩
  rw [h2]; decide +kernel
example : SafeContent C02.trickySSC = true := by decide +kernel
example : SafeContent C02.blankSSC = true := by decide +kernel
/-- the exclusions are needed on chart level too: note data in which '#' follows a line break is read back wrongly -/
example : SafeContent ⟨[], [⟨[("NOTES".toList, some "0\n#1".toList)]⟩]⟩ = false ∧
    (serSSC ⟨[], [⟨[("NOTES".toList, some "0\n#1".toList)]⟩]⟩).map safeDoc = .ok false ∧
    (serSSC ⟨[], [⟨[("NOTES".toList, some "0\n#1".toList)]⟩]⟩).bind
      (fun is => (MsdP.msd.tokenize true (MsdP.msd.renderDoc is)).map loadSSC) ≠
      .ok (SSCSimfile.notesLast ⟨[], [⟨[("NOTES".toList, some "0\n#1".toList)]⟩]⟩) := by decide +kernel

/-- a chart with neither NOTES nor NOTES2: `KeyError` (Python: `str(SSCSimfile(string="#VERSION:1;#NOTEDATA:;#CREDIT:a;"))`
raises `KeyError: 'NOTES'`) -/
example : serSSC ⟨[], [⟨[("CREDIT".toList, some "a".toList)]⟩]⟩ = .error .keyError := by decide +kernel

end Simfile.C02More
