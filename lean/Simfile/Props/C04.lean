/-
C04: what the loaders produce lies in the serializers' domain, so load → save → load is the identity
(SM) / the identity up to `notesLast` (SSC), for ARBITRARY parameter lists.
-/
import Simfile.Props.C01
import Simfile.Props.C02
import Simfile.Lemmas.LoadRules
namespace Simfile.C04
open Simfile Simfile.O

/-- 13. every successfully loaded SM simfile is in `DomSM`. No hypothesis on the keys is needed: the
model's `upper` is the ASCII one, which is idempotent (`O.upper_upper`). -/
theorem loaded_in_dom_sm (ps : List Param) (s : SMSimfile) (h : loadSM ps = .ok s) : C01.DomSM s := by
  obtain ⟨hb, rfl⟩ := loadSM_ok ps s h
  refine ⟨WF_dictOf _, upper_of_mem_keys_dictOf _, ?_, ?_⟩
  · intro k hk
    obtain ⟨p, hp, rfl⟩ := mem_keys_dictOf _ k hk
    have := (List.mem_filter.mp hp).2
    simpa [isNotes] using this
  · intro c hc
    obtain ⟨p, hp, rfl⟩ := List.mem_map.mp hc
    have hp' := List.mem_filter.mp hp
    have hbad : badChart p = false := by
      rw [List.any_eq_false] at hb
      simpa using hb p hp'.1
    simp only [badChart, hp'.2, Bool.true_and, decide_eq_false_iff_not] at hbad
    obtain ⟨a, b, c⟩ := smChartOf_dom p.comps.tail hbad
    exact ⟨a, b, c⟩

/-- 14. load → save → load gives the same SM simfile -/
theorem load_save_load_sm (ps : List Param) (s : SMSimfile) (h : loadSM ps = .ok s) :
    loadSM (paramsOf (serSM s)) = .ok s :=
  C01.roundtrip_params s (loaded_in_dom_sm ps s h)

/-- saving the reloaded simfile writes the same items again -/
theorem second_save_noop (ps : List Param) (s : SMSimfile) (h : loadSM ps = .ok s) :
    (loadSM (paramsOf (serSM s))).map serSM = .ok (serSM s) := by
  rw [load_save_load_sm ps s h]; rfl

/-- through text, for any tokenizer satisfying the contract -/
theorem load_save_load_sm_text (M : Msd) (hM : M.Contract) (ps : List Param) (s : SMSimfile)
    (h : loadSM ps = .ok s) (hs : safeDoc (serSM s) = true) (strict : Bool) :
    (M.tokenize strict (M.renderDoc (serSM s))).bind loadSM = .ok s :=
  C01.roundtrip M hM s (loaded_in_dom_sm ps s h) hs strict

/-- a loaded SSC simfile satisfies everything in `DomSSC` except that a chart may lack note data -/
theorem loaded_in_dom_ssc (ps : List Param) (hnotes : ∀ c ∈ (loadSSC ps).charts,
    ∃ n, c.props.get? (notesKey c) = some (some n)) : C02.DomSSC (loadSSC ps) := by
  rw [loadSSC_closed] at hnotes ⊢
  refine ⟨WF_dictOf _, upper_of_mem_keys_dictOf _,
    ne_ND_of_mem_keys_dictOf _ (segs_fst_noND ps), ?_⟩
  intro c hc
  have hn := hnotes c hc
  obtain ⟨g, hg, rfl⟩ := List.mem_map.mp hc
  exact ⟨WF_dictOf _, upper_of_mem_keys_dictOf _,
    ne_ND_of_mem_keys_dictOf _ (segs_snd_noND ps g hg), hn⟩

/-- the part of `DomSSC` that holds for every loaded SSC simfile -/
theorem loaded_ssc_keys (ps : List Param) :
    (loadSSC ps).props.WF ∧ (∀ k ∈ (loadSSC ps).props.keys, upper k = k ∧ k ≠ kNOTEDATA) ∧
    ∀ c ∈ (loadSSC ps).charts, c.props.WF ∧ ∀ k ∈ c.props.keys, upper k = k ∧ k ≠ kNOTEDATA := by
  rw [loadSSC_closed]
  refine ⟨WF_dictOf _, fun k hk => ⟨upper_of_mem_keys_dictOf _ k hk,
    ne_ND_of_mem_keys_dictOf _ (segs_fst_noND ps) k hk⟩, ?_⟩
  intro c hc
  obtain ⟨g, hg, rfl⟩ := List.mem_map.mp hc
  exact ⟨WF_dictOf _, fun k hk => ⟨upper_of_mem_keys_dictOf _ k hk,
    ne_ND_of_mem_keys_dictOf _ (segs_snd_noND ps g hg) k hk⟩⟩

/-- load → save → load gives the same SSC simfile with each chart's note data moved last -/
theorem load_save_load_ssc (ps : List Param) (hnotes : ∀ c ∈ (loadSSC ps).charts,
    ∃ n, c.props.get? (notesKey c) = some (some n)) :
    (serSSC (loadSSC ps)).map (fun is => loadSSC (paramsOf is)) = .ok (loadSSC ps).notesLast :=
  C02.roundtrip_params _ (loaded_in_dom_ssc ps hnotes)

theorem notesLast_notesLast (s : SSCSimfile) : s.notesLast.notesLast = s.notesLast := C02.notesLast_idem s

theorem serSSC_notesLast (s : SSCSimfile) : serSSC s.notesLast = serSSC s := C02.reserialize_stable s

/-- so the second save writes the same items as the first -/
theorem second_save_noop_ssc (ps : List Param) (hnotes : ∀ c ∈ (loadSSC ps).charts,
    ∃ n, c.props.get? (notesKey c) = some (some n)) :
    (serSSC (loadSSC ps)).bind (fun is => serSSC (loadSSC (paramsOf is))) = serSSC (loadSSC ps) := by
  have h := load_save_load_ssc ps hnotes
  have hd := C02.serSSC_eq _ (loaded_in_dom_ssc ps hnotes)
  rw [hd] at h ⊢
  have h' : loadSSC (paramsOf (sscItems (loadSSC ps))) = (loadSSC ps).notesLast := Except.ok.inj h
  show serSSC (loadSSC (paramsOf (sscItems (loadSSC ps)))) = _
  rw [h', serSSC_notesLast, hd]

/-! ### examples: the hypotheses are met by parameter lists outside the serializers' image -/

def exPs : List Param :=
  [⟨["title".toList, " a:b ".toList]⟩, ⟨["Artist".toList]⟩, ⟨["TITLE".toList, "b".toList, "c".toList]⟩,
   ⟨["notes".toList, "s".toList, " d ".toList, "x".toList, "1".toList, "r".toList, "\n00\n".toList,
     "extra".toList]⟩,
   ⟨["displaybpm".toList, "1".toList, "2".toList]⟩]

example : ∃ s, loadSM exPs = .ok s := by
  rcases loadSM_cases exPs with ⟨hb, _⟩ | ⟨_, hs⟩
  · exact absurd hb (by decide +kernel)
  · exact hs

def exSSCPs : List Param :=
  [⟨["version".toList, "0.83".toList]⟩, ⟨["title".toList, "a".toList]⟩, ⟨["NoteData".toList, [], "x".toList]⟩,
   ⟨["stepstype".toList, "0".toList]⟩, ⟨["notes".toList, "0".toList]⟩, ⟨["credit".toList, "0".toList]⟩,
   ⟨["NOTEDATA".toList]⟩, ⟨["NOTES2".toList, "1".toList]⟩, ⟨["NOTES2".toList, "2".toList]⟩,
   ⟨["meter".toList, "2".toList]⟩]

example : ∀ c ∈ (loadSSC exSSCPs).charts, ∃ n, c.props.get? (notesKey c) = some (some n) :=
  fun c hc => (C02.notes_iff c).mpr
    ((show ∀ c ∈ (loadSSC exSSCPs).charts, ((c.props.get? (notesKey c)).bind id).isSome = true from by
      decide +kernel) c hc)

example : (loadSSC exSSCPs).notesLast ≠ loadSSC exSSCPs := by decide +kernel

end Simfile.C04
