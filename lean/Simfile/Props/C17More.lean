/-
C17, continued: SSC → SM conversion at the level of `convert` itself.
  1. the policy read off the tables (`copied`, `offending`);
  2. `policy_ok`: what a successful conversion returns (clauses "copies every property the SM format can hold",
     "charts in order", "templates respected"); `policy_props`, `policy_charts`: the same, key by key;
  3. `policy_first_error`: the property named by InvalidPropertyException is the FIRST offending one;
  4. `outcomes`: every outcome on every SSC source, with an iff for each failure class
     (`notImplemented_iff`, `invalidProperty_iff`, `keyError_iff`, `ok_iff`), `never_attributeError`, `never_valueError`;
  5. SM → SSC → SM on the weakest domain (`there_and_back_iff`), what is lost (`there_and_back_lost`).
-/
import Simfile.Lemmas.ConvertMore
import Simfile.Lemmas.ConvertMoreBack
import Simfile.Props.C17
namespace Simfile.C17More
open Simfile Simfile.O Simfile.V Simfile.Cv

/-! ### 1. the policy, from the behaviour table only -/

/-- a property is COPIED when it is not listed as invalid for the target, or the (first) kind that lists it has the
behaviour COPY_ANYWAY -/
theorem copied_iff (invalid : List (Nat × List Str)) (beh : List (Nat × Nat)) (k : Str) :
    copied invalid beh k = true ↔
      listedIn invalid k = none ∨ ∃ e, listedIn invalid k = some e ∧ behaviourOf beh e.1 = bCOPY := by
  unfold copied
  cases listedIn invalid k with
  | none => simp
  | some e => simp

/-- a property is OFFENDING when it is listed and the behaviour of the (first) kind that lists it is not COPY_ANYWAY,
not IGNORE, and — when it is ERROR_UNLESS_DEFAULT — its stripped value (the empty string for a key-only property)
is not the default. So: ERROR (or an unknown code), or ERROR_UNLESS_DEFAULT with a non-default value. -/
theorem offending_iff (invalid : List (Nat × List Str)) (beh : List (Nat × Nat)) (kv : Str × Option Str) :
    offending invalid beh kv = true ↔
      ∃ e, listedIn invalid kv.1 = some e ∧ behaviourOf beh e.1 ≠ bCOPY ∧ behaviourOf beh e.1 ≠ bIGNORE ∧
        (behaviourOf beh e.1 = bUNLESS → strip (kv.2.getD []) ≠ defaultProperty kv.1) := by
  unfold offending
  cases listedIn invalid kv.1 with
  | none => simp
  | some e =>
    simp only [Bool.and_eq_true, Bool.or_eq_true, bne_iff_ne, ne_eq, Option.some.injEq, exists_eq_left']
    constructor
    · rintro ⟨⟨h1, h2⟩, h3⟩
      exact ⟨h1, h2, fun hb => h3.resolve_left (fun h => h hb)⟩
    · rintro ⟨h1, h2, h3⟩
      refine ⟨⟨h1, h2⟩, ?_⟩
      by_cases hb : behaviourOf beh e.1 = bUNLESS
      · exact Or.inr (h3 hb)
      · exact Or.inl hb

/-- a property that is neither copied nor offending is silently skipped: IGNORE, or ERROR_UNLESS_DEFAULT at its default -/
theorem skipped_iff (invalid : List (Nat × List Str)) (beh : List (Nat × Nat)) (kv : Str × Option Str) :
    (copied invalid beh kv.1 = false ∧ offending invalid beh kv = false) ↔
      ∃ e, listedIn invalid kv.1 = some e ∧ behaviourOf beh e.1 ≠ bCOPY ∧
        (behaviourOf beh e.1 = bIGNORE ∨
          (behaviourOf beh e.1 = bUNLESS ∧ strip (kv.2.getD []) = defaultProperty kv.1)) := by
  unfold copied offending
  cases listedIn invalid kv.1 with
  | none => simp
  | some e =>
    simp only [beq_eq_false_iff_ne, ne_eq, Bool.and_eq_false_iff, Bool.or_eq_false_iff, bne_eq_false_iff_eq,
      Option.some.injEq, exists_eq_left']
    constructor
    · rintro ⟨h1, (h2 | h2) | h2⟩
      · exact absurd h2 h1
      · exact ⟨h1, Or.inl h2⟩
      · exact ⟨h1, Or.inr h2⟩
    · rintro ⟨h1, h2 | h2⟩
      · exact ⟨h1, Or.inl (Or.inr h2)⟩
      · exact ⟨h1, Or.inr h2⟩

/-- the decision of `_should_copy_property` is exactly this policy -/
theorem should_copy_policy (k : Str) (v : Option Str) (invalid : List (Nat × List Str)) (beh : List (Nat × Nat)) :
    shouldCopy k v invalid beh =
      if offending invalid beh (k, v) then .error (.invalidProperty k) else .ok (copied invalid beh k) :=
  shouldCopy_cases k v invalid beh

/-- copied and offending exclude each other -/
theorem offending_not_copied (invalid : List (Nat × List Str)) (beh : List (Nat × Nat)) (kv : Str × Option Str)
    (h : offending invalid beh kv = true) : copied invalid beh kv.1 = false :=
  Cv.offending_not_copied invalid beh kv h

/-- the six SM chart fields are not listed for SM charts: always copied, never offending -/
theorem six_copied (beh : List (Nat × Nat)) (kv : Str × Option Str) (h : kv.1 ∈ T.smChartProperties) :
    copied T.invalidSMChart beh kv.1 = true ∧ offending T.invalidSMChart beh kv = false :=
  ⟨copied_six beh kv.1 h, offending_six beh kv h⟩

example : copied T.invalidSMSimfile [] "TITLE".toList = true ∧ copied T.invalidSMSimfile [] "ORIGIN".toList = false ∧
    copied T.invalidSMSimfile [(4, 1)] "COMBOS".toList = true := by decide
example : offending T.invalidSMSimfile [] ("COMBOS".toList, some "0=2".toList) = true ∧
    offending T.invalidSMSimfile [] ("COMBOS".toList, some " 0.000=1 ".toList) = false ∧
    offending T.invalidSMSimfile [] ("FAKES".toList, none) = false ∧
    offending T.invalidSMSimfile [(2, 4)] ("ORIGIN".toList, some [])  = true := by decide

/-! ### 2. a successful conversion -/

/-- F17-1. The whole result of a successful conversion to SM, in closed form: `Dict.set` folded over the COPIED items
of the source, starting from the template (`Cv.startOf`, `Cv.chartStartOf`: the template unless missing or without
items, else the generated blank object); the template's charts first, then one chart per source chart, in order.
And success means: no item is offending, and every copied chart item is one of the six SM chart fields. -/
theorem policy_ok (src out : AnySimfile) (st : Option AnySimfile) (ct : Option (Dict × Option (List Str)))
    (beh : List (Nat × Nat)) (h : convert src false st ct beh = .ok out) :
    out = { isSSC := false,
            props := setAll (startOf false st).props
              (src.props.filter fun kv => copied T.invalidSMSimfile beh kv.1),
            charts := (startOf false st).charts ++
              src.charts.map fun c =>
                (setAll (chartStartOf false ct).1 (c.1.filter fun kv => copied T.invalidSMChart beh kv.1),
                 (chartStartOf false ct).2) } ∧
    (∀ kv ∈ src.props, offending T.invalidSMSimfile beh kv = false) ∧
    (∀ c ∈ src.charts, ∀ kv ∈ c.1, offending T.invalidSMChart beh kv = false ∧
      (copied T.invalidSMChart beh kv.1 = true → kv.1 ∈ T.smChartProperties)) := by
  have hw : convertWarps src = .ok () := by
    rw [convert_eq] at h
    cases hw : convertWarps src with
    | error e => rw [hw] at h; cases h
    | ok u => rfl
  rw [convert_back_eq src st ct beh hw] at h
  cases hp : firstProblem src beh with
  | some e => rw [hp] at h; cases h
  | none =>
    rw [hp] at h
    simp only [Except.ok.injEq] at h
    obtain ⟨h1, h2⟩ := (firstProblem_eq_none_iff src beh).mp hp
    refine ⟨h.symm, fun kv hkv => (itemProblem_false_none_iff _ _ _).mp (h1 kv hkv), fun c hc kv hkv => ?_⟩
    obtain ⟨h3, h4⟩ := (itemProblem_none_iff _ _ _ _).mp (h2 c hc kv hkv)
    exact ⟨h3, h4 rfl⟩

/-- F17-1, the simfile properties key by key (the source's keys are distinct, as in any mapping). After a successful
conversion, with `tmpl` the start object's properties:
* a property NOT listed as invalid for SM simfiles is in `out` with its value;
* a listed property whose kind has behaviour COPY_ANYWAY is in `out` with its value;
* any other listed property is not written: `out` reads under its key what the TEMPLATE reads (so it is in `out`
  iff the template has the key, with the template's value), and its behaviour is IGNORE, or ERROR_UNLESS_DEFAULT
  with stripped value equal to the default;
* a key the source lacks reads as in the template;
* key order: the template's keys in place, then the new copied keys in source order. -/
theorem policy_props (src out : AnySimfile) (st : Option AnySimfile) (ct : Option (Dict × Option (List Str)))
    (beh : List (Nat × Nat)) (h : convert src false st ct beh = .ok out) (hwf : Dict.WF src.props) :
    out.isSSC = false ∧
    (∀ kv ∈ src.props, listedIn T.invalidSMSimfile kv.1 = none → out.props.get? kv.1 = some kv.2) ∧
    (∀ kv ∈ src.props, ∀ e, listedIn T.invalidSMSimfile kv.1 = some e →
      (behaviourOf beh e.1 = bCOPY → out.props.get? kv.1 = some kv.2) ∧
      (behaviourOf beh e.1 ≠ bCOPY →
        out.props.get? kv.1 = (startOf false st).props.get? kv.1 ∧
        (behaviourOf beh e.1 = bIGNORE ∨
          (behaviourOf beh e.1 = bUNLESS ∧ strip (kv.2.getD []) = defaultProperty kv.1)))) ∧
    (∀ k, k ∉ Dict.keys src.props → out.props.get? k = (startOf false st).props.get? k) ∧
    Dict.keys out.props = Dict.keys (startOf false st).props ++
      (((src.props.filter fun kv => copied T.invalidSMSimfile beh kv.1).map (·.1)).filter
        (fun k => !(Dict.keys (startOf false st).props).contains k)).eraseDups := by
  obtain ⟨ho, hoff, _⟩ := policy_ok src out st ct beh h
  rw [ho]
  refine ⟨rfl, fun kv hkv hl => ?_, fun kv hkv e hl => ⟨fun hb => ?_, fun hb => ⟨?_, ?_⟩⟩, fun k hk => ?_,
    keys_setAll _ _⟩
  · exact get?_setAll_filter_of_mem _ _ (copied T.invalidSMSimfile beh) kv hwf hkv
      ((copied_iff _ _ _).mpr (Or.inl hl))
  · exact get?_setAll_filter_of_mem _ _ (copied T.invalidSMSimfile beh) kv hwf hkv
      ((copied_iff _ _ _).mpr (Or.inr ⟨e, hl, hb⟩))
  · apply get?_setAll_filter_of_not _ _ (copied T.invalidSMSimfile beh)
    left
    unfold copied; rw [hl]; simpa using hb
  · have hc : copied T.invalidSMSimfile beh kv.1 = false := by unfold copied; rw [hl]; simpa using hb
    obtain ⟨e', he', _, h3⟩ := (skipped_iff _ _ kv).mp ⟨hc, hoff kv hkv⟩
    rw [hl] at he'; cases he'
    exact h3
  · exact get?_setAll_filter_of_not _ _ (copied T.invalidSMSimfile beh) k (Or.inr hk)

/-- F17-1, the charts. After a successful conversion: the template's charts come first, unchanged; then exactly one
chart per source chart, in order; the i-th of them has the chart template's extradata, and (source chart keys
distinct)
* each of the six SM chart fields the source chart has is there with its value;
* every property that is copied at all is one of the six (so listed chart properties with COPY_ANYWAY cannot occur
  in a successful conversion), every other property is listed, not written, and IGNORE / at its default;
* a key that is not copied, or that the source chart lacks, reads as in the chart template;
* the keys are those of the chart template, then new copied keys in source order. -/
theorem policy_charts (src out : AnySimfile) (st : Option AnySimfile) (ct : Option (Dict × Option (List Str)))
    (beh : List (Nat × Nat)) (h : convert src false st ct beh = .ok out) :
    out.charts.length = (startOf false st).charts.length + src.charts.length ∧
    out.charts.take (startOf false st).charts.length = (startOf false st).charts ∧
    ∀ (i : Nat) (c : Dict × Option (List Str)), src.charts[i]? = some c →
      ∃ c', out.charts[(startOf false st).charts.length + i]? = some c' ∧
        c'.2 = (chartStartOf false ct).2 ∧
        (Dict.WF c.1 → ∀ kv ∈ c.1, kv.1 ∈ T.smChartProperties → c'.1.get? kv.1 = some kv.2) ∧
        (∀ kv ∈ c.1, kv.1 ∈ T.smChartProperties ∨
          (c'.1.get? kv.1 = (chartStartOf false ct).1.get? kv.1 ∧
            ∃ e, listedIn T.invalidSMChart kv.1 = some e ∧ behaviourOf beh e.1 ≠ bCOPY ∧
              (behaviourOf beh e.1 = bIGNORE ∨
                (behaviourOf beh e.1 = bUNLESS ∧ strip (kv.2.getD []) = defaultProperty kv.1)))) ∧
        (∀ k, k ∉ Dict.keys c.1 → c'.1.get? k = (chartStartOf false ct).1.get? k) ∧
        Dict.keys c'.1 = Dict.keys (chartStartOf false ct).1 ++
          (((c.1.filter fun kv => copied T.invalidSMChart beh kv.1).map (·.1)).filter
            (fun k => !(Dict.keys (chartStartOf false ct).1).contains k)).eraseDups := by
  obtain ⟨ho, _, hch⟩ := policy_ok src out st ct beh h
  rw [ho]
  refine ⟨by simp, by simp, fun i c hc => ?_⟩
  have hcm : c ∈ src.charts := List.mem_of_getElem? hc
  refine ⟨(setAll (chartStartOf false ct).1 (c.1.filter fun kv => copied T.invalidSMChart beh kv.1),
    (chartStartOf false ct).2), ?_, rfl, fun hwf kv hkv hsix => ?_, fun kv hkv => ?_, fun k hk => ?_, keys_setAll _ _⟩
  · simp only [List.getElem?_append_right (Nat.le_add_right _ _), Nat.add_sub_cancel_left, List.getElem?_map, hc,
      Option.map_some]
  · exact get?_setAll_filter_of_mem _ _ (copied T.invalidSMChart beh) kv hwf hkv (copied_six beh kv.1 hsix)
  · obtain ⟨hoff, hsix⟩ := hch c hcm kv hkv
    cases hcp : copied T.invalidSMChart beh kv.1 with
    | true => exact Or.inl (hsix hcp)
    | false =>
      exact Or.inr ⟨get?_setAll_filter_of_not _ _ (copied T.invalidSMChart beh) kv.1 (Or.inl hcp),
        (skipped_iff _ _ kv).mp ⟨hcp, hoff⟩⟩
  · exact get?_setAll_filter_of_not _ _ (copied T.invalidSMChart beh) k (Or.inr hk)

/-- a source for the examples: TITLE (copied), ORIGIN (METADATA: ignored), COMBOS at its default and a key-only FAKES
(GAMEPLAY_EVENT: skipped), MUSIC; one chart with two of the six fields and a chart-level OFFSET (TIMING_DATA, empty) -/
def exSSC : AnySimfile :=
  ⟨true,
   [("VERSION".toList, some "0.83".toList), ("TITLE".toList, some "x".toList), ("ORIGIN".toList, some "y".toList),
    ("COMBOS".toList, some " 0.000=1".toList), ("FAKES".toList, none), ("MUSIC".toList, some "z.ogg".toList)],
   [([("STEPSTYPE".toList, some "dance-single".toList), ("OFFSET".toList, some [ ]),
      ("NOTES".toList, some "0000".toList)], none)]⟩

example : (convert exSSC false none none []).toOption.isSome = true := by decide +kernel
example : Dict.WF exSSC.props ∧ ∀ c ∈ exSSC.charts, Dict.WF c.1 := by unfold Dict.WF; decide +kernel
example : (convert exSSC false none none []).map (fun out =>
      (out.props.get? "TITLE".toList, out.props.get? "ORIGIN".toList, out.props.get? "FAKES".toList)) =
    .ok (some (some "x".toList), none, none) := by decide +kernel
example : (convert exSSC false none none []).map (fun out => out.charts.map (fun c => c.1.get? "NOTES".toList)) =
    .ok [some (some "0000".toList)] := by decide +kernel
/-- with COPY_ANYWAY for METADATA (kind 2) the ORIGIN property arrives -/
example : (convert exSSC false none none [(2, 1)]).map (fun out => out.props.get? "ORIGIN".toList) =
    .ok (some (some "y".toList)) := by decide +kernel

/-! ### 3. the first offending property is the one named -/

/-- the keys of the offending properties of a source, in the order: simfile properties, then the charts in sequence,
each chart's properties in order -/
def offendingKeys (src : AnySimfile) (beh : List (Nat × Nat)) : List Str :=
  (src.props.filter (offending T.invalidSMSimfile beh)).map (·.1) ++
    src.charts.flatMap fun c => (c.1.filter (offending T.invalidSMChart beh)).map (·.1)

/-- F17-2. InvalidPropertyException names the FIRST offending property (any source, any templates) -/
theorem policy_first_error (src : AnySimfile) (st : Option AnySimfile) (ct : Option (Dict × Option (List Str)))
    (beh : List (Nat × Nat)) (k : Str) (h : convert src false st ct beh = .error (.invalidProperty k)) :
    (offendingKeys src beh).head? = some k := by
  have hw : convertWarps src = .ok () :=
    convertWarps_of_convert src false st ct beh _ h ⟨by simp, by simp⟩
  rw [convert_back_eq src st ct beh hw] at h
  cases hp : firstProblem src beh with
  | none => rw [hp] at h; cases h
  | some e =>
    rw [hp] at h
    simp only [Except.error.injEq] at h
    subst h
    unfold offendingKeys
    rw [List.head?_append, List.head?_map, List.head?_filter, List.head?_flatMap]
    unfold firstProblem at hp
    rw [Option.or_eq_some_iff] at hp
    rcases hp with hp | ⟨hp1, hp2⟩
    · rw [(find_offending_of_findSome false _ beh src.props).2 k hp]; rfl
    · rw [(find_offending_of_findSome false _ beh src.props).1 hp1]
      simp only [Option.map_none, Option.none_or]
      clear hp1 hw
      generalize src.charts = cs at hp2 ⊢
      induction cs with
      | nil => cases hp2
      | cons c cs ih =>
        rw [List.findSome?_cons] at hp2 ⊢
        simp only [List.head?_map, List.head?_filter]
        cases hc : c.1.findSome? (itemProblem true T.invalidSMChart beh) with
        | none =>
          rw [hc] at hp2
          rw [(find_offending_of_findSome true _ beh c.1).1 hc]
          simp only [Option.map_none]
          have := ih hp2
          simpa only [List.head?_map, List.head?_filter] using this
        | some e =>
          rw [hc] at hp2
          simp only [Option.some.injEq] at hp2
          subst hp2
          rw [(find_offending_of_findSome true _ beh c.1).2 k hc]

example : convert ⟨true, [("TITLE".toList, some "x".toList), ("COMBOS".toList, some "0=2".toList)],
      [([("STOPS".toList, some "1=1".toList)], none)]⟩ false none none [] =
    .error (.invalidProperty "COMBOS".toList) := by decide +kernel
example : offendingKeys ⟨true, [("TITLE".toList, some "x".toList), ("COMBOS".toList, some "0=2".toList)],
      [([("STOPS".toList, some "1=1".toList)], none)]⟩ [] = ["COMBOS".toList, "STOPS".toList] := by decide +kernel

/-! ### 4. every outcome on every SSC source -/

/-- `Cv.hasWarps`: the `warps` attribute of the SSC source is a non-empty string -/
theorem hasWarps_iff (src : AnySimfile) :
    hasWarps src ↔ ∃ x xs, attrGet .sscSimfile src.props "warps".toList = some (x :: xs) := by
  have e : "warps".toList = ['w','a','r','p','s'] := by decide
  rw [e, attrGet_warps]; rfl

/-- a chart property causes no failure: it is not offending, and it is copied only if it is one of the six keys an SM
chart can hold -/
def ChartClean (beh : List (Nat × Nat)) (kv : Str × Option Str) : Prop :=
  offending T.invalidSMChart beh kv = false ∧
    (copied T.invalidSMChart beh kv.1 = true → kv.1 ∈ T.smChartProperties)

instance (beh : List (Nat × Nat)) (kv : Str × Option Str) : Decidable (ChartClean beh kv) := by
  unfold ChartClean; infer_instance

theorem chartClean_iff (beh : List (Nat × Nat)) (kv : Str × Option Str) :
    ChartClean beh kv ↔ itemProblem true T.invalidSMChart beh kv = none := by
  rw [itemProblem_none_iff]; unfold ChartClean; simp

/-- F17-3, NotImplementedError: exactly when the source has warps, whatever the rest -/
theorem notImplemented_iff (src : AnySimfile) (st : Option AnySimfile) (ct : Option (Dict × Option (List Str)))
    (beh : List (Nat × Nat)) (h : src.isSSC = true) :
    convert src false st ct beh = .error .notImplemented ↔ hasWarps src :=
  convert_ssc_notImplemented_iff src st ct beh h

/-- F17-3, success: exactly when there are no warps, no offending property anywhere, and every chart property that is
copied is one of the six SM chart keys -/
theorem ok_iff (src : AnySimfile) (st : Option AnySimfile) (ct : Option (Dict × Option (List Str)))
    (beh : List (Nat × Nat)) (h : src.isSSC = true) :
    (∃ out, convert src false st ct beh = .ok out) ↔
      ¬ hasWarps src ∧ (∀ kv ∈ src.props, offending T.invalidSMSimfile beh kv = false) ∧
        ∀ c ∈ src.charts, ∀ kv ∈ c.1, ChartClean beh kv := by
  rw [convert_ssc_ok_iff src st ct beh h, firstProblem_eq_none_iff]
  simp only [itemProblem_false_none_iff, chartClean_iff]

/-- F17-3 / F17-2, InvalidPropertyException naming `k`: exactly when there are no warps and `k` is the key of the first
offending property — among the simfile properties, or (no simfile property offending) in some chart, all earlier
charts and the chart's earlier properties being clean -/
theorem invalidProperty_iff (src : AnySimfile) (st : Option AnySimfile) (ct : Option (Dict × Option (List Str)))
    (beh : List (Nat × Nat)) (h : src.isSSC = true) (k : Str) :
    convert src false st ct beh = .error (.invalidProperty k) ↔
      ¬ hasWarps src ∧
      ((∃ pre v post, src.props = pre ++ (k, v) :: post ∧ offending T.invalidSMSimfile beh (k, v) = true ∧
          ∀ x ∈ pre, offending T.invalidSMSimfile beh x = false) ∨
       ((∀ x ∈ src.props, offending T.invalidSMSimfile beh x = false) ∧
          ∃ cs1 c cs2 pre v post, src.charts = cs1 ++ c :: cs2 ∧ c.1 = pre ++ (k, v) :: post ∧
            offending T.invalidSMChart beh (k, v) = true ∧ (∀ x ∈ pre, ChartClean beh x) ∧
            ∀ c' ∈ cs1, ∀ x ∈ c'.1, ChartClean beh x)) := by
  rw [convert_ssc_error_iff src st ct beh h _ (by simp), firstProblem_eq_some_iff]
  simp only [itemProblem_false_none_iff, ← chartClean_iff, itemProblem_eq_invalid_iff]
  refine and_congr_right fun _ => or_congr ?_ (and_congr_right fun _ => ?_)
  · constructor
    · rintro ⟨l1, ⟨k', v⟩, l2, hl, ⟨ho, rfl⟩, hpre⟩; exact ⟨l1, v, l2, hl, ho, hpre⟩
    · rintro ⟨l1, v, l2, hl, ho, hpre⟩; exact ⟨l1, (k, v), l2, hl, ⟨ho, rfl⟩, hpre⟩
  · constructor
    · rintro ⟨cs1, c, cs2, l1, ⟨k', v⟩, l2, hc, hl, ⟨ho, rfl⟩, hpre, hcs⟩
      exact ⟨cs1, c, cs2, l1, v, l2, hc, hl, ho, hpre, hcs⟩
    · rintro ⟨cs1, c, cs2, l1, v, l2, hc, hl, ho, hpre, hcs⟩
      exact ⟨cs1, c, cs2, l1, (k, v), l2, hc, hl, ⟨ho, rfl⟩, hpre, hcs⟩

/-- F17-3, the known finding C17-chart-key: a bare KeyError, exactly when there are no warps, no simfile property is
offending, and the first chart property that is not clean is one that HAS TO BE COPIED (not listed for SM charts, or
listed with COPY_ANYWAY) but is not one of the six SM chart keys — e.g. MUSIC or NOTES2 of a split-audio SSC chart,
an unknown key, or a chart-level timing property under COPY_ANYWAY -/
theorem keyError_iff (src : AnySimfile) (st : Option AnySimfile) (ct : Option (Dict × Option (List Str)))
    (beh : List (Nat × Nat)) (h : src.isSSC = true) :
    convert src false st ct beh = .error .keyError ↔
      ¬ hasWarps src ∧ (∀ x ∈ src.props, offending T.invalidSMSimfile beh x = false) ∧
        ∃ cs1 c cs2 pre kv post, src.charts = cs1 ++ c :: cs2 ∧ c.1 = pre ++ kv :: post ∧
          offending T.invalidSMChart beh kv = false ∧ copied T.invalidSMChart beh kv.1 = true ∧
          kv.1 ∉ T.smChartProperties ∧ (∀ x ∈ pre, ChartClean beh x) ∧
          ∀ c' ∈ cs1, ∀ x ∈ c'.1, ChartClean beh x := by
  rw [convert_ssc_error_iff src st ct beh h _ (by simp), firstProblem_eq_some_iff]
  simp only [itemProblem_false_none_iff, ← chartClean_iff, itemProblem_eq_keyError_iff]
  refine and_congr_right fun _ => ?_
  constructor
  · rintro (⟨_, _, _, _, ⟨_, hf, _⟩, _⟩ | ⟨h1, cs1, c, cs2, l1, a, l2, hc, hl, ⟨h2, _, h3, h4⟩, hpre, hcs⟩)
    · cases hf
    · exact ⟨h1, cs1, c, cs2, l1, a, l2, hc, hl, h2, h3, h4, hpre, hcs⟩
  · rintro ⟨h1, cs1, c, cs2, l1, a, l2, hc, hl, h2, h3, h4, hpre, hcs⟩
    exact Or.inr ⟨h1, cs1, c, cs2, l1, a, l2, hc, hl, ⟨h2, trivial, h3, h4⟩, hpre, hcs⟩

/-- F17-3, after the repair of `_should_copy_property` (`(value or "").strip()`): no AttributeError, on any source,
with any templates and behaviours -/
theorem never_attributeError (src : AnySimfile) (toSSC : Bool) (st : Option AnySimfile)
    (ct : Option (Dict × Option (List Str))) (beh : List (Nat × Nat)) :
    convert src toSSC st ct beh ≠ .error .attributeError := by
  intro h
  rw [convert_eq] at h
  cases hw : convertWarps src with
  | error e =>
    rw [hw] at h
    simp only [Except.error.injEq] at h
    subst h
    rcases convertWarps_error_kind src _ hw with h' | h' <;> cases h'
  | ok u =>
    rw [hw] at h
    simp only [] at h
    cases hp : copyProperties false src.props (startOf toSSC st).props (invSimOf toSSC) beh with
    | error e =>
      rw [hp] at h
      simp only [Except.error.injEq] at h
      subst h
      obtain ⟨kv, _, hh | ⟨_, _, _, hh⟩⟩ := copyProperties_error _ _ _ _ _ _ hp
      · cases shouldCopy_error _ _ _ _ _ hh
      · cases hh
    | ok props =>
      rw [hp] at h
      simp only [] at h
      cases hc : src.charts.mapM (convChart toSSC ct beh) with
      | ok charts => rw [hc] at h; cases h
      | error e =>
        rw [hc] at h
        simp only [Except.error.injEq] at h
        subst h
        obtain ⟨c, _, hce⟩ := mapM_error _ _ _ hc
        rw [convChart_eq] at hce
        cases hcp : copyProperties (!toSSC) c.1 (chartStartOf toSSC ct).1 (invChartOf toSSC) beh with
        | ok d => rw [hcp] at hce; cases hce
        | error e' =>
          rw [hcp] at hce
          simp only [Except.error.injEq] at hce
          subst hce
          obtain ⟨kv, _, hh | ⟨_, _, _, hh⟩⟩ := copyProperties_error _ _ _ _ _ _ hcp
          · cases shouldCopy_error _ _ _ _ _ hh
          · cases hh

/-- an SSC source is never refused with a ValueError either (that is the SM source's unparsable BPMS / STOPS) -/
theorem never_valueError (src : AnySimfile) (st : Option AnySimfile) (ct : Option (Dict × Option (List Str)))
    (beh : List (Nat × Nat)) (h : src.isSSC = true) :
    convert src false st ct beh ≠ .error .valueError := by
  intro he
  obtain ⟨_, hp⟩ := (convert_ssc_error_iff src st ct beh h _ (by simp)).mp he
  rcases firstProblem_kind src beh _ hp with ⟨k, hk⟩ | hk <;> cases hk

/-- F17-3, `C17.total` without a domain: on EVERY SSC source, with any templates and behaviours, the conversion
returns a result, or fails with NotImplementedError, InvalidPropertyException (naming the first offending property),
or the bare KeyError of `keyError_iff` — nothing else -/
theorem total (src : AnySimfile) (st : Option AnySimfile) (ct : Option (Dict × Option (List Str)))
    (beh : List (Nat × Nat)) (h : src.isSSC = true) :
    (∃ out, convert src false st ct beh = .ok out) ∨
    convert src false st ct beh = .error .notImplemented ∨
    (∃ k, convert src false st ct beh = .error (.invalidProperty k) ∧ (offendingKeys src beh).head? = some k) ∨
    convert src false st ct beh = .error .keyError := by
  cases hc : convert src false st ct beh with
  | ok out => exact Or.inl ⟨out, rfl⟩
  | error e =>
    right
    by_cases hn : e = .notImplemented
    · exact Or.inl (by rw [hn])
    · right
      obtain ⟨_, hp⟩ := (convert_ssc_error_iff src st ct beh h e hn).mp hc
      rcases firstProblem_kind src beh _ hp with ⟨k, rfl⟩ | rfl
      · exact Or.inl ⟨k, rfl, policy_first_error src st ct beh k hc⟩
      · exact Or.inr rfl

/-- the SSC sources on which KeyError cannot happen: every chart property is one of the six keys or is listed for SM
charts with a behaviour other than COPY_ANYWAY (the old `C17.DomSSC`, now only a sufficient condition) -/
theorem no_keyError_of_dom (src : AnySimfile) (st : Option AnySimfile) (ct : Option (Dict × Option (List Str)))
    (beh : List (Nat × Nat)) (h : C17.DomSSC src beh) :
    convert src false st ct beh ≠ .error .keyError := by
  intro he
  rcases C17.total src st ct beh h with ⟨o, ho⟩ | ho | ⟨k, ho⟩ <;> rw [ho] at he <;> cases he

/-- split-audio chart: MUSIC is a known SSC chart property, not listed for SM charts, not one of the six -/
example : convert ⟨true, [("TITLE".toList, some "x".toList)],
      [([("STEPSTYPE".toList, some "dance-single".toList), ("MUSIC".toList, some "b.ogg".toList)], none)]⟩
    false none none [] = .error .keyError := by decide +kernel
/-- COPY_ANYWAY for TIMING_DATA (kind 5) on a chart-level BPMS -/
example : convert ⟨true, [], [([("BPMS".toList, some "0=120".toList)], none)]⟩ false none none [(5, 1)] =
    .error .keyError := by decide +kernel
/-- an earlier offending simfile property wins over the chart's KeyError; warps win over everything -/
example : convert ⟨true, [("COMBOS".toList, some "0=2".toList)], [([("MUSIC".toList, some "b".toList)], none)]⟩
    false none none [] = .error (.invalidProperty "COMBOS".toList) := by decide +kernel
example : convert ⟨true, [("COMBOS".toList, some "0=2".toList), ("WARPS".toList, some "1=2".toList)],
      [([("MUSIC".toList, some "b".toList)], none)]⟩ false none none [] = .error .notImplemented := by
  decide +kernel
/-- a key-only FAKES under ERROR_UNLESS_DEFAULT used to be the AttributeError -/
example : (convert ⟨true, [("FAKES".toList, none)], []⟩ false none none []).toOption.isSome = true := by
  decide +kernel

/-! ### 5. SM → SSC → SM on the weakest domain (F17-4) -/

/-- `Cv.smHasWarps`: the SM source holds a non-empty WARPS value -/
theorem smHasWarps_iff (sm : AnySimfile) :
    smHasWarps sm ↔ ∃ x xs, (sm.props.get? "WARPS".toList).join = some (x :: xs) := by
  have e : "WARPS".toList = ['W','A','R','P','S'] := by decide
  rw [e]; rfl

/-- with the default behaviours nothing is COPY_ANYWAY: a property is copied back exactly when it is not listed -/
theorem copied_default (k : Str) :
    (copied T.invalidSMSimfile [] k = true ↔ listedIn T.invalidSMSimfile k = none) ∧
    (copied T.invalidSMChart [] k = true ↔ listedIn T.invalidSMChart k = none) :=
  ⟨copied_default_sim k, copied_default_chart k⟩

/-- the SM sources on which the default round trip SUCCEEDS — an iff, so this is the weakest possible domain
(source and chart keys distinct, as in any mapping): `_convert_warps` accepts the BPMs and stops; the WARPS value, if
any, is empty; no SSC-only property of the source is offending under the default behaviours (i.e. each is of an
ignored kind, or of an ERROR_UNLESS_DEFAULT kind with its default value); every chart property is clean. -/
theorem there_and_back_iff (sm : AnySimfile) (hwf : Dict.WF sm.props) (hc : ∀ c ∈ sm.charts, Dict.WF c.1) :
    (∃ ssc sm', convert sm true none none [] = .ok ssc ∧ convert ssc false none none [] = .ok sm') ↔
      convertWarps sm = .ok () ∧ ¬ smHasWarps sm ∧
      (∀ x ∈ sm.props, offending T.invalidSMSimfile [] x = false) ∧
      ∀ c ∈ sm.charts, ∀ x ∈ c.1, ChartClean [] x := by
  rw [round_trip_iff sm hwf hc]
  simp only [itemProblem_false_none_iff, chartClean_iff]

/-- what comes back, whenever the round trip succeeds (no domain hypothesis beyond distinct keys):
* every property that is NOT SSC-only comes back with its value;
* every SSC-only property (listed in `T.invalidSMSimfile`: e.g. TIMESIGNATURES, LABELS, ORIGIN, COMBOS, an empty
  WARPS) is LOST: the result does not have the key;
* the charts come back in number and order, without extradata, each with exactly the six SM keys; every field among
  the six comes back with its value, anything else in a source chart is lost. -/
theorem there_and_back_weak (sm ssc sm' : AnySimfile) (hwf : Dict.WF sm.props) (hc : ∀ c ∈ sm.charts, Dict.WF c.1)
    (h1 : convert sm true none none [] = .ok ssc) (h2 : convert ssc false none none [] = .ok sm') :
    sm'.isSSC = false ∧
    (∀ kv ∈ sm.props, listedIn T.invalidSMSimfile kv.1 = none → sm'.props.get? kv.1 = some kv.2) ∧
    (∀ k e, listedIn T.invalidSMSimfile k = some e → sm'.props.get? k = none) ∧
    ∃ back, sm'.charts = sm.charts.map back ∧
      ∀ c ∈ sm.charts, (back c).2 = none ∧ Dict.keys (back c).1 = T.smChartProperties ∧
        (∀ kv ∈ c.1, kv.1 ∈ T.smChartProperties → (back c).1.get? kv.1 = some kv.2) ∧
        ∀ kv ∈ c.1, kv.1 ∉ T.smChartProperties → (back c).1.get? kv.1 = none := by
  have hiff := (round_trip_iff sm hwf hc).mp ⟨ssc, sm', h1, h2⟩
  obtain ⟨_, rfl⟩ := round_trip_result sm ssc sm' h1 h2
  refine ⟨rfl, fun kv hkv hl => backSim_get_of_not_listed sm hwf kv hkv hl,
    fun k e hl => backSim_get_of_listed sm k e hl, backOf, rfl, fun c hcm => ?_⟩
  have hk := backOf_keys c (hc c hcm) (hiff.2.2.2 c hcm)
  refine ⟨rfl, hk, fun kv hkv hs => backOf_get_of_six c (hc c hcm) kv hkv hs, fun kv _ hs => ?_⟩
  rw [get?_eq_none_iff, hk]; exact hs


/-- the weakest domain of the default round trip (see `there_and_back_iff`) -/
structure DomBackWeak (sm : AnySimfile) : Prop where
  wf : Dict.WF sm.props
  chartsWf : ∀ c ∈ sm.charts, Dict.WF c.1
  warps : convertWarps sm = .ok ()
  noWarpsValue : ¬ smHasWarps sm
  sscOnly : ∀ x ∈ sm.props, offending T.invalidSMSimfile [] x = false
  charts : ∀ c ∈ sm.charts, ∀ x ∈ c.1, ChartClean [] x

/-- F17-4. `C17.there_and_back` on the weakest domain: SM → SSC → SM with default arguments succeeds, gives back every
property that is not SSC-only and every chart field among the six, and drops exactly the SSC-only properties -/
theorem there_and_back (sm : AnySimfile) (h : DomBackWeak sm) :
    ∃ ssc sm', convert sm true none none [] = .ok ssc ∧ convert ssc false none none [] = .ok sm' ∧
      sm'.isSSC = false ∧
      (∀ kv ∈ sm.props, listedIn T.invalidSMSimfile kv.1 = none → sm'.props.get? kv.1 = some kv.2) ∧
      (∀ k e, listedIn T.invalidSMSimfile k = some e → sm'.props.get? k = none) ∧
      ∃ back, sm'.charts = sm.charts.map back ∧
        ∀ c ∈ sm.charts, (back c).2 = none ∧ Dict.keys (back c).1 = T.smChartProperties ∧
          (∀ kv ∈ c.1, kv.1 ∈ T.smChartProperties → (back c).1.get? kv.1 = some kv.2) ∧
          ∀ kv ∈ c.1, kv.1 ∉ T.smChartProperties → (back c).1.get? kv.1 = none := by
  obtain ⟨ssc, sm', h1, h2⟩ := (there_and_back_iff sm h.wf h.chartsWf).mpr ⟨h.warps, h.noWarpsValue, h.sscOnly, h.charts⟩
  exact ⟨ssc, sm', h1, h2, there_and_back_weak sm ssc sm' h.wf h.chartsWf h1 h2⟩

instance (sm : AnySimfile) : Decidable (smHasWarps sm) :=
  match h : (sm.props.get? ['W','A','R','P','S']).join with
  | some (x :: xs) => isTrue ⟨x, xs, h⟩
  | some [] => isFalse (by rintro ⟨x, xs, h'⟩; rw [h] at h'; cases h')
  | none => isFalse (by rintro ⟨x, xs, h'⟩; rw [h] at h'; cases h')

/-- `C17.DomBack` is this domain MINUS: sources holding any key listed as SSC-only (even a harmless one), and charts
holding any key outside the six. On `DomBack` nothing is lost (`C17.there_and_back`). -/
theorem domBack_iff (sm : AnySimfile) :
    C17.DomBack sm ↔
      (sm.isSSC = false ∧ Dict.WF sm.props ∧ (∀ c ∈ sm.charts, Dict.WF c.1) ∧
        convertWarps sm = .ok () ∧ ¬ smHasWarps sm ∧
        (∀ x ∈ sm.props, offending T.invalidSMSimfile [] x = false) ∧
        ∀ c ∈ sm.charts, ∀ x ∈ c.1, ChartClean [] x) ∧
      (∀ k ∈ Dict.keys sm.props, ¬ Listed T.invalidSMSimfile k) ∧
      ∀ c ∈ sm.charts, ∀ k ∈ Dict.keys c.1, k ∈ T.smChartProperties := by
  constructor
  · intro h
    have hnl : ∀ x ∈ sm.props, listedIn T.invalidSMSimfile x.1 = none := by
      intro x hx
      cases hl : listedIn T.invalidSMSimfile x.1 with
      | none => rfl
      | some e =>
        exact absurd ((listedIn_ne_none _ _).mp (by rw [hl]; simp)) (h.noSSCOnly _ (List.mem_map.mpr ⟨x, hx, rfl⟩))
    refine ⟨⟨h.isSM, h.wf, fun c hc => (h.charts c hc).1, h.warps, ?_, fun x hx => ?_, fun c hc x hx => ?_⟩,
      h.noSSCOnly, fun c hc => (h.charts c hc).2⟩
    · rintro ⟨x, xs, hx⟩
      have hk : ['W','A','R','P','S'] ∈ Dict.keys sm.props := by
        apply Classical.byContradiction
        intro hk
        rw [(get?_eq_none_iff _ _).mpr hk] at hx; cases hx
      exact h.noSSCOnly _ hk blank_ssc_warps.2
    · unfold offending; rw [hnl x hx]
    · have hs := (h.charts c hc).2 x.1 (List.mem_map.mpr ⟨x, hx, rfl⟩)
      exact ⟨offending_six [] x hs, fun _ => hs⟩
  · rintro ⟨⟨h1, h2, h3, h4, _⟩, h5, h6⟩
    exact ⟨h1, h2, h5, h4, fun c hc => ⟨h3 c hc, h6 c hc⟩⟩

/-- of the properties an SM simfile knows by name, exactly one is SSC-only — TIMESIGNATURES — and it is of an ignored
kind: the round trip never refuses it, it silently drops it -/
theorem known_sm_properties_lost :
    (T.smSimfileProps.map (·.2.1)).filter (fun k => decide (Listed T.invalidSMSimfile k)) =
      ["TIMESIGNATURES".toList] ∧
    ∀ v, offending T.invalidSMSimfile [] ("TIMESIGNATURES".toList, v) = false := by
  refine ⟨by decide +kernel, fun v => ?_⟩
  unfold offending
  have : listedIn T.invalidSMSimfile "TIMESIGNATURES".toList = some (T.invalidSMSimfile.getD 1 (0, [])) := by
    decide +kernel
  simp only [this]
  have hb : (behaviourOf [] (T.invalidSMSimfile.getD 1 (0, [])).1 != bIGNORE) = false := by decide
  rw [hb]; simp

/-- F17-4 as a closed example: an SM source with TIMESIGNATURES converts there and back, and TIMESIGNATURES is gone
while TITLE is kept -/
def exTS : AnySimfile :=
  ⟨false, [("TITLE".toList, some "t".toList), ("BPMS".toList, some "0=120".toList),
    ("TIMESIGNATURES".toList, some "0=3=4".toList)], [(T.blankSMChart, none)]⟩

theorem timesignatures_lost :
    ((convert exTS true none none []).bind fun ssc =>
      (convert ssc false none none []).map fun sm' =>
        (ssc.props.get? "TIMESIGNATURES".toList, sm'.props.get? "TIMESIGNATURES".toList,
          sm'.props.get? "TITLE".toList)) =
      .ok (some (some "0=3=4".toList), none, some (some "t".toList)) := by decide +kernel


example : DomBackWeak exTS where
  wf := by unfold Dict.WF; decide +kernel
  chartsWf := by unfold Dict.WF; decide +kernel
  warps := by decide +kernel
  noWarpsValue := by decide +kernel
  sscOnly := by decide +kernel
  charts := by decide +kernel
example : ¬ C17.DomBack exTS := fun h => h.noSSCOnly "TIMESIGNATURES".toList (by decide) (by decide)
example : Dict.WF exTS.props ∧ ∀ c ∈ exTS.charts, Dict.WF c.1 := by unfold Dict.WF; decide +kernel
/-- LABELS away from its default is listed with IGNORE as well (METADATA): dropped, not refused; COMBOS away from its
default is refused on the way back -/
example : ((convert ⟨false, [("COMBOS".toList, some "0=2".toList)], []⟩ true none none []).bind fun ssc =>
      convert ssc false none none []) = .error (.invalidProperty "COMBOS".toList) := by decide +kernel

end Simfile.C17More
