/-
C18: the attribute view and the key view of a simfile / chart are two views of one ordered mapping.
Known attributes read and write the standard key, or the alias exactly when the alias is present and the
standard key is not; every operation touches at most one key (`V.effKey`), leaves all other keys, their values
and their order alone; key uniqueness is an invariant; SM charts keep exactly their six keys.
-/
import Simfile.Lemmas.Views
namespace Simfile.C18
open Simfile Simfile.O Simfile.V

/-! ### 6. attribute reads -/

/-- a known attribute reads the standard key, or the alias exactly when the alias is present and the standard
key is not; with neither present it reads `none` -/
theorem attr_reads (k : Kind) (d : Dict) (a key : Str) (alias : Option Str)
    (h : (propsTable k).find? (·.1 = a) = some (a, key, alias)) :
    ((d.contains key = true ∨ alias = none) → attrGet k d a = (d.get? key).join) ∧
    (∀ al, alias = some al → d.contains key = false → d.contains al = true →
      attrGet k d a = (d.get? al).join) ∧
    (d.contains key = false → (∀ al, alias = some al → d.contains al = false) → attrGet k d a = none) := by
  rw [attrGet_of_find k d a key alias h]
  refine ⟨?_, ?_, ?_⟩
  · rintro (hc | rfl)
    · rw [nameOrAlias_key d key alias hc]
    · rfl
  · rintro al rfl hk ha
    rw [nameOrAlias_alias d key al hk ha]
  · intro hk ha
    rw [nameOrAlias_neither d key alias ha, get?_of_contains_false d key hk]; rfl

/-- the key the attribute resolves to, in the same three cases -/
theorem attr_key (k : Kind) (d : Dict) (a key : Str) (alias : Option Str)
    (h : (propsTable k).find? (·.1 = a) = some (a, key, alias)) :
    attrKey k d a = some (match alias with
      | some al => if d.contains key = false ∧ d.contains al = true then al else key
      | none => key) := by
  rw [attrKey_of_find k d a key alias h]
  cases alias with
  | none => rfl
  | some al => simp only [nameOrAlias]; congr 1; by_cases h1 : d.contains key = true <;> simp [h1]

/-- a name that is not in the class's table is not an attribute -/
theorem attr_unknown (k : Kind) (d : Dict) (a : Str) (h : (propsTable k).find? (·.1 = a) = none) (v : Str) :
    vstep k d (.getAttr a) = (d, .attributeError) ∧ vstep k d (.setAttr a v) = (d, .attributeError) ∧
    vstep k d (.delAttr a) = (d, .attributeError) := by
  have : attrKey k d a = none := by unfold attrKey; rw [h]; rfl
  rw [vstep_getAttr, vstep_setAttr, vstep_delAttr, this]; exact ⟨rfl, rfl, rfl⟩

example : attrGet .smSimfile [("FREEZES".toList, some "1=2".toList), ("TITLE".toList, some "x".toList)] "stops".toList
    = some "1=2".toList := by decide
example : attrGet .smSimfile [("FREEZES".toList, some "1=2".toList), ("STOPS".toList, some "".toList)] "stops".toList
    = some "".toList := by decide
example : (propsTable .smSimfile).find? (·.1 = "stops".toList) = some ("stops".toList, "STOPS".toList, some "FREEZES".toList) := by
  decide

/-- the two views agree: reading an attribute is reading its effective key (a valueless key reads `none`) -/
theorem views_agree (k : Kind) (hk : k ≠ .smChart) (d : Dict) (a key : Str) (h : attrKey k d a = some key) :
    vstep k d (.getAttr a) = (d, .value (d.get? key).join) ∧
    (∀ v, d.get? key = some v → vstep k d (.getKey key) = (d, .value v)) ∧
    (d.get? key = none → vstep k d (.getKey key) = (d, .keyError)) := by
  refine ⟨?_, fun v hv => ?_, fun hn => ?_⟩
  · rw [vstep_getAttr, h, attrGet_of_key k d a key h]
  · rw [vstep_getKey, if_neg hk, hv]
  · rw [vstep_getKey, if_neg hk, hn]

example : attrKey .smSimfile [("FREEZES".toList, some "1=2".toList)] "stops".toList = some "FREEZES".toList := by
  decide

/-! ### 7. attribute writes and deletions -/

/-- a successful attribute write acts on exactly the key the attribute resolved to, and is read back -/
theorem set_get (k : Kind) (d d' : Dict) (a v : Str) (h : vstep k d (.setAttr a v) = (d', .done)) :
    ∃ key, attrKey k d a = some key ∧ d' = d.set key (some v) ∧ attrKey k d' a = some key ∧
      attrGet k d' a = some v := by
  rw [vstep_setAttr] at h
  cases hk : attrKey k d a with
  | none => rw [hk] at h; cases h
  | some key =>
    rw [hk] at h
    simp only [] at h
    split at h
    · cases h
    · have hd : d' = d.set key (some v) := (congrArg Prod.fst h).symm
      subst hd
      have hk' := attrKey_set k d a key (some v) hk
      refine ⟨key, rfl, rfl, hk', ?_⟩
      rw [attrGet_of_key k _ a key hk', get?_set_self]; rfl

/-- outside SM charts every known attribute can be written -/
theorem set_succeeds (k : Kind) (hk : k ≠ .smChart) (d : Dict) (a v key : Str) (h : attrKey k d a = some key) :
    vstep k d (.setAttr a v) = (d.set key (some v), .done) := by
  rw [vstep_setAttr, h]
  have : (k = .smChart) = False := by simpa using hk
  simp [this]

example : vstep .smSimfile [("FREEZES".toList, some "1=2".toList), ("TITLE".toList, some "x".toList)]
    (.setAttr "stops".toList "3=4".toList) =
    ([("FREEZES".toList, some "3=4".toList), ("TITLE".toList, some "x".toList)], .done) := by decide

/-- deleting an attribute whose effective key is absent is a KeyError and changes nothing -/
theorem del_absent (k : Kind) (hk : k ≠ .smChart) (d : Dict) (a key : Str) (h : attrKey k d a = some key)
    (hn : d.contains key = false) : vstep k d (.delAttr a) = (d, .keyError) := by
  rw [vstep_delAttr, h]
  simp [hk, hn]

/-- deleting an attribute whose effective key is present erases exactly that key -/
theorem del_present (k : Kind) (hk : k ≠ .smChart) (d : Dict) (a key : Str) (h : attrKey k d a = some key)
    (hn : d.contains key = true) :
    vstep k d (.delAttr a) = (d.erase key, .done) ∧ (d.erase key).get? key = none ∧
      Dict.keys (d.erase key) = (Dict.keys d).filter (fun x => x ≠ key) := by
  refine ⟨?_, get?_erase_self d key, keys_erase d key⟩
  rw [vstep_delAttr, h]
  simp [hk, hn]

example : vstep .smSimfile [("TITLE".toList, some "x".toList)] (.delAttr "stops".toList) =
    ([("TITLE".toList, some "x".toList)], .keyError) := by decide
example : vstep .smSimfile [("FREEZES".toList, some "1=2".toList), ("TITLE".toList, some "x".toList)]
    (.delAttr "stops".toList) = ([("TITLE".toList, some "x".toList)], .done) := by decide

/-! ### 8. one key per operation -/

/-- the effective key of every operation -/
theorem effKey_spec (k : Kind) (d : Dict) :
    (∀ a, effKey k d (.getAttr a) = none) ∧ (∀ a v, effKey k d (.setAttr a v) = attrKey k d a) ∧
    (∀ a, effKey k d (.delAttr a) = attrKey k d a) ∧ (∀ key, effKey k d (.getKey key) = none) ∧
    (∀ key v, effKey k d (.setKey key v) = some key) ∧ (∀ key, effKey k d (.delKey key) = some key) ∧
    (∀ key, effKey k d (.contains key) = none) ∧ effKey k d .items = none ∧
    (∀ key, effKey k d (.pop key) = some key) ∧ effKey k d .popitem = d.getLast?.map (·.1) ∧
    (∀ key v, effKey k d (.update key v) = some key) :=
  ⟨fun _ => rfl, fun _ _ => rfl, fun _ => rfl, fun _ => rfl, fun _ _ => rfl, fun _ => rfl, fun _ => rfl, rfl,
   fun _ => rfl, rfl, fun _ _ => rfl⟩

/-- every key other than the operation's effective key keeps its value (or its absence) -/
theorem other_keys_unaffected (k : Kind) (d : Dict) (op : VOp) (k' : Str) (h : effKey k d op ≠ some k') :
    (vstep k d op).1.get? k' = d.get? k' := vstep_get?_ne k d op k' h

/-- an operation without effective key changes nothing at all -/
theorem no_key_no_change (k : Kind) (d : Dict) (op : VOp) (h : effKey k d op = none) : (vstep k d op).1 = d :=
  vstep_keys_none k d op h

/-- the insertion order of all other keys is preserved -/
theorem order_preserved (k : Kind) (d : Dict) (op : VOp) (key : Str) (h : effKey k d op = some key) :
    (Dict.keys (vstep k d op).1).filter (fun x => x ≠ key) = (Dict.keys d).filter (fun x => x ≠ key) :=
  vstep_keys_filter k d op key h

/-- a successful write (`setAttr`, `setKey`, `update`) stores the value under the effective key: a new key is
appended at the end, an existing key keeps its position -/
theorem set_appends (k : Kind) (d : Dict) (op : VOp) (key v : Str) (hv : written op = some v)
    (hd : (vstep k d op).2 = .done) (he : effKey k d op = some key) :
    (vstep k d op).1 = d.set key (some v) ∧ (vstep k d op).1.get? key = some (some v) ∧
    (key ∉ Dict.keys d → (vstep k d op).1 = d ++ [(key, some v)] ∧ Dict.keys (vstep k d op).1 = Dict.keys d ++ [key]) ∧
    (key ∈ Dict.keys d → Dict.keys (vstep k d op).1 = Dict.keys d) := by
  rw [vstep_written k d op key v hv hd he]
  refine ⟨rfl, get?_set_self _ _ _, fun hn => ?_, fun hm => keys_set_of_mem _ _ _ hm⟩
  rw [set_of_not_mem _ _ _ hn, keys_append]; exact ⟨rfl, rfl⟩

example : vstep .sscSimfile [("TITLE".toList, some "x".toList)] (.setAttr "bgchanges".toList "y".toList) =
    ([("TITLE".toList, some "x".toList), ("BGCHANGES".toList, some "y".toList)], .done) := by decide
example : effKey .sscSimfile [("ANIMATIONS".toList, some "x".toList)] (.setAttr "bgchanges".toList "y".toList) =
    some "ANIMATIONS".toList := by decide

example : effKey .smSimfile [("TITLE".toList, some "x".toList)] (.setKey "ARTIST".toList "y".toList) ≠
    some "TITLE".toList := by decide
example : effKey .smSimfile [("TITLE".toList, some "x".toList), ("ARTIST".toList, none)] .popitem =
    some "ARTIST".toList := by decide
example : written (.setAttr "stops".toList "1=2".toList) = some "1=2".toList ∧
    (vstep .smSimfile [] (.setAttr "stops".toList "1=2".toList)).2 = .done ∧
    effKey .smSimfile [] (.setAttr "stops".toList "1=2".toList) = some "STOPS".toList := by decide

/-! ### 9. key uniqueness is an invariant -/

theorem wf_step (k : Kind) (d : Dict) (op : VOp) (h : Dict.WF d) : Dict.WF (vstep k d op).1 := vstep_WF k d op h

theorem wf_invariant (k : Kind) (d : Dict) (ops : List VOp) (h : Dict.WF d) : Dict.WF (vrun k d ops).1 :=
  vrun_WF k d ops h

example : Dict.WF [("FREEZES".toList, some "1=2".toList), ("TITLE".toList, some "x".toList)] := by
  unfold Dict.WF; decide

/-! ### 10. SM charts -/

/-- an SM chart keeps exactly its six keys, in order, through every history -/
theorem smchart_keys_fixed (d : Dict) (ops : List VOp) (h : Dict.keys d = T.smChartProperties) :
    Dict.keys (vrun .smChart d ops).1 = T.smChartProperties := smChart_vrun_keys d ops h

example : Dict.keys T.blankSMChart = T.smChartProperties := by decide

/-- deleting, popping and `update` are refused on SM charts, leaving the mapping unchanged -/
theorem smchart_not_implemented (d : Dict) :
    (∀ a, attrKey .smChart d a ≠ none → vstep .smChart d (.delAttr a) = (d, .notImplemented)) ∧
    (∀ key, vstep .smChart d (.delKey key) = (d, .notImplemented)) ∧
    (∀ key, vstep .smChart d (.pop key) = (d, .notImplemented)) ∧
    vstep .smChart d .popitem = (d, .notImplemented) ∧
    (∀ key v, vstep .smChart d (.update key v) = (d, .notImplemented)) := by
  refine ⟨fun a ha => ?_, fun _ => rfl, fun _ => rfl, rfl, fun _ _ => rfl⟩
  rw [vstep_delAttr]
  cases h : attrKey .smChart d a with
  | none => exact absurd h ha
  | some key => rfl

/-- a key outside the six cannot be set -/
theorem smchart_setKey_outside (d : Dict) (key v : Str) (h : key ∉ T.smChartProperties) :
    vstep .smChart d (.setKey key v) = (d, .keyError) := by
  rw [vstep_setKey]
  simp [h]

/-- a key write on one of the six is visible through both views -/
theorem smchart_setKey_visible (d : Dict) (key v : Str) (h : key ∈ T.smChartProperties) :
    vstep .smChart d (.setKey key v) = (d.set key (some v), .done) ∧
    vstep .smChart (d.set key (some v)) (.getKey key) = (d.set key (some v), .value (some v)) ∧
    vstep .smChart (d.set key (some v)) (.getAttr (lower key)) = (d.set key (some v), .value (some v)) := by
  have hk := smChart_attrKey_of_mem (d.set key (some v)) key h
  have hg : attrGet .smChart (d.set key (some v)) (lower key) = some v := by
    rw [attrGet_of_key _ _ _ key hk, get?_set_self]; rfl
  refine ⟨?_, ?_, ?_⟩
  · rw [vstep_setKey]; simp [h]
  · rw [vstep_getKey]; simp [h, hg]
  · rw [vstep_getAttr, hk, hg]

/-- an attribute write on an SM chart goes to one of the six keys and is visible through both views -/
theorem smchart_setAttr_visible (d : Dict) (a v key : Str) (h : attrKey .smChart d a = some key) :
    key ∈ T.smChartProperties ∧
    vstep .smChart d (.setAttr a v) = (d.set key (some v), .done) ∧
    vstep .smChart (d.set key (some v)) (.getKey key) = (d.set key (some v), .value (some v)) ∧
    vstep .smChart (d.set key (some v)) (.getAttr a) = (d.set key (some v), .value (some v)) := by
  obtain ⟨_, hl, hm⟩ := smChart_attrKey d a key h
  obtain ⟨_, h2, h3⟩ := smchart_setKey_visible d key v hm
  rw [hl] at h3
  refine ⟨hm, ?_, h2, h3⟩
  rw [vstep_setAttr, h]; simp [hm]

example : attrKey .smChart T.blankSMChart "meter".toList = some "METER".toList := by decide
example : "CREDIT".toList ∉ T.smChartProperties ∧ "METER".toList ∈ T.smChartProperties := by decide
example : vrun .smChart T.blankSMChart [.setKey "CREDIT".toList "me".toList, .setAttr "meter".toList "9".toList,
      .delKey "METER".toList, .getKey "METER".toList, .getAttr "meter".toList] =
    (Dict.set T.blankSMChart "METER".toList (some "9".toList),
     [.keyError, .done, .notImplemented, .value (some "9".toList), .value (some "9".toList)]) := by decide +kernel

/-! ### 11. the aliases, read off the generated tables -/

theorem aliases_sm : T.smSimfileProps.filter (fun e => e.2.2.isSome) =
    [("stops".toList, "STOPS".toList, some "FREEZES".toList),
     ("bgchanges".toList, "BGCHANGES".toList, some "ANIMATIONS".toList)] := by decide

theorem aliases_ssc : T.sscSimfileProps.filter (fun e => e.2.2.isSome) =
    [("bgchanges".toList, "BGCHANGES".toList, some "ANIMATIONS".toList)] := by decide

theorem aliases_ssc_chart : T.sscChartProps.filter (fun e => e.2.2.isSome) =
    [("notes".toList, "NOTES".toList, some "NOTES2".toList)] := by decide

theorem no_alias_sm_chart : T.smChartProps.filter (fun e => e.2.2.isSome) = [] := by decide

/-- attribute names are unique within each table, so `find?` by attribute reaches every entry -/
theorem attrs_unique (k : Kind) : ((propsTable k).map (·.1)).Nodup := by
  cases k <;> decide +kernel

end Simfile.C18
