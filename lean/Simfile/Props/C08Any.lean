/-
C08 clause 7 for ARBITRARY text (audit part D, C08-F3): whatever text `NoteData` accepts, its notes
are in the encoder's domain, so decoding and re-encoding is stable after the first pass. No
`Spec.render`, no `Spec.WF`, no `firstLineOk`, and no side condition at all when the column count is
the one the constructor computes (`decode`).
-/
import Simfile.Props.C08
import Simfile.Props.C07Any
import Simfile.Lemmas.NotesAnyColumns
namespace Simfile.C08Any
open Simfile

/-- `decode` is `getColumns` followed by `decodeWith` -/
theorem decode_ok_iff (t : Str) (cols : Nat) (ns : List Note) :
    decode t = .ok (cols, ns) ↔ getColumns t = .ok cols ∧ decodeWith cols t = .ok ns := by
  unfold decode
  cases hc : getColumns t with
  | error e =>
    simp only [bind, Except.bind]
    constructor
    · intro h; cases h
    · rintro ⟨h, _⟩; cases h
  | ok c =>
    simp only [bind, Except.bind, pure, Except.pure]
    cases hd : decodeWith c t with
    | error e =>
      simp only
      constructor
      · intro h; cases h
      · rintro ⟨h, h'⟩; cases h; rw [hd] at h'; cases h'
    | ok ns' =>
      simp only
      constructor
      · intro h; cases h; exact ⟨rfl, hd⟩
      · rintro ⟨h, h'⟩; cases h; rw [hd] at h'; cases h'; rfl

/-- the column count the constructor computes for an accepted text is never 0 (a first line made of
keysound brackets only gives 0 columns, but then `__iter__` raises on that very line) -/
theorem columns_pos (t : Str) (cols : Nat) (ns : List Note) (h : decode t = .ok (cols, ns)) : 1 ≤ cols := by
  obtain ⟨hc, hd⟩ := (decode_ok_iff t cols ns).mp h
  exact Any.columns_pos_of_decode hc hd

/-- every successful `decodeWith` (any text, any positive column count) yields a stream in the
encoder's domain; `Nodup` of the positions follows from strict sortedness -/
theorem decodeWith_ok_is_stream (cols : Nat) (t : Str) (ns : List Note) (hpos : 1 ≤ cols)
    (h : decodeWith cols t = .ok ns) : C08.Stream ns cols := by
  obtain ⟨hs, hb⟩ := C07Any.decodeWith_ok_stream cols t ns h
  exact ⟨hpos, Spec.keyLe_of_keyLt hs, Spec.nodup_of_keyLt hs, fun n hn => (hb n hn).1,
    fun n hn => (hb n hn).2.1, fun n hn => (hb n hn).2.2⟩

/-- every text that `NoteData(text)` accepts denotes a stream in the encoder's domain — no side
condition -/
theorem decode_ok_is_stream (t : Str) (cols : Nat) (ns : List Note) (h : decode t = .ok (cols, ns)) :
    C08.Stream ns cols :=
  decodeWith_ok_is_stream cols t ns (columns_pos t cols ns h) ((decode_ok_iff t cols ns).mp h).2

/-- C08 clause 7 for every accepted text: the text `t₁` written from the decoded notes reads back as
the same column count and the same notes, and re-encoding it gives `t₁` again. No side condition. -/
theorem decode_reencode_stable_any (t : Str) (cols : Nat) (ns : List Note) (h : decode t = .ok (cols, ns)) :
    ∃ t₁, encode ns cols = .ok t₁ ∧ decode t₁ = .ok (cols, ns) ∧
      (decode t₁).bind (fun r => encode r.2 r.1) = .ok t₁ := by
  have hs := decode_ok_is_stream t cols ns h
  obtain ⟨c', h1, _⟩ := C08.encode_well_formed _ _ hs
  have h2 := C08.decode_encode_columns _ _ hs
  rw [h1] at h2
  simp only [Except.bind] at h2
  exact ⟨Spec.render c', h1, h2, by rw [h2]; exact h1⟩

/-- the same in the form of C08 `decode_reencode_stable`, with an arbitrary accepted text in place of
`Spec.render c` -/
theorem decode_reencode_stable_any' (t : Str) (hok : ∃ r, decode t = .ok r) :
    ∃ t₁, (decode t).bind (fun r => encode r.2 r.1) = .ok t₁ ∧
      (decode t₁).bind (fun r => encode r.2 r.1) = .ok t₁ := by
  obtain ⟨⟨cols, ns⟩, h⟩ := hok
  obtain ⟨t₁, h1, _, h3⟩ := decode_reencode_stable_any t cols ns h
  exact ⟨t₁, by rw [h]; exact h1, h3⟩

/-- with an explicitly given column count (`decodeWith`), the only side condition left is `1 ≤ cols` -/
theorem decodeWith_reencode_stable_any (cols : Nat) (t : Str) (ns : List Note) (hpos : 1 ≤ cols)
    (h : decodeWith cols t = .ok ns) :
    ∃ t₁, encode ns cols = .ok t₁ ∧ decodeWith cols t₁ = .ok ns ∧ decode t₁ = .ok (cols, ns) ∧
      (decodeWith cols t₁).bind (fun ns' => encode ns' cols) = .ok t₁ := by
  have hs := decodeWith_ok_is_stream cols t ns hpos h
  obtain ⟨t₁, h1, h4⟩ := C08.reencode_stable ns cols hs
  have h2 := C08.decode_encode ns cols hs
  have h3 := C08.decode_encode_columns ns cols hs
  rw [h1] at h2 h3
  exact ⟨t₁, h1, h2, h3, h4⟩

/-- `1 ≤ cols` cannot be dropped there: with 0 columns the text "0" decodes (to no notes), but what the
encoder writes for it has no first line to count columns on -/
example : decodeWith 0 ['0'] = .ok [] ∧ encode [] 0 = .ok ['\n', '\n', '\n', '\n'] ∧
    decode ['\n', '\n', '\n', '\n'] = .error .indexError := by decide +kernel

/-- the encoder is injective on streams (one-liner from `decode_encode`) -/
theorem encode_inj (ns ns' : List Note) (cols : Nat) (h : C08.Stream ns cols) (h' : C08.Stream ns' cols)
    (e : encode ns cols = encode ns' cols) : ns = ns' := by
  have h1 := C08.decode_encode ns cols h
  have h2 := C08.decode_encode ns' cols h'
  rw [e, h2] at h1
  cases h1; rfl

/-- hence two accepted texts with the same column count re-encode to the same text iff they denote
the same notes -/
theorem reencode_eq_iff (t t' : Str) (cols : Nat) (ns ns' : List Note)
    (h : decode t = .ok (cols, ns)) (h' : decode t' = .ok (cols, ns')) :
    encode ns cols = encode ns' cols ↔ ns = ns' :=
  ⟨encode_inj ns ns' cols (decode_ok_is_stream t cols ns h) (decode_ok_is_stream t' cols ns' h'),
    fun e => by rw [e]⟩

/-! ### non-vacuity: texts outside `Spec.WF` / `firstLineOk` -/

/-- ragged rows, an empty measure, a blank line, CR line ends, a keysound -/
example : decode "1000\r01\r,\n,00M0\n\n2[5]\n".toList =
    .ok (4, [⟨0, 0, '1', 0, none⟩, ⟨2, 1, '1', 0, none⟩, ⟨8, 2, 'M', 0, none⟩, ⟨32/3, 0, '2', 0, some 5⟩]) := by
  decide +kernel

/-- the first line runs into the '&' (`firstLineOk` fails, 5 columns are reported): still stable -/
example : decode "10&01\n".toList = .ok (5, [⟨0, 0, '1', 0, none⟩, ⟨0, 1, '1', 1, none⟩]) := by
  decide +kernel

example : ∃ t₁, (decode "10&01\n".toList).bind (fun r => encode r.2 r.1) = .ok t₁ ∧
    (decode t₁).bind (fun r => encode r.2 r.1) = .ok t₁ :=
  decode_reencode_stable_any' _ ⟨(5, [⟨0, 0, '1', 0, none⟩, ⟨0, 1, '1', 1, none⟩]), by decide +kernel⟩

end Simfile.C08Any
