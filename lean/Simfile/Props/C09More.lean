/-
C09, round 2 (closing the findings of /tmp/audit/part_E.md, C09 section):
 F1  the same-beat clause stated about inputs and outputs of the rows phase, without its helpers
     (`rows_keep_separate`, `rows_join_all`, `rows_join_all_unique`, `rows_join_all_sorted`,
     `rows_join_by_type`, `rows_join_by_type_sorted`, `rows_join_by_type_formula`);
 F2  streams with repeated notes: a theorem for EVERY stream (`join_any_stream`, `group_any_stream`,
     `group_no_internal_any_stream`, `group_error_iff`, `count_holds_any_stream`) and the exact
     refinement under the weaker hypothesis `HeadsOK` (`group_refines_spec_weak` and corollaries);
 F3/F4  counting under every same-beat mode and minimum, jumps and hands (`count_steps_*`,
     `count_jumps_spec`, `count_hands_spec`, `count_jumps_hands_default`);
 F6  holds / rolls class by class and on well-formed charts (`holds_decomp`, `holds_decomp_heads`,
     `holds_wellformed`, `holds_wellformed_single`, `holds_wellformed_filtered`).
Property theorems only; helper lemmas live in Simfile/Lemmas/GroupMore*.lean; the NEW model
definitions for the `count_jumps` / `count_hands` / `count_holds` / `count_rolls` wrappers are in
Simfile/Lemmas/CountMore.lean (differential tie pending).
-/
import Simfile.Props.C09
import Simfile.Lemmas.GroupMoreCount
import Simfile.Lemmas.CountMore
import Simfile.Lemmas.GroupMoreWF
import Simfile.Lemmas.GroupMoreW3
import Simfile.Lemmas.GroupMoreStream
namespace Simfile.C09More
open Simfile Simfile.GroupMore Simfile.CountMore Simfile.JoinW

/-! ### the same-beat clause

`rows mode items` is the last phase of `group_notes` (`groupby(beat)` then `add_row`), applied to the
stream `items` that the earlier phases hand over (`joinedStream`: the included notes, joined or not). -/

/-- `group_notes` is its rows phase applied to the (filtered, possibly joined) stream; an exception
of the join phase is passed on -/
theorem group_is_rows (o : GOpts) (ns : List Note) :
    groupNotes o ns = (joinedStream o ns).map (rows o.sameBeat) :=
  groupNotes_rows o ns

/-- without joining, the stream handed to the rows phase is the included notes in stream order -/
theorem stream_join_off (o : GOpts) (ns : List Note) (h : o.join = false) :
    joinedStream o ns = .ok ((ns.filter fun n => o.incl.contains n.ntype).map .plain) := by
  simp [joinedStream, h]

/-- `group_notes` as specification stream + rows phase: under `HeadsOK` (see below; in particular for
pairwise distinct notes, or whenever orphaned heads are not kept) the groups are the rows phase applied
to the SPECIFICATION's stream (`specStream`: included notes, neighbour-classified and joined if asked) -/
theorem group_is_rows_of_spec (o : GOpts) (ns : List Note) (hk : HeadsOK o ns) :
    groupNotes o ns = (specStream o ns).map (rows o.sameBeat) := by
  rw [group_is_rows, joinedStream_eq_spec o ns hk]

/-- the hypothesis "non-decreasing beats" of the `_sorted` theorems below is met by the stream handed
to the rows phase whenever the note stream has non-decreasing beats (joining keeps every emitted item
at the position and beat of its head) -/
theorem stream_sorted (o : GOpts) (ns : List Note) (hs : (ns.map (·.beat)).Pairwise (· ≤ ·))
    (items : List GNote) (h : specStream o ns = .ok items) : (items.map GNote.beat).Pairwise (· ≤ ·) :=
  hs.sublist (specStream_beats o ns items h)

/-- KEEP_SEPARATE (any stream, beats in any order): every item is a group of its own, in stream order -/
theorem rows_keep_separate (items : List GNote) :
    rows .keepSeparate items = items.map fun x => [x] :=
  Runs.keepSeparate_rows items

/-- JOIN_ALL (any stream, beats in any order): the groups concatenated are the stream, no group is
empty, the members of a group share one beat, and neighbouring groups have different beats
(the groups are the maximal runs of equal beat) -/
theorem rows_join_all (items : List GNote) :
    let G := rows .joinAll items
    G.flatten = items ∧ (∀ g ∈ G, g ≠ []) ∧ (∀ g ∈ G, ∀ x ∈ g, ∀ y ∈ g, x.beat = y.beat) ∧
    (∀ (i : Nat) (h : i + 1 < G.length), ∀ x ∈ G[i]'(Nat.lt_of_succ_lt h), ∀ y ∈ G[i + 1]'h, x.beat ≠ y.beat) :=
  ⟨rows_joinAll_flatten items, rows_joinAll_ne_nil items, rows_joinAll_beat items,
    fun i h => (rows_joinAll_adj items).getElem i h⟩

/-- JOIN_ALL: the four conditions of `rows_join_all` determine the output — any grouping `G` of the
stream that meets them is the one `group_notes` produces -/
theorem rows_join_all_unique (items : List GNote) (G : List (List GNote)) (hflat : G.flatten = items)
    (hne : ∀ g ∈ G, g ≠ []) (hbeat : ∀ g ∈ G, ∀ x ∈ g, ∀ y ∈ g, x.beat = y.beat)
    (hadj : ∀ (i : Nat) (h : i + 1 < G.length), ∀ x ∈ G[i]'(Nat.lt_of_succ_lt h), ∀ y ∈ G[i + 1]'h,
      x.beat ≠ y.beat) :
    rows .joinAll items = G := by
  rw [← hflat]
  exact rows_joinAll_unique G hne hbeat (Adj.of_getElem hadj)

/-- JOIN_ALL on a stream with non-decreasing beats: one group per distinct beat, in order of first
occurrence, holding all items of that beat in stream order; group beats strictly increase -/
theorem rows_join_all_sorted (items : List GNote) (hs : (items.map GNote.beat).Pairwise (· ≤ ·)) :
    rows .joinAll items = ((items.map GNote.beat).eraseDups.map fun b => items.filter fun x => x.beat = b) ∧
    (rows .joinAll items).Pairwise (fun g g' => ∀ x ∈ g, ∀ y ∈ g', x.beat < y.beat) :=
  ⟨rows_joinAll_sorted items hs, rows_joinAll_strict items hs⟩

/-- JOIN_BY_NOTE_TYPE (any stream, beats in any order): the groups concatenated are a rearrangement
of the stream; no group is empty; the members of a group share beat and note type; every group keeps
stream order (is a subsequence of the stream); groups are emitted in the order in which their first
members occur (the first members, in group order, are a subsequence of the stream) -/
theorem rows_join_by_type (items : List GNote) :
    let G := rows .joinByType items
    G.flatten.Perm items ∧ (∀ g ∈ G, g ≠ []) ∧
    (∀ g ∈ G, ∀ x ∈ g, ∀ y ∈ g, x.beat = y.beat ∧ x.ntype = y.ntype) ∧
    (∀ g ∈ G, g.Sublist items) ∧ (G.filterMap List.head?).Sublist items :=
  ⟨rows_byType_perm items, rows_byType_ne_nil items, rows_byType_const items, rows_byType_sublist items,
    rows_byType_firsts items⟩

/-- JOIN_BY_NOTE_TYPE on a stream with non-decreasing beats: group beats are non-decreasing, two
groups of one beat carry different note types, and every group is the complete class of its beat and
note type -/
theorem rows_join_by_type_sorted (items : List GNote) (hs : (items.map GNote.beat).Pairwise (· ≤ ·)) :
    let G := rows .joinByType items
    G.Pairwise (fun g g' => ∀ x ∈ g, ∀ y ∈ g', x.beat ≤ y.beat ∧ (x.beat = y.beat → x.ntype ≠ y.ntype)) ∧
    (∀ g ∈ G, ∀ x ∈ g, g = items.filter fun y => y.beat = x.beat ∧ y.ntype = x.ntype) :=
  ⟨rows_byType_order items hs, rows_byType_complete items hs⟩

/-- JOIN_BY_NOTE_TYPE on a stream with non-decreasing beats, as a closed formula: beat by beat
(distinct beats in order), type by type (distinct types of that beat in order of first occurrence),
all items of that beat and type in stream order -/
theorem rows_join_by_type_formula (items : List GNote) (hs : (items.map GNote.beat).Pairwise (· ≤ ·)) :
    rows .joinByType items =
      (items.map GNote.beat).eraseDups.flatMap fun b =>
        ((items.filter fun x => x.beat = b).map GNote.ntype).eraseDups.map fun t =>
          items.filter fun x => x.beat = b ∧ x.ntype = t :=
  rows_byType_sorted items hs

/-! ### counting steps, jumps and hands under every mode

`count_steps` admits every `same_beat_notes` value and every integer `same_beat_minimum`, never joins
heads to tails (so it cannot raise), and filters by `include_note_types`. -/

/-- KEEP_SEPARATE: every included note is a group of one, so all of them count for a minimum ≤ 1
and none for a larger minimum (any stream) -/
theorem count_steps_keep_separate (ns : List Note) (incl : List Char) (k : Nat) :
    countSteps ns incl .keepSeparate k =
      .ok (if k ≤ 1 then (ns.filter fun n => incl.contains n.ntype).length else 0) := by
  unfold countSteps
  rw [C09.rows_join_off _ ns rfl]
  simp only [bind, Except.bind, pure, Except.pure]
  rw [← rows_eq, rows_keep_separate, countGrouped_singletons_ge, List.length_map]

/-- JOIN_ALL (restated from round 1 for completeness): beats with at least `k` included notes -/
theorem count_steps_join_all (ns : List Note) (incl : List Char) (k : Nat)
    (hs : (ns.map (·.beat)).Pairwise (· ≤ ·)) :
    countSteps ns incl .joinAll k = .ok (Spec.beatsWithAtLeast ns incl k) :=
  C09.count_steps_spec ns incl k hs

/-- JOIN_BY_NOTE_TYPE on a stream with non-decreasing beats: the number of (beat, note type) pairs
carrying at least `k` included notes -/
theorem count_steps_join_by_type (ns : List Note) (incl : List Char) (k : Nat)
    (hs : (ns.map (·.beat)).Pairwise (· ≤ ·)) :
    countSteps ns incl .joinByType k = .ok (classesWithAtLeast ns incl k) := by
  unfold countSteps classesWithAtLeast
  rw [C09.rows_join_off _ ns rfl]
  simp only [bind, Except.bind, pure, Except.pure]
  rw [← rows_eq, countGrouped_byType_notes]
  exact List.Pairwise.sublist (List.Sublist.map _ List.filter_sublist) hs

/-- `count_steps` never raises (it does not join heads to tails) -/
theorem count_steps_total (ns : List Note) (incl : List Char) (mode : SameBeat) (k : Nat) :
    ∃ c, countSteps ns incl mode k = .ok c := by
  unfold countSteps
  rw [C09.rows_join_off _ ns rfl]
  exact ⟨_, rfl⟩

/-- `count_jumps` (minimum fixed at 2) under the three modes -/
theorem count_jumps_spec (ns : List Note) (incl : List Char) (hs : (ns.map (·.beat)).Pairwise (· ≤ ·)) :
    countJumps ns incl .joinAll = .ok (Spec.beatsWithAtLeast ns incl 2) ∧
    countJumps ns incl .joinByType = .ok (classesWithAtLeast ns incl 2) ∧
    countJumps ns incl .keepSeparate = .ok 0 :=
  ⟨count_steps_join_all ns incl 2 hs, count_steps_join_by_type ns incl 2 hs, by
    unfold countJumps; rw [count_steps_keep_separate]; rfl⟩

/-- `count_hands` (minimum a parameter, default 3) under the three modes -/
theorem count_hands_spec (ns : List Note) (incl : List Char) (k : Nat)
    (hs : (ns.map (·.beat)).Pairwise (· ≤ ·)) :
    countHands ns incl .joinAll k = .ok (Spec.beatsWithAtLeast ns incl k) ∧
    countHands ns incl .joinByType k = .ok (classesWithAtLeast ns incl k) ∧
    countHands ns incl .keepSeparate k =
      .ok (if k ≤ 1 then (ns.filter fun n => incl.contains n.ntype).length else 0) :=
  ⟨count_steps_join_all ns incl k hs, count_steps_join_by_type ns incl k hs,
    count_steps_keep_separate ns incl k⟩

/-- the defaults: jumps / hands are the beats carrying at least 2 / 3 taps, hold heads, roll heads
or lifts -/
theorem count_jumps_hands_default (ns : List Note) (hs : (ns.map (·.beat)).Pairwise (· ≤ ·)) :
    countJumps ns = .ok (Spec.beatsWithAtLeast ns ['1', '2', '4', 'L'] 2) ∧
    countHands ns = .ok (Spec.beatsWithAtLeast ns ['1', '2', '4', 'L'] 3) := by
  rw [← C09.default_note_types]
  exact ⟨count_steps_join_all ns _ 2 hs, count_steps_join_all ns _ 3 hs⟩


/-! ### every stream (the same note may occur several times)

Round 1 proved `group_notes = specification` for streams of pairwise distinct notes, and showed by an
example that the equality fails when a head occurs twice. What holds for EVERY stream: the same
exception, and the same items up to their order. -/

/-- the join phase on ANY stream: either it and its specification both raise the orphan exception, or
both succeed and emit the same items with the same multiplicities (possibly in another order) -/
theorem join_any_stream (o : GOpts) (F : List Note) :
    (joinHeadsToTails o F = .error .orphaned ∧ Spec.joinSpec o F = .error .orphaned) ∨
    (∃ a b, joinHeadsToTails o F = .ok a ∧ Spec.joinSpec o F = .ok b ∧ a.Perm b) :=
  JoinAny.join_perm_spec o F

/-- `group_notes` on ANY stream and any options: the specification's exception, or groups holding the
specification's items up to order (group by group the same multiset under KEEP_SEPARATE) -/
theorem group_any_stream (o : GOpts) (ns : List Note) :
    (groupNotes o ns = .error .orphaned ∧ Spec.groupSpec o ns = .error .orphaned) ∨
    (∃ g g', groupNotes o ns = .ok g ∧ Spec.groupSpec o ns = .ok g' ∧ g.flatten.Perm g'.flatten ∧
      (o.sameBeat = .keepSeparate → g.Perm g')) :=
  GroupMore.group_any_stream o ns

/-- `group_notes` never fails internally (`IndexError` of `flush_until_held_note`, `ValueError` of
`buffer.index` / `buffer.remove`), whatever the stream -/
theorem group_no_internal_any_stream (o : GOpts) (ns : List Note) : groupNotes o ns ≠ .error .internal := by
  rcases GroupMore.group_any_stream o ns with ⟨e, _⟩ | ⟨g, _, e, _⟩ <;> rw [e] <;> intro h <;> cases h

/-- on ANY stream `group_notes` raises exactly when its specification does, with the same exception -/
theorem group_error_iff (o : GOpts) (ns : List Note) (e : GErr) :
    groupNotes o ns = .error e ↔ Spec.groupSpec o ns = .error e := by
  rcases GroupMore.group_any_stream o ns with ⟨e1, e2⟩ | ⟨g, g', e1, e2, _⟩ <;> rw [e1, e2]
  constructor <;> intro h <;> cases h


/-! ### the exact refinement under a weaker hypothesis than `Nodup`

`HeadsOK o F` : if `orphaned_head = KEEP_ORPHAN`, no hold/roll head occurs twice in `F`. Nothing is
required under RAISE / DROP, and repeated taps, mines, lifts, tails never matter. The hypothesis cannot
simply be dropped (last example of Props/C09.lean: policy KEEP, the head `h0` twice), but it is not
necessary either (`[h0, t0, h0, t0]` under KEEP is fine, see the examples below). -/

/-- the join phase computes its specification exactly — same items, same order, same exception —
whenever `HeadsOK o F` -/
theorem join_refines_spec_weak (o : GOpts) (F : List Note) (h : HeadsOK o F) :
    joinHeadsToTails o F = Spec.joinSpec o F :=
  JoinW.join_refines_spec o F h

/-- `group_notes` = specification for every option combination, whenever `HeadsOK o ns` -/
theorem group_refines_spec_weak (o : GOpts) (ns : List Note) (h : HeadsOK o ns) :
    groupNotes o ns = Spec.groupSpec o ns := by
  unfold groupNotes Spec.groupSpec
  cases hj : o.join with
  | false => rfl
  | true =>
    simp only [if_true]
    rw [JoinW.join_refines_spec o _ (fun hk =>
      List.Nodup.sublist (List.filter_sublist.filter _) (h hk))]

/-- unless orphaned heads are kept, `group_notes` = specification on EVERY stream -/
theorem group_refines_spec_not_keep (o : GOpts) (ns : List Note) (h : o.orphanHead ≠ .keep) :
    groupNotes o ns = Spec.groupSpec o ns :=
  group_refines_spec_weak o ns (fun hk => absurd hk h)

/-- under every policy, `group_notes` = specification on every stream whose hold/roll heads are
pairwise distinct; round 1's hypothesis (all notes pairwise distinct) is a special case -/
theorem group_refines_spec_heads (o : GOpts) (ns : List Note)
    (h : (ns.filter fun n => isHead n.ntype).Nodup) : groupNotes o ns = Spec.groupSpec o ns :=
  group_refines_spec_weak o ns (fun _ => h)

theorem headsOK_of_nodup (o : GOpts) (ns : List Note) (h : ns.Nodup) : HeadsOK o ns :=
  fun _ => List.Nodup.sublist List.filter_sublist h

/-! ### counting holds and rolls -/

/-- holds / rolls are counted as the items the join specification emits for {head type, TAIL} — for
EVERY stream (round 1 needed pairwise distinct notes) -/
theorem count_holds_any_stream (ns : List Note) (head : Char) (oh ot : Orphan) :
    countHoldsOrRolls ns head oh ot = Spec.holdsSpec ns head oh ot :=
  count_holds_any ns head oh ot

/-- the count, class by class. With `cs` the neighbour classification (`Spec.classifyAll`) of the notes
of type `head` or TAIL: an orphan exception if a RAISE policy meets an orphan of its kind; otherwise
the joined pairs (once each) plus the kept orphan heads plus the kept orphan tails — dropped orphans and
consumed tails do not count. (`nPlain` counts notes that are neither heads nor tails; it is 0 for
`count_holds` / `count_rolls`, see `holds_decomp_heads`.) -/
theorem holds_decomp (ns : List Note) (head : Char) (oh ot : Orphan) :
    countHoldsOrRolls ns head oh ot =
      let cs := Spec.classifyAll [] (ns.filter fun n => [head, cTAIL].contains n.ntype)
      if (oh = .raise ∧ 0 < nOrphanHead cs) ∨ (ot = .raise ∧ 0 < nOrphanTail cs) then .error .orphaned
      else .ok (nJoined cs + nPlain cs + (if oh = .keep then nOrphanHead cs else 0) +
        (if ot = .keep then nOrphanTail cs else 0)) := by
  rw [count_holds_any, holdsSpec_eq, joinSpec_length]

/-- `count_holds` and `count_rolls`, class by class: joined pairs + kept orphan heads + kept orphan tails -/
theorem holds_decomp_heads (ns : List Note) (oh ot : Orphan) :
    (let cs := Spec.classifyAll [] (ns.filter fun n => [cHOLD, cTAIL].contains n.ntype)
     countHolds ns oh ot =
      if (oh = .raise ∧ 0 < nOrphanHead cs) ∨ (ot = .raise ∧ 0 < nOrphanTail cs) then .error .orphaned
      else .ok (nJoined cs + (if oh = .keep then nOrphanHead cs else 0) +
        (if ot = .keep then nOrphanTail cs else 0))) ∧
    (let cs := Spec.classifyAll [] (ns.filter fun n => [cROLL, cTAIL].contains n.ntype)
     countRolls ns oh ot =
      if (oh = .raise ∧ 0 < nOrphanHead cs) ∨ (ot = .raise ∧ 0 < nOrphanTail cs) then .error .orphaned
      else .ok (nJoined cs + (if oh = .keep then nOrphanHead cs else 0) +
        (if ot = .keep then nOrphanTail cs else 0))) := by
  constructor
  · have h0 := nPlain_zero cHOLD (by decide) (ns.filter fun n => [cHOLD, cTAIL].contains n.ntype) []
      (fun n hn => (List.mem_filter.mp hn).2)
    simp only [countHolds, holds_decomp, h0, Nat.add_zero]
  · have h0 := nPlain_zero cROLL (by decide) (ns.filter fun n => [cROLL, cTAIL].contains n.ntype) []
      (fun n hn => (List.mem_filter.mp hn).2)
    simp only [countRolls, holds_decomp, h0, Nat.add_zero]

/-- WELL-FORMED CHART (`WellFormed ns`: in every column the hold heads, roll heads and tails come as
head, tail, head, tail, …, other note types ignored). `count_holds` filters by {HOLD_HEAD, TAIL} BEFORE
joining, so the tail of every roll loses its head and is an orphan tail for `count_holds` (and the
tail of every hold for `count_rolls`). Hence, whatever `orphaned_head` is:
* `orphaned_tail = RAISE` (the default): the number of hold heads if the chart has no roll, and
  `OrphanedNoteException` if it has one;
* `KEEP`: the number of hold heads PLUS the number of roll heads;
* `DROP`: the number of hold heads.
Symmetrically for `count_rolls`. -/
theorem holds_wellformed (ns : List Note) (hw : WellFormed ns) (oh ot : Orphan) :
    let holds := ns.countP fun n => n.ntype = cHOLD
    let rolls := ns.countP fun n => n.ntype = cROLL
    countHolds ns oh ot =
      (if ot = .raise ∧ 0 < rolls then .error .orphaned
       else .ok (holds + if ot = .keep then rolls else 0)) ∧
    countRolls ns oh ot =
      (if ot = .raise ∧ 0 < holds then .error .orphaned
       else .ok (rolls + if ot = .keep then holds else 0)) := by
  constructor
  · have := holdsSpec_wellformed ns cHOLD (by decide) hw oh ot
    rw [show otherHead cHOLD = (fun n => decide (n.ntype = cROLL)) from funext otherHead_hold] at this
    simp only [countHolds, count_holds_any, this]
  · have := holdsSpec_wellformed ns cROLL (by decide) hw oh ot
    rw [show otherHead cROLL = (fun n => decide (n.ntype = cHOLD)) from funext otherHead_roll] at this
    simp only [countRolls, count_holds_any, this]

/-- the corollary one expects: on a well-formed chart without rolls, `count_holds` is the number of
hold heads under every policy (no exception); likewise `count_rolls` on a chart without holds -/
theorem holds_wellformed_single (ns : List Note) (hw : WellFormed ns) (oh ot : Orphan) :
    ((∀ n ∈ ns, n.ntype ≠ cROLL) → countHolds ns oh ot = .ok (ns.countP fun n => n.ntype = cHOLD)) ∧
    ((∀ n ∈ ns, n.ntype ≠ cHOLD) → countRolls ns oh ot = .ok (ns.countP fun n => n.ntype = cROLL)) := by
  obtain ⟨h1, h2⟩ := holds_wellformed ns hw oh ot
  constructor
  · intro h
    have h0 : ns.countP (fun n => n.ntype = cROLL) = 0 :=
      List.countP_eq_zero.mpr fun n hn => by simpa using h n hn
    rw [h1]; simp [h0]
  · intro h
    have h0 : ns.countP (fun n => n.ntype = cHOLD) = 0 :=
      List.countP_eq_zero.mpr fun n hn => by simpa using h n hn
    rw [h2]; simp [h0]

/-- it is enough that the heads of the counted type and the tails alternate (the chart may contain
anything else except tails of the other head type): the count is the number of heads of that type -/
theorem holds_wellformed_filtered (ns : List Note) (head : Char) (hh : isHead head = true)
    (hw : WellFormed (ns.filter fun n => [head, cTAIL].contains n.ntype)) (oh ot : Orphan) :
    countHoldsOrRolls ns head oh ot = .ok (ns.countP fun n => n.ntype = head) := by
  rw [count_holds_any, holdsSpec_wellformed_filtered ns head hh hw]


/-! ### non-vacuity: concrete inputs meeting the hypotheses, and what the theorems say about them -/

private def nt (b : Rat) (c : Nat) (t : Char) : Note := { beat := b, column := c, ntype := t }
private def pl (b : Rat) (c : Nat) (t : Char) : GNote := .plain (nt b c t)

/-- beat 0: tap, joined hold, tap; beat 1: mine, tap, mine -/
private def exItems : List GNote :=
  [pl 0 0 cTAP, .withTail (nt 0 1 cHOLD) 2, pl 0 2 cTAP, pl 1 3 cMINE, pl 1 0 cTAP, pl 1 2 cMINE]

example : (exItems.map GNote.beat).Pairwise (· ≤ ·) := by decide +kernel
example : rows .joinAll exItems =
    [[pl 0 0 cTAP, .withTail (nt 0 1 cHOLD) 2, pl 0 2 cTAP], [pl 1 3 cMINE, pl 1 0 cTAP, pl 1 2 cMINE]] := by
  decide +kernel
example : rows .joinByType exItems =
    [[pl 0 0 cTAP, pl 0 2 cTAP], [.withTail (nt 0 1 cHOLD) 2], [pl 1 3 cMINE, pl 1 2 cMINE], [pl 1 0 cTAP]] := by
  decide +kernel
/-- beats out of order (0, 1, 0): the general theorems still apply, the runs are not merged -/
example : rows .joinAll [pl 0 0 cTAP, pl 1 0 cTAP, pl 0 1 cTAP] =
    [[pl 0 0 cTAP], [pl 1 0 cTAP], [pl 0 1 cTAP]] := by decide +kernel
example : rows .joinByType [pl 0 0 cTAP, pl 0 1 cMINE, pl 1 0 cTAP, pl 0 1 cTAP, pl 0 2 cTAP] =
    [[pl 0 0 cTAP], [pl 0 1 cMINE], [pl 1 0 cTAP], [pl 0 1 cTAP, pl 0 2 cTAP]] := by decide +kernel

/-- beat 0: tap, hold head, tap; beat 1: mine, tap; beat 2: tap, tap, hold head, roll head -/
private def exNotes : List Note :=
  [nt 0 0 cTAP, nt 0 1 cHOLD, nt 0 2 cTAP, nt 1 3 cMINE, nt 1 0 cTAP, nt 2 0 cTAP, nt 2 1 cTAP, nt 2 2 cHOLD,
   nt 2 3 cROLL]

example : (exNotes.map (·.beat)).Pairwise (· ≤ ·) := by decide +kernel
example : countSteps exNotes defaultNoteTypes .keepSeparate 1 = .ok 8 := by decide +kernel
example : countSteps exNotes defaultNoteTypes .keepSeparate 2 = .ok 0 := by decide +kernel
example : countSteps exNotes defaultNoteTypes .joinAll 1 = .ok 3 := by decide +kernel
example : countSteps exNotes defaultNoteTypes .joinByType 1 = .ok 6 := by decide +kernel
example : countSteps exNotes defaultNoteTypes .joinByType 2 = .ok 2 := by decide +kernel
example : classesWithAtLeast exNotes defaultNoteTypes 2 = 2 := by decide +kernel
example : countJumps exNotes = .ok 2 := by decide +kernel
example : countHands exNotes = .ok 2 := by decide +kernel
example : countHands exNotes defaultNoteTypes .joinAll 4 = .ok 1 := by decide +kernel
example : countJumps exNotes defaultNoteTypes .joinByType = .ok 2 := by decide +kernel

/-- a well-formed chart: a hold (column 0) with a tap inside it (ignored by the counters), a roll
(column 1), later a second hold in column 1, a mine -/
private def exChart : List Note :=
  [nt 0 0 cHOLD, nt 0 1 cROLL, nt 1 0 cTAP, nt 2 0 cTAIL, nt 3 1 cTAIL, nt 4 1 cHOLD, nt 4 2 cMINE, nt 5 1 cTAIL]

example : WellFormed exChart := by decide +kernel
example : countHolds exChart = .error .orphaned := by decide +kernel
example : countHolds exChart .raise .keep = .ok 3 := by decide +kernel
example : countHolds exChart .raise .drop = .ok 2 := by decide +kernel
example : countRolls exChart = .error .orphaned := by decide +kernel
example : countRolls exChart .raise .keep = .ok 3 := by decide +kernel
example : countRolls exChart .raise .drop = .ok 1 := by decide +kernel
/-- only the {HOLD_HEAD, TAIL} part of the chart has to alternate for `holds_wellformed_filtered`; here
it does not (the roll's tail is left over), which is why `count_holds exChart` raises -/
example : ¬ WellFormed (exChart.filter fun n => [cHOLD, cTAIL].contains n.ntype) := by decide +kernel
/-- a chart with holds only: `count_holds` is the number of hold heads under the defaults -/
private def exChartHolds : List Note :=
  [nt 0 0 cHOLD, nt 1 0 cTAP, nt 2 0 cTAIL, nt 4 1 cHOLD, nt 4 2 cMINE, nt 5 1 cTAIL]
example : WellFormed exChartHolds ∧ ∀ n ∈ exChartHolds, n.ntype ≠ cROLL := by decide +kernel
example : countHolds exChartHolds = .ok 2 := by decide +kernel
/-- an ill-formed chart (a tail with no head, a head never closed): the decomposition still applies -/
example : ¬ WellFormed [nt 0 0 cTAIL, nt 1 0 cHOLD] := by decide +kernel
example : countHolds [nt 0 0 cTAIL, nt 1 0 cHOLD] .keep .keep = .ok 2 := by decide +kernel
example : countHolds [nt 0 0 cTAIL, nt 1 0 cHOLD] .drop .keep = .ok 1 := by decide +kernel

/-- a stream with a repeated head: the exact refinement of round 1 fails (C09, last example), the
all-streams theorems apply — same items in another order, same count -/
private def exDup : List Note := [nt 0 1 cHOLD, nt 0 0 cHOLD, nt 0 0 cHOLD, nt 1 0 cTAIL]
example : ¬ exDup.Nodup := by decide +kernel
example : joinHeadsToTails { incl := [], join := true, orphanHead := .keep, orphanTail := .keep } exDup ≠
    Spec.joinSpec { incl := [], join := true, orphanHead := .keep, orphanTail := .keep } exDup := by
  decide +kernel
example : countHolds exDup .keep .keep = .ok 3 ∧ Spec.holdsSpec exDup cHOLD .keep .keep = .ok 3 := by
  decide +kernel

/-- repeated taps and tails, policy KEEP: `HeadsOK` holds although the stream is far from `Nodup` -/
private def exRep : List Note :=
  [nt 0 2 cTAP, nt 0 2 cTAP, nt 0 0 cHOLD, nt 1 2 cTAP, nt 2 0 cTAIL, nt 2 0 cTAIL, nt 2 0 cTAIL]
example : ¬ exRep.Nodup ∧ HeadsOK { incl := [], orphanHead := .keep } exRep := by decide +kernel
/-- the repeated head of `exDup` violates `HeadsOK` under KEEP only -/
example : ¬ HeadsOK { incl := [], orphanHead := .keep } exDup ∧ HeadsOK { incl := [], orphanHead := .drop } exDup := by
  decide +kernel
example : joinHeadsToTails { incl := [], join := true, orphanHead := .drop, orphanTail := .keep } exDup =
    .ok [.withTail (nt 0 0 cHOLD) 1] := by decide +kernel
/-- `HeadsOK` is sufficient, not necessary: a head repeated after its first copy was closed -/
example :
    let F := [nt 0 0 cHOLD, nt 1 0 cTAIL, nt 0 0 cHOLD, nt 1 0 cTAIL]
    let o : GOpts := { incl := [], join := true, orphanHead := .keep, orphanTail := .keep }
    ¬ HeadsOK o F ∧ joinHeadsToTails o F = Spec.joinSpec o F := by decide +kernel

/-- `group_is_rows_of_spec` and `stream_sorted` on a chart with a joined hold -/
example :
    let o : GOpts := { incl := allNoteTypes, sameBeat := .joinByType, join := true }
    let ns := [nt 0 0 cTAP, nt 0 1 cHOLD, nt 0 2 cTAP, nt 1 3 cMINE, nt 1 0 cTAP, nt 1 2 cMINE, nt 2 1 cTAIL]
    HeadsOK o ns ∧ (ns.map (·.beat)).Pairwise (· ≤ ·) ∧ specStream o ns = .ok exItems ∧
    groupNotes o ns = .ok (rows .joinByType exItems) := by decide +kernel

end Simfile.C09More
