/-
C15, additions after the audit (part G, F15-1 .. F15-4).

* F15-1  "values of the two sources are never mixed", stated on inputs and outputs: the timing data built from a
  simfile and a chart is the timing data of ONE of the two objects taken alone (`no_mixing_results`), its five
  components are the parses of that object's own BPMS / STOPS / DELAYS / WARPS / OFFSET (`no_mixing`), which object
  is decided exactly by the rule (`rule_iff`), and the other object's timing properties have no influence
  (`other_source_irrelevant`, derived from the rule, not from the body of `timingData`).
* F15-3  the boundary "0.7", a missing / empty VERSION, SM simfiles (`version_boundary`, `no_version`,
  `sm_never_chart`).
* the displayed BPM follows the same single source (`displaybpm_source`).
* F15-2  documented limit: versions are compared as exact rationals (`float_rounding_limit` and the examples after it).
* F15-4  the remaining branch of the BPMS fallback (`fallback_bad_value`), with the note on the error class.
-/
import Simfile.Props.C15
import Simfile.Lemmas.SourceMore
namespace Simfile.C15More
open Simfile Simfile.O Simfile.V Simfile.S Simfile.SMore

/-! ### 0. the rule, on the two dictionaries -/

/-- the compared version text: the VERSION value, "0" when the key is missing, valueless or empty -/
def versionText (d : Dict) : Str :=
  match (d.get? "VERSION".toList).join with
  | some (x :: xs) => x :: xs
  | _ => ['0']

/-- `SSC_VERSION_SPLIT_TIMING`, the double nearest to 0.7 as an exact rational -/
def threshold : Rat := 3152519739159347 / 4503599627370496

/-- the chart has a non-empty value under one of the eleven chart timing keys (`C15.eleven` lists them) -/
def Trigger (d : Dict) : Prop :=
  ∃ key ∈ T.chartTimingProperties, ∃ x xs, d.get? key = some (some (x :: xs))

/-- the rule of `timing_source`: SSC simfile, SSC chart, version at least the threshold, trigger -/
def Rule (sim c : Src) : Prop :=
  sim.kind = .sscSimfile ∧ c.kind = .sscChart ∧
    (∃ q, parseDecimal (versionText sim.d) = some q ∧ threshold ≤ q) ∧ Trigger c.d

/-- the only failure of `timing_source`: both objects are SSC and the version text is not a decimal -/
def VersionError (sim c : Src) : Prop :=
  sim.kind = .sscSimfile ∧ c.kind = .sscChart ∧ parseDecimal (versionText sim.d) = none

theorem threshold_eq : threshold = (T.sscVersionSplitTimingNum : Rat) / T.sscVersionSplitTimingDen := by
  norm_num [threshold, T.sscVersionSplitTimingNum, T.sscVersionSplitTimingDen]

theorem versionText_eq (sim : Src) : versionString sim = versionText sim.d := C15.version_string sim

/-- clause "the chart is used exactly when …": the decision in terms of the two dictionaries only -/
theorem rule_iff (sim c : Src) : useChart sim (some c) = .ok true ↔ Rule sim c := by
  rw [C15.source_rule_plain, C15.version_rule, versionText_eq, ← threshold_eq]
  constructor
  · rintro ⟨h1, c', hc, h2, h3, h4⟩
    cases hc
    exact ⟨h1, h2, h3, h4⟩
  · rintro ⟨h1, h2, h3, h4⟩
    exact ⟨h1, c, rfl, h2, h3, h4⟩

/-- the failure, in terms of the two dictionaries only (always a ValueError) -/
theorem error_iff (sim c : Src) (e : SErr) :
    useChart sim (some c) = .error e ↔ VersionError sim c ∧ e = .valueError := by
  rw [C15.source_rule_error, versionOK_error, versionText_eq]
  constructor
  · rintro ⟨h1, c', hc, h2, h3, h4⟩
    cases hc
    exact ⟨⟨h1, h2, h3⟩, h4⟩
  · rintro ⟨⟨h1, h2, h3⟩, h4⟩
    exact ⟨h1, c, rfl, h2, h3, h4⟩

/-- the three cases are exclusive and exhaustive -/
theorem not_rule_iff (sim c : Src) : useChart sim (some c) = .ok false ↔ ¬ Rule sim c ∧ ¬ VersionError sim c := by
  constructor
  · intro h
    refine ⟨fun hr => ?_, fun he => ?_⟩
    · rw [(rule_iff sim c).mpr hr] at h; cases h
    · rw [(error_iff sim c .valueError).mpr ⟨he, rfl⟩] at h; cases h
  · rintro ⟨hr, he⟩
    cases hu : useChart sim (some c) with
    | error e => exact absurd ((error_iff sim c e).mp hu).1 he
    | ok b =>
      cases b with
      | true => exact absurd ((rule_iff sim c).mp hu) hr
      | false => rfl

theorem rule_excludes_error (sim c : Src) (h : Rule sim c) : ¬ VersionError sim c := by
  rintro ⟨_, _, hn⟩
  obtain ⟨_, _, ⟨q, hq, _⟩, _⟩ := h
  rw [hn] at hq; cases hq

example : Rule ⟨.sscSimfile, [("VERSION".toList, some "0.83".toList), ("BPMS".toList, some "0=120".toList)]⟩
    ⟨.sscChart, [("STOPS".toList, some "1=2".toList)]⟩ :=
  (rule_iff _ _).mp (by decide +kernel)
example : ¬ Rule ⟨.sscSimfile, [("VERSION".toList, some "0.83".toList)]⟩
    ⟨.sscChart, [("STOPS".toList, some "".toList), ("OFFSET".toList, some "1".toList)]⟩ :=
  fun h => absurd ((rule_iff _ _).mpr h) (by decide +kernel)
example : VersionError ⟨.sscSimfile, [("VERSION".toList, some "x".toList)]⟩ ⟨.sscChart, []⟩ :=
  ((error_iff _ _ .valueError).mp (by decide +kernel)).1

/-! ### 1. no mixing (F15-1) -/

/-- clause "all timing comes from one object": the timing data of a simfile with a chart is the timing data of the
chart taken alone when the rule holds, of the simfile taken alone when it does not, and a ValueError in the one
failing case; nothing else occurs. (`timingData x none` is `TimingData(x)`: with no chart, `x` is its own source.) -/
theorem no_mixing_results (sim c : Src) :
    (Rule sim c → timingData sim (some c) = timingData c none) ∧
    (¬ Rule sim c → ¬ VersionError sim c → timingData sim (some c) = timingData sim none) ∧
    (VersionError sim c → timingData sim (some c) = .error .valueError) := by
  refine ⟨fun h => ?_, fun h h' => ?_, fun h => ?_⟩
  · exact timingData_congr _ _ _ _ (source_chart sim c ((rule_iff sim c).mpr h))
  · exact timingData_congr _ _ _ _ (source_sim sim (some c) ((not_rule_iff sim c).mpr ⟨h, h'⟩))
  · exact timingData_error _ _ _ (timingSource_of_error _ _ _ ((error_iff sim c .valueError).mpr ⟨h, rfl⟩))

/-- the short form: always one of the two objects taken alone, or the version error -/
theorem one_of_two (sim c : Src) :
    timingData sim (some c) = timingData sim none ∨ timingData sim (some c) = timingData c none ∨
      timingData sim (some c) = .error .valueError := by
  by_cases hr : Rule sim c
  · exact Or.inr (Or.inl ((no_mixing_results sim c).1 hr))
  · by_cases he : VersionError sim c
    · exact Or.inr (Or.inr ((no_mixing_results sim c).2.2 he))
    · exact Or.inl ((no_mixing_results sim c).2.1 hr he)

/-- the five components are the parses of the values under these keys of ONE dictionary `d` (`stopsKey` is STOPS,
or FREEZES for an SM simfile, see `stops_key`) -/
def ReadFrom (d : Dict) (stopsKey : Str) (td : TDStrings) : Prop :=
  td.bpms = beatValuesFromStr (d.get? "BPMS".toList).join ∧
  td.stops = beatValuesFromStr (d.get? stopsKey).join ∧
  td.delays = beatValuesFromStr (d.get? "DELAYS".toList).join ∧
  td.warps = beatValuesFromStr (d.get? "WARPS".toList).join ∧
  td.offset = offsetOf (d.get? "OFFSET".toList).join

/-- the key read by the `stops` attribute: STOPS, except FREEZES for an SM simfile with FREEZES and without STOPS -/
theorem stops_key (s : Src) :
    stopsKey s = if s.kind = .smSimfile ∧ s.d.contains "STOPS".toList = false ∧ s.d.contains "FREEZES".toList = true
      then "FREEZES".toList else "STOPS".toList := rfl

/-- the offset: the parsed value, 0 when it is missing or empty -/
theorem offset_of (o : Option Str) :
    offsetOf o = match o with
      | some (x :: xs) => parseDecimal (x :: xs)
      | _ => some 0 := by
  cases o with
  | none => rfl
  | some v => cases v <;> rfl

/-- one object alone: the five components read its own keys (any object with timing attributes: not an SM chart) -/
theorem alone_reads_own (s : Src) (hk : s.kind ≠ .smChart) :
    ∃ td, timingData s none = .ok td ∧ ReadFrom s.d (stopsKey s) td :=
  ⟨_, timingData_alone s hk, rfl, rfl, rfl, rfl, rfl⟩

/-- clause "values of the two sources are never mixed": whenever timing data results, ONE dictionary — the chart's when
the rule holds, the simfile's when it does not — supplies all five components. -/
theorem no_mixing (sim c : Src) (hs : sim.kind ≠ .smChart) (td : TDStrings) (h : timingData sim (some c) = .ok td) :
    (Rule sim c ∧ ReadFrom c.d "STOPS".toList td) ∨ (¬ Rule sim c ∧ ReadFrom sim.d (stopsKey sim) td) := by
  by_cases hr : Rule sim c
  · left
    refine ⟨hr, ?_⟩
    have hc : c.kind ≠ .smChart := by rw [hr.2.1]; decide
    obtain ⟨td', h1, h2⟩ := alone_reads_own c hc
    rw [(no_mixing_results sim c).1 hr, h1] at h
    cases h
    have hk : stopsKey c = "STOPS".toList := by
      rw [stops_key, if_neg]
      rintro ⟨h', _⟩; rw [hr.2.1] at h'; cases h'
    rw [hk] at h2
    exact h2
  · right
    refine ⟨hr, ?_⟩
    have he : ¬ VersionError sim c := by
      intro he; rw [(no_mixing_results sim c).2.2 he] at h; cases h
    obtain ⟨td', h1, h2⟩ := alone_reads_own sim hs
    rw [(no_mixing_results sim c).2.1 hr he, h1] at h
    cases h
    exact h2

/-- timing data always results except in the version-error case (bad rows are inside the components) -/
theorem result_exists (sim c : Src) (hs : sim.kind ≠ .smChart) (he : ¬ VersionError sim c) :
    ∃ td, timingData sim (some c) = .ok td := by
  by_cases hr : Rule sim c
  · have hc : c.kind ≠ .smChart := by rw [hr.2.1]; decide
    obtain ⟨td, h, _⟩ := alone_reads_own c hc
    exact ⟨td, by rw [(no_mixing_results sim c).1 hr, h]⟩
  · obtain ⟨td, h, _⟩ := alone_reads_own sim hs
    exact ⟨td, by rw [(no_mixing_results sim c).2.1 hr he, h]⟩

/-- the keys whose values are timing properties of an object: the eleven, OFFSET, FREEZES, DISPLAYBPM -/
def timingKeys : List Str :=
  T.chartTimingProperties ++ ["OFFSET".toList, "FREEZES".toList, "DISPLAYBPM".toList]

/-- `d'` differs from `d` at most under the keys `keys` -/
def AgreeOff (keys : List Str) (d d' : Dict) : Prop := ∀ k, k ∉ keys → d'.get? k = d.get? k

/-- the rule reads the simfile's kind and VERSION only -/
theorem rule_congr_sim (sim sim' c : Src) (hk : sim'.kind = sim.kind)
    (hv : sim'.d.get? "VERSION".toList = sim.d.get? "VERSION".toList) : Rule sim' c ↔ Rule sim c := by
  unfold Rule versionText
  rw [hk, hv]

/-- the rule reads the chart's kind and which of the eleven keys have a non-empty value only -/
theorem rule_congr_chart (sim c c' : Src) (hk : c'.kind = c.kind)
    (ht : ∀ key ∈ T.chartTimingProperties, c'.d.get? key = c.d.get? key) : Rule sim c' ↔ Rule sim c := by
  have : Trigger c'.d ↔ Trigger c.d := by
    constructor
    · rintro ⟨key, hm, x, xs, h⟩; exact ⟨key, hm, x, xs, by rw [← ht key hm]; exact h⟩
    · rintro ⟨key, hm, x, xs, h⟩; exact ⟨key, hm, x, xs, by rw [ht key hm]; exact h⟩
  unfold Rule
  rw [hk, this]

/-- strongest form, chart chosen: the simfile matters through its kind and VERSION only — every other key of the
simfile (all its timing properties included) may change without changing the result -/
theorem sim_irrelevant (sim sim' c : Src) (hk : sim'.kind = sim.kind)
    (hv : sim'.d.get? "VERSION".toList = sim.d.get? "VERSION".toList) (hr : Rule sim c) :
    timingData sim' (some c) = timingData sim (some c) := by
  rw [(no_mixing_results sim c).1 hr, (no_mixing_results sim' c).1 ((rule_congr_sim sim sim' c hk hv).mpr hr)]

/-- strongest form, simfile chosen (for both charts): the chart does not matter at all -/
theorem chart_irrelevant (sim c c' : Src) (hk : c'.kind = c.kind) (hr : ¬ Rule sim c) (hr' : ¬ Rule sim c') :
    timingData sim (some c') = timingData sim (some c) := by
  have hv : VersionError sim c' ↔ VersionError sim c := by unfold VersionError; rw [hk]
  by_cases he : VersionError sim c
  · rw [(no_mixing_results sim c).2.2 he, (no_mixing_results sim c').2.2 (hv.mpr he)]
  · rw [(no_mixing_results sim c).2.1 hr he, (no_mixing_results sim c').2.1 hr' (fun h => he (hv.mp h))]

/-- clause "the other object's values are never used": (1) when the chart is the source, a simfile that differs only
under timing keys gives the same result; (2) when the simfile is the source for two charts of the same kind, they give
the same result; (3) in particular a chart changed outside the eleven keys (its OFFSET, DISPLAYBPM, …) cannot change
the result — a change under the eleven may of course change WHICH object is the source, hence (2) asks for both. -/
theorem other_source_irrelevant :
    (∀ sim sim' c : Src, sim'.kind = sim.kind → AgreeOff timingKeys sim.d sim'.d → Rule sim c →
      timingData sim' (some c) = timingData sim (some c)) ∧
    (∀ sim c c' : Src, c'.kind = c.kind → ¬ Rule sim c → ¬ Rule sim c' →
      timingData sim (some c') = timingData sim (some c)) ∧
    (∀ sim c c' : Src, c'.kind = c.kind → AgreeOff ["OFFSET".toList, "DISPLAYBPM".toList] c.d c'.d → ¬ Rule sim c →
      timingData sim (some c') = timingData sim (some c)) := by
  refine ⟨fun sim sim' c hk ha hr => ?_, fun sim c c' hk hr hr' => chart_irrelevant sim c c' hk hr hr',
    fun sim c c' hk ha hr => ?_⟩
  · exact sim_irrelevant sim sim' c hk (ha _ (by decide)) hr
  · have ht : ∀ key ∈ T.chartTimingProperties, c'.d.get? key = c.d.get? key := by
      intro key hm
      apply ha
      revert key
      decide
    exact chart_irrelevant sim c c' hk hr (fun h => hr ((rule_congr_chart sim c c' hk ht).mp h))

/-- the same, component by component -/
theorem other_source_irrelevant_components (sim sim' c : Src) (hk : sim'.kind = sim.kind)
    (ha : AgreeOff timingKeys sim.d sim'.d) (hr : Rule sim c) (td td' : TDStrings)
    (h : timingData sim (some c) = .ok td) (h' : timingData sim' (some c) = .ok td') :
    td'.bpms = td.bpms ∧ td'.stops = td.stops ∧ td'.delays = td.delays ∧ td'.warps = td.warps ∧
      td'.offset = td.offset := by
  rw [other_source_irrelevant.1 sim sim' c hk ha hr, h] at h'
  cases h'
  exact ⟨rfl, rfl, rfl, rfl, rfl⟩

theorem chart_irrelevant_components (sim c c' : Src) (hk : c'.kind = c.kind) (hr : ¬ Rule sim c)
    (hr' : ¬ Rule sim c') (td td' : TDStrings)
    (h : timingData sim (some c) = .ok td) (h' : timingData sim (some c') = .ok td') :
    td'.bpms = td.bpms ∧ td'.stops = td.stops ∧ td'.delays = td.delays ∧ td'.warps = td.warps ∧
      td'.offset = td.offset := by
  rw [chart_irrelevant sim c c' hk hr hr', h] at h'
  cases h'
  exact ⟨rfl, rfl, rfl, rfl, rfl⟩

/- non-vacuity: two simfiles that differ under BPMS and OFFSET, one chart with STOPS only -/
example : AgreeOff timingKeys
    [("VERSION".toList, some "0.83".toList), ("BPMS".toList, some "0=120".toList)]
    [("VERSION".toList, some "0.83".toList), ("BPMS".toList, some "0=999".toList), ("OFFSET".toList, some "5".toList)] := by
  intro k hk
  have h1 : k ≠ "BPMS".toList := fun e => hk (by rw [e]; decide)
  have h2 : k ≠ "OFFSET".toList := fun e => hk (by rw [e]; decide)
  by_cases h3 : k = "VERSION".toList
  · rw [h3]; decide
  · have e1 : (k == "BPMS".toList) = false := beq_false_of_ne h1
    have e2 : (k == "OFFSET".toList) = false := beq_false_of_ne h2
    have e3 : (k == "VERSION".toList) = false := beq_false_of_ne h3
    simp only [Dict.get?, List.lookup, e1, e2, e3]

/-- a result with these five components, for comparisons by evaluation -/
def hasComponents (r : Except SErr TDStrings) (bpms stops delays warps : Option (List BVRow)) (offset : Option Rat) :
    Bool :=
  match r with
  | .ok td => td.bpms == bpms && td.stops == stops && td.delays == delays && td.warps == warps && td.offset == offset
  | .error _ => false

example : hasComponents (timingData
      ⟨.sscSimfile, [("VERSION".toList, some "0.83".toList), ("BPMS".toList, some "0=120".toList)]⟩
      (some ⟨.sscChart, [("STOPS".toList, some "1=2".toList)]⟩))
    (some []) (some [⟨1, "2".toList⟩]) (some []) (some []) (some 0) = true := by decide +kernel
example : hasComponents (timingData
      ⟨.sscSimfile, [("VERSION".toList, some "0.83".toList), ("BPMS".toList, some "0=999".toList),
        ("OFFSET".toList, some "5".toList)]⟩ (some ⟨.sscChart, [("STOPS".toList, some "1=2".toList)]⟩))
    (some []) (some [⟨1, "2".toList⟩]) (some []) (some []) (some 0) = true := by decide +kernel
/-- the chart's OFFSET is not used when the chart has no non-empty timing property -/
example : hasComponents (timingData
      ⟨.sscSimfile, [("VERSION".toList, some "0.83".toList), ("BPMS".toList, some "0=120".toList)]⟩
      (some ⟨.sscChart, [("STOPS".toList, some "".toList), ("OFFSET".toList, some "5".toList)]⟩))
    (some [⟨0, "120".toList⟩]) (some []) (some []) (some []) (some 0) = true := by decide +kernel
/-- an SM simfile with FREEZES: read under that key -/
example : hasComponents (timingData ⟨.smSimfile, [("FREEZES".toList, some "1=2".toList)]⟩
      (some ⟨.sscChart, [("STOPS".toList, some "3=4".toList)]⟩))
    (some []) (some [⟨1, "2".toList⟩]) (some []) (some []) (some 0) = true := by decide +kernel

/-! ### 2. the version boundary, missing VERSION, SM simfiles (F15-3) -/

/-- clause "version 0.7 or later": at the boundary. For an SSC simfile and an SSC chart with a trigger, the versions
"0.7", "0.70", "0.700" select the chart; "0.69", "0.699999" select the simfile. -/
theorem version_boundary (sim c : Src) (hs : sim.kind = .sscSimfile) (hc : c.kind = .sscChart) (ht : Trigger c.d)
    (v : Str) (hv : sim.d.get? "VERSION".toList = some (some v)) :
    (v ∈ ["0.7".toList, "0.70".toList, "0.700".toList] →
      useChart sim (some c) = .ok true ∧ timingData sim (some c) = timingData c none) ∧
    (v ∈ ["0.69".toList, "0.699999".toList] →
      useChart sim (some c) = .ok false ∧ timingData sim (some c) = timingData sim none) := by
  have hq : ∀ q, parseDecimal v = some q → v ≠ [] → parseDecimal (versionText sim.d) = some q := by
    intro q h hne
    unfold versionText; rw [hv]
    cases v with
    | nil => exact absurd rfl hne
    | cons x xs => exact h
  constructor
  · intro hm
    have hr : Rule sim c := by
      refine ⟨hs, hc, ?_, ht⟩
      simp only [List.mem_cons, List.not_mem_nil, or_false] at hm
      rcases hm with rfl | rfl | rfl
      · exact ⟨7/10, hq _ (by decide +kernel) (by decide), by norm_num [threshold]⟩
      · exact ⟨7/10, hq _ (by decide +kernel) (by decide), by norm_num [threshold]⟩
      · exact ⟨7/10, hq _ (by decide +kernel) (by decide), by norm_num [threshold]⟩
    exact ⟨(rule_iff sim c).mpr hr, (no_mixing_results sim c).1 hr⟩
  · intro hm
    have hn : ∃ q, parseDecimal (versionText sim.d) = some q ∧ q < threshold := by
      simp only [List.mem_cons, List.not_mem_nil, or_false] at hm
      rcases hm with rfl | rfl
      · exact ⟨69/100, hq _ (by decide +kernel) (by decide), by norm_num [threshold]⟩
      · exact ⟨699999/1000000, hq _ (by decide +kernel) (by decide), by norm_num [threshold]⟩
    obtain ⟨q, hp, hlt⟩ := hn
    have hr : ¬ Rule sim c := by
      rintro ⟨_, _, ⟨q', hp', hle⟩, _⟩
      rw [hp] at hp'; cases hp'
      exact absurd hle (not_le.mpr hlt)
    have he : ¬ VersionError sim c := by
      rintro ⟨_, _, hn⟩; rw [hn] at hp; cases hp
    exact ⟨(not_rule_iff sim c).mpr ⟨hr, he⟩, (no_mixing_results sim c).2.1 hr he⟩

/-- the general form: any version text that parses to at least 7/10 passes, any below 699999999999999/10^15 fails -/
theorem version_general (sim c : Src) (q : Rat) (hp : parseDecimal (versionText sim.d) = some q) :
    (7/10 ≤ q → sim.kind = .sscSimfile → c.kind = .sscChart → Trigger c.d → Rule sim c) ∧
    (q ≤ 699999999999999/1000000000000000 → ¬ Rule sim c) := by
  constructor
  · intro h hs hc ht
    exact ⟨hs, hc, ⟨q, hp, le_trans (by norm_num [threshold]) h⟩, ht⟩
  · rintro h ⟨_, _, ⟨q', hp', hle⟩, _⟩
    rw [hp] at hp'; cases hp'
    have : threshold ≤ 699999999999999/1000000000000000 := le_trans hle h
    norm_num [threshold] at this

/-- clause "a missing version counts as 0": no VERSION key, a valueless one or an empty one — the simfile is the
source whatever the chart, for every kind of simfile -/
theorem no_version (sim : Src)
    (h : sim.d.get? "VERSION".toList = none ∨ sim.d.get? "VERSION".toList = some none ∨
      sim.d.get? "VERSION".toList = some (some [])) (chart : Option Src) :
    useChart sim chart = .ok false ∧ timingData sim chart = timingData sim none ∧
      ∀ ignore, displayBpm sim chart ignore = displayBpm sim none ignore := by
  have hv : versionString sim = ['0'] := by
    rw [versionText_eq]; unfold versionText
    rcases h with h | h | h <;> rw [h] <;> rfl
  have hu : useChart sim chart = .ok false := useChart_version_false sim chart (by rw [hv]; exact versionOK_zero)
  exact ⟨hu, timingData_congr _ _ _ _ (source_sim sim chart hu),
    fun ig => displayBpm_congr _ _ _ _ ig (source_sim sim chart hu)⟩

/-- clause "only an SSC simfile …": an SM simfile is always its own source -/
theorem sm_never_chart (sim : Src) (h : sim.kind = .smSimfile) (chart : Option Src) :
    useChart sim chart = .ok false ∧ timingData sim chart = timingData sim none ∧
      ∀ ignore, displayBpm sim chart ignore = displayBpm sim none ignore := by
  have hu : useChart sim chart = .ok false := useChart_not_ssc sim chart (by rw [h]; decide)
  exact ⟨hu, timingData_congr _ _ _ _ (source_sim sim chart hu),
    fun ig => displayBpm_congr _ _ _ _ ig (source_sim sim chart hu)⟩

/-- an SM chart (or no chart) never is the source either -/
theorem sm_chart_never (sim c : Src) (h : c.kind ≠ .sscChart) :
    useChart sim (some c) = .ok false ∧ timingData sim (some c) = timingData sim none := by
  have hu : useChart sim (some c) = .ok false :=
    (not_rule_iff sim c).mpr ⟨fun hr => h hr.2.1, fun he => h he.2.1⟩
  exact ⟨hu, timingData_congr _ _ _ _ (source_sim sim _ hu)⟩

example : Trigger [("STOPS".toList, some "1=2".toList)] :=
  ⟨"STOPS".toList, by decide, '1', "=2".toList, by decide⟩
example : useChart ⟨.sscSimfile, [("VERSION".toList, some "0.7".toList)]⟩
    (some ⟨.sscChart, [("STOPS".toList, some "1=2".toList)]⟩) = .ok true := by decide +kernel
example : useChart ⟨.sscSimfile, [("VERSION".toList, some "0.700".toList)]⟩
    (some ⟨.sscChart, [("LABELS".toList, some " ".toList)]⟩) = .ok true := by decide +kernel
example : useChart ⟨.sscSimfile, [("VERSION".toList, some "0.699999".toList)]⟩
    (some ⟨.sscChart, [("STOPS".toList, some "1=2".toList)]⟩) = .ok false := by decide +kernel
example : useChart ⟨.sscSimfile, [("TITLE".toList, some "t".toList)]⟩
    (some ⟨.sscChart, [("STOPS".toList, some "1=2".toList)]⟩) = .ok false := by decide +kernel
example : useChart ⟨.sscSimfile, [("VERSION".toList, some [])]⟩
    (some ⟨.sscChart, [("STOPS".toList, some "1=2".toList)]⟩) = .ok false := by decide +kernel
example : useChart ⟨.smSimfile, [("VERSION".toList, some "0.83".toList)]⟩
    (some ⟨.sscChart, [("STOPS".toList, some "1=2".toList)]⟩) = .ok false := by decide +kernel

/-! ### 3. the displayed BPM follows the same source -/

/-- clause "displaybpm uses the same rule": the displayed BPM of a simfile with a chart is the displayed BPM of the
chart taken alone when the rule holds, of the simfile taken alone when it does not, a ValueError in the failing case —
the same three cases, with the same object, as for the timing data (`no_mixing_results`). -/
theorem displaybpm_source (sim c : Src) (ignore : Bool) :
    (Rule sim c → displayBpm sim (some c) ignore = displayBpm c none ignore ∧
      timingData sim (some c) = timingData c none) ∧
    (¬ Rule sim c → ¬ VersionError sim c → displayBpm sim (some c) ignore = displayBpm sim none ignore ∧
      timingData sim (some c) = timingData sim none) ∧
    (VersionError sim c → displayBpm sim (some c) ignore = .error .valueError ∧
      timingData sim (some c) = .error .valueError) := by
  refine ⟨fun h => ⟨?_, (no_mixing_results sim c).1 h⟩, fun h h' => ⟨?_, (no_mixing_results sim c).2.1 h h'⟩,
    fun h => ⟨?_, (no_mixing_results sim c).2.2 h⟩⟩
  · exact displayBpm_congr _ _ _ _ _ (source_chart sim c ((rule_iff sim c).mpr h))
  · exact displayBpm_congr _ _ _ _ _ (source_sim sim (some c) ((not_rule_iff sim c).mpr ⟨h, h'⟩))
  · exact displayBpm_error _ _ _ _ (timingSource_of_error _ _ _ ((error_iff sim c .valueError).mpr ⟨h, rfl⟩))

/-- one object alone: its displayed BPM is computed from its own DISPLAYBPM and BPMS (the functions of `C15`) -/
theorem displaybpm_alone (s : Src) (ignore : Bool) :
    displayBpm s none ignore =
      match specified s ignore with
      | .error e => .error e
      | .ok (some r) => .ok r
      | .ok none => bpmsFallback s :=
  displayBpm_eq s none ignore s (timingSource_none s)

/-- hence the simfile's DISPLAYBPM and BPMS are not used when the chart is the source, and conversely -/
theorem displaybpm_other_irrelevant :
    (∀ sim sim' c : Src, ∀ ignore, sim'.kind = sim.kind → AgreeOff timingKeys sim.d sim'.d → Rule sim c →
      displayBpm sim' (some c) ignore = displayBpm sim (some c) ignore) ∧
    (∀ sim c c' : Src, ∀ ignore, c'.kind = c.kind → ¬ Rule sim c → ¬ Rule sim c' →
      displayBpm sim (some c') ignore = displayBpm sim (some c) ignore) := by
  refine ⟨fun sim sim' c ig hk ha hr => ?_, fun sim c c' ig hk hr hr' => ?_⟩
  · have hr' : Rule sim' c := (rule_congr_sim sim sim' c hk (ha _ (by decide))).mpr hr
    rw [((displaybpm_source sim c ig).1 hr).1, ((displaybpm_source sim' c ig).1 hr').1]
  · have hv : VersionError sim c' ↔ VersionError sim c := by unfold VersionError; rw [hk]
    by_cases he : VersionError sim c
    · rw [((displaybpm_source sim c ig).2.2 he).1, ((displaybpm_source sim c' ig).2.2 (hv.mpr he)).1]
    · rw [((displaybpm_source sim c ig).2.1 hr he).1,
        ((displaybpm_source sim c' ig).2.1 hr' (fun h => he (hv.mp h))).1]

example : displayBpm ⟨.sscSimfile, [("VERSION".toList, some "0.7".toList), ("DISPLAYBPM".toList, some "150".toList),
      ("BPMS".toList, some "0=120".toList)]⟩
    (some ⟨.sscChart, [("BPMS".toList, some "0=90,4=180".toList)]⟩) false = .ok (.range 90 180) := by decide +kernel
example : displayBpm ⟨.sscSimfile, [("VERSION".toList, some "0.69".toList), ("DISPLAYBPM".toList, some "150".toList),
      ("BPMS".toList, some "0=120".toList)]⟩
    (some ⟨.sscChart, [("BPMS".toList, some "0=90,4=180".toList)]⟩) false = .ok (.static 150) := by decide +kernel

/-! ### 4. the documented limit of the version comparison (F15-2)

The model compares the version text as an EXACT rational with the exact rational of the double 0.7
(`threshold` = 0.6999999999999999555910790149937…). Python first rounds the text to a double: every text whose value
lies in the half-open interval [threshold − 2⁻⁵⁴, threshold) rounds UP to the double 0.7 and passes the test there,
while the model says "below". The lower end of the interval is the midpoint between the double 0.7 and its predecessor,
  0.699999999999999900079927783735911361873149871826171875   (54 digits; a tie, rounded to even = 0.7),
which is the smallest value that `float()` rounds to 0.7; the shortest such text is "0.69999999999999991"
(17 significant digits). With at most 16 significant digits model and implementation agree (`version_general` covers
everything up to 0.699999999999999 and from 0.7). No model change; the examples pin the model's answers. -/

/-- the interval on which the exact comparison and `float()` differ -/
theorem float_rounding_limit :
    threshold - 1 / 2 ^ 54 = 699999999999999900079927783735911361873149871826171875 / 10 ^ 54 ∧
    threshold - 1 / 2 ^ 54 < 69999999999999991 / 10 ^ 17 ∧ (69999999999999991 : Rat) / 10 ^ 17 < threshold ∧
    (6999999999999999 : Rat) / 10 ^ 16 < threshold - 1 / 2 ^ 54 ∧
    (69999999999999990 : Rat) / 10 ^ 17 < threshold - 1 / 2 ^ 54 := by
  norm_num [threshold]

/-- model: below the threshold (Python: `float("0.69999999999999991") == 0.7`, the chart would be used) -/
example : versionOK "0.69999999999999991".toList = .ok false := by decide +kernel
/-- model: below (Python: `float("0.69999999999999995") == 0.7`) -/
example : versionOK "0.69999999999999995".toList = .ok false := by decide +kernel
/-- the exact midpoint: model below, Python rounds the tie to 0.7 -/
example : versionOK "0.699999999999999900079927783735911361873149871826171875".toList = .ok false := by decide +kernel
/-- agreement again outside the interval: 16 digits (Python: `float("0.6999999999999999") < 0.7`) … -/
example : versionOK "0.6999999999999999".toList = .ok false := by decide +kernel
/-- … and just above the double (Python: `float("0.69999999999999996") == 0.7`) -/
example : versionOK "0.69999999999999996".toList = .ok true := by decide +kernel

/-! ### 5. the remaining branch of the BPMS fallback (F15-4) -/

/-- a BPM value that is not a decimal: the fallback fails. Python raises `decimal.InvalidOperation` here (an
ArithmeticError, not a ValueError); the model has a single error kind for "the BPMS text is bad", so only the fact of
failure is stated, not the class. (`TimingData` itself keeps value tokens unparsed in the model, see `BVRow`.) -/
theorem fallback_bad_value (s : Src) (b : Option Str) (rows : List BVRow) (hb : s.d.get? kBPMS = some b)
    (hr : beatValuesFromStr b = some rows) (hx : rows.mapM (fun r => parseDecimal r.value) = none) :
    ∃ e, bpmsFallback s = .error e :=
  ⟨_, bpmsFallback_bad_value s b rows hb hr hx⟩

example : ∃ e, displayBpm ⟨.smSimfile, [("BPMS".toList, some "0=abc".toList)]⟩ none false = .error e :=
  ⟨.valueError, by decide +kernel⟩

end Simfile.C15More
