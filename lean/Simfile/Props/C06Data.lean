/-
C06 over the data-carrying model `MD.mutateD` (Simfile/Model/MutateData.lean): exceptions are VALUES, the except
clauses are an ordered list, serialization/encoding failures are computed from the data, a failing write or close
leaves an arbitrary prefix (`cut`), and the files hold bytes. Closes the audit findings
  C06-F1 (CancelMutation and subclasses swallowed, every other exception — Exception or bare BaseException —
          propagates as the SAME value; handler order matters),
  C06-F2 (fault safety under the PESSIMISTIC close: a failing close may leave any prefix),
  C06-F3 (the backup file holds exactly the encoded entry serialization and parses to the original simfile),
  C06-F5 (a fault inside the script has an outcome: `ioError k`), C06-F6 (entry serialization precedes the body).
Vocabulary: see the header of Props/C05Data.lean (`MD.Saves`, `MD.LawAt`, `NoClash`).
All theorems hold for every fault index `k : Option Nat` and every `cut : Nat`.
-/
import Simfile.Lemmas.MutateDataRefine
import Simfile.Lemmas.MutateDataCodec
import Simfile.Lemmas.MutateDataToy
import Simfile.Props.C05Data
namespace Simfile.C06Data
open Simfile Simfile.Mut Simfile.MD

/-! ### 1. the except clauses: which exceptions are swallowed, which propagate -/

/-- with the clauses of `mutate` in source order (`except CancelMutation: return`, then `except: raise`) an
exception raised by the body is swallowed iff it is a CancelMutation (or subclass) instance … -/
theorem swallowed_iff_cancel (e : Exn) : afterRaise handlers e = .returned ↔ e.isCancel = true := by
  cases h : e.isCancel <;> simp [afterRaise, handlers, dispatch, Catch.catches, h]

/-- … and every other exception propagates as the very same value, whether or not it derives from `Exception`
(KeyboardInterrupt, SystemExit, GeneratorExit and other bare BaseException subclasses included) -/
theorem others_propagate_unchanged (e : Exn) (h : e.isCancel = false) : afterRaise handlers e = .propagated e := by
  simp [afterRaise, handlers, dispatch, Catch.catches, h]

/-- the statement has content: it depends on the clause order and on the bare `except:` — with the clauses
swapped a CancelMutation would propagate; with `except Exception: raise` first, a CancelMutation subclass that also
derives from Exception would propagate; an uncaught exception propagates unchanged as well -/
example : afterRaise [(.bare, .reraise), (.cancelMutation, .swallow)] Toy.cancel = .propagated Toy.cancel := by decide
example : afterRaise [(.exceptionClass, .reraise), (.cancelMutation, .swallow)] Toy.cancelSub =
    .propagated Toy.cancelSub := by decide
example : afterRaise handlers Toy.cancelSub = .returned := by decide
example : afterRaise [(.cancelMutation, .swallow)] Toy.keyboardInterrupt = .propagated Toy.keyboardInterrupt := by
  decide

/-! ### 2. the body raises: nothing on the filesystem is created or modified -/

/-- "If the body raises, nothing on the filesystem is created or modified; CancelMutation is swallowed and every
other exception propagates unchanged": the filesystem is the same map, only open-for-reading calls were made, and
the outcome is `returned` for a cancel and `propagated e` with the same `e` otherwise — for every fault setting -/
theorem body_raises_no_effect {Sim : Type} (W : World Sim) (c : MutateCfg) (encs : List Str)
    (body : Sim → BodyResult Sim) (fs : FS) (k : Option Nat) (cut : Nat) (b₀ : Bytes) (enc t₀ : Str) (s₀ : Sim)
    (bt : Str) (e : Exn)
    (hnc : NoClash c) (hin : fsGet fs c.input = some b₀) (hdet : detectD W.codec encs b₀ = some (enc, t₀))
    (hload : W.load t₀ = .ok s₀) (hentry : entryText W c s₀ = .ok bt) (hbody : body s₀ = .raises e) :
    (mutateD W c encs body fs k cut).fs = fs ∧
    (mutateD W c encs body fs k cut).outcome = (if e.isCancel then .returned else .propagated e) ∧
    (mutateD W c encs body fs k cut).trace = readsD W.codec c.input encs b₀ ∧
    (∀ op ∈ (mutateD W c encs body fs k cut).trace, ∃ e', op = OpD.openR c.input e') := by
  obtain ⟨e₀, rest, rfl⟩ := encs_ne_nil_of_det hdet
  have hr : mutateD W c (e₀ :: rest) body fs k cut =
      ⟨afterRaise handlers e, fs, readsD W.codec c.input (e₀ :: rest) b₀, some (enc, t₀), some s₀⟩ := by
    unfold mutateD mutateDWith
    simp only [(clash_false_iff c).mpr hnc, Bool.false_eq_true, if_false, hin, hdet, hload, hentry, hbody]
  rw [hr]
  refine ⟨rfl, ?_, rfl, readsD_all_read _ _ _ _⟩
  show afterRaise handlers e = _
  cases h : e.isCancel
  · rw [others_propagate_unchanged e h]; rfl
  · rw [(swallowed_iff_cancel e).mpr h]; rfl

/-! ### 3. serialization / encoding failures: nothing is opened for writing -/

/-- the general statement behind clauses 2 and 3: unless the run reaches the save (names fine, file decodes and
loads, the block returns, both texts serialize and encode — `Saves`), the filesystem is unchanged and every call
made was an open-for-reading of the input -/
theorem no_write_unless_saved {Sim : Type} (W : World Sim) (c : MutateCfg) (encs : List Str)
    (body : Sim → BodyResult Sim) (fs : FS) (k : Option Nat) (cut : Nat)
    (h : ¬ ∃ b₀ enc t₀ s₀ bt s₁ ot bb ob, Saves W c encs body fs b₀ enc t₀ s₀ bt s₁ ot bb ob) :
    (mutateD W c encs body fs k cut).fs = fs ∧
    ∀ op ∈ (mutateD W c encs body fs k cut).trace, ∃ e, op = OpD.openR c.input e :=
  (mutateDWith_cases handlers W c encs body fs k cut).resolve_right h

/-- "saving fails because the edited simfile cannot be serialized": `str(simfile)` at exit raises `er` —
outcome `serializeError false er`, filesystem unchanged, nothing opened for writing -/
theorem unserializable_no_write {Sim : Type} (W : World Sim) (c : MutateCfg) (encs : List Str)
    (body : Sim → BodyResult Sim) (fs : FS) (k : Option Nat) (cut : Nat) (b₀ : Bytes) (enc t₀ : Str) (s₀ s₁ : Sim)
    (bt : Str) (er : Err)
    (hnc : NoClash c) (hin : fsGet fs c.input = some b₀) (hdet : detectD W.codec encs b₀ = some (enc, t₀))
    (hload : W.load t₀ = .ok s₀) (hentry : entryText W c s₀ = .ok bt) (hbody : body s₀ = .returns s₁)
    (hser : W.ser s₁ = .error er) :
    (mutateD W c encs body fs k cut).fs = fs ∧
    (mutateD W c encs body fs k cut).outcome = .serializeError false er ∧
    (mutateD W c encs body fs k cut).trace = readsD W.codec c.input encs b₀ := by
  obtain ⟨e₀, rest, rfl⟩ := encs_ne_nil_of_det hdet
  unfold mutateD mutateDWith
  simp only [(clash_false_iff c).mpr hnc, Bool.false_eq_true, if_false, hin, hdet, hload, hentry, hbody, hser]
  and_intros <;> first | rfl | trivial

/-- a requested backup whose entry serialization fails: the error is raised BEFORE the body runs (whatever the
body would do — return, raise, cancel), nothing is written (audit C06-F6) -/
theorem entry_unserializable_no_write {Sim : Type} (W : World Sim) (c : MutateCfg) (encs : List Str)
    (body : Sim → BodyResult Sim) (fs : FS) (k : Option Nat) (cut : Nat) (b₀ : Bytes) (enc t₀ : Str) (s₀ : Sim)
    (er : Err)
    (hnc : NoClash c) (hin : fsGet fs c.input = some b₀) (hdet : detectD W.codec encs b₀ = some (enc, t₀))
    (hload : W.load t₀ = .ok s₀) (hentry : entryText W c s₀ = .error er) :
    (mutateD W c encs body fs k cut).fs = fs ∧
    (mutateD W c encs body fs k cut).outcome = .serializeError true er ∧
    (mutateD W c encs body fs k cut).trace = readsD W.codec c.input encs b₀ := by
  obtain ⟨e₀, rest, rfl⟩ := encs_ne_nil_of_det hdet
  unfold mutateD mutateDWith
  simp only [(clash_false_iff c).mpr hnc, Bool.false_eq_true, if_false, hin, hdet, hload, hentry]
  and_intros <;> first | rfl | trivial

/-- "cannot be encoded in the detected encoding": the trial encode of the backup text or of the output text fails —
outcome `encodeError`, filesystem unchanged, nothing opened for writing -/
theorem unencodable_no_write {Sim : Type} (W : World Sim) (c : MutateCfg) (encs : List Str)
    (body : Sim → BodyResult Sim) (fs : FS) (k : Option Nat) (cut : Nat) (b₀ : Bytes) (enc t₀ : Str) (s₀ s₁ : Sim)
    (bt ot : Str)
    (hnc : NoClash c) (hin : fsGet fs c.input = some b₀) (hdet : detectD W.codec encs b₀ = some (enc, t₀))
    (hload : W.load t₀ = .ok s₀) (hentry : entryText W c s₀ = .ok bt) (hbody : body s₀ = .returns s₁)
    (hser : W.ser s₁ = .ok ot)
    (henc : (W.codec enc).encode bt = none ∨ (W.codec enc).encode ot = none) :
    (mutateD W c encs body fs k cut).fs = fs ∧
    (mutateD W c encs body fs k cut).outcome = .encodeError ((W.codec enc).encode bt).isNone ∧
    (mutateD W c encs body fs k cut).trace = readsD W.codec c.input encs b₀ := by
  obtain ⟨e₀, rest, rfl⟩ := encs_ne_nil_of_det hdet
  unfold mutateD mutateDWith
  simp only [(clash_false_iff c).mpr hnc, Bool.false_eq_true, if_false, hin, hdet, hload, hentry, hbody, hser]
  cases hb : (W.codec enc).encode bt with
  | none => and_intros <;> first | rfl | trivial
  | some bb =>
    rcases henc with h | h
    · rw [hb] at h; cases h
    · simp only [h]
      and_intros <;> first | rfl | trivial

/-! ### 4. faults during the save -/

/-- the outcome of a faulted save: the failing call's error propagates (`ioError n`), the calls made are the reads
and the script up to and including the failing call; a fault index beyond the script is no fault -/
theorem fault_outcome {Sim : Type} {W : World Sim} {c : MutateCfg} {encs : List Str}
    {body : Sim → BodyResult Sim} {fs : FS} {b₀ : Bytes} {enc t₀ : Str} {s₀ : Sim} {bt : Str} {s₁ : Sim}
    {ot : Str} {bb ob : Bytes} (h : Saves W c encs body fs b₀ enc t₀ s₀ bt s₁ ot bb ob) (n cut : Nat) :
    (n < (saveScriptD c enc bb ob).length →
      (mutateD W c encs body fs (some n) cut).outcome = .ioError n ∧
      (mutateD W c encs body fs (some n) cut).trace =
        readsD W.codec c.input encs b₀ ++ (saveScriptD c enc bb ob).take (n + 1)) ∧
    ((saveScriptD c enc bb ob).length ≤ n →
      (mutateD W c encs body fs (some n) cut).outcome = .returned ∧
      (mutateD W c encs body fs (some n) cut).fs = (mutateD W c encs body fs none cut).fs) := by
  unfold mutateD
  rw [mutateDWith_saves handlers h (some n) cut, mutateDWith_saves handlers h none cut]
  constructor
  · intro hn
    simp only [faultFires, if_pos hn]
    and_intros <;> first | rfl | trivial
  · intro hn
    simp only [faultFires, if_neg (Nat.not_lt.mpr hn)]
    and_intros
    · first | rfl | trivial
    · exact runD_ge_length cut _ fs n hn

/-- the script has 6 calls with a backup (open, write, close of the backup, then of the output), 3 without -/
theorem script_length (c : MutateCfg) (enc : Str) (bb ob : Bytes) :
    (saveScriptD c enc bb ob).length = if (given c.backup).isSome then 6 else 3 := by
  unfold saveScriptD
  cases given c.backup <;> rfl

/-- the complete fault table with a backup, in bytes: a failing open leaves its file as it was, a failing write or
close leaves the prefix `take cut` of the data, everything before the fault is complete, nothing after it is
touched -/
theorem fault_table {Sim : Type} {W : World Sim} {c : MutateCfg} {encs : List Str}
    {body : Sim → BodyResult Sim} {fs : FS} {b₀ : Bytes} {enc t₀ : Str} {s₀ : Sim} {bt : Str} {s₁ : Sim}
    {ot : Str} {bb ob : Bytes} (h : Saves W c encs body fs b₀ enc t₀ s₀ bt s₁ ot bb ob)
    (b : Str) (hb : given c.backup = some b) (k : Option Nat) (cut : Nat) :
    (fsGet (mutateD W c encs body fs k cut).fs b, fsGet (mutateD W c encs body fs k cut).fs c.outPath) =
      match k with
      | some 0 => (fsGet fs b, fsGet fs c.outPath)               -- open(backup) failed
      | some 1 => (some (bb.take cut), fsGet fs c.outPath)       -- write(backup) failed
      | some 2 => (some (bb.take cut), fsGet fs c.outPath)       -- close(backup) failed
      | some 3 => (some bb, fsGet fs c.outPath)                  -- open(output) failed
      | some 4 => (some bb, some (ob.take cut))                  -- write(output) failed
      | some 5 => (some bb, some (ob.take cut))                  -- close(output) failed
      | _ => (some bb, some ob) := by
  unfold mutateD
  rw [mutateDWith_saves handlers h k cut]
  exact fault_table_D c enc b h.noClash hb fs cut bb ob k

/-- the fault table without a backup -/
theorem fault_table_no_backup {Sim : Type} {W : World Sim} {c : MutateCfg} {encs : List Str}
    {body : Sim → BodyResult Sim} {fs : FS} {b₀ : Bytes} {enc t₀ : Str} {s₀ : Sim} {bt : Str} {s₁ : Sim}
    {ot : Str} {bb ob : Bytes} (h : Saves W c encs body fs b₀ enc t₀ s₀ bt s₁ ot bb ob)
    (hb : given c.backup = none) (k : Option Nat) (cut : Nat) :
    fsGet (mutateD W c encs body fs k cut).fs c.outPath =
      match k with
      | some 0 => fsGet fs c.outPath              -- open(output) failed
      | some 1 => some (ob.take cut)              -- write(output) failed
      | some 2 => some (ob.take cut)              -- close(output) failed
      | _ => some ob := by
  unfold mutateD
  rw [mutateDWith_saves handlers h k cut]
  exact fault_table_D_no_backup c enc hb fs cut bb ob k

/-- "a file cannot be opened for writing ⇒ the input file still holds its original bytes", and more: the file whose
open failed is as it was, too -/
theorem open_failure_keeps_target_and_input {Sim : Type} {W : World Sim} {c : MutateCfg} {encs : List Str}
    {body : Sim → BodyResult Sim} {fs : FS} {b₀ : Bytes} {enc t₀ : Str} {s₀ : Sim} {bt : Str} {s₁ : Sim}
    {ot : Str} {bb ob : Bytes} (h : Saves W c encs body fs b₀ enc t₀ s₀ bt s₁ ot bb ob) (n cut : Nat) (p e : Str)
    (hk : (saveScriptD c enc bb ob)[n]? = some (.openW p e)) :
    fsGet (mutateD W c encs body fs (some n) cut).fs p = fsGet fs p ∧
    fsGet (mutateD W c encs body fs (some n) cut).fs c.input = some b₀ := by
  rw [← h.input]
  cases hb : given c.backup with
  | none =>
    have hT := fault_table_no_backup h hb (some n) cut
    rw [saveScriptD_none hb] at hk
    rcases n with _ | _ | _ | n
    · have hp : c.outPath = p := by
        have : c.outPath = p ∧ enc = e := by simpa [blockD] using hk
        exact this.1
      subst hp
      refine ⟨hT, ?_⟩
      by_cases hi : c.input = c.outPath
      · rw [hi]; exact hT
      · unfold mutateD
        rw [mutateDWith_saves handlers h (some 0) cut]
        exact saveScriptD_frame c enc fs cut bb ob _ c.input hi (by rw [hb]; simp)
    · simp [blockD] at hk
    · simp [blockD] at hk
    · simp [blockD] at hk
  | some b =>
    have hT := fault_table h b hb (some n) cut
    have hbi : b ≠ c.input := (h.noClash b hb).1
    have hbo : b ≠ c.outPath := backup_ne_outPath h.noClash hb
    -- the input is the output path, or a path the script does not touch
    have hinput : ∀ m, (m = 0 ∨ m = 3) →
        fsGet (mutateD W c encs body fs (some m) cut).fs c.outPath = fsGet fs c.outPath →
        fsGet (mutateD W c encs body fs (some m) cut).fs c.input = fsGet fs c.input := by
      intro m _ ho
      by_cases hi : c.input = c.outPath
      · rw [hi]; exact ho
      · unfold mutateD
        rw [mutateDWith_saves handlers h (some m) cut]
        exact saveScriptD_frame c enc fs cut bb ob _ c.input hi
          (by rw [hb]; intro hh; exact hbi (Option.some.inj hh).symm)
    rw [saveScriptD_some hb] at hk
    rcases n with _ | _ | _ | _ | _ | _ | n
    · have hp : b = p := by
        have : b = p ∧ enc = e := by simpa [blockD] using hk
        exact this.1
      subst hp
      exact ⟨congrArg Prod.fst hT, hinput 0 (Or.inl rfl) (congrArg Prod.snd hT)⟩
    · simp [blockD] at hk
    · simp [blockD] at hk
    · have hp : c.outPath = p := by
        have : c.outPath = p ∧ enc = e := by simpa [blockD] using hk
        exact this.1
      subst hp
      exact ⟨congrArg Prod.snd hT, hinput 3 (Or.inr rfl) (congrArg Prod.snd hT)⟩
    · simp [blockD] at hk
    · simp [blockD] at hk
    · simp [blockD] at hk

/-! ### 5. the original is never lost when a backup was asked for -/

/-- the combined safety theorem: a backup was requested (`given c.backup = some b`); then for EVERY other input,
every fault index and every cut (pessimistic close included), after `mutateD` either the input file holds exactly
the bytes it held, or the backup file holds exactly the encoding, in the detected encoding, of the serialization
of the simfile that was loaded from the input (the simfile at block entry) -/
theorem original_never_lost {Sim : Type} (W : World Sim) (c : MutateCfg) (encs : List Str)
    (body : Sim → BodyResult Sim) (fs : FS) (k : Option Nat) (cut : Nat) (b : Str) (hb : given c.backup = some b) :
    fsGet (mutateD W c encs body fs k cut).fs c.input = fsGet fs c.input ∨
    ∃ enc t₀ s₀ bt bb,
      (mutateD W c encs body fs k cut).detected = some (enc, t₀) ∧
      (mutateD W c encs body fs k cut).yielded = some s₀ ∧ W.load t₀ = .ok s₀ ∧
      W.ser s₀ = .ok bt ∧ (W.codec enc).encode bt = some bb ∧
      fsGet (mutateD W c encs body fs k cut).fs b = some bb := by
  rcases mutateDWith_cases handlers W c encs body fs k cut with h | ⟨b₀, enc, t₀, s₀, bt, s₁, ot, bb, ob, h⟩
  · left
    show fsGet (mutateDWith handlers W c encs body fs k cut).fs c.input = _
    rw [h.1]
  · have hT := fault_table h b hb k cut
    have hbi : b ≠ c.input := (h.noClash b hb).1
    have hser : W.ser s₀ = .ok bt := by
      have := h.entry
      unfold entryText at this
      rw [hb] at this
      exact this
    -- while the backup is being written the output path, hence the input, is untouched
    have early : fsGet (mutateD W c encs body fs k cut).fs c.outPath = fsGet fs c.outPath →
        fsGet (mutateD W c encs body fs k cut).fs c.input = fsGet fs c.input := by
      intro ho
      by_cases hi : c.input = c.outPath
      · rw [hi]; exact ho
      · unfold mutateD
        rw [mutateDWith_saves handlers h k cut]
        exact saveScriptD_frame c enc fs cut bb ob _ c.input hi
          (by rw [hb]; intro hh; exact hbi (Option.some.inj hh).symm)
    have hres : (mutateD W c encs body fs k cut).detected = some (enc, t₀) ∧
        (mutateD W c encs body fs k cut).yielded = some s₀ := by
      unfold mutateD
      rw [mutateDWith_saves handlers h k cut]
      and_intros <;> first | rfl | trivial
    have late : fsGet (mutateD W c encs body fs k cut).fs b = some bb → _ := fun hbk =>
      (Or.inr ⟨enc, t₀, s₀, bt, bb, hres.1, hres.2, h.load, hser, h.encB, hbk⟩ :
        fsGet (mutateD W c encs body fs k cut).fs c.input = fsGet fs c.input ∨
        ∃ enc t₀ s₀ bt bb,
          (mutateD W c encs body fs k cut).detected = some (enc, t₀) ∧
          (mutateD W c encs body fs k cut).yielded = some s₀ ∧ W.load t₀ = .ok s₀ ∧
          W.ser s₀ = .ok bt ∧ (W.codec enc).encode bt = some bb ∧
          fsGet (mutateD W c encs body fs k cut).fs b = some bb)
    rcases k with _ | _ | _ | _ | _ | _ | _ | k
    · exact late (congrArg Prod.fst hT)
    · exact Or.inl (early (congrArg Prod.snd hT))
    · exact Or.inl (early (congrArg Prod.snd hT))
    · exact Or.inl (early (congrArg Prod.snd hT))
    · exact late (congrArg Prod.fst hT)
    · exact late (congrArg Prod.fst hT)
    · exact late (congrArg Prod.fst hT)
    · exact late (congrArg Prod.fst hT)

/-- "… a backup that was requested and has been written is complete and parses to the original simfile": SM files.
With a backup requested, for every fault index and cut, either the input file's bytes are unchanged or the backup
file — decoded with the detected codec, tokenized strictly, loaded — is exactly the simfile `s₀` that was loaded
from the input. Needs only: the serialization of `s₀` is `safeDoc`, and the detected codec satisfies the law at
that one text. (`s₀` is in `C01.DomSM` because it was loaded.) -/
theorem original_recoverable_sm (M : Msd) (hM : M.Contract) (cod : Str → Codec) (strict : Bool)
    (c : MutateCfg) (encs : List Str) (body : SMSimfile → BodyResult SMSimfile) (fs : FS) (k : Option Nat)
    (cut : Nat) (b : Str) (hb : given c.backup = some b)
    (hs : ∀ s₀, (mutateD (smWorld M cod strict) c encs body fs k cut).yielded = some s₀ →
      safeDoc (serSM s₀) = true)
    (hlaw : ∀ enc t₀ s₀, (mutateD (smWorld M cod strict) c encs body fs k cut).detected = some (enc, t₀) →
      (mutateD (smWorld M cod strict) c encs body fs k cut).yielded = some s₀ →
      LawAt (cod enc) (M.renderDoc (serSM s₀))) :
    fsGet (mutateD (smWorld M cod strict) c encs body fs k cut).fs c.input = fsGet fs c.input ∨
    ∃ enc t₀ s₀,
      (mutateD (smWorld M cod strict) c encs body fs k cut).detected = some (enc, t₀) ∧
      (mutateD (smWorld M cod strict) c encs body fs k cut).yielded = some s₀ ∧
      (fsGet (mutateD (smWorld M cod strict) c encs body fs k cut).fs b).bind (readSM M (cod enc)) = some s₀ := by
  rcases original_never_lost (smWorld M cod strict) c encs body fs k cut b hb with h | h
  · exact Or.inl h
  · obtain ⟨enc, t₀, s₀, bt, bb, hd, hy, hl, hser, henc, hbk⟩ := h
    refine Or.inr ⟨enc, t₀, s₀, hd, hy, ?_⟩
    rw [hbk, Option.bind_some]
    have hbt : bt = M.renderDoc (serSM s₀) := (Except.ok.inj hser).symm
    rw [hbt] at henc
    exact readSM_of_lawAt M hM (cod enc) s₀ (hlaw enc t₀ s₀ hd hy) (smWorld_loaded_dom M cod strict t₀ s₀ hl)
      (hs s₀ hy) bb henc

/-- the same for SSC files: the backup reads back as the loaded simfile with each chart's note data moved last
(what the library's serializer writes). The loaded simfile is in `C02More.DomSSC'` because it was loaded and
serialized — charts whose note data is `None` (a key-only `#NOTES;`) included. Needs only: whatever the loaded
simfile serializes to is `safeDoc`, and the detected codec satisfies the law at that one rendered text. -/
theorem original_recoverable_ssc (M : Msd) (hM : M.Contract) (cod : Str → Codec) (strict : Bool)
    (c : MutateCfg) (encs : List Str) (body : SSCSimfile → BodyResult SSCSimfile) (fs : FS) (k : Option Nat)
    (cut : Nat) (b : Str) (hb : given c.backup = some b)
    (hs : ∀ s₀ is, (mutateD (sscWorld M cod strict) c encs body fs k cut).yielded = some s₀ →
      serSSC s₀ = .ok is → safeDoc is = true)
    (hlaw : ∀ enc t₀ s₀ is, (mutateD (sscWorld M cod strict) c encs body fs k cut).detected = some (enc, t₀) →
      (mutateD (sscWorld M cod strict) c encs body fs k cut).yielded = some s₀ → serSSC s₀ = .ok is →
      LawAt (cod enc) (M.renderDoc is)) :
    fsGet (mutateD (sscWorld M cod strict) c encs body fs k cut).fs c.input = fsGet fs c.input ∨
    ∃ enc t₀ s₀,
      (mutateD (sscWorld M cod strict) c encs body fs k cut).detected = some (enc, t₀) ∧
      (mutateD (sscWorld M cod strict) c encs body fs k cut).yielded = some s₀ ∧
      (fsGet (mutateD (sscWorld M cod strict) c encs body fs k cut).fs b).bind (readSSC M (cod enc)) =
        some s₀.notesLast := by
  rcases original_never_lost (sscWorld M cod strict) c encs body fs k cut b hb with h | h
  · exact Or.inl h
  · obtain ⟨enc, t₀, s₀, bt, bb, hd, hy, hl, hser, henc, hbk⟩ := h
    refine Or.inr ⟨enc, t₀, s₀, hd, hy, ?_⟩
    rw [hbk, Option.bind_some]
    obtain ⟨hdom, is, hse, hbt⟩ := sscWorld_loaded_dom M cod strict t₀ s₀ bt hl hser
    rw [hbt] at henc
    exact readSSC_of_lawAt M hM (cod enc) s₀ is hse (hlaw enc t₀ s₀ is hd hy hse) hdom (hs s₀ is hy hse) bb henc

/-- without a backup the guarantee is the weaker one the property states: the input keeps its bytes unless the
save was reached and writes the input in place -/
theorem input_kept_unless_written_in_place {Sim : Type} (W : World Sim) (c : MutateCfg) (encs : List Str)
    (body : Sim → BodyResult Sim) (fs : FS) (k : Option Nat) (cut : Nat) :
    fsGet (mutateD W c encs body fs k cut).fs c.input = fsGet fs c.input ∨
    (c.outPath = c.input ∧ ∃ b₀ enc t₀ s₀ bt s₁ ot bb ob, Saves W c encs body fs b₀ enc t₀ s₀ bt s₁ ot bb ob) := by
  rcases mutateDWith_cases handlers W c encs body fs k cut with h | ⟨b₀, enc, t₀, s₀, bt, s₁, ot, bb, ob, h⟩
  · left
    show fsGet (mutateDWith handlers W c encs body fs k cut).fs c.input = _
    rw [h.1]
  · by_cases hi : c.outPath = c.input
    · exact Or.inr ⟨hi, b₀, enc, t₀, s₀, bt, s₁, ot, bb, ob, h⟩
    · left
      unfold mutateD
      rw [mutateDWith_saves handlers h k cut]
      apply saveScriptD_frame c enc fs cut bb ob _ c.input (Ne.symm hi)
      intro hh
      exact (h.noClash c.input hh.symm).1 rfl

/-! ### 6. no stray files -/

/-- "nothing else is created": every file that exists afterwards existed before or is the output or the requested
backup — for every input, fault index and cut -/
theorem no_stray_files {Sim : Type} (W : World Sim) (c : MutateCfg) (encs : List Str)
    (body : Sim → BodyResult Sim) (fs : FS) (k : Option Nat) (cut : Nat) :
    ∀ q ∈ fsPaths (mutateD W c encs body fs k cut).fs,
      q ∈ fsPaths fs ∨ q = c.outPath ∨ given c.backup = some q := by
  intro q hq
  rcases mutateDWith_cases handlers W c encs body fs k cut with h | ⟨b₀, enc, t₀, s₀, bt, s₁, ot, bb, ob, h⟩
  · left
    have : (mutateD W c encs body fs k cut).fs = fs := h.1
    rw [this] at hq
    exact hq
  · unfold mutateD at hq
    rw [mutateDWith_saves handlers h k cut] at hq
    rcases runD_paths cut _ fs k q hq with h1 | ⟨op, hop, _, rfl⟩
    · exact Or.inl h1
    · exact Or.inr (saveScriptD_path c enc bb ob op hop)

/-- and every other path keeps its bytes (absent stays absent), whatever happens -/
theorem other_paths_untouched {Sim : Type} (W : World Sim) (c : MutateCfg) (encs : List Str)
    (body : Sim → BodyResult Sim) (fs : FS) (k : Option Nat) (cut : Nat) (p : Str)
    (hp : p ≠ c.outPath) (hpb : some p ≠ given c.backup) :
    fsGet (mutateD W c encs body fs k cut).fs p = fsGet fs p := by
  rcases mutateDWith_cases handlers W c encs body fs k cut with h | ⟨b₀, enc, t₀, s₀, bt, s₁, ot, bb, ob, h⟩
  · have : (mutateD W c encs body fs k cut).fs = fs := h.1
    rw [this]
  · unfold mutateD
    rw [mutateDWith_saves handlers h k cut]
    exact saveScriptD_frame c enc fs cut bb ob k p hp hpb

/-! ### non-vacuity: the toy setting of Lemmas/MutateDataToy.lean (ASCII then Latin-1, a Latin-1 file, a backup) -/

-- the body raises: every class of exception, the filesystem is the same list
example : (mutateD Toy.W Toy.cfg Toy.encs (Toy.raising Toy.cancel) Toy.fs₀ none 0).outcome = .returned ∧
    (mutateD Toy.W Toy.cfg Toy.encs (Toy.raising Toy.cancel) Toy.fs₀ none 0).fs = Toy.fs₀ := by decide +kernel
example : (mutateD Toy.W Toy.cfg Toy.encs (Toy.raising Toy.cancelSub) Toy.fs₀ none 0).outcome = .returned := by
  decide +kernel
example : (mutateD Toy.W Toy.cfg Toy.encs (Toy.raising Toy.valueErr) Toy.fs₀ (some 1) 2).outcome =
    .propagated Toy.valueErr ∧
    (mutateD Toy.W Toy.cfg Toy.encs (Toy.raising Toy.valueErr) Toy.fs₀ (some 1) 2).fs = Toy.fs₀ := by
  decide +kernel
example : (mutateD Toy.W Toy.cfg Toy.encs (Toy.raising Toy.keyboardInterrupt) Toy.fs₀ none 0).outcome =
    .propagated Toy.keyboardInterrupt := by decide +kernel
-- with the except clauses swapped the whole function would let a cancel escape
example : (mutateDWith [(.bare, .reraise), (.cancelMutation, .swallow)] Toy.W Toy.cfg Toy.encs
    (Toy.raising Toy.cancel) Toy.fs₀ none 0).outcome = .propagated Toy.cancel := by decide +kernel
-- the hypotheses of `body_raises_no_effect`
example : detectD Toy.W.codec Toy.encs Toy.b₀ = some ("latin1".toList, Toy.t₀) ∧ Toy.W.load Toy.t₀ = .ok Toy.s₀ ∧
    entryText Toy.W Toy.cfg Toy.s₀ = .ok Toy.t₀ := by decide +kernel
-- an unencodable edit ('あ' is not Latin-1): error, nothing written
example : (mutateD Toy.W Toy.cfg Toy.encs Toy.editBad Toy.fs₀ none 0).outcome = .encodeError false ∧
    (mutateD Toy.W Toy.cfg Toy.encs Toy.editBad Toy.fs₀ none 0).fs = Toy.fs₀ := by decide +kernel
-- an unserializable simfile at entry (SSC chart without note data), backup requested: raised before the body
example : (mutateD Toy.sscW Toy.cfgSSC Toy.encs (fun s => .returns s) Toy.fsSSC none 0).outcome =
    .serializeError true .keyError ∧
    (mutateD Toy.sscW Toy.cfgSSC Toy.encs (fun s => .returns s) Toy.fsSSC none 0).fs = Toy.fsSSC := by
  decide +kernel
-- … and at exit when no backup is requested
example : (mutateD Toy.sscW ⟨"a.ssc".toList, none, none⟩ Toy.encs (fun s => .returns s) Toy.fsSSC none 0).outcome =
    .serializeError false .keyError := by decide +kernel
-- a fault at each index of the 6-call script, cut = 5 bytes: (backup, input) afterwards
example : (saveScriptD Toy.cfg "latin1".toList Toy.bb Toy.ob).length = 6 := by decide +kernel
example : (saveScriptD Toy.cfg "latin1".toList Toy.bb Toy.ob)[3]? =
    some (.openW "a.sm".toList "latin1".toList) := by decide +kernel
example : (fsGet (mutateD Toy.W Toy.cfg Toy.encs Toy.edit Toy.fs₀ (some 0) 5).fs "a.bak".toList,
           fsGet (mutateD Toy.W Toy.cfg Toy.encs Toy.edit Toy.fs₀ (some 0) 5).fs "a.sm".toList) =
    (none, some Toy.b₀) := by decide +kernel
example : (fsGet (mutateD Toy.W Toy.cfg Toy.encs Toy.edit Toy.fs₀ (some 1) 5).fs "a.bak".toList,
           fsGet (mutateD Toy.W Toy.cfg Toy.encs Toy.edit Toy.fs₀ (some 1) 5).fs "a.sm".toList) =
    (some [35, 84, 73, 84, 76], some Toy.b₀) := by decide +kernel
example : (fsGet (mutateD Toy.W Toy.cfg Toy.encs Toy.edit Toy.fs₀ (some 2) 5).fs "a.bak".toList,
           fsGet (mutateD Toy.W Toy.cfg Toy.encs Toy.edit Toy.fs₀ (some 2) 5).fs "a.sm".toList) =
    (some [35, 84, 73, 84, 76], some Toy.b₀) := by decide +kernel
example : (fsGet (mutateD Toy.W Toy.cfg Toy.encs Toy.edit Toy.fs₀ (some 3) 5).fs "a.bak".toList,
           fsGet (mutateD Toy.W Toy.cfg Toy.encs Toy.edit Toy.fs₀ (some 3) 5).fs "a.sm".toList) =
    (some Toy.bb, some Toy.b₀) := by decide +kernel
example : (fsGet (mutateD Toy.W Toy.cfg Toy.encs Toy.edit Toy.fs₀ (some 4) 5).fs "a.bak".toList,
           fsGet (mutateD Toy.W Toy.cfg Toy.encs Toy.edit Toy.fs₀ (some 4) 5).fs "a.sm".toList) =
    (some Toy.bb, some [35, 84, 73, 84, 76]) := by decide +kernel
example : (fsGet (mutateD Toy.W Toy.cfg Toy.encs Toy.edit Toy.fs₀ (some 5) 5).fs "a.bak".toList,
           fsGet (mutateD Toy.W Toy.cfg Toy.encs Toy.edit Toy.fs₀ (some 5) 5).fs "a.sm".toList) =
    (some Toy.bb, some [35, 84, 73, 84, 76]) := by decide +kernel
example : (mutateD Toy.W Toy.cfg Toy.encs Toy.edit Toy.fs₀ (some 4) 5).outcome = .ioError 4 := by decide +kernel
example : (mutateD Toy.W Toy.cfg Toy.encs Toy.edit Toy.fs₀ (some 6) 5).outcome = .returned := by decide +kernel
-- in the k = 4, 5 rows the input is damaged, and the backup read back is the original simfile
example : (fsGet (mutateD Toy.W Toy.cfg Toy.encs Toy.edit Toy.fs₀ (some 5) 5).fs "a.bak".toList).bind
    (readSM MsdP.msd (Toy.cod "latin1".toList)) = some Toy.s₀ := by decide +kernel
-- `original_recoverable_sm` applied to the pessimistic close of the output (k = 5, 5 bytes on disk)
example :
    fsGet (mutateD Toy.W Toy.cfg Toy.encs Toy.edit Toy.fs₀ (some 5) 5).fs "a.sm".toList = fsGet Toy.fs₀ "a.sm".toList ∨
    ∃ enc t₀ s₀,
      (mutateD Toy.W Toy.cfg Toy.encs Toy.edit Toy.fs₀ (some 5) 5).detected = some (enc, t₀) ∧
      (mutateD Toy.W Toy.cfg Toy.encs Toy.edit Toy.fs₀ (some 5) 5).yielded = some s₀ ∧
      (fsGet (mutateD Toy.W Toy.cfg Toy.encs Toy.edit Toy.fs₀ (some 5) 5).fs "a.bak".toList).bind
        (readSM MsdP.msd (Toy.cod enc)) = some s₀ :=
  original_recoverable_sm MsdP.msd MsdContract.contract Toy.cod true Toy.cfg Toy.encs Toy.edit Toy.fs₀ (some 5) 5
    "a.bak".toList (by decide +kernel)
    (by
      intro s₀ h
      have : some s₀ = some Toy.s₀ := by rw [← h]; decide +kernel
      cases this
      decide +kernel)
    (by
      intro enc t₀ s₀ hd hy
      have h1 : some (enc, t₀) = some ("latin1".toList, Toy.t₀) := by rw [← hd]; decide +kernel
      have h2 : some s₀ = some Toy.s₀ := by rw [← hy]; decide +kernel
      cases h1; cases h2
      exact Toy.lawAt_of_eval (b := Toy.bb) (by decide +kernel) (by decide +kernel))

-- key-only note data (`#NOTES;`, loaded as `None`): the file serializes (written back key-only); with the output
-- write failing after 2 bytes the input is damaged and the backup reads back as the loaded simfile
example : (mutateD Toy.sscW Toy.cfgSSC Toy.encs (fun s => .returns s) Toy.fsKeyOnly none 0).outcome = .returned ∧
    (mutateD Toy.sscW Toy.cfgSSC Toy.encs (fun s => .returns s) Toy.fsKeyOnly none 0).yielded = some Toy.sKeyOnly := by
  decide +kernel
example :
    fsGet (mutateD Toy.sscW Toy.cfgSSC Toy.encs (fun s => .returns s) Toy.fsKeyOnly (some 4) 2).fs "a.ssc".toList =
      some [35, 86] ∧
    (fsGet (mutateD Toy.sscW Toy.cfgSSC Toy.encs (fun s => .returns s) Toy.fsKeyOnly (some 4) 2).fs
      "a.bak".toList).bind (readSSC MsdP.msd (Toy.cod "ascii".toList)) = some Toy.sKeyOnly.notesLast := by
  decide +kernel
example : ∀ is, serSSC Toy.sKeyOnly = .ok is → safeDoc is = true := by
  intro is h
  have : Except.ok is = (Except.ok (O.sscItemsG Toy.sKeyOnly) : Except Err (List Item)) := by
    rw [← h]; decide +kernel
  cases this
  decide +kernel

end Simfile.C06Data
