/-
C06 — `mutate` under failures: a body that raises or cancels, a simfile that cannot be serialized/encoded,
and a fault at any filesystem call of the save.
Vocabulary (Simfile/Lemmas/Mutate.lean):
  `Mut.NoClash c`  : `∀ b, given c.backup = some b → b ≠ c.input ∧ some b ≠ c.output`
  `Mut.writeSide`  : `openW`, `write`, `close` (everything except `openR`); fault indices count these calls
  `Mut.opPath`     : the path an op acts on
No theorem here needs the file map to have pairwise distinct paths or to contain the input.
-/
import Simfile.Lemmas.Mutate
namespace Simfile.C06
open Simfile Simfile.Mut

/-! ### 6. the body raises or cancels: nothing is written -/

theorem body_raise_no_effect (c : MutateCfg) (tries : List (Str × Bool)) (enc : Str) (body : Body)
    (problem : SaveProblem) (hnc : NoClash c) (hdet : detectEncoding tries = some enc)
    (hbody : body = .raises ∨ body = .cancels) :
    (mutate c tries body problem).2 = readOps c.input tries ∧
    (∀ op ∈ (mutate c tries body problem).2, writeSide op = false) ∧
    (∀ (fs : List (Str × Content)) (b : Option Str) (k : Option Nat),
      runWrites fs b (mutate c tries body problem).2 k = fs) ∧
    (body = .cancels → (mutate c tries body problem).1 = .returned) ∧
    (body = .raises → (mutate c tries body problem).1 = .propagated) := by
  have h : (mutate c tries body problem).2 = readOps c.input tries ∧
      (body = .cancels → (mutate c tries body problem).1 = .returned) ∧
      (body = .raises → (mutate c tries body problem).1 = .propagated) := by
    rw [mutate_of_noClash hnc]
    unfold mutate.go
    rw [hdet]
    rcases hbody with rfl | rfl <;> simp
  refine ⟨h.1, ?_, ?_, h.2.1, h.2.2⟩
  · rw [h.1]; exact readOps_not_writeSide _ _
  · intro fs b k
    rw [h.1]
    exact runWrites_no_write b _ (readOps_not_writeSide _ _) fs k

/-- the three bodies are the only ones -/
theorem body_exhaustive (body : Body) : body = .returns ∨ body = .cancels ∨ body = .raises := by
  cases body <;> simp

/-! ### 7. serialization / encoding problems are detected before anything is opened for writing -/

theorem save_problem_no_write (c : MutateCfg) (tries : List (Str × Bool)) (enc : Str)
    (problem : SaveProblem) (hnc : NoClash c) (hdet : detectEncoding tries = some enc)
    (hprob : problem ≠ .none) :
    mutate c tries .returns problem = (.saveError, readOps c.input tries) ∧
    (∀ op ∈ (mutate c tries .returns problem).2, writeSide op = false) ∧
    (∀ (fs : List (Str × Content)) (b : Option Str) (k : Option Nat),
      runWrites fs b (mutate c tries .returns problem).2 k = fs) := by
  have h : mutate c tries .returns problem = (.saveError, readOps c.input tries) := by
    rw [mutate_of_noClash hnc]
    unfold mutate.go
    rw [hdet]
    cases problem with
    | none => exact absurd rfl hprob
    | _ => rfl
  refine ⟨h, ?_, ?_⟩
  · rw [h]; exact readOps_not_writeSide _ _
  · intro fs b k
    rw [h]
    exact runWrites_no_write b _ (readOps_not_writeSide _ _) fs k

/-! ### 8. a failing open-for-write leaves the input as it was -/

/-- `ops` is the script of a fault-free save; the `k`-th write-side call is an `openW` (of the backup or of the
output) and fails -/
theorem open_failure_keeps_input (c : MutateCfg) (tries : List (Str × Bool)) (enc : Str) (k : Nat) (p e : Str)
    (hnc : NoClash c)
    (hk : ((readOps c.input tries ++ saveOps c enc).filter writeSide)[k]? = some (.openW p e))
    (fs : List (Str × Content)) :
    lookupContent (runWrites fs (given c.backup) (readOps c.input tries ++ saveOps c enc) (some k)) c.input =
      lookupContent fs c.input := by
  rw [filter_writeSide_script] at hk
  rw [runWrites_readOps]
  cases hb : given c.backup with
  | none =>
    rw [saveOps_none' hb] at hk ⊢
    rcases k with _ | _ | _ | k
    · rfl
    · simp [block] at hk
    · simp [block] at hk
    · simp [block] at hk
  | some b =>
    have hbi : b ≠ c.input := (hnc b hb).1
    rw [saveOps_some' hb] at hk ⊢
    rcases k with _ | _ | _ | _ | _ | _ | k
    · rfl
    · simp [block] at hk
    · simp [block] at hk
    · rw [runWrites_append_ge _ _ _ _ _ (by rw [nWrites_block]; omega), nWrites_block]
      show lookupContent (runWrites fs (some b) (block b enc) none) c.input = _
      exact lookup_run_block_ne _ _ _ _ _ hbi
    · simp [block] at hk
    · simp [block] at hk
    · simp [block] at hk

/-- more precisely: the failing `openW` leaves its own file as it was, too -/
theorem open_failure_keeps_target (c : MutateCfg) (tries : List (Str × Bool)) (enc : Str) (k : Nat) (p e : Str)
    (hnc : NoClash c)
    (hk : ((readOps c.input tries ++ saveOps c enc).filter writeSide)[k]? = some (.openW p e))
    (fs : List (Str × Content)) :
    lookupContent (runWrites fs (given c.backup) (readOps c.input tries ++ saveOps c enc) (some k)) p =
      lookupContent fs p := by
  rw [filter_writeSide_script] at hk
  rw [runWrites_readOps]
  cases hb : given c.backup with
  | none =>
    rw [saveOps_none' hb] at hk ⊢
    rcases k with _ | _ | _ | k
    · rfl
    · simp [block] at hk
    · simp [block] at hk
    · simp [block] at hk
  | some b =>
    have hbo : b ≠ c.outPath := backup_ne_outPath hnc hb
    rw [saveOps_some' hb] at hk ⊢
    rcases k with _ | _ | _ | _ | _ | _ | k
    · rfl
    · simp [block] at hk
    · simp [block] at hk
    · rw [runWrites_append_ge _ _ _ _ _ (by rw [nWrites_block]; omega), nWrites_block]
      show lookupContent (runWrites fs (some b) (block b enc) none) p = _
      have hp : c.outPath = p := by
        have : c.outPath = p ∧ enc = e := by simpa [block] using hk
        exact this.1
      rw [← hp]
      exact lookup_run_block_ne _ _ _ _ _ hbo
    · simp [block] at hk
    · simp [block] at hk
    · simp [block] at hk

/-! ### 9. with a backup, the original bytes survive every single fault -/

/-- `k = none` is the fault-free run, `k = some n` the run whose `n`-th write-side call fails (any `n`) -/
theorem backup_protects_original (c : MutateCfg) (tries : List (Str × Bool)) (enc : Str) (b : Str)
    (hnc : NoClash c) (hb : given c.backup = some b) (fs : List (Str × Content)) (k : Option Nat) :
    let fs' := runWrites fs (given c.backup) (readOps c.input tries ++ saveOps c enc) k
    (lookupContent fs' c.input = lookupContent fs c.input ∨ lookupContent fs' b = some (.written true)) ∧
    ((∀ n, k = some n → 3 ≤ n) → lookupContent fs' b = some (.written true)) := by
  have hbi : b ≠ c.input := (hnc b hb).1
  have hbo : b ≠ c.outPath := backup_ne_outPath hnc hb
  simp only
  rw [runWrites_readOps, saveOps_some' hb, hb]
  -- once the backup block has run fault-free, the backup is complete and the output block cannot touch it
  have done : ∀ k', lookupContent
      (runWrites (runWrites fs (some b) (block b enc) none) (some b) (block c.outPath enc) k') b =
        some (.written true) := by
    intro k'
    rw [lookup_run_block_ne _ _ _ _ _ (Ne.symm hbo), lookup_run_block_none]
    simp
  cases k with
  | none =>
    rw [runWrites_append_none]
    exact ⟨Or.inr (done none), fun _ => done none⟩
  | some n =>
    by_cases hn : n < 3
    · rw [runWrites_append_lt _ _ _ _ _ (by rw [nWrites_block]; exact hn)]
      refine ⟨Or.inl (lookup_run_block_ne _ _ _ _ _ hbi), fun h => ?_⟩
      have := h n rfl
      omega
    · rw [runWrites_append_ge _ _ _ _ _ (by rw [nWrites_block]; omega)]
      exact ⟨Or.inr (done _), fun _ => done _⟩

/-- while the backup is being written, the output path is untouched as well -/
theorem early_fault_keeps_output (c : MutateCfg) (tries : List (Str × Bool)) (enc : Str) (b : Str)
    (hnc : NoClash c) (hb : given c.backup = some b) (fs : List (Str × Content)) (n : Nat) (hn : n < 3) :
    lookupContent (runWrites fs (given c.backup) (readOps c.input tries ++ saveOps c enc) (some n)) c.outPath =
      lookupContent fs c.outPath := by
  rw [runWrites_readOps, saveOps_some' hb, hb,
    runWrites_append_lt _ _ _ _ _ (by rw [nWrites_block]; exact hn)]
  exact lookup_run_block_ne _ _ _ _ _ (backup_ne_outPath hnc hb)

/-- a fault index beyond the script is no fault -/
theorem late_fault_is_no_fault (c : MutateCfg) (tries : List (Str × Bool)) (enc : Str) (b : Str)
    (hb : given c.backup = some b) (fs : List (Str × Content)) (n : Nat) (hn : 6 ≤ n) :
    runWrites fs (given c.backup) (readOps c.input tries ++ saveOps c enc) (some n) =
      runWrites fs (given c.backup) (readOps c.input tries ++ saveOps c enc) none := by
  rw [runWrites_readOps, runWrites_readOps, saveOps_some' hb,
    runWrites_append_ge _ _ _ _ _ (by rw [nWrites_block]; omega), runWrites_append_none, nWrites_block]
  have := runWrites_append_ge (given c.backup) (block c.outPath enc) []
    (runWrites fs (given c.backup) (block b enc) none) (n - 3) (by rw [nWrites_block]; omega)
  rw [List.append_nil, runWrites_nil] at this
  exact this

/-- the complete fault table of a save with a backup: contents of the backup and of the output afterwards -/
theorem fault_table (c : MutateCfg) (tries : List (Str × Bool)) (enc : Str) (b : Str)
    (hnc : NoClash c) (hb : given c.backup = some b) (fs : List (Str × Content)) (k : Option Nat) :
    let fs' := runWrites fs (given c.backup) (readOps c.input tries ++ saveOps c enc) k
    (lookupContent fs' b, lookupContent fs' c.outPath) =
      match k with
      | some 0 => (lookupContent fs b, lookupContent fs c.outPath)      -- open(backup) failed
      | some 1 => (some .truncated, lookupContent fs c.outPath)          -- write(backup) failed
      | some 2 => (some (.written true), lookupContent fs c.outPath)     -- close(backup) failed
      | some 3 => (some (.written true), lookupContent fs c.outPath)     -- open(output) failed
      | some 4 => (some (.written true), some .truncated)                -- write(output) failed
      | _ => (some (.written true), some (.written false)) := by         -- close(output) failed, or no fault
  have hbo : b ≠ c.outPath := backup_ne_outPath hnc hb
  have hob : c.outPath ≠ b := Ne.symm hbo
  have e2 : decide (some b = some c.outPath) = false := by simp [hbo]
  simp only
  rw [runWrites_readOps, saveOps_some' hb, hb]
  rcases k with _ | _ | _ | _ | _ | _ | _ | k <;>
    simp only [block, List.cons_append, List.nil_append, runWrites_cons_none, runWrites_nil,
      runWrites_openW_zero, runWrites_write_zero, runWrites_close_zero,
      runWrites_succ _ _ _ _ _ (show writeSide (FsOp.openW _ _) = true from rfl),
      runWrites_succ _ _ _ _ _ (show writeSide (FsOp.write _) = true from rfl),
      runWrites_succ _ _ _ _ _ (show writeSide (FsOp.close _) = true from rfl),
      applyOp_openW, applyOp_write, applyOp_close,
      lookup_setFile_self, lookup_setFile_ne _ _ hbo, lookup_setFile_ne _ _ hob, e2, decide_true]
/-- the fault table of a save without a backup: the content of the output (which is the input unless an output
name was given) afterwards -/
theorem fault_table_no_backup (c : MutateCfg) (tries : List (Str × Bool)) (enc : Str)
    (hb : given c.backup = none) (fs : List (Str × Content)) (k : Option Nat) :
    let fs' := runWrites fs (given c.backup) (readOps c.input tries ++ saveOps c enc) k
    lookupContent fs' c.outPath =
      match k with
      | some 0 => lookupContent fs c.outPath      -- open(output) failed
      | some 1 => some .truncated                 -- write(output) failed
      | _ => some (.written false) := by          -- close(output) failed, or no fault
  simp only
  rw [runWrites_readOps, saveOps_none' hb, hb]
  rcases k with _ | _ | _ | _ | k <;>
    simp only [block, runWrites_cons_none, runWrites_nil,
      runWrites_openW_zero, runWrites_write_zero, runWrites_close_zero,
      runWrites_succ _ _ _ _ _ (show writeSide (FsOp.openW _ _) = true from rfl),
      runWrites_succ _ _ _ _ _ (show writeSide (FsOp.write _) = true from rfl),
      runWrites_succ _ _ _ _ _ (show writeSide (FsOp.close _) = true from rfl),
      applyOp_openW, applyOp_write, applyOp_close, lookup_setFile_self, reduceCtorEq, decide_false]

/-! ### 10. no stray files -/

theorem no_stray_files (c : MutateCfg) (tries : List (Str × Bool)) (enc : Str) (fs : List (Str × Content))
    (k : Option Nat) :
    ∀ q ∈ (runWrites fs (given c.backup) (readOps c.input tries ++ saveOps c enc) k).map (·.1),
      q ∈ fs.map (·.1) ∨ q = c.outPath ∨ given c.backup = some q := by
  intro q hq
  rw [runWrites_readOps] at hq
  rcases runWrites_paths _ _ fs k q hq with h | ⟨op, hop, _, rfl⟩
  · exact Or.inl h
  · exact Or.inr (saveOps_path c enc op hop)

/-- the same for an arbitrary script and an arbitrary fault: only paths of write-side calls can appear -/
theorem no_stray_files_general (fs : List (Str × Content)) (b : Option Str) (ops : List FsOp) (k : Option Nat) :
    ∀ q ∈ (runWrites fs b ops k).map (·.1),
      q ∈ fs.map (·.1) ∨ ∃ op ∈ ops, writeSide op = true ∧ opPath op = q :=
  runWrites_paths b ops fs k

/-! ### non-vacuity -/

def cfg0 : MutateCfg := ⟨"a.sm".toList, none, some "a.bak".toList⟩
def tries0 : List (Str × Bool) := [("utf-8".toList, false), ("cp1252".toList, true)]
def fs0 : List (Str × Content) := [("a.sm".toList, .original), ("other".toList, .original)]

example : NoClash cfg0 := by decide +kernel
example : detectEncoding tries0 = some "cp1252".toList := by decide +kernel
example : given cfg0.backup = some "a.bak".toList := by decide +kernel
example : SaveProblem.unencodable ≠ .none := by decide
example : given (⟨"a.sm".toList, some [], none⟩ : MutateCfg).backup = none := by decide +kernel
example : Body.raises = .raises ∨ Body.raises = .cancels := by decide
-- the open-for-write calls are the write-side calls number 0 and 3
example : ((readOps cfg0.input tries0 ++ saveOps cfg0 "cp1252".toList).filter writeSide)[0]? =
    some (.openW "a.bak".toList "cp1252".toList) := by decide +kernel
example : ((readOps cfg0.input tries0 ++ saveOps cfg0 "cp1252".toList).filter writeSide)[3]? =
    some (.openW "a.sm".toList "cp1252".toList) := by decide +kernel
-- a failing write of the output truncates the input, but the backup is complete
example : lookupContent (runWrites fs0 (given cfg0.backup)
    (readOps cfg0.input tries0 ++ saveOps cfg0 "cp1252".toList) (some 4)) "a.sm".toList = some .truncated := by
  decide +kernel
example : lookupContent (runWrites fs0 (given cfg0.backup)
    (readOps cfg0.input tries0 ++ saveOps cfg0 "cp1252".toList) (some 4)) "a.bak".toList =
    some (.written true) := by
  decide +kernel

end Simfile.C06
