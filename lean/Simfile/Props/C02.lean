/-
C02: an SSC simfile object in the domain `DomSSC` survives serialize → parse, up to each chart's
note data being moved last (`notesLast`); nothing else is changed or dropped.
-/
import Simfile.Model.Msd
import Simfile.Lemmas.ObjectsSSC
namespace Simfile.C02
open Simfile Simfile.O

/-- an SSC chart with distinct upper-case keys other than NOTEDATA, whose note data
(`NOTES`, or `NOTES2` when only that one is present) has a string value; any other values -/
structure DomSSCChart (c : SSCChart) : Prop where
  wf : c.props.WF
  upper : ∀ k ∈ c.props.keys, upper k = k
  notND : ∀ k ∈ c.props.keys, k ≠ kNOTEDATA
  notes : ∃ n, c.props.get? (notesKey c) = some (some n)

structure DomSSC (s : SSCSimfile) : Prop where
  wf : s.props.WF
  upper : ∀ k ∈ s.props.keys, upper k = k
  notND : ∀ k ∈ s.props.keys, k ≠ kNOTEDATA
  charts : ∀ c ∈ s.charts, DomSSCChart c

/-- a chart in the domain has NOTES or NOTES2 -/
theorem DomSSCChart.has_notes {c : SSCChart} (h : DomSSCChart c) :
    kNOTES ∈ c.props.keys ∨ kNOTES2 ∈ c.props.keys := by
  obtain ⟨n, hn⟩ := h.notes
  have : notesKey c ∈ c.props.keys := by
    rw [← contains_iff, contains_eq, hn]; rfl
  rcases notesKey_cases c with e | e <;> rw [e] at this
  · exact Or.inl this
  · exact Or.inr this

theorem serSSC_eq (s : SSCSimfile) (h : DomSSC s) : serSSC s = .ok (sscItems s) :=
  serSSC_ok s (fun c hc => (h.charts c hc).notes)

theorem load_sscItems (s : SSCSimfile) (h : DomSSC s) : loadSSC (paramsOf (sscItems s)) = s.notesLast := by
  rw [loadSSC_closed, paramsOf_sscItems,
    segs_append_of_noND _ _ (isND_of_mem_props s.props h.upper h.notND),
    segs_charts _ (fun c hc => isND_chartBody c (h.charts c hc).upper (h.charts c hc).notND)]
  simp only [List.append_nil, List.map_map]
  unfold SSCSimfile.notesLast
  congr 1
  · unfold dictOf
    rw [map_kvOf_itemParam _ h.upper, setAll_rebuild_nil _ h.wf]
  · apply List.map_congr_left
    intro c hc
    have hd := h.charts c hc
    obtain ⟨n, hn⟩ := hd.notes
    exact dictOf_chartBody c hd.wf hd.upper n hn

/-- 6. serialization succeeds and reloading gives the simfile with each chart's note data moved last -/
theorem roundtrip_params (s : SSCSimfile) (h : DomSSC s) :
    (serSSC s).map (fun is => loadSSC (paramsOf is)) = .ok s.notesLast := by
  rw [serSSC_eq s h]
  show Except.ok (loadSSC (paramsOf (sscItems s))) = _
  rw [load_sscItems s h]

/-- if every chart already ends with its note-data item, the result is `s` itself -/
theorem roundtrip_eq (s : SSCSimfile) (h : DomSSC s)
    (hl : ∀ c ∈ s.charts, c.props.getLast?.map (·.1) = some (notesKey c)) :
    (serSSC s).map (fun is => loadSSC (paramsOf is)) = .ok s := by
  rw [roundtrip_params s h]
  congr 1
  unfold SSCSimfile.notesLast
  obtain ⟨props, charts⟩ := s
  congr 1
  conv => rhs; rw [← List.map_id charts]
  apply List.map_congr_left
  intro c hc
  exact notesLast_of_last c (h.charts c hc).wf (hl c hc)

/-- serializing the reloaded simfile writes the same items (holds for every simfile) -/
theorem reserialize_stable (s : SSCSimfile) : serSSC s.notesLast = serSSC s := serSSC_notesLast s

theorem notesLast_idem (s : SSCSimfile) : s.notesLast.notesLast = s.notesLast := by
  unfold SSCSimfile.notesLast
  simp only [List.map_map]
  congr 1
  apply List.map_congr_left
  intro c _
  exact notesLast_notesLast c

/-- no property is dropped, whatever values coincide: every `(k, v)` item of the i-th chart of `s` is an
item of the i-th reloaded chart (and there are as many charts) -/
theorem nothing_dropped (s : SSCSimfile) (h : DomSSC s) :
    ∃ s', (serSSC s).map (fun is => loadSSC (paramsOf is)) = .ok s' ∧ s'.props = s.props ∧
      s'.charts.length = s.charts.length ∧
      ∀ (i : Nat) (c c' : SSCChart), s.charts[i]? = some c → s'.charts[i]? = some c' →
        ∀ kv ∈ c.props, kv ∈ c'.props := by
  refine ⟨s.notesLast, roundtrip_params s h, rfl, by simp [SSCSimfile.notesLast], ?_⟩
  intro i c c' hc hc' kv hkv
  simp only [SSCSimfile.notesLast, List.getElem?_map, hc, Option.map_some, Option.some.injEq] at hc'
  subst hc'
  exact mem_notesLast c (h.charts c (List.mem_of_getElem? hc)).wf kv hkv

/-- 7. the round trip through text, for any tokenizer satisfying the contract -/
theorem roundtrip (M : Msd) (hM : M.Contract) (s : SSCSimfile) (h : DomSSC s)
    (hs : (serSSC s).map safeDoc = .ok true) (strict : Bool) :
    (serSSC s).bind (fun is => (M.tokenize strict (M.renderDoc is)).map loadSSC) = .ok s.notesLast := by
  rw [serSSC_eq s h] at hs ⊢
  have hs' : safeDoc (sscItems s) = true := by
    have : Except.ok (safeDoc (sscItems s)) = (Except.ok true : Except Err Bool) := hs
    exact Except.ok.inj this
  show (M.tokenize strict (M.renderDoc (sscItems s))).map loadSSC = _
  rw [hM.roundtrip (sscItems s) strict (text_mem_sscItems s) hs']
  show Except.ok (loadSSC (paramsOf (sscItems s))) = _
  rw [load_sscItems s h]

/-- content detection sees an SSC file when the first property is VERSION -/
theorem detected_as_ssc (s : SSCSimfile) (h : DomSSC s) (hv : s.props.keys.head? = some kVERSION) :
    (serSSC s).map (fun is => firstKeyIsVersion (paramsOf is)) = .ok true := by
  rw [serSSC_eq s h]
  show Except.ok (firstKeyIsVersion (paramsOf (sscItems s))) = _
  congr 1
  rw [paramsOf_sscItems]
  obtain ⟨props, charts⟩ := s
  cases props with
  | nil => simp [Dict.keys] at hv
  | cons kv d =>
    simp only [Dict.keys, List.map_cons, List.head?_cons, Option.some.injEq] at hv
    simp only [List.map_cons, List.cons_append, firstKeyIsVersion, itemParam, valueParam_key, hv]
    decide

/-- `SSCChart.from_str(str(chart))` for a chart in the domain that does not have both NOTES and NOTES2
(the chart parser stops at the first of the two keys, see `chart_from_str_both`) -/
theorem chart_from_str (c : SSCChart) (h : DomSSCChart c)
    (hone : ¬ (kNOTES ∈ c.props.keys ∧ kNOTES2 ∈ c.props.keys)) :
    (serSSCChart c).map (fun is => loadSSCChart (paramsOf is)) = .ok (.ok c.notesLast) := by
  obtain ⟨n, hn⟩ := h.notes
  rw [serSSCChart_ok c n hn]
  show Except.ok (loadSSCChart (paramsOf (sscChartItems c))) = _
  congr 1
  rw [paramsOf_sscChartItems]
  unfold loadSSCChart
  simp only [show upper ndParam.key = kNOTEDATA from by decide, ne_eq, not_true_eq_false, if_false]
  congr 1
  unfold chartBody
  rw [loadSSCChartBody_eq]
  · exact dictOf_chartBody c h.wf h.upper n hn
  · intro p hp
    obtain ⟨kv, hkv, rfl⟩ := List.mem_map.mp hp
    have hmem := List.mem_filter.mp hkv
    have hk : kv.1 ∈ c.props.keys := List.mem_map.mpr ⟨kv, hmem.1, rfl⟩
    have hne : kv.1 ≠ notesKey c := by simpa using hmem.2
    unfold isNotesKey itemParam
    rw [valueParam_key, h.upper _ hk]
    apply decide_eq_false
    rintro (e | e)
    · -- NOTES is a key, so it is the notes key
      rw [e] at hk hne
      apply hne
      unfold notesKey
      rw [(contains_iff _ _).mpr hk]; rfl
    · rw [e] at hk hne
      by_cases h1 : kNOTES ∈ c.props.keys
      · exact hone ⟨h1, hk⟩
      · apply hne
        unfold notesKey
        have : c.props.contains kNOTES = false := by
          rw [Bool.eq_false_iff]; intro hc; exact h1 ((contains_iff _ _).mp hc)
        rw [this, (contains_iff _ _).mpr hk]; rfl

/-! ### non-vacuity and the counter-example for charts with both NOTES and NOTES2 -/

instance (d : Dict) : Decidable d.WF := inferInstanceAs (Decidable (List.Nodup _))

theorem notes_iff (c : SSCChart) :
    (∃ n, c.props.get? (notesKey c) = some (some n)) ↔ ((c.props.get? (notesKey c)).bind id).isSome = true := by
  cases c.props.get? (notesKey c) with
  | none => simp
  | some o => cases o <;> simp

instance (c : SSCChart) : Decidable (DomSSCChart c) :=
  decidable_of_iff (c.props.WF ∧ (∀ k ∈ c.props.keys, Simfile.upper k = k) ∧
    (∀ k ∈ c.props.keys, k ≠ kNOTEDATA) ∧ ((c.props.get? (notesKey c)).bind id).isSome = true)
    ⟨fun ⟨a, b, c, d⟩ => ⟨a, b, c, (notes_iff _).mpr d⟩, fun ⟨a, b, c, d⟩ => ⟨a, b, c, (notes_iff _).mp d⟩⟩
instance (s : SSCSimfile) : Decidable (DomSSC s) :=
  decidable_of_iff (s.props.WF ∧ (∀ k ∈ s.props.keys, Simfile.upper k = k) ∧
    (∀ k ∈ s.props.keys, k ≠ kNOTEDATA) ∧ (∀ c ∈ s.charts, DomSSCChart c))
    ⟨fun ⟨a, b, c, d⟩ => ⟨a, b, c, d⟩, fun ⟨a, b, c, d⟩ => ⟨a, b, c, d⟩⟩

/-- the blank SSC simfile of the library with one blank chart -/
def blankSSC : SSCSimfile := ⟨T.blankSSCSimfile, [⟨T.blankSSCChart⟩]⟩

example : DomSSC blankSSC := by decide +kernel
example : (serSSC blankSSC).map safeDoc = .ok true := by decide +kernel
example : blankSSC.props.keys.head? = some kVERSION := by decide
example : ∀ c ∈ blankSSC.charts, c.props.getLast?.map (·.1) = some (notesKey c) := by decide +kernel

/-- a chart whose NOTES2 sits in the middle, whose other values equal the note data (one is `none`), with a
multi-value key; a second chart with both NOTES and NOTES2; values with ':', ';', '\\', "//", line breaks -/
def trickySSC : SSCSimfile :=
  ⟨[("VERSION".toList, some "0.83".toList), ("TITLE".toList, some "a:b;c\\d//e\n f\r\n".toList),
    ("SUBTITLE".toList, none), ("DISPLAYBPM".toList, some "1:2".toList)],
   [⟨[("STEPSTYPE".toList, some "0000".toList), ("NOTES2".toList, some "0000".toList),
      ("CREDIT".toList, some "0000".toList), ("DESCRIPTION".toList, none),
      ("ATTACKS".toList, some "0000:0000".toList)]⟩,
    ⟨[("NOTES".toList, some "1111".toList), ("NOTES2".toList, some "1111".toList), ("METER".toList, some "1111".toList)]⟩,
    ⟨T.blankSSCChart⟩]⟩

example : DomSSC trickySSC := by decide +kernel
example : (serSSC trickySSC).map safeDoc = .ok true := by decide +kernel
example : trickySSC.notesLast ≠ trickySSC := by decide +kernel
example : (serSSC trickySSC).map (fun is => loadSSC (paramsOf is)) = .ok trickySSC.notesLast :=
  roundtrip_params _ (by decide +kernel)

/-- FINDING: for a chart that has both NOTES and NOTES2, `SSCChart.from_str(str(chart))` stops at
whichever of the two keys is written first and loses the rest, so the extra hypothesis of
`chart_from_str` cannot be dropped -/
def bothNotes : SSCChart :=
  ⟨[("NOTES2".toList, some "x".toList), ("CREDIT".toList, some "y".toList), ("NOTES".toList, some "z".toList)]⟩

example : DomSSCChart bothNotes := by decide +kernel
theorem chart_from_str_both :
    (serSSCChart bothNotes).map (fun is => loadSSCChart (paramsOf is)) =
      .ok (.ok ⟨[("NOTES2".toList, some "x".toList)]⟩) ∧
    (serSSCChart bothNotes).map (fun is => loadSSCChart (paramsOf is)) ≠ .ok (.ok bothNotes.notesLast) := by
  decide +kernel

end Simfile.C02
