/- C18, clause "equality … see exactly the mapping's content": `BaseSimfile.__eq__` modelled step by step as CPython computes it
(type, `dict.__eq__`, key sequences position by position, chart lists) holds exactly when the two objects have the same kind, the
same items in the same order and equal charts — in particular never between a mapping and a proper prefix of it. -/
import Simfile.Lemmas.Equality
namespace Simfile.C18Eq
open Simfile Dict

/-- equality of two simfiles: the same class, the same items in the same order, equal chart lists -/
theorem simfile_eq_iff (a b : EqObj) (ha : WF a.items) (hb : WF b.items) :
    simfileEq a b = true ↔
      a.kind = b.kind ∧ a.items = b.items ∧ chartsEq (a.kind = .smSimfile) a.charts b.charts = true := by
  unfold simfileEq
  simp only [Bool.and_eq_true, decide_eq_true_eq, orderedDictEq_iff a.items b.items ha hb, and_assoc]

/-- for SSC simfiles (charts are ordered mappings too) equality is equality of everything there is -/
theorem ssc_simfile_eq_iff (a b : EqObj) (hk : a.kind ≠ .smSimfile) (ha : WF a.items) (hb : WF b.items)
    (hca : ∀ d ∈ a.charts, WF d) (hcb : ∀ d ∈ b.charts, WF d) : simfileEq a b = true ↔ a = b := by
  rw [simfile_eq_iff a b ha hb]
  have hs : decide (a.kind = Kind.smSimfile) = false := by simpa using hk
  rw [hs, sscChartsEq_iff a.charts b.charts hca hcb]
  constructor
  · rintro ⟨h1, h2, h3⟩
    cases a; cases b; simp_all
  · rintro rfl; exact ⟨rfl, rfl, rfl⟩

/-- `!=` is the negation; a mapping with one more item at the end — or without its last item — is a different mapping -/
theorem longer_unequal (a : EqObj) (kv : Str × Option Str) (ha : WF a.items) (hb : WF (a.items ++ [kv])) :
    simfileEq a { a with items := a.items ++ [kv] } = false ∧ simfileEq { a with items := a.items ++ [kv] } a = false := by
  have hne : a.items ≠ a.items ++ [kv] := by
    intro e
    have := congrArg List.length e
    simp at this
  constructor
  · cases h : simfileEq a { a with items := a.items ++ [kv] } with
    | false => rfl
    | true => exact absurd ((simfile_eq_iff _ _ ha hb).mp h).2.1 hne
  · cases h : simfileEq { a with items := a.items ++ [kv] } a with
    | false => rfl
    | true => exact absurd ((simfile_eq_iff _ _ hb ha).mp h).2.1.symm hne

/-- a changed value under one key makes the objects unequal -/
theorem value_change_unequal (a b : EqObj) (ha : WF a.items) (hb : WF b.items) (k : Str)
    (h : Dict.get? a.items k ≠ Dict.get? b.items k) : simfileEq a b = false := by
  cases he : simfileEq a b with
  | false => rfl
  | true =>
    have := ((simfile_eq_iff a b ha hb).mp he).2.1
    rw [this] at h; exact absurd rfl h

/-- two items in a different order make the objects unequal (equality is order-sensitive) -/
theorem order_matters (a b : EqObj) (ha : WF a.items) (hb : WF b.items) (h : keys a.items ≠ keys b.items) :
    simfileEq a b = false := by
  cases he : simfileEq a b with
  | false => rfl
  | true =>
    have := ((simfile_eq_iff a b ha hb).mp he).2.1
    rw [this] at h; exact absurd rfl h

/-- an SM chart compares by its six fields, read through the attributes -/
theorem sm_chart_eq_fields (a b : Dict) :
    smChartEq a b = true ↔ ∀ key ∈ T.smChartProperties, attrGet .smChart a (lower key) = attrGet .smChart b (lower key) := by
  unfold smChartEq
  simp only [List.all_eq_true, beq_iff_eq]

-- non-vacuity: the seeded prefix scenario (TITLE vs TITLE, FOO) and an order swap
example : simfileEq ⟨.smSimfile, [("TITLE".toList, some "x".toList)], []⟩
    ⟨.smSimfile, [("TITLE".toList, some "x".toList), ("FOO".toList, some [])], []⟩ = false := by decide +kernel
example : simfileEq ⟨.sscSimfile, [("A".toList, some []), ("B".toList, some [])], []⟩
    ⟨.sscSimfile, [("B".toList, some []), ("A".toList, some [])], []⟩ = false := by decide +kernel
example : simfileEq ⟨.sscSimfile, [("A".toList, some []), ("B".toList, none)], [[("NOTES".toList, some [])]]⟩
    ⟨.sscSimfile, [("A".toList, some []), ("B".toList, none)], [[("NOTES".toList, some [])]]⟩ = true := by decide +kernel

end Simfile.C18Eq
