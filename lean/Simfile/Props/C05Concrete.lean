/-
C05, concrete instances: the "what is written parses back" / "second no-op save changes no byte" theorems of
Props/C05.lean with the msdparser contract DISCHARGED for the modelled lexer + parser (`MsdP.msd`,
`MsdContract.contract`). Only the codec law remains a hypothesis (Python's codecs are the trusted base).
-/
import Simfile.Props.C05
import Simfile.Props.MsdContract
namespace Simfile.C05
open Simfile

theorem output_parses_back_sm_concrete (c : Codec) (hc : c.Law) (s : SMSimfile)
    (h : C01.DomSM s) (hs : safeDoc (serSM s) = true) (b : List UInt8)
    (hw : writtenSM MsdP.msd c s = some b) : readSM MsdP.msd c b = some s :=
  output_parses_back_sm MsdP.msd MsdContract.contract c hc s h hs b hw

theorem output_parses_back_ssc_concrete (c : Codec) (hc : c.Law) (s : SSCSimfile)
    (h : C02.DomSSC s) (hs : (serSSC s).map safeDoc = .ok true) (b : List UInt8)
    (hw : writtenSSC MsdP.msd c s = some b) : readSSC MsdP.msd c b = some s.notesLast :=
  output_parses_back_ssc MsdP.msd MsdContract.contract c hc s h hs b hw

theorem noop_idempotent_sm_concrete (c : Codec) (hc : c.Law) (b₀ b₁ : List UInt8)
    (s : SMSimfile) (hr : readSM MsdP.msd c b₀ = some s) (hs : safeDoc (serSM s) = true)
    (hw : writtenSM MsdP.msd c s = some b₁) :
    readSM MsdP.msd c b₁ = some s ∧ writtenSM MsdP.msd c s = some b₁ :=
  noop_idempotent_sm MsdP.msd MsdContract.contract c hc b₀ b₁ s hr hs hw

theorem noop_bytes_stable_sm_concrete (c : Codec) (hc : c.Law) (b₀ b₁ : List UInt8)
    (s : SMSimfile) (hr : readSM MsdP.msd c b₀ = some s) (hs : safeDoc (serSM s) = true)
    (hw : writtenSM MsdP.msd c s = some b₁) :
    ∀ s', readSM MsdP.msd c b₁ = some s' → writtenSM MsdP.msd c s' = some b₁ :=
  noop_bytes_stable_sm MsdP.msd MsdContract.contract c hc b₀ b₁ s hr hs hw

theorem noop_idempotent_ssc_concrete (c : Codec) (hc : c.Law) (b₀ b₁ : List UInt8)
    (s₀ : SSCSimfile) (hr : readSSC MsdP.msd c b₀ = some s₀)
    (hnotes : ∀ ch ∈ s₀.charts, ∃ n, ch.props.get? (notesKey ch) = some (some n))
    (hs : (serSSC s₀).map safeDoc = .ok true) (hw : writtenSSC MsdP.msd c s₀ = some b₁) :
    readSSC MsdP.msd c b₁ = some s₀.notesLast ∧ writtenSSC MsdP.msd c s₀.notesLast = some b₁ ∧
    ∀ s', readSSC MsdP.msd c b₁ = some s' → writtenSSC MsdP.msd c s' = some b₁ ∧ s'.notesLast = s' :=
  noop_idempotent_ssc MsdP.msd MsdContract.contract c hc b₀ b₁ s₀ hr hnotes hs hw

/-! ### non-vacuity: a small SM simfile and a small SSC simfile, the modelled msdparser and the ASCII codec -/

def tinySM : SMSimfile :=
  ⟨[("TITLE".toList, some "a:b".toList), ("ARTIST".toList, none)],
   [⟨[("STEPSTYPE".toList, some "s".toList), ("DESCRIPTION".toList, some "".toList),
      ("DIFFICULTY".toList, some "Hard".toList), ("METER".toList, some "1".toList),
      ("RADARVALUES".toList, some "0".toList), ("NOTES".toList, some "00\n01".toList)], none⟩]⟩

example : C01.DomSM tinySM := by decide +kernel
example : safeDoc (serSM tinySM) = true := by decide +kernel
/-- the file is written (the text is ASCII) … -/
example : (writtenSM MsdP.msd Cd.asciiCodec tinySM).isSome = true := by decide +kernel
/-- … and, by the theorem, reads back as the same simfile -/
example (b : List UInt8) (hw : writtenSM MsdP.msd Cd.asciiCodec tinySM = some b) :
    readSM MsdP.msd Cd.asciiCodec b = some tinySM :=
  output_parses_back_sm_concrete _ Cd.asciiCodec_law _ (by decide +kernel) (by decide +kernel) b hw

/-- the whole chain evaluated: encode the rendered text, decode, tokenize strictly, load -/
example : (writtenSM MsdP.msd Cd.asciiCodec tinySM).bind (readSM MsdP.msd Cd.asciiCodec) = some tinySM := by
  decide +kernel

def tinySSC : SSCSimfile :=
  ⟨[("VERSION".toList, some "0.83".toList), ("TITLE".toList, some "a;b".toList)],
   [⟨[("NOTES".toList, some "00".toList), ("METER".toList, some "1".toList)]⟩]⟩

example : C02.DomSSC tinySSC := by decide +kernel
example : (serSSC tinySSC).map safeDoc = .ok true := by decide +kernel
example : (writtenSSC MsdP.msd Cd.asciiCodec tinySSC).isSome = true := by decide +kernel
/-- the first save normalises: the note data moves last -/
example : tinySSC.notesLast ≠ tinySSC := by decide +kernel
example (b : List UInt8) (hw : writtenSSC MsdP.msd Cd.asciiCodec tinySSC = some b) :
    readSSC MsdP.msd Cd.asciiCodec b = some tinySSC.notesLast :=
  output_parses_back_ssc_concrete _ Cd.asciiCodec_law _ (by decide +kernel) (by decide +kernel) b hw
example : (writtenSSC MsdP.msd Cd.asciiCodec tinySSC).bind (readSSC MsdP.msd Cd.asciiCodec) =
    some tinySSC.notesLast := by decide +kernel

end Simfile.C05
