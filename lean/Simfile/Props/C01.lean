import Simfile.Model.Objects
