/-
C01: an SM simfile object in the domain `DomSM` survives serialize → parse unchanged.
-/
import Simfile.Model.Msd
import Simfile.Lemmas.ObjectsO
namespace Simfile.C01
open Simfile Simfile.O

/-- an SM chart as the library builds them: the six fields of `SM_CHART_PROPERTIES` in order, each a
stripped string; `extradata` absent or non-empty -/
structure DomSMChart (c : SMChart) : Prop where
  keys : c.fields.keys = T.smChartProperties
  vals : ∀ kv ∈ c.fields, ∃ v, kv.2 = some v ∧ strip v = v
  extra : c.extradata = none ∨ ∃ l, c.extradata = some l ∧ l ≠ []

/-- the SM simfile objects of the round-trip property: distinct upper-case keys other than NOTES
(any values, `none` included), charts in `DomSMChart` -/
structure DomSM (s : SMSimfile) : Prop where
  wf : s.props.WF
  upper : ∀ k ∈ s.props.keys, upper k = k
  notNotes : ∀ k ∈ s.props.keys, k ≠ kNOTES
  charts : ∀ c ∈ s.charts, DomSMChart c

/-- 5. a multi-value property is written as its ':'-split components, none of which contains ':',
and joining them gives the value back -/
theorem multi_value_components (k v : Str) (h : isMulti k = true) :
    (valueParam k (some v)).comps = k :: splitOn ':' v ∧ (∀ c ∈ splitOn ':' v, ':' ∉ c) ∧
      joinWith [':'] (splitOn ':' v) = v :=
  ⟨valueParam_multi k v h, splitOn_no_sep ':' v, joinWith_splitOn ':' v⟩

/-- 1. loading the parameters of the serialized simfile gives the simfile back, structurally -/
theorem roundtrip_params (s : SMSimfile) (h : DomSM s) : loadSM (paramsOf (serSM s)) = .ok s := by
  rw [loadSM_closed, paramsOf_serSM, any_badChart_ser _ _ h.upper h.notNotes,
    filter_nonnotes_ser _ _ h.upper h.notNotes, filter_notes_ser _ _ h.upper h.notNotes,
    map_kvOf_itemParam _ h.upper, setAll_rebuild_nil _ h.wf]
  have hc : (s.charts.map smChartParam).map (fun p => smChartOf p.comps.tail) = s.charts := by
    rw [List.map_map]
    conv => rhs; rw [← List.map_id s.charts]
    apply List.map_congr_left
    intro c hc
    have := h.charts c hc
    exact smChartOf_smChartParam c this.keys this.vals this.extra
  rw [hc]; rfl

/-- the texts between the parameters of a serialized SM simfile are blank -/
theorem texts_blank (s : SMSimfile) : ∀ t, Item.text t ∈ serSM s → isBlank t = true := by
  intro t ht; rw [text_mem_serSM s t ht]; exact isBlank_nl

/-- 2. the round trip through text, for any tokenizer satisfying the contract -/
theorem roundtrip (M : Msd) (hM : M.Contract) (s : SMSimfile) (h : DomSM s)
    (hs : safeDoc (serSM s) = true) (strict : Bool) :
    (M.tokenize strict (M.renderDoc (serSM s))).bind loadSM = .ok s := by
  rw [hM.roundtrip (serSM s) strict (texts_blank s) hs]
  exact roundtrip_params s h

/-- serializing the reloaded object gives the same items -/
theorem reserialize_stable (M : Msd) (hM : M.Contract) (s : SMSimfile) (h : DomSM s)
    (hs : safeDoc (serSM s) = true) (strict : Bool) :
    ((M.tokenize strict (M.renderDoc (serSM s))).bind loadSM).map serSM = .ok (serSM s) := by
  rw [roundtrip M hM s h hs strict]; rfl

/-- 3. content detection sees an SM file unless the first property is VERSION -/
theorem detected_as_sm (s : SMSimfile) (h : DomSM s) (hv : s.props.keys.head? ≠ some kVERSION) :
    firstKeyIsVersion (paramsOf (serSM s)) = false := by
  rw [paramsOf_serSM]
  obtain ⟨props, charts⟩ := s
  cases props with
  | nil =>
    cases charts with
    | nil => rfl
    | cons c cs => simp only [List.map_nil, List.nil_append, List.map_cons, firstKeyIsVersion,
                     smChartParam_key, upper_kNOTES]; decide
  | cons kv d =>
    simp only [List.map_cons, List.cons_append, firstKeyIsVersion, itemParam, valueParam_key]
    have hk : kv.1 ∈ Dict.keys (kv :: d) := by simp [Dict.keys]
    rw [h.upper _ hk]
    simp only [Dict.keys, List.map_cons, List.head?_cons] at hv
    exact decide_eq_false (fun e => hv (by rw [e]))

/-- 4a. the NOTES parameters of the serialized simfile are the chart parameters, in order -/
theorem chart_params (s : SMSimfile) (h : DomSM s) :
    (paramsOf (serSM s)).filter (fun p => decide (p.key = kNOTES)) = s.charts.map smChartParam := by
  rw [paramsOf_serSM]
  have hf : ∀ p ∈ s.props.map itemParam ++ s.charts.map smChartParam,
      decide (p.key = kNOTES) = isNotes p := by
    intro p hp
    rcases List.mem_append.mp hp with hp | hp
    · obtain ⟨kv, hkv, rfl⟩ := List.mem_map.mp hp
      have hk : kv.1 ∈ s.props.keys := List.mem_map.mpr ⟨kv, hkv, rfl⟩
      rw [isNotes_itemParam kv (h.upper _ hk) (h.notNotes _ hk)]
      unfold itemParam; rw [valueParam_key]
      exact decide_eq_false (h.notNotes _ hk)
    · obtain ⟨c, _, rfl⟩ := List.mem_map.mp hp
      rw [isNotes_smChartParam]; rfl
  rw [List.filter_congr hf, filter_notes_ser _ _ h.upper h.notNotes]

/-- 4b. components 1…6 of a chart parameter strip to the six field values in `T.smChartProperties`
order; the remaining components are `extradata` -/
theorem chart_param_shape (c : SMChart) (h : DomSMChart c) :
    ((smChartParam c).comps.tail.take 6).map (fun x => some (some (strip x)))
        = T.smChartProperties.map c.fields.get? ∧
    (smChartParam c).comps.tail.drop 6 = c.extradata.getD [] ∧
    (smChartParam c).key = kNOTES := by
  obtain ⟨f, e⟩ := c
  obtain ⟨v1, v2, v3, v4, v5, v6, rfl, s1, s2, s3, s4, s5, s6⟩ := fields_shape' f h.keys h.vals
  rw [smChartParam_shape]
  refine ⟨?_, rfl, rfl⟩
  simp only [List.cons_append, List.nil_append, List.tail_cons, List.take_succ_cons, List.take_zero,
    List.map_cons, List.map_nil]
  rw [strip_smIndent _ s1, strip_smIndent _ s2, strip_smIndent _ s3, strip_smIndent _ s4,
    strip_smIndent _ s5, strip_nl_nl _ s6]
  simp [T.smChartProperties, Dict.get?, List.lookup]

/-! ### non-vacuity -/

instance (d : Dict) : Decidable d.WF := inferInstanceAs (Decidable (List.Nodup _))
instance (c : SMChart) : Decidable (DomSMChart c) :=
  decidable_of_iff (c.fields.keys = T.smChartProperties ∧
    (∀ kv ∈ c.fields, ∃ v, kv.2 = some v ∧ strip v = v) ∧
    (c.extradata = none ∨ ∃ l, c.extradata = some l ∧ l ≠ []))
    ⟨fun ⟨a, b, c⟩ => ⟨a, b, c⟩, fun ⟨a, b, c⟩ => ⟨a, b, c⟩⟩
instance (s : SMSimfile) : Decidable (DomSM s) :=
  decidable_of_iff (s.props.WF ∧ (∀ k ∈ s.props.keys, Simfile.upper k = k) ∧
    (∀ k ∈ s.props.keys, k ≠ kNOTES) ∧ (∀ c ∈ s.charts, DomSMChart c))
    ⟨fun ⟨a, b, c, d⟩ => ⟨a, b, c, d⟩, fun ⟨a, b, c, d⟩ => ⟨a, b, c, d⟩⟩

/-- the blank SM simfile of the library with one blank chart -/
def blankSM : SMSimfile := ⟨T.blankSMSimfile, [⟨T.blankSMChart, T.blankSMChartExtra⟩]⟩

example : DomSM blankSM := by decide +kernel
example : safeDoc (serSM blankSM) = true := by decide +kernel
example : loadSM (paramsOf (serSM blankSM)) = .ok blankSM := roundtrip_params _ (by decide +kernel)

/-- values with ':', ';', '\\', "//", line breaks and `none`; a multi-value key; a chart whose field
values contain ':' and which carries extradata (one component empty) -/
def trickySM : SMSimfile :=
  ⟨[("TITLE".toList, some "a:b;c\\d//e\n f\r\n".toList), ("SUBTITLE".toList, none),
    ("ATTACKS".toList, some "TIME=1:END=2::MODS=x;y".toList), ("DISPLAYBPM".toList, some "1:2".toList),
    ("ARTIST".toList, some [])],
   [⟨[("STEPSTYPE".toList, some "dance-single".toList), ("DESCRIPTION".toList, some "a:b\\;//".toList),
      ("DIFFICULTY".toList, some "Hard".toList), ("METER".toList, some []),
      ("RADARVALUES".toList, some "0,0".toList), ("NOTES".toList, some "0000\n,\n0000".toList)],
     some ["extra".toList, [], "x:y".toList]⟩,
    ⟨T.blankSMChart, none⟩]⟩

example : DomSM trickySM := by decide +kernel
example : safeDoc (serSM trickySM) = true := by decide +kernel
example : loadSM (paramsOf (serSM trickySM)) = .ok trickySM := roundtrip_params _ (by decide +kernel)
example : trickySM.props.keys.head? ≠ some kVERSION := by decide

/-- the chart conditions of `DomSM` cannot be dropped: empty extradata comes back as `none`, an
unstripped field value comes back stripped -/
example : loadSM (paramsOf (serSM ⟨[], [⟨T.blankSMChart, some []⟩]⟩)) = .ok ⟨[], [⟨T.blankSMChart, none⟩]⟩ := by
  decide +kernel
example : loadSM (paramsOf (serSM ⟨[], [⟨T.blankSMChart.map (fun kv => (kv.1, some " x".toList)), none⟩]⟩)) =
    .ok ⟨[], [⟨T.blankSMChart.map (fun kv => (kv.1, some "x".toList)), none⟩]⟩ := by
  decide +kernel

end Simfile.C01
