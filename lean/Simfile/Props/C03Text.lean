/-
C03 at TEXT level, with the concrete tokenizer `MsdP.parse` (the model of msdparser's lexer + parser):
 1. the lexer loses nothing (`lex_concat`), so "stray text" is a piece of the text (`strict_iff_stray_text`);
 2. "with strict parsing off the result equals that of the same text with the stray text removed"
    (`lenient_eq_strict_cleaned` on tokens, unconditionally; `lenient_eq_strict_removeStray` on the text, under three
    side conditions each of which is necessary — closed counter-examples below, confirmed on the real msdparser);
 3. the parser's error at load level (`load_parser_error_iff`, `lenient_never_parser_error`);
 4. the entry points with the concrete tokenizer (`entry_points_agree_concrete`, `loads_closed`, …);
 5. class constructors and the chart-level entry points.
`upper` / `lower` are used as opaque functions.
-/
import Simfile.Props.C03
import Simfile.Props.C03Entry
import Simfile.Props.MsdLenient
import Simfile.Lemmas.MsdTextSep
import Simfile.Lemmas.MsdTextLoad
namespace Simfile.C03Text
open Simfile Simfile.MsdP Simfile.O

/-! ### 1. the lexer loses nothing -/

/-- F2. Every token carries its source characters (`Tok.src`: TEXT and COMMENT tokens their text, START / NEXT / END
the metacharacter, ESCAPE the backslash and the escaped character); the sources of the tokens of a text, in order,
concatenate to the text. Nothing is dropped by the lexer model, comments included. -/
theorem lex_concat (text : Str) (toks : List Tok) (h : lex (text.length + 1) text false false = .ok toks) :
    (toks.map Tok.src).flatten = text :=
  lexF_concat _ text (Nat.le_refl _) false false toks h

/-- the same from any lexer state and with any sufficient fuel -/
theorem lex_concat_any (n : Nat) (text : Str) (i l : Bool) (toks : List Tok) (hn : text.length < n)
    (h : lex n text i l = .ok toks) : (toks.map Tok.src).flatten = text := by
  rw [lex_fuel n (text.length + 1) text i l hn (Nat.lt_succ_self _)] at h
  exact lexF_concat _ text (Nat.le_refl _) i l toks h

/-- F2. "strict parsing rejects exactly when non-blank text lies between parameters", with the text in view: the
stray-text error is raised iff the text is `a ++ s ++ b` where `s` is a TEXT token that is neither blank nor a lone
byte order mark, and the tokens of `a` leave the lexer outside a parameter (the last '#'-START of `a`, if any, has
been closed by a ';'-END). -/
theorem strict_iff_stray_text (text : Str) (t : Tokens) (h : MsdP.parse true text = some t) :
    t.strayError = true ↔
      ∃ pre s post, lex (text.length + 1) text false false = .ok (pre ++ Tok.text s :: post) ∧
        insideAfter pre = false ∧ strayOk s = false ∧ text = render pre ++ s ++ render post := by
  rw [MsdLenient.strict_iff_stray text t h]
  constructor
  · rintro ⟨pre, tk, post, hl, hp, hs⟩
    obtain ⟨s, rfl⟩ := lexF_stray_is_text _ text (Nat.le_refl _) false false _ pre post tk hl rfl hp hs
    refine ⟨pre, s, post, hl, hp, by simpa [isStray] using hs, ?_⟩
    have := lex_concat text _ hl
    rw [← this]
    simp [render, Tok.src]
  · rintro ⟨pre, s, post, hl, hp, hs, _⟩
    exact ⟨pre, .text s, post, hl, hp, by simp [isStray, hs]⟩

example : lex 10 MsdLenient.strayText false false =
    .ok ([.start, .text ['A'], .next, .text ['1'], .endp] ++ Tok.text ['x'] :: [.start, .text ['B'], .endp]) ∧
    MsdLenient.strayText = render [.start, .text ['A'], .next, .text ['1'], .endp] ++ ['x'] ++
      render [.start, .text ['B'], .endp] := by decide

/-! ### 2. strict parsing off = strict parsing of the text without its stray text -/

/-- F1 on the token list, unconditionally: lenient parsing of a text gives exactly what strict parsing gives on its
token list with the stray tokens dropped (`cleanToks`: the TEXT / ESCAPE tokens outside a parameter that are
neither blank nor a lone byte order mark; a sublist), and strict parsing does not raise the stray error on it. -/
theorem lenient_eq_strict_cleaned (text : Str) (toks : List Tok)
    (h : lex (text.length + 1) text false false = .ok toks) :
    MsdP.parse false text = some (parseToks true (cleanToks toks false) pInit) ∧
    (parseToks true (cleanToks toks false) pInit).strayError = false ∧
    (cleanToks toks false).Sublist toks ∧ strayIn (cleanToks toks false) false = false := by
  have e := parseToks_true_clean toks pInit
  refine ⟨by rw [parse_of_lex false h]; exact congrArg some e.symm, ?_, cleanToks_sublist _ _, strayIn_cleanToks _ _⟩
  rw [show cleanToks toks false = cleanToks toks pInit.cur.isSome from rfl, e]
  exact parseToks_false_stray _ _

/-- `removeStray` only deletes characters -/
theorem removeStray_sublist (t : Str) : (removeStray t).Sublist t := MsdP.removeStray_sublist t

/-- `removeStray` deletes nothing from a text that strict parsing accepts -/
theorem removeStray_of_strict_ok (t : Str) (r : Tokens) (h : MsdP.parse true t = some r)
    (hs : r.strayError = false) : removeStray t = t := by
  obtain ⟨toks, htoks, rfl⟩ := MsdLenient.parse_some true t r h
  rw [parseToks_true_stray] at hs
  exact removeStray_of_not_strayIn t toks htoks hs

/-- F1 on the text. Let `toks` be the tokens of `t`, and suppose they meet the three side conditions `Separable`
(a stray token outside a parameter does not directly follow a comment or a lone byte order mark, and is not directly
followed by a lone byte order mark; at every '#' met inside a parameter the last TEXT token before it and the last
non-stray TEXT token before it agree on ending in a line break).
Then lenient parsing of `t` = strict parsing of `t` with its stray text deleted, and the latter does not raise the
stray-text error. -/
theorem lenient_eq_strict_removeStray (t : Str) (toks : List Tok)
    (h : lex (t.length + 1) t false false = .ok toks) (hsep : Separable toks) :
    MsdP.parse false t = MsdP.parse true (removeStray t) ∧
    ∀ r, MsdP.parse true (removeStray t) = some r → r.strayError = false := by
  have e := parse_true_removeStray t toks h (removable_of_separable toks hsep)
  exact ⟨e.symm, fun r hr => MsdLenient.lenient_never_stray t r (e ▸ hr)⟩

/-- the side conditions are decidable: they are exactly the one-pass scan `removable` of the token list -/
theorem separable_iff_scan (toks : List Tok) :
    Separable toks ↔ removable toks false .other false false = true := separable_iff_removable toks

/-- F1 on the text when every parameter has a key: if every START token is directly followed by a TEXT token other
than "#" (`KeyedStarts`: the key is non-empty and begins with an ordinary character), the third side condition holds
by itself and only the two adjacency conditions remain. -/
theorem lenient_eq_strict_removeStray_keyed (t : Str) (toks : List Tok)
    (h : lex (t.length + 1) t false false = .ok toks) (hkey : KeyedStarts toks)
    (hafter : ∀ pre a x post, toks = pre ++ a :: x :: post → insideAfter (pre ++ [a]) = false → isStray x = true →
      isComment a = false ∧ isLoneBom a = false)
    (hbom : ∀ pre x a post, toks = pre ++ x :: a :: post → insideAfter pre = false → isStray x = true →
      isLoneBom a = false) :
    MsdP.parse false t = MsdP.parse true (removeStray t) :=
  (lenient_eq_strict_removeStray t toks h ⟨hafter, hbom, recovery_of_keyed toks hkey⟩).1

/-- on a text the lexer rejects (unpaired final backslash; excluded by the property) both sides fail alike -/
theorem removeStray_lex_error (t : Str) (h : MsdP.parse false t = none) :
    MsdP.parse true (removeStray t) = MsdP.parse false t := by
  have : removeStray t = t := by
    unfold removeStray
    unfold MsdP.parse at h
    split at h
    · simp at h
    · rename_i e he; simp [he]
  rw [this, h]
  exact (MsdLenient.parse_none_iff t).mpr h

/-- F1 at load level: `loads(t, strict=False)` = `loads(removeStray t, strict=True)` -/
theorem loads_lenient_eq_strict_removeStray (t : Str) (toks : List Tok)
    (h : lex (t.length + 1) t false false = .ok toks) (hsep : Separable toks) :
    loadFile tokOf false (.stringIO t) = loadFile tokOf true (.stringIO (removeStray t)) := by
  rw [C03.entry_points_agree tokOf tokOf_nil false _ rfl, C03.entry_points_agree tokOf tokOf_nil true _ rfl]
  simp only [FileObj.content, FileObj.name, tokOf, (lenient_eq_strict_removeStray t toks h hsep).1]

/-! #### non-vacuity, and the three counter-examples to the statement without side conditions
(each also run on the real msdparser 2.0: `parse_msd(string=t, ignore_stray_text=True)` against
`parse_msd(string=removeStray t)`) -/

/-- stray text before, between and after parameters, a comment, a leading byte order mark -/
def exText : Str := "﻿#A:1;\nstray // c\n#B:x\\:y;;\n  #C;tail".toList
def exToks : List Tok :=
  [.text [bomC], .start, .text ['A'], .next, .text ['1'], .endp, .text "\nstray ".toList, .comment "// c".toList,
   .text ['\n'], .start, .text ['B'], .next, .text ['x'], .escape ':', .text ['y'], .endp, .text [';'],
   .text "\n  ".toList, .start, .text ['C'], .endp, .text "tail".toList]
example : lex (exText.length + 1) exText false false = .ok exToks := by decide +kernel
example : Separable exToks := (separable_iff_scan exToks).mpr (by decide +kernel)
example : KeyedStarts exToks := keyed_of_keyedB exToks (by decide +kernel)
example : removeStray exText = "﻿#A:1;// c\n#B:x\\:y;\n  #C;".toList := by decide +kernel
example : (MsdP.parse false exText).map (·.params) =
    some [⟨[['A'], ['1']]⟩, ⟨[['B'], "x:y".toList]⟩, ⟨[['C']]⟩] := by decide +kernel
example : (MsdP.parse true (removeStray exText)).map (fun r => (r.params, r.strayError)) =
    some ([⟨[['A'], ['1']]⟩, ⟨[['B'], "x:y".toList]⟩, ⟨[['C']]⟩], false) := by decide +kernel
example : (MsdP.parse true exText).map (fun r => (r.params, r.strayError)) =
    some ([⟨[['A'], ['1']]⟩], true) := by decide +kernel

/-- Counter-example 1 (recovery flag): the stray "abc\n" ends in a line break, so the second '#', met inside the
parameter, starts a new parameter; without it the same '#' is text. msdparser: `[('',''),('B',)]` vs `[('','#B')]`. -/
example : removeStray "abc\n#:#B;".toList = "#:#B;".toList ∧
    (MsdP.parse false "abc\n#:#B;".toList).map (·.params) = some [⟨[[], []]⟩, ⟨[['B']]⟩] ∧
    (MsdP.parse true "#:#B;".toList).map (·.params) = some [⟨[[], ['#', 'B']]⟩] := by decide +kernel
/-- … and the other way round: the stray "abc" hides the line break that ended the value "1\n".
msdparser: `[('A','1\n'),('','#B')]` vs `[('A','1\n'),('',''),('B',)]`. -/
example : removeStray "#A:1\n;abc#:#B;".toList = "#A:1\n;#:#B;".toList ∧
    (MsdP.parse false "#A:1\n;abc#:#B;".toList).map (·.params) = some [⟨[['A'], ['1', '\n']]⟩, ⟨[[], ['#', 'B']]⟩] ∧
    (MsdP.parse true "#A:1\n;#:#B;".toList).map (·.params) = some [⟨[['A'], ['1', '\n']]⟩, ⟨[[], []]⟩, ⟨[['B']]⟩] := by
  decide +kernel
/-- Counter-example 2 (comment): the stray "\nx" carries the line break that ends the comment.
msdparser: `[('A',)]` vs `[]`. -/
example : removeStray "//c\nx#A;".toList = "//c#A;".toList ∧
    (MsdP.parse false "//c\nx#A;".toList).map (·.params) = some [⟨[['A']]⟩] ∧
    (MsdP.parse true "//c#A;".toList).map (·.params) = some [] := by decide +kernel
/-- Counter-example 3 (byte order mark): a lone U+FEFF is accepted between parameters, U+FEFF followed by a blank is
not. msdparser: `[]` vs `MSDParserError("stray '﻿' encountered at start of document")`. -/
example : removeStray "﻿: ".toList = "﻿ ".toList ∧
    (MsdP.parse false "﻿: ".toList).map (fun r => (r.params, r.strayError)) = some ([], false) ∧
    (MsdP.parse true "﻿ ".toList).map (fun r => (r.params, r.strayError)) = some ([], true) := by decide +kernel
/-- the side conditions fail on the four texts (first two: `recovery`; third: `after`, comment; fourth: `after`,
byte order mark) -/
example : (["abc\n#:#B;", "#A:1\n;abc#:#B;", "//c\nx#A;", "﻿: "].map fun (s : String) =>
    match lex (s.length + 1) s.toList false false with
    | .ok toks => removable toks false .other false false
    | .error _ => true) = [false, false, false, false] := by decide +kernel
example : ¬ Separable [.text "abc\n".toList, .start, .next, .start, .text ['B'], .endp] := by
  rw [separable_iff_scan]; decide +kernel

/-! ### 3. the parser's error at load level -/

/-- "non-blank text lies between parameters": some TEXT token outside a parameter is neither blank nor a lone byte
order mark (the right-hand side of `MsdLenient.strict_iff_stray`; see `strict_iff_stray_text`) -/
def HasStray (text : Str) : Prop :=
  ∃ pre tk post, lex (text.length + 1) text false false = .ok (pre ++ tk :: post) ∧
    insideAfter pre = false ∧ isStray tk = true

/-- the concrete tokenizer stops with the stray error iff parsing is strict and the text has stray text -/
theorem tokOf_stray_iff (strict : Bool) (text : Str) :
    (tokOf strict text).strayError = true ↔ strict = true ∧ HasStray text := by
  cases hp : MsdP.parse strict text with
  | none =>
    have hl : ∀ toks, lex (text.length + 1) text false false ≠ .ok toks := by
      intro toks e
      rw [parse_of_lex strict e] at hp
      cases hp
    simp only [tokOf, hp, Option.getD_none]
    constructor
    · intro h; cases h
    · rintro ⟨_, pre, tk, post, e, _⟩
      exact absurd e (hl _)
  | some t =>
    rw [tokOf_of_parse hp]
    cases strict with
    | false =>
      rw [MsdLenient.lenient_never_stray text t hp]
      simp
    | true =>
      rw [MsdLenient.strict_iff_stray text t hp]
      simp [HasStray]

/-- F6. With the concrete tokenizer, loading a file object (string, stream, line iterator, open file) returns the
parser's error iff parsing is strict, the text has stray text, and the loader's own error does not come first: the
format is SSC, or the SM loader accepts the parameters read before the stray text (no NOTES parameter with fewer
than six components among them — the tokenizer is lazy, so such a NOTES raises ValueError before the stray text is
reached). -/
theorem load_parser_error_iff (strict : Bool) (f : FileObj) (hf : f.atStart = true) :
    loadFile tokOf strict f = .error .msdParserError ↔
      strict = true ∧ HasStray f.content ∧
      (formatOf f.name (tokOf strict f.content).params = true ∨
        ∃ s, loadSM (tokOf strict f.content).params = .ok s) := by
  rw [C03.entry_points_agree tokOf tokOf_nil strict f hf, load_eq_loadAs, loadAs_parser_error_iff,
    tokOf_stray_iff, and_assoc]

/-- F6 for a file named *.ssc: exactly the clause of the property -/
theorem ssc_parser_error_iff (strict : Bool) (name c : Str) (hn : suffixRule name = some true) :
    loadFile tokOf strict (.wrapper (some name) c 0) = .error .msdParserError ↔ strict = true ∧ HasStray c := by
  rw [load_parser_error_iff strict _ rfl]
  simp [FileObj.content, FileObj.name, formatOf, hn]

/-- F6, the SM side: when the SM loader rejects the parameters read before the stray text, its ValueError wins -/
theorem sm_value_error_first (strict : Bool) (f : FileObj) (hf : f.atStart = true)
    (hfmt : formatOf f.name (tokOf strict f.content).params = false)
    (he : loadSM (tokOf strict f.content).params = .error .valueError) :
    loadFile tokOf strict f = .error .valueError := by
  rw [C03.entry_points_agree tokOf tokOf_nil strict f hf, load_eq_loadAs, hfmt, loadAs_sm, he]

theorem tokOf_false_stray (text : Str) : (tokOf false text).strayError = false := by
  cases h : (tokOf false text).strayError with
  | false => rfl
  | true => exact absurd ((tokOf_stray_iff false text).mp h).1 (by decide)

theorem loadAs_no_parser_error (b : Bool) (t : Tokens) (h : t.strayError = false) :
    loadAs b t ≠ .error .msdParserError := by
  intro e
  rw [loadAs_parser_error_iff, h] at e
  exact absurd e.1 (by decide)

/-- F6 / 9a. With strict parsing off, NO file object (whatever its kind, name and read position) ever loads to the
parser's error. -/
theorem lenient_never_parser_error (f : FileObj) : loadFile tokOf false f ≠ .error .msdParserError := by
  have hpk : ∀ (c : Str) (r s : FileObj) (x : FileObj × Bool), peekResult (tokOf false c) r s = .ok x →
      loadAs x.2 (tokOf false x.1.remaining) ≠ .error .msdParserError :=
    fun c r s x _ => loadAs_no_parser_error _ _ (tokOf_false_stray _)
  have hpe : ∀ (c : Str) (r s : FileObj), peekResult (tokOf false c) r s ≠ .error .msdParserError := by
    intro c r s
    unfold peekResult
    rw [tokOf_false_stray]
    split <;> simp
  intro e
  unfold loadFile at e
  cases hd : detectSSC tokOf false f with
  | error err =>
    rw [hd] at e
    simp only [bind, Except.bind] at e
    cases e
    cases f with
    | wrapper name c pos =>
      simp only [detectSSC] at hd
      split at hd
      · cases hd
      · exact hpe _ _ _ hd
    | stringIO c => exact hpe _ _ _ hd
    | lines ls => exact hpe _ _ _ hd
  | ok x =>
    rw [hd] at e
    simp only [bind, Except.bind] at e
    exact loadAs_no_parser_error _ _ (tokOf_false_stray _) e

/-- the clause as written fails for SM exactly here ('#NOTES:a;x' raises ValueError, not the parser's error) -/
example : loadFile tokOf true (.stringIO "#NOTES:a;x".toList) = .error .valueError ∧
    (tokOf true "#NOTES:a;x".toList).strayError = true := by decide +kernel
example : loadFile tokOf true (.stringIO "#TITLE:a;x".toList) = .error .msdParserError := by decide +kernel
example : loadFile tokOf false (.stringIO "x#TITLE:a;x".toList) = .ok (.sm ⟨[("TITLE".toList, some ['a'])], []⟩) := by
  decide +kernel

/-! ### 4. the entry points, with the concrete tokenizer -/

/-- F4. `C03.entry_points_agree` instantiated: its hypothesis on the tokenizer holds for the modelled msdparser. Every
kind of file object at its start loads to the documented rules applied to `MsdP.parse strict` of its whole content. -/
theorem entry_points_agree_concrete (strict : Bool) (f : FileObj) (h : f.atStart = true) :
    loadFile tokOf strict f = load f.name (tokOf strict f.content) :=
  C03.entry_points_agree tokOf tokOf_nil strict f h

/-- F4. `simfile.loads(text, strict)` in closed form: the class of the detected format applied to the parse result -/
theorem loads_closed (strict : Bool) (text : Str) (t : Tokens) (h : MsdP.parse strict text = some t) :
    loadFile tokOf strict (.stringIO text) = loadAs (firstKeyIsVersion t.params) t := by
  rw [entry_points_agree_concrete strict _ rfl, load_eq_loadAs]
  simp only [FileObj.content, FileObj.name, tokOf_of_parse h]
  rfl

/-- F4. … and for lenient parsing, down to the loading rules of `C03` (`sm_keys`, `sm_value`, `sm_charts`, `ssc_*`) -/
theorem loads_lenient_closed (text : Str) (t : Tokens) (h : MsdP.parse false text = some t) :
    loadFile tokOf false (.stringIO text) =
      if firstKeyIsVersion t.params then .ok (.ssc (loadSSC t.params)) else (loadSM t.params).map .sm := by
  rw [loads_closed false text t h]
  obtain ⟨ps, se⟩ := t
  have : se = false := MsdLenient.lenient_never_stray text _ h
  subst this
  exact C03.loadAs_lenient _ ps

/-- F4. the same content through `loads`, `load(StringIO)`, `load(iterator of lines)`, `load(open file)` /
`open(filename)` whose name has neither suffix: one result -/
theorem entry_points_equal (strict : Bool) (c : Str) (ls : List Str) (hls : ls.flatten = c) (name : Option Str)
    (hn : name.bind suffixRule = none) :
    loadFile tokOf strict (.lines ls) = loadFile tokOf strict (.stringIO c) ∧
    loadFile tokOf strict (.wrapper name c 0) = loadFile tokOf strict (.stringIO c) := by
  refine ⟨?_, C03.name_irrelevant_without_suffix tokOf tokOf_nil strict name c hn⟩
  rw [entry_points_agree_concrete strict _ rfl, entry_points_agree_concrete strict _ rfl]
  simp [FileObj.content, FileObj.name, hls]

example : (some "song.txt".toList).bind suffixRule = none := by decide +kernel
example : loadFile tokOf true (.lines ["#version:1;\n".toList, "#TITLE:a;\n".toList]) =
    .ok (.ssc ⟨[("VERSION".toList, some ['1']), ("TITLE".toList, some ['a'])], []⟩) := by decide +kernel

/-! ### 5. class constructors and chart-level entry points -/

/-- F5. `load` / `loads` / `open` is the class constructor (`SMSimfile(...)` / `SSCSimfile(...)`) of the detected
format, for every tokenizer result — also when the peek at the first parameter fails with the stray error. -/
theorem load_eq_construct (name : Option Str) (t : Tokens) :
    load name t = construct (formatOf name t.params) t := load_eq_loadAs name t

/-- F5. with file objects and the concrete tokenizer: `load(file)` = the constructor of the detected format on the
content -/
theorem loadFile_eq_construct (strict : Bool) (f : FileObj) (h : f.atStart = true) :
    loadFile tokOf strict f = construct (formatOf f.name (tokOf strict f.content).params) (tokOf strict f.content) := by
  rw [entry_points_agree_concrete strict f h, load_eq_construct]

/-- F5. when the format is forced by the file name, the other constructor may give something else:
a text detected as SSC handed to `SMSimfile` is an SM simfile -/
example : construct true (tokOf true "#VERSION:1;".toList) ≠ construct false (tokOf true "#VERSION:1;".toList) := by
  decide +kernel

/-- F5, `SSCChart.from_str`: errors — no parameter at all, or a first parameter whose key is not NOTEDATA -/
theorem sscChart_errors (ps : List Param) :
    (loadSSCChart ps = .error .stopIteration ↔ ps = []) ∧
    (loadSSCChart ps = .error .valueError ↔ ∃ p rest, ps = p :: rest ∧ upper p.key ≠ kNOTEDATA) := by
  cases ps with
  | nil => simp [loadSSCChart]
  | cons p rest =>
    by_cases hp : upper p.key = kNOTEDATA <;> simp [loadSSCChart, hp]

/-- F5, `SSCChart.from_str`: after the NOTEDATA parameter, the parameters up to and including the first NOTES /
NOTES2 one are stored by the same key / value rules as everywhere (`C03.dictOf_keys`, `C03.dictOf_value`);
what follows is ignored. -/
theorem sscChart_until_notes (nd : Param) (pre : List Param) (last : Param) (post : List Param)
    (hnd : upper nd.key = kNOTEDATA)
    (hpre : ∀ p ∈ pre, upper p.key ≠ kNOTES ∧ upper p.key ≠ kNOTES2)
    (hlast : upper last.key = kNOTES ∨ upper last.key = kNOTES2) :
    loadSSCChart (nd :: (pre ++ last :: post)) = .ok ⟨dictOf (pre ++ [last])⟩ := by
  simp only [loadSSCChart, hnd, ne_eq, not_true_eq_false, if_false]
  rw [loadSSCChartBody_stops pre last post [] (fun p hp => by simpa [isNotesKey] using hpre p hp)
    (by simpa [isNotesKey] using hlast)]
  rfl

/-- F5, `SSCChart.from_str` without any NOTES / NOTES2 parameter: everything after NOTEDATA is stored -/
theorem sscChart_no_notes (nd : Param) (body : List Param) (hnd : upper nd.key = kNOTEDATA)
    (hbody : ∀ p ∈ body, upper p.key ≠ kNOTES ∧ upper p.key ≠ kNOTES2) :
    loadSSCChart (nd :: body) = .ok ⟨dictOf body⟩ := by
  simp only [loadSSCChart, hnd, ne_eq, not_true_eq_false, if_false]
  rw [loadSSCChartBody_all body [] (fun p hp => by simpa [isNotesKey] using hbody p hp)]
  rfl

/-- F5. `SSCChart.from_str` agrees with the chart `SSCSimfile` builds from the same parameters, when the note data
parameter comes last (or is absent) and no further NOTEDATA follows -/
theorem sscChart_agrees_with_simfile (nd : Param) (body : List Param) (c : SSCChart)
    (hnd : upper nd.key = kNOTEDATA) (hb : ∀ p ∈ body, upper p.key ≠ kNOTEDATA)
    (hnotes : ∀ pre p post, body = pre ++ p :: post → (upper p.key = kNOTES ∨ upper p.key = kNOTES2) → post = [])
    (h : loadSSCChart (nd :: body) = .ok c) :
    (loadSSC (nd :: body)).charts = [c] := by
  have hs := C03.ssc_charts [] [nd] [body] rfl (by simp) (by simpa using hnd) (by simpa using hb)
  simp only [List.zipWith_cons_cons, List.zipWith_nil_right, List.flatten_cons, List.flatten_nil, List.append_nil,
    List.nil_append, List.map_cons, List.map_nil] at hs
  rw [hs]
  by_cases hex : ∃ p ∈ body, upper p.key = kNOTES ∨ upper p.key = kNOTES2
  · -- split at the first notes parameter
    have : ∃ pre last post, body = pre ++ last :: post ∧
        (∀ p ∈ pre, upper p.key ≠ kNOTES ∧ upper p.key ≠ kNOTES2) ∧
        (upper last.key = kNOTES ∨ upper last.key = kNOTES2) := by
      clear hs h hnotes hb
      induction body with
      | nil => obtain ⟨p, hp, _⟩ := hex; cases hp
      | cons q body ih =>
        by_cases hq : upper q.key = kNOTES ∨ upper q.key = kNOTES2
        · exact ⟨[], q, body, rfl, by simp, hq⟩
        · obtain ⟨p, hp, hpk⟩ := hex
          have hp' : p ∈ body := by
            rcases List.mem_cons.mp hp with rfl | hp'
            · exact absurd hpk hq
            · exact hp'
          obtain ⟨pre, last, post, rfl, h1, h2⟩ := ih ⟨p, hp', hpk⟩
          refine ⟨q :: pre, last, post, rfl, ?_, h2⟩
          intro x hx
          rcases List.mem_cons.mp hx with rfl | hx
          · exact ⟨fun e => hq (Or.inl e), fun e => hq (Or.inr e)⟩
          · exact h1 x hx
    obtain ⟨pre, last, post, rfl, h1, h2⟩ := this
    have hpost : post = [] := hnotes pre last post rfl h2
    subst hpost
    rw [sscChart_until_notes nd pre last [] hnd h1 h2] at h
    cases h
    rfl
  · have hbody : ∀ p ∈ body, upper p.key ≠ kNOTES ∧ upper p.key ≠ kNOTES2 := by
      intro p hp
      exact ⟨fun e => hex ⟨p, hp, Or.inl e⟩, fun e => hex ⟨p, hp, Or.inr e⟩⟩
    rw [sscChart_no_notes nd body hnd hbody] at h
    cases h
    rfl

/-- … and they differ when parameters follow the note data: `from_str` stops, the simfile loader goes on -/
example : loadSSCChart [⟨["NOTEDATA".toList, []]⟩, ⟨["NOTES".toList, ['0']]⟩, ⟨["CREDIT".toList, ['c']]⟩] =
      .ok ⟨[("NOTES".toList, some ['0'])]⟩ ∧
    (loadSSC [⟨["NOTEDATA".toList, []]⟩, ⟨["NOTES".toList, ['0']]⟩, ⟨["CREDIT".toList, ['c']]⟩]).charts =
      [⟨[("NOTES".toList, some ['0']), ("CREDIT".toList, some ['c'])]⟩] := by decide +kernel

/-- F5, `SMChart.from_msd` (mirror of `SMChart._from_msd`): fewer than six components is a ValueError … -/
theorem smChart_error_iff (values : List Str) :
    smChartFromMsd values = .error .valueError ↔ values.length < 6 := by
  rw [smChartFromMsd_eq]
  have : T.smChartProperties.length = 6 := rfl
  rw [this]
  split <;> simp_all

/-- … otherwise the six fields are the first six components, whitespace-trimmed, under the six chart keys in order,
and the remaining components (if any) are the extradata -/
theorem smChart_fields (x1 x2 x3 x4 x5 x6 : Str) (rest : List Str) :
    smChartFromMsd ([x1, x2, x3, x4, x5, x6] ++ rest) = .ok
      ⟨[("STEPSTYPE".toList, some (strip x1)), ("DESCRIPTION".toList, some (strip x2)),
        ("DIFFICULTY".toList, some (strip x3)), ("METER".toList, some (strip x4)),
        ("RADARVALUES".toList, some (strip x5)), ("NOTES".toList, some (strip x6))],
       if rest = [] then none else some rest⟩ := by
  rw [smChartFromMsd_eq, if_neg (by simp [T.smChartProperties]), smChartOf_six]
  rfl

/-- F5. every list of at least six components has that shape -/
theorem smChart_ok_of_six (values : List Str) (h : 6 ≤ values.length) :
    ∃ x1 x2 x3 x4 x5 x6 rest, values = [x1, x2, x3, x4, x5, x6] ++ rest := six_le_length values h

/-- F5, `SMChart.from_str`: the string is split at EVERY ':' (no unescaping), then `from_msd`; so it agrees with
`from_msd` on the joined components when none of them contains a ':' -/
theorem smChart_from_str (values : List Str) (hne : values ≠ []) (h : ∀ v ∈ values, ':' ∉ v) :
    smChartFromStr (joinWith [':'] values) = smChartFromMsd values := by
  unfold smChartFromStr
  rw [splitOn_joinWith hne h]

/-- F5, `SMChart.from_str`: ValueError iff the string has fewer than five ':' -/
theorem smChart_from_str_error_iff (s : Str) :
    smChartFromStr s = .error .valueError ↔ s.count ':' < 5 := by
  unfold smChartFromStr
  rw [smChart_error_iff, length_splitOn]
  omega

/-- F5. `SMChart.from_msd(values)` is the chart `SMSimfile` builds from a NOTES parameter with those components -/
theorem smChart_agrees_with_simfile (p : Param) (h : upper p.key = kNOTES) :
    loadSM [p] = (smChartFromMsd p.comps.tail).map fun c => ⟨[], [c]⟩ := loadSM_single p h

example : smChartFromStr "dance-single: d :Hard:9:0,0:\n0000\n:x".toList = .ok
    ⟨[("STEPSTYPE".toList, some "dance-single".toList), ("DESCRIPTION".toList, some ['d']),
      ("DIFFICULTY".toList, some "Hard".toList), ("METER".toList, some ['9']),
      ("RADARVALUES".toList, some "0,0".toList), ("NOTES".toList, some "0000".toList)], some [['x']]⟩ := by
  decide +kernel
example : smChartFromStr "a:b:c:d:e".toList = .error .valueError := by decide +kernel
/-- `from_str` does not unescape: an escaped colon still splits -/
example : smChartFromStr "a\\:b:c:d:e:f".toList =
    smChartFromMsd ["a\\".toList, ['b'], ['c'], ['d'], ['e'], ['f']] := by decide +kernel

end Simfile.C03Text
