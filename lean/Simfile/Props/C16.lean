/-
C16: SM → SSC conversion keeps everything: no property is invalid for SSC, so every property and every chart
field of the source arrives in the output, after the template's own keys; negative BPMs / stops are refused.
-/
import Simfile.Lemmas.Convert
namespace Simfile.C16
open Simfile Simfile.O Simfile.V Simfile.Cv

/-! ### 17. nothing is invalid for SSC -/

theorem no_invalid_for_ssc : T.invalidSSCSimfile = [] ∧ T.invalidSSCChart = [] := by decide

theorem should_copy_ssc (k : Str) (v : Option Str) (beh : List (Nat × Nat)) :
    shouldCopy k v T.invalidSSCSimfile beh = .ok true ∧ shouldCopy k v T.invalidSSCChart beh = .ok true := by
  rw [no_invalid_for_ssc.1, no_invalid_for_ssc.2]; exact ⟨rfl, rfl⟩

/-! ### 18. everything is kept -/

/-- `Cv.startOf`, `Cv.chartStartOf`: the object the conversion starts from — the template unless it is missing
or has no items, else the generated blank object -/
theorem startOf_def (toSSC : Bool) (st : Option AnySimfile) :
    startOf toSSC st = match st with
      | some t => if t.props.isEmpty then blankSimfile toSSC else t
      | none => blankSimfile toSSC := rfl
theorem chartStartOf_def (toSSC : Bool) (ct : Option (Dict × Option (List Str))) :
    chartStartOf toSSC ct = match ct with
      | some t => if t.1.isEmpty then blankChart toSSC else t
      | none => blankChart toSSC := rfl

/-- the whole result of a successful SM → SSC conversion, in closed form: `Dict.set` folded over ALL items of the
source, starting from the template -/
theorem result (sm out : AnySimfile) (st : Option AnySimfile) (ct : Option (Dict × Option (List Str)))
    (beh : List (Nat × Nat)) (h : convert sm true st ct beh = .ok out) :
    out = { isSSC := true,
            props := setAll (startOf true st).props sm.props,
            charts := (startOf true st).charts ++
              sm.charts.map fun c => (setAll (chartStartOf true ct).1 c.1, (chartStartOf true ct).2) } := by
  rw [convert_eq] at h
  cases hw : convertWarps sm with
  | error e => rw [hw] at h; cases h
  | ok u =>
    rw [hw] at h
    simp only [] at h
    have hi : invSimOf true = [] := no_invalid_for_ssc.1
    have hc : invChartOf true = [] := no_invalid_for_ssc.2
    rw [hi, copyProperties_nil_invalid] at h
    simp only [] at h
    have hm : sm.charts.mapM (convChart true ct beh) =
        .ok (sm.charts.map fun c => (setAll (chartStartOf true ct).1 c.1, (chartStartOf true ct).2)) := by
      apply mapM_ok_of_forall
      intro c _
      rw [convChart_eq, hc]
      show (match copyProperties false c.1 (chartStartOf true ct).1 [] beh with
        | .error e => Except.error e
        | .ok d => Except.ok (d, (chartStartOf true ct).2)) = _
      rw [copyProperties_nil_invalid]
    rw [hm] at h
    simp only [Except.ok.injEq] at h
    exact h.symm

/-- every property of the source is in the output with its value; the template's keys keep their positions, new
keys follow in source order; template values survive unless the source has the key -/
theorem props_kept (sm out : AnySimfile) (st : Option AnySimfile) (ct : Option (Dict × Option (List Str)))
    (beh : List (Nat × Nat)) (h : convert sm true st ct beh = .ok out) :
    (Dict.WF sm.props → ∀ kv ∈ sm.props, out.props.get? kv.1 = some kv.2) ∧
    Dict.keys out.props = Dict.keys (startOf true st).props ++
      ((sm.props.map (·.1)).filter (fun k => !(Dict.keys (startOf true st).props).contains k)).eraseDups ∧
    (∀ k, k ∉ Dict.keys sm.props → out.props.get? k = (startOf true st).props.get? k) ∧
    (Dict.WF (startOf true st).props → Dict.WF out.props) := by
  rw [result sm out st ct beh h]
  refine ⟨fun hwf kv hkv => get?_setAll_of_mem_WF _ _ kv hwf hkv, keys_setAll _ _, fun k hk => ?_,
    fun hwf => WF_setAll _ _ hwf⟩
  apply get?_setAll_of_not_mem
  intro kv hkv e
  exact hk (e ▸ List.mem_map.mpr ⟨kv, hkv, rfl⟩)

/-- the output charts are the template's charts followed by one chart per source chart, in order, each holding
every field of its source chart (on top of the chart template) -/
theorem charts_kept (sm out : AnySimfile) (st : Option AnySimfile) (ct : Option (Dict × Option (List Str)))
    (beh : List (Nat × Nat)) (h : convert sm true st ct beh = .ok out) :
    out.charts = (startOf true st).charts ++
      sm.charts.map (fun c => (setAll (chartStartOf true ct).1 c.1, (chartStartOf true ct).2)) ∧
    out.charts.length = (startOf true st).charts.length + sm.charts.length ∧
    ∀ c ∈ sm.charts, Dict.WF c.1 → ∀ kv ∈ c.1, (setAll (chartStartOf true ct).1 c.1).get? kv.1 = some kv.2 := by
  rw [result sm out st ct beh h]
  refine ⟨rfl, by simp, fun c _ hwf kv hkv => get?_setAll_of_mem_WF _ _ kv hwf hkv⟩

/-- the conversion succeeds exactly when `_convert_warps` does -/
theorem succeeds_iff (sm : AnySimfile) (st : Option AnySimfile) (ct : Option (Dict × Option (List Str)))
    (beh : List (Nat × Nat)) :
    (∃ out, convert sm true st ct beh = .ok out) ↔ convertWarps sm = .ok () := by
  rw [convert_eq]
  have hi : invSimOf true = [] := no_invalid_for_ssc.1
  have hc : invChartOf true = [] := no_invalid_for_ssc.2
  have hm : sm.charts.mapM (convChart true ct beh) =
      .ok (sm.charts.map fun c => (setAll (chartStartOf true ct).1 c.1, (chartStartOf true ct).2)) := by
    apply mapM_ok_of_forall
    intro c _
    rw [convChart_eq, hc]
    show (match copyProperties false c.1 (chartStartOf true ct).1 [] beh with
      | .error e => Except.error e
      | .ok d => Except.ok (d, (chartStartOf true ct).2)) = _
    rw [copyProperties_nil_invalid]
  cases hw : convertWarps sm with
  | error e => simp
  | ok u => rw [hi, copyProperties_nil_invalid, hm]; simp

example : convert ⟨false, [("FREEZES".toList, some "1=2".toList), ("TITLE".toList, some "x".toList)],
    [(T.blankSMChart, none)]⟩ true none none [] =
    .ok ⟨true, Dict.set (Dict.set T.blankSSCSimfile "FREEZES".toList (some "1=2".toList)) "TITLE".toList (some "x".toList),
      [(setAll T.blankSSCChart T.blankSMChart, none)]⟩ := by decide +kernel

/-- observation: the SM-only alias FREEZES is kept as a key, but an SSC simfile has no such alias, so the stops
are no longer visible through the `stops` attribute of the result -/
example : (convert ⟨false, [("FREEZES".toList, some "1=2".toList)], []⟩ true none none []).map
      (fun out => (out.props.get? "FREEZES".toList, attrGet .sscSimfile out.props "stops".toList)) =
    .ok (some (some "1=2".toList), some []) := by decide +kernel

/-! ### 19. negative BPMs and stops -/

/-- an SM source with a negative BPM or stop value is refused -/
theorem negative_refused (sm : AnySimfile) (toSSC : Bool) (st : Option AnySimfile)
    (ct : Option (Dict × Option (List Str))) (beh : List (Nat × Nat)) (hs : sm.isSSC = false)
    (b s : List BVRow)
    (hb : beatValuesFromStr (attrGet .smSimfile sm.props "bpms".toList) = some b)
    (hst : beatValuesFromStr (attrGet .smSimfile sm.props "stops".toList) = some s)
    (hneg : ∃ r ∈ b ++ s, ∃ q, parseDecimal r.value = some q ∧ q < 0) :
    convert sm toSSC st ct beh = .error .notImplemented := by
  have e1 : "bpms".toList = ['b','p','m','s'] := by decide
  have e2 : "stops".toList = ['s','t','o','p','s'] := by decide
  rw [e1] at hb; rw [e2] at hst
  rw [convert_eq, convertWarps_sm sm hs, hb, hst]
  obtain ⟨r, hr, q, hq, hn⟩ := hneg
  have : (hasNegative b || hasNegative s) = true := by
    rcases List.mem_append.mp hr with hr | hr
    · rw [hasNegative_of_mem b r q hr hq hn]; rfl
    · rw [hasNegative_of_mem s r q hr hq hn]; simp
  simp only [this, if_true]

/-- BPMS or stops that do not parse as `beat=value` rows are a ValueError -/
theorem unparsable_refused (sm : AnySimfile) (toSSC : Bool) (st : Option AnySimfile)
    (ct : Option (Dict × Option (List Str))) (beh : List (Nat × Nat)) (hs : sm.isSSC = false)
    (h : beatValuesFromStr (attrGet .smSimfile sm.props "bpms".toList) = none ∨
      beatValuesFromStr (attrGet .smSimfile sm.props "stops".toList) = none) :
    convert sm toSSC st ct beh = .error .valueError := by
  have e1 : "bpms".toList = ['b','p','m','s'] := by decide
  have e2 : "stops".toList = ['s','t','o','p','s'] := by decide
  rw [e1, e2] at h
  rw [convert_eq, convertWarps_sm sm hs]
  rcases h with h | h
  · rw [h]
  · rw [h]; cases beatValuesFromStr (attrGet .smSimfile sm.props ['b','p','m','s']) <;> rfl

example : convert ⟨false, [("BPMS".toList, some "0=120,x".toList)], []⟩ true none none [] = .error .valueError := by
  decide +kernel
example : convert ⟨false, [("BPMS".toList, some "0=120,4=-90".toList)], []⟩ true none none [] =
    .error .notImplemented := by decide +kernel
example : convert ⟨false, [("BPMS".toList, some "0=120".toList), ("FREEZES".toList, some "4=-1".toList)], []⟩
    true none none [] = .error .notImplemented := by decide +kernel

end Simfile.C16
