/-
C16: SM → SSC conversion keeps everything: no property is invalid for SSC, so every property and every chart
field of the source arrives in the output, after the template's own keys; negative BPMs / stops are refused.
Sections 20–23: the timing data and the note data of the result, read through the library's accessor rules, equal
the source's; the result of the default call reloads unchanged.
-/
import Simfile.Lemmas.Convert
import Simfile.Lemmas.ConvertTiming
import Simfile.Props.C02
namespace Simfile.C16
open Simfile Simfile.O Simfile.V Simfile.Cv Simfile.CT Simfile.S

/-! ### 17. nothing is invalid for SSC -/

theorem no_invalid_for_ssc : T.invalidSSCSimfile = [] ∧ T.invalidSSCChart = [] := by decide

theorem should_copy_ssc (k : Str) (v : Option Str) (beh : List (Nat × Nat)) :
    shouldCopy k v T.invalidSSCSimfile beh = .ok true ∧ shouldCopy k v T.invalidSSCChart beh = .ok true := by
  rw [no_invalid_for_ssc.1, no_invalid_for_ssc.2]; exact ⟨rfl, rfl⟩

/-! ### 18. everything is kept -/

/-- `Cv.startOf`, `Cv.chartStartOf`: the object the conversion starts from — the template unless it is missing
or has no items, else the generated blank object -/
theorem startOf_def (toSSC : Bool) (st : Option AnySimfile) :
    startOf toSSC st = match st with
      | some t => if t.props.isEmpty then blankSimfile toSSC else t
      | none => blankSimfile toSSC := rfl
theorem chartStartOf_def (toSSC : Bool) (ct : Option (Dict × Option (List Str))) :
    chartStartOf toSSC ct = match ct with
      | some t => if t.1.isEmpty then blankChart toSSC else t
      | none => blankChart toSSC := rfl

/-- the whole result of a successful SM → SSC conversion, in closed form: `Dict.set` folded over ALL items of the
source, starting from the template -/
theorem result (sm out : AnySimfile) (st : Option AnySimfile) (ct : Option (Dict × Option (List Str)))
    (beh : List (Nat × Nat)) (h : convert sm true st ct beh = .ok out) :
    out = { isSSC := true,
            props := setAll (startOf true st).props sm.props,
            charts := (startOf true st).charts ++
              sm.charts.map fun c => (setAll (chartStartOf true ct).1 c.1, (chartStartOf true ct).2) } := by
  rw [convert_eq] at h
  cases hw : convertWarps sm with
  | error e => rw [hw] at h; cases h
  | ok u =>
    rw [hw] at h
    simp only [] at h
    have hi : invSimOf true = [] := no_invalid_for_ssc.1
    have hc : invChartOf true = [] := no_invalid_for_ssc.2
    rw [hi, copyProperties_nil_invalid] at h
    simp only [] at h
    have hm : sm.charts.mapM (convChart true ct beh) =
        .ok (sm.charts.map fun c => (setAll (chartStartOf true ct).1 c.1, (chartStartOf true ct).2)) := by
      apply mapM_ok_of_forall
      intro c _
      rw [convChart_eq, hc]
      show (match copyProperties false c.1 (chartStartOf true ct).1 [] beh with
        | .error e => Except.error e
        | .ok d => Except.ok (d, (chartStartOf true ct).2)) = _
      rw [copyProperties_nil_invalid]
    rw [hm] at h
    simp only [Except.ok.injEq] at h
    exact h.symm

/-- every property of the source is in the output with its value; the template's keys keep their positions, new
keys follow in source order; template values survive unless the source has the key -/
theorem props_kept (sm out : AnySimfile) (st : Option AnySimfile) (ct : Option (Dict × Option (List Str)))
    (beh : List (Nat × Nat)) (h : convert sm true st ct beh = .ok out) :
    (Dict.WF sm.props → ∀ kv ∈ sm.props, out.props.get? kv.1 = some kv.2) ∧
    Dict.keys out.props = Dict.keys (startOf true st).props ++
      ((sm.props.map (·.1)).filter (fun k => !(Dict.keys (startOf true st).props).contains k)).eraseDups ∧
    (∀ k, k ∉ Dict.keys sm.props → out.props.get? k = (startOf true st).props.get? k) ∧
    (Dict.WF (startOf true st).props → Dict.WF out.props) := by
  rw [result sm out st ct beh h]
  refine ⟨fun hwf kv hkv => get?_setAll_of_mem_WF _ _ kv hwf hkv, keys_setAll _ _, fun k hk => ?_,
    fun hwf => WF_setAll _ _ hwf⟩
  apply get?_setAll_of_not_mem
  intro kv hkv e
  exact hk (e ▸ List.mem_map.mpr ⟨kv, hkv, rfl⟩)

/-- the output charts are the template's charts followed by one chart per source chart, in order, each holding
every field of its source chart (on top of the chart template) -/
theorem charts_kept (sm out : AnySimfile) (st : Option AnySimfile) (ct : Option (Dict × Option (List Str)))
    (beh : List (Nat × Nat)) (h : convert sm true st ct beh = .ok out) :
    out.charts = (startOf true st).charts ++
      sm.charts.map (fun c => (setAll (chartStartOf true ct).1 c.1, (chartStartOf true ct).2)) ∧
    out.charts.length = (startOf true st).charts.length + sm.charts.length ∧
    ∀ c ∈ sm.charts, Dict.WF c.1 → ∀ kv ∈ c.1, (setAll (chartStartOf true ct).1 c.1).get? kv.1 = some kv.2 := by
  rw [result sm out st ct beh h]
  refine ⟨rfl, by simp, fun c _ hwf kv hkv => get?_setAll_of_mem_WF _ _ kv hwf hkv⟩

/-- the conversion succeeds exactly when `_convert_warps` does -/
theorem succeeds_iff (sm : AnySimfile) (st : Option AnySimfile) (ct : Option (Dict × Option (List Str)))
    (beh : List (Nat × Nat)) :
    (∃ out, convert sm true st ct beh = .ok out) ↔ convertWarps sm = .ok () := by
  rw [convert_eq]
  have hi : invSimOf true = [] := no_invalid_for_ssc.1
  have hc : invChartOf true = [] := no_invalid_for_ssc.2
  have hm : sm.charts.mapM (convChart true ct beh) =
      .ok (sm.charts.map fun c => (setAll (chartStartOf true ct).1 c.1, (chartStartOf true ct).2)) := by
    apply mapM_ok_of_forall
    intro c _
    rw [convChart_eq, hc]
    show (match copyProperties false c.1 (chartStartOf true ct).1 [] beh with
      | .error e => Except.error e
      | .ok d => Except.ok (d, (chartStartOf true ct).2)) = _
    rw [copyProperties_nil_invalid]
  cases hw : convertWarps sm with
  | error e => simp
  | ok u => rw [hi, copyProperties_nil_invalid, hm]; simp

example : convert ⟨false, [("FREEZES".toList, some "1=2".toList), ("TITLE".toList, some "x".toList)],
    [(T.blankSMChart, none)]⟩ true none none [] =
    .ok ⟨true, Dict.set (Dict.set T.blankSSCSimfile "FREEZES".toList (some "1=2".toList)) "TITLE".toList (some "x".toList),
      [(setAll T.blankSSCChart T.blankSMChart, none)]⟩ := by decide +kernel

/-- observation: the SM-only alias FREEZES is kept as a key, but an SSC simfile has no such alias, so the stops
are no longer visible through the `stops` attribute of the result -/
example : (convert ⟨false, [("FREEZES".toList, some "1=2".toList)], []⟩ true none none []).map
      (fun out => (out.props.get? "FREEZES".toList, attrGet .sscSimfile out.props "stops".toList)) =
    .ok (some (some "1=2".toList), some []) := by decide +kernel

/-! ### 19. negative BPMs and stops -/

/-- every value token of the rows is a decimal literal (`Decimal(value)` succeeds on each) -/
theorem valuesParse_iff (rows : List BVRow) :
    valuesParse rows = true ↔ ∀ r ∈ rows, ∃ q, parseDecimal r.value = some q := by
  unfold valuesParse
  rw [List.all_eq_true]
  simp only [Option.isSome_iff_exists]

theorem hasNegative_iff (rows : List BVRow) :
    hasNegative rows = true ↔ ∃ r ∈ rows, ∃ q, parseDecimal r.value = some q ∧ q < 0 := by
  unfold hasNegative
  rw [List.any_eq_true]
  constructor
  · rintro ⟨r, hr, h⟩
    cases hq : parseDecimal r.value with
    | none => rw [hq] at h; cases h
    | some q => rw [hq] at h; exact ⟨r, hr, q, hq, by simpa using h⟩
  · rintro ⟨r, hr, q, hq, hn⟩
    exact ⟨r, hr, by rw [hq]; simpa using hn⟩

/-- an SM source whose BPM and stop rows all carry decimal values, one of them negative, is refused -/
theorem negative_refused (sm : AnySimfile) (toSSC : Bool) (st : Option AnySimfile)
    (ct : Option (Dict × Option (List Str))) (beh : List (Nat × Nat)) (hs : sm.isSSC = false)
    (b s : List BVRow)
    (hb : beatValuesFromStr (attrGet .smSimfile sm.props "bpms".toList) = some b)
    (hst : beatValuesFromStr (attrGet .smSimfile sm.props "stops".toList) = some s)
    (hvp : ∀ r ∈ b ++ s, ∃ q, parseDecimal r.value = some q)
    (hneg : ∃ r ∈ b ++ s, ∃ q, parseDecimal r.value = some q ∧ q < 0) :
    convert sm toSSC st ct beh = .error .notImplemented := by
  have e1 : "bpms".toList = ['b','p','m','s'] := by decide
  have e2 : "stops".toList = ['s','t','o','p','s'] := by decide
  rw [e1] at hb; rw [e2] at hst
  rw [convert_eq, convertWarps_sm sm hs, hb, hst]
  obtain ⟨r, hr, q, hq, hn⟩ := hneg
  have : (hasNegative b || hasNegative s) = true := by
    rcases List.mem_append.mp hr with hr | hr
    · rw [hasNegative_of_mem b r q hr hq hn]; rfl
    · rw [hasNegative_of_mem s r q hr hq hn]; simp
  have hp : (valuesParse b && valuesParse s) = true := by
    rw [Bool.and_eq_true, valuesParse_iff, valuesParse_iff]
    exact ⟨fun r hr => hvp r (List.mem_append_left _ hr), fun r hr => hvp r (List.mem_append_right _ hr)⟩
  simp only [this, hp, if_true, Bool.not_true, Bool.false_eq_true, if_false]

/-- BPMS or stops that do not parse as `beat=value` rows, or a row whose value token is not a decimal literal
(whatever the signs of the other rows): a ValueError -/
theorem unparsable_refused (sm : AnySimfile) (toSSC : Bool) (st : Option AnySimfile)
    (ct : Option (Dict × Option (List Str))) (beh : List (Nat × Nat)) (hs : sm.isSSC = false)
    (h : beatValuesFromStr (attrGet .smSimfile sm.props "bpms".toList) = none ∨
      beatValuesFromStr (attrGet .smSimfile sm.props "stops".toList) = none ∨
      ∃ b s, beatValuesFromStr (attrGet .smSimfile sm.props "bpms".toList) = some b ∧
        beatValuesFromStr (attrGet .smSimfile sm.props "stops".toList) = some s ∧
        ∃ r ∈ b ++ s, parseDecimal r.value = none) :
    convert sm toSSC st ct beh = .error .valueError := by
  have e1 : "bpms".toList = ['b','p','m','s'] := by decide
  have e2 : "stops".toList = ['s','t','o','p','s'] := by decide
  rw [e1, e2] at h
  rw [convert_eq, convertWarps_sm sm hs]
  rcases h with h | h | ⟨b, s, hb, hst, r, hr, hq⟩
  · rw [h]
  · rw [h]; cases beatValuesFromStr (attrGet .smSimfile sm.props ['b','p','m','s']) <;> rfl
  · rw [hb, hst]
    have hp : (valuesParse b && valuesParse s) = false := by
      rw [Bool.and_eq_false_iff, ← Bool.not_eq_true, ← Bool.not_eq_true, valuesParse_iff, valuesParse_iff]
      rcases List.mem_append.mp hr with hr | hr
      · exact Or.inl fun hall => by obtain ⟨q, hq'⟩ := hall r hr; rw [hq] at hq'; cases hq'
      · exact Or.inr fun hall => by obtain ⟨q, hq'⟩ := hall r hr; rw [hq] at hq'; cases hq'
    simp only [hp, Bool.not_false, if_true]

/-- `_convert_warps` on an SM source, by rows: it passes exactly when BPMS and stops both split into `beat=value`
rows and every value token is a decimal literal that is not negative -/
theorem convertWarps_ok_iff (sm : AnySimfile) (hs : sm.isSSC = false) :
    convertWarps sm = .ok () ↔
      ∃ b s, beatValuesFromStr (attrGet .smSimfile sm.props "bpms".toList) = some b ∧
        beatValuesFromStr (attrGet .smSimfile sm.props "stops".toList) = some s ∧
        ∀ r ∈ b ++ s, ∃ q, parseDecimal r.value = some q ∧ 0 ≤ q := by
  have e1 : "bpms".toList = ['b','p','m','s'] := by decide
  have e2 : "stops".toList = ['s','t','o','p','s'] := by decide
  rw [e1, e2, convertWarps_sm sm hs]
  cases hb : beatValuesFromStr (attrGet .smSimfile sm.props ['b','p','m','s']) with
  | none => simp
  | some b =>
    cases hst : beatValuesFromStr (attrGet .smSimfile sm.props ['s','t','o','p','s']) with
    | none => simp
    | some s =>
      simp only [Option.some.injEq, exists_and_left, exists_eq_left']
      by_cases hp : (valuesParse b && valuesParse s) = true
      · by_cases hng : (hasNegative b || hasNegative s) = true
        · simp only [hp, hng, Bool.not_true, Bool.false_eq_true, if_false, if_true, reduceCtorEq, false_iff]
          intro hall
          rw [Bool.or_eq_true, hasNegative_iff, hasNegative_iff] at hng
          have : ∃ r ∈ b ++ s, ∃ q, parseDecimal r.value = some q ∧ q < 0 := by
            rcases hng with ⟨r, hr, h⟩ | ⟨r, hr, h⟩
            · exact ⟨r, List.mem_append_left _ hr, h⟩
            · exact ⟨r, List.mem_append_right _ hr, h⟩
          obtain ⟨r, hr, q, hq, hn⟩ := this
          obtain ⟨q', hq', hn'⟩ := hall r hr
          rw [hq] at hq'; cases hq'
          exact absurd hn (not_lt.mpr hn')
        · simp only [hp, hng, Bool.not_true, Bool.false_eq_true, if_false, true_iff]
          intro r hr
          rw [Bool.and_eq_true, valuesParse_iff, valuesParse_iff] at hp
          have hq : ∃ q, parseDecimal r.value = some q := by
            rcases List.mem_append.mp hr with hr | hr
            · exact hp.1 r hr
            · exact hp.2 r hr
          obtain ⟨q, hq⟩ := hq
          refine ⟨q, hq, not_lt.mp fun hn => hng ?_⟩
          rw [Bool.or_eq_true, hasNegative_iff, hasNegative_iff]
          rcases List.mem_append.mp hr with hr | hr
          · exact Or.inl ⟨r, hr, q, hq, hn⟩
          · exact Or.inr ⟨r, hr, q, hq, hn⟩
      · simp only [hp, Bool.not_false, if_true, reduceCtorEq, false_iff]
        intro hall
        apply hp
        rw [Bool.and_eq_true, valuesParse_iff, valuesParse_iff]
        exact ⟨fun r hr => (hall r (List.mem_append_left _ hr)).imp fun q h => h.1,
          fun r hr => (hall r (List.mem_append_right _ hr)).imp fun q h => h.1⟩

/-- the conversion of an SM source succeeds exactly when BPMS and stops (STOPS or its alias FREEZES) split into
rows whose value tokens are all decimal literals, none negative -/
theorem succeeds_iff_rows (sm : AnySimfile) (st : Option AnySimfile) (ct : Option (Dict × Option (List Str)))
    (beh : List (Nat × Nat)) (hs : sm.isSSC = false) :
    (∃ out, convert sm true st ct beh = .ok out) ↔
      ∃ b s, beatValuesFromStr (attrGet .smSimfile sm.props "bpms".toList) = some b ∧
        beatValuesFromStr (attrGet .smSimfile sm.props "stops".toList) = some s ∧
        ∀ r ∈ b ++ s, ∃ q, parseDecimal r.value = some q ∧ 0 ≤ q := by
  rw [succeeds_iff, convertWarps_ok_iff sm hs]

example : convert ⟨false, [("BPMS".toList, some "0=120,x".toList)], []⟩ true none none [] = .error .valueError := by
  decide +kernel
example : convert ⟨false, [("BPMS".toList, some "0=120,4=-90".toList)], []⟩ true none none [] =
    .error .notImplemented := by decide +kernel
/-- a value token that is not a decimal literal is a ValueError even next to a negative value -/
example : convert ⟨false, [("BPMS".toList, some "0=-120,4=abc".toList)], []⟩ true none none [] =
    .error .valueError := by decide +kernel
example : convert ⟨false, [("BPMS".toList, some "0=120".toList), ("STOPS".toList, some "4=1x".toList)], []⟩
    true none none [] = .error .valueError := by decide +kernel
example : convert ⟨false, [("BPMS".toList, some "0=120".toList), ("FREEZES".toList, some "4=-1".toList)], []⟩
    true none none [] = .error .notImplemented := by decide +kernel

/-! ### 20. the timing data of the result equals the source's

`timingData sim chart` is `TimingData(simfile, chart)` read through the library's own accessor rules
(`attrGet` with the alias rule, `useChart` = `timing_source`). The result is read as an SSC simfile, the source as an
SM simfile. `CT.timingKeys = [BPMS, STOPS, DELAYS, WARPS, OFFSET]`.

A key the source LACKS is read from the template in the result, so the statement needs the template to be "neutral"
for such keys (`CT.Neutral`): the blank SSC simfile is neutral for STOPS, DELAYS, WARPS, OFFSET ("" / "0.000000")
but not for BPMS ("0.000=60.000") — see `timing_needs_bpms`. -/

/-- general form: for each of the five keys the source has the key or the start object's value under it reads like
a missing property (for STOPS: and the source has no FREEZES alias) -/
theorem timing_equal_simfile_of_neutral (sm out : AnySimfile) (st : Option AnySimfile)
    (ct : Option (Dict × Option (List Str))) (beh : List (Nat × Nat)) (hwf : Dict.WF sm.props)
    (hn : Neutral (startOf true st).props sm.props)
    (h : convert ⟨false, sm.props, sm.charts⟩ true st ct beh = .ok out) :
    timingData ⟨.sscSimfile, out.props⟩ none = timingData ⟨.smSimfile, sm.props⟩ none := by
  rw [result _ out st ct beh h, timingData_none, timingData_none]
  exact congrArg Except.ok (tdOf_setAll _ _ hwf hn)

/-- a source that has all five timing keys (in particular STOPS, so the FREEZES alias is not in play), any
templates: BPMS, STOPS, DELAYS, WARPS, OFFSET read from the result are those read from the source -/
theorem timing_equal_simfile (sm out : AnySimfile) (st : Option AnySimfile)
    (ct : Option (Dict × Option (List Str))) (beh : List (Nat × Nat)) (hwf : Dict.WF sm.props)
    (hkeys : ∀ k ∈ timingKeys, k ∈ Dict.keys sm.props)
    (h : convert ⟨false, sm.props, sm.charts⟩ true st ct beh = .ok out) :
    timingData ⟨.sscSimfile, out.props⟩ none = timingData ⟨.smSimfile, sm.props⟩ none :=
  timing_equal_simfile_of_neutral sm out st ct beh hwf (Neutral.of_all_keys _ _ hkeys) h

/-- the default call (the start object is the generated blank SSC simfile: no template, or one without items):
it suffices that the source has BPMS, and STOPS unless it has no FREEZES either -/
theorem timing_equal_simfile_blank (sm out : AnySimfile) (st : Option AnySimfile)
    (ct : Option (Dict × Option (List Str))) (beh : List (Nat × Nat)) (hwf : Dict.WF sm.props)
    (hst : (startOf true st).props = T.blankSSCSimfile)
    (hbpms : kBPMS ∈ Dict.keys sm.props)
    (hstops : kSTOPS ∈ Dict.keys sm.props ∨ kFREEZES ∉ Dict.keys sm.props)
    (h : convert ⟨false, sm.props, sm.charts⟩ true st ct beh = .ok out) :
    timingData ⟨.sscSimfile, out.props⟩ none = timingData ⟨.smSimfile, sm.props⟩ none := by
  apply timing_equal_simfile_of_neutral sm out st ct beh hwf _ h
  rw [hst]
  obtain ⟨h1, h2, h3, h4⟩ := blank_neutral
  exact ⟨Or.inl hbpms, hstops.elim Or.inl (fun hf => Or.inr ⟨hf, h1⟩), Or.inr h2, Or.inr h3, Or.inr h4⟩

theorem startOf_none_props : (startOf true none).props = T.blankSSCSimfile := rfl

/-- FINDING (why "the source has STOPS" alone is not enough): a source WITHOUT a BPMS key converted with the blank
template reads BPMS "0.000=60.000" from the template, while the source itself reads no BPM at all -/
theorem timing_needs_bpms :
    (convert ⟨false, [("STOPS".toList, some [])], []⟩ true none none []).map
        (fun out => (timingData ⟨.sscSimfile, out.props⟩ none).map (·.bpms)) =
      .ok (.ok (some [⟨0, "60.000".toList⟩])) ∧
    (timingData ⟨.smSimfile, [("STOPS".toList, some [])]⟩ none).map (·.bpms) = .ok (some []) := by
  decide +kernel

/-- the known FREEZES-only case: the stops of the source are read from FREEZES, those of the result from the
template's STOPS -/
example : (convert ⟨false, [("BPMS".toList, some "0=120".toList), ("FREEZES".toList, some "1=2".toList)], []⟩
      true none none []).map (fun out => (timingData ⟨.sscSimfile, out.props⟩ none).map (·.stops)) =
      .ok (.ok (some [])) ∧
    (timingData ⟨.smSimfile, [("BPMS".toList, some "0=120".toList), ("FREEZES".toList, some "1=2".toList)]⟩
      none).map (·.stops) = .ok (some [⟨1, "2".toList⟩]) := by decide +kernel

/-! ### 21. no converted chart becomes the timing source -/

/-- the generated blank SSC chart has no non-empty value under any of the eleven chart timing keys -/
theorem blank_chart_no_timing : NoChartTiming T.blankSSCChart := by decide +kernel

theorem chartStartOf_none : (chartStartOf true none).1 = T.blankSSCChart := rfl

/-- the six SM chart fields are none of the eleven chart timing keys -/
theorem sm_fields_no_timing : ∀ key ∈ T.chartTimingProperties, key ∉ T.smChartProperties :=
  smChartProperties_disjoint

/-- Every converted chart `c'` (the charts of `out` after the template's own): if neither the chart template nor the
source chart has a non-empty value under one of the eleven chart timing keys, then `c'` has none, `timing_source`
answers "the simfile" (or fails with the version error), and whenever the version check succeeds the timing data
computed for (`out`, `c'`) is that of the source simfile. -/
theorem timing_equal_chart (sm out : AnySimfile) (st : Option AnySimfile)
    (ct : Option (Dict × Option (List Str))) (beh : List (Nat × Nat)) (hwf : Dict.WF sm.props)
    (hn : Neutral (startOf true st).props sm.props)
    (h : convert ⟨false, sm.props, sm.charts⟩ true st ct beh = .ok out)
    (htmpl : NoChartTiming (chartStartOf true ct).1)
    (hsrc : ∀ c ∈ sm.charts, ∀ kv ∈ c.1, kv.1 ∈ T.chartTimingProperties → truthy kv.2 = false) :
    ∀ c' ∈ out.charts.drop (startOf true st).charts.length,
      NoChartTiming c'.1 ∧
      useChart ⟨.sscSimfile, out.props⟩ (some ⟨.sscChart, c'.1⟩) =
        (versionOK (versionString ⟨.sscSimfile, out.props⟩)).map (fun _ => false) ∧
      ∀ b, versionOK (versionString ⟨.sscSimfile, out.props⟩) = .ok b →
        useChart ⟨.sscSimfile, out.props⟩ (some ⟨.sscChart, c'.1⟩) = .ok false ∧
        timingData ⟨.sscSimfile, out.props⟩ (some ⟨.sscChart, c'.1⟩) = timingData ⟨.smSimfile, sm.props⟩ none := by
  intro c' hc'
  have hch := (charts_kept _ out st ct beh h).1
  rw [hch, List.drop_left] at hc'
  obtain ⟨c, hc, rfl⟩ := List.mem_map.mp hc'
  have hno : NoChartTiming (setAll (chartStartOf true ct).1 c.1) :=
    noChartTiming_setAll _ _ htmpl (hsrc c hc)
  have hu := useChart_of_noChartTiming ⟨.sscSimfile, out.props⟩ rfl _ hno
  refine ⟨hno, hu, ?_⟩
  intro b hb
  have hu' : useChart ⟨.sscSimfile, out.props⟩ (some ⟨.sscChart, setAll (chartStartOf true ct).1 c.1⟩) =
      .ok false := by rw [hu, hb]; rfl
  exact ⟨hu', by rw [timingData_of_not_chart _ _ hu',
    timing_equal_simfile_of_neutral sm out st ct beh hwf hn h]⟩

/-- SM charts only hold the six fields: a source chart whose keys are among `T.smChartProperties` has no chart
timing value -/
theorem sm_chart_no_timing (c : Dict) (hk : ∀ k ∈ Dict.keys c, k ∈ T.smChartProperties) :
    ∀ kv ∈ c, kv.1 ∈ T.chartTimingProperties → truthy kv.2 = false := by
  intro kv hkv ht
  exact absurd (hk kv.1 (List.mem_map.mpr ⟨kv, hkv, rfl⟩)) (sm_fields_no_timing kv.1 ht)

/-- with the blank simfile template the version of the result is the blank "0.83" unless the source brings its own
VERSION, and it passes the split-timing test -/
theorem version_ok_blank (sm out : AnySimfile) (st : Option AnySimfile)
    (ct : Option (Dict × Option (List Str))) (beh : List (Nat × Nat))
    (hst : (startOf true st).props = T.blankSSCSimfile) (hv : kVERSION ∉ Dict.keys sm.props)
    (h : convert ⟨false, sm.props, sm.charts⟩ true st ct beh = .ok out) :
    versionOK (versionString ⟨.sscSimfile, out.props⟩) = .ok true := by
  rw [result _ out st ct beh h]
  simp only [hst]
  rw [versionString_congr _ T.blankSSCSimfile (get?_setAll_of_not_key _ _ _ hv)]
  exact blank_version_ok

/-- the default call `sm_to_ssc(sm)`: blank templates, an SM source with distinct keys that has BPMS (and STOPS, or no
FREEZES) and no VERSION, charts holding only the six SM fields. For EVERY chart `c'` of the result, the timing data of
(`out`, `c'`) is the timing data of the source simfile. -/
theorem timing_equal_chart_default (sm out : AnySimfile) (beh : List (Nat × Nat)) (hwf : Dict.WF sm.props)
    (hbpms : kBPMS ∈ Dict.keys sm.props)
    (hstops : kSTOPS ∈ Dict.keys sm.props ∨ kFREEZES ∉ Dict.keys sm.props)
    (hv : kVERSION ∉ Dict.keys sm.props)
    (hfields : ∀ c ∈ sm.charts, ∀ k ∈ Dict.keys c.1, k ∈ T.smChartProperties)
    (h : convert ⟨false, sm.props, sm.charts⟩ true none none beh = .ok out) :
    ∀ c' ∈ out.charts,
      useChart ⟨.sscSimfile, out.props⟩ (some ⟨.sscChart, c'.1⟩) = .ok false ∧
      timingData ⟨.sscSimfile, out.props⟩ (some ⟨.sscChart, c'.1⟩) = timingData ⟨.smSimfile, sm.props⟩ none := by
  intro c' hc'
  obtain ⟨h1, h2, h3, h4⟩ := blank_neutral
  have hn : Neutral (startOf true none).props sm.props :=
    ⟨Or.inl hbpms, hstops.elim Or.inl (fun hf => Or.inr ⟨hf, h1⟩), Or.inr h2, Or.inr h3, Or.inr h4⟩
  have := timing_equal_chart sm out none none beh hwf hn h blank_chart_no_timing
    (fun c hc => sm_chart_no_timing c.1 (hfields c hc)) c' (by simpa [startOf, blankSimfile] using hc')
  exact this.2.2 true (version_ok_blank sm out none none beh rfl hv h)

/-! ### 22. the note data of every converted chart is the source chart's -/

/-- the i-th converted chart (after the template's own charts) holds the i-th source chart's NOTES value: so
decoding the notes of the result gives the notes of the source -/
theorem notes_equal (sm out : AnySimfile) (st : Option AnySimfile)
    (ct : Option (Dict × Option (List Str))) (beh : List (Nat × Nat))
    (h : convert ⟨false, sm.props, sm.charts⟩ true st ct beh = .ok out) :
    ∀ (i : Nat) (c c' : Dict × Option (List Str)), sm.charts[i]? = some c →
      out.charts[(startOf true st).charts.length + i]? = some c' →
      Dict.WF c.1 → kNOTES ∈ Dict.keys c.1 → c'.1.get? kNOTES = c.1.get? kNOTES := by
  intro i c c' hc hc' hwf hk
  rw [(charts_kept _ out st ct beh h).1] at hc'
  simp only [List.getElem?_append_right (Nat.le_add_right _ _), Nat.add_sub_cancel_left, List.getElem?_map,
    hc, Option.map_some, Option.some.injEq] at hc'
  subst hc'
  exact get?_setAll_of_key_WF _ _ _ hwf hk

/-- and there are exactly as many converted charts as source charts -/
theorem notes_equal_count (sm out : AnySimfile) (st : Option AnySimfile)
    (ct : Option (Dict × Option (List Str))) (beh : List (Nat × Nat))
    (h : convert ⟨false, sm.props, sm.charts⟩ true st ct beh = .ok out) :
    (out.charts.drop (startOf true st).charts.length).length = sm.charts.length := by
  rw [(charts_kept _ out st ct beh h).1, List.drop_left, List.length_map]

/-! ### 23. the result is in the SSC serializer's domain: saving and reloading it gives it back -/

/-- `CT.asSSC out` is the result as an SSC simfile object. If it lies in `C02.DomSSC` and every chart ends with its
note data, then serialize → parse gives exactly the result back. -/
theorem reloads_equal (out : AnySimfile) (hd : C02.DomSSC (asSSC out))
    (hl : ∀ ch ∈ (asSSC out).charts, ch.props.getLast?.map (·.1) = some (notesKey ch)) :
    (serSSC (asSSC out)).map (fun is => loadSSC (paramsOf is)) = .ok (asSSC out) :=
  C02.roundtrip_eq _ hd hl

/-- one converted chart built from the blank SSC chart and a source chart that holds only SM fields, with a NOTES
value that is not `None`: it keeps the blank chart's key order (NOTES last) and is in the chart domain -/
theorem chart_in_dom_blank (c : Dict) (hk : ∀ k ∈ Dict.keys c, k ∈ T.smChartProperties)
    (hnotes : ∀ kv ∈ c, kv.1 = kNOTES → kv.2 ≠ none) :
    C02.DomSSCChart ⟨setAll T.blankSSCChart c⟩ ∧
    (setAll T.blankSSCChart c).getLast?.map (·.1) = some (notesKey ⟨setAll T.blankSSCChart c⟩) := by
  obtain ⟨bwf, bkeys, bsub, blast, n0, hn0⟩ := blankChart_keys
  have hkeys : Dict.keys (setAll T.blankSSCChart c) = Dict.keys T.blankSSCChart :=
    keys_setAll_of_subset _ _ (fun k hk' => bsub k (hk k hk'))
  have hN : kNOTES ∈ Dict.keys (setAll T.blankSSCChart c) := by
    rw [hkeys]; exact bsub kNOTES (by decide)
  have hnk : notesKey ⟨setAll T.blankSSCChart c⟩ = kNOTES := by
    unfold notesKey
    simp only [(contains_iff _ _).mpr hN]
    rfl
  refine ⟨⟨WF_setAll _ _ bwf, fun k hk' => (bkeys k (hkeys ▸ hk')).1, fun k hk' => (bkeys k (hkeys ▸ hk')).2, ?_⟩, ?_⟩
  · rw [hnk]
    cases hg : (setAll T.blankSSCChart c).get? kNOTES with
    | none => exact absurd hN ((get?_eq_none_iff _ _).mp hg)
    | some v =>
      rcases get?_setAll_origin _ _ _ _ hg with h | h
      · cases v with
        | none => exact absurd rfl (hnotes _ h rfl)
        | some n => exact ⟨n, rfl⟩
      · rw [hn0] at h; cases h; exact ⟨n0, rfl⟩
  · rw [hnk, ← List.getLast?_map]
    show (Dict.keys (setAll T.blankSSCChart c)).getLast? = _
    rw [hkeys, blast]

/-- the result of the default call as an SSC simfile object, in closed form -/
theorem asSSC_result_blank (sm out : AnySimfile) (beh : List (Nat × Nat))
    (h : convert ⟨false, sm.props, sm.charts⟩ true none none beh = .ok out) :
    asSSC out = ⟨setAll T.blankSSCSimfile sm.props, sm.charts.map fun c => ⟨setAll T.blankSSCChart c.1⟩⟩ := by
  rw [result _ out none none beh h]
  simp [asSSC, startOf, blankSimfile, chartStartOf, blankChart]

/-- the default call `sm_to_ssc(sm)` on a source with upper-case keys other than NOTEDATA whose charts hold only the
six SM fields with a NOTES value: the result is in `C02.DomSSC` and every chart ends with its note data (both follow
from table facts about the generated blank SSC objects) -/
theorem result_in_dom_blank (sm out : AnySimfile) (beh : List (Nat × Nat))
    (hup : ∀ k ∈ Dict.keys sm.props, upper k = k ∧ k ≠ kNOTEDATA)
    (hcharts : ∀ c ∈ sm.charts, (∀ k ∈ Dict.keys c.1, k ∈ T.smChartProperties) ∧
      ∀ kv ∈ c.1, kv.1 = kNOTES → kv.2 ≠ none)
    (h : convert ⟨false, sm.props, sm.charts⟩ true none none beh = .ok out) :
    C02.DomSSC (asSSC out) ∧
    ∀ ch ∈ (asSSC out).charts, ch.props.getLast?.map (·.1) = some (notesKey ch) := by
  rw [asSSC_result_blank sm out beh h]
  refine ⟨⟨WF_setAll _ _ blankSim_keys.1, ?_, ?_, ?_⟩, ?_⟩
  · intro k hk
    rcases mem_keys_setAll _ _ k hk with h' | h'
    · exact (blankSim_keys.2 k h').1
    · exact (hup k h').1
  · intro k hk
    rcases mem_keys_setAll _ _ k hk with h' | h'
    · exact (blankSim_keys.2 k h').2
    · exact (hup k h').2
  · intro ch hc
    obtain ⟨c, hc', rfl⟩ := List.mem_map.mp hc
    exact (chart_in_dom_blank c.1 (hcharts c hc').1 (hcharts c hc').2).1
  · intro ch hc
    obtain ⟨c, hc', rfl⟩ := List.mem_map.mp hc
    exact (chart_in_dom_blank c.1 (hcharts c hc').1 (hcharts c hc').2).2

/-- hence saving the converted simfile and loading it again gives the converted simfile, unchanged -/
theorem reloads_equal_blank (sm out : AnySimfile) (beh : List (Nat × Nat))
    (hup : ∀ k ∈ Dict.keys sm.props, upper k = k ∧ k ≠ kNOTEDATA)
    (hcharts : ∀ c ∈ sm.charts, (∀ k ∈ Dict.keys c.1, k ∈ T.smChartProperties) ∧
      ∀ kv ∈ c.1, kv.1 = kNOTES → kv.2 ≠ none)
    (h : convert ⟨false, sm.props, sm.charts⟩ true none none beh = .ok out) :
    (serSSC (asSSC out)).map (fun is => loadSSC (paramsOf is)) = .ok (asSSC out) :=
  have hd := result_in_dom_blank sm out beh hup hcharts h
  reloads_equal out hd.1 hd.2

/-! ### non-vacuity of 20–23 -/

/-- an SM source with all five timing keys, a title, and two charts (the blank one and one with other values) -/
def exSM : AnySimfile :=
  ⟨false,
   [("TITLE".toList, some "x".toList), ("OFFSET".toList, some "-0.25".toList),
    ("BPMS".toList, some "0=120,8=90.5".toList), ("STOPS".toList, some "4=0.5".toList),
    ("DELAYS".toList, some []), ("WARPS".toList, none)],
   [(T.blankSMChart, none),
    ([("STEPSTYPE".toList, some "dance-double".toList), ("DESCRIPTION".toList, some "d".toList),
      ("DIFFICULTY".toList, some "Hard".toList), ("METER".toList, some "9".toList),
      ("RADARVALUES".toList, some "0,0".toList), ("NOTES".toList, some "00000000\n10000000".toList)], none)]⟩

/-- the default-call source: BPMS and FREEZES-free, no STOPS, DELAYS, WARPS, OFFSET -/
def exSMmin : AnySimfile :=
  ⟨false, [("TITLE".toList, some "x".toList), ("BPMS".toList, some "0=150".toList)], exSM.charts⟩

example : Dict.WF exSM.props ∧ (∀ k ∈ timingKeys, k ∈ Dict.keys exSM.props) := by decide +kernel
example : (convert ⟨false, exSM.props, exSM.charts⟩ true none none []).toOption.isSome = true := by decide +kernel
example : (timingData ⟨.smSimfile, exSM.props⟩ none).map (fun t => (t.bpms, t.stops)) =
    .ok (some [⟨0, "120".toList⟩, ⟨8, "90.5".toList⟩], some [⟨4, "0.5".toList⟩]) := by decide +kernel
example : (timingData ⟨.smSimfile, exSM.props⟩ none).map (fun t => (t.delays, t.warps, t.offset)) =
    .ok (some [], some [], some (-1/4)) := by decide +kernel
example (out : AnySimfile) (h : convert ⟨false, exSM.props, exSM.charts⟩ true none none [] = .ok out) :
    timingData ⟨.sscSimfile, out.props⟩ none = timingData ⟨.smSimfile, exSM.props⟩ none :=
  timing_equal_simfile exSM out none none [] (by decide +kernel) (by decide +kernel) h
example : Dict.WF exSMmin.props ∧ kBPMS ∈ Dict.keys exSMmin.props ∧ kFREEZES ∉ Dict.keys exSMmin.props ∧
    kVERSION ∉ Dict.keys exSMmin.props ∧
    (∀ c ∈ exSMmin.charts, ∀ k ∈ Dict.keys c.1, k ∈ T.smChartProperties) := by decide +kernel
example : (convert ⟨false, exSMmin.props, exSMmin.charts⟩ true none none []).toOption.isSome = true := by
  decide +kernel
example : (∀ k ∈ Dict.keys exSMmin.props, upper k = k ∧ k ≠ kNOTEDATA) ∧
    ∀ c ∈ exSMmin.charts, (∀ k ∈ Dict.keys c.1, k ∈ T.smChartProperties) ∧
      ∀ kv ∈ c.1, kv.1 = kNOTES → kv.2 ≠ none := by decide +kernel
example : ∀ c ∈ exSM.charts, Dict.WF c.1 ∧ kNOTES ∈ Dict.keys c.1 := by decide +kernel
/-- a chart template WITH a chart timing value is not covered by `timing_equal_chart`, and indeed becomes the source -/
example : ¬ NoChartTiming [("BPMS".toList, some "0=1".toList)] := by decide +kernel
example : useChart ⟨.sscSimfile, T.blankSSCSimfile⟩ (some ⟨.sscChart, [("BPMS".toList, some "0=1".toList)]⟩) =
    .ok true := by decide +kernel

end Simfile.C16
