/-
C05 — `open_with_detected_encoding` / `open` / `mutate`: which encoding is detected, what a fault-free
`mutate` writes and in which order; what is written parses back, and a second no-op save changes no byte
(section 6, over a codec `c` with `c.Law` and a tokenizer `M` with `M.Contract`; concrete instances with the
modelled msdparser are in Props/C05Concrete.lean).
Vocabulary (Simfile/Lemmas/Mutate.lean):
  `Mut.NoClash c`  : `∀ b, given c.backup = some b → b ≠ c.input ∧ some b ≠ c.output`
  `Mut.writeSide`  : `openW`, `write`, `close` (everything except `openR`)
  `Mut.opPath`     : the path an op acts on
-/
import Simfile.Gen.Tables
import Simfile.Lemmas.Mutate
import Simfile.Lemmas.Codec
import Simfile.Props.C04
namespace Simfile.C05
open Simfile Simfile.Mut

/-! ### 1. encoding detection -/

/-- the detected encoding is the first tried one under which the file decodes -/
theorem detect_first (tries : List (Str × Bool)) (e : Str) :
    detectEncoding tries = some e ↔
      ∃ pre post, tries = pre ++ (e, true) :: post ∧ ∀ x ∈ pre, x.2 = false :=
  detect_some_iff tries e

theorem detect_none (tries : List (Str × Bool)) :
    detectEncoding tries = none ↔ ∀ x ∈ tries, x.2 = false :=
  detect_none_iff tries

/-- an explicit `encoding=` is the only encoding tried -/
theorem explicit_single (e : Str) (l : List Str) : triedEncodings (some e) l = [e] := rfl

theorem no_explicit (l : List Str) : triedEncodings none l = l := rfl

theorem default_list :
    T.encodings = ["utf-8".toList, "cp1252".toList, "cp932".toList, "cp949".toList] := by decide

/-- the detection loop opens the input once per tried encoding up to and including the first success -/
theorem reads_until_success (input : Str) (pre post : List (Str × Bool)) (e : Str)
    (hpre : ∀ x ∈ pre, x.2 = false) :
    readOps input (pre ++ (e, true) :: post) = (pre.map fun x => FsOp.openR input x.1) ++ [FsOp.openR input e] := by
  induction pre with
  | nil => simp [readOps]
  | cons x pre ih =>
    obtain ⟨e0, ok⟩ := x
    have h0 : ok = false := hpre (e0, ok) (by simp)
    subst h0
    simp [readOps, ih (fun x hx => hpre x (by simp [hx]))]

/-! ### 2. a clashing backup name is refused before any filesystem call -/

theorem clash_refused (c : MutateCfg) (tries : List (Str × Bool)) (body : Body) (problem : SaveProblem)
    (b : Str) (h : given c.backup = some b ∧ (b = c.input ∨ some b = c.output)) :
    mutate c tries body problem = (.valueError, []) :=
  mutate_of_clash h.1 h.2 tries body problem

/-- conversely `ValueError` is raised only for a clash -/
theorem valueError_iff_clash (c : MutateCfg) (tries : List (Str × Bool)) (body : Body) (problem : SaveProblem) :
    (mutate c tries body problem).1 = .valueError ↔ ¬ NoClash c := by
  constructor
  · intro h hnc
    rw [mutate_of_noClash hnc] at h
    unfold mutate.go at h
    split at h
    · cases h
    · cases body <;> cases problem <;> cases h
  · intro h
    obtain ⟨b, hb, h⟩ := not_noClash h
    rw [mutate_of_clash hb h]

/-! ### 3. an undecodable input -/

theorem undecodable (c : MutateCfg) (tries : List (Str × Bool)) (body : Body) (problem : SaveProblem)
    (hnc : NoClash c) (hdet : detectEncoding tries = none) :
    mutate c tries body problem = (.unicodeDecodeError, readOps c.input tries) ∧
    (∀ op ∈ (mutate c tries body problem).2,
      (∀ p e, op ≠ .openW p e) ∧ (∀ p, op ≠ .write p) ∧ (∀ p, op ≠ .close p)) ∧
    (mutate c tries body problem).2 = tries.map fun x => FsOp.openR c.input x.1 := by
  have h : mutate c tries body problem = (.unicodeDecodeError, readOps c.input tries) := by
    rw [mutate_of_noClash hnc]
    unfold mutate.go
    rw [hdet]
  refine ⟨h, ?_, ?_⟩
  · rw [h]
    intro op hop
    obtain ⟨e, rfl⟩ := readOps_all_openR _ _ op hop
    refine ⟨?_, ?_, ?_⟩ <;> intros <;> simp
  · rw [h]
    exact readOps_all_false _ _ ((detect_none_iff tries).mp hdet)

/-! ### 4. the effect of a fault-free `mutate` -/

theorem mutate_effect (c : MutateCfg) (tries : List (Str × Bool)) (enc : Str)
    (hnc : NoClash c) (hdet : detectEncoding tries = some enc) :
    mutate c tries .returns .none = (.returned, readOps c.input tries ++ saveOps c enc) ∧
    ∀ fs : List (Str × Content),
      let fs' := runWrites fs (given c.backup) (readOps c.input tries ++ saveOps c enc) none
      lookupContent fs' c.outPath = some (.written false) ∧
      (∀ b, given c.backup = some b → lookupContent fs' b = some (.written true)) ∧
      (∀ p, p ≠ c.outPath → some p ≠ given c.backup → lookupContent fs' p = lookupContent fs p) := by
  constructor
  · rw [mutate_of_noClash hnc]
    unfold mutate.go
    rw [hdet]
  · intro fs
    simp only
    rw [runWrites_readOps]
    refine ⟨?_, ?_, ?_⟩
    · cases hb : given c.backup with
      | none =>
        rw [saveOps_none' hb, lookup_run_block_none]
        simp
      | some b =>
        have hne := backup_ne_outPath hnc hb
        rw [saveOps_some' hb, runWrites_append_none, lookup_run_block_none]
        simp [hne]
    · intro b hb
      have hne := backup_ne_outPath hnc hb
      rw [hb, saveOps_some' hb, runWrites_append_none, lookup_run_block_ne _ _ _ _ _ (Ne.symm hne),
        lookup_run_block_none]
      simp
    · intro p hp hpb
      apply runWrites_frame
      intro op hop _
      rcases saveOps_path c enc op hop with h | h
      · rw [h]; exact Ne.symm hp
      · intro he
        apply hpb
        rw [h, he]

/-- in particular the input keeps its content when an output name different from it was given -/
theorem input_kept_when_output_given (c : MutateCfg) (tries : List (Str × Bool)) (enc : Str) (o : Str)
    (hnc : NoClash c) (hdet : detectEncoding tries = some enc)
    (ho : given c.output = some o) (hoi : o ≠ c.input) (fs : List (Str × Content)) :
    lookupContent (runWrites fs (given c.backup) (mutate c tries .returns .none).2 none) c.input =
      lookupContent fs c.input := by
  obtain ⟨h1, h2⟩ := mutate_effect c tries enc hnc hdet
  rw [h1]
  apply (h2 fs).2.2
  · rw [outPath_of_some ho]; exact Ne.symm hoi
  · intro h
    exact (hnc c.input h.symm).1 rfl

/-- pairwise distinct paths stay pairwise distinct -/
theorem paths_stay_distinct (fs : List (Str × Content)) (b : Option Str) (ops : List FsOp) (k : Option Nat)
    (h : (fs.map (·.1)).Nodup) : ((runWrites fs b ops k).map (·.1)).Nodup :=
  nodup_runWrites b ops fs k h

/-! ### 5. the backup is written and closed before the output is opened -/

theorem write_order (c : MutateCfg) (enc : Str) (b : Str) (hnc : NoClash c) (hb : given c.backup = some b) :
    saveOps c enc = [FsOp.openW b enc, FsOp.write b, FsOp.close b] ++
      [FsOp.openW c.outPath enc, FsOp.write c.outPath, FsOp.close c.outPath] ∧
    ∀ (i j : Nat) (op₁ op₂ : FsOp), (saveOps c enc)[i]? = some op₁ → (saveOps c enc)[j]? = some op₂ →
      opPath op₁ = b → opPath op₂ = c.outPath → i < j := by
  have hne := backup_ne_outPath hnc hb
  refine ⟨saveOps_some hb enc, ?_⟩
  intro i j op₁ op₂ h1 h2 hp1 hp2
  rw [saveOps_some' hb] at h1 h2
  have hi : i < (block b enc).length :=
    idx_lt_of_not_post _ _ (fun op => opPath op = b)
      (fun y hy h => hne (by rw [← h, block_path _ _ y hy])) h1 hp1
  have hj : (block b enc).length ≤ j :=
    idx_ge_of_not_pre _ _ (fun op => opPath op = c.outPath)
      (fun y hy h => hne (by rw [← h, block_path _ _ y hy])) h2 hp2
  omega

/-- without a backup only the output is touched -/
theorem write_only_output (c : MutateCfg) (enc : Str) (hb : given c.backup = none) :
    saveOps c enc = [FsOp.openW c.outPath enc, FsOp.write c.outPath, FsOp.close c.outPath] :=
  saveOps_none hb enc

/-! ### 6. what is written parses back; a second no-op save changes no byte

`writtenSM M c s` / `writtenSSC M c s` are the bytes `mutate` writes for the simfile `s` in the detected encoding
`c` (Model/Codec.lean); `readSM` / `readSSC` decode with the same codec, tokenize strictly and load. The msdparser
enters through its contract `M.Contract`, the codec through `c.Law` (decode ∘ encode = id on encodable text). -/

/-- the bytes written for `s` decode and load to exactly `s`: the output clause for the simfile at block exit,
and the backup clause for the simfile at block entry -/
theorem output_parses_back_sm (M : Msd) (hM : M.Contract) (c : Codec) (hc : c.Law) (s : SMSimfile)
    (h : C01.DomSM s) (hs : safeDoc (serSM s) = true) (b : List UInt8) (hw : writtenSM M c s = some b) :
    readSM M c b = some s := by
  rw [Cd.readSM_of_decode M c b _ _ (Cd.decode_writtenSM M c hc s b hw)
    (hM.roundtrip (serSM s) true (C01.texts_blank s) hs), C01.roundtrip_params s h]

/-- SSC: the bytes written for `s` decode and load to `s` with each chart's note data moved last -/
theorem output_parses_back_ssc (M : Msd) (hM : M.Contract) (c : Codec) (hc : c.Law) (s : SSCSimfile)
    (h : C02.DomSSC s) (hs : (serSSC s).map safeDoc = .ok true) (b : List UInt8)
    (hw : writtenSSC M c s = some b) : readSSC M c b = some s.notesLast := by
  have hser := C02.serSSC_eq s h
  rw [hser] at hs
  have hs' : safeDoc (O.sscItems s) = true := Except.ok.inj (hs : Except.ok (safeDoc (O.sscItems s)) = _)
  rw [Cd.writtenSSC_of_ser M c s _ hser] at hw
  rw [Cd.readSSC_of_decode M c b _ _ (hc _ _ hw)
    (hM.roundtrip (O.sscItems s) true (O.text_mem_sscItems s) hs'), C02.load_sscItems s h]

/-- if moreover every chart already ends with its note data, the bytes load to `s` itself -/
theorem output_parses_back_ssc_eq (M : Msd) (hM : M.Contract) (c : Codec) (hc : c.Law) (s : SSCSimfile)
    (h : C02.DomSSC s) (hl : ∀ ch ∈ s.charts, ch.props.getLast?.map (·.1) = some (notesKey ch))
    (hs : (serSSC s).map safeDoc = .ok true) (b : List UInt8)
    (hw : writtenSSC M c s = some b) : readSSC M c b = some s := by
  rw [output_parses_back_ssc M hM c hc s h hs b hw]
  have h1 := C02.roundtrip_params s h
  rw [C02.roundtrip_eq s h hl] at h1
  exact congrArg some (Except.ok.inj h1).symm

/-- every SM simfile that was read from a file can be written and read again: a file `b₀` that loads as `s`,
saved without change as `b₁`, reads back as `s`, and saving that again writes `b₁` again -/
theorem noop_idempotent_sm (M : Msd) (hM : M.Contract) (c : Codec) (hc : c.Law) (b₀ b₁ : List UInt8)
    (s : SMSimfile) (hr : readSM M c b₀ = some s) (hs : safeDoc (serSM s) = true)
    (hw : writtenSM M c s = some b₁) :
    readSM M c b₁ = some s ∧ writtenSM M c s = some b₁ := by
  obtain ⟨t, ps, _, _, hl⟩ := (Cd.readSM_some_iff M c b₀ s).mp hr
  exact ⟨output_parses_back_sm M hM c hc s (C04.loaded_in_dom_sm ps s hl) hs b₁ hw, hw⟩

/-- the same with the second save made explicit: whatever is read from the written file `b₁` is written as
`b₁` again — a no-op mutate on a file it has already written leaves every byte unchanged -/
theorem noop_bytes_stable_sm (M : Msd) (hM : M.Contract) (c : Codec) (hc : c.Law) (b₀ b₁ : List UInt8)
    (s : SMSimfile) (hr : readSM M c b₀ = some s) (hs : safeDoc (serSM s) = true)
    (hw : writtenSM M c s = some b₁) :
    ∀ s', readSM M c b₁ = some s' → writtenSM M c s' = some b₁ := by
  intro s' hs'
  rw [(noop_idempotent_sm M hM c hc b₀ b₁ s hr hs hw).1] at hs'
  cases hs'; exact hw

/-- SSC: a file `b₀` that loads as `s₀` (every chart with note data), saved without change as `b₁`. The first
save normalises (`b₁` reads as `s₁ = s₀.notesLast`); from then on the bytes are stable: saving `s₁` writes `b₁`
again and `b₁` reads as `s₁` again. -/
theorem noop_idempotent_ssc (M : Msd) (hM : M.Contract) (c : Codec) (hc : c.Law) (b₀ b₁ : List UInt8)
    (s₀ : SSCSimfile) (hr : readSSC M c b₀ = some s₀)
    (hnotes : ∀ ch ∈ s₀.charts, ∃ n, ch.props.get? (notesKey ch) = some (some n))
    (hs : (serSSC s₀).map safeDoc = .ok true) (hw : writtenSSC M c s₀ = some b₁) :
    readSSC M c b₁ = some s₀.notesLast ∧ writtenSSC M c s₀.notesLast = some b₁ ∧
    ∀ s', readSSC M c b₁ = some s' → writtenSSC M c s' = some b₁ ∧ s'.notesLast = s' := by
  obtain ⟨t, ps, _, _, rfl⟩ := (Cd.readSSC_some_iff M c b₀ s₀).mp hr
  have hdom := C04.loaded_in_dom_ssc ps hnotes
  have h1 := output_parses_back_ssc M hM c hc _ hdom hs b₁ hw
  have h2 : writtenSSC M c (loadSSC ps).notesLast = some b₁ := by
    rw [Cd.writtenSSC_congr M c _ _ (C02.reserialize_stable (loadSSC ps))]; exact hw
  refine ⟨h1, h2, ?_⟩
  intro s' hs'
  rw [h1] at hs'
  cases hs'
  exact ⟨h2, C02.notesLast_idem _⟩

/-- stated for the file after the first save: with `s₁ := (loadSSC ps).notesLast` the simfile read from the
first save's bytes `b₁`, the second no-op save writes `b₁` and reading gives `s₁` again -/
theorem noop_idempotent_ssc_params (M : Msd) (hM : M.Contract) (c : Codec) (hc : c.Law) (ps : List Param)
    (hnotes : ∀ ch ∈ (loadSSC ps).charts, ∃ n, ch.props.get? (notesKey ch) = some (some n))
    (hs : (serSSC (loadSSC ps)).map safeDoc = .ok true) (b₁ : List UInt8)
    (hw : writtenSSC M c (loadSSC ps) = some b₁) :
    let s₁ := (loadSSC ps).notesLast
    readSSC M c b₁ = some s₁ ∧ writtenSSC M c s₁ = some b₁ ∧
    ∀ b₂, writtenSSC M c s₁ = some b₂ → b₂ = b₁ ∧ readSSC M c b₂ = some s₁ := by
  intro s₁
  have hdom := C04.loaded_in_dom_ssc ps hnotes
  have h1 := output_parses_back_ssc M hM c hc _ hdom hs b₁ hw
  have h2 : writtenSSC M c s₁ = some b₁ := by
    rw [Cd.writtenSSC_congr M c _ _ (C02.reserialize_stable (loadSSC ps))]; exact hw
  refine ⟨h1, h2, ?_⟩
  intro b₂ hb₂
  rw [h2] at hb₂
  cases hb₂
  exact ⟨rfl, h1⟩

/-! non-vacuity of the codec hypothesis: ASCII satisfies `Law`, and with it the blank simfiles are written -/

example : Cd.asciiCodec.Law := Cd.asciiCodec_law
example : Cd.asciiCodec.encode "#TITLE:a;\n".toList =
    some [35, 84, 73, 84, 76, 69, 58, 97, 59, 10] := by decide +kernel
example : Cd.asciiCodec.encode "é".toList = none := by decide +kernel
/-- for every renderer, a simfile whose rendered text is ASCII is written -/
example (M : Msd) (s : SMSimfile) (h : (M.renderDoc (serSM s)).all (fun ch => ch.toNat < 128) = true) :
    ∃ b, writtenSM M Cd.asciiCodec s = some b := by
  unfold writtenSM Cd.asciiCodec
  simp only [h, if_true]
  exact ⟨_, rfl⟩

/-! ### non-vacuity -/

def cfg0 : MutateCfg := ⟨"a.sm".toList, none, some "a.bak".toList⟩
def cfg1 : MutateCfg := ⟨"a.sm".toList, some "b.ssc".toList, some "a.bak".toList⟩
def cfgClash : MutateCfg := ⟨"a.sm".toList, some "b.ssc".toList, some "b.ssc".toList⟩
def tries0 : List (Str × Bool) := [("utf-8".toList, false), ("cp1252".toList, true)]
def triesBad : List (Str × Bool) := [("utf-8".toList, false), ("cp1252".toList, false)]
def fs0 : List (Str × Content) := [("a.sm".toList, .original), ("other".toList, .original)]

example : detectEncoding tries0 = some "cp1252".toList := by decide +kernel
example : detectEncoding triesBad = none := by decide +kernel
example : NoClash cfg0 := by decide +kernel
example : NoClash cfg1 := by decide +kernel
example : given cfgClash.backup = some "b.ssc".toList ∧
    ("b.ssc".toList = cfgClash.input ∨ some "b.ssc".toList = cfgClash.output) := by decide +kernel
example : ¬ NoClash cfgClash := by decide +kernel
example : given cfg1.output = some "b.ssc".toList ∧ "b.ssc".toList ≠ cfg1.input := by decide +kernel
example : given cfg0.backup = some "a.bak".toList := by decide +kernel
example : (mutate cfg0 tries0 .returns .none).2.length = 8 := by decide +kernel
example : lookupContent (runWrites fs0 (given cfg1.backup) (mutate cfg1 tries0 .returns .none).2 none)
    "a.sm".toList = some .original := by decide +kernel

end Simfile.C05
