import Simfile.Model.Mutate
