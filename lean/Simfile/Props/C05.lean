/-
C05 — `open_with_detected_encoding` / `open` / `mutate`: which encoding is detected, what a fault-free
`mutate` writes and in which order.
Vocabulary (Simfile/Lemmas/Mutate.lean):
  `Mut.NoClash c`  : `∀ b, given c.backup = some b → b ≠ c.input ∧ some b ≠ c.output`
  `Mut.writeSide`  : `openW`, `write`, `close` (everything except `openR`)
  `Mut.opPath`     : the path an op acts on
-/
import Simfile.Gen.Tables
import Simfile.Lemmas.Mutate
namespace Simfile.C05
open Simfile Simfile.Mut

/-! ### 1. encoding detection -/

/-- the detected encoding is the first tried one under which the file decodes -/
theorem detect_first (tries : List (Str × Bool)) (e : Str) :
    detectEncoding tries = some e ↔
      ∃ pre post, tries = pre ++ (e, true) :: post ∧ ∀ x ∈ pre, x.2 = false :=
  detect_some_iff tries e

theorem detect_none (tries : List (Str × Bool)) :
    detectEncoding tries = none ↔ ∀ x ∈ tries, x.2 = false :=
  detect_none_iff tries

/-- an explicit `encoding=` is the only encoding tried -/
theorem explicit_single (e : Str) (l : List Str) : triedEncodings (some e) l = [e] := rfl

theorem no_explicit (l : List Str) : triedEncodings none l = l := rfl

theorem default_list :
    T.encodings = ["utf-8".toList, "cp1252".toList, "cp932".toList, "cp949".toList] := by decide

/-- the detection loop opens the input once per tried encoding up to and including the first success -/
theorem reads_until_success (input : Str) (pre post : List (Str × Bool)) (e : Str)
    (hpre : ∀ x ∈ pre, x.2 = false) :
    readOps input (pre ++ (e, true) :: post) = (pre.map fun x => FsOp.openR input x.1) ++ [FsOp.openR input e] := by
  induction pre with
  | nil => simp [readOps]
  | cons x pre ih =>
    obtain ⟨e0, ok⟩ := x
    have h0 : ok = false := hpre (e0, ok) (by simp)
    subst h0
    simp [readOps, ih (fun x hx => hpre x (by simp [hx]))]

/-! ### 2. a clashing backup name is refused before any filesystem call -/

theorem clash_refused (c : MutateCfg) (tries : List (Str × Bool)) (body : Body) (problem : SaveProblem)
    (b : Str) (h : given c.backup = some b ∧ (b = c.input ∨ some b = c.output)) :
    mutate c tries body problem = (.valueError, []) :=
  mutate_of_clash h.1 h.2 tries body problem

/-- conversely `ValueError` is raised only for a clash -/
theorem valueError_iff_clash (c : MutateCfg) (tries : List (Str × Bool)) (body : Body) (problem : SaveProblem) :
    (mutate c tries body problem).1 = .valueError ↔ ¬ NoClash c := by
  constructor
  · intro h hnc
    rw [mutate_of_noClash hnc] at h
    unfold mutate.go at h
    split at h
    · cases h
    · cases body <;> cases problem <;> cases h
  · intro h
    obtain ⟨b, hb, h⟩ := not_noClash h
    rw [mutate_of_clash hb h]

/-! ### 3. an undecodable input -/

theorem undecodable (c : MutateCfg) (tries : List (Str × Bool)) (body : Body) (problem : SaveProblem)
    (hnc : NoClash c) (hdet : detectEncoding tries = none) :
    mutate c tries body problem = (.unicodeDecodeError, readOps c.input tries) ∧
    (∀ op ∈ (mutate c tries body problem).2,
      (∀ p e, op ≠ .openW p e) ∧ (∀ p, op ≠ .write p) ∧ (∀ p, op ≠ .close p)) ∧
    (mutate c tries body problem).2 = tries.map fun x => FsOp.openR c.input x.1 := by
  have h : mutate c tries body problem = (.unicodeDecodeError, readOps c.input tries) := by
    rw [mutate_of_noClash hnc]
    unfold mutate.go
    rw [hdet]
  refine ⟨h, ?_, ?_⟩
  · rw [h]
    intro op hop
    obtain ⟨e, rfl⟩ := readOps_all_openR _ _ op hop
    refine ⟨?_, ?_, ?_⟩ <;> intros <;> simp
  · rw [h]
    exact readOps_all_false _ _ ((detect_none_iff tries).mp hdet)

/-! ### 4. the effect of a fault-free `mutate` -/

theorem mutate_effect (c : MutateCfg) (tries : List (Str × Bool)) (enc : Str)
    (hnc : NoClash c) (hdet : detectEncoding tries = some enc) :
    mutate c tries .returns .none = (.returned, readOps c.input tries ++ saveOps c enc) ∧
    ∀ fs : List (Str × Content),
      let fs' := runWrites fs (given c.backup) (readOps c.input tries ++ saveOps c enc) none
      lookupContent fs' c.outPath = some (.written false) ∧
      (∀ b, given c.backup = some b → lookupContent fs' b = some (.written true)) ∧
      (∀ p, p ≠ c.outPath → some p ≠ given c.backup → lookupContent fs' p = lookupContent fs p) := by
  constructor
  · rw [mutate_of_noClash hnc]
    unfold mutate.go
    rw [hdet]
  · intro fs
    simp only
    rw [runWrites_readOps]
    refine ⟨?_, ?_, ?_⟩
    · cases hb : given c.backup with
      | none =>
        rw [saveOps_none' hb, lookup_run_block_none]
        simp
      | some b =>
        have hne := backup_ne_outPath hnc hb
        rw [saveOps_some' hb, runWrites_append_none, lookup_run_block_none]
        simp [hne]
    · intro b hb
      have hne := backup_ne_outPath hnc hb
      rw [hb, saveOps_some' hb, runWrites_append_none, lookup_run_block_ne _ _ _ _ _ (Ne.symm hne),
        lookup_run_block_none]
      simp
    · intro p hp hpb
      apply runWrites_frame
      intro op hop _
      rcases saveOps_path c enc op hop with h | h
      · rw [h]; exact Ne.symm hp
      · intro he
        apply hpb
        rw [h, he]

/-- in particular the input keeps its content when an output name different from it was given -/
theorem input_kept_when_output_given (c : MutateCfg) (tries : List (Str × Bool)) (enc : Str) (o : Str)
    (hnc : NoClash c) (hdet : detectEncoding tries = some enc)
    (ho : given c.output = some o) (hoi : o ≠ c.input) (fs : List (Str × Content)) :
    lookupContent (runWrites fs (given c.backup) (mutate c tries .returns .none).2 none) c.input =
      lookupContent fs c.input := by
  obtain ⟨h1, h2⟩ := mutate_effect c tries enc hnc hdet
  rw [h1]
  apply (h2 fs).2.2
  · rw [outPath_of_some ho]; exact Ne.symm hoi
  · intro h
    exact (hnc c.input h.symm).1 rfl

/-- pairwise distinct paths stay pairwise distinct -/
theorem paths_stay_distinct (fs : List (Str × Content)) (b : Option Str) (ops : List FsOp) (k : Option Nat)
    (h : (fs.map (·.1)).Nodup) : ((runWrites fs b ops k).map (·.1)).Nodup :=
  nodup_runWrites b ops fs k h

/-! ### 5. the backup is written and closed before the output is opened -/

theorem write_order (c : MutateCfg) (enc : Str) (b : Str) (hnc : NoClash c) (hb : given c.backup = some b) :
    saveOps c enc = [FsOp.openW b enc, FsOp.write b, FsOp.close b] ++
      [FsOp.openW c.outPath enc, FsOp.write c.outPath, FsOp.close c.outPath] ∧
    ∀ (i j : Nat) (op₁ op₂ : FsOp), (saveOps c enc)[i]? = some op₁ → (saveOps c enc)[j]? = some op₂ →
      opPath op₁ = b → opPath op₂ = c.outPath → i < j := by
  have hne := backup_ne_outPath hnc hb
  refine ⟨saveOps_some hb enc, ?_⟩
  intro i j op₁ op₂ h1 h2 hp1 hp2
  rw [saveOps_some' hb] at h1 h2
  have hi : i < (block b enc).length :=
    idx_lt_of_not_post _ _ (fun op => opPath op = b)
      (fun y hy h => hne (by rw [← h, block_path _ _ y hy])) h1 hp1
  have hj : (block b enc).length ≤ j :=
    idx_ge_of_not_pre _ _ (fun op => opPath op = c.outPath)
      (fun y hy h => hne (by rw [← h, block_path _ _ y hy])) h2 hp2
  omega

/-- without a backup only the output is touched -/
theorem write_only_output (c : MutateCfg) (enc : Str) (hb : given c.backup = none) :
    saveOps c enc = [FsOp.openW c.outPath enc, FsOp.write c.outPath, FsOp.close c.outPath] :=
  saveOps_none hb enc

/-! ### non-vacuity -/

def cfg0 : MutateCfg := ⟨"a.sm".toList, none, some "a.bak".toList⟩
def cfg1 : MutateCfg := ⟨"a.sm".toList, some "b.ssc".toList, some "a.bak".toList⟩
def cfgClash : MutateCfg := ⟨"a.sm".toList, some "b.ssc".toList, some "b.ssc".toList⟩
def tries0 : List (Str × Bool) := [("utf-8".toList, false), ("cp1252".toList, true)]
def triesBad : List (Str × Bool) := [("utf-8".toList, false), ("cp1252".toList, false)]
def fs0 : List (Str × Content) := [("a.sm".toList, .original), ("other".toList, .original)]

example : detectEncoding tries0 = some "cp1252".toList := by decide +kernel
example : detectEncoding triesBad = none := by decide +kernel
example : NoClash cfg0 := by decide +kernel
example : NoClash cfg1 := by decide +kernel
example : given cfgClash.backup = some "b.ssc".toList ∧
    ("b.ssc".toList = cfgClash.input ∨ some "b.ssc".toList = cfgClash.output) := by decide +kernel
example : ¬ NoClash cfgClash := by decide +kernel
example : given cfg1.output = some "b.ssc".toList ∧ "b.ssc".toList ≠ cfg1.input := by decide +kernel
example : given cfg0.backup = some "a.bak".toList := by decide +kernel
example : (mutate cfg0 tries0 .returns .none).2.length = 8 := by decide +kernel
example : lookupContent (runWrites fs0 (given cfg1.backup) (mutate cfg1 tries0 .returns .none).2 none)
    "a.sm".toList = some .original := by decide +kernel

end Simfile.C05
