/-
C20 on a directory TREE (Simfile/Model/Tree.lean, Simfile/Model/Path.lean): the asset lookup derives the containing
directory, the file name and the returned path from the simfile directory and the VALUE of the simfile's property,
by `fs.path.join / split / normpath`, and reads the listings off the tree.  "At that place under the directory",
"also inside sub-directories", "normalized path", "never a path that does not exist" are statements here.
Also: what each of the six image kinds matches, pinned to the generated table (section 4).

Vocabulary (as in C19Tree): `resolve t p`, `PathL.childPath nd f` (path of entry `f` of the directory with normal
path `nd`; it is `join nd f`, it is normal, and `split` takes it apart: `C19Tree.child_path`), `TreeL.NamesOk es`;
`AssetTL.digest t d spec` = what the test harness used to compute in Python: `full = join(d, spec)`,
`(cdir, file) = split(full)`, `containing = listdir(cdir) if isdir(cdir)`;
`AssetTL.lift d cdir r` = the answer `r` of `assetLookup` (an entry name) as `normpath(join(cdir or d, entry))`.
Answers: `inl p` = the named file, `inr p` = an entry matched by pattern; `p` is the full normalised path.
-/
import Simfile.Props.C20
import Simfile.Props.C19Tree
import Simfile.Lemmas.TreeAssets
namespace Simfile.C20Tree
open Simfile Simfile.Path Simfile.PathL Simfile.TreeL Simfile.AssetL Simfile.AssetTL

/-! ### 1. refinement -/

/-- [all clauses of the lookup] the tree-level lookup is the existing `assetLookup` applied to the digestion of the
property value (computed in Lean from the tree and the path functions), with its answer turned into a normalised
path; a `..` climbing above the root is the `IllegalBackReference` PyFilesystem raises. Every theorem of
`Simfile.C20` about `assetLookup` therefore speaks about the tree-level lookup. -/
theorem lookup_refines (t : Node) (d kind : Str) (spec : Option Str) (dirlist : List Str) :
    assetLookupT t d kind spec dirlist =
      match digest t d spec with
      | .error e => .error (.fs e)
      | .ok g => lift d g.cdir (assetLookup kind spec g.containing g.file dirlist) :=
  assetLookupT_refines t d kind spec dirlist

/-! ### 2. the named file -/

/-- [named file, "at that place under the directory", "compared case-insensitively", "normalized path", "never a
path that does not exist"] the property names a plain file name; the simfile directory exists; `entry` is the FIRST
entry of it equal to the name up to `lower`. Then the answer is that entry's path `dir/entry` — which is what `join`
builds, is normal, and exists in the tree. No pattern is consulted (no hypothesis on `kind` or `dirlist`). -/
theorem named_in_dir (t : Node) (d kind name : Str) (dirlist : List Str) (hname : validName name = true)
    (es : List (Str × Node)) (hres : resolve t d = .ok (some (.dir es))) (hok : NamesOk es)
    (pre post : List Str) (entry : Str) (hl : es.map (·.1) = pre ++ entry :: post)
    (heq : lower entry = lower name) (hpre : ∀ x ∈ pre, lower x ≠ lower name) :
    ∃ nd, normpath d = some nd ∧
      assetLookupT t d kind (some name) dirlist = .ok (some (.inl (childPath nd entry))) ∧
      Path.join nd entry = some (childPath nd entry) ∧
      normpath (childPath nd entry) = some (childPath nd entry) ∧
      exists_ t (childPath nd entry) = .ok true := by
  obtain ⟨nd, h1, h2, h3⟩ := resolve_normpath hres
  have hmem : entry ∈ es.map (·.1) := by rw [hl]; simp
  have hv : validName entry = true := by
    obtain ⟨e, he, rfl⟩ := List.mem_map.mp hmem
    exact hok.1 e he
  have hj := join_of_normpath h1 hname
  have hs : Path.split (childPath nd name) = (nd, name) := split_childPath nd (validName_no_slash hname)
  have hres' : resolve t (Path.split (childPath nd name)).1 = .ok (some (.dir es)) := by rw [hs]; exact h3
  refine ⟨nd, h1, ?_, join_normal_valid h2 hv, (components_childPath h2 hv).choose_spec.2.2, ?_⟩
  · have := named_hit (kind := kind) (dirlist := dirlist) (validName_ne_nil hname) hj hres' hl
      (by rw [hs]; exact heq) (by rw [hs]; exact hpre) hv
    rw [hs] at this
    exact this
  · rw [exists_of_resolve (resolve_childPath h2 hv h3)]
    simp only [Option.bind_some]
    rw [child_isSome_of_mem_names hmem]

/-- [named file "also inside sub-directories"] the property names `sub/name` with `sub` a non-empty relative path
(possibly with several components, `.` and `..`); `cdir = join(dir, sub)` leads to a directory of the tree — the
directory components are taken as written, nothing is compared up to case there — and `entry` is the first entry
of THAT directory equal to `name` up to `lower`. Then the answer is `cdir/entry`, normal and existing. -/
theorem named_in_subdir (t : Node) (d kind sub name : Str) (dirlist : List Str)
    (hsub : sub ≠ []) (hrel : isAbs sub = false) (hname : validName name = true)
    (cdir : Str) (hc : Path.join d sub = some cdir)
    (es : List (Str × Node)) (hres : resolve t cdir = .ok (some (.dir es))) (hok : NamesOk es)
    (pre post : List Str) (entry : Str) (hl : es.map (·.1) = pre ++ entry :: post)
    (heq : lower entry = lower name) (hpre : ∀ x ∈ pre, lower x ≠ lower name) :
    assetLookupT t d kind (some (sub ++ '/' :: name)) dirlist = .ok (some (.inl (childPath cdir entry))) ∧
    Path.join cdir entry = some (childPath cdir entry) ∧
    normpath (childPath cdir entry) = some (childPath cdir entry) ∧
    exists_ t (childPath cdir entry) = .ok true := by
  have hcn : normpath cdir = some cdir := join_normal hc
  have hmem : entry ∈ es.map (·.1) := by rw [hl]; simp
  have hv : validName entry = true := by
    obtain ⟨e, he, rfl⟩ := List.mem_map.mp hmem
    exact hok.1 e he
  have hj : Path.join d (sub ++ '/' :: name) = some (childPath cdir name) := by
    rw [join_sub_name d hsub hrel hname, hc]; rfl
  have hs : Path.split (childPath cdir name) = (cdir, name) := split_childPath cdir (validName_no_slash hname)
  have hres' : resolve t (Path.split (childPath cdir name)).1 = .ok (some (.dir es)) := by rw [hs]; exact hres
  refine ⟨?_, join_normal_valid hcn hv, (components_childPath hcn hv).choose_spec.2.2, ?_⟩
  · have := named_hit (kind := kind) (dirlist := dirlist) (by simp) hj hres' hl
      (by rw [hs]; exact heq) (by rw [hs]; exact hpre) hv
    rw [hs] at this
    exact this
  · rw [exists_of_resolve (resolve_childPath hcn hv hres)]
    simp only [Option.bind_some]
    rw [child_isSome_of_mem_names hmem]

/-- a property value that climbs above the root of the filesystem makes the lookup raise (PyFilesystem;
`os.path` on the native filesystem would silently stay at the root) -/
theorem backref_raises (t : Node) (d kind spec : Str) (dirlist : List Str) (hspec : spec ≠ [])
    (h : Path.join d spec = none) :
    assetLookupT t d kind (some spec) dirlist = .error (.fs .illegalBackReference) := by
  rw [assetLookupT_eq]
  cases spec with
  | nil => exact absurd rfl hspec
  | cons c cs =>
    have : named t d (some (c :: cs)) = .error .illegalBackReference := by
      unfold named; simp only; rw [h]
    rw [this]

/-! ### 3. otherwise the pattern rule

`AssetTL.patternAnswer nd kind dirlist` = the first entry `f` of `dirlist` with `assetMatches kind f = some true`, as
`inr (childPath nd f)`; characterised by `pattern_answer_none_iff` / `pattern_answer_first` below. -/

/-- [otherwise …] the property is absent or empty: the first entry of the directory's listing matching the kind's
patterns (section 4), as `dir/entry`; `none` iff no entry matches -/
theorem unnamed_fallback (t : Node) (d nd kind : Str) (hk : kind ∈ T.assetDefinitions.map (·.1))
    (spec : Option Str) (hspec : spec = none ∨ spec = some []) (hd : normpath d = some nd)
    (dirlist : List Str) (hv : ∀ f ∈ dirlist, validName f = true) :
    assetLookupT t d kind spec dirlist = .ok (patternAnswer nd kind dirlist) := by
  rw [assetLookupT_eq]
  rcases hspec with rfl | rfl
  · rw [named_none]; exact fallT_valid (C20.kinds_modelled kind hk) hd hv
  · rw [named_empty]; exact fallT_valid (C20.kinds_modelled kind hk) hd hv

/-- [otherwise …, "naming a missing file or a file in a missing sub-directory"] the property names something, but the
containing directory `cdir` (from `split(join(dir, value))`) is not a directory of the tree, or none of its entries
equals the file name up to `lower`: the pattern rule applies exactly as if nothing had been named -/
theorem named_absent_fallback (t : Node) (d nd kind spec full : Str) (hk : kind ∈ T.assetDefinitions.map (·.1))
    (hspec : spec ≠ []) (hj : Path.join d spec = some full)
    (habsent : isdir t (Path.split full).1 = .ok false ∨
      ∃ l, listdir t (Path.split full).1 = .ok l ∧ ∀ x ∈ l, lower x ≠ lower (Path.split full).2)
    (hd : normpath d = some nd) (dirlist : List Str) (hv : ∀ f ∈ dirlist, validName f = true) :
    assetLookupT t d kind (some spec) dirlist = .ok (patternAnswer nd kind dirlist) := by
  have hn : named t d (some spec) = .ok none := by
    rcases habsent with h | ⟨l, hl, hno⟩
    · exact named_of_not_dir hspec hj h
    · exact named_of_no_entry hspec hj hl hno
  rw [named_miss hn]
  exact fallT_valid (C20.kinds_modelled kind hk) hd hv

theorem pattern_answer_none_iff (nd kind : Str) (dirlist : List Str) :
    patternAnswer nd kind dirlist = none ↔ ∀ f ∈ dirlist, assetMatches kind f ≠ some true := by
  unfold patternAnswer
  simp

theorem pattern_answer_first (nd kind : Str) (dirlist : List Str) (a : Sum Str Str) :
    patternAnswer nd kind dirlist = some a ↔
      ∃ pre f post, dirlist = pre ++ f :: post ∧ assetMatches kind f = some true ∧
        (∀ x ∈ pre, assetMatches kind x ≠ some true) ∧ a = .inr (childPath nd f) := by
  unfold patternAnswer
  simp only [Option.map_eq_some_iff]
  constructor
  · rintro ⟨f, hf, rfl⟩
    obtain ⟨h1, pre, post, h2, h3⟩ := List.find?_eq_some_iff_append.mp hf
    exact ⟨pre, f, post, h2, by simpa using h1, fun x hx => by simpa using h3 x hx, rfl⟩
  · rintro ⟨pre, f, post, h2, h1, h3, rfl⟩
    refine ⟨f, ?_, rfl⟩
    rw [List.find?_eq_some_iff_append]
    exact ⟨by simpa using h1, pre, post, h2, fun x hx => by simpa using h3 x hx⟩


/-! ### 3b. never a path that does not exist, always a normalised path -/

/-- ["it is never a path that does not exist", "normalized path"] in a well-formed tree, with the listing taken from
the simfile directory itself, EVERY answer — named or matched, whatever the kind, whatever the property says
(absolute, with `..`, with sub-directories) — is a normal path that exists in the tree -/
theorem answer_exists (t : Node) (hw : t.wf = true) (d kind : Str) (spec : Option Str) (dirlist : List Str)
    (hl : listdir t d = .ok dirlist) (a : Sum Str Str)
    (h : assetLookupT t d kind spec dirlist = .ok (some a)) :
    ∃ q, (a = .inl q ∨ a = .inr q) ∧ normpath q = some q ∧ exists_ t q = .ok true := by
  rw [assetLookupT_eq] at h
  cases hn : named t d spec with
  | error e => rw [hn] at h; cases h
  | ok o =>
    rw [hn] at h
    cases o with
    | some p =>
      simp only at h
      obtain ⟨sp, full, es, item, _, _, hj, hres, hmem, _, hji⟩ := named_some_inv hn
      have hcn : normpath (Path.split full).1 = some (Path.split full).1 := split_normal (join_normal hj)
      have hv : validName item = true := by
        obtain ⟨e, he, rfl⟩ := List.mem_map.mp hmem
        exact (C19Tree.namesOk_of_wf hw hres).1 e he
      rw [join_normal_valid hcn hv] at hji
      cases hji
      have h3 := (components_childPath hcn hv).choose_spec.2.2
      rw [pathOut_normal _ h3] at h
      cases h
      refine ⟨_, Or.inl rfl, h3, ?_⟩
      rw [exists_of_resolve (resolve_childPath hcn hv hres)]
      simp only [Option.bind_some]
      rw [child_isSome_of_mem_names hmem]
    | none =>
      simp only at h
      obtain ⟨f, p, q, hfm, _, hjf, hnp, rfl⟩ := fallT_some_inv h
      obtain ⟨es, hres, rfl⟩ := listdir_ok hl
      obtain ⟨nd, h1, h2, h3⟩ := resolve_normpath hres
      have hv : validName f = true := by
        obtain ⟨e, he, rfl⟩ := List.mem_map.mp hfm
        exact (C19Tree.namesOk_of_wf hw hres).1 e he
      rw [join_of_normpath h1 hv] at hjf
      cases hjf
      have h4 := (components_childPath h2 hv).choose_spec.2.2
      rw [h4] at hnp
      cases hnp
      refine ⟨_, Or.inr rfl, h4, ?_⟩
      rw [exists_of_resolve (resolve_childPath h2 hv h3)]
      simp only [Option.bind_some]
      rw [child_isSome_of_mem_names hfm]

/-! ### 4. what each kind matches — pinned to the generated table `T.assetDefinitions` (F20-2)

These theorems are meant to BREAK when a preset of `ASSET_DEFINITIONS` (simfile/assets.py) changes and the table is
regenerated: each unfolds `assetMatches` for one kind into the concrete tests on `lower (stem name)`, the lower-cased
file name without its last extension. They restate, literally, `presets=[…]` of assets.py:
  BANNER ["banner", "bn$"], BACKGROUND ["background", "bg$"], CDTITLE ["cdtitle"],
  JACKET ["^jk_", "jacket", "albumart"], CDIMAGE ["-cd$"], DISC [" disc$", " title$"]
(`lit` = contains, `^lit` = starts with, `lit$` = ends with). None of the six looks at the extension. -/

theorem banner_matches (name : Str) :
    assetMatches "BANNER".toList name =
      some (containsSub (lower (stem name)) "banner".toList || endsWith (lower (stem name)) "bn".toList) := by
  have h : T.assetDefinitions.find? (·.1 = "BANNER".toList) =
      some ("BANNER".toList, ["banner".toList, "bn$".toList], T.imageExts, false) := by decide +kernel
  have h2 : ["banner".toList, "bn$".toList].mapM compilePreset =
      some [.contains_ "banner".toList, .endsWith_ "bn".toList] := by decide +kernel
  unfold assetMatches
  rw [h]
  simp only
  rw [h2]
  simp [Preset.matches]

theorem background_matches (name : Str) :
    assetMatches "BACKGROUND".toList name =
      some (containsSub (lower (stem name)) "background".toList || endsWith (lower (stem name)) "bg".toList) := by
  have h : T.assetDefinitions.find? (·.1 = "BACKGROUND".toList) =
      some ("BACKGROUND".toList, ["background".toList, "bg$".toList], T.imageExts, false) := by decide +kernel
  have h2 : ["background".toList, "bg$".toList].mapM compilePreset =
      some [.contains_ "background".toList, .endsWith_ "bg".toList] := by decide +kernel
  unfold assetMatches
  rw [h]
  simp only
  rw [h2]
  simp [Preset.matches]

theorem cdtitle_matches (name : Str) :
    assetMatches "CDTITLE".toList name = some (containsSub (lower (stem name)) "cdtitle".toList) := by
  have h : T.assetDefinitions.find? (·.1 = "CDTITLE".toList) =
      some ("CDTITLE".toList, ["cdtitle".toList], T.imageExts, false) := by decide +kernel
  have h2 : ["cdtitle".toList].mapM compilePreset = some [.contains_ "cdtitle".toList] := by decide +kernel
  unfold assetMatches
  rw [h]
  simp only
  rw [h2]
  simp [Preset.matches]

theorem jacket_matches (name : Str) :
    assetMatches "JACKET".toList name =
      some (startsWith (lower (stem name)) "jk_".toList || containsSub (lower (stem name)) "jacket".toList ||
        containsSub (lower (stem name)) "albumart".toList) := by
  have h : T.assetDefinitions.find? (·.1 = "JACKET".toList) =
      some ("JACKET".toList, ["^jk_".toList, "jacket".toList, "albumart".toList], T.imageExts, false) := by
    decide +kernel
  have h2 : ["^jk_".toList, "jacket".toList, "albumart".toList].mapM compilePreset =
      some [.startsWith_ "jk_".toList, .contains_ "jacket".toList, .contains_ "albumart".toList] := by
    decide +kernel
  unfold assetMatches
  rw [h]
  simp only
  rw [h2]
  simp [Preset.matches, Bool.or_assoc]

theorem cdimage_matches (name : Str) :
    assetMatches "CDIMAGE".toList name = some (endsWith (lower (stem name)) "-cd".toList) := by
  have h : T.assetDefinitions.find? (·.1 = "CDIMAGE".toList) =
      some ("CDIMAGE".toList, ["-cd$".toList], T.imageExts, false) := by decide +kernel
  have h2 : ["-cd$".toList].mapM compilePreset = some [.endsWith_ "-cd".toList] := by decide +kernel
  unfold assetMatches
  rw [h]
  simp only
  rw [h2]
  simp [Preset.matches]

theorem disc_matches (name : Str) :
    assetMatches "DISC".toList name =
      some (endsWith (lower (stem name)) " disc".toList || endsWith (lower (stem name)) " title".toList) := by
  have h : T.assetDefinitions.find? (·.1 = "DISC".toList) =
      some ("DISC".toList, [" disc$".toList, " title$".toList], T.imageExts, false) := by decide +kernel
  have h2 : [" disc$".toList, " title$".toList].mapM compilePreset =
      some [.endsWith_ " disc".toList, .endsWith_ " title".toList] := by decide +kernel
  unfold assetMatches
  rw [h]
  simp only
  rw [h2]
  simp [Preset.matches]

/-- the pattern rule for banners with `assetMatches` spelled out: the first entry whose lower-cased stem contains
"banner" or ends in "bn" (the other five kinds read the same way through their `_matches` theorem) -/
theorem banner_pattern_answer (nd : Str) (dirlist : List Str) :
    patternAnswer nd "BANNER".toList dirlist =
      (dirlist.find? fun f =>
        containsSub (lower (stem f)) "banner".toList || endsWith (lower (stem f)) "bn".toList).map
        fun f => .inr (childPath nd f) := by
  unfold patternAnswer
  congr 2
  funext f
  rw [banner_matches]
  simp

/-! ### 5. the path functions (`fs.path`) — facts behind "normalized path" -/

/-- `normpath` is idempotent -/
theorem normpath_idempotent (p q : Str) (h : normpath p = some q) : normpath q = some q := normpath_idem h

/-- the normal paths are exactly "" and "/" followed by valid components (not "", ".", "..", no '/') joined by single
slashes, with no trailing slash; on them `normpath` is the identity -/
theorem normal_paths (q : Str) :
    normpath q = some q ↔ ∃ abs cs, (∀ c ∈ cs, validName c = true) ∧ q = render abs cs := normpath_fixed_iff q

/-- whatever `join` returns is normal -/
theorem join_is_normal (a b q : Str) (h : Path.join a b = some q) : normpath q = some q := join_normal h

/-- `split(join(d, f)) = (normpath(d), f)` for a valid name `f` (for `f = ".."` it fails: see the example below) -/
theorem split_of_join (d f q : Str) (hf : validName f = true) (h : Path.join d f = some q) :
    ∃ nd, normpath d = some nd ∧ q = childPath nd f ∧ Path.split q = (nd, f) := split_join hf h

/-- a relative value `sub/name`: join the directory part first, then append the name -/
theorem join_sub_then_name (d sub name : Str) (hs : sub ≠ []) (hr : isAbs sub = false)
    (hn : validName name = true) :
    Path.join d (sub ++ '/' :: name) = (Path.join d sub).map (childPath · name) := join_sub_name d hs hr hn

/-! ### non-vacuity -/

open Simfile.C19Tree (s tree0 songA pack0)

-- the song directory of `C19Tree.tree0`: entries a.SM, Sub/ (with Art.PNG), banner.png
example : resolve tree0 (s "/Songs/Pack/SongA") = .ok (some songA) := by rfl
example : listdir tree0 (s "/Songs/Pack/SongA") = .ok [s "a.SM", s "Sub", s "banner.png"] := by decide +kernel
-- named, other case, in the directory itself
example : assetOf tree0 (s "/Songs/Pack/SongA") (s "BANNER") (some (s "BANNER.PNG")) =
    .ok (some (.inl (s "/Songs/Pack/SongA/banner.png"))) := by decide +kernel
-- named, other case, inside a sub-directory; the simfile directory given un-normalised
example : assetOf tree0 (s "Songs/Pack/./SongA/") (s "JACKET") (some (s "Sub/art.png")) =
    .ok (some (.inl (s "Songs/Pack/SongA/Sub/Art.PNG"))) := by decide +kernel
-- the directory part is NOT matched up to case: "sub/" is not "Sub/", so the pattern rule applies (no jacket: none)
example : assetOf tree0 (s "/Songs/Pack/SongA") (s "JACKET") (some (s "sub/Art.PNG")) = .ok none := by decide +kernel
-- a missing file: the pattern rule finds banner.png
example : assetOf tree0 (s "/Songs/Pack/SongA") (s "BANNER") (some (s "nope.png")) =
    .ok (some (.inr (s "/Songs/Pack/SongA/banner.png"))) := by decide +kernel
example : assetOf tree0 (s "/Songs/Pack/SongA") (s "BANNER") none =
    .ok (some (.inr (s "/Songs/Pack/SongA/banner.png"))) := by decide +kernel
-- `..` and absolute values leave the simfile directory: the answer exists, but not "under the directory"
example : assetOf tree0 (s "/Songs/Pack/SongA") (s "BANNER") (some (s "../../pack.PNG")) =
    .ok (some (.inl (s "/Songs/Pack.png"))) := by decide +kernel
example : assetOf tree0 (s "/Songs/Pack/SongA") (s "BANNER") (some (s "/Songs/Pack/SongB/B.SSC")) =
    .ok (some (.inl (s "/Songs/Pack/SongB/b.ssc"))) := by decide +kernel
-- climbing above the root raises
example : assetOf tree0 (s "/Songs/Pack/SongA") (s "BANNER") (some (s "../../../../x.png")) =
    .error (.fs .illegalBackReference) := by decide +kernel
-- the hypotheses of `named_in_subdir` on this tree
example : Path.join (s "/Songs/Pack/SongA") (s "Sub") = some (s "/Songs/Pack/SongA/Sub") := by decide +kernel
example : resolve tree0 (s "/Songs/Pack/SongA/Sub") = .ok (some (.dir [(s "Art.PNG", .file [])])) := by rfl
example : lower (s "Art.PNG") = lower (s "art.png") := by decide +kernel
example : childPath (s "/Songs/Pack/SongA/Sub") (s "Art.PNG") = s "/Songs/Pack/SongA/Sub/Art.PNG" := by
  decide +kernel
-- `named_in_subdir` applied: all its hypotheses hold on this tree
example : assetLookupT tree0 (s "/Songs/Pack/SongA") (s "JACKET") (some (s "Sub" ++ '/' :: s "art.png")) [] =
    .ok (some (.inl (childPath (s "/Songs/Pack/SongA/Sub") (s "Art.PNG")))) :=
  (named_in_subdir tree0 (s "/Songs/Pack/SongA") (s "JACKET") (s "Sub") (s "art.png") [] (by decide) (by decide)
    (by decide +kernel) (s "/Songs/Pack/SongA/Sub") (by decide +kernel) [(s "Art.PNG", .file [])] (by rfl)
    ⟨by decide +kernel, by decide +kernel⟩ [] [] (s "Art.PNG") (by rfl) (by decide +kernel) (by simp)).1
-- `named_absent_fallback` applied: "NoDir/x.png" names a file in a missing sub-directory
example : assetLookupT tree0 (s "/Songs/Pack/SongA") (s "BANNER") (some (s "NoDir/x.png"))
      [s "a.SM", s "Sub", s "banner.png"] =
    .ok (patternAnswer (s "/Songs/Pack/SongA") (s "BANNER") [s "a.SM", s "Sub", s "banner.png"]) :=
  named_absent_fallback tree0 (s "/Songs/Pack/SongA") _ (s "BANNER") (s "NoDir/x.png")
    (s "/Songs/Pack/SongA/NoDir/x.png") (by decide +kernel) (by decide) (by decide +kernel)
    (Or.inl (by decide +kernel)) (by decide +kernel) _ (by decide +kernel)
example : patternAnswer (s "/Songs/Pack/SongA") (s "BANNER") [s "a.SM", s "Sub", s "banner.png"] =
    some (.inr (s "/Songs/Pack/SongA/banner.png")) := by decide +kernel
-- `answer_exists` applied
example : ∃ q, normpath q = some q ∧ exists_ tree0 q = .ok true :=
  let ⟨q, _, h2, h3⟩ := answer_exists tree0 (by decide +kernel) (s "/Songs/Pack/SongA") (s "BANNER")
    (some (s "../../pack.PNG")) [s "a.SM", s "Sub", s "banner.png"] (by decide +kernel)
    (.inl (s "/Songs/Pack.png")) (by decide +kernel)
  ⟨q, h2, h3⟩
-- path functions
example : Path.split (s "/Songs/Pack/SongA/Sub/art.png") = (s "/Songs/Pack/SongA/Sub", s "art.png") := by
  decide +kernel
example : Path.normpath (s "/a//b/./c/../d/") = some (s "/a/b/d") := by decide +kernel
example : Path.normpath (s "a/../..") = none := by decide +kernel
example : Path.join (s "/a/b") (s "/c") = some (s "/c") := by decide +kernel
-- `split (join d f) = (normpath d, f)` needs a valid `f`: with `f = ".."` the tail is a component of `d`
example : (Path.join (s "/a/b") (s "..")).map Path.split = some (s "/", s "a") := by decide +kernel
-- per-kind patterns: the extension plays no role for the image kinds
example : assetMatches (s "BANNER") (s "My Banner.txt") = some true := by decide +kernel
example : assetMatches (s "BANNER") (s "songbn.png") = some true := by decide +kernel
example : assetMatches (s "BANNER") (s "bnx.png") = some false := by decide +kernel
example : assetMatches (s "JACKET") (s "xjk_.png") = some false := by decide +kernel
example : assetMatches (s "DISC") (s "Song Title.png") = some true := by decide +kernel

end Simfile.C20Tree
