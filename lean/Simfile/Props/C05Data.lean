/-
C05 over the data-carrying model `MD.mutateD` (Simfile/Model/MutateData.lean): bytes, real decode/encode
functions, the decoded text, the simfile handed to the body, the bytes written. Closes the audit findings
  F1 (the object the body receives is `load` of exactly the decoded text),
  F2 (file map and byte round trip joined: the output FILE reads back as the simfile at exit),
  F3 (the codec law is required at the ONE written text, `MD.LawAt`, not globally),
  F4/F5 (detection over real decode functions; UnicodeDecodeError iff none decodes),
and proves that forgetting the payloads maps `mutateD` onto the symbolic `mutate` of Model/Mutate.lean.

Vocabulary (Simfile/Lemmas/MutateData*.lean):
  `MD.Saves W c encs body fs b₀ enc t₀ s₀ bt s₁ ot bb ob` — the run reaches the save; its fields are exactly
      noClash : NoClash c                                  input : fsGet fs c.input = some b₀
      det     : detectD W.codec encs b₀ = some (enc, t₀)   load  : W.load t₀ = .ok s₀
      entry   : entryText W c s₀ = .ok bt      (bt = str(simfile) at entry if a backup is requested, else "")
      body    : body s₀ = .returns s₁          ser   : W.ser s₁ = .ok ot
      encB    : (W.codec enc).encode bt = some bb          encO  : (W.codec enc).encode ot = some ob
  `MD.LawAt c t`   : `∀ b, c.encode t = some b → c.decode b = some t`   (decode ∘ encode at the single text t)
  `MD.readBack W enc fs p` : decode the bytes of file `p` with the codec of `enc`, then `W.load`
  `MD.triesOf cod encs b`  : `encs.map fun e => (e, ((cod e).decode b).isSome)` — the symbolic model's input
  `MD.absInputs`, `MD.OutcomeD.forget`, `MD.OpD.forget`, `MD.absFs`, `MD.upToFault`, `MD.Agree`, `MD.AgreeW`,
  `MD.CloseKeepsData` : the forgetful maps of the refinement (section 6)
-/
import Simfile.Lemmas.MutateDataRefine
import Simfile.Lemmas.MutateDataCodec
import Simfile.Lemmas.MutateDataToy
import Simfile.Props.C05Concrete
import Simfile.Props.C03Entry
namespace Simfile.C05Data
open Simfile Simfile.Mut Simfile.MD

/-! ### 1. detection over real decode functions -/

/-- "reports the first encoding of the tried list under which the whole file decodes": `(e, t)` is detected iff
`e` decodes the bytes to `t` and no encoding before it in the list decodes them at all -/
theorem detected_first (cod : Str → Codec) (encs : List Str) (b : Bytes) (e t : Str) :
    detectD cod encs b = some (e, t) ↔
      ∃ pre post, encs = pre ++ e :: post ∧ (∀ x ∈ pre, (cod x).decode b = none) ∧ (cod e).decode b = some t :=
  detectD_some_iff cod encs b e t

/-- nothing is detected iff no tried encoding decodes the bytes -/
theorem detected_none_iff (cod : Str → Codec) (encs : List Str) (b : Bytes) :
    detectD cod encs b = none ↔ ∀ x ∈ encs, (cod x).decode b = none :=
  detectD_none_iff cod encs b

/-- the symbolic model's detection, fed with the real decode results, reports the same encoding -/
theorem detection_refines (cod : Str → Codec) (encs : List Str) (b : Bytes) :
    detectEncoding (triesOf cod encs b) = (detectD cod encs b).map (·.1) :=
  detectEncoding_triesOf cod encs b

/-- "raises UnicodeDecodeError only when none decodes", both directions: for an existing input file, `mutateD`
ends in `unicodeDecodeError` exactly when the names do not clash and no tried encoding decodes the file -/
theorem unicodeDecodeError_iff {Sim : Type} (W : World Sim) (c : MutateCfg) (encs : List Str)
    (body : Sim → BodyResult Sim) (fs : FS) (k : Option Nat) (cut : Nat) (b₀ : Bytes)
    (hin : fsGet fs c.input = some b₀) :
    (mutateD W c encs body fs k cut).outcome = .unicodeDecodeError ↔
      NoClash c ∧ ∀ e ∈ encs, (W.codec e).decode b₀ = none := by
  rw [← detectD_none_iff, ← clash_false_iff]
  unfold mutateD mutateDWith
  cases hcl : clash c with
  | true => simp
  | false =>
    simp only [Bool.false_eq_true, if_false, true_and]
    cases encs with
    | nil => simp [detectD_nil]
    | cons e₀ rest =>
      simp only [hin]
      cases hdet : detectD W.codec (e₀ :: rest) b₀ with
      | none => simp
      | some x =>
        obtain ⟨enc, t₀⟩ := x
        simp only [reduceCtorEq, iff_false]
        cases W.load t₀ with
        | error er => simp
        | ok s₀ =>
          simp only
          cases entryText W c s₀ with
          | error er => simp
          | ok bt =>
            simp only
            cases body s₀ with
            | raises x =>
              simp only [afterRaise]
              cases dispatch handlers x with
              | none => simp
              | some a => cases a <;> simp
            | returns s₁ =>
              simp only
              cases W.ser s₁ with
              | error er => simp
              | ok ot =>
                simp only
                cases (W.codec enc).encode bt with
                | none => simp
                | some bb =>
                  simp only
                  cases (W.codec enc).encode ot with
                  | none => simp
                  | some ob =>
                    simp only
                    cases faultFires (saveScriptD c enc bb ob) k <;> simp

/-! ### 2. what is loaded: exactly the decoded text (F1) -/

/-- "loads exactly that decoded text": for an existing input and non-clashing names, the reported
(encoding, text) is `detectD` of the file's bytes, and the object handed to the body is `W.load` of that text
(absent iff nothing decodes or loading fails) — whatever happens later -/
theorem yields_load_of_decoded {Sim : Type} (W : World Sim) (c : MutateCfg) (encs : List Str)
    (body : Sim → BodyResult Sim) (fs : FS) (k : Option Nat) (cut : Nat) (b₀ : Bytes)
    (hnc : NoClash c) (hin : fsGet fs c.input = some b₀) :
    (mutateD W c encs body fs k cut).detected = detectD W.codec encs b₀ ∧
    (mutateD W c encs body fs k cut).yielded =
      (detectD W.codec encs b₀).bind fun x => (W.load x.2).toOption := by
  have hcl := (clash_false_iff c).mpr hnc
  unfold mutateD mutateDWith
  simp only [hcl, Bool.false_eq_true, if_false]
  cases encs with
  | nil => exact ⟨rfl, rfl⟩
  | cons e₀ rest =>
    simp only [hin]
    cases hdet : detectD W.codec (e₀ :: rest) b₀ with
    | none => exact ⟨rfl, rfl⟩
    | some x =>
      obtain ⟨enc, t₀⟩ := x
      simp only [Option.bind_some]
      cases hl : W.load t₀ with
      | error er => exact ⟨rfl, rfl⟩
      | ok s₀ =>
        simp only
        cases entryText W c s₀ with
        | error er => exact ⟨rfl, rfl⟩
        | ok bt =>
          simp only
          cases body s₀ with
          | raises x => exact ⟨rfl, rfl⟩
          | returns s₁ =>
            simp only
            cases W.ser s₁ with
            | error er => exact ⟨rfl, rfl⟩
            | ok ot =>
              simp only
              cases (W.codec enc).encode bt with
              | none => exact ⟨rfl, rfl⟩
              | some bb =>
                simp only
                cases (W.codec enc).encode ot with
                | none => exact ⟨rfl, rfl⟩
                | some ob => exact ⟨rfl, rfl⟩

/-- the body is consulted at that object only: two bodies that agree on it give the same run -/
theorem body_sees_only_yielded {Sim : Type} (W : World Sim) (c : MutateCfg) (encs : List Str)
    (body body' : Sim → BodyResult Sim) (fs : FS) (k : Option Nat) (cut : Nat)
    (h : ∀ s, (mutateD W c encs body fs k cut).yielded = some s → body s = body' s) :
    mutateD W c encs body' fs k cut = mutateD W c encs body fs k cut := by
  revert h
  unfold mutateD mutateDWith
  cases clash c with
  | true => intro _; rfl
  | false =>
    simp only [Bool.false_eq_true, if_false]
    cases encs with
    | nil => intro _; rfl
    | cons e₀ rest =>
      simp only
      cases fsGet fs c.input with
      | none => intro _; rfl
      | some b₀ =>
        simp only
        cases detectD W.codec (e₀ :: rest) b₀ with
        | none => intro _; rfl
        | some x =>
          obtain ⟨enc, t₀⟩ := x
          simp only
          cases W.load t₀ with
          | error er => intro _; rfl
          | ok s₀ =>
            simp only
            cases entryText W c s₀ with
            | error er => intro _; rfl
            | ok bt =>
              simp only
              intro h
              have hb : body s₀ = body' s₀ := by
                apply h
                cases body s₀ with
                | raises x => rfl
                | returns s₁ =>
                  simp only
                  cases W.ser s₁ with
                  | error er => rfl
                  | ok ot =>
                    simp only
                    cases (W.codec enc).encode bt with
                    | none => rfl
                    | some bb =>
                      simp only
                      cases (W.codec enc).encode ot <;> rfl
              rw [hb]

/-- through the entry-point plumbing (`simfile.load` on the open file: peek at the first key, rewind) the object
is `Load.load name` of the tokenized decoded text: C03.entry_points_agree composed with decoding -/
theorem fileWorld_load (tok : Bool → Str → Tokens) (htok : ∀ s, tok s [] = ⟨[], false⟩) (render : Msd)
    (cod : Str → Codec) (name : Str) (strict : Bool) (t : Str) :
    (fileWorld tok render cod name strict).load t = load (some name) (tok strict t) :=
  C03.entry_points_agree tok htok strict (.wrapper (some name) t 0) rfl

/-! ### 3. the effect of a normal exit, with bytes (F2) -/

/-- the whole file-level clause: after a fault-free run that reaches the save, the statement completes, the body
had received `s₀`, the output file holds exactly the encoded serialization at exit, the backup (if requested)
exactly the encoded serialization at entry, every other path has the bytes it had (absent stays absent), and the
calls are the reads followed by the save script -/
theorem normal_exit_effect {Sim : Type} {W : World Sim} {c : MutateCfg} {encs : List Str}
    {body : Sim → BodyResult Sim} {fs : FS} {b₀ : Bytes} {enc t₀ : Str} {s₀ : Sim} {bt : Str} {s₁ : Sim}
    {ot : Str} {bb ob : Bytes} (h : Saves W c encs body fs b₀ enc t₀ s₀ bt s₁ ot bb ob) (cut : Nat) :
    (mutateD W c encs body fs none cut).outcome = .returned ∧
    (mutateD W c encs body fs none cut).detected = some (enc, t₀) ∧
    (mutateD W c encs body fs none cut).yielded = some s₀ ∧
    fsGet (mutateD W c encs body fs none cut).fs c.outPath = some ob ∧
    (∀ b, given c.backup = some b → fsGet (mutateD W c encs body fs none cut).fs b = some bb) ∧
    (∀ p, p ≠ c.outPath → some p ≠ given c.backup →
      fsGet (mutateD W c encs body fs none cut).fs p = fsGet fs p) ∧
    (mutateD W c encs body fs none cut).trace =
      readsD W.codec c.input encs b₀ ++ saveScriptD c enc bb ob := by
  unfold mutateD
  rw [mutateDWith_saves handlers h none cut]
  refine ⟨rfl, rfl, rfl, ?_, ?_, ?_, rfl⟩
  · show fsGet (runD fs cut (saveScriptD c enc bb ob) none) c.outPath = some ob
    cases hb : given c.backup with
    | none => rw [fault_table_D_no_backup c enc hb]
    | some b => exact congrArg Prod.snd (fault_table_D c enc b h.noClash hb fs cut bb ob none)
  · intro b hb
    exact congrArg Prod.fst (fault_table_D c enc b h.noClash hb fs cut bb ob none)
  · intro p hp hpb
    exact saveScriptD_frame c enc fs cut bb ob none p hp hpb

/-- "the input file is byte-for-byte untouched when an output name was given" (different from the input's) -/
theorem input_untouched_when_output_given {Sim : Type} {W : World Sim} {c : MutateCfg} {encs : List Str}
    {body : Sim → BodyResult Sim} {fs : FS} {b₀ : Bytes} {enc t₀ : Str} {s₀ : Sim} {bt : Str} {s₁ : Sim}
    {ot : Str} {bb ob : Bytes} (h : Saves W c encs body fs b₀ enc t₀ s₀ bt s₁ ot bb ob) (cut : Nat)
    (o : Str) (ho : given c.output = some o) (hoi : o ≠ c.input) :
    fsGet (mutateD W c encs body fs none cut).fs c.input = some b₀ := by
  rw [(normal_exit_effect h cut).2.2.2.2.2.1 c.input (by rw [outPath_of_some ho]; exact Ne.symm hoi)
    (fun hh => (h.noClash c.input hh.symm).1 rfl)]
  exact h.input

/-- generic read-back: if the detected codec satisfies the law AT the written text and that text loads to `s`,
the output file, decoded with the detected encoding and loaded, is `s` -/
theorem output_reads_back {Sim : Type} {W : World Sim} {c : MutateCfg} {encs : List Str}
    {body : Sim → BodyResult Sim} {fs : FS} {b₀ : Bytes} {enc t₀ : Str} {s₀ : Sim} {bt : Str} {s₁ : Sim}
    {ot : Str} {bb ob : Bytes} (h : Saves W c encs body fs b₀ enc t₀ s₀ bt s₁ ot bb ob) (cut : Nat)
    (hlaw : LawAt (W.codec enc) ot) (s : Sim) (hrt : W.load ot = .ok s) :
    readBack W enc (mutateD W c encs body fs none cut).fs c.outPath = some s :=
  readBack_of W enc _ _ ob ot s (normal_exit_effect h cut).2.2.2.1 (hlaw ob h.encO) hrt

/-- generic read-back of the backup -/
theorem backup_reads_back {Sim : Type} {W : World Sim} {c : MutateCfg} {encs : List Str}
    {body : Sim → BodyResult Sim} {fs : FS} {b₀ : Bytes} {enc t₀ : Str} {s₀ : Sim} {bt : Str} {s₁ : Sim}
    {ot : Str} {bb ob : Bytes} (h : Saves W c encs body fs b₀ enc t₀ s₀ bt s₁ ot bb ob) (cut : Nat)
    (b : Str) (hb : given c.backup = some b)
    (hlaw : LawAt (W.codec enc) bt) (s : Sim) (hrt : W.load bt = .ok s) :
    readBack W enc (mutateD W c encs body fs none cut).fs b = some s :=
  readBack_of W enc _ _ bb bt s ((normal_exit_effect h cut).2.2.2.2.1 b hb) (hlaw bb h.encB) hrt

/-! ### 4. SM and SSC: composition with the round-trip theorems C01 / C02 / C04 -/

/-- SM, output: the output file, decoded with the detected codec, tokenized strictly and loaded, is exactly the
simfile at block exit — for exit simfiles in `C01.DomSM` whose serialization is `safeDoc`, the codec law being
needed at the written text only -/
theorem output_parses_back_sm (M : Msd) (hM : M.Contract) (cod : Str → Codec) (strict : Bool)
    {c : MutateCfg} {encs : List Str} {body : SMSimfile → BodyResult SMSimfile} {fs : FS} {b₀ : Bytes}
    {enc t₀ : Str} {s₀ : SMSimfile} {bt : Str} {s₁ : SMSimfile} {ot : Str} {bb ob : Bytes}
    (h : Saves (smWorld M cod strict) c encs body fs b₀ enc t₀ s₀ bt s₁ ot bb ob) (cut : Nat)
    (hdom : C01.DomSM s₁) (hs : safeDoc (serSM s₁) = true) (hlaw : LawAt (cod enc) (M.renderDoc (serSM s₁))) :
    (fsGet (mutateD (smWorld M cod strict) c encs body fs none cut).fs c.outPath).bind (readSM M (cod enc)) =
      some s₁ := by
  rw [(normal_exit_effect h cut).2.2.2.1, Option.bind_some]
  have hot : ot = M.renderDoc (serSM s₁) := (Except.ok.inj h.ser).symm
  have henc := h.encO
  rw [hot] at henc
  exact readSM_of_lawAt M hM (cod enc) s₁ hlaw hdom hs ob henc

/-- SM, backup: the backup file reads back as exactly the simfile that was loaded from the input (which is in
`C01.DomSM` because it was loaded: C04) -/
theorem backup_parses_back_sm (M : Msd) (hM : M.Contract) (cod : Str → Codec) (strict : Bool)
    {c : MutateCfg} {encs : List Str} {body : SMSimfile → BodyResult SMSimfile} {fs : FS} {b₀ : Bytes}
    {enc t₀ : Str} {s₀ : SMSimfile} {bt : Str} {s₁ : SMSimfile} {ot : Str} {bb ob : Bytes}
    (h : Saves (smWorld M cod strict) c encs body fs b₀ enc t₀ s₀ bt s₁ ot bb ob) (cut : Nat)
    (b : Str) (hb : given c.backup = some b)
    (hs : safeDoc (serSM s₀) = true) (hlaw : LawAt (cod enc) (M.renderDoc (serSM s₀))) :
    (fsGet (mutateD (smWorld M cod strict) c encs body fs none cut).fs b).bind (readSM M (cod enc)) =
      some s₀ := by
  rw [(normal_exit_effect h cut).2.2.2.2.1 b hb, Option.bind_some]
  have hbt : bt = M.renderDoc (serSM s₀) := by
    have := h.entry
    unfold entryText at this
    rw [hb] at this
    exact (Except.ok.inj this).symm
  have henc := h.encB
  rw [hbt] at henc
  have hdom : C01.DomSM s₀ := by
    have hl : (M.tokenize strict t₀).bind loadSM = .ok s₀ := h.load
    cases ht : M.tokenize strict t₀ with
    | error e => rw [ht] at hl; cases hl
    | ok ps => rw [ht] at hl; exact C04.loaded_in_dom_sm ps s₀ hl
  exact readSM_of_lawAt M hM (cod enc) s₀ hlaw hdom hs bb henc

/-- SSC, output: the output file reads back as the simfile at block exit with each chart's note data moved last
(the library's serializer really reorders; equal to `s₁` itself when every chart already ends with its notes,
C02More.roundtrip_eq). Domain `C02More.DomSSC'`: every chart HAS a note-data key, its value a string or `None`
(a key-only `#NOTES;`). The codec law is needed at the written text `ot` only. -/
theorem output_parses_back_ssc (M : Msd) (hM : M.Contract) (cod : Str → Codec) (strict : Bool)
    {c : MutateCfg} {encs : List Str} {body : SSCSimfile → BodyResult SSCSimfile} {fs : FS} {b₀ : Bytes}
    {enc t₀ : Str} {s₀ : SSCSimfile} {bt : Str} {s₁ : SSCSimfile} {ot : Str} {bb ob : Bytes}
    (h : Saves (sscWorld M cod strict) c encs body fs b₀ enc t₀ s₀ bt s₁ ot bb ob) (cut : Nat)
    (hdom : C02More.DomSSC' s₁) (hs : ∀ is, serSSC s₁ = .ok is → safeDoc is = true)
    (hlaw : LawAt (cod enc) ot) :
    (fsGet (mutateD (sscWorld M cod strict) c encs body fs none cut).fs c.outPath).bind (readSSC M (cod enc)) =
      some s₁.notesLast := by
  rw [(normal_exit_effect h cut).2.2.2.1, Option.bind_some]
  have hser := C02More.serSSC_eq s₁ hdom
  have hot : ot = M.renderDoc (O.sscItemsG s₁) := by
    have : (serSSC s₁).map M.renderDoc = .ok ot := h.ser
    rw [hser] at this
    exact (Except.ok.inj this).symm
  have henc := h.encO
  rw [hot] at henc hlaw
  exact readSSC_of_lawAt M hM (cod enc) s₁ _ hser hlaw hdom (hs _ hser) ob henc

/-- SSC, backup: the backup reads back as the loaded simfile with note data moved last. The loaded simfile is in
`C02More.DomSSC'` because it was loaded and its entry serialization succeeded (C04More) — charts whose note data
is `None` included. The codec law is needed at the backup text `bt` only. -/
theorem backup_parses_back_ssc (M : Msd) (hM : M.Contract) (cod : Str → Codec) (strict : Bool)
    {c : MutateCfg} {encs : List Str} {body : SSCSimfile → BodyResult SSCSimfile} {fs : FS} {b₀ : Bytes}
    {enc t₀ : Str} {s₀ : SSCSimfile} {bt : Str} {s₁ : SSCSimfile} {ot : Str} {bb ob : Bytes}
    (h : Saves (sscWorld M cod strict) c encs body fs b₀ enc t₀ s₀ bt s₁ ot bb ob) (cut : Nat)
    (b : Str) (hb : given c.backup = some b)
    (hs : ∀ is, serSSC s₀ = .ok is → safeDoc is = true) (hlaw : LawAt (cod enc) bt) :
    (fsGet (mutateD (sscWorld M cod strict) c encs body fs none cut).fs b).bind (readSSC M (cod enc)) =
      some s₀.notesLast := by
  rw [(normal_exit_effect h cut).2.2.2.2.1 b hb, Option.bind_some]
  have hentry := h.entry
  unfold entryText at hentry
  rw [hb] at hentry
  obtain ⟨hdom, is, hser, hbt⟩ := sscWorld_loaded_dom M cod strict t₀ s₀ bt h.load hentry
  have henc := h.encB
  rw [hbt] at henc hlaw
  exact readSSC_of_lawAt M hM (cod enc) s₀ is hser hlaw hdom (hs is hser) bb henc

/-! ### 5. a no-op mutate on a file it has already written -/

/-- if the input file is the encoding (in the detected encoding) of the serialization of what it loads to — as is
every file written by `mutate` and read back in the same encoding — a mutate whose body changes nothing writes the
very same bytes back: the input file is byte-for-byte what it was -/
theorem noop_keeps_bytes {Sim : Type} {W : World Sim} {c : MutateCfg} {encs : List Str}
    {body : Sim → BodyResult Sim} {fs : FS} {b₀ : Bytes} {enc t₀ : Str} {s₀ : Sim} {bt : Str}
    {ot : Str} {bb ob : Bytes} (h : Saves W c encs body fs b₀ enc t₀ s₀ bt s₀ ot bb ob) (cut : Nat)
    (hout : given c.output = none) (hcanon : W.ser s₀ = .ok t₀) (hfile : (W.codec enc).encode t₀ = some b₀) :
    fsGet (mutateD W c encs body fs none cut).fs c.input = fsGet fs c.input := by
  have h1 := (normal_exit_effect h cut).2.2.2.1
  rw [outPath_of_none hout] at h1
  rw [h1, h.input]
  have : ot = t₀ := by
    have := h.ser
    rw [hcanon] at this
    exact (Except.ok.inj this).symm
  have h2 := h.encO
  rw [this, hfile] at h2
  exact h2.symm

/-- "Running a no-op mutate on a file it has already written leaves that file's bytes unchanged whenever the file
is again read in the same encoding", SM files: a first run wrote the simfile `s₁` (in `C01.DomSM`, `safeDoc`, codec
law at that one text) to `c₁.outPath`; a second run on that file (`c₂.input = c₁.outPath`, written in place) that
detects the same encoding and whose body returns its argument unchanged leaves the file byte-for-byte as it is -/
theorem second_noop_keeps_bytes_sm (M : Msd) (hM : M.Contract) (cod : Str → Codec) (strict : Bool)
    {c₁ : MutateCfg} {encs₁ : List Str} {body₁ : SMSimfile → BodyResult SMSimfile} {fs : FS} {b₀ : Bytes}
    {enc t₀ : Str} {s₀ : SMSimfile} {bt : Str} {s₁ : SMSimfile} {ot : Str} {bb ob : Bytes}
    (h₁ : Saves (smWorld M cod strict) c₁ encs₁ body₁ fs b₀ enc t₀ s₀ bt s₁ ot bb ob) (cut₁ : Nat)
    (hdom : C01.DomSM s₁) (hs : safeDoc (serSM s₁) = true) (hlaw : LawAt (cod enc) (M.renderDoc (serSM s₁)))
    {c₂ : MutateCfg} (hc₂ : c₂.input = c₁.outPath) (hout : given c₂.output = none)
    {encs₂ : List Str} {body₂ : SMSimfile → BodyResult SMSimfile} {b₂ : Bytes} {t₂ : Str} {s₂ : SMSimfile}
    {bt₂ ot₂ : Str} {bb₂ ob₂ : Bytes}
    (h₂ : Saves (smWorld M cod strict) c₂ encs₂ body₂
      (mutateD (smWorld M cod strict) c₁ encs₁ body₁ fs none cut₁).fs b₂ enc t₂ s₂ bt₂ s₂ ot₂ bb₂ ob₂)
    (cut₂ : Nat) :
    fsGet (mutateD (smWorld M cod strict) c₂ encs₂ body₂
        (mutateD (smWorld M cod strict) c₁ encs₁ body₁ fs none cut₁).fs none cut₂).fs c₂.input =
      fsGet (mutateD (smWorld M cod strict) c₁ encs₁ body₁ fs none cut₁).fs c₂.input := by
  have hot : ot = M.renderDoc (serSM s₁) := (Except.ok.inj h₁.ser).symm
  -- the second run reads the bytes the first one wrote
  have hb₂ : b₂ = ob := by
    have := h₂.input
    rw [hc₂, (normal_exit_effect h₁ cut₁).2.2.2.1] at this
    exact (Option.some.inj this).symm
  subst hb₂
  -- they decode to the text that was written
  have hdec : (cod enc).decode b₂ = some t₂ := by
    obtain ⟨_, _, _, _, hd⟩ := (detectD_some_iff _ _ _ _ _).mp h₂.det
    exact hd
  have ht₂ : t₂ = ot := by
    have henc := h₁.encO
    rw [hot] at henc
    have := hlaw b₂ henc
    rw [hdec] at this
    rw [hot]
    exact Option.some.inj this
  subst ht₂
  -- which loads to the simfile that was written
  have hs₂ : s₂ = s₁ := by
    have hl : (M.tokenize strict t₂).bind loadSM = .ok s₂ := h₂.load
    rw [hot, C01.roundtrip M hM s₁ hdom hs strict] at hl
    exact (Except.ok.inj hl).symm
  subst hs₂
  exact noop_keeps_bytes h₂ cut₂ hout h₁.ser h₁.encO

/-! ### 6. refinement: forgetting the payloads gives the symbolic model -/

/-- outcome class and calls. With `tries` = the real decode results and `(body, problem)` = the classes the data
determine (`absInputs`), the calls made by `mutateD`, payloads forgotten, are those of `mutate` up to the failing
call; without a fault (or with a fault index beyond the script) the outcome class is that of `mutate`; a fault
inside the script gives `ioError`. Hypotheses: the three situations the symbolic model cannot express are excluded
(missing input file; decodes but does not load; the entry serialization for a requested backup fails) — see the
counter-examples below. -/
theorem refines_mutate {Sim : Type} (W : World Sim) (c : MutateCfg) (encs : List Str)
    (body : Sim → BodyResult Sim) (fs : FS) (k : Option Nat) (cut : Nat) (b₀ : Bytes)
    (hin : fsGet fs c.input = some b₀)
    (hload : ∀ enc t, detectD W.codec encs b₀ = some (enc, t) → ∃ s, W.load t = .ok s)
    (hentry : ∀ enc t s, detectD W.codec encs b₀ = some (enc, t) → W.load t = .ok s →
      ∃ bt, entryText W c s = .ok bt) :
    ((mutateD W c encs body fs k cut).trace.map OpD.forget =
      upToFault (mutate c (triesOf W.codec encs b₀) (absInputs W c encs body b₀).1
        (absInputs W c encs body b₀).2).2 k) ∧
    ((∀ n, k = some n → nWrites (mutate c (triesOf W.codec encs b₀) (absInputs W c encs body b₀).1
        (absInputs W c encs body b₀).2).2 ≤ n) →
      (mutateD W c encs body fs k cut).outcome.forget =
        some (mutate c (triesOf W.codec encs b₀) (absInputs W c encs body b₀).1
          (absInputs W c encs body b₀).2).1) ∧
    (∀ n, k = some n → n < nWrites (mutate c (triesOf W.codec encs b₀) (absInputs W c encs body b₀).1
        (absInputs W c encs body b₀).2).2 → (mutateD W c encs body fs k cut).outcome = .ioError n) :=
  refines_outcome_trace W c encs body fs k cut b₀ hin hload hentry

/-- file classes, when the save is reached: run the symbolic script (`runWrites`, every existing file `.original`)
and the data script with the same fault index; then for EVERY path the symbolic class, read as a statement about
bytes (`Agree`: original ↦ the old bytes, written true/false ↦ exactly the backup/output bytes, truncated ↦ a
prefix of the data being written, absent ↦ absent), holds of the bytes in the data model — provided a failing close
loses nothing (`CloseKeepsData`, the symbolic model's assumption). Under the pessimistic close it holds up to
"complete ↦ some prefix" (`AgreeW`). -/
theorem refines_mutate_files {Sim : Type} {W : World Sim} {c : MutateCfg} {encs : List Str}
    {body : Sim → BodyResult Sim} {fs : FS} {b₀ : Bytes} {enc t₀ : Str} {s₀ : Sim} {bt : Str} {s₁ : Sim}
    {ot : Str} {bb ob : Bytes} (h : Saves W c encs body fs b₀ enc t₀ s₀ bt s₁ ot bb ob)
    (k : Option Nat) (cut : Nat) (p : Str) :
    AgreeW fs c bb ob p
      (lookupContent (runWrites (absFs fs) (given c.backup)
        (mutate c (triesOf W.codec encs b₀) (absInputs W c encs body b₀).1 (absInputs W c encs body b₀).2).2 k) p)
      (fsGet (mutateD W c encs body fs k cut).fs p) ∧
    (CloseKeepsData c enc bb ob k cut →
      Agree fs c bb ob p
        (lookupContent (runWrites (absFs fs) (given c.backup)
          (mutate c (triesOf W.codec encs b₀) (absInputs W c encs body b₀).1 (absInputs W c encs body b₀).2).2 k) p)
        (fsGet (mutateD W c encs body fs k cut).fs p)) := by
  rw [mutate_of_saves h]
  unfold mutateD
  rw [mutateDWith_saves handlers h k cut]
  exact refine_files c h.noClash _ enc fs bb ob k cut p

/-- when the save is not reached neither model touches a file -/
theorem refines_mutate_unsaved {Sim : Type} (W : World Sim) (c : MutateCfg) (encs : List Str)
    (body : Sim → BodyResult Sim) (fs : FS) (k : Option Nat) (cut : Nat)
    (h : ¬ ∃ b₀ enc t₀ s₀ bt s₁ ot bb ob, Saves W c encs body fs b₀ enc t₀ s₀ bt s₁ ot bb ob) :
    (mutateD W c encs body fs k cut).fs = fs :=
  ((mutateDWith_cases handlers W c encs body fs k cut).resolve_right h).1

/-! ### counter-examples: where the symbolic model is wrong, so that the hypotheses of `refines_mutate` are needed -/

/-- entry serialization (hypothesis `hentry`): an SSC file whose chart lacks note data loads, but `str(simfile)`
raises; with a backup requested this happens BEFORE the body. The data model (and Python: KeyError, body never
runs) ends in `serializeError`, the symbolic model, given the body class "cancels", says `returned`. -/
example :
    (mutateD Toy.sscW Toy.cfgSSC Toy.encs (Toy.raising Toy.cancel) Toy.fsSSC none 0).outcome =
      .serializeError true .keyError ∧
    (mutate Toy.cfgSSC (triesOf Toy.cod Toy.encs Toy.bSSC)
      (absInputs Toy.sscW Toy.cfgSSC Toy.encs (Toy.raising Toy.cancel) Toy.bSSC).1
      (absInputs Toy.sscW Toy.cfgSSC Toy.encs (Toy.raising Toy.cancel) Toy.bSSC).2).1 = .returned := by
  decide +kernel

/-- failing close (hypothesis `CloseKeepsData`): close of the backup fails with 3 bytes on disk (real: a flush
inside close hitting ENOSPC / a file-size limit). The symbolic model calls the backup complete, the data model
holds a 3-byte prefix. -/
example :
    lookupContent (runWrites (absFs Toy.fs₀) (given Toy.cfg.backup)
      (mutate Toy.cfg (triesOf Toy.cod Toy.encs Toy.b₀) (absInputs Toy.W Toy.cfg Toy.encs Toy.edit Toy.b₀).1
        (absInputs Toy.W Toy.cfg Toy.encs Toy.edit Toy.b₀).2).2 (some 2)) "a.bak".toList =
      some (.written true) ∧
    fsGet (mutateD Toy.W Toy.cfg Toy.encs Toy.edit Toy.fs₀ (some 2) 3).fs "a.bak".toList = some [35, 84, 73] ∧
    ¬ CloseKeepsData Toy.cfg "latin1".toList Toy.bb Toy.ob (some 2) 3 := by
  refine ⟨by decide +kernel, by decide +kernel, ?_⟩
  intro h
  have := h 2 "a.bak".toList Toy.bb rfl (by decide +kernel)
  revert this
  decide +kernel

/-- outcomes the symbolic model does not have: a missing input file, a file that decodes but does not load -/
example : (mutateD Toy.W Toy.cfg Toy.encs Toy.edit [] none 0).outcome = .fileNotFound := by decide +kernel
example : (mutateD Toy.W Toy.cfg Toy.encs Toy.edit [("a.sm".toList, [35, 84, 59, 10, 120])] none 0).outcome =
    .loadError .msdParserError := by decide +kernel

/-! ### non-vacuity: two codecs of which the second is needed, a non-ASCII file, a backup -/

-- detection over real decode functions: ASCII does not decode 0xE9, Latin-1 does
example : (Toy.cod "ascii".toList).decode Toy.b₀ = none := by decide +kernel
example : detectD Toy.cod Toy.encs Toy.b₀ = some ("latin1".toList, Toy.t₀) := by decide +kernel
example : detectD Toy.cod ["ascii".toList] Toy.b₀ = none := by decide +kernel
example : (mutateD Toy.W Toy.cfg ["ascii".toList] Toy.edit Toy.fs₀ none 0).outcome = .unicodeDecodeError := by
  decide +kernel
example : fsGet Toy.fs₀ Toy.cfg.input = some Toy.b₀ := by decide +kernel
example : NoClash Toy.cfg := by decide +kernel
-- the hypotheses of the normal-exit theorems
example : Saves Toy.W Toy.cfg Toy.encs Toy.edit Toy.fs₀ Toy.b₀ "latin1".toList Toy.t₀ Toy.s₀ Toy.t₀ Toy.s₁ Toy.ot
    Toy.bb Toy.ob := Toy.saves
example : C01.DomSM Toy.s₁ := by decide +kernel
example : safeDoc (serSM Toy.s₁) = true := by decide +kernel
example : safeDoc (serSM Toy.s₀) = true := by decide +kernel
example : LawAt (Toy.cod "latin1".toList) (MsdP.msd.renderDoc (serSM Toy.s₁)) :=
  Toy.lawAt_of_eval (b := Toy.ob) (by decide +kernel) (by decide +kernel)
example : LawAt (Toy.cod "latin1".toList) (MsdP.msd.renderDoc (serSM Toy.s₀)) :=
  Toy.lawAt_of_eval (b := Toy.bb) (by decide +kernel) (by decide +kernel)
-- the law is not global for this codec table: an unknown encoding name encodes nothing, ASCII fails on 'é'
example : (Toy.cod "ascii".toList).encode Toy.t₀ = none := by decide +kernel
-- the theorems applied
example : (fsGet (mutateD Toy.W Toy.cfg Toy.encs Toy.edit Toy.fs₀ none 0).fs Toy.cfg.outPath).bind
    (readSM MsdP.msd (Toy.cod "latin1".toList)) = some Toy.s₁ :=
  output_parses_back_sm MsdP.msd MsdContract.contract Toy.cod true Toy.saves 0 (by decide +kernel)
    (by decide +kernel) (Toy.lawAt_of_eval (b := Toy.ob) (by decide +kernel) (by decide +kernel))
example : (fsGet (mutateD Toy.W Toy.cfg Toy.encs Toy.edit Toy.fs₀ none 0).fs "a.bak".toList).bind
    (readSM MsdP.msd (Toy.cod "latin1".toList)) = some Toy.s₀ :=
  backup_parses_back_sm MsdP.msd MsdContract.contract Toy.cod true Toy.saves 0 _ (by decide +kernel)
    (by decide +kernel) (Toy.lawAt_of_eval (b := Toy.bb) (by decide +kernel) (by decide +kernel))
-- the whole run evaluated: the filesystem afterwards, the calls, the object handed to the body
example : (mutateD Toy.W Toy.cfg Toy.encs Toy.edit Toy.fs₀ none 0).fs =
    [("other".toList, [1, 2, 3]), ("a.bak".toList, Toy.bb), ("a.sm".toList, Toy.ob)] := by decide +kernel
example : (mutateD Toy.W Toy.cfg Toy.encs Toy.edit Toy.fs₀ none 0).yielded = some Toy.s₀ := by decide +kernel
example : ((mutateD Toy.W Toy.cfg Toy.encs Toy.edit Toy.fs₀ none 0).trace.map OpD.forget).length = 8 := by
  decide +kernel
-- a separate output file: the input keeps its bytes
example : fsGet (mutateD Toy.W Toy.cfgOut Toy.encs Toy.edit Toy.fs₀ none 0).fs "a.sm".toList = some Toy.b₀ :=
  input_untouched_when_output_given Toy.savesOut 0 "b.sm".toList (by decide +kernel) (by decide +kernel)
-- a no-op mutate on the toy file (it IS the Latin-1 encoding of the serialization of what it loads to)
example : Saves Toy.W ⟨"a.sm".toList, none, none⟩ Toy.encs (fun s => .returns s) Toy.fs₀ Toy.b₀ "latin1".toList
    Toy.t₀ Toy.s₀ [] Toy.s₀ Toy.t₀ [] Toy.b₀ :=
  ⟨by decide +kernel, by decide +kernel, by decide +kernel, by decide +kernel, by decide +kernel,
   by decide +kernel, by decide +kernel, by decide +kernel, by decide +kernel⟩
-- the second, no-op run on the file the first run wrote: its hypotheses hold, and the bytes stay
example : Saves Toy.W ⟨"a.sm".toList, none, none⟩ Toy.encs (fun s => .returns s)
    (mutateD Toy.W Toy.cfg Toy.encs Toy.edit Toy.fs₀ none 0).fs Toy.ob "latin1".toList Toy.ot Toy.s₁ [] Toy.s₁
    Toy.ot [] Toy.ob :=
  ⟨by decide +kernel, by decide +kernel, by decide +kernel, by decide +kernel, by decide +kernel,
   by decide +kernel, by decide +kernel, by decide +kernel, by decide +kernel⟩
example : fsGet (mutateD Toy.W ⟨"a.sm".toList, none, none⟩ Toy.encs (fun s => .returns s)
    (mutateD Toy.W Toy.cfg Toy.encs Toy.edit Toy.fs₀ none 0).fs none 0).fs "a.sm".toList = some Toy.ob := by
  decide +kernel
-- the hypotheses of the refinement theorem hold in the toy setting
example : ∀ enc t, detectD Toy.cod Toy.encs Toy.b₀ = some (enc, t) → ∃ s, Toy.W.load t = .ok s := by
  intro enc t h
  have : some (enc, t) = some ("latin1".toList, Toy.t₀) := by rw [← h]; decide +kernel
  cases this
  exact ⟨Toy.s₀, by decide +kernel⟩

end Simfile.C05Data
