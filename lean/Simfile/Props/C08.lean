/-
C08 — the note-data encoder. Property theorems only; lemmas live in Simfile/Lemmas/.
-/
import Simfile.Lemmas.NotesEncode
import Simfile.Lemmas.NotesRoundTrip
import Simfile.Lemmas.NotesCanonical
namespace Simfile.C08
open Simfile

/-- a stream without notes is written as one blank measure of four rows … -/
theorem empty_encode (cols : Nat) :
    encode [] cols = .ok (List.replicate 4 (List.replicate cols '0' ++ ['\n'])).flatten := by
  simp [encode, pushMeasure, groupRuns, blankRows, bind, Except.bind, pure, Except.pure]

/-- … which reads back as no notes in `cols` columns -/
theorem empty (cols : Nat) (h : 0 < cols) :
    encode [] cols = .ok (List.replicate 4 (List.replicate cols '0' ++ ['\n'])).flatten ∧
    decode (List.replicate 4 (List.replicate cols '0' ++ ['\n'])).flatten = .ok (cols, []) :=
  ⟨empty_encode cols, decode_blank cols h⟩

example : encode [] 4 = .ok "0000\n0000\n0000\n0000\n".toList := by
  rw [empty_encode]; decide

/-- `push_measure` on notes of one measure, in beat order, writes exactly `4 * lcm(denominators)`
rows, each `cols` cells followed by a line feed -/
theorem rows_of_measure (cols : Nat) (measure : List Note)
    (hcol : ∀ n ∈ measure, n.column < cols)
    (hsorted : measure.Pairwise (fun a b => a.beat ≤ b.beat))
    (hone : ∀ a ∈ measure, ∀ b ∈ measure, measureIndex a = measureIndex b) :
    ∃ rows : List Spec.DRow, pushMeasure cols measure = .ok (rows.map Spec.renderRow).flatten ∧
      rows.length = 4 * measure.foldl (fun a n => Nat.lcm a n.beat.den) 1 ∧
      ∀ r ∈ rows, r.cells.length = cols ∧ r.lead = [] ∧ r.trail = [] ∧ r.eol = ['\n'] := by
  obtain ⟨rows, h1, h2, h3, _⟩ := Spec.pushMeasure_rows cols measure hcol hsorted hone
  exact ⟨rows, h1, h2, h3⟩

/-- … so for known note characters the text has exactly that many lines -/
theorem lines_of_measure (cols : Nat) (measure : List Note)
    (hcol : ∀ n ∈ measure, n.column < cols)
    (hsorted : measure.Pairwise (fun a b => a.beat ≤ b.beat))
    (hone : ∀ a ∈ measure, ∀ b ∈ measure, measureIndex a = measureIndex b)
    (hch : ∀ n ∈ measure, isNoteChar n.ntype = true) :
    ∃ out, pushMeasure cols measure = .ok out ∧
      (splitLines out).length = 4 * measure.foldl (fun a n => Nat.lcm a n.beat.den) 1 := by
  obtain ⟨rows, h1, h2, h3, h4⟩ := Spec.pushMeasure_rows cols measure hcol hsorted hone
  refine ⟨_, h1, ?_⟩
  have := Spec.splitLines_rowsText cols rows (fun r hr => ⟨h3 r hr, h4 hch r hr⟩)
  rw [Spec.rowsText] at this
  rw [this, List.length_map, h2]
  rfl

/-- a measure with a quarter note and a triplet position: lcm(1, 3) = 3, twelve rows -/
example : ∃ out, pushMeasure 2 [⟨4, 0, '1', 0, none⟩, ⟨13/3, 1, '2', 0, some 5⟩] = .ok out ∧
    (splitLines out).length = 4 * 3 := by
  have hq : List.foldl (fun a (n : Note) => Nat.lcm a n.beat.den) 1
      [⟨4, 0, '1', 0, none⟩, ⟨13/3, 1, '2', 0, some 5⟩] = 3 := by decide +kernel
  have := lines_of_measure 2 [⟨4, 0, '1', 0, none⟩, ⟨13/3, 1, '2', 0, some 5⟩]
    (by decide +kernel) (by decide +kernel) (by decide +kernel) (by decide +kernel)
  rw [hq] at this
  exact this

/-! ### decode ∘ encode -/

/-- streams that `from_notes` writes faithfully: sorted by (player, beat, column) with pairwise distinct
positions, non-negative beats, columns below `cols`, known note characters; any denominators, any
number of players, gaps between measures and players allowed -/
structure Stream (ns : List Note) (cols : Nat) : Prop where
  cols_pos : 1 ≤ cols
  sorted : ns.Pairwise (fun a b => keyLe a.key b.key = true)
  distinct : (ns.map Note.key).Nodup
  nonneg : ∀ n ∈ ns, 0 ≤ n.beat
  column : ∀ n ∈ ns, n.column < cols
  known : ∀ n ∈ ns, isNoteChar n.ntype = true

theorem Stream.ok {ns : List Note} {cols : Nat} (h : Stream ns cols) : Spec.StreamOK cols ns :=
  ⟨Spec.strict_of_sorted_nodup h.sorted h.distinct, h.nonneg, h.column, h.known⟩

/-- the text written for a stream is the rendering of a well-formed chart that denotes the stream -/
theorem encode_well_formed (ns : List Note) (cols : Nat) (h : Stream ns cols) :
    ∃ c : Spec.DChart, encode ns cols = .ok (Spec.render c) ∧ Spec.WF c = true ∧ Spec.cols c = cols ∧
      Spec.notesOf c = ns := Spec.encode_is_render h.cols_pos h.ok

/-- reading back what was written gives the stream -/
theorem decode_encode (ns : List Note) (cols : Nat) (h : Stream ns cols) :
    (encode ns cols).bind (fun t => decodeWith cols t) = .ok ns := Spec.decode_encode h.cols_pos h.ok

/-- … also when the column count is recomputed from the text, as the constructor does -/
theorem decode_encode_columns (ns : List Note) (cols : Nat) (h : Stream ns cols) :
    (encode ns cols).bind decode = .ok (cols, ns) := Spec.decode_encode_full h.cols_pos h.ok

/-- a stream with two players (the first one absent: player 1 and 3), a skipped measure, a triplet
position, a keysound and a mine -/
example : Stream [⟨0, 1, '1', 1, none⟩, ⟨13/3, 0, '2', 1, some 5⟩, ⟨13/3, 2, 'M', 1, none⟩,
    ⟨17, 0, '4', 3, none⟩] 3 :=
  ⟨by decide, by decide +kernel, by decide +kernel, by decide +kernel, by decide +kernel, by decide +kernel⟩

/-! ### stability of re-encoding -/

/-- rebuilding note data from its own notes reproduces the same text -/
theorem reencode_stable (ns : List Note) (cols : Nat) (h : Stream ns cols) :
    ∃ t, encode ns cols = .ok t ∧ (decodeWith cols t).bind (fun ns' => encode ns' cols) = .ok t := by
  obtain ⟨c, h1, h2, h3, h4⟩ := encode_well_formed ns cols h
  refine ⟨_, h1, ?_⟩
  rw [← h3, Spec.decodeWith_render c h2, h4, h3]
  exact h1

/-- decoding any well-formed chart yields a stream in the encoder's domain -/
theorem decoded_is_stream (c : Spec.DChart) (h : Spec.WF c = true) :
    Stream (Spec.notesOf c) (Spec.cols c) :=
  let ok := Spec.notesOf_streamOK c h
  ⟨((Spec.WF_iff c).mp h).1, Spec.keyLe_of_keyLt ok.sorted, Spec.nodup_of_keyLt ok.sorted,
    ok.nonneg, ok.column, ok.char⟩

/-- decoding any well-formed text and re-encoding it is stable after the first pass: the text `t₁`
written from the decoded notes decodes and re-encodes to `t₁` itself -/
theorem decode_reencode_stable (c : Spec.DChart) (h : Spec.WF c = true) (hf : C07.firstLineOk c = true) :
    ∃ t₁, (decode (Spec.render c)).bind (fun r => encode r.2 r.1) = .ok t₁ ∧
      (decode t₁).bind (fun r => encode r.2 r.1) = .ok t₁ := by
  have hs := decoded_is_stream c h
  obtain ⟨c', h1, _⟩ := encode_well_formed _ _ hs
  have h2 := decode_encode_columns _ _ hs
  rw [h1] at h2
  simp only [Except.bind] at h2
  refine ⟨Spec.render c', ?_, ?_⟩
  · rw [Spec.decode_render c h hf]; exact h1
  · rw [h2]; exact h1

/-! ### canonical form: every player and measure up to the last note is present; skipped ones are blank -/

/-- the chart `Spec.canon ns cols` is what `from_notes` writes: well-formed, `cols` columns, denoting `ns` -/
theorem canonical_chart (ns : List Note) (cols : Nat) (h : Stream ns cols) :
    encode ns cols = .ok (Spec.render (Spec.canon ns cols)) ∧ Spec.WF (Spec.canon ns cols) = true ∧
      Spec.cols (Spec.canon ns cols) = cols ∧ Spec.notesOf (Spec.canon ns cols) = ns :=
  Spec.canon_spec h.cols_pos h.ok

/-- its shape: players `0..maxPlayer`; for player `p` measures `0..lastMeasure p`; measure `m` of
player `p` has `4·lcm(denominators of its notes)` rows — four blank rows when no note falls into it -/
theorem canonical_shape (ns : List Note) (cols : Nat) (h : Stream ns cols) :
    (Spec.canon ns cols).length = Spec.maxPlayer ns + 1 ∧
    ∀ p ≤ Spec.maxPlayer ns, ∃ ms, (Spec.canon ns cols)[p]? = some ms ∧
      ms.length = Spec.lastMeasure ns p + 1 ∧
      ∀ m ≤ Spec.lastMeasure ns p, ∃ me, ms[m]? = some me ∧
        me.rows.length = 4 * (Spec.notesAt ns p m).foldl (fun a n => Nat.lcm a n.beat.den) 1 ∧
        (Spec.notesAt ns p m = [] → me.rows = List.replicate 4 (Spec.zeroRow cols)) := by
  obtain ⟨h1, h2⟩ := Spec.canon_shape h.ok
  refine ⟨h1, ?_⟩
  intro p hp
  obtain ⟨ms, hms, hlen, hall⟩ := h2 p hp
  refine ⟨ms, hms, hlen, ?_⟩
  intro m hm
  obtain ⟨me, hme, hrows, hl⟩ := hall m hm
  refine ⟨me, hme, hl, ?_⟩
  intro hnil
  rw [hrows, hnil, Spec.measureOf_nil]
  rfl

/-- the quantities in words -/
theorem maxPlayer_def (ns : List Note) : Spec.maxPlayer ns = (ns.map (·.player)).foldl max 0 := rfl

theorem notesAt_def (ns : List Note) (p m : Nat) :
    Spec.notesAt ns p m =
      (ns.filter (fun n => decide (n.player = p))).filter (fun n => decide ((n.beat / 4).floor = (m : Int))) := rfl

/-- `lastMeasure ns p` is ⌊beat/4⌋ of the last note of player `p`, and 0 if `p` has no note -/
theorem lastMeasure_def (ns : List Note) (p : Nat) :
    (∀ n ∈ ns, n.player = p → (n.beat / 4).floor.toNat ≤ Spec.lastMeasure ns p) ∧
    ((∃ n ∈ ns, n.player = p) →
      ∃ n ∈ ns, n.player = p ∧ (n.beat / 4).floor.toNat = Spec.lastMeasure ns p) ∧
    ((∀ n ∈ ns, n.player ≠ p) → Spec.lastMeasure ns p = 0) := Spec.lastMeasure_spec ns p

/-- the text has exactly `maxPlayer + 1` player sections -/
theorem canonical_players (ns : List Note) (cols : Nat) (h : Stream ns cols) (t : Str)
    (ht : encode ns cols = .ok t) :
    (splitOn '&' t).length = (ns.map (·.player)).foldl max 0 + 1 := by
  obtain ⟨t', h1, h2, _⟩ := Spec.canonical_text h.cols_pos h.ok
  rw [ht] at h1
  cases h1
  exact h2

/-- player `p`'s section has exactly `lastMeasure p + 1` measures -/
theorem canonical_measures (ns : List Note) (cols : Nat) (h : Stream ns cols) (t : Str)
    (ht : encode ns cols = .ok t) (p : Nat) (hp : p ≤ Spec.maxPlayer ns) :
    ∃ sec, (splitOn '&' t)[p]? = some sec ∧ (splitOn ',' sec).length = Spec.lastMeasure ns p + 1 := by
  obtain ⟨t', h1, _, h3⟩ := Spec.canonical_text h.cols_pos h.ok
  rw [ht] at h1
  cases h1
  obtain ⟨sec, hs, hl, _⟩ := h3 p hp
  exact ⟨sec, hs, hl⟩

/-- measure `m` of player `p` has exactly `4·lcm` lines (`rows_of_measure` for the whole stream) -/
theorem canonical_rows (ns : List Note) (cols : Nat) (h : Stream ns cols) (t : Str)
    (ht : encode ns cols = .ok t) (p m : Nat) (hp : p ≤ Spec.maxPlayer ns) (hm : m ≤ Spec.lastMeasure ns p) :
    ∃ sec mt, (splitOn '&' t)[p]? = some sec ∧ (splitOn ',' sec)[m]? = some mt ∧
      (splitLines (strip mt)).length =
        4 * (Spec.notesAt ns p m).foldl (fun a n => Nat.lcm a n.beat.den) 1 := by
  obtain ⟨t', h1, _, h3⟩ := Spec.canonical_text h.cols_pos h.ok
  rw [ht] at h1
  cases h1
  obtain ⟨sec, hs, _, hr⟩ := h3 p hp
  obtain ⟨mt, hmt, hl⟩ := hr m hm
  exact ⟨sec, mt, hs, hmt, hl⟩

/-- the example stream: players 0..3, player 1 has measures 0..1 (the second with 12 rows), player 3
measures 0..4, players 0 and 2 one blank measure -/
example : let ns : List Note := [⟨0, 1, '1', 1, none⟩, ⟨13/3, 0, '2', 1, some 5⟩, ⟨13/3, 2, 'M', 1, none⟩,
    ⟨17, 0, '4', 3, none⟩]
    Spec.maxPlayer ns = 3 ∧ Spec.lastMeasure ns 0 = 0 ∧ Spec.lastMeasure ns 1 = 1 ∧
    Spec.lastMeasure ns 3 = 4 ∧ (Spec.notesAt ns 1 1).foldl (fun a n => Nat.lcm a n.beat.den) 1 = 3 := by
  decide +kernel

end Simfile.C08
