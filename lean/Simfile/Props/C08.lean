/-
C08 — the note-data encoder. Property theorems only; lemmas live in Simfile/Lemmas/.
-/
import Simfile.Lemmas.NotesEncode
import Simfile.Lemmas.NotesRoundTrip
namespace Simfile.C08
open Simfile

/-- a stream without notes is written as one blank measure of four rows … -/
theorem empty_encode (cols : Nat) :
    encode [] cols = .ok (List.replicate 4 (List.replicate cols '0' ++ ['\n'])).flatten := by
  simp [encode, pushMeasure, groupRuns, blankRows, bind, Except.bind, pure, Except.pure]

/-- … which reads back as no notes in `cols` columns -/
theorem empty (cols : Nat) (h : 0 < cols) :
    encode [] cols = .ok (List.replicate 4 (List.replicate cols '0' ++ ['\n'])).flatten ∧
    decode (List.replicate 4 (List.replicate cols '0' ++ ['\n'])).flatten = .ok (cols, []) :=
  ⟨empty_encode cols, decode_blank cols h⟩

example : encode [] 4 = .ok "0000\n0000\n0000\n0000\n".toList := by
  rw [empty_encode]; decide

/-- `push_measure` on notes of one measure, in beat order, writes exactly `4 * lcm(denominators)`
rows, each `cols` cells followed by a line feed -/
theorem rows_of_measure (cols : Nat) (measure : List Note)
    (hcol : ∀ n ∈ measure, n.column < cols)
    (hsorted : measure.Pairwise (fun a b => a.beat ≤ b.beat))
    (hone : ∀ a ∈ measure, ∀ b ∈ measure, measureIndex a = measureIndex b) :
    ∃ rows : List Spec.DRow, pushMeasure cols measure = .ok (rows.map Spec.renderRow).flatten ∧
      rows.length = 4 * measure.foldl (fun a n => Nat.lcm a n.beat.den) 1 ∧
      ∀ r ∈ rows, r.cells.length = cols ∧ r.lead = [] ∧ r.trail = [] ∧ r.eol = ['\n'] := by
  obtain ⟨rows, h1, h2, h3, _⟩ := Spec.pushMeasure_rows cols measure hcol hsorted hone
  exact ⟨rows, h1, h2, h3⟩

/-- … so for known note characters the text has exactly that many lines -/
theorem lines_of_measure (cols : Nat) (measure : List Note)
    (hcol : ∀ n ∈ measure, n.column < cols)
    (hsorted : measure.Pairwise (fun a b => a.beat ≤ b.beat))
    (hone : ∀ a ∈ measure, ∀ b ∈ measure, measureIndex a = measureIndex b)
    (hch : ∀ n ∈ measure, isNoteChar n.ntype = true) :
    ∃ out, pushMeasure cols measure = .ok out ∧
      (splitLines out).length = 4 * measure.foldl (fun a n => Nat.lcm a n.beat.den) 1 := by
  obtain ⟨rows, h1, h2, h3, h4⟩ := Spec.pushMeasure_rows cols measure hcol hsorted hone
  refine ⟨_, h1, ?_⟩
  have := Spec.splitLines_rowsText cols rows (fun r hr => ⟨h3 r hr, h4 hch r hr⟩)
  rw [Spec.rowsText] at this
  rw [this, List.length_map, h2]
  rfl

/-- a measure with a quarter note and a triplet position: lcm(1, 3) = 3, twelve rows -/
example : ∃ out, pushMeasure 2 [⟨4, 0, '1', 0, none⟩, ⟨13/3, 1, '2', 0, some 5⟩] = .ok out ∧
    (splitLines out).length = 4 * 3 := by
  have hq : List.foldl (fun a (n : Note) => Nat.lcm a n.beat.den) 1
      [⟨4, 0, '1', 0, none⟩, ⟨13/3, 1, '2', 0, some 5⟩] = 3 := by decide +kernel
  have := lines_of_measure 2 [⟨4, 0, '1', 0, none⟩, ⟨13/3, 1, '2', 0, some 5⟩]
    (by decide +kernel) (by decide +kernel) (by decide +kernel) (by decide +kernel)
  rw [hq] at this
  exact this

/-! ### decode ∘ encode -/

/-- streams that `from_notes` writes faithfully: sorted by (player, beat, column) with pairwise distinct
positions, non-negative beats, columns below `cols`, known note characters; any denominators, any
number of players, gaps between measures and players allowed -/
structure Stream (ns : List Note) (cols : Nat) : Prop where
  cols_pos : 1 ≤ cols
  sorted : ns.Pairwise (fun a b => keyLe a.key b.key = true)
  distinct : (ns.map Note.key).Nodup
  nonneg : ∀ n ∈ ns, 0 ≤ n.beat
  column : ∀ n ∈ ns, n.column < cols
  known : ∀ n ∈ ns, isNoteChar n.ntype = true

theorem Stream.ok {ns : List Note} {cols : Nat} (h : Stream ns cols) : Spec.StreamOK cols ns :=
  ⟨Spec.strict_of_sorted_nodup h.sorted h.distinct, h.nonneg, h.column, h.known⟩

/-- the text written for a stream is the rendering of a well-formed chart that denotes the stream -/
theorem encode_well_formed (ns : List Note) (cols : Nat) (h : Stream ns cols) :
    ∃ c : Spec.DChart, encode ns cols = .ok (Spec.render c) ∧ Spec.WF c = true ∧ Spec.cols c = cols ∧
      Spec.notesOf c = ns := Spec.encode_is_render h.cols_pos h.ok

/-- reading back what was written gives the stream -/
theorem decode_encode (ns : List Note) (cols : Nat) (h : Stream ns cols) :
    (encode ns cols).bind (fun t => decodeWith cols t) = .ok ns := Spec.decode_encode h.cols_pos h.ok

/-- … also when the column count is recomputed from the text, as the constructor does -/
theorem decode_encode_columns (ns : List Note) (cols : Nat) (h : Stream ns cols) :
    (encode ns cols).bind decode = .ok (cols, ns) := Spec.decode_encode_full h.cols_pos h.ok

/-- a stream with two players (the first one absent: player 1 and 3), a skipped measure, a triplet
position, a keysound and a mine -/
example : Stream [⟨0, 1, '1', 1, none⟩, ⟨13/3, 0, '2', 1, some 5⟩, ⟨13/3, 2, 'M', 1, none⟩,
    ⟨17, 0, '4', 3, none⟩] 3 :=
  ⟨by decide, by decide +kernel, by decide +kernel, by decide +kernel, by decide +kernel, by decide +kernel⟩

end Simfile.C08
