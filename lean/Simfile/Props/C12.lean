/-
C12 — `TimingEngine.beat_at` (search on the state times: bisect_left for the WARP tag, bisect_right
otherwise; then `beats_until` rounded to the tick) against the declarative timeline.
Property theorems only; helper lemmas live in Simfile/Lemmas/EngineIndex.lean, EngineBeat*.lean,
EngineEval.lean, EngineRedundant*.lean (and the C11 library). Domain hypothesis: `Simfile.C11.Dom`.
`T(b,g)` below is `Spec.timeSpec td b g`, which is `timeAt td b g` on the domain (C11).
-/
import Simfile.Lemmas.EngineBeatInv
import Simfile.Lemmas.EngineEval
import Simfile.Lemmas.EngineRedundant
import Simfile.Lemmas.EngineWarpTag
import Simfile.Lemmas.EngineCloseA
import Simfile.Props.C11
namespace Simfile.C12
open Simfile C11

/-- 3. the state times never decrease (this is what justifies the repaired search on the times alone) -/
theorem times_monotone (td : TimingData) (h : Dom td) : ((states td).map (·.time)).Pairwise (· ≤ ·) := by
  rw [List.pairwise_map]
  exact times_sorted h

/-- 4. the algorithm before the repair (bisect on (time, tag) pairs in state order) depends on redundant
BPM rows: on timing data in the domain, two redundant `60 bpm` rows move its answer from beat 8 to
beat 5, while the repaired `beat_at` answers 8 both times -/
theorem old_algorithm_counterexample :
    let td₀ : TimingData := { bpms := [(0,60)], stops := [(5,1)], delays := [], warps := [(4,4)], offset := 0 }
    let td₁ : TimingData := { td₀ with bpms := [(0,60),(1,60),(2,60)] }
    Dom td₀ ∧ Dom td₁ ∧
    beatAtOld td₀ 5 .stop = 8 ∧ beatAtOld td₁ 5 .stop = 5 ∧ beatAt td₀ 5 .stop = 8 ∧ beatAt td₁ 5 .stop = 8 :=
  ⟨cexTd0_dom, cexTd1_dom, cex_old⟩

/-- 5. `beat_at` inverts `time_at` on every tick-aligned beat outside the warp union (negative
tick-aligned beats included) -/
theorem inverse_on_grid (td : TimingData) (h : Dom td) (b : Rat) (hb : onGrid b)
    (hw : Spec.inWarp td b = false) : beatAt td (timeAt td b .stop) .stop = b := by
  rw [time_refines_spec td h]
  exact beatAt_timeSpec h hb hw

/-- 6a. strictly inside a stop, whatever the tag, `beat_at` answers the beat of the stop -/
theorem inside_pause (td : TimingData) (h : Dom td) (b L : Rat) (hs : (b, L) ∈ td.stops) (t : Rat)
    (h1 : Spec.timeSpec td b .stop < t) (h2 : t < Spec.timeSpec td b .stop + L) (g : Tag) :
    beatAt td t g = b :=
  beatAt_pause h .stop .stopEnd (by simp) (Or.inl rfl) b L (ev_stop hs) (ev_stopEnd hs) t h1 h2 g

/-- 6b. the same inside a delay -/
theorem inside_pause_delay (td : TimingData) (h : Dom td) (b L : Rat) (hs : (b, L) ∈ td.delays) (t : Rat)
    (h1 : Spec.timeSpec td b .delay < t) (h2 : t < Spec.timeSpec td b .delay + L) (g : Tag) :
    beatAt td t g = b :=
  beatAt_pause h .delay .delayEnd (by simp) (Or.inr rfl) b L (ev_delay hs) (ev_delayEnd hs) t h1 h2 g

/-- 7. every answer of `beat_at` is tick-aligned -/
theorem tick_aligned (td : TimingData) (h : Dom td) (t : Rat) (g : Tag) : onGrid (beatAt td t g) :=
  beatAt_grid h t g

/-- 8. `beat_at` is monotone in the time, for each tag -/
theorem monotone (td : TimingData) (h : Dom td) (g : Tag) {t₁ t₂ : Rat} (ht : t₁ ≤ t₂) :
    beatAt td t₁ g ≤ beatAt td t₂ g :=
  beatAt_mono h g ht

/-! ### 9. redundant BPM rows: FALSE as stated (finding), with the counter-example and what does hold -/

/-- the full statement asked for: inserting the redundant row `(x, bpmOn td x)` changes no answer -/
def independent_of_redundant_bpm_statement : Prop :=
  ∀ (td : TimingData), Dom td → ∀ (x : Rat), onGrid x → 0 < x → (∀ e ∈ td.bpms, e.1 ≠ x) →
    ∀ (t : Rat) (g : Tag), beatAt (withBpm td x) t g = beatAt td t g

/-- FINDING: the statement is false in the exact model. `round_to_tick` rounds half ticks to the even
tick, and a redundant BPM row moves the origin of the rounding by an odd number of ticks: with a
single `60 bpm` row and offset 0, time `3/96` (one and a half ticks) is beat `2/48`; with the redundant
row `(1/48, 60)` it is beat `1/48`. -/
theorem independent_of_redundant_bpm_counterexample : ¬ independent_of_redundant_bpm_statement := by
  intro hst
  exact cex_tie_ne (hst tieTd tieTd_dom (1/48) tie_hyps.1 tie_hyps.2.1 tie_hyps.2.2 (3/96) .stop)

/-- the concrete values of the counter-example -/
theorem independent_of_redundant_bpm_counterexample_values :
    let td : TimingData := { bpms := [(0,60)], stops := [], delays := [], warps := [], offset := 0 }
    Dom td ∧ onGrid (1/48 : Rat) ∧ (0 : Rat) < 1/48 ∧ (∀ e ∈ td.bpms, e.1 ≠ 1/48) ∧
    beatAt td (3/96) .stop = 1/24 ∧ beatAt (withBpm td (1/48)) (3/96) .stop = 1/48 :=
  ⟨tieTd_dom, tie_hyps.1, tie_hyps.2.1, tie_hyps.2.2, cex_tie.1, cex_tie.2⟩

/-- what holds (partial; the extra hypothesis is `hnt`): the redundant row changes no answer at any time `t`
that is not an exact half tick away (in beats, at that state's BPM) from any state of the machine;
`halfTick u` is `∃ m : ℤ, u * 48 = m + 1/2`. Tight on the counter-example above (non-vacuity example in
Simfile/Lemmas/EngineRedundant.lean). -/
theorem independent_of_redundant_bpm_partial (td : TimingData) (h : Dom td) (x : Rat) (hx : onGrid x)
    (hpos : 0 < x) (hnew : ∀ e ∈ td.bpms, e.1 ≠ x) (t : Rat) (g : Tag)
    (hnt : ∀ s ∈ states td, ¬ halfTick ((t - s.time) / 60 * s.bpm)) :
    beatAt (withBpm td x) t g = beatAt td t g :=
  beatAt_withBpm_of_no_tie td h x hx hpos hnew t g hnt

/-- … and unconditionally the two answers are never more than one tick apart -/
theorem independent_of_redundant_bpm_near (td : TimingData) (h : Dom td) (x : Rat) (hx : onGrid x)
    (hpos : 0 < x) (hnew : ∀ e ∈ td.bpms, e.1 ≠ x) (t : Rat) (g : Tag) :
    |beatAt (withBpm td x) t g - beatAt td t g| ≤ 1 / 48 :=
  beatAt_withBpm_near td h x hx hpos hnew t g

/-- corollary: at the time of every tick-aligned beat outside the warps, the redundant row
changes nothing (both answers are that beat) -/
theorem independent_of_redundant_bpm_on_grid (td : TimingData) (h : Dom td) (x : Rat) (hx : onGrid x)
    (hpos : 0 < x) (hnew : ∀ e ∈ td.bpms, e.1 ≠ x) (b : Rat) (hb : onGrid b)
    (hw : Spec.inWarp td b = false) :
    beatAt (withBpm td x) (timeAt td b .stop) .stop = beatAt td (timeAt td b .stop) .stop := by
  have h' := dom_withBpm td h x hx hpos hnew
  rw [inverse_on_grid td h b hb hw, time_refines_spec td h, ← timeSpec_withBpm td h x hpos hnew]
  exact beatAt_timeSpec h' hb (by rw [inWarp_withBpm]; exact hw)

/-- corollary: strictly inside a stop the redundant row changes nothing either -/
theorem independent_of_redundant_bpm_in_pause (td : TimingData) (h : Dom td) (x : Rat) (hx : onGrid x)
    (hpos : 0 < x) (hnew : ∀ e ∈ td.bpms, e.1 ≠ x) (b L : Rat) (hs : (b, L) ∈ td.stops) (t : Rat)
    (h1 : Spec.timeSpec td b .stop < t) (h2 : t < Spec.timeSpec td b .stop + L) (g : Tag) :
    beatAt (withBpm td x) t g = beatAt td t g := by
  have h' := dom_withBpm td h x hx hpos hnew
  rw [inside_pause td h b L hs t h1 h2 g]
  apply inside_pause (withBpm td x) h' b L hs t
  · rw [timeSpec_withBpm td h x hpos hnew]; exact h1
  · rw [timeSpec_withBpm td h x hpos hnew]; exact h2

/-! ### non-vacuity -/

/-- a concrete input in the domain: a stop on beat 5 inside the warp [4, 8) -/
example : Dom cexTd0 := cexTd0_dom

/-- the hypotheses of `inverse_on_grid` are satisfiable: beat 1 is tick-aligned and outside the warp -/
example : onGrid (1 : Rat) ∧ Spec.inWarp cexTd0 1 = false :=
  ⟨⟨48, by rw [C14.ticks_is_48]; norm_num⟩, by decide +kernel⟩

/-- … and a negative tick-aligned beat -/
example : onGrid (-1/48 : Rat) ∧ Spec.inWarp cexTd0 (-1/48) = false :=
  ⟨⟨-1, by rw [C14.ticks_is_48]; norm_num⟩, by decide +kernel⟩

/-- the hypotheses of `inside_pause` are satisfiable: the stop `(5, 1)` and a time half way through -/
example : ((5 : Rat), (1 : Rat)) ∈ cexTd0.stops ∧
    Spec.timeSpec cexTd0 5 .stop < Spec.timeSpec cexTd0 5 .stop + 1/2 ∧
    Spec.timeSpec cexTd0 5 .stop + 1/2 < Spec.timeSpec cexTd0 5 .stop + 1 := by
  refine ⟨by simp [cexTd0], by linarith, by linarith⟩

/-- the time window of `inside_pause` / `inside_pause_delay` is never empty: lengths are positive in `Dom` -/
example (a L : Rat) (hL : 0 < L) : a < a + L / 2 ∧ a + L / 2 < a + L := ⟨by linarith, by linarith⟩

/-! ### B. the WARP tag (bisect_left) against the default tag (bisect_right) -/

/-- B1. at every time the WARP tag answers a beat at or before the answer of the default tag -/
theorem warp_le_stop (td : TimingData) (h : Dom td) (t : Rat) : beatAt td t .warp ≤ beatAt td t .stop :=
  beatAt_warp_le_stop h t

/-- B2 (general form, at the time of any timing event `e`, e.g. the start of a warp): the WARP tag answers
the least tick-aligned beat `b` with `t ≤ T(b, STOP_END)`, the default tag the greatest tick-aligned beat
`b` with `T(b, WARP) ≤ t` — the first and the last beat "present" at that time -/
theorem warp_tag_at_event_time (td : TimingData) (h : Dom td) (e : TEvent) (he : e ∈ events td) :
    IsLeast {b : Rat | onGrid b ∧ Spec.timeSpec td e.beat e.tag ≤ Spec.timeSpec td b .stopEnd}
      (beatAt td (Spec.timeSpec td e.beat e.tag) .warp) ∧
    IsGreatest {b : Rat | onGrid b ∧ Spec.timeSpec td b .warp ≤ Spec.timeSpec td e.beat e.tag}
      (beatAt td (Spec.timeSpec td e.beat e.tag) .stop) :=
  ⟨warp_at_event_time h he, stop_at_event_time h he⟩

/-- B2 on a coalesced warp segment `[ws, we)` (`segs td.warps` is `coalesceWarps` as pairs), at the time
`t = T(ws, WARP)` at which the stretch elapses: the WARP tag answers `ws`, the beat where the stretch
starts (also for `ws = 0`), and the default tag answers the furthest beat reached at that time — the
greatest tick-aligned `b` with `T(b, WARP) ≤ t` — which is at most `we` -/
theorem warp_tag (td : TimingData) (h : Dom td) (sg : Rat × Rat) (hsg : sg ∈ segs td.warps) :
    beatAt td (Spec.timeSpec td sg.1 .warp) .warp = sg.1 ∧
    IsGreatest {b : Rat | onGrid b ∧ Spec.timeSpec td b .warp ≤ Spec.timeSpec td sg.1 .warp}
      (beatAt td (Spec.timeSpec td sg.1 .warp) .stop) ∧
    beatAt td (Spec.timeSpec td sg.1 .warp) .stop ≤ sg.2 := by
  have hg := beatAt_stop_seg h hsg
  exact ⟨beatAt_warp_seg h hsg, hg, seg_hi_upper h hsg hg.1.1 hg.1.2⟩

/-- … and when no stop and no delay lies inside the segment the two answers are its two ends -/
theorem warp_tag_no_pause (td : TimingData) (h : Dom td) (sg : Rat × Rat) (hsg : sg ∈ segs td.warps)
    (hstops : ∀ e ∈ td.stops, ¬ (sg.1 ≤ e.1 ∧ e.1 < sg.2))
    (hdelays : ∀ e ∈ td.delays, ¬ (sg.1 ≤ e.1 ∧ e.1 < sg.2)) :
    beatAt td (Spec.timeSpec td sg.1 .warp) .warp = sg.1 ∧
    beatAt td (Spec.timeSpec td sg.1 .warp) .stop = sg.2 :=
  ⟨beatAt_warp_seg h hsg, beatAt_stop_seg_no_pause h hsg hstops hdelays⟩

/-- non-vacuity for B: the warp `(4, 4)` of the sample coalesces to the segment `[4, 8)`; without the stop on
beat 5 nothing pauses inside it -/
example : ((4 : Rat), (8 : Rat)) ∈ segs cexTd0.warps := by decide +kernel
example : Dom { cexTd0 with stops := [] } ∧ ((4 : Rat), (8 : Rat)) ∈ segs ({ cexTd0 with stops := [] }).warps ∧
    (∀ e ∈ ({ cexTd0 with stops := [] }).stops, ¬ ((4 : Rat) ≤ e.1 ∧ e.1 < 8)) ∧
    (∀ e ∈ ({ cexTd0 with stops := [] }).delays, ¬ ((4 : Rat) ≤ e.1 ∧ e.1 < 8)) :=
  ⟨{ cexTd0_dom with stops_pos := by simp, stops_sorted := by simp, stops_grid := by simp },
   by decide +kernel, by simp, by simp [cexTd0]⟩

/-! ### A. the answer is tick-aligned and its own time is close to the asked time -/

/-- A. with `r := beatAt td t g`: `r` is tick-aligned, and the asked time lies between the declarative time
of the first key on that beat, `T(r, WARP)`, and of the last one, `T(r, STOP_END)` (so any pause on that
beat widens the window), up to `H := halfTickTime td r = (1/96)·60 / min (bpmOn td r) (bpmOn td (r − 1/48))`:
half a tick's duration at the slower of the BPMs in force on the tick before `r` and on the tick from `r`
(before beat 0 both are the first BPM). For every time `t` (also before `-offset`) and every tag. -/
theorem close_and_aligned (td : TimingData) (h : Dom td) (t : Rat) (g : Tag) :
    onGrid (beatAt td t g) ∧
    Spec.timeSpec td (beatAt td t g) .warp - halfTickTime td (beatAt td t g) ≤ t ∧
    t ≤ Spec.timeSpec td (beatAt td t g) .stopEnd + halfTickTime td (beatAt td t g) :=
  ⟨beatAt_grid h t g, beatAt_close td h t g⟩

/-- what `halfTickTime` is -/
theorem halfTickTime_def (td : TimingData) (r : Rat) :
    halfTickTime td r = (1 / 96) * 60 / min (Spec.bpmOn td r) (Spec.bpmOn td (r - 1 / 48)) := rfl

end Simfile.C12
