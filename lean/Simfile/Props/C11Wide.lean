/-
C11 on a wider domain — the theorems of Simfile/Props/C11.lean re-proved from `Simfile.C11.Dom0`
(Simfile/Lemmas/EngineWideBasic.lean): `Dom` with stop and delay lengths `≥ 0` instead of `> 0`, and warp
lengths that round to `≥ 0` ticks instead of `≥ 1` tick. Rows such as `4.000=0.000` in STOPS, DELAYS or WARPS
are therefore inside the domain. Everything else is as in `Dom`: non-empty BPMs starting on beat 0 with
positive values; within each of bpms / stops / delays / warps the beats strictly increasing, non-negative
and tick-aligned; any offset; any coincidence of events of different kinds.
Also here: which tags matter for `time_at`, and any number of redundant BPM rows.
Property theorems only; helper lemmas live in Simfile/Lemmas/EngineWide*.lean (namespace `Simfile.Wide`).
-/
import Simfile.Lemmas.EngineWideEval
import Simfile.Props.C11
namespace Simfile.C11Wide
open Simfile C11 Wide

/-- the old domain is contained in the wider one, so every theorem below also holds on `Dom` -/
theorem dom_sub (td : TimingData) (h : Dom td) : Dom0 td := h.toDom0

/-- … strictly: an input with a zero-length stop, delay and warp is in `Dom0` and not in `Dom` -/
theorem dom_sub_strict :
    let td : TimingData := { bpms := [(0, 60)], stops := [(1, 0)], delays := [(2, 0)], warps := [(3, 0)], offset := 0 }
    Dom0 td ∧ ¬ Dom td := by
  refine ⟨dom0_of_check (by decide +kernel), fun h => ?_⟩
  have := h.stops_pos (1, 0) (by simp)
  simp at this

/-- C11 clause 1 ("the time reported for a beat equals minus the offset, plus sixty seconds over the BPM
in force for every beat that elapses outside warp segments, plus every stop and delay already passed") on
the wider domain: the engine's `time_at` is the declarative time for every beat (negative and off-grid beats
included) and every tag, also when stops, delays or warps have length zero -/
theorem time_refines_spec (td : TimingData) (h : Dom0 td) (b : Rat) (g : Tag) :
    timeAt td b g = Spec.timeSpec td b g :=
  Wide.timeAt_eq_spec h b g

/-- C11 clause "time never decreases as (beat, tag) increases", on the wider domain -/
theorem monotone (td : TimingData) (h : Dom0 td) {b₁ b₂ : Rat} {g₁ g₂ : Tag}
    (hk : Spec.keyLE (b₁, g₁) (b₂, g₂) = true) : timeAt td b₁ g₁ ≤ timeAt td b₂ g₂ := by
  rw [time_refines_spec td h, time_refines_spec td h]
  exact Wide.timeSpec_mono td h ((keyLE_iff _ _ _ _).1 hk)

/-- C11 clause "the BPM reported for a beat is the value of the last BPM change at or before it whatever
warps, stops or delays surround it", on the wider domain -/
theorem bpm_at (td : TimingData) (h : Dom0 td) (b : Rat) :
    bpmAt td b = if b < 0 then (td.bpms.headD (0, 0)).2 else Spec.bpmOn td b :=
  Wide.bpmAt_eq_spec h b

/-- a zero-length stop or delay changes no time: the END tag answers what the start tag answers (the
engine's two states STOP / STOP_END on that beat carry the same time) -/
theorem zero_length_pause (td : TimingData) (h : Dom0 td) (b : Rat) :
    ((b, 0) ∈ td.stops → timeAt td b .stopEnd = timeAt td b .stop) ∧
    ((b, 0) ∈ td.delays → timeAt td b .delayEnd = timeAt td b .delay) := by
  constructor
  · intro hm
    have hu : ∀ e ∈ td.stops, e.1 = b → e.2 = 0 := fun e he hb =>
      Wide.row_unique' h.stops_sorted he hb hm
    rw [time_refines_spec td h, time_refines_spec td h]
    exact Wide.timeSpec_zero_stop td b hu
  · intro hm
    have hu : ∀ e ∈ td.delays, e.1 = b → e.2 = 0 := fun e he hb =>
      Wide.row_unique' h.delays_sorted he hb hm
    rw [time_refines_spec td h, time_refines_spec td h]
    exact Wide.timeSpec_zero_delay td b hu

/-! ### which tags matter for `time_at` -/

/-- The tag of a `time_at` query matters only through two questions: with a delay on that very beat,
whether the tag is at or after DELAY_END in the tag order; with a stop on that very beat, whether it is
STOP_END (the last tag). Two tags that agree on these give the same time. -/
theorem timeAt_tag (td : TimingData) (h : Dom0 td) (b : Rat) (g g' : Tag)
    (hdel : (∃ e ∈ td.delays, e.1 = b) → (Tag.val .delayEnd ≤ g.val ↔ Tag.val .delayEnd ≤ g'.val))
    (hst : (∃ e ∈ td.stops, e.1 = b) → (g = .stopEnd ↔ g' = .stopEnd)) :
    timeAt td b g = timeAt td b g' := by
  rw [time_refines_spec td h, time_refines_spec td h]
  apply Wide.timeSpec_tag td b g g' hdel
  intro hs
  have := hst hs
  rw [Wide.stopEnd_le_iff, Wide.stopEnd_le_iff]
  exact this

/-- corollary: on a beat that carries no stop and no delay (in particular on a beat that carries no
event at all, and on every off-grid or negative beat) the tag is irrelevant — every tag answers what the
default tag STOP answers -/
theorem timeAt_tag_irrelevant (td : TimingData) (h : Dom0 td) (b : Rat) (g : Tag)
    (hs : ∀ e ∈ td.stops, e.1 ≠ b) (hd : ∀ e ∈ td.delays, e.1 ≠ b) :
    timeAt td b g = timeAt td b .stop :=
  timeAt_tag td h b g .stop (fun ⟨e, he, hb⟩ => absurd hb (hd e he)) (fun ⟨e, he, hb⟩ => absurd hb (hs e he))

/-- corollary: the tags before DELAY_END (WARP, WARP_END, BPM, DELAY) always agree with each other, and the
tags DELAY_END and STOP always agree with each other -/
theorem timeAt_tag_classes (td : TimingData) (h : Dom0 td) (b : Rat) :
    (∀ g, g.val < Tag.val .delayEnd → timeAt td b g = timeAt td b .warp) ∧
    timeAt td b .delayEnd = timeAt td b .stop := by
  constructor
  · intro g hg
    apply timeAt_tag td h b g .warp
    · intro _; simp only [val_delayEnd, val_warp] at hg ⊢; omega
    · intro _
      constructor
      · intro e; rw [e] at hg; simp at hg
      · intro e; cases e
  · apply timeAt_tag td h b .delayEnd .stop
    · intro _; simp
    · intro _; constructor <;> intro e <;> cases e

/-! ### redundant BPM rows -/

/-- C11 clause "inserting a BPM change that repeats the BPM already in force changes no answer", one row,
on the wider domain (`withBpm td x` is `td` with the row `(x, Spec.bpmOn td x)` inserted into `td.bpms` at
its sorted position, see `C11.withBpm_def`) -/
theorem redundant_bpm (td : TimingData) (h : Dom0 td) (x : Rat) (hx : onGrid x) (hpos : 0 < x)
    (hnew : ∀ e ∈ td.bpms, e.1 ≠ x) :
    (∀ b g, timeAt (withBpm td x) b g = timeAt td b g) ∧ (∀ b, bpmAt (withBpm td x) b = bpmAt td b) := by
  have h' := Wide.dom_withBpm td h x hx hpos hnew
  constructor
  · intro b g
    rw [time_refines_spec _ h', time_refines_spec _ h, Wide.timeSpec_withBpm td h x hpos hnew]
  · intro b
    rw [bpm_at _ h', bpm_at _ h, Wide.head_withBpm td h x hpos, Wide.bpmOn_withBpm td h x hpos hnew]

/-- The same clause for ANY number of redundant rows. `withBpms td xs` inserts, one after the other,
a row at each beat of `xs` that repeats the BPM in force there (`xs.foldl withBpm td`). The beats `xs` are
tick-aligned, positive, pairwise distinct and none is already a BPM change of `td`. Then:
the BPM list of the result is strictly sorted by beat and is a permutation of the old rows together with
the rows `(x, bpmOn td x)` for `x ∈ xs` — which determines it — every other field is unchanged, the result
is in the domain, and no `time_at` and no `bpm_at` answer changes. -/
theorem redundant_bpms (td : TimingData) (h : Dom0 td) (xs : List Rat) (hnd : xs.Nodup)
    (hxs : ∀ x ∈ xs, onGrid x ∧ 0 < x ∧ ∀ e ∈ td.bpms, e.1 ≠ x) :
    (∀ b g, timeAt (withBpms td xs) b g = timeAt td b g) ∧
    (∀ b, bpmAt (withBpms td xs) b = bpmAt td b) ∧
    Dom0 (withBpms td xs) ∧
    (withBpms td xs).bpms.Perm (td.bpms ++ xs.map fun x => (x, Spec.bpmOn td x)) ∧
    ((withBpms td xs).bpms.map (·.1)).Pairwise (· < ·) ∧
    (withBpms td xs).stops = td.stops ∧ (withBpms td xs).delays = td.delays ∧
    (withBpms td xs).warps = td.warps ∧ (withBpms td xs).offset = td.offset := by
  obtain ⟨h', i2, i3, i4, i5⟩ := withBpms_ok xs td h hxs hnd
  refine ⟨?_, ?_, h', i5, h'.bpms_sorted, withBpms_fields td xs⟩
  · intro b g
    rw [time_refines_spec _ h', time_refines_spec _ h, i2]
  · intro b
    rw [bpm_at _ h', bpm_at _ h, i4, i3]

/-- what `withBpms` is -/
theorem withBpms_def (td : TimingData) (xs : List Rat) : withBpms td xs = xs.foldl withBpm td := rfl

/-- … and on the old domain the result stays in the old domain -/
theorem redundant_bpms_dom (td : TimingData) (h : Dom td) (xs : List Rat) (hnd : xs.Nodup)
    (hxs : ∀ x ∈ xs, onGrid x ∧ 0 < x ∧ ∀ e ∈ td.bpms, e.1 ≠ x) : Dom (withBpms td xs) := by
  obtain ⟨_, _, h', _, _, e1, e2, e3, _⟩ := redundant_bpms td h.toDom0 xs hnd hxs
  exact { bpms_ne := h'.bpms_ne, bpms_head := h'.bpms_head, bpms_pos := h'.bpms_pos,
          bpms_sorted := h'.bpms_sorted, bpms_grid := h'.bpms_grid,
          stops_pos := by rw [e1]; exact h.stops_pos, stops_sorted := h'.stops_sorted, stops_grid := h'.stops_grid,
          delays_pos := by rw [e2]; exact h.delays_pos, delays_sorted := h'.delays_sorted,
          delays_grid := h'.delays_grid,
          warps_pos := by rw [e3]; exact h.warps_pos, warps_sorted := h'.warps_sorted, warps_grid := h'.warps_grid }

/-! ### non-vacuity -/

/-- Sample A (`Wide.sampleA`, Simfile/Lemmas/EngineWideEval.lean): a zero-length stop on a zero-length delay on
beat 1/2 INSIDE the warp `[0, 2)` (which starts on beat 0, with a BPM change inside); a zero-length stop on
beat 3 OUTSIDE every warp; a zero-length warp alone on beat 4; a zero-length warp under a positive stop on
beat 5; a zero-length delay on beat 6. It is in the wider domain. -/
example : Dom0 sampleA ∧ sampleA =
    { bpms := [(0, 120), (1, 240)], stops := [(1/2, 0), (3, 0), (5, 1/4)], delays := [(1/2, 0), (6, 0)],
      warps := [(0, 2), (4, 0), (5, 0)], offset := 1/100 } :=
  ⟨sampleA_dom0, rfl⟩

/-- Sample B: a zero-length warp and a zero-length stop on beat 0 — the events `(0, WARP)` and `(0, WARP_END)`
both sort before the key `(0, BPM)` of the engine's initial state, so the key list the engine bisects starts
with three entries out of order -/
example : sampleB = { bpms := [(0, 60)], stops := [(0, 0)], delays := [], warps := [(0, 0), (1, 0)], offset := 0 } ∧
    Dom0 sampleB ∧
    (events sampleB).map (fun e => (e.beat, e.tag)) =
      [(0, .warp), (0, .warpEnd), (0, .stop), (0, .stopEnd), (1, .warp), (1, .warpEnd)] := by
  refine ⟨rfl, sampleB_dom0, ?_⟩
  rw [events_sampleB]; decide +kernel

/-- the zero-length rows of sample A do contribute their pairs of events -/
example : (events sampleA).map (fun e => (e.beat, e.tag)) =
    [(0, .warp), (1/2, .delay), (1/2, .delayEnd), (1/2, .stop), (1/2, .stopEnd), (1, .bpm), (2, .warpEnd),
     (3, .stop), (3, .stopEnd), (4, .warp), (4, .warpEnd), (5, .warp), (5, .warpEnd), (5, .stop), (5, .stopEnd),
     (6, .delay), (6, .delayEnd)] := by
  rw [events_sampleA]; decide +kernel

/-- values of the engine on the samples, computed from the state list with the bisect loop (the Python
library returns the same numbers): the zero-length stop inside the warp (beat 1/2) and the one outside
(beat 3) add nothing under any tag -/
example : Tag.all.map (fun g => timeAt sampleA (1/2) g) = List.replicate 7 (-1/100 : Rat) ∧
    Tag.all.map (fun g => timeAt sampleA 3 g) = List.replicate 7 (6/25 : Rat) ∧
    Tag.all.map (fun g => timeAt sampleA 4 g) = List.replicate 7 (49/100 : Rat) ∧
    timeAt sampleA 5 .stop = 37/50 ∧ timeAt sampleA 5 .stopEnd = 99/100 ∧ timeAt sampleA 7 .stop = 149/100 :=
  values_sampleA

example : Tag.all.map (fun g => timeAt sampleB 0 g) = List.replicate 7 (0 : Rat) ∧ timeAt sampleB (-1) .warp = -1 ∧
    timeAt sampleB 1 .warp = 1 ∧ timeAt sampleB (3/2) .stop = 3/2 :=
  values_sampleB

/-- … and the same values from the declarative side -/
example : Spec.timeSpec sampleA (1/2) .stopEnd = -1/100 ∧ Spec.timeSpec sampleA 3 .stopEnd = 6/25 ∧
    Spec.timeSpec sampleA 5 .stopEnd = 99/100 ∧ Spec.timeSpec sampleA 7 .stop = 149/100 := by decide +kernel

/-- the hypotheses of `zero_length_pause` are satisfiable, inside and outside a warp -/
example : ((1/2 : Rat), (0 : Rat)) ∈ sampleA.stops ∧ ((3 : Rat), (0 : Rat)) ∈ sampleA.stops ∧
    ((1/2 : Rat), (0 : Rat)) ∈ sampleA.delays ∧ Spec.inWarp sampleA (1/2) = true ∧ Spec.inWarp sampleA 3 = false := by
  decide +kernel

/-- the hypothesis of `monotone` is satisfiable (and strict in the tag on equal beats) -/
example : Spec.keyLE (1/2, .delayEnd) (1/2, .stop) = true := by decide +kernel

/-- the hypotheses of `timeAt_tag_irrelevant` are satisfiable: beat 1 of sample A carries a BPM change only -/
example : (∀ e ∈ sampleA.stops, e.1 ≠ 1) ∧ (∀ e ∈ sampleA.delays, e.1 ≠ 1) := by decide +kernel

/-- the hypotheses of `timeAt_tag` are satisfiable non-trivially: beat 5 of sample A carries a stop; the tags
DELAY_END and STOP agree on both questions -/
example : (∃ e ∈ sampleA.stops, e.1 = 5) ∧ (Tag.val .delayEnd ≤ Tag.val .delayEnd ↔ Tag.val .delayEnd ≤ Tag.val .stop) ∧
    ((Tag.delayEnd = .stopEnd) ↔ (Tag.stop = .stopEnd)) := by decide +kernel

/-- the hypotheses of `redundant_bpms` are satisfiable: three rows, one inside the warp, given out of order -/
example : [(3 : Rat), 1/2, 7].Nodup ∧
    ∀ x ∈ [(3 : Rat), 1/2, 7], onGrid x ∧ 0 < x ∧ ∀ e ∈ sampleA.bpms, e.1 ≠ x := by
  refine ⟨by decide +kernel, ?_⟩
  intro x hx
  have h1 : onGridB x = true ∧ 0 < x ∧ ∀ e ∈ sampleA.bpms, e.1 ≠ x := by
    revert x; decide +kernel
  exact ⟨onGrid_of_B h1.1, h1.2⟩

/-- … and the rows it inserts there -/
example : (withBpms sampleA [3, 1/2, 7]).bpms = [(0, 120), (1/2, 120), (1, 240), (3, 240), (7, 240)] := by
  decide +kernel

end Simfile.C11Wide
