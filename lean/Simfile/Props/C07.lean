import Simfile.Spec.Notes
