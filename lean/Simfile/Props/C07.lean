/-
C07 — the note-data decoder reads every well-formed text as the notes it denotes, in strictly
increasing (player, beat, column) order. Property theorems only; lemmas live in Simfile/Lemmas/.
-/
import Simfile.Lemmas.NotesSpec
import Simfile.Lemmas.NotesDecode
namespace Simfile.C07
open Simfile

/-! ### 1. the four comparison operators are the lexicographic order on (player, beat, column) -/

theorem operators_agree (a b : Note) :
    (a.lt b = keyLt a.key b.key) ∧ (a.gt b = keyLt b.key a.key) ∧
    (a.le b = keyLe a.key b.key) ∧ (a.ge b = keyLe b.key a.key) := ⟨rfl, rfl, rfl, rfl⟩

/-- `keyLt` is the strict lexicographic order -/
theorem keyLt_lex (a b : Nat × Rat × Nat) :
    keyLt a b = true ↔ (a.1 < b.1 ∨ (a.1 = b.1 ∧ (a.2.1 < b.2.1 ∨ (a.2.1 = b.2.1 ∧ a.2.2 < b.2.2)))) :=
  keyLt_iff a b

/-- `keyLe` is its reflexive closure -/
theorem keyLe_eq_lt_or_eq (a b : Nat × Rat × Nat) : keyLe a b = (keyLt a b || decide (a = b)) :=
  keyLe_eq a b

theorem keyLt_irrefl (a : Nat × Rat × Nat) : keyLt a a = false := Simfile.keyLt_irrefl a

theorem keyLt_trans {a b c : Nat × Rat × Nat} (h1 : keyLt a b = true) (h2 : keyLt b c = true) :
    keyLt a c = true := Simfile.keyLt_trans h1 h2

theorem keyLt_total (a b : Nat × Rat × Nat) : keyLt a b = true ∨ a = b ∨ keyLt b a = true :=
  Simfile.keyLt_total a b

/-- consequently `<`/`>` and `≤`/`≥` on notes are each other's converses and `≤` is `¬ >` -/
theorem le_iff_not_gt (a b : Note) : a.le b = !(a.gt b) := by
  simp only [Note.le, Note.gt]
  rw [keyLe_eq]
  rcases Simfile.keyLt_total a.key b.key with h | h | h
  · simp [h, keyLt_asymm h]
  · simp [h, Simfile.keyLt_irrefl]
  · have h' := keyLt_asymm h
    have hne : a.key ≠ b.key := by
      intro e; rw [e, Simfile.keyLt_irrefl] at h; exact absurd h (by decide)
    simp [h, h', hne]

/-! ### 3. the beat of a note is 4·measure + 4·row/rows -/

/-- every note of measure `m` comes from a non-'0' cell in some row `l`, column `c`, and its beat is
`4*m + 4*l/rows` -/
theorem beat_formula (p m : Nat) (ms : Spec.DMeasure) (n : Note) (hn : n ∈ Spec.notesOfMeasure p m ms) :
    ∃ (l : Nat) (r : Spec.DRow) (c : Nat) (cell : Spec.Cell), ms.rows[l]? = some r ∧ r.cells[c]? = some cell ∧ cell.ch ≠ '0' ∧
      n.beat = 4 * (m : Rat) + 4 * (l : Rat) / (ms.rows.length : Rat) ∧
      n.player = p ∧ n.column = c ∧ n.ntype = cell.ch ∧ n.keysound = cell.ks := by
  rw [Spec.mem_notesOfMeasure] at hn
  obtain ⟨l, r, hl, hn⟩ := hn
  rw [Spec.mem_notesOfRow] at hn
  obtain ⟨c, cell, hc, hne, rfl⟩ := hn
  have hlt := (List.getElem?_eq_some_iff.mp hl).1
  exact ⟨l, r, c, cell, hl, hc, hne, Spec.rowBeat_eq _ _ _ (by omega), rfl, rfl, rfl, rfl⟩

/-- conversely every non-'0' cell gives its note -/
theorem beat_formula_conv (p m : Nat) (ms : Spec.DMeasure) (l c : Nat) (r : Spec.DRow) (cell : Spec.Cell)
    (hl : ms.rows[l]? = some r) (hc : r.cells[c]? = some cell) (hne : cell.ch ≠ '0') :
    { beat := 4 * (m : Rat) + 4 * (l : Rat) / (ms.rows.length : Rat), column := c, ntype := cell.ch,
      player := p, keysound := cell.ks : Note } ∈ Spec.notesOfMeasure p m ms := by
  rw [Spec.mem_notesOfMeasure]
  refine ⟨l, r, hl, ?_⟩
  rw [Spec.mem_notesOfRow]
  have hlt := (List.getElem?_eq_some_iff.mp hl).1
  exact ⟨c, cell, hc, hne, by rw [Spec.rowBeat_eq _ _ _ (by omega)]⟩

/-- the beats of measure `m` lie in `[4m, 4m+4)` -/
theorem beat_in_measure (p m : Nat) (ms : Spec.DMeasure) (n : Note) (hn : n ∈ Spec.notesOfMeasure p m ms) :
    4 * (m : Rat) ≤ n.beat ∧ n.beat < 4 * ((m : Rat) + 1) := (Spec.notesOfMeasure_attrs hn).2

/-! ### 2. notes come out strictly sorted by (player, beat, column) -/

/-- holds for every chart, well-formed or not -/
theorem strictly_sorted_all (c : Spec.DChart) :
    (Spec.notesOf c).Pairwise (fun a b => keyLt a.key b.key = true) := Spec.notesOf_sorted c

theorem strictly_sorted (c : Spec.DChart) (_h : Spec.WF c = true) :
    (Spec.notesOf c).Pairwise (fun a b => keyLt a.key b.key = true) := Spec.notesOf_sorted c

/-! ### 4, 5. the decoder on rendered charts -/

/-- a concrete chart: two players, three rows (odd) in the first measure, a keysounded note, CRLF and LF
line ends, blanks around rows and measures, a last row without line end -/
def sample : Spec.DChart :=
  [ [ { pre := [' ', '\n'],
        rows := [ { cells := [⟨'1', none⟩, ⟨'0', none⟩, ⟨'M', some 12⟩], lead := [' '], eol := ['\r', '\n'] },
                  { cells := [⟨'0', none⟩, ⟨'2', some 0⟩, ⟨'0', none⟩], trail := ['\t'] },
                  { cells := [⟨'0', none⟩, ⟨'3', none⟩, ⟨'L', none⟩], eol := [] } ],
        post := ['\n'] },
      { rows := [ { cells := [⟨'0', none⟩, ⟨'0', none⟩, ⟨'0', none⟩] } ] } ],
    [ { rows := [ { cells := [⟨'0', none⟩, ⟨'0', none⟩, ⟨'0', none⟩] },
                  { cells := [⟨'F', some 7⟩, ⟨'0', none⟩, ⟨'4', none⟩], eol := [] } ] } ] ]

example : Spec.WF sample = true := by decide
example : firstLineOk sample = true := by decide
example : String.ofList (Spec.render sample) = " \n 10M[12]\r\n02[0]0\t\n03L\n,000\n&000\nF[7]04" := by decide
example : (Spec.notesOf sample).length = 7 := by decide

/-- `decodeWith`, given the right column count, reads every well-formed text as the notes it denotes
(any decoration, any number of players, measures, rows, columns, keysounds) -/
theorem decodeWith_render (c : Spec.DChart) (h : Spec.WF c = true) :
    decodeWith (Spec.cols c) (Spec.render c) = .ok (Spec.notesOf c) := Spec.decodeWith_render c h

/-- the column count is read off the first line. Besides `WF` this needs `firstLineOk`: the first line
must end before the first '&' (see `wf_not_enough`). -/
theorem columns (c : Spec.DChart) (h : Spec.WF c = true) (hf : firstLineOk c = true) :
    getColumns (Spec.render c) = .ok (Spec.cols c) := Spec.getColumns_render c h hf

/-- main theorem -/
theorem decode_render (c : Spec.DChart) (h : Spec.WF c = true) (hf : firstLineOk c = true) :
    decode (Spec.render c) = .ok (Spec.cols c, Spec.notesOf c) := Spec.decode_render c h hf

/-- the statement with `WF` alone … -/
def decode_render_statement : Prop :=
  ∀ c : Spec.DChart, Spec.WF c = true → decode (Spec.render c) = .ok (Spec.cols c, Spec.notesOf c)

/-- … is false: "10&01\n" is well-formed for the spec (two players, one measure of one row each, the
first row without line end), but its first line is "10&01", so `getColumns` answers 5, not 2. -/
def wfCounterExample : Spec.DChart :=
  [[{ rows := [{ cells := [⟨'1', none⟩, ⟨'0', none⟩], eol := [] }] }],
   [{ rows := [{ cells := [⟨'0', none⟩, ⟨'1', none⟩] }] }]]

theorem wf_not_enough : ¬ decode_render_statement := by
  intro h
  have h1 := h wfCounterExample (by decide)
  have hg : getColumns (Spec.render wfCounterExample) = .ok 5 := by rfl
  have hc : Spec.cols wfCounterExample = 2 := by decide
  unfold decode at h1
  rw [hg, hc] at h1
  simp only [bind, Except.bind] at h1
  cases hd : decodeWith 5 (Spec.render wfCounterExample) with
  | error e => rw [hd] at h1; simp at h1
  | ok ns => rw [hd] at h1; simp [pure, Except.pure] at h1

example : Spec.WF wfCounterExample = true ∧ firstLineOk wfCounterExample = false ∧
    getColumns (Spec.render wfCounterExample) = .ok 5 ∧ Spec.cols wfCounterExample = 2 :=
  ⟨by decide, by decide, by rfl, by decide⟩

/-- the decoded notes of the sample chart -/
example : decode (Spec.render sample) = .ok (3, Spec.notesOf sample) :=
  decode_render sample (by decide) (by decide)

end Simfile.C07
