/-
C03: the loading rules, for ARBITRARY parameter lists.
Duplicate keys: `List.eraseDups` (core) keeps the first occurrence of each element
(`List.eraseDups_cons : (a :: as).eraseDups = a :: (as.filter (· != a)).eraseDups`).
-/
import Simfile.Model.Load
import Simfile.Lemmas.LoadRules
namespace Simfile.C03
open Simfile Simfile.O

example : [1, 2, 1, 3, 2].eraseDups = [1, 2, 3] := by decide

/-- the parameters that become simfile properties / charts of an SM simfile, in order -/
def propParams (ps : List Param) : List Param := ps.filter fun p => upper p.key ≠ kNOTES
def chartParams (ps : List Param) : List Param := ps.filter fun p => upper p.key = kNOTES

theorem propParams_eq (ps : List Param) : propParams ps = ps.filter fun p => !isNotes p := by
  unfold propParams
  apply List.filter_congr
  intro p _
  simp [isNotes]

theorem chartParams_eq (ps : List Param) : chartParams ps = ps.filter isNotes := rfl

/-- 8. the keys are the upper-cased keys of the non-NOTES parameters, first occurrences, in order -/
theorem sm_keys (ps : List Param) (s : SMSimfile) (h : loadSM ps = .ok s) :
    s.props.keys = ((propParams ps).map fun p => upper p.key).eraseDups ∧ s.props.WF := by
  obtain ⟨_, rfl⟩ := loadSM_ok ps s h
  rw [propParams_eq]
  exact ⟨keys_dictOf _, WF_dictOf _⟩

/-- 9. the value under a key is the loaded value of the LAST parameter with that upper-cased key
(`none` on the right-hand side iff there is no such parameter) -/
theorem sm_value (ps : List Param) (s : SMSimfile) (h : loadSM ps = .ok s) (k : Str) (hk : k ≠ kNOTES) :
    s.props.get? k = (ps.reverse.find? fun p => upper p.key == k).map (loadedValue k) := by
  obtain ⟨_, rfl⟩ := loadSM_ok ps s h
  simp only
  rw [get?_dictOf, find?_reverse_filter_nonNotes ps k hk]

/-- 9, explicit form: `p` followed only by parameters with other keys -/
theorem sm_value_last (ps : List Param) (s : SMSimfile) (h : loadSM ps = .ok s)
    (l1 l2 : List Param) (p : Param) (hps : ps = l1 ++ p :: l2) (hp : upper p.key ≠ kNOTES)
    (hl : ∀ q ∈ l2, upper q.key ≠ upper p.key) :
    s.props.get? (upper p.key) = some (loadedValue (upper p.key) p) := by
  rw [sm_value ps s h _ hp, hps,
    find?_reverse_last l1 l2 p _ (by simp) (fun q hq => by simpa using hl q hq)]
  rfl

/-- 10a. the only error of the SM loader: a NOTES parameter with fewer than six value components -/
theorem sm_charts_error (ps : List Param) :
    loadSM ps = .error .valueError ↔
      ∃ p ∈ ps, upper p.key = kNOTES ∧ p.comps.tail.length < T.smChartProperties.length := by
  have hany : ps.any badChart = true ↔
      ∃ p ∈ ps, upper p.key = kNOTES ∧ p.comps.tail.length < T.smChartProperties.length := by
    rw [List.any_eq_true]
    constructor
    · rintro ⟨p, hp, hb⟩
      simp only [badChart, isNotes, Bool.and_eq_true, decide_eq_true_eq] at hb
      exact ⟨p, hp, hb⟩
    · rintro ⟨p, hp, hb⟩
      exact ⟨p, hp, by simp only [badChart, isNotes, Bool.and_eq_true, decide_eq_true_eq]; exact hb⟩
  rw [← hany]
  rcases loadSM_cases ps with ⟨hb, he⟩ | ⟨hb, s, hs⟩
  · exact ⟨fun _ => hb, fun _ => he⟩
  · rw [hs, hb]
    exact ⟨fun e => (by cases e), fun e => (by cases e)⟩

theorem sm_error_or_ok (ps : List Param) : loadSM ps = .error .valueError ∨ ∃ s, loadSM ps = .ok s := by
  rcases loadSM_cases ps with ⟨_, he⟩ | ⟨_, hs⟩
  · exact Or.inl he
  · exact Or.inr hs

/-- 10b. otherwise the charts are the `smChartFromMsd` images of the NOTES parameters, in order -/
theorem sm_charts (ps : List Param) (s : SMSimfile) (h : loadSM ps = .ok s) :
    s.charts.map Except.ok = (chartParams ps).map fun p => smChartFromMsd p.comps.tail := by
  obtain ⟨hb, rfl⟩ := loadSM_ok ps s h
  rw [chartParams_eq]
  simp only [List.map_map]
  apply List.map_congr_left
  intro p hp
  have hp' := List.mem_filter.mp hp
  have : badChart p = false := by
    rw [List.any_eq_false] at hb
    simpa using hb p hp'.1
  simp only [badChart, hp'.2, Bool.true_and, decide_eq_false_iff_not] at this
  simp only [Function.comp, smChartFromMsd_eq, this, if_false]

/-- the properties of a loaded SM simfile are the dictionary of the non-NOTES parameters -/
theorem sm_props (ps : List Param) (s : SMSimfile) (h : loadSM ps = .ok s) :
    s.props = dictOf (propParams ps) := by
  obtain ⟨_, rfl⟩ := loadSM_ok ps s h
  rw [propParams_eq]

/-! ### the dictionary built from a run of parameters (`O.dictOf`: fold of `Dict.set` with the upper-cased
key and `loadedValue`): the same key/value rules wherever it is used -/

theorem dictOf_def (l : List Param) :
    dictOf l = l.foldl (fun d p => Dict.set d (upper p.key) (loadedValue (upper p.key) p)) ([] : Dict) := by
  unfold dictOf setAll
  rw [List.foldl_map]; rfl

theorem dictOf_keys (l : List Param) :
    (dictOf l).keys = (l.map fun p => upper p.key).eraseDups ∧ (dictOf l).WF :=
  ⟨keys_dictOf l, WF_dictOf l⟩

theorem dictOf_value (l : List Param) (k : Str) :
    (dictOf l).get? k = (l.reverse.find? fun p => upper p.key == k).map (loadedValue k) :=
  get?_dictOf l k

/-! ### 11. SSC -/

/-- every parameter list splits, in exactly one way (`ssc_props`/`ssc_charts` hold for EVERY such
splitting), into a NOTEDATA-free prefix followed by blocks made of a NOTEDATA parameter and a
NOTEDATA-free run -/
theorem ssc_decomp (ps : List Param) :
    ∃ pre nds gs, nds.length = gs.length ∧ ps = pre ++ (List.zipWith (· :: ·) nds gs).flatten ∧
      (∀ p ∈ pre, upper p.key ≠ kNOTEDATA) ∧ (∀ p ∈ nds, upper p.key = kNOTEDATA) ∧
      (∀ g ∈ gs, ∀ p ∈ g, upper p.key ≠ kNOTEDATA) := by
  obtain ⟨nds, hlen, hnd, hps⟩ := segs_decomp ps
  refine ⟨(segs ps).1, nds, (segs ps).2, hlen, hps, ?_, ?_, ?_⟩
  · intro p hp; simpa [isND] using segs_fst_noND ps p hp
  · intro p hp; simpa [isND] using hnd p hp
  · intro g hg p hp; simpa [isND] using segs_snd_noND ps g hg p hp

section
variable (pre nds : List Param) (gs : List (List Param)) (hlen : nds.length = gs.length)
  (hpre : ∀ p ∈ pre, upper p.key ≠ kNOTEDATA) (hnd : ∀ p ∈ nds, upper p.key = kNOTEDATA)
  (hg : ∀ g ∈ gs, ∀ p ∈ g, upper p.key ≠ kNOTEDATA)
include hlen hpre hnd hg

theorem segs_of_decomp : segs (pre ++ (List.zipWith (· :: ·) nds gs).flatten) = (pre, gs) :=
  segs_unique pre nds gs hlen (fun p hp => by simpa [isND] using hpre p hp)
    (fun p hp => by simpa [isND] using hnd p hp) (fun g hg' p hp => by simpa [isND] using hg g hg' p hp)

/-- the parameters before the first NOTEDATA are the simfile properties -/
theorem ssc_props :
    (loadSSC (pre ++ (List.zipWith (· :: ·) nds gs).flatten)).props = dictOf pre := by
  rw [loadSSC_closed, segs_of_decomp pre nds gs hlen hpre hnd hg]

/-- each NOTEDATA parameter opens a chart, made of the parameters up to the next NOTEDATA -/
theorem ssc_charts :
    (loadSSC (pre ++ (List.zipWith (· :: ·) nds gs).flatten)).charts = gs.map fun g => ⟨dictOf g⟩ := by
  rw [loadSSC_closed, segs_of_decomp pre nds gs hlen hpre hnd hg]

end

/-! ### 12. the format rule and the entry point -/

theorem format (name : Option Str) (ps : List Param) :
    formatOf name ps =
      match name with
      | none => firstKeyIsVersion ps
      | some n =>
        let suffix := (rpartition '.' (lower n)).2.2
        if suffix = ['s','s','c'] then true else if suffix = ['s','m'] then false
        else firstKeyIsVersion ps := by
  cases name with
  | none => rfl
  | some n =>
    by_cases h1 : (rpartition '.' (lower n)).2.2 = ['s','s','c']
    · simp [formatOf, suffixRule, h1]
    · by_cases h2 : (rpartition '.' (lower n)).2.2 = ['s','m']
      · simp [formatOf, suffixRule, h2]
      · simp [formatOf, suffixRule, h1, h2]

/-- `(rpartition '.' (lower n)).2.2` is the lower-cased text after the LAST '.' of the name … -/
theorem suffix_after_last_dot (a b : Str) (hb : '.' ∉ b) :
    (rpartition '.' (lower (a ++ '.' :: b))).2.2 = lower b := by
  rw [lower_append, lower_cons, show lowerChar '.' = '.' from by decide,
    rpartition_last '.' (lower a) (lower b) (dot_not_mem_lower b hb)]

/-- … and the whole lower-cased name when it has no '.' -/
theorem suffix_no_dot (n : Str) (h : '.' ∉ n) : (rpartition '.' (lower n)).2.2 = lower n := by
  rw [rpartition_of_not_mem '.' (lower n) (dot_not_mem_lower n h)]

theorem loadAs_lenient (b : Bool) (ps : List Param) :
    loadAs b ⟨ps, false⟩ = if b then .ok (.ssc (loadSSC ps)) else (loadSM ps).map .sm := by
  unfold loadAs
  cases b with
  | true => rfl
  | false =>
    simp only [Bool.false_eq_true, if_false]
    cases loadSM ps <;> rfl

/-- without the stray-text error the result depends on the parameters (and the format) only -/
theorem lenient_same (name : Option Str) (ps : List Param) :
    load name ⟨ps, false⟩ =
      if formatOf name ps then .ok (.ssc (loadSSC ps)) else (loadSM ps).map .sm := by
  rw [← loadAs_lenient]
  unfold load formatOf
  cases name.bind suffixRule with
  | some b => rfl
  | none => simp

/-- with the stray-text error and the SSC format the result is the parser's error -/
theorem strict_error (name : Option Str) (ps : List Param) (h : formatOf name ps = true) :
    load name ⟨ps, true⟩ = .error .msdParserError := by
  unfold load formatOf at *
  cases hn : name.bind suffixRule with
  | some b =>
    rw [hn] at h; simp only at h; subst h; rfl
  | none =>
    rw [hn] at h; simp only at h
    simp only [h]
    split
    · rfl
    · rfl

/-- with the stray-text error and the SM format, the loader's own error comes first -/
theorem strict_error_sm (name : Option Str) (ps : List Param) (h : formatOf name ps = false) :
    (loadSM ps = .error .valueError → load name ⟨ps, true⟩ = .error .valueError) ∧
    (∀ s, loadSM ps = .ok s → load name ⟨ps, true⟩ = .error .msdParserError) := by
  unfold load formatOf at *
  cases hn : name.bind suffixRule with
  | some b =>
    rw [hn] at h; simp only at h; subst h
    simp only [loadAs, Bool.false_eq_true, if_false, if_true]
    constructor
    · intro he; rw [he]; rfl
    · intro s hs; rw [hs]; rfl
  | none =>
    rw [hn] at h; simp only at h
    simp only [h]
    cases ps with
    | nil =>
      constructor
      · intro he; cases he
      · intro s _; simp
    | cons p ps =>
      simp only [List.isEmpty_cons, Bool.false_eq_true, false_and, if_false, loadAs, if_true]
      constructor
      · intro he; rw [he]; rfl
      · intro s hs; rw [hs]; rfl

/-! ### examples -/

/-- lower-case and duplicate keys, a key-only parameter, a multi-value key, a chart with extradata -/
def exPs : List Param :=
  [⟨["title".toList, "a".toList]⟩, ⟨["Artist".toList]⟩, ⟨["TITLE".toList, "b".toList, "c".toList]⟩,
   ⟨["notes".toList, "s".toList, " d ".toList, "x".toList, "1".toList, "r".toList, "\n00\n".toList,
     "extra".toList]⟩,
   ⟨["displaybpm".toList, "1".toList, "2".toList]⟩]

example : loadSM exPs = .ok
    ⟨[("TITLE".toList, some "b".toList), ("ARTIST".toList, none), ("DISPLAYBPM".toList, some "1:2".toList)],
     [⟨[("STEPSTYPE".toList, some "s".toList), ("DESCRIPTION".toList, some "d".toList),
        ("DIFFICULTY".toList, some "x".toList), ("METER".toList, some "1".toList),
        ("RADARVALUES".toList, some "r".toList), ("NOTES".toList, some "00".toList)],
       some ["extra".toList]⟩]⟩ := by decide +kernel

example : loadSM [⟨["notes".toList, "a".toList, "b".toList]⟩] = .error .valueError := by decide +kernel

def exSSCPs : List Param :=
  [⟨["version".toList, "0.83".toList]⟩, ⟨["title".toList, "a".toList]⟩, ⟨["NoteData".toList, [], "x".toList]⟩,
   ⟨["stepstype".toList, "x".toList]⟩, ⟨["notes".toList, "0".toList]⟩, ⟨["credit".toList, "c".toList]⟩,
   ⟨["NOTEDATA".toList]⟩, ⟨["NOTES2".toList, "1".toList]⟩, ⟨["NOTES2".toList, "2".toList]⟩]

example : loadSSC exSSCPs =
    ⟨[("VERSION".toList, some "0.83".toList), ("TITLE".toList, some "a".toList)],
     [⟨[("STEPSTYPE".toList, some "x".toList), ("NOTES".toList, some "0".toList),
        ("CREDIT".toList, some "c".toList)]⟩,
      ⟨[("NOTES2".toList, some "2".toList)]⟩]⟩ := by decide +kernel

example : formatOf (some "Song.A.SsC".toList) [] = true := by decide +kernel
example : formatOf (some "song.txt".toList) exSSCPs = true := by decide +kernel
example : formatOf none exPs = false := by decide +kernel

end Simfile.C03
