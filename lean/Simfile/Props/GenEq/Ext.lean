/- extensions.match as generated from simfile/_private/extensions.py equals the model's extMatch (C19, C20). -/
import Simfile.Gen.Code.Ext
namespace Simfile.GenEq
open Simfile

theorem forFirst_ite_eq_find {α} (p : α → Bool) (l : List α) :
    Py.forFirst l (fun x => if p x = true then some (some x) else none) none = l.find? p := by
  induction l with
  | nil => rfl
  | cons a l ih =>
    rw [Py.forFirst_cons, List.find?_cons]
    by_cases h : p a = true <;> simp_all

theorem extMatch_eq (path : Str) (exts : List Str) : GenCode.extMatch path exts = Simfile.extMatch path exts := by
  unfold GenCode.extMatch Simfile.extMatch
  exact forFirst_ite_eq_find (fun e => endsWith (lower path) e) exts

end Simfile.GenEq
