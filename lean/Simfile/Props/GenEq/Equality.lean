/- `BaseSimfile.__eq__` as generated from simfile/base.py equals the model's step-by-step `simfileEq` (C18). -/
import Simfile.Gen.Code.Equality
namespace Simfile.GenEq
open Simfile

theorem simfileEq_eq (a b : EqObj) : GenCode.simfileEq a b = Simfile.simfileEq a b := by
  unfold GenCode.simfileEq Simfile.simfileEq
  simp only [Bool.decide_and, Bool.decide_eq_true, Bool.and_assoc]

end Simfile.GenEq
