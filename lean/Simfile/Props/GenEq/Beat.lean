/- Beat.round_to_tick as generated from simfile/timing/__init__.py equals the model's roundToTick (C14). -/
import Simfile.Gen.Code.Beat
namespace Simfile.GenEq
open Simfile

theorem roundToTick_eq (x : Rat) : GenCode.roundToTick x = Simfile.roundToTick x := by
  unfold GenCode.roundToTick Simfile.roundToTick ticks
  first | rfl | simp

end Simfile.GenEq
