/- `timing_source` and `TimingData.__init__` as generated from simfile/timing/_private/timingsource.py and
simfile/timing/__init__.py equal the model's timingSource and timingData (C15, C14). -/
import Simfile.Gen.Code.Source
namespace Simfile.GenEq
open Simfile

theorem timingSource_eq (sim : Src) (chart : Option Src) :
    GenCode.timingSource sim chart = (Simfile.timingSource sim chart).map some := by
  unfold GenCode.timingSource Simfile.timingSource Simfile.useChart Py.pyFloat Py.strOr Py.chartIs Py.chartDict versionOK
  cases hk : sim.kind <;> cases chart with
  | none => simp [Except.map, bind, Except.bind, pure, Except.pure]
  | some c =>
    by_cases hc : c.kind = Kind.sscChart
    all_goals simp [hc, Except.map, bind, Except.bind, pure, Except.pure]
    all_goals (
      generalize parseDecimal (match attrGet Kind.sscSimfile sim.d ['v', 'e', 'r', 's', 'i', 'o', 'n'] with
            | some (x :: xs) => x :: xs
            | _ => ['0']) = p
      cases p with
      | none => simp
      | some q =>
        simp only []
        by_cases h1 : (↑T.sscVersionSplitTimingNum : Rat) / ↑T.sscVersionSplitTimingDen ≤ q
        · by_cases h2 : (T.chartTimingProperties.any fun timing_prop =>
              truthy (attrGet Kind.sscChart c.d (chartAttrOfKey timing_prop))) = true
          · have h2' := h2
            simp only [List.any_eq_true] at h2'
            simp [h1, h2, h2']
          · have h2' := h2
            simp only [List.any_eq_true] at h2'
            simp [h1, h2, h2']
        · simp [h1])

theorem timingDataInit_eq (sim : Src) (chart : Option Src) :
    GenCode.timingDataInit sim chart = Simfile.timingData sim chart := by
  unfold GenCode.timingDataInit Simfile.timingData
  rw [timingSource_eq]
  cases h : Simfile.timingSource sim chart with
  | error e => simp [Except.map, bind, Except.bind]
  | ok s =>
    simp only [Except.map, bind, Except.bind, Option.getD, pure, Except.pure]
    congr 2
    unfold Py.decimalOf Py.strOrInt
    cases attrGet s.kind s.d ['o','f','f','s','e','t'] with
    | none => simp
    | some v => cases v <;> simp

end Simfile.GenEq
