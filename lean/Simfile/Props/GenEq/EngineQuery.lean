/-
The query methods of TimingEngine as generated from the Python source equal the model's (for every engine state, beat,
time and tag): the index arithmetic `max(0, bisect(...) - 1)` on Python integers is the model's truncated `i - 1`.
-/
import Simfile.Gen.Code.EngineQuery
import Simfile.Props.GenEq.Engine
set_option linter.unusedTactic false
set_option linter.unreachableTactic false
namespace Simfile.GenEq
open Simfile

theorem clampIndex (n : Nat) : Int.toNat (max 0 (Int.ofNat n - 1)) = n - 1 := by
  simp only [Int.ofNat_eq_natCast]; omega

theorem timeAt_eq (e : Engine) (b : Rat) (g : Tag) : GenCode.timeAt e b g = e.timeAt b g := by
  unfold GenCode.timeAt Engine.timeAt Engine.priorState
  simp only [clampIndex, timeUntil_eq]

theorem bpmAt_eq (e : Engine) (b : Rat) : GenCode.bpmAt e b = e.bpmAt b := by
  unfold GenCode.bpmAt Engine.bpmAt Engine.priorState
  simp only [clampIndex]
  have h : e.td.bpms.getD 0 ((0 : Rat), (0 : Rat)) = e.td.bpms.headD (0, 0) := by cases e.td.bpms <;> simp
  all_goals first | rfl | (simp only [h]) | grind

theorem hittable_eq (e : Engine) (b : Rat) : GenCode.hittable e b = e.hittable b := by
  unfold GenCode.hittable Engine.hittable Engine.priorState
  simp only [clampIndex]
  all_goals first | rfl | grind | simp_all

theorem beatAt_eq (e : Engine) (t : Rat) (g : Tag) : GenCode.beatAt e t g = e.beatAt t g := by
  unfold GenCode.beatAt Engine.beatAt Engine.priorByTime
  simp only [beatsUntil_eq]
  by_cases h : g = Tag.warp <;> simp only [h, if_true, if_false, clampIndex]
  all_goals first | rfl | grind | simp_all

end Simfile.GenEq
