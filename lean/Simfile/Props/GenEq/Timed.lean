/- time_notes as generated from simfile/notes/timed.py equals the model's timeNotes (C13): the generator's
`for … yield` is a flatMap of lists of length ≤ 1, the model's is a filterMap. -/
import Simfile.Gen.Code.Timed
import Simfile.Props.GenEq.EngineQuery
set_option linter.unusedTactic false
set_option linter.unreachableTactic false
namespace Simfile.GenEq
open Simfile

theorem flatMap_eq_filterMap {α β} (f : α → List β) (g : α → Option β) (l : List α)
    (h : ∀ a, f a = (g a).toList) : l.flatMap f = l.filterMap g := by
  induction l with
  | nil => rfl
  | cons a l ih =>
    simp only [List.flatMap_cons, List.filterMap_cons, h a, ih]
    cases g a <;> simp

theorem timeNotes_eq (notes : List Note) (td : TimingData) (opt : Unhittable) :
    GenCode.timeNotes notes td opt = Simfile.timeNotes td opt notes := by
  unfold GenCode.timeNotes Simfile.timeNotes
  simp only [List.append_nil, hittable_eq, timeAt_eq]
  apply flatMap_eq_filterMap
  intro n
  by_cases h1 : (mkEngine td).hittable n.beat = true <;> by_cases h2 : opt = Unhittable.keepNote <;>
    by_cases h3 : opt = Unhittable.tapToFake <;> by_cases h4 : n.ntype = cTAP <;>
    simp_all [Engine.timeAt]

end Simfile.GenEq
