/-
The SSC serializer as generated from simfile/base.py and simfile/ssc.py equals the model's serSSC (C02, C04, C05) for every
simfile whose charts all have their note data — the case in which the Python code does not raise KeyError (`self[notes_key]`).
-/
import Simfile.Gen.Code.SerializeSSC
import Simfile.Props.GenEq.Basic
namespace Simfile.GenEq
open Simfile

/-- the chart has its note data item (under NOTES, or NOTES2 when only that is present) -/
def hasNotes (c : SSCChart) : Prop := (c.props.get? (notesKey c)).isSome

theorem notesKey_gen (c : SSCChart) :
    (if (¬ (c.props.contains ['N','O','T','E','S'] = true)) ∧ (c.props.contains ['N','O','T','E','S','2'] = true)
     then ['N','O','T','E','S','2'] else ['N','O','T','E','S']) = notesKey c := by
  unfold notesKey kNOTES kNOTES2
  by_cases h1 : c.props.contains ['N','O','T','E','S'] = true <;>
    by_cases h2 : c.props.contains ['N','O','T','E','S','2'] = true <;> simp [h1, h2]

theorem filterItems (nk : Str) (d : Dict) :
    d.flatMap (fun x => if x.1 = nk then [] else [Item.param (valueParam x.1 x.2), Item.text ['\n']]) =
      serProps (d.filter fun kv => !decide (kv.1 = nk)) := by
  unfold serProps
  induction d with
  | nil => rfl
  | cons a d ih =>
    by_cases h : a.1 = nk <;> simp [List.flatMap_cons, h, ih, nl]

theorem serSSCChart_eq (c : SSCChart) (h : hasNotes c) : Simfile.serSSCChart c = .ok (GenCode.serSSCChart c) := by
  unfold Simfile.serSSCChart GenCode.serSSCChart
  unfold hasNotes at h
  simp only [notesKey_gen, valueItems, List.append_nil]
  cases hv : c.props.get? (notesKey c) with
  | none => simp [hv] at h
  | some v =>
    simp only [Option.getD_some]
    have hf := filterItems (notesKey c) c.props
    cases v with
    | none => simp [kNOTEDATA, nl]; exact hf.symm
    | some notes => simp [kNOTEDATA, nl]; exact hf.symm

theorem serSSCCharts_eq (cs : List SSCChart) (h : ∀ c ∈ cs, hasNotes c) :
    (cs.mapM fun c => do let is ← Simfile.serSSCChart c; pure (is ++ [Item.text nl])) =
      (.ok (cs.map fun c => GenCode.serSSCChart c ++ [Item.text nl]) : Except Err _) := by
  induction cs with
  | nil => rfl
  | cons c cs ih =>
    have hc := serSSCChart_eq c (h c (List.mem_cons_self ..))
    have ih' := ih (fun x hx => h x (List.mem_cons_of_mem _ hx))
    simp only [List.mapM_cons, hc, ih', List.map_cons]
    rfl

theorem serSSC_eq (s : SSCSimfile) (h : ∀ c ∈ s.charts, hasNotes c) : Simfile.serSSC s = .ok (GenCode.serSSC s) := by
  unfold Simfile.serSSC GenCode.serSSC GenCode.serSSCCharts
  rw [serSSCCharts_eq s.charts h]
  simp only [valueItems, List.append_nil, List.append_assoc, serProps, nl]
  show (Except.ok _ : Except Err _) = _
  simp only [List.flatMap]
  all_goals first | rfl | (congr 1)

end Simfile.GenEq
