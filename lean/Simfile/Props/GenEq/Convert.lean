/- convert._should_copy_property as generated from simfile/convert.py equals the model's shouldCopy (C16, C17). -/
import Simfile.Gen.Code.Convert
namespace Simfile.GenEq
open Simfile

theorem forFirst_ite_find {α β} (p : α → Bool) (f : α → β) (rest : β) (l : List α) :
    Py.forFirst l (fun x => if p x = true then some (f x) else none) rest =
      match l.find? p with | some x => f x | none => rest := by
  induction l with
  | nil => rfl
  | cons a l ih =>
    rw [Py.forFirst_cons, List.find?_cons]
    by_cases h : p a = true <;> simp_all

theorem shouldCopy_eq (k : Str) (v : Option Str) (invalid : List (Nat × List Str)) (beh : List (Nat × Nat)) :
    GenCode.shouldCopy k v invalid beh = Simfile.shouldCopy k v invalid beh := by
  unfold GenCode.shouldCopy Simfile.shouldCopy
  induction invalid with
  | nil => rfl
  | cons a l ih =>
    rw [Py.forFirst_cons, List.find?_cons]
    obtain ⟨ip, props⟩ := a
    by_cases h : k ∈ props
    · have hc : props.contains k = true := by simpa using h
      simp only [h, hc, if_true]
      cases hb : List.find? (fun x => decide (x.1 = ip)) beh with
      | none =>
        simp only [hb, Option.map_none, Option.getD_none]
        generalize (((T.invalidPropertyBehaviors.find? (fun (x : Nat × Nat) => decide (x.1 = ip))).map (fun x => x.2)).getD 0) = D
        by_cases h1 : D = bCOPY
        · simp only [h1, if_true]
        · simp only [h1, if_false]
          by_cases h2 : D = bIGNORE
          · simp only [h2, if_true]
          · simp only [h2, if_false]
            by_cases h3 : D = bUNLESS
            · simp only [h3, if_true]
              by_cases h4 : strip (v.getD []) = defaultProperty k <;> simp only [h4, if_true, if_false]
            · simp only [h3, if_false]
      | some val =>
        simp only [hb, Option.map_some, Option.getD_some]
        by_cases h1 : val.2 = bCOPY
        · simp only [h1, if_true]
        · simp only [h1, if_false]
          by_cases h2 : val.2 = bIGNORE
          · simp only [h2, if_true]
          · simp only [h2, if_false]
            by_cases h3 : val.2 = bUNLESS
            · simp only [h3, if_true]
              by_cases h4 : strip (v.getD []) = defaultProperty k <;> simp only [h4, if_true, if_false]
            · simp only [h3, if_false]
    · have hc : props.contains k = false := by simpa using h
      simp only [h, hc, if_false]
      exact ih

end Simfile.GenEq
