/- Note's ordering operators as generated from simfile/notes/__init__.py equal the model's (C07). -/
import Simfile.Gen.Code.NoteOrder
namespace Simfile.GenEq
open Simfile

theorem comparable_eq (n : Note) : GenCode.comparable n = n.key := by
  unfold GenCode.comparable Note.key; rfl

theorem noteLt_eq (a b : Note) : GenCode.noteLt a b = a.lt b := by
  unfold GenCode.noteLt Note.lt; simp only [comparable_eq]; all_goals first | rfl | simp | grind
theorem noteGt_eq (a b : Note) : GenCode.noteGt a b = a.gt b := by
  unfold GenCode.noteGt Note.gt; simp only [comparable_eq]; all_goals first | rfl | simp | grind
theorem noteLe_eq (a b : Note) : GenCode.noteLe a b = a.le b := by
  unfold GenCode.noteLe Note.le; simp only [comparable_eq]; all_goals first | rfl | simp | grind
theorem noteGe_eq (a b : Note) : GenCode.noteGe a b = a.ge b := by
  unfold GenCode.noteGe Note.ge; simp only [comparable_eq]; all_goals first | rfl | simp | grind

end Simfile.GenEq
