/- item_property's `_name_or_alias` and the SM chart's guarded `__setitem__` / `__getitem__` as generated from
simfile/_private/property.py and simfile/sm.py equal the model's nameOrAlias, setItem and the getKey step of vstep (C18). -/
import Simfile.Gen.Code.Views
namespace Simfile.GenEq
open Simfile

theorem nameOrAlias_eq (name : Str) (alias : Option Str) (d : Dict) :
    GenCode.nameOrAlias name alias d = Simfile.nameOrAlias d name alias := by
  unfold GenCode.nameOrAlias Simfile.nameOrAlias
  cases alias with
  | none => simp
  | some a =>
    by_cases h1 : Dict.contains d name = true <;> by_cases h2 : Dict.contains d a = true <;> simp [h1, h2]

theorem smChartSetItem_eq (d : Dict) (k v : Str) : GenCode.smChartSetItem d k v = Simfile.setItem true d k (some v) := by
  unfold GenCode.smChartSetItem Simfile.setItem
  by_cases h : k ∈ T.smChartProperties
  · have : T.smChartProperties.contains k = true := by simpa using h
    simp [h, this]
  · have : T.smChartProperties.contains k = false := by simpa using h
    simp [h, this]

theorem smChartGetItem_eq (d : Dict) (k : Str) :
    (match GenCode.smChartGetItem d k with
     | .ok v => (d, VOut.value v)
     | .error _ => (d, VOut.keyError)) = vstep .smChart d (.getKey k) := by
  unfold GenCode.smChartGetItem vstep
  by_cases h : k ∈ T.smChartProperties
  · have : T.smChartProperties.contains k = true := by simpa using h
    simp [h, this]
  · have : T.smChartProperties.contains k = false := by simpa using h
    simp [h, this]

end Simfile.GenEq
