/- TimingEngine._coalesce_warps as generated from simfile/timing/engine.py equals the model's coalesceWarps (C11–C13): the
Python code appends to two lists and rewrites the last end; the model keeps the lists reversed and conses. -/
import Simfile.Gen.Code.Coalesce
namespace Simfile.GenEq
open Simfile

/-- the loop body as generated (state: warp_starts, warp_ends in order) -/
def coStep (st : List Rat × List Rat) (w : Rat × Rat) : List Rat × List Rat :=
  let warp_end := w.1 + roundToTick w.2
  if st.1 ≠ [] then
    (let last_warp_end := st.2.getLast?.getD 0
     if w.1 ≤ last_warp_end then
       (if warp_end > last_warp_end then (st.1, st.2.dropLast ++ [warp_end]) else (st.1, st.2))
     else (st.1 ++ [w.1], st.2 ++ [warp_end]))
  else (st.1 ++ [w.1], st.2 ++ [warp_end])

/-- the model's loop body (state: both lists reversed) -/
def coModelStep (acc : List Rat × List Rat) (w : Rat × Rat) : List Rat × List Rat :=
  let (starts, ends) := acc
  let wEnd := w.1 + roundToTick w.2
  match ends with
  | [] => (w.1 :: starts, wEnd :: ends)
  | lastEnd :: endsTl =>
    if w.1 ≤ lastEnd then
      (if wEnd > lastEnd then (starts, wEnd :: endsTl) else (starts, ends))
    else (w.1 :: starts, wEnd :: ends)

theorem coStep_sim (s e : List Rat) (w : Rat × Rat) (hl : s.length = e.length) :
    ((coStep (s, e) w).1.reverse, (coStep (s, e) w).2.reverse) = coModelStep (s.reverse, e.reverse) w ∧
    (coStep (s, e) w).1.length = (coStep (s, e) w).2.length := by
  unfold coStep coModelStep
  rcases List.eq_nil_or_concat e with he | ⟨e', x, he⟩
  · subst he
    have hs : s = [] := List.length_eq_zero_iff.mp (by simpa using hl)
    subst hs
    simp
  · subst he
    have hs : s ≠ [] := by
      intro h; subst h; simp at hl
    simp only [ne_eq, hs, not_false_eq_true, if_true, List.getLast?_concat, Option.getD_some, List.reverse_concat,
      List.dropLast_concat]
    by_cases h1 : w.1 ≤ x
    · by_cases h2 : w.1 + roundToTick w.2 > x <;> simp [h1, h2] <;> simpa using hl
    · simp [h1]; simpa using hl

theorem coFold_sim (ws : List (Rat × Rat)) (s e : List Rat) (hl : s.length = e.length) :
    ((ws.foldl coStep (s, e)).1.reverse, (ws.foldl coStep (s, e)).2.reverse) = ws.foldl coModelStep (s.reverse, e.reverse) := by
  induction ws generalizing s e with
  | nil => rfl
  | cons w ws ih =>
    simp only [List.foldl_cons]
    obtain ⟨h1, h2⟩ := coStep_sim s e w hl
    have := ih (coStep (s, e) w).1 (coStep (s, e) w).2 h2
    rw [this, h1]

theorem coalesceWarps_eq (warps : List (Rat × Rat)) :
    GenCode.coalesceWarps warps = [((Simfile.coalesceWarps warps).1, Tag.warp), ((Simfile.coalesceWarps warps).2, Tag.warpEnd)] := by
  have hgen : GenCode.coalesceWarps warps =
      [((warps.foldl coStep ([], [])).1, Tag.warp), ((warps.foldl coStep ([], [])).2, Tag.warpEnd)] := rfl
  have hmod : Simfile.coalesceWarps warps =
      ((warps.foldl coModelStep ([], [])).1.reverse, (warps.foldl coModelStep ([], [])).2.reverse) := rfl
  have h := coFold_sim warps [] [] rfl
  simp only [List.reverse_nil] at h
  rw [hgen, hmod, ← h]
  simp

end Simfile.GenEq
