/-
The SM serializer as generated from simfile/base.py and simfile/sm.py (BaseSimfile.serialize, BaseCharts.serialize,
SMChart.serialize) equals the model's serSM — the function the C01/C04/C05 round-trip theorems are about.
-/
import Simfile.Gen.Code.Serialize
import Simfile.Props.GenEq.Basic
namespace Simfile.GenEq
open Simfile

theorem smKeys : smKey 0 = ['S','T','E','P','S','T','Y','P','E'] ∧ smKey 1 = ['D','E','S','C','R','I','P','T','I','O','N'] ∧
    smKey 2 = ['D','I','F','F','I','C','U','L','T','Y'] ∧ smKey 3 = ['M','E','T','E','R'] ∧
    smKey 4 = ['R','A','D','A','R','V','A','L','U','E','S'] ∧ smKey 5 = ['N','O','T','E','S'] := by decide

theorem serSMChart_eq (c : SMChart) : GenCode.serSMChart c = [Item.param (smChartParam c)] := by
  obtain ⟨k0, k1, k2, k3, k4, k5⟩ := smKeys
  unfold GenCode.serSMChart smChartParam
  simp only [k0, k1, k2, k3, k4, k5, smIndent, nl, List.replicate, List.append_nil, List.append_assoc]
  try rfl

theorem serSMCharts_eq (cs : List SMChart) :
    GenCode.serSMCharts cs = cs.flatMap fun c => [Item.param (smChartParam c), Item.text nl] := by
  unfold GenCode.serSMCharts
  simp only [serSMChart_eq, List.append_nil, nl]
  rfl

theorem serSM_eq (s : SMSimfile) : GenCode.serSM s = Simfile.serSM s := by
  unfold GenCode.serSM Simfile.serSM serProps
  simp only [serSMCharts_eq, List.append_nil, List.append_assoc]
  simp only [valueItems]
  all_goals first | rfl | (simp only [List.append_assoc]; done) | grind

end Simfile.GenEq
