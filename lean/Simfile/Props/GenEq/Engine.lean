/-
The definitions generated from the Python source of simfile/timing/engine.py (Gen/Code/Engine.lean) equal the
hand-written model functions the C11–C13 theorems are about — for all arguments.

The proof scripts are written to survive rewrites of the Python source that keep its meaning: after unfolding, a fast
path for today's shape, then a generic path (split on every tag and flag — the decisions range over finite enumerations —
and let `simp`/`grind` close the arithmetic).
-/
import Simfile.Gen.Code.Engine
import Simfile.Lemmas.BeatMoreRound
set_option linter.unusedTactic false
set_option linter.unreachableTactic false
set_option linter.unusedSimpArgs false
namespace Simfile.GenEq
open Simfile

theorem roundToTick_zero : roundToTick 0 = 0 := by
  have := roundToTick_of_grid 0
  simpa using this

theorem taggedEventLt_eq (a b : TEvent) : GenCode.taggedEventLt a b = a.lt b := by
  unfold GenCode.taggedEventLt TEvent.lt keyLT
  first
    | (by_cases h1 : a.beat < b.beat <;> by_cases h2 : a.beat = b.beat <;> by_cases h3 : a.tag.val < b.tag.val <;>
        simp [h1, h2, h3] <;> done)
    | grind

theorem timeUntil_eq (s : TState) (b : Rat) (g : Tag) : GenCode.timeUntil s b g = s.timeUntil b g := by
  unfold GenCode.timeUntil TState.timeUntil
  first
    | (by_cases hw : s.warp = true <;>
        by_cases hp : ((s.tag = Tag.stop ∨ s.tag = Tag.delay) ∧ (g = Tag.stopEnd ∨ g = Tag.delayEnd)) <;>
        simp [hw, hp] <;> done)
    | (cases g <;> cases ht : s.tag <;> cases hw : s.warp <;> simp <;> done)
    | (cases g <;> cases ht : s.tag <;> cases hw : s.warp <;> simp <;> grind)
    | grind

theorem beatsUntil_eq (s : TState) (t : Rat) : GenCode.beatsUntil s t = s.beatsUntil t := by
  unfold GenCode.beatsUntil TState.beatsUntil TState.beatsUntilRaw
  first
    | (by_cases hp : (s.tag = Tag.stop ∨ s.tag = Tag.delay) <;> simp [hp, roundToTick_zero] <;> done)
    | (cases ht : s.tag <;> simp [roundToTick_zero] <;> done)
    | (cases ht : s.tag <;> simp [roundToTick_zero] <;> grind)

theorem advance_eq (s : TState) (e : TEvent) : GenCode.advance s e = Simfile.advance s e := by
  unfold GenCode.advance Simfile.advance
  try simp only [timeUntil_eq]
  all_goals first
    | rfl
    | (cases ht : e.tag <;> simp <;> done)
    | (cases ht : e.tag <;> simp <;> grind)
    | grind

end Simfile.GenEq
