/- convert._copy_properties as generated from simfile/convert.py equals the model's copyProperties (C16, C17). -/
import Simfile.Gen.Code.ConvertCopy
import Simfile.Props.GenEq.Convert
namespace Simfile.GenEq
open Simfile

theorem bind_ok_id {ε α} (x : Except ε α) : Except.bind x (fun a => Except.ok a) = x := by cases x <;> rfl

theorem copyProperties_eq (smChartTarget : Bool) (invalid : List (Nat × List Str)) (source output : Dict) (beh : List (Nat × Nat)) :
    GenCode.copyProperties smChartTarget invalid source output beh = Simfile.copyProperties smChartTarget source output invalid beh := by
  unfold GenCode.copyProperties Simfile.copyProperties
  simp only [shouldCopy_eq, bind_ok_id]
  all_goals first
    | rfl
    | (congr 1; funext out kv; obtain ⟨k, v⟩ := kv
       cases h : Simfile.shouldCopy k v invalid beh with
       | error e => rfl
       | ok b => cases b <;> simp [Except.bind, bind, pure, Except.pure, h])

end Simfile.GenEq
