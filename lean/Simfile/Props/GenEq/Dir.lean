/- SimfileDirectory.__init__ and SimfilePack.banner as generated from simfile/dir.py equal the model's scanDir and
packBanner (C19, C20). -/
import Simfile.Gen.Code.Dir
import Simfile.Props.GenEq.Ext
import Simfile.Props.GenEq.Basic
namespace Simfile.GenEq
open Simfile

def dirR (st : Option Str × Option Str) : SimDir := { sm := st.1, ssc := st.2 }

/-- the loop body of `SimfileDirectory.__init__` on the pair (sm_path, ssc_path), as generated -/
def dirStep (ignore_duplicate : Bool) (st : Option Str × Option Str) (simfile_item : Str) : Except DErr (Option Str × Option Str) :=
  let py_match := GenCode.extMatch simfile_item T.simfileExts
  if py_match ≠ none then
    (if py_match = some ['.', 's', 'm'] then
      (if st.1 ≠ none then (if ignore_duplicate = true then Except.ok (st.1, st.2) else Except.error DErr.duplicate)
       else Except.ok (some simfile_item, st.2))
     else if py_match = some ['.', 's', 's', 'c'] then
      (if st.2 ≠ none then (if ignore_duplicate = true then Except.ok (st.1, st.2) else Except.error DErr.duplicate)
       else Except.ok (st.1, some simfile_item))
     else Except.ok (st.1, st.2))
  else Except.ok (st.1, st.2)

def dirModelStep (ignoreDup : Bool) (sd : SimDir) (item : Str) : Except DErr SimDir :=
  match Simfile.extMatch item T.simfileExts with
  | none => pure sd
  | some m =>
    if m = extSM then
      (match sd.sm with
       | some _ => if ignoreDup then pure sd else .error .duplicate
       | none => pure { sd with sm := some item })
    else if m = extSSC then
      (match sd.ssc with
       | some _ => if ignoreDup then pure sd else .error .duplicate
       | none => pure { sd with ssc := some item })
    else pure sd

theorem dirStep_sim (ign : Bool) (st : Option Str × Option Str) (item : Str) :
    (dirStep ign st item).map dirR = dirModelStep ign (dirR st) item := by
  obtain ⟨sm, ssc⟩ := st
  unfold dirStep dirModelStep
  simp only [extMatch_eq]
  cases hm : Simfile.extMatch item T.simfileExts with
  | none => simp [dirR, pure, Except.pure, Except.map]
  | some m =>
    by_cases h1 : m = ['.', 's', 'm']
    · cases sm <;> cases ign <;> simp [dirR, h1, extSM, pure, Except.pure, Except.map]
    · by_cases h2 : m = ['.', 's', 's', 'c']
      · cases ssc <;> cases ign <;> simp [dirR, h1, h2, extSM, extSSC, pure, Except.pure, Except.map]
      · simp [dirR, h1, h2, extSM, extSSC, pure, Except.pure, Except.map]

theorem scanDir_eq (listing : List Str) (ignoreDup : Bool) :
    GenCode.scanDir none none listing ignoreDup = Simfile.scanDir listing ignoreDup := by
  have hgen : GenCode.scanDir none none listing ignoreDup =
      Except.bind (listing.foldlM (dirStep ignoreDup) (none, none)) (fun st => Except.ok (dirR st)) := rfl
  have hmod : Simfile.scanDir listing ignoreDup = listing.foldlM (dirModelStep ignoreDup) (dirR (none, none)) := rfl
  rw [hgen, hmod, bind_ok_eq_map, foldlM_sim dirR _ _ (dirStep_sim ignoreDup)]

theorem inner_find (c : Str → Bool) (listing : List Str) :
    Py.forFirst listing (fun item => (if c item = true then some (some (true, item)) else none).map some)
      (none : Option (Option (Bool × Str))) = (listing.find? c).map (fun item => some (true, item)) := by
  induction listing with
  | nil => rfl
  | cons a l ih =>
    rw [Py.forFirst_cons, List.find?_cons]
    by_cases h : c a = true
    · simp [h]
    · simp only [h, if_false, Option.map_none]
      simpa using ih

theorem beside_find (be : Str → Bool) (packName : Str) (exts : List Str) :
    Py.forFirst exts (fun ext => if be (packName ++ ext) = true then some (some (false, packName ++ ext)) else none)
      (none : Option (Bool × Str)) = (exts.find? fun ext => be (packName ++ ext)).map fun ext => (false, packName ++ ext) := by
  induction exts with
  | nil => rfl
  | cons a l ih =>
    rw [Py.forFirst_cons, List.find?_cons]
    by_cases h : be (packName ++ a) = true <;> simp [h, ih]

theorem banner_shape (exts exts2 listing : List Str) (packName : Str) (be : Str → Bool) :
    Py.forFirst exts (fun image_type =>
        Py.forFirst listing (fun pack_item =>
          (if (GenCode.extMatch pack_item [image_type]).isSome = true then some (some (true, pack_item)) else none).map some) none)
      (Py.forFirst exts2 (fun ext => if be (packName ++ ext) = true then some (some (false, packName ++ ext)) else none) none) =
    (match exts.findSome? (fun ext => listing.find? fun item => (Simfile.extMatch item [ext]).isSome) with
     | some item => some (true, item)
     | none => (exts2.find? fun ext => be (packName ++ ext)).map fun ext => (false, packName ++ ext)) := by
  simp only [extMatch_eq, inner_find, beside_find]
  induction exts with
  | nil => rfl
  | cons a l ih =>
    rw [Py.forFirst_cons, List.findSome?_cons]
    cases h : List.find? (fun item => (Simfile.extMatch item [a]).isSome) listing with
    | none => simp [ih]
    | some item => simp

theorem packBanner_eq (packListing : List Str) (packName : Str) (besideExists : Str → Bool) :
    GenCode.packBanner packListing packName besideExists = Simfile.packBanner packListing packName besideExists :=
  banner_shape T.imageExts T.imageExts packListing packName besideExists

end Simfile.GenEq
