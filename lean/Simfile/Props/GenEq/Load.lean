/-
The loaders as generated from simfile/sm.py and simfile/ssc.py (SMChart._from_msd, SMSimfile._parse, SSCSimfile._parse,
SSCChart._parse) equal the model's loadSM / loadSSC / loadSSCChart / smChartFromMsd — the functions the C03/C04 theorems are
about. The Python loops that fill the object are folds over the parameter list in the generated code; the model's are folds
over a structure; the proofs are simulations between the two state representations.
-/
import Simfile.Gen.Code.Load
import Simfile.Props.GenEq.Basic
namespace Simfile.GenEq
open Simfile

theorem smChartFromMsd_eq (values : List Str) : GenCode.smChartFromMsd [] none values = Simfile.smChartFromMsd values := by
  unfold GenCode.smChartFromMsd Simfile.smChartFromMsd
  by_cases h : values.length < T.smChartProperties.length
  · simp only [h, if_true]
  · simp only [h, if_false]
    have := foldlM_ok (ε := Err) (fun (d : Dict) (kv : Str × Str) => Dict.set d kv.1 (some (strip kv.2))) (T.smChartProperties.zip values) []
    simp only [this]
    by_cases h2 : values.length > T.smChartProperties.length <;> simp [h2, Except.bind]

theorem loadedValue_gen (k : Str) (p : Param) :
    (if Param.value p = none then (none : Option Str)
     else if k ∈ T.multiValue then some (joinWith [':'] p.comps.tail) else Param.value p) = loadedValue k p := by
  unfold loadedValue
  cases hval : Param.value p with
  | none => simp
  | some v =>
    by_cases hm : k ∈ T.multiValue
    · have : isMulti k = true := by simpa [isMulti] using hm
      simp [hm, this]
    · have : isMulti k = false := by simpa [isMulti] using hm
      simp [hm, this]

theorem loadSM_eq (ps : List Param) : GenCode.loadSM [] [] ps = Simfile.loadSM ps := by
  unfold GenCode.loadSM Simfile.loadSM
  let R : List SMChart × Dict → SMSimfile := fun st => { props := st.2, charts := st.1 }
  have key := foldlM_sim (ε := Err) R
    (fun (st : List SMChart × Dict) param =>
        if upper (Param.key param) = ['N','O','T','E','S'] then
          Except.bind (GenCode.smChartFromMsd [] none param.comps.tail) (fun py_v => Except.ok (st.1 ++ [py_v], st.2))
        else if Param.value param = none then Except.ok (st.1, Dict.set st.2 (upper (Param.key param)) none)
        else if upper (Param.key param) ∈ T.multiValue then
          Except.ok (st.1, Dict.set st.2 (upper (Param.key param)) (some (joinWith [':'] param.comps.tail)))
        else Except.ok (st.1, Dict.set st.2 (upper (Param.key param)) (Param.value param)))
    (fun (s : SMSimfile) p =>
      let k := upper p.key
      if k = kNOTES then do
        let c ← Simfile.smChartFromMsd p.comps.tail
        pure { s with charts := s.charts ++ [c] }
      else pure { s with props := s.props.set k (loadedValue k p) })
    (by
      intro st p
      simp only [smChartFromMsd_eq, kNOTES]
      by_cases hk : upper (Param.key p) = ['N','O','T','E','S']
      · simp only [hk, if_true]
        cases Simfile.smChartFromMsd p.comps.tail <;> rfl
      · simp only [hk, if_false]
        rw [← loadedValue_gen]
        cases hval : Param.value p with
        | none => simp [R]; rfl
        | some v => by_cases hm : upper (Param.key p) ∈ T.multiValue <;> simp [hm, R] <;> rfl)
    ps ([], [])
  rw [← key, ← bind_ok_eq_map]


/-- the loop body of `SSCSimfile._parse` on the state (partial chart, charts, properties) -/
def sscStep (st : Option SSCChart × List SSCChart × Dict) (param : Param) : Option SSCChart × List SSCChart × Dict :=
  let key := upper (Param.key param)
  let value : Option Str := if Param.value param = none then none
     else if key ∈ T.multiValue then some (joinWith [':'] param.comps.tail) else Param.value param
  if key = ['N','O','T','E','D','A','T','A'] then
    ((some (⟨[]⟩ : SSCChart)), (if ¬ st.1 = none then st.2.1 ++ st.1.toList else st.2.1), st.2.2)
  else if ¬ st.1 = none then (st.1.map (fun py_c => (⟨Dict.set py_c.props key value⟩ : SSCChart)), st.2.1, st.2.2)
  else (st.1, st.2.1, Dict.set st.2.2 key value)

def sscModelStep (st : SSCLoadState) (p : Param) : SSCLoadState :=
  let k := upper p.key
  let v := loadedValue k p
  if k = kNOTEDATA then
    { st with charts := (match st.partial_ with | some c => st.charts ++ [c] | none => st.charts),
              partial_ := some ⟨[]⟩ }
  else match st.partial_ with
    | some c => { st with partial_ := some ⟨c.props.set k v⟩ }
    | none => { st with props := st.props.set k v }

def sscR (st : Option SSCChart × List SSCChart × Dict) : SSCLoadState := { props := st.2.2, charts := st.2.1, partial_ := st.1 }

theorem sscStep_sim (st : Option SSCChart × List SSCChart × Dict) (p : Param) : sscR (sscStep st p) = sscModelStep (sscR st) p := by
  obtain ⟨pc, cs, d⟩ := st
  unfold sscStep sscModelStep sscR
  simp only [loadedValue_gen, kNOTEDATA]
  by_cases hk : upper (Param.key p) = ['N','O','T','E','D','A','T','A']
  · cases pc <;> simp [hk]
  · cases pc <;> simp [hk]

theorem loadSSC_eq (ps : List Param) : GenCode.loadSSC [] [] ps = Simfile.loadSSC ps := by
  have key := foldl_sim sscR sscStep sscModelStep sscStep_sim ps (none, [], [])
  have hgen : GenCode.loadSSC [] [] ps =
      (let st := ps.foldl sscStep (none, [], [])
       if ¬ st.1 = none then ({ props := st.2.2, charts := st.2.1 ++ st.1.toList } : SSCSimfile) else { props := st.2.2, charts := st.2.1 }) := by
    rfl
  have hmod : Simfile.loadSSC ps =
      (let st := ps.foldl sscModelStep (sscR (none, [], []))
       ({ props := st.props, charts := match st.partial_ with | some c => st.charts ++ [c] | none => st.charts } : SSCSimfile)) := by
    rfl
  rw [hgen, hmod, ← key]
  generalize ps.foldl sscStep (none, [], []) = st
  obtain ⟨pc, cs, d⟩ := st
  cases pc <;> simp [sscR]

/-- the loop body of `SSCChart._parse` with the `break` flag -/
def chartStep (st : Dict × Bool) (param : Param) : Except Err (Dict × Bool) :=
  if st.2 = true then Except.ok st else
    (let key := upper (Param.key param)
     let props := (if Param.value param = none then Dict.set st.1 key none
        else if key ∈ T.multiValue then Dict.set st.1 key (some (joinWith [':'] param.comps.tail))
        else Dict.set st.1 key (Param.value param))
     if key = ['N','O','T','E','S'] ∨ key = ['N','O','T','E','S','2'] then Except.ok (props, true) else Except.ok (props, st.2))

theorem set_loaded (d : Dict) (k : Str) (p : Param) :
    (if Param.value p = none then Dict.set d k none
     else if k ∈ T.multiValue then Dict.set d k (some (joinWith [':'] p.comps.tail))
     else Dict.set d k (Param.value p)) = Dict.set d k (loadedValue k p) := by
  rw [← loadedValue_gen]
  by_cases h1 : Param.value p = none <;> by_cases h2 : k ∈ T.multiValue <;> simp [h1, h2]

theorem chartStep_false (d : Dict) (p : Param) :
    chartStep (d, false) p =
      (if upper (Param.key p) = ['N','O','T','E','S'] ∨ upper (Param.key p) = ['N','O','T','E','S','2']
       then Except.ok (Dict.set d (upper (Param.key p)) (loadedValue (upper (Param.key p)) p), true)
       else Except.ok (Dict.set d (upper (Param.key p)) (loadedValue (upper (Param.key p)) p), false)) := by
  unfold chartStep
  simp only [Bool.false_eq_true, if_false, set_loaded]

theorem chartStep_done (ps : List Param) (d : Dict) : ps.foldlM chartStep (d, true) = Except.ok (d, true) := by
  induction ps with
  | nil => rfl
  | cons p ps ih => simp only [List.foldlM_cons, chartStep, if_true]; exact ih

theorem chartStep_body (ps : List Param) (d : Dict) :
    (ps.foldlM chartStep (d, false)).map (·.1) = Except.ok (loadSSCChartBody ps d) := by
  induction ps generalizing d with
  | nil => rfl
  | cons p ps ih =>
    simp only [List.foldlM_cons, loadSSCChartBody, kNOTES, kNOTES2, chartStep_false]
    by_cases hk : upper (Param.key p) = ['N','O','T','E','S'] ∨ upper (Param.key p) = ['N','O','T','E','S','2']
    · simp only [hk, if_true]
      show (List.foldlM chartStep (_, true) ps).map (·.1) = _
      rw [chartStep_done]; rfl
    · simp only [hk, if_false]
      exact ih _

theorem loadSSCChart_eq (ps : List Param) : GenCode.loadSSCChart [] ps = Simfile.loadSSCChart ps := by
  cases ps with
  | nil => rfl
  | cons p rest =>
    have hgen : GenCode.loadSSCChart [] (p :: rest) =
        (if upper (Param.key p) ≠ ['N','O','T','E','D','A','T','A'] then Except.error Err.valueError
         else Except.bind (rest.foldlM chartStep ([], false)) (fun st => Except.ok (⟨st.1⟩ : SSCChart))) := by
      rfl
    rw [hgen]
    unfold Simfile.loadSSCChart
    simp only [kNOTEDATA]
    by_cases hk : upper (Param.key p) ≠ ['N','O','T','E','D','A','T','A']
    · simp [hk]
    · simp only [hk, if_false]
      have hb := chartStep_body rest []
      cases hf : rest.foldlM chartStep ([], false) with
      | error e => rw [hf] at hb; cases hb
      | ok st =>
        rw [hf] at hb
        have : st.1 = loadSSCChartBody rest [] := by
          have := hb; simp only [Except.map] at this; exact Except.ok.inj this
        simp only [Except.bind, this]

end Simfile.GenEq
