/- AssetDefinition.matches and Assets._get_case_insensitive_path as generated from simfile/assets.py equal the model's
assetMatches (for the table entry of the asset kind) and caseInsensitive (C20). -/
import Simfile.Gen.Code.Assets
import Simfile.Props.GenEq.Ext
namespace Simfile.GenEq
open Simfile

theorem any_reSearch (presets : List Str) (ps : List Preset) (s : Str) (h : presets.mapM compilePreset = some ps) :
    presets.any (fun p => Py.reSearch p s) = ps.any (fun q => q.matches s) := by
  induction presets generalizing ps with
  | nil => simp at h; subst h; rfl
  | cons p rest ih =>
    simp only [List.mapM_cons] at h
    cases hp : compilePreset p with
    | none => simp [hp] at h
    | some q =>
      cases hr : rest.mapM compilePreset with
      | none => simp [hp, hr] at h
      | some qs =>
        simp [hp, hr] at h
        subst h
        have := ih qs hr
        simp only [List.any_cons, Py.reSearch, hp] at this ⊢
        rw [this]

/-- for the entry `(kind, presets, exts, byExt)` of the generated table of asset definitions, whenever every preset lies in
the modelled regex fragment, the model's answer is the translated function's -/
theorem assetMatches_eq (kind : Str) (presets exts : List Str) (byExt : Bool) (name : Str)
    (hk : T.assetDefinitions.find? (·.1 = kind) = some (kind, presets, exts, byExt))
    (ps : List Preset) (hps : presets.mapM compilePreset = some ps) :
    Simfile.assetMatches kind name = some (GenCode.assetMatches presets exts byExt name) := by
  unfold Simfile.assetMatches GenCode.assetMatches
  simp only [hk, hps, extMatch_eq]
  have h := any_reSearch presets ps (lower (stem name)) hps
  have h' : (presets.any fun preset => decide (Py.reSearch preset (lower (stem name)) = true)) =
      ps.any (fun q => q.matches (lower (stem name))) := by
    rw [← h]; congr 1; funext p; simp
  rw [h']
  cases h1 : ps.any (fun q => q.matches (lower (stem name))) <;> cases byExt <;>
    cases hm : (Simfile.extMatch name exts).isSome <;> simp

theorem caseInsensitive_eq (containing : Option (List Str)) (filename : Str) :
    GenCode.caseInsensitive containing filename = Simfile.caseInsensitive containing filename := by
  unfold GenCode.caseInsensitive Simfile.caseInsensitive
  cases containing with
  | none => simp
  | some l =>
    simp only [ne_eq, reduceCtorEq, not_false_eq_true, if_true, Option.getD_some]
    have := forFirst_ite_eq_find (fun item => decide (lower item = lower filename)) l
    simpa using this

end Simfile.GenEq
