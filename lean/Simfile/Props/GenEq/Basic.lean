/- Generic lemmas used by several GenEq modules: folds in the Except monad whose steps never fail, and simulations between two
state representations of the same loop. Kept apart from the per-module equalities so that a rewrite of one Python function
cannot take the equalities of another module down with it. -/
import Simfile.Model.Objects
namespace Simfile.GenEq
open Simfile

theorem foldlM_ok {σ α ε} (f : σ → α → σ) (l : List α) (init : σ) :
    l.foldlM (fun s x => (Except.ok (f s x) : Except ε σ)) init = Except.ok (l.foldl f init) := by
  induction l generalizing init with
  | nil => rfl
  | cons a l ih => simp only [List.foldlM_cons, List.foldl_cons]; exact ih _

theorem foldlM_sim {σ τ α ε} (R : σ → τ) (f : σ → α → Except ε σ) (g : τ → α → Except ε τ)
    (h : ∀ s a, (f s a).map R = g (R s) a) (l : List α) (s : σ) :
    (l.foldlM f s).map R = l.foldlM g (R s) := by
  induction l generalizing s with
  | nil => rfl
  | cons a l ih =>
    simp only [List.foldlM_cons]
    have hs := h s a
    cases hf : f s a with
    | error e => rw [hf] at hs; rw [← hs]; rfl
    | ok s' => rw [hf] at hs; rw [← hs]; exact ih s'

theorem foldl_sim {σ τ α} (R : σ → τ) (f : σ → α → σ) (g : τ → α → τ)
    (h : ∀ s a, R (f s a) = g (R s) a) (l : List α) (s : σ) : R (l.foldl f s) = l.foldl g (R s) := by
  induction l generalizing s with
  | nil => rfl
  | cons a l ih => simp only [List.foldl_cons]; rw [ih, h]

theorem bind_ok_eq_map {ε α β} (x : Except ε α) (f : α → β) : Except.bind x (fun a => Except.ok (f a)) = x.map f := by
  cases x <;> rfl

/-- the items written for one `(key, value)` pair by BaseSimfile.serialize / SSCChart.serialize, as generated -/
theorem valueItems (k : Str) (v : Option Str) :
    (if v = none then [Item.param ⟨[k]⟩, Item.text ['\n']]
     else if k ∈ T.multiValue then [Item.param ⟨[k] ++ splitOn ':' (v.getD [])⟩, Item.text ['\n']]
     else [Item.param ⟨[k, v.getD []]⟩, Item.text ['\n']]) = [Item.param (valueParam k v), Item.text nl] := by
  cases v with
  | none => simp [valueParam, nl]
  | some s =>
    by_cases h : k ∈ T.multiValue
    · have : isMulti k = true := by simpa [isMulti] using h
      simp [valueParam, nl, h, this]
    · have : isMulti k = false := by simpa [isMulti] using h
      simp [valueParam, nl, h, this]

end Simfile.GenEq
