/- The counting functions as generated from simfile/notes/count.py equal the model's (C09): same options passed to
group_notes (the omitted ones are group_notes' own defaults, read from its signature), same minimum. -/
import Simfile.Gen.Code.Count
namespace Simfile.GenEq
open Simfile

theorem countGrouped_eq (g : List (List GNote)) (m : Nat) : GenCode.countGrouped g m = Simfile.countGrouped g m := by
  unfold GenCode.countGrouped Simfile.countGrouped
  first | rfl | (congr 1)

theorem except_map_eq_bind {ε α β} (x : Except ε α) (f : α → β) : x.map f = (do let a ← x; pure (f a)) := by
  cases x <;> rfl

theorem countSteps_eq (notes : List Note) (incl : List Char) (mode : SameBeat) (m : Nat) :
    GenCode.countSteps notes incl mode m = Simfile.countSteps notes incl mode m := by
  unfold GenCode.countSteps Simfile.countSteps
  simp only [except_map_eq_bind, countGrouped_eq]
  all_goals first | rfl | grind

theorem countJumps_eq (notes : List Note) (incl : List Char) (mode : SameBeat) :
    GenCode.countJumps notes incl mode = Simfile.countSteps notes incl mode 2 := by
  unfold GenCode.countJumps; exact countSteps_eq ..

theorem countHands_eq (notes : List Note) (incl : List Char) (mode : SameBeat) (m : Nat) :
    GenCode.countHands notes incl mode m = Simfile.countSteps notes incl mode m := by
  unfold GenCode.countHands; exact countSteps_eq ..

theorem countMines_eq (notes : List Note) : GenCode.countMines notes = Simfile.countMines notes := by
  unfold GenCode.countMines Simfile.countMines
  first | rfl | (congr 1)

theorem countHoldsOrRolls_eq (notes : List Note) (head : Char) (oh ot : Orphan) :
    GenCode.countHoldsOrRolls notes head oh ot = Simfile.countHoldsOrRolls notes head oh ot := by
  unfold GenCode.countHoldsOrRolls Simfile.countHoldsOrRolls
  simp only [except_map_eq_bind, countGrouped_eq]
  all_goals first | rfl | grind

theorem countHolds_eq (notes : List Note) (oh ot : Orphan) :
    GenCode.countHolds notes oh ot = Simfile.countHoldsOrRolls notes cHOLD oh ot := by
  unfold GenCode.countHolds; exact countHoldsOrRolls_eq ..

theorem countRolls_eq (notes : List Note) (oh ot : Orphan) :
    GenCode.countRolls notes oh ot = Simfile.countHoldsOrRolls notes cROLL oh ot := by
  unfold GenCode.countRolls; exact countHoldsOrRolls_eq ..

end Simfile.GenEq
