/-
C11 — the timing engine (merged tagged events, state machine, Python's bisect on a key list that is
not always sorted) refines the declarative timeline.
Property theorems only; helper lemmas live in Simfile/Lemmas/Engine*.lean.
The domain hypothesis `Simfile.C11.Dom` is defined in Simfile/Lemmas/EngineBasic.lean:
non-empty BPMs starting on beat 0 with positive values; within each of bpms / stops / delays / warps
the beats are strictly increasing, non-negative and tick-aligned; stop and delay lengths positive;
rounded warp lengths positive. Any offset, any coincidence of events of different kinds.
-/
import Simfile.Lemmas.EngineMain
import Simfile.Props.C14
namespace Simfile.C11
open Simfile

/-- the generated tag order the proofs rely on -/
theorem tag_order : Tag.val .warp = 0 ∧ Tag.val .warpEnd = 1 ∧ Tag.val .bpm = 2 ∧ Tag.val .delay = 3 ∧
    Tag.val .delayEnd = 4 ∧ Tag.val .stop = 5 ∧ Tag.val .stopEnd = 6 := by decide

/-- 1. the engine's `time_at` is the declarative time, for every beat (negative and off-grid beats
included) and every tag -/
theorem time_refines_spec (td : TimingData) (h : Dom td) (b : Rat) (g : Tag) :
    timeAt td b g = Spec.timeSpec td b g :=
  timeAt_eq_spec h b g

/-- 2. `time_at` is monotone in the key (beat, tag) -/
theorem monotone (td : TimingData) (h : Dom td) {b₁ b₂ : Rat} {g₁ g₂ : Tag}
    (hk : Spec.keyLE (b₁, g₁) (b₂, g₂) = true) : timeAt td b₁ g₁ ≤ timeAt td b₂ g₂ := by
  rw [time_refines_spec td h, time_refines_spec td h]
  exact timeSpec_mono td h ((keyLE_iff _ _ _ _).1 hk)

/-- 3. a larger offset moves every answer earlier by the same amount (no domain hypothesis) -/
theorem offset_shift (td : TimingData) (d b : Rat) (g : Tag) :
    timeAt { td with offset := td.offset + d } b g = timeAt td b g - d :=
  timeAt_shift td d b g

/-- 4. `bpm_at` is the value of the last BPM change at or before the beat -/
theorem bpm_at (td : TimingData) (h : Dom td) (b : Rat) :
    bpmAt td b = if b < 0 then (td.bpms.headD (0, 0)).2 else Spec.bpmOn td b :=
  bpmAt_eq_spec h b

/-- 5. a redundant BPM change — `withBpm td x` is `td` with the row `(x, Spec.bpmOn td x)` inserted into
`td.bpms` at its sorted position (`insertBpm`) — changes no answer -/
theorem redundant_bpm (td : TimingData) (h : Dom td) (x : Rat) (hx : onGrid x) (hpos : 0 < x)
    (hnew : ∀ e ∈ td.bpms, e.1 ≠ x) :
    (∀ b g, timeAt (withBpm td x) b g = timeAt td b g) ∧ (∀ b, bpmAt (withBpm td x) b = bpmAt td b) := by
  have h' := dom_withBpm td h x hx hpos hnew
  constructor
  · intro b g
    rw [time_refines_spec _ h', time_refines_spec _ h, timeSpec_withBpm td h x hpos hnew]
  · intro b
    rw [bpm_at _ h', bpm_at _ h, head_withBpm td h x hpos, bpmOn_withBpm td h x hpos hnew]

/-- what `withBpm` is -/
theorem withBpm_def (td : TimingData) (x : Rat) :
    withBpm td x = { td with bpms := insertBpm x (Spec.bpmOn td x) td.bpms } := rfl

/-! ### non-vacuity: a stop on a delay inside a warp that starts on beat 0, with a BPM change inside -/

example : Dom ({
    bpms := [(0, 120), (1, 240)]
    stops := [(1/2, 1/4)]
    delays := [(1/2, 1/8)]
    warps := [(0, 2)]
    offset := 1/100 } : TimingData) := by
  have g0 : onGrid 0 := ⟨0, by norm_num⟩
  have g1 : onGrid 1 := ⟨48, by rw [C14.ticks_is_48]; norm_num⟩
  have g2 : onGrid (1/2) := ⟨24, by rw [C14.ticks_is_48]; norm_num⟩
  have hr : roundToTick 2 = 2 := by
    have := C14.round_idem 96
    norm_num at this
    exact this
  constructor
  · simp
  · simp
  · intro e he; simp at he; rcases he with rfl | rfl <;> norm_num
  · simp
  · intro e he; simp at he; rcases he with rfl | rfl
    · exact ⟨le_refl _, g0⟩
    · exact ⟨by norm_num, g1⟩
  · intro e he; simp at he; subst he; norm_num
  · simp
  · intro e he; simp at he; subst he; exact ⟨by norm_num, by simpa using g2⟩
  · intro e he; simp at he; subst he; norm_num
  · simp
  · intro e he; simp at he; subst he; exact ⟨by norm_num, by simpa using g2⟩
  · intro e he; simp at he; subst he; rw [hr]; norm_num
  · simp
  · intro e he; simp at he; subst he; exact ⟨le_refl _, g0⟩

/-- the extra hypotheses of `redundant_bpm` are satisfiable on that input: `x = 1/2` -/
example : onGrid (1/2) ∧ (0 : Rat) < 1/2 ∧ ∀ e ∈ [((0 : Rat), (120 : Rat)), (1, 240)], e.1 ≠ 1/2 := by
  refine ⟨⟨24, by rw [C14.ticks_is_48]; norm_num⟩, by norm_num, ?_⟩
  intro e he; simp at he; rcases he with rfl | rfl <;> norm_num

/-- the hypothesis of `monotone` is satisfiable (and strict in the tag on equal beats) -/
example : Spec.keyLE (1/2, .delayEnd) (1/2, .stop) = true := by simp [Spec.keyLE]

end Simfile.C11
