import Simfile.Spec.Timeline
