/-
C01, round 2 (audit part A: C01-F1, C01-F3).

* `roundtrip_pyEq`: the round trip for SM charts whose six fields are present in ANY key order (as built by
  `c = SMChart(); c.notes = …; c.stepstype = …`) and with any `extradata` (also `[]`): the reloaded simfile is `==`
  to the original in Python's sense (`SMSimfile.pyEq`: same properties, charts compared by their six attributes) and
  is written as the same items. `roundtrip_pyEq_iff`: the chart condition is exact. Fields that are absent or `None`
  print as "None" and come back as the STRING "None": the text is still reproduced (`reserialize_stable_weak`) but the
  objects are not `==`, so the domain of `roundtrip_pyEq` has to say that the six fields are strings.
* `SafeContent`: a decidable condition on keys and values, in the terms of the property's exclusion list, that
  implies the `safeDoc` hypothesis of the through-text theorems; examples show each exclusion is needed.
-/
import Simfile.Props.C01
import Simfile.Props.MsdContract
import Simfile.Lemmas.ObjectsMoreSM
import Simfile.Lemmas.ObjectsMoreSafe
namespace Simfile.C01More
open Simfile Simfile.O

/-- an SM chart whose six attributes (`stepstype` … `notes`) are strings equal to their own `strip()`. Nothing is
asked about the order of the keys, about other keys, or about `extradata`. -/
def DomSMChart' (c : SMChart) : Prop :=
  ∀ k ∈ T.smChartProperties, ∃ v, c.fields.get? k = some (some v) ∧ strip v = v

/-- the weaker condition that suffices for the TEXT to be reproduced: every attribute that is a string is
stripped; attributes may be absent or `None` -/
def DomSMChartW (c : SMChart) : Prop :=
  ∀ k ∈ T.smChartProperties, ∀ v, c.fields.get? k = some (some v) → strip v = v

/-- the simfile-level part of `C01.DomSM`: distinct upper-case keys other than NOTES, any values -/
structure DomProps (s : SMSimfile) : Prop where
  wf : s.props.WF
  upper : ∀ k ∈ s.props.keys, upper k = k
  notNotes : ∀ k ∈ s.props.keys, k ≠ kNOTES

structure DomSM' (s : SMSimfile) : Prop extends DomProps s where
  charts : ∀ c ∈ s.charts, DomSMChart' c

theorem DomSMChart'.weak {c : SMChart} (h : DomSMChart' c) : DomSMChartW c := by
  intro k hk v hv
  obtain ⟨w, hw, hs⟩ := h k hk
  rw [hw] at hv
  cases hv; exact hs

/-- the round-1 domain (canonical key order, non-empty extradata) is contained in the new one -/
theorem DomSM'.of_dom {s : SMSimfile} (h : C01.DomSM s) : DomSM' s := by
  refine ⟨⟨h.wf, h.upper, h.notNotes⟩, ?_⟩
  intro c hc
  obtain ⟨f, e⟩ := c
  have hd := h.charts _ hc
  obtain ⟨v1, v2, v3, v4, v5, v6, rfl, s1, s2, s3, s4, s5, s6⟩ := fields_shape' f hd.keys hd.vals
  intro k hk
  simp only [T.smChartProperties, List.mem_cons, List.not_mem_nil, or_false] at hk
  rcases hk with rfl | rfl | rfl | rfl | rfl | rfl
  · exact ⟨v1, by simp [Dict.get?, List.lookup], s1⟩
  · exact ⟨v2, by simp [Dict.get?, List.lookup], s2⟩
  · exact ⟨v3, by simp [Dict.get?, List.lookup], s3⟩
  · exact ⟨v4, by simp [Dict.get?, List.lookup], s4⟩
  · exact ⟨v5, by simp [Dict.get?, List.lookup], s5⟩
  · exact ⟨v6, by simp [Dict.get?, List.lookup], s6⟩

/-- one chart: the chart read back from its own NOTES parameter is `==` to the chart exactly when its six
attributes are stripped strings -/
theorem chart_roundtrip_pyEq_iff (c : SMChart) :
    c.pyEq (smChartOf (smChartParam c).comps.tail) = true ↔ DomSMChart' c :=
  pyEq_smRT_iff c

/-- C01 clauses 1–3 for charts with any key order and any extradata (C01-F1): loading the parameters of the
serialized simfile succeeds; the result is `==` to the original in Python's sense; it has the same properties
(structurally: keys, order, values); as many charts, the i-th with the same extra components (`extradata = []`
and `extradata = None` both mean "none"); and it is written as exactly the same items. -/
theorem roundtrip_pyEq (s : SMSimfile) (h : DomSM' s) :
    ∃ s', loadSM (paramsOf (serSM s)) = .ok s' ∧ s.pyEq s' = true ∧ serSM s' = serSM s ∧
      s'.props = s.props ∧ s'.charts.length = s.charts.length ∧
      ∀ (i : Nat) (c c' : SMChart), s.charts[i]? = some c → s'.charts[i]? = some c' →
        c'.extradata.getD [] = c.extradata.getD [] := by
  obtain ⟨props, charts⟩ := s
  refine ⟨⟨props, charts.map smRT⟩, loadSM_serSM _ h.wf h.upper h.notNotes, ?_, ?_, rfl, by simp, ?_⟩
  · rw [pyEq_map, List.all_eq_true]
    intro c hc
    exact (pyEq_smRT_iff c).mpr (h.charts c hc)
  · exact serSM_map_congr props charts smRT (fun c hc => smChartParam_smRT c (h.charts c hc).weak)
  · intro i c c' hc hc'
    simp only [List.getElem?_map, hc, Option.map_some, Option.some.injEq] at hc'
    subst hc'
    exact extradata_smRT c

/-- the chart condition of `roundtrip_pyEq` is exact: given the simfile-level conditions, the reloaded simfile is
`==` to the original if and only if every chart has its six attributes as stripped strings -/
theorem roundtrip_pyEq_iff (s : SMSimfile) (h : DomProps s) :
    (∃ s', loadSM (paramsOf (serSM s)) = .ok s' ∧ s.pyEq s' = true) ↔ ∀ c ∈ s.charts, DomSMChart' c := by
  obtain ⟨props, charts⟩ := s
  have hl := loadSM_serSM _ h.wf h.upper h.notNotes
  constructor
  · rintro ⟨s', hs', he⟩ c hc
    rw [hl] at hs'
    cases hs'
    rw [pyEq_map, List.all_eq_true] at he
    exact (pyEq_smRT_iff c).mp (he c hc)
  · intro hc
    obtain ⟨s', h1, h2, _⟩ := roundtrip_pyEq ⟨props, charts⟩ ⟨h, hc⟩
    exact ⟨s', h1, h2⟩

/-- C01 clause 3 on the weakest chart domain: attributes may be absent or `None` (they print as "None"); as long
as the string-valued ones are stripped, the reloaded simfile is written as exactly the same items -/
theorem reserialize_stable_weak (s : SMSimfile) (h : DomProps s) (hc : ∀ c ∈ s.charts, DomSMChartW c) :
    ∃ s', loadSM (paramsOf (serSM s)) = .ok s' ∧ serSM s' = serSM s := by
  obtain ⟨props, charts⟩ := s
  exact ⟨_, loadSM_serSM _ h.wf h.upper h.notNotes,
    serSM_map_congr props charts smRT (fun c hcm => smChartParam_smRT c (hc c hcm))⟩

/-- `roundtrip_pyEq` through text, for any tokenizer satisfying the contract, strictly or not: the text is
accepted, the loaded simfile is `==` to the original, and serializing it reproduces the text exactly -/
theorem roundtrip_pyEq_text (M : Msd) (hM : M.Contract) (s : SMSimfile) (h : DomSM' s)
    (hs : safeDoc (serSM s) = true) (strict : Bool) :
    ∃ s', (M.tokenize strict (M.renderDoc (serSM s))).bind loadSM = .ok s' ∧ s.pyEq s' = true ∧
      M.renderDoc (serSM s') = M.renderDoc (serSM s) := by
  obtain ⟨s', h1, h2, h3, _⟩ := roundtrip_pyEq s h
  refine ⟨s', ?_, h2, by rw [h3]⟩
  rw [hM.roundtrip (serSM s) strict (C01.texts_blank s) hs]
  exact h1

/-- the same through the modelled msdparser -/
theorem roundtrip_pyEq_concrete (s : SMSimfile) (h : DomSM' s) (hs : safeDoc (serSM s) = true) (strict : Bool) :
    ∃ s', (MsdP.msd.tokenize strict (MsdP.msd.renderDoc (serSM s))).bind loadSM = .ok s' ∧ s.pyEq s' = true ∧
      MsdP.msd.renderDoc (serSM s') = MsdP.msd.renderDoc (serSM s) :=
  roundtrip_pyEq_text MsdP.msd MsdContract.contract s h hs strict

/-! ### `SafeContent`: the `safeDoc` hypothesis from conditions on keys and values (C01-F3) -/

/-- Content-level condition on an SM simfile, in the terms of the property's exclusion list:
* every key has no '#', no "///", and is not "ended by a line break": it has a character other than `\ : ;` and
  the last such character is not '\n' / '\r' (so in particular it is not empty) — `SafeKey`;
* every value has no '#' following a line break (directly or through ':' ';' '\\' only) and no "///" — `SafeValue`;
* chart fields: the same; the note data and every extra component in addition have no '#' at their very start
  (directly or through ':' ';' '\\' only), since they are written right after a line break — `SafeValueNl`. -/
def SafeContent (s : SMSimfile) : Bool := s.props.all SafeItem && s.charts.all SafeSMChart

/-- C01-F3: `SafeContent` implies the `safeDoc` hypothesis of every through-text theorem -/
theorem safeDoc_of_safeContent (s : SMSimfile) (h : SafeContent s = true) : safeDoc (serSM s) = true := by
  simp only [SafeContent, Bool.and_eq_true, List.all_eq_true] at h
  apply safeDoc_of_good
  · intro p hp
    rw [paramsOf_serSM, List.mem_append] at hp
    rcases hp with hp | hp
    · obtain ⟨kv, _, rfl⟩ := List.mem_map.mp hp
      exact valueParam_comps_ne _ _
    · obtain ⟨c, _, rfl⟩ := List.mem_map.mp hp
      exact smChartParam_comps_ne c
  · intro p hp
    rw [paramsOf_serSM, List.mem_append] at hp
    rcases hp with hp | hp
    · obtain ⟨kv, hkv, rfl⟩ := List.mem_map.mp hp
      exact goodParam_itemParam kv (h.1 kv hkv)
    · obtain ⟨c, hc, rfl⟩ := List.mem_map.mp hp
      exact goodParam_smChartParam c (h.2 c hc)

/-- the common safe class: keys made of characters other than '#', '/', line breaks, with at least one character
other than `\ : ;` (e.g. upper-case alphanumeric, non-empty); values and chart fields without '#' and without
"///" (so ':' ';' '\\' "//" and line breaks are all allowed) -/
theorem safeDoc_of_plain (s : SMSimfile)
    (hk : ∀ k ∈ s.props.keys, k.contains '#' = false ∧ k.contains '/' = false ∧ (∀ c ∈ k, isBreak c = false) ∧
      ∃ c ∈ k, transparent c = false)
    (hv : ∀ kv ∈ s.props, ∀ v, kv.2 = some v → v.contains '#' = false ∧ noTriple v = true)
    (hc : ∀ c ∈ s.charts, (∀ kv ∈ c.fields, ∀ v, kv.2 = some v → v.contains '#' = false ∧ noTriple v = true) ∧
      ∀ e ∈ c.extradata.getD [], e.contains '#' = false ∧ noTriple e = true) :
    safeDoc (serSM s) = true := by
  apply safeDoc_of_safeContent
  simp only [SafeContent, Bool.and_eq_true, List.all_eq_true]
  constructor
  · intro kv hkv
    obtain ⟨h1, h2, h3, h4⟩ := hk kv.1 (List.mem_map.mpr ⟨kv, hkv, rfl⟩)
    simp only [SafeItem, Bool.and_eq_true]
    refine ⟨SafeKey_of_plain _ h1 h2 h3 h4, ?_⟩
    cases hv2 : kv.2 with
    | none => rfl
    | some v =>
      obtain ⟨a, b⟩ := hv kv hkv v hv2
      exact SafeValue_of_plain v a b
  · intro c hcm
    obtain ⟨hf, he⟩ := hc c hcm
    simp only [SafeSMChart, Bool.and_eq_true, List.all_eq_true]
    constructor
    · intro k _
      cases hg : c.fields.get? k with
      | none => rfl
      | some o =>
        cases o with
        | none => rfl
        | some v =>
          obtain ⟨a, b⟩ := hf (k, some v) (mem_of_get? _ _ _ hg) v rfl
          have hnl : SafeValueNl v = true := by
            simp only [SafeValueNl, Bool.and_eq_true, Bool.not_eq_true']
            exact ⟨hashAfterBreak_of_no_hash v true a, b⟩
          simp only
          split
          · exact hnl
          · exact SafeValue_of_Nl v hnl
    · intro e hem
      obtain ⟨a, b⟩ := he e hem
      simp only [SafeValueNl, Bool.and_eq_true, Bool.not_eq_true']
      exact ⟨hashAfterBreak_of_no_hash e true a, b⟩

/-- C01 through text with every hypothesis on the CONTENT of the simfile: a simfile in `DomSM'` with `SafeContent`
is accepted by any contract-satisfying tokenizer (strictly or not), loads as a simfile `==` to the original, and that
one serializes to the same text -/
theorem roundtrip_content (M : Msd) (hM : M.Contract) (s : SMSimfile) (h : DomSM' s)
    (hc : SafeContent s = true) (strict : Bool) :
    ∃ s', (M.tokenize strict (M.renderDoc (serSM s))).bind loadSM = .ok s' ∧ s.pyEq s' = true ∧
      M.renderDoc (serSM s') = M.renderDoc (serSM s) :=
  roundtrip_pyEq_text M hM s h (safeDoc_of_safeContent s hc) strict

/-- the round-1 structural round trip (`C01.roundtrip`) with `SafeContent` in place of the opaque `safeDoc` -/
theorem roundtrip_structural_content (M : Msd) (hM : M.Contract) (s : SMSimfile) (h : C01.DomSM s)
    (hc : SafeContent s = true) (strict : Bool) :
    (M.tokenize strict (M.renderDoc (serSM s))).bind loadSM = .ok s :=
  C01.roundtrip M hM s h (safeDoc_of_safeContent s hc) strict

/-! ### non-vacuity and counter-examples -/

theorem domSMChart'_iff (c : SMChart) :
    DomSMChart' c ↔ ∀ k ∈ T.smChartProperties, c.fields.get? k = some (some (strip (fmtAttr (c.fields.get? k)))) :=
  forall_congr' fun _ => imp_congr_right fun _ => (fmt_fix _).symm

instance (c : SMChart) : Decidable (DomSMChart' c) := decidable_of_iff _ (domSMChart'_iff c).symm
instance (s : SMSimfile) : Decidable (DomProps s) :=
  decidable_of_iff (s.props.WF ∧ (∀ k ∈ s.props.keys, Simfile.upper k = k) ∧ (∀ k ∈ s.props.keys, k ≠ kNOTES))
    ⟨fun ⟨a, b, c⟩ => ⟨a, b, c⟩, fun ⟨a, b, c⟩ => ⟨a, b, c⟩⟩
instance (s : SMSimfile) : Decidable (DomSM' s) :=
  decidable_of_iff (DomProps s ∧ ∀ c ∈ s.charts, DomSMChart' c)
    ⟨fun ⟨a, b⟩ => ⟨a, b⟩, fun ⟨a, b⟩ => ⟨a, b⟩⟩

/-- a chart built as `c = SMChart(); c.notes = …; c.radarvalues = …; …` (reverse key order) with `extradata = []`,
and a second one in yet another order carrying extra components -/
def reorderedSM : SMSimfile :=
  ⟨[("TITLE".toList, some "x".toList), ("SUBTITLE".toList, none)],
   [⟨[("NOTES".toList, some "0000".toList), ("RADARVALUES".toList, some "0".toList), ("METER".toList, some "1".toList),
      ("DIFFICULTY".toList, some "Hard".toList), ("DESCRIPTION".toList, some []),
      ("STEPSTYPE".toList, some "dance-single".toList)], some []⟩,
    ⟨[("METER".toList, some "2".toList), ("NOTES".toList, some "1111".toList), ("STEPSTYPE".toList, some "a:b".toList),
      ("RADARVALUES".toList, some []), ("DESCRIPTION".toList, some "d".toList),
      ("DIFFICULTY".toList, some "Easy".toList)], some ["x".toList, []]⟩]⟩

example : DomSM' reorderedSM := by decide +kernel
example : ¬ C01.DomSM reorderedSM := by decide +kernel
example : SafeContent reorderedSM = true := by decide +kernel
example : safeDoc (serSM reorderedSM) = true := safeDoc_of_safeContent _ (by decide +kernel)
/-- structurally the reloaded simfile differs (key order, `extradata = none`), which is why `pyEq` is the right notion -/
example : loadSM (paramsOf (serSM reorderedSM)) ≠ .ok reorderedSM := by decide +kernel
example : DomSM' C01.trickySM := DomSM'.of_dom (by decide +kernel)
example : SafeContent C01.trickySM = true := by decide +kernel
example : SafeContent C01.blankSM = true := by decide +kernel

/-- FINDING kept as a closed example: a chart with an absent attribute (`c = SMChart(); c.notes = "0000"`) prints
"None" for it and reads the STRING "None" back: text reproduced, objects not `==`
(/venv/bin/python: `r == s` is False, `str(r) == str(s)` is True, `r.charts[0].stepstype == 'None'`). -/
def absentFieldSM : SMSimfile := ⟨[("TITLE".toList, some "x".toList)], [⟨[("NOTES".toList, some "0000".toList)], none⟩]⟩

example : DomProps absentFieldSM ∧ ∀ c ∈ absentFieldSM.charts, DomSMChartW c := by
  refine ⟨by decide +kernel, ?_⟩
  intro c hc k hk v hv
  simp only [absentFieldSM, List.mem_singleton] at hc
  subst hc
  simp only [T.smChartProperties, List.mem_cons, List.not_mem_nil, or_false] at hk
  rcases hk with rfl | rfl | rfl | rfl | rfl | rfl <;> simp [Dict.get?, List.lookup] at hv
  subst hv; decide
example : ¬ DomSM' absentFieldSM := by decide +kernel
example : ∃ s', loadSM (paramsOf (serSM absentFieldSM)) = .ok s' ∧ absentFieldSM.pyEq s' = false ∧
    serSM s' = serSM absentFieldSM ∧
    s'.charts.map (fun c => c.fields.get? "STEPSTYPE".toList) = [some (some "None".toList)] :=
  ⟨_, loadSM_serSM _ (by decide) (by decide +kernel) (by decide +kernel), by decide +kernel, by decide +kernel,
    by decide +kernel⟩

/-! each exclusion in `SafeContent` is needed: the condition fails, `safeDoc` fails, and (except for a '#' inside a
key, see below) the modelled msdparser really reads the text back as different parameters -/

abbrev badRoundTrip (s : SMSimfile) : Prop :=
  SafeContent s = false ∧ safeDoc (serSM s) = false ∧
    MsdP.msd.tokenize true (MsdP.msd.renderDoc (serSM s)) ≠ .ok (paramsOf (serSM s))

/-- a value in which '#' follows a line break, through ":;\\" -/
example : badRoundTrip ⟨[("A".toList, some "x\n:;\\#y".toList)], []⟩ := by decide +kernel
/-- a value with three consecutive '/' -/
example : badRoundTrip ⟨[("A".toList, some "x///y".toList)], []⟩ := by decide +kernel
/-- an empty key whose value starts with '#' (the parameter follows a line break) -/
example : badRoundTrip ⟨[("T".toList, some []), ([], some "#y".toList)], []⟩ := by decide +kernel
/-- a key made of `\ : ;` only -/
example : badRoundTrip ⟨[("T".toList, some []), ("\\:".toList, some "#y".toList)], []⟩ := by decide +kernel
/-- a key ending in a line break, value starting with '#' -/
example : badRoundTrip ⟨[("A\n".toList, some "#y".toList)], []⟩ := by decide +kernel
/-- a key starting with '#', after a line break -/
example : badRoundTrip ⟨[("T".toList, some []), ("#A".toList, some "v".toList)], []⟩ := by decide +kernel
/-- SM note data starting with '#' -/
example : badRoundTrip ⟨[], [⟨("NOTES".toList, some "#00".toList) :: T.blankSMChart, none⟩]⟩ := by decide +kernel
/-- an extra chart component starting with '#' -/
example : badRoundTrip ⟨[], [⟨T.blankSMChart, some ["#x".toList]⟩]⟩ := by decide +kernel
/-- a '#' in the middle of a key is excluded by `safeDoc` (and by the property text) although the modelled msdparser
(like the real one) reads it back correctly: here the exclusion is stronger than necessary -/
example : SafeContent ⟨[("A#B".toList, some "v".toList)], []⟩ = false ∧
    safeDoc (serSM ⟨[("A#B".toList, some "v".toList)], []⟩) = false ∧
    MsdP.msd.tokenize true (MsdP.msd.renderDoc (serSM ⟨[("A#B".toList, some "v".toList)], []⟩)) =
      .ok (paramsOf (serSM ⟨[("A#B".toList, some "v".toList)], []⟩)) := by decide +kernel
/-- `SafeContent` is only sufficient: a key ending in a line break is harmless when the value does not start with '#' -/
example : SafeContent ⟨[("A\n".toList, some "y".toList)], []⟩ = false ∧
    safeDoc (serSM ⟨[("A\n".toList, some "y".toList)], []⟩) = true := by decide +kernel

end Simfile.C01More
